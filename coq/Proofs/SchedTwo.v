(* C18: two simulators in one process share no modelled state (translator: the only package-level variable
   written after init is the tester's hook; ast.idCounter is atomic since 328e0e4).  A schedule over both is
   an interleaving of one schedule per simulator, and each simulator's outcome is its own. *)
From Coq Require Import List Arith Bool Lia Permutation ZArith NArith.
From Falco Require Import Base.Res Base.SMBase Model.SM Proofs.SchedProofs Proofs.SchedSerial Proofs.SchedRequests.
From Falco Require Import Model.Sched.
Import ListNotations.

Section Two.
  Variables (S R : Type).
  Notation config := (config S R).

  (* one tick: which simulator (false = first), which of its threads *)
  Definition tick2 (x : bool * nat) (cc : config * config) : option (config * config) :=
    if fst x then match tick (snd x) (snd cc) with Some c => Some (fst cc, c) | None => None end
    else match tick (snd x) (fst cc) with Some c => Some (c, snd cc) | None => None end.
  Fixpoint exec2 (sched : list (bool * nat)) (cc : config * config) : option (config * config) :=
    match sched with
    | [] => Some cc
    | x :: t => match tick2 x cc with Some cc' => exec2 t cc' | None => None end
    end.
  Definition proj (b : bool) (sched : list (bool * nat)) : list nat :=
    map snd (filter (fun x => Bool.eqb (fst x) b) sched).

  Lemma exec2_independent sched : forall c1 c2 c1' c2',
    exec2 sched (c1, c2) = Some (c1', c2') ->
    exec (proj false sched) c1 = Some c1' /\ exec (proj true sched) c2 = Some c2'.
  Proof.
    induction sched as [|[b i] t IH]; intros c1 c2 c1' c2' H; cbn [exec2] in H.
    - inversion H; subst. split; reflexivity.
    - unfold tick2 in H. cbn [fst snd] in H. destruct b; unfold proj; simpl filter; simpl map; fold (proj false t); fold (proj true t).
      + destruct (tick i c2) as [c|] eqn:E; [|discriminate]. cbn [exec]. rewrite E. apply IH. exact H.
      + destruct (tick i c1) as [c|] eqn:E; [|discriminate]. cbn [exec]. rewrite E. apply IH. exact H.
  Qed.
End Two.

(* two simulators, each with its own requests and its own persistent state: whatever the joint interleaving,
   each simulator ends as run_history of ITS requests in ITS lock-acquisition order *)
Theorem two_simulators_serialisable (reqs1 reqs2 : list (oracle * request)) (p1 p2 : persistent) sched c1 c2 :
  exec2 persistent report sched (init (map handler (map request_body reqs1)) p1,
                                 init (map handler (map request_body reqs2)) p2) = Some (c1, c2) ->
  finished (length reqs1) c1 -> finished (length reqs2) c2 ->
  (exists rs, run_history (map (fun i => nth i reqs1 req0) (acq c1)) p1 = OK (rs, st c1) /\ length rs = length reqs1) /\
  (exists rs, run_history (map (fun i => nth i reqs2 req0) (acq c2)) p2 = OK (rs, st c2) /\ length rs = length reqs2).
Proof.
  intros H F1 F2. destruct (exec2_independent _ _ _ _ _ _ _ H) as [E1 E2].
  split.
  - destruct (requests_serialisable reqs1 p1 (proj false sched) c1) as (_ & rs & Hh & Hl & _).
    { split; [exact E1|]. rewrite !map_length. exact F1. }
    exists rs. auto.
  - destruct (requests_serialisable reqs2 p2 (proj true sched) c2) as (_ & rs & Hh & Hl & _).
    { split; [exact E2|]. rewrite !map_length. exact F2. }
    exists rs. auto.
Qed.

(* witness: one request on each simulator for the same URL, ticks alternating: both miss (nothing is shared) *)
Example ex_two_simulators :
  let q := mkQ 1000%Z (fun _ => 5%N) true (fun _ => Some (true, 10000%Z)) (fun _ => None) (fun _ => []) (fun _ _ => None) in
  let one := map handler (map request_body [((fun _ _ => ANone), q)]) in
  match exec2 persistent report [(false, 0); (true, 0); (false, 0); (true, 0); (false, 0); (true, 0); (false, 0); (true, 0)]
              (init one SM.init, init one SM.init) with
  | Some (c1, c2) => option_map r_cached (resp c1 0) = Some false /\ option_map r_cached (resp c2 0) = Some false /\
                     length (p_cache (st c1)) = 1 /\ length (p_cache (st c2)) = 1
  | None => False
  end.
Proof. vm_compute. repeat split; reflexivity. Qed.
