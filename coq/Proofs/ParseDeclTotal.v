(* Declarations and the three entry points: parse_total (the parser never runs out of the fuel it
   is given: S (tokens) at the top, 4 * tokens + 8 for nested statements, 2 * tokens + 4 for
   expressions) and parse_no_crash (no Go fault point is reachable on a lexer-shaped stream). *)
From Coq Require Import String.
From Coq Require Import List NArith ZArith Bool Lia.
From Falco Require Import Base.Bytes Gen.TokenTypes Model.ParseKinds Gen.ParserTables
  Model.ParseBase Model.Ast Model.ParseLit Model.ParseExpr Model.ParseStmt Model.ParseDecl Model.Yield
  Proofs.ParseTables Proofs.ParseLitTotal Proofs.ParseExprYield Proofs.ParseExprTotal
  Proofs.ParseStmtYield Proofs.ParseDeclYield Proofs.ParseStmtTotal.
Import ListNotations.
Local Open Scope parse_scope.

Ltac rch_go :=
  first
  [ apply reach_refl
  | match goal with
    | |- reach _ (next _) => apply reach_next_r; rch_go
    | H : reach ?x ?t |- reach _ ?t => apply (reach_trans _ x t); [rch_go | exact H]
    end ].
Ltac at_ s2 := match goal with |- GR ?s _ => apply (GR_reach s s2); [solve [rch_go] | ] end.

Section T.
Variable fok : str -> bool.

Lemma plong_GR st : typ (cur st) = T_OPEN_LONG_STRING -> GR st (plong st).
Proof.
  intros Ho. destruct (plong_G st Ho) as [H1 H2]. repeat split; auto.
  intros [[[o s] c] v] s' E. apply plong_reach in E. subst. rch_go.
Qed.

Lemma pblock_GR st : toks st <> [] -> GR st (pblock fok (stmt_fuel st) st).
Proof.
  intros Hne. apply (stmt_total_all fok (stmt_fuel st)); [exact Hne | unfold stmt_fuel, L; lia].
Qed.

(* a loop whose body consumes at least one token, with the tokens that are left as fuel *)
Lemma len_app_lt (pre post : list token) (a b : list token) :
  a = pre ++ b -> pre <> [] -> length b < length a.
Proof. intros -> H. rewrite app_length. destruct pre; [congruence | simpl; lia]. Qed.

Lemma ycidr_nonempty c : ycidr c <> [].
Proof. destruct c as [inv ip mask semi]. unfold ycidr. destruct inv, ip; simpl; discriminate. Qed.

Lemma pcidr_GR st : GR st (pcidr st).
Proof.
  unfold pcidr.
  set (st1 := if cur_is st T_NOT then next st else st).
  assert (R1 : reach st st1) by (subst st1; destruct (cur_is st T_NOT); rch_go).
  at_ st1. apply GR_bind.
  - destruct (typ (cur st1)) eqn:Et; try apply GR_err_cur.
    + apply GR_ok, reach_refl.
    + apply GR_bind; [apply plong_GR; exact Et|]. intros [[[o s] c] v] s' _ _. apply GR_ok, reach_refl.
  - intros ip s2 _ _. apply GR_bind.
    + destruct (peek_is s2 T_SLASH); [|apply GR_ok, reach_refl].
      at_ (next s2). apply GR_expect. apply GR_bindv; [apply pint_GV|]. intros v. apply GR_ok, reach_refl.
    + intros mask s3 _ _. apply GR_semi, GR_ok, reach_refl.
Qed.

Lemma pcidrs_GR : forall n st acc, L (next st) < n -> GR st (pcidrs n st acc).
Proof.
  induction n as [|n IH]; intros st acc Hn; [lia|].
  cbn [pcidrs]. destruct (peek_is st T_RIGHT_BRACE); [apply GR_ok, reach_refl|].
  at_ (next st). apply GR_bind; [apply pcidr_GR|]. intros c s1 E _.
  assert (Hne : typ (cur (next st)) <> T_EOF).
  { intros E0. unfold pcidr, cur_is in E. rewrite E0 in E. cbn in E. rewrite E0 in E. discriminate. }
  apply (pcidr_yield fok) in E; [|apply cur_not_eof; exact Hne].
  apply IH. pose proof (len_app_lt _ [] _ _ E (ycidr_nonempty c)). unfold L, after in *. simpl in *. lia.
Qed.

Lemma pacl_GR st : GR st (pacl st).
Proof.
  unfold pacl. apply GR_expect, GR_expect.
  apply GR_bind; [apply pcidrs_GR; rewrite L_next; unfold L; lia|].
  intros cs s3 _ _. apply GR_ok. rch_go.
Qed.

(* backend properties: 2 * tokens + 2 *)
Lemma ybprop_nonempty p : ybprop p <> [].
Proof. destruct p; simpl; discriminate. Qed.

Lemma pbprop_GR_all : forall n,
  (forall st, 2 * L (next st) + 1 <= n -> GR st (pbprop fok n st)) /\
  (forall st acc, 2 * L (next st) + 2 <= n -> GR st (pbprops fok n st acc)).
Proof.
  induction n as [|n [IHp IHl]]; [split; intros; lia|].
  split.
  - intros st Hb. cbn [pbprop].
    apply GR_expect'; [discriminate|]. intros N1. apply GR_expect'; [discriminate|]. intros N2.
    apply GR_expect'; [discriminate|]. intros N3.
    pose proof (L_next_lt _ N1). pose proof (L_next_lt _ N2). pose proof (L_next_lt _ N3).
    destruct (cur_is _ T_LEFT_BRACE).
    + at_ (next (next (next (next st)))). apply GR_bind; [apply IHl; rewrite !L_next in *; lia|].
      intros ps s5 _ _. apply GR_ok. rch_go.
    + at_ (next (next (next (next st)))). apply GR_bind; [apply parse_expr_GR|]. intros e s5 _ _.
      apply GR_semi, GR_ok, reach_refl.
  - intros st acc Hb. cbn [pbprops]. destruct (peek_is st T_RIGHT_BRACE); [apply GR_ok, reach_refl|].
    apply GR_bind; [apply IHp; lia|]. intros p s1 E _.
    apply (proj1 (pbprop_yield_all fok n)) in E.
    pose proof (len_app_lt _ [] _ _ E (ybprop_nonempty p)) as Hl.
    apply IHl. unfold L, after in *. simpl in *. lia.
Qed.

Lemma pbackend_GR st : GR st (pbackend fok st).
Proof.
  unfold pbackend. apply GR_expect, GR_expect.
  apply GR_bind; [apply (proj2 (pbprop_GR_all _)); unfold stmt_fuel; fold (L (next (next st))); rewrite (L_next (next (next st))); lia|].
  intros ps s3 _ _. apply GR_ok. rch_go.
Qed.

Lemma pdfield_GR st : GR st (pdfield fok st).
Proof.
  unfold pdfield, expect_peek.
  destruct (peek_is st T_IDENT); [|destruct (peek_is st T_BACKEND); [|apply GR_err_peek]]; cbn [pbind];
    (at_ (next st); apply GR_expect; at_ (next (next (next st)));
     apply GR_bind; [apply parse_expr_GR|]; intros e s3 _ _; apply GR_semi, GR_ok, reach_refl).
Qed.

Lemma ydfield_nonempty f : ydfield f <> [].
Proof. destruct f; simpl; discriminate. Qed.

Lemma pdfields_GR : forall n st acc, L (next st) < n -> GR st (pdfields fok n st acc).
Proof.
  induction n as [|n IH]; intros st acc Hn; [lia|].
  cbn [pdfields]. destruct (peek_is st T_RIGHT_BRACE); [apply GR_ok, reach_refl|].
  unfold expect, expect_peek. destruct (peek_is st T_DOT) eqn:Ed; cbn [pbind]; [|apply GR_err_peek].
  at_ (next st). apply GR_bind; [apply pdfield_GR|]. intros f s2 E _.
  apply pdfield_yield in E; [|apply cur_not_eof; rewrite <- peek_next; apply peek_is_true in Ed; congruence].
  pose proof (len_app_lt _ [] _ _ E (ydfield_nonempty f)) as Hl.
  apply IH. unfold L, after in *. simpl in *. lia.
Qed.

Lemma pdbackend_GR st : GR st (pdbackend fok st).
Proof.
  unfold pdbackend. apply GR_bind; [apply pdfields_GR; rewrite L_next; unfold L; lia|].
  intros fs s1 _ _. apply GR_ok. rch_go.
Qed.

Lemma ydprop_nonempty p : ydprop p <> [].
Proof. destruct p as [[]|]; simpl; discriminate. Qed.

Lemma pdprops_GR : forall n st acc, L (next st) < n -> GR st (pdprops fok n st acc).
Proof.
  induction n as [|n IH]; intros st acc Hn; [lia|].
  cbn [pdprops]. destruct (peek_is st T_RIGHT_BRACE) eqn:Er; [apply GR_ok, reach_refl|].
  apply GR_bind.
  - destruct (typ (peek st)); try apply GR_err_peek.
    + at_ (next st). apply pdbackend_GR.
    + at_ (next st). apply GR_bind; [apply pdfield_GR|]. intros f s _ _. apply GR_ok, reach_refl.
  - intros p s1 E _.
    assert (Hl : L (next s1) < L (next st)).
    { assert (Hy : exists pre, pre <> [] /\ toks (next st) = pre ++ after s1).
      {         destruct (typ (peek st)) eqn:Et; try discriminate.
        - exists (ydprop p). split; [apply ydprop_nonempty|].
          apply (pdbackend_yield fok); [apply cur_not_eof; rewrite <- peek_next; congruence | exact E].
        - bi E x H2. destruct x as [f sx]. inversion E; subst.
          exists (ydfield f). split; [apply ydfield_nonempty|].
          apply (pdfield_yield fok); [apply cur_not_eof; rewrite <- peek_next; congruence | exact H2]. }
      destruct Hy as [pre [Hp Hy]]. pose proof (len_app_lt _ [] _ _ Hy Hp). unfold L, after in *. simpl in *. lia. }
    apply IH. lia.
Qed.

Lemma pdirector_GR st : GR st (pdirector fok st).
Proof.
  unfold pdirector. apply GR_expect, GR_expect, GR_expect.
  apply GR_bind; [apply pdprops_GR; rewrite L_next; unfold L; lia|].
  intros ps s4 _ _. apply GR_ok. rch_go.
Qed.

Lemma ptprop_GR st : GR st (ptprop fok st).
Proof.
  unfold ptprop. apply GR_bind.
  - destruct (typ (peek st)) eqn:Et; try apply GR_err_peek.
    + apply GR_bindv; [apply pstring_GV|]. intros v. apply GR_ok. rch_go.
    + at_ (next st). apply GR_bind; [apply plong_GR; rewrite <- peek_next; exact Et|].
      intros [[[o s] c] v] s' _ _. apply GR_ok, reach_refl.
  - intros key s1 _ _. apply GR_expect. at_ (next (next s1)). apply GR_bind.
    + destruct (typ (cur (next (next s1)))) eqn:Et; try apply GR_err_cur.
      * apply GR_ok, reach_refl.
      * unfold pinteger. apply GR_bindv; [apply pint_GV|]. intros v. apply GR_ok, reach_refl.
      * apply GR_bindv; [apply pstring_GV|]. intros v. apply GR_ok, reach_refl.
      * apply GR_bind; [apply plong_GR; exact Et|]. intros [[[o s] c] v] s' _ _. apply GR_ok, reach_refl.
      * unfold pfloat. destruct (fok _); [apply GR_ok, reach_refl | apply GR_err_cur].
      * unfold prtime. destruct (rtime_value _); [|apply GR_err_cur].
        destruct (fok _); [apply GR_ok, reach_refl | apply GR_err_cur].
      * apply GR_ok, reach_refl.
      * apply GR_ok, reach_refl.
    + intros v s4 _ _. destruct (typ (peek s4)); try apply GR_err_peek; apply GR_ok; rch_go.
Qed.

Lemma ytprop_nonempty p : ytprop p <> [].
Proof.
  destruct p as [k colon v comma]. unfold ytprop. pose proof (yexpr_nonempty k).
  destruct (yexpr k); [congruence | simpl; discriminate].
Qed.

Lemma ptprops_GR : forall n st acc, L (next st) < n -> GR st (ptprops fok n st acc).
Proof.
  induction n as [|n IH]; intros st acc Hn; [lia|].
  cbn [ptprops]. destruct (peek_is st T_RIGHT_BRACE); [apply GR_ok, reach_refl|].
  apply GR_bind; [apply ptprop_GR|]. intros p s1 E _.
  apply ptprop_yield in E. pose proof (len_app_lt _ [] _ _ E (ytprop_nonempty p)) as Hl.
  apply IH. unfold L, after in *. simpl in *. lia.
Qed.

Lemma ptable_GR st : GR st (ptable fok st).
Proof.
  unfold ptable. apply GR_expect.
  set (st2 := if peek_is (next st) T_IDENT then next (next st) else next st).
  assert (R : reach (next st) st2) by (subst st2; destruct (peek_is (next st) T_IDENT); rch_go).
  at_ st2. apply GR_expect.
  apply GR_bind; [apply ptprops_GR; rewrite L_next; unfold L; lia|].
  intros ps s4 _ _. apply GR_ok. rch_go.
Qed.

Lemma pparams_GR : forall n st acc, L (next st) < n -> GR st (pparams n st acc).
Proof.
  induction n as [|n IH]; intros st acc Hn; [lia|].
  cbn [pparams]. destruct (_ || _) eqn:Es; [apply GR_ok, reach_refl|].
  unfold expect at 1, expect_peek. destruct (peek_is st T_IDENT) eqn:E1; cbn [pbind]; [|apply GR_err_peek].
  pose proof (expect_nonempty _ _ E1 ltac:(discriminate)) as Hne.
  pose proof (L_next_lt _ Hne) as Hl.
  at_ (next st). apply GR_expect.
  destruct (peek_is (next (next st)) T_COMMA).
  - at_ (next (next (next st))). apply IH. rewrite !L_next in *. lia.
  - destruct (negb _); [apply GR_err_peek|]. apply IH. rewrite !L_next in *. lia.
Qed.

Lemma psub_GR st : GR st (psub fok st).
Proof.
  unfold psub. apply GR_expect. apply GR_bind.
  - destruct (peek_is (next st) T_LEFT_PAREN); [|apply GR_ok, reach_refl].
    at_ (next (next st)). apply GR_bind; [apply pparams_GR; rewrite L_next; unfold L; lia|].
    intros ps s1 _ _. apply GR_expect. apply GR_ok, reach_refl.
  - intros params s2 _ _.
    set (st3 := if peek_is s2 T_IDENT then next s2 else s2).
    assert (R : reach s2 st3) by (subst st3; destruct (peek_is s2 T_IDENT); rch_go).
    at_ st3. apply GR_expect'; [discriminate|]. intros Hne.
    apply GR_bind; [apply pblock_GR; exact Hne|].
    intros [[lb ss] rb] s5 _ _. apply GR_ok, reach_refl.
Qed.

Lemma pnamed_block_GR mk st : GR st (pnamed_block fok mk st).
Proof.
  unfold pnamed_block. apply GR_expect. apply GR_expect'; [discriminate|]. intros Hne.
  apply GR_bind; [apply pblock_GR; exact Hne|].
  intros [[lb ss] rb] s3 _ _. apply GR_ok, reach_refl.
Qed.

Lemma parse_decl_GR st : GR st (parse_decl fok st).
Proof.
  unfold parse_decl. apply GR_bind.
  - destruct (typ (cur st)); try apply GR_err_cur;
      first [ apply pacl_GR | apply pdirector_GR | apply pbackend_GR | apply ptable_GR | apply psub_GR
            | apply pinclude_GR | apply pkw_ident_GR | apply pnamed_block_GR ].
  - intros d s1 _ _. apply GR_ok. rch_go.
Qed.

Lemma pvcl_GR : forall n st acc, L st < n -> GR st (pvcl fok n st acc).
Proof.
  induction n as [|n IH]; intros st acc Hn; [lia|].
  cbn [pvcl]. destruct (cur_is st T_EOF); [apply GR_ok, reach_refl|].
  apply GR_bind; [apply parse_decl_GR|]. intros d s1 E _.
  apply parse_decl_yield in E. pose proof (len_app_lt _ [] _ _ E (ystmt_nonempty d)) as Hl.
  apply IH. unfold L in *. lia.
Qed.

Lemma snippet_stmt_GR st : toks st <> [] -> GR st (snippet_stmt fok st).
Proof.
  intros Hne. unfold snippet_stmt. apply GR_bind.
  - destruct (typ (cur st)) eqn:Et;
      try (destruct (psimple fok st) as [r|] eqn:Ep; [apply (psimple_GR fok); exact Ep | apply GR_err_peek]).
    + (* IDENT *) destruct (peek_is st T_LEFT_PAREN); [apply pfuncall_GR|].
      destruct (pgotodest st) as [[s0 s1]|] eqn:Eg; [|apply GR_err_peek].
      unfold pgotodest in Eg. destruct (is_goto_dest (cur st)); inversion Eg; subst. apply GR_ok, reach_refl.
    + (* LEFT_BRACE *) apply GR_bind; [apply pblock_GR; exact Hne|].
      intros [[lb ss] rb] s' _ _. apply GR_ok, reach_refl.
    + (* IF *) apply (stmt_total_all fok (stmt_fuel st)); [exact Hne | unfold stmt_fuel, L; lia].
    + (* SWITCH *) apply (stmt_total_all fok (stmt_fuel st)); [exact Hne | unfold stmt_fuel, L; lia].
  - intros s s1 _ _. apply GR_ok. rch_go.
Qed.

Lemma psnippet_GR : forall n st acc, L st < n -> GR st (psnippet fok n st acc).
Proof.
  induction n as [|n IH]; intros st acc Hn; [lia|].
  cbn [psnippet]. destruct (cur_is st T_EOF) eqn:Ee; [apply GR_ok; rch_go|].
  assert (Hne : toks st <> []).
  { intros E. unfold cur_is, cur in Ee. rewrite E in Ee. discriminate. }
  apply GR_bind; [apply snippet_stmt_GR; exact Hne|]. intros s s1 E _.
  apply snippet_stmt_yield in E; [|apply toks_cur; exact Hne].
  pose proof (len_app_lt _ [] _ _ E (ystmt_nonempty s)) as Hl.
  apply IH. unfold L in *. lia.
Qed.

(* ---------- the exported theorems: every entry point, every token list *)
Theorem parse_vcl_total ts : parse_vcl fok ts <> PFuel.
Proof.
  unfold parse_vcl. destruct (pvcl_GR (S (length ts)) (start ts) []) as [H _]; [unfold L; simpl; lia|].
  destruct (pvcl fok (S (length ts)) (start ts) []) as [[ss s]| | | |]; cbn [pbind]; try discriminate. congruence.
Qed.

Theorem parse_vcl_no_crash ts : long_ok ts = true -> parse_vcl fok ts <> PCrash.
Proof.
  intros Hw. unfold parse_vcl. destruct (pvcl_GR (S (length ts)) (start ts) []) as [_ [H _]]; [unfold L; simpl; lia|].
  specialize (H Hw).
  destruct (pvcl fok (S (length ts)) (start ts) []) as [[ss s]| | | |]; cbn [pbind]; try discriminate. congruence.
Qed.

Theorem parse_snippet_total ts : parse_snippet fok ts <> PFuel.
Proof.
  unfold parse_snippet. destruct (psnippet_GR (S (length ts)) (start ts) []) as [H _]; [unfold L; simpl; lia|].
  destruct (psnippet fok (S (length ts)) (start ts) []) as [[ss s]| | | |]; cbn [pbind]; try discriminate. congruence.
Qed.

Theorem parse_snippet_no_crash ts : long_ok ts = true -> parse_snippet fok ts <> PCrash.
Proof.
  intros Hw. unfold parse_snippet.
  destruct (psnippet_GR (S (length ts)) (start ts) []) as [_ [H _]]; [unfold L; simpl; lia|].
  specialize (H Hw).
  destruct (psnippet fok (S (length ts)) (start ts) []) as [[ss s]| | | |]; cbn [pbind]; try discriminate. congruence.
Qed.

Theorem parse_total ts : parse_vcl_or_snippet fok ts <> PFuel.
Proof.
  unfold parse_vcl_or_snippet. destruct (_ || _); [apply parse_vcl_total | apply parse_snippet_total].
Qed.

Theorem parse_no_crash ts : long_ok ts = true -> parse_vcl_or_snippet fok ts <> PCrash.
Proof.
  intros Hw. unfold parse_vcl_or_snippet.
  destruct (_ || _); [apply parse_vcl_no_crash | apply parse_snippet_no_crash]; exact Hw.
Qed.

End T.
