(* C16 - with links: every other name of FILE's inode keeps the original bytes at every moment of
   every faulted run; FILE itself holds the original bytes or the formatted text. *)
From Coq Require Import List NArith Bool Lia PeanoNat.
From Coq Require Import Strings.Byte.
From Falco Require Import Base.Bytes Model.FsProto Model.FsLinks Proofs.FsProtoProofs.
Import ListNotations.

(* effects that only concern the temporary file *)
Definition tmp_eff (e : eff) : bool :=
  match e with
  | ECreate TMP | EAppend TMP _ | ERemove TMP => true
  | _ => false
  end.
Definition tmp_only (es : list eff) : bool := forallb tmp_eff es.

Lemma tmp_only_app a b : tmp_only (a ++ b) = tmp_only a && tmp_only b.
Proof. unfold tmp_only. apply forallb_app. Qed.
Lemma tmp_only_cons e l : tmp_only (e :: l) = tmp_eff e && tmp_only l.
Proof. reflexivity. Qed.
Lemma tmp_only_appends d : tmp_only (map (EAppend TMP) d) = true.
Proof. induction d as [|b d IH]; [reflexivity | exact IH]. Qed.

Ltac fail_branch2 faults :=
  cb; repeat (match goal with |- context [faults ?n] => destruct (faults n); cb end);
  right; (split; [reflexivity | rewrite ?tmp_only_cons, ?tmp_only_app, ?tmp_only_cons, ?tmp_only_appends; reflexivity]).

Lemma exec_fmt_w_tmp out faults :
  (snd (exec 0 faults (fmt_w (FmtOk out))) = 0 /\ fst (exec 0 faults (fmt_w (FmtOk out))) = ok_effs out) \/
  (snd (exec 0 faults (fmt_w (FmtOk out))) = 1 /\ tmp_only (fst (exec 0 faults (fmt_w (FmtOk out)))) = true).
Proof.
  unfold fmt_w, cl_open, cl_closed, ok_effs.
  cbn [exec effects_of cleanup_effs].
  destruct (faults 0). 2: { fail_branch2 faults. } 2: { fail_branch2 faults. } cb.
  destruct (faults 1). 2: { fail_branch2 faults. } 2: { fail_branch2 faults. } cb.
  destruct (faults 2). 2: { fail_branch2 faults. } 2: { fail_branch2 faults. } cb.
  destruct (faults 3). 2: { fail_branch2 faults. } 2: { fail_branch2 faults. } cb.
  destruct (faults 4). 2: { fail_branch2 faults. } 2: { fail_branch2 faults. } cb.
  destruct (faults 5). 2: { fail_branch2 faults. } 2: { fail_branch2 faults. } cb.
  destruct (faults 6). 2: { fail_branch2 faults. } 2: { fail_branch2 faults. } cb.
  destruct (faults 7). 2: { fail_branch2 faults. } 2: { fail_branch2 faults. } cb.
  left. split; reflexivity.
Qed.

(* the invariant of a run of temporary-file effects *)
Record inv (f0 f : ifs) (fresh i0 : nat) : Prop := {
  inv_names : forall q, q <> TMP -> names f q = names f0 q;
  inv_tmp : names f TMP = None \/ names f TMP = Some fresh;
  inv_data : idata f i0 = idata f0 i0
}.

Lemma path_eqb_eq a b : path_eqb a b = true <-> a = b.
Proof.
  destruct a, b; simpl; split; intros H; try reflexivity; try discriminate.
  - apply Nat.eqb_eq in H. subst. reflexivity.
  - inversion H. apply Nat.eqb_refl.
Qed.

Lemma path_eqb_neq a b : a <> b -> path_eqb a b = false.
Proof. intros H. destruct (path_eqb a b) eqn:E; [apply path_eqb_eq in E; contradiction | reflexivity]. Qed.

Lemma iapply_inv f0 f fresh i0 e : fresh <> i0 -> tmp_eff e = true -> inv f0 f fresh i0 -> inv f0 (iapply fresh e f) fresh i0.
Proof.
  intros Hf He [H1 H2 H3].
  assert (Hne : Nat.eqb fresh i0 = false) by (apply Nat.eqb_neq; exact Hf).
  destruct e as [p|p|p b|s d|p]; simpl in He; try discriminate; destruct p; try discriminate; cbn [iapply].
  - (* create *)
    constructor; cbn [names idata set_data set_name].
    + intros q Hq. rewrite (path_eqb_neq TMP q) by congruence. apply H1. exact Hq.
    + right. rewrite path_eqb_refl. reflexivity.
    + rewrite Hne. exact H3.
  - (* append *)
    destruct H2 as [H2|H2]; rewrite H2.
    + constructor; auto.
    + destruct (idata f fresh); [|constructor; auto].
      constructor; cbn [names idata set_data set_name]; auto.
      rewrite Hne. exact H3.
  - (* remove *)
    constructor; cbn [names idata set_data set_name].
    + intros q Hq. rewrite (path_eqb_neq TMP q) by congruence. apply H1. exact Hq.
    + left. rewrite path_eqb_refl. reflexivity.
    + exact H3.
Qed.

Lemma irun_inv es : forall f0 f fresh i0, fresh <> i0 -> tmp_only es = true -> inv f0 f fresh i0 -> inv f0 (irun fresh es f) fresh i0.
Proof.
  induction es as [|e es IH]; intros f0 f fresh i0 Hf H Hi; [exact Hi|].
  simpl in H. apply andb_true_iff in H. destruct H as [He Hes].
  simpl. apply IH; [exact Hf | exact Hes | apply iapply_inv; assumption].
Qed.

Lemma inv_refl f fresh i0 : names f TMP = None -> inv f f fresh i0.
Proof. intros H. constructor; auto. Qed.

Lemma tmp_only_firstn k es : tmp_only es = true -> tmp_only (firstn k es) = true.
Proof.
  revert k. induction es as [|e es IH]; intros [|k] H; simpl in *; try reflexivity.
  apply andb_true_iff in H. destruct H as [He Hes]. rewrite He, (IH k Hes). reflexivity.
Qed.

(* the temporary file after create + all the bytes *)
Lemma irun_appends d : forall f i x, names f TMP = Some i -> idata f i = Some x ->
  names (irun i (map (EAppend TMP) d) f) = names f /\ idata (irun i (map (EAppend TMP) d) f) i = Some (x ++ d) /\
  (forall j, j <> i -> idata (irun i (map (EAppend TMP) d) f) j = idata f j).
Proof.
  induction d as [|b d IH]; intros f i x Hn Hd; simpl.
  - rewrite app_nil_r. auto.
  - rewrite Hn, Hd.
    destruct (IH (set_data f i (Some (x ++ [b]))) i (x ++ [b])) as (A & B & C).
    + exact Hn.
    + simpl. rewrite Nat.eqb_refl. reflexivity.
    + split; [exact A|]. split; [rewrite B, <- app_assoc; reflexivity|].
      intros j Hj. rewrite (C j Hj). simpl. destruct (Nat.eqb i j) eqn:E; [apply Nat.eqb_eq in E; congruence | reflexivity].
Qed.

Section Links.
Variable formatted : bytes -> fmt_result.

Theorem links_atomic content faults k f0 fresh i0 :
  names f0 FILE = Some i0 -> idata f0 i0 = Some content -> names f0 TMP = None -> fresh <> i0 ->
  let f' := irun fresh (firstn k (inject faults (fmt_w (formatted content)))) f0 in
  (* every other name of the inode (hard link, resolved symbolic link) keeps the original bytes *)
  (forall q, q <> FILE -> q <> TMP -> names f0 q = Some i0 -> iread f' q = Some content) /\
  (* FILE: original or formatted *)
  (iread f' FILE = Some content \/ exists out, formatted content = FmtOk out /\ iread f' FILE = Some out) /\
  (* on failure: original *)
  (exit_of faults (formatted content) <> 0 -> iread f' FILE = Some content).
Proof.
  intros Hn Hd Ht Hf. cbv zeta. unfold inject, exit_of.
  assert (Hquiet : forall es, tmp_only es = true ->
            (forall q, q <> TMP -> names f0 q = Some i0 -> iread (irun fresh (firstn k es) f0) q = Some content)).
  { intros es Hes q Hq Hq0.
    destruct (irun_inv (firstn k es) f0 f0 fresh i0 Hf (tmp_only_firstn k es Hes) (inv_refl f0 fresh i0 Ht)) as [A _ C].
    unfold iread. rewrite (A q Hq), Hq0, C. exact Hd. }
  destruct (formatted content) as [out| | |] eqn:E.
  2,3,4: (simpl; rewrite firstn_nil; simpl; unfold iread; repeat split;
          [intros q _ _ Hq; rewrite Hq; exact Hd | left; rewrite Hn; exact Hd | intros _; rewrite Hn; exact Hd]).
  destruct (exec_fmt_w_tmp out faults) as [[Hz Hes]|[Ho Hq]].
  - rewrite Hes, Hz. unfold ok_effs.
    set (pre := ECreate TMP :: map (EAppend TMP) out).
    destruct (Nat.le_gt_cases k (length pre)) as [Hk|Hk].
    + change (ECreate TMP :: map (EAppend TMP) out ++ [ERename TMP FILE]) with (pre ++ [ERename TMP FILE]).
      rewrite firstn_app. replace (k - length pre) with 0 by lia. change (firstn 0 [ERename TMP FILE]) with (@nil eff). rewrite app_nil_r.
      assert (Hp : tmp_only pre = true) by (unfold pre; simpl; apply tmp_only_appends).
      destruct (irun_inv (firstn k pre) f0 f0 fresh i0 Hf (tmp_only_firstn k pre Hp) (inv_refl f0 fresh i0 Ht)) as [A _ C].
      assert (HF : iread (irun fresh (firstn k pre) f0) FILE = Some content).
      { unfold iread. rewrite (A FILE) by discriminate. rewrite Hn, C. exact Hd. }
      split; [|split; [left; exact HF | intros _; exact HF]].
      intros q Hq1 Hq2 Hq0. unfold iread. rewrite (A q Hq2), Hq0, C. exact Hd.
    + rewrite firstn_all2 by (unfold pre in Hk; simpl in *; rewrite app_length in *; simpl; lia).
      (* the complete successful run *)
      simpl irun.
      set (f1 := set_data (set_name f0 TMP (Some fresh)) fresh (Some [])).
      destruct (irun_appends out f1 fresh []) as (A & B & C).
      { unfold f1. simpl. reflexivity. }
      { unfold f1. simpl. rewrite Nat.eqb_refl. reflexivity. }
      assert (Hrun : irun fresh (map (EAppend TMP) out ++ [ERename TMP FILE]) f1 =
                     iapply fresh (ERename TMP FILE) (irun fresh (map (EAppend TMP) out) f1)).
      { clear. generalize f1. induction (map (EAppend TMP) out) as [|e l IH]; intros f; [reflexivity | simpl; apply IH]. }
      rewrite Hrun. simpl iapply. rewrite A. unfold f1 at 1. simpl names. cbn [path_eqb].
      split; [|split].
      * intros q Hq1 Hq2 Hq0. unfold iread. simpl. destruct q as [| |n]; [congruence | congruence|].
        rewrite A. unfold f1. cbn [names set_data set_name path_eqb]. rewrite Hq0.
        fold f1. rewrite (C i0) by congruence. unfold f1. cbn [idata set_data set_name].
        replace (Nat.eqb fresh i0) with false by (symmetry; apply Nat.eqb_neq; exact Hf). exact Hd.
      * right. exists out. split; [reflexivity|]. unfold iread. simpl. exact B.
      * intros Hx. simpl in Hx. congruence.
  - rewrite Ho. split; [|split].
    + intros q _ Hq2 Hq0. apply (Hquiet _ Hq q Hq2 Hq0).
    + left. apply (Hquiet _ Hq FILE); [discriminate | exact Hn].
    + intros _. apply (Hquiet _ Hq FILE); [discriminate | exact Hn].
Qed.
End Links.

(* witness: a hard link LINK = Other 0; short write; and the successful run detaches the link *)
Definition f_w : ifs :=
  {| names := fun p => match p with FILE => Some 1 | Other 0 => Some 1 | _ => None end;
     idata := fun i => match i with 1 => Some [x63] | _ => None end |}.
Example links_witness :
  let ok := irun 2 (inject no_faults (fmt_w (FmtOk [x61; x62]))) f_w in
  iread ok FILE = Some [x61; x62] /\ iread ok (Other 0) = Some [x63] /\ iread ok TMP = None.
Proof. vm_compute. repeat split; reflexivity. Qed.
