(* C14 core, part 2: what the pass emits for one token is left alone by the pass over the output. *)
From Coq Require Import List Bool NArith Arith Lia.
From Falco Require Import Base.Bytes Model.FmtTok Model.FmtNorm Proofs.FmtIdem1.
Import ListNotations.

Definition callhdr (s : st) : bool :=
  match mode s with MCallName => true | _ => false end
  || match hdr s with Some (1, _) => true | _ => false end.

Definition is_fresh (si so : st) : Prop :=
  match rt si, rt so with RBody _ _ _, RWant _ => True | _, _ => False end.

Lemma kis_refl_false_lparen_rparen : kis KLParen KRParen = false. Proof. reflexivity. Qed.

(* a token the input run keeps is kept by the output run, provided the look-ahead tells the same *)
Lemma keep_transfer c si so t nk nkX :
  rel si so ->
  decide c si t nk = AKeep -> opens_return si t = false ->
  (is_fresh si so -> kis (tk t) KLParen = false) ->
  (kis (tk t) KLParen = true -> callhdr si = true -> nk_is nk KRParen = false -> nk_is nkX KRParen = false) ->
  (kis (tk t) KLParen = true -> rt si = RWant false -> nk_is nk KLParen = true -> nk_is nkX KLParen = true) ->
  (kis (tk t) KPlus = true -> inexpr (mode si) = true -> pe si = true -> explicit_string_concat c = false ->
   nk_juxt nk = false -> nk_juxt nkX = false) ->
  quietb c so t nkX = true.
Proof.
  intros R D O Hfresh C2 C4 C9.
  pose proof R as [Hm Hp Hd Hf Hh Htp Ht Hpr Hr Hdp].
  unfold quietb. apply andb_true_iff. split.
  - (* no "(" is inserted *)
    apply negb_true_iff. unfold opens_return in *. unfold rt_rel in Hr.
    destruct (rt so) as [|w2|w2 dr2 d2]; auto. destruct w2; auto.
    destruct Hr as [Hr|[Hr _]]; [|discriminate]. rewrite Hr in O. exact O.
  - unfold decide in *. rewrite Hdp. simpl andb.
    destruct (dp si && kis (tk t) KRParen); [discriminate|].
    rewrite <- Hm, <- Hh.
    fold (callhdr si) in *.
    destruct (kis (tk t) KLParen && nk_is nk KRParen && callhdr si) eqn:G1; [discriminate|].
    assert (G1' : kis (tk t) KLParen && nk_is nkX KRParen && callhdr si = false).
    { destruct (kis (tk t) KLParen) eqn:Ek; auto. destruct (callhdr si) eqn:Ech; [|now rewrite andb_false_r].
      rewrite andb_true_r in G1. simpl in G1. rewrite (C2 eq_refl eq_refl G1). reflexivity. }
    rewrite G1'.
    assert (N : forall nk', (kis (tk t) KPlus = true -> inexpr (mode si) = true -> pe si = true ->
                             explicit_string_concat c = false -> nk_juxt nk = false -> nk_juxt nk' = false) ->
                normal c si t nk = AKeep -> normal c so t nk' = AKeep).
    { intros nk' C9' Hn. rewrite (normal_eq c si so t nk nk' R); auto.
      intros Hc. apply andb_true_iff in Hc as [Hc Hpe]. apply andb_true_iff in Hc as [Hc Hin].
      apply andb_true_iff in Hc as [He Hk].
      (* the input run kept the "+": the next token cannot be juxtaposed *)
      unfold normal in Hn. rewrite Hin, Hpe in Hn. simpl in Hn.
      destruct (tbl si && kis (tk t) KRBrace && negb (kis (prev si) KComma || kis (prev si) KLBrace)); [discriminate|].
      apply negb_true_iff in He. rewrite He in Hn. simpl in Hn. rewrite Hk in Hn. simpl in Hn.
      destruct (nk_juxt nk) eqn:Ej; [discriminate|]. now rewrite (C9' Hk Hin Hpe He eq_refl). }
    unfold rt_rel in Hr.
    destruct (rt so) as [|w2|w2 dr2 d2] eqn:Erso.
    + rewrite Hr in D. (rewrite (N nkX C9 D); reflexivity).
    + destruct Hr as [Hr|[-> [dr Hr]]]; rewrite Hr in D.
      * destruct w2; [rewrite (N nkX C9 D); reflexivity|].
        destruct (kis (tk t) KLParen) eqn:Ek; simpl in *; [|rewrite (N nkX C9 D); reflexivity].
        destruct (nk_is nk KLParen) eqn:En; simpl in D; [|discriminate].
        rewrite (C4 eq_refl Hr eq_refl). simpl. (rewrite (N nkX C9 D); reflexivity).
      * (* fresh: the token is not "(" *)
        rewrite Hfresh by (unfold is_fresh; rewrite Hr, Erso; exact I). simpl.
        destruct (kis (tk t) KRParen && (0 =? 0) && dr && nk_is nk KSemi); [discriminate|].
        rewrite andb_false_r in D. simpl in D. (rewrite (N nkX C9 D); reflexivity).
    + destruct Hr as [-> [dr Hr]]. rewrite Hr in D.
      rewrite andb_false_r. simpl.
      destruct (kis (tk t) KRParen && (d2 =? 0) && dr && nk_is nk KSemi); [discriminate|].
      destruct (kis (tk t) KSemi && w2 && (0 <? d2)); [discriminate|]. (rewrite (N nkX C9 D); reflexivity).
Qed.

(* ---------------------------------------------------------------- inversions of [decide] *)
Lemma spelling_cases c t :
  spelling c t = AKeep
  \/ (spelling c t = AReplace [t_else; t_if] /\ else_if c = true /\ (kis (tk t) KElseIf || kis (tk t) KElsIf) = true)
  \/ (spelling c t = AReplace [t_unset] /\ should_use_unset c = true /\ kis (tk t) KRemove = true).
Proof.
  unfold spelling.
  destruct (else_if c && (kis (tk t) KElseIf || kis (tk t) KElsIf)) eqn:E1.
  { apply andb_true_iff in E1 as [? ?]. right; left; auto. }
  destruct (should_use_unset c && kis (tk t) KRemove) eqn:E2.
  { apply andb_true_iff in E2 as [? ?]. right; right; auto. }
  now left.
Qed.

(* what [normal] can answer, with the reason *)
Inductive normal_spec (c : fmt_config) (s : st) (t : tok) (nk : option kind) : action -> Prop :=
| ns_comma : tbl s = true -> kis (tk t) KRBrace = true ->
    (kis (prev s) KComma || kis (prev s) KLBrace) = false -> normal_spec c s t nk (AInsSplit t_comma)
| ns_plus : inexpr (mode s) = true -> pe s = true -> explicit_string_concat c = true -> juxt (tk t) = true ->
    normal_spec c s t nk (AInsBefore t_plus)
| ns_drop : inexpr (mode s) = true -> pe s = true -> explicit_string_concat c = false -> kis (tk t) KPlus = true ->
    nk_juxt nk = true -> normal_spec c s t nk (ADrop PNone)
| ns_spell : (tbl s && kis (tk t) KRBrace && negb (kis (prev s) KComma || kis (prev s) KLBrace)) = false ->
    (inexpr (mode s) && pe s && explicit_string_concat c && juxt (tk t)) = false ->
    (inexpr (mode s) && pe s && negb (explicit_string_concat c) && kis (tk t) KPlus && nk_juxt nk) = false ->
    normal_spec c s t nk (spelling c t).

Lemma normal_ok c s t nk : normal_spec c s t nk (normal c s t nk).
Proof.
  unfold normal.
  destruct (tbl s && kis (tk t) KRBrace && negb (kis (prev s) KComma || kis (prev s) KLBrace)) eqn:G3.
  { apply andb_true_iff in G3 as [G3 G3c]. apply andb_true_iff in G3 as [G3a G3b].
    apply negb_true_iff in G3c. now apply ns_comma. }
  destruct (inexpr (mode s) && pe s) eqn:G.
  2:{ apply ns_spell; auto; rewrite G; reflexivity. }
  apply andb_true_iff in G as [Gi Gp].
  destruct (explicit_string_concat c && juxt (tk t)) eqn:G4.
  { apply andb_true_iff in G4 as [? ?]. now apply ns_plus. }
  destruct (negb (explicit_string_concat c) && kis (tk t) KPlus && nk_juxt nk) eqn:G5.
  { apply andb_true_iff in G5 as [G5 G5c]. apply andb_true_iff in G5 as [G5a G5b].
    apply negb_true_iff in G5a. now apply ns_drop. }
  apply ns_spell; auto; rewrite Gi, Gp; simpl.
  - exact G4.
  - destruct (negb (explicit_string_concat c)), (kis (tk t) KPlus), (nk_juxt nk); simpl in *; auto.
Qed.

(* ---------------------------------------------------------------- quiet by guards *)

Definition rt_guard (s : st) (e : tok) (nk : option kind) : bool :=
  match rt s with
  | RWant false => kis (tk e) KLParen && negb (nk_is nk KLParen)
  | RBody w dr d => (kis (tk e) KRParen && Nat.eqb d 0 && dr && nk_is nk KSemi)
                    || (kis (tk e) KSemi && w && Nat.ltb 0 d)
  | _ => false
  end.

Lemma quiet_guards c s e nk :
  dp s = false ->
  opens_return s e = false ->
  (kis (tk e) KLParen && nk_is nk KRParen && callhdr s) = false ->
  rt_guard s e nk = false ->
  (tbl s && kis (tk e) KRBrace && negb (kis (prev s) KComma || kis (prev s) KLBrace)) = false ->
  (inexpr (mode s) && pe s
   && ((explicit_string_concat c && juxt (tk e)) || (negb (explicit_string_concat c) && kis (tk e) KPlus && nk_juxt nk))) = false ->
  spelling c e = AKeep ->
  quietb c s e nk = true.
Proof.
  intros Hdp Ho G1 G2 G3 G45 Hs. unfold quietb. rewrite Ho. simpl.
  unfold decide. rewrite Hdp. simpl. fold (callhdr s). rewrite G1.
  assert (N : normal c s e nk = AKeep).
  { unfold normal. rewrite G3. destruct (inexpr (mode s) && pe s); simpl in G45; auto.
    apply orb_false_iff in G45 as [G4 G5]. rewrite G4, G5. exact Hs. }
  unfold rt_guard in G2. destruct (rt s) as [|w|w dr d].
  - now rewrite N.
  - destruct w; [now rewrite N|]. rewrite G2. now rewrite N.
  - apply orb_false_iff in G2 as [G2a G2b]. rewrite G2a, G2b. now rewrite N.
Qed.

Lemma juxt_not k : juxt k = true ->
  kis k KLParen = false /\ kis k KRParen = false /\ kis k KSemi = false /\ kis k KRBrace = false
  /\ kis k KElseIf = false /\ kis k KElsIf = false /\ kis k KRemove = false /\ kis k KPlus = false
  /\ terminator k = false /\ kis k KReturn = false.
Proof. destruct k; simpl; intros; try discriminate; repeat split; reflexivity. Qed.

Lemma spelling_keep c e :
  kis (tk e) KElseIf = false -> kis (tk e) KElsIf = false -> kis (tk e) KRemove = false -> spelling c e = AKeep.
Proof. intros H1 H2 H3. unfold spelling. rewrite H1, H2, H3. now rewrite !andb_false_r. Qed.

(* what [decide] can answer, with the reason *)
Inductive decide_spec (c : fmt_config) (s : st) (t : tok) (nk : option kind) : action -> Prop :=
| ds_dp : dp s = true -> kis (tk t) KRParen = true -> decide_spec c s t nk (ADrop PClrDp)
| ds_empty : kis (tk t) KLParen = true -> nk_is nk KRParen = true -> callhdr s = true ->
    decide_spec c s t nk (ADrop PSetDp)
| ds_retopen : rt s = RWant false -> kis (tk t) KLParen = true -> nk_is nk KLParen = false ->
    decide_spec c s t nk (ADrop PRetOpen)
| ds_retclose w : rt s = RBody w true 0 -> kis (tk t) KRParen = true -> nk_is nk KSemi = true ->
    decide_spec c s t nk (ADrop PRetClose)
| ds_close dr d : rt s = RBody true dr d -> 0 < d -> kis (tk t) KSemi = true ->
    decide_spec c s t nk (AInsClose d)
| ds_normal : (dp s && kis (tk t) KRParen) = false ->
    (kis (tk t) KLParen && nk_is nk KRParen && callhdr s) = false ->
    rt_guard s t nk = false ->
    decide_spec c s t nk (normal c s t nk).

Lemma decide_ok c s t nk : decide_spec c s t nk (decide c s t nk).
Proof.
  unfold decide. fold (callhdr s).
  destruct (dp s && kis (tk t) KRParen) eqn:G0.
  { apply andb_true_iff in G0 as [? ?]. now apply ds_dp. }
  destruct (kis (tk t) KLParen && nk_is nk KRParen && callhdr s) eqn:G1.
  { apply andb_true_iff in G1 as [G1 ?]. apply andb_true_iff in G1 as [? ?]. now apply ds_empty. }
  destruct (rt s) as [|w|w dr d] eqn:Er.
  - apply ds_normal; auto. unfold rt_guard. now rewrite Er.
  - destruct w.
    + apply ds_normal; auto. unfold rt_guard. now rewrite Er.
    + destruct (kis (tk t) KLParen && negb (nk_is nk KLParen)) eqn:G2.
      * apply andb_true_iff in G2 as [? G2]. apply negb_true_iff in G2. now apply ds_retopen.
      * apply ds_normal; auto. unfold rt_guard. now rewrite Er.
  - destruct (kis (tk t) KRParen && (d =? 0) && dr && nk_is nk KSemi) eqn:G2.
    { apply andb_true_iff in G2 as [G2 ?]. apply andb_true_iff in G2 as [G2 ?].
      apply andb_true_iff in G2 as [? G2]. apply Nat.eqb_eq in G2. subst d dr. now apply (ds_retclose _ _ _ _ w). }
    destruct (kis (tk t) KSemi && w && (0 <? d)) eqn:G3.
    { apply andb_true_iff in G3 as [G3 G3c]. apply andb_true_iff in G3 as [? ?]. subst w.
      apply Nat.ltb_lt in G3c. now apply (ds_close _ _ _ _ dr d). }
    apply ds_normal; auto. unfold rt_guard. rewrite Er, G2, G3. reflexivity.
Qed.
