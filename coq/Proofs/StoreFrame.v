(* C13 - the frame theorems, from the invariant of Proofs/StoreMain.v. *)
From Coq Require Import List NArith ZArith Bool Lia Arith.
From Falco Require Import Base.Res Base.Bytes Model.StoreSyntax Model.Store
  Proofs.StoreHeap Proofs.StoreInv Proofs.StoreMain.
Import ListNotations.

(* ---- reading after a cell write / a header store *)
Lemma read_write_other σ T l v x :
  wf σ -> loc_of σ T = Some l -> x <> T -> read (write l v σ) x = read σ x.
Proof.
  intros [W1 W2] HT Hx.
  assert (K : forall l', loc_of σ x = Some l' -> nth_error (heap (write l v σ)) l' = nth_error (heap σ) l').
  { intros l' Hl'. simpl. apply nth_error_upd_other. intro; subst. apply Hx. eapply W2; eauto. }
  destruct x; simpl in *; auto.
  - destruct (lookup k (locals σ)); auto.
  - destruct (lookup k (globals σ)); auto.
  - destruct (nth_error (groups σ) j); auto.
Qed.

Lemma key_eqb_refl k : key_eqb k k = true.
Proof. unfold key_eqb. rewrite !N.eqb_refl. reflexivity. Qed.
Lemma key_eqb_eq a b : key_eqb a b = true -> a = b.
Proof.
  destruct a, b. unfold key_eqb. simpl. intros H. apply andb_prop in H. destruct H as [H1 H2].
  apply N.eqb_eq in H1, H2. congruence.
Qed.
Lemma key_eqb_trans_false a b c : key_eqb a b = false -> key_eqb b c = true -> key_eqb a c = false.
Proof. intros H1 H2. apply key_eqb_eq in H2. subst. auto. Qed.

Lemma hget_hdel_other k k' hs : key_eqb k k' = false -> hget k (hdel k' hs) = hget k hs.
Proof.
  intros H. induction hs as [|[k2 v] r IH]; simpl; auto.
  destruct (key_eqb k' k2) eqn:E.
  - rewrite IH. destruct (key_eqb k k2) eqn:E2; auto.
    apply key_eqb_eq in E, E2. subst. rewrite key_eqb_refl in H. discriminate.
  - simpl. rewrite IH. reflexivity.
Qed.
Lemma hget_hset_other k k' v hs : key_eqb k k' = false -> hget k (hset k' v hs) = hget k hs.
Proof. intros H. unfold hset. simpl. rewrite H. apply hget_hdel_other; auto. Qed.

(* a name that is not (a view of) header (o, h) reads the same after any change confined to that header *)
Definition independent (x T : name) : Prop :=
  match hdr_of T with
  | Some oh => hdr_of x <> Some oh       (* T a header or one of its sub-fields: x is about another header, or no header *)
  | None => x <> T
  end.

Lemma read_set_hdrs_other o h hs' σ x :
  (forall k, key_eqb k (o, h) = false -> hget k hs' = hget k (hdrs σ)) ->
  hdr_of x <> Some (o, h) -> read (set_hdrs hs' σ) x = read σ x.
Proof.
  intros Hh Hx.
  assert (K : forall o0 h0, (o0, h0) <> (o, h) -> hget (o0, h0) hs' = hget (o0, h0) (hdrs σ)).
  { intros o0 h0 Hn. apply Hh. unfold key_eqb. simpl.
    destruct (N.eqb_spec o0 o), (N.eqb_spec h0 h); subst; simpl; auto. congruence. }
  destruct x; simpl in *; auto.
  - unfold header_val. simpl. rewrite K; auto. congruence.
  - unfold field_val, hdr_text. simpl. rewrite K; auto. congruence.
Qed.

Lemma read_store_header_other Os o h v σ x :
  hdr_of x <> Some (o, h) -> read (store_header Os o h v σ) x = read σ x.
Proof.
  intros Hx. unfold store_header.
  destruct v as [? ?|? ?|? ns ?|? ?|? ?|? ?]; try (apply (read_set_hdrs_other o h); auto; intros; apply hget_hset_other; auto).
  destruct ns; apply (read_set_hdrs_other o h); auto; intros; [apply hget_hdel_other | apply hget_hset_other]; auto.
Qed.

Lemma read_store_field_other Os o h k v σ x :
  hdr_of x <> Some (o, h) -> read (store_field Os o h k v σ) x = read σ x.
Proof.
  intros Hx. unfold store_field. apply (read_set_hdrs_other o h); auto. intros; apply hget_hset_other; auto.
Qed.

Lemma read_unset_field_other o h k σ x :
  hdr_of x <> Some (o, h) -> read (unset_field_of o h k σ) x = read σ x.
Proof.
  intros Hx. unfold unset_field_of.
  destruct (HdrField.unset_field (hdr_text σ o h) (key_text k)); apply (read_set_hdrs_other o h); auto;
    intros; [apply hget_hdel_other | apply hget_hset_other]; auto.
Qed.

Section Frame.
Variable Os : ops.
Variable P : program.

Lemma not_wlg_wm e : wm e <> WLG.
Proof. unfold wm. destruct (pure e); discriminate. Qed.

(* what a reader of a NON-ctx cell sees after anything that writes at most ctx cells *)
Lemma read_ext_glob σ σ' :
  wf σ -> ext WGlob σ σ' ->
  (forall k, read σ' (NLocal k) = read σ (NLocal k)) /\
  (groups σ' = groups σ -> forall j, read σ' (NGroup j) = read σ (NGroup j)).
Proof.
  intros [W1 W2] [E1 E2 E3 E4 E5 E6 E7].
  assert (NG : forall x l, loc_of σ x = Some l -> (forall k, x <> NGlobal k) -> ~ may_write WGlob σ l).
  { intros x l Hx Hn [k Hk]. apply (Hn k). apply (W2 _ _ l); auto. }
  split.
  - intros k. simpl. rewrite E6 by discriminate.
    destruct (lookup k (locals σ)) as [l|] eqn:E; auto.
    apply E5; [apply (W1 (NLocal k)); auto | apply (NG (NLocal k)); auto; discriminate].
  - intros Hg j. simpl. rewrite Hg.
    destruct (nth_error (groups σ) j) as [l|] eqn:E; auto.
    apply E5; [apply (W1 (NGroup j)); auto | apply (NG (NGroup j)); auto; discriminate].
Qed.

(* ---------------------------------------------------------------------------------------
   eval_frame: an expression built from variables, literals, operators and built-in
   functions changes no variable other than re.group.N. *)
Theorem eval_frame n m e σ l σ' :
  wf σ -> pure e = true -> eval repaired Os P n m e σ = OK (l, σ') ->
  forall x, is_group x = false -> read σ' x = read σ x.
Proof.
  intros W Hp H x Hx.
  destruct (all_good Os P n) as (Ge & _ & _).
  destruct (Ge m _ _ _ _ W H) as (E & _ & _ & _). unfold wm in E. rewrite Hp in E. simpl in E.
  destruct E as [E1 E2 E3 E4 E5 E6 E7]. destruct (E7 eq_refl) as [E8 E9].
  apply read_ext_nongroup; auto.
  - apply E6. discriminate.
  - intros l' Hl'. apply E5; [destruct W as [W1 _]; eauto | simpl; tauto].
Qed.

(* with user-defined function calls inside: the caller's locals are still untouched, and so
   are the capture groups unless the expression itself contains a match *)
Theorem eval_frame_calls n m e σ l σ' :
  wf σ -> eval repaired Os P n m e σ = OK (l, σ') ->
  (forall k, read σ' (NLocal k) = read σ (NLocal k)) /\
  (nomatch e = true -> forall j, read σ' (NGroup j) = read σ (NGroup j)).
Proof.
  intros W H.
  destruct (all_good Os P n) as (Ge & _ & _).
  destruct (Ge m _ _ _ _ W H) as (E & _ & _ & G).
  assert (E' : ext WGlob σ σ') by (eapply ext_weaken; [|exact E]; apply wle_any_glob, not_wlg_wm).
  destruct (read_ext_glob _ _ W E') as [A B]. split; auto.
Qed.

(* ---------------------------------------------------------------------------------------
   set_frame: `set T op= E` changes only T (re.group.N aside, when E matches). *)
Theorem set_frame n fn T op e σ o σ' :
  wf σ -> pure e = true -> exec repaired Os P n fn (SSet T op e) σ = OK (o, σ') ->
  forall x, independent x T -> is_group x = false -> read σ' x = read σ x.
Proof.
  intros W Hp H x HxT Hx.
  destruct n as [|n]; [discriminate|]. simpl in H.
  destruct (all_good Os P n) as (Ge & _ & _).
  destruct T as [k|k|ob h|ob h fk|j]; unfold independent in HxT; simpl in HxT.
  - destruct (lookup k (locals σ)) as [l|] eqn:Ek; [|discriminate].
    bind_inv H as lv Hlv. destruct (valid_stmt_expr (type_of lv) e); [|discriminate].
    bind_inv H as [r σ1] H1. bind_inv H as σ2 H2. inversion H; subst.
    destruct (Ge lvar_mode _ _ _ _ W H1) as (E1 & _ & W1 & _).
    rewrite <- (eval_frame _ _ _ _ _ _ W Hp H1 x Hx).
    unfold assign_cell in H2. bind_inv H2 as a1 Ha1. bind_inv H2 as a2 Ha2. bind_inv H2 as a3 Ha3.
    inversion H2; subst.
    apply (read_write_other σ1 (NLocal k)); auto.
    simpl. destruct E1 as [_ _ _ _ _ El _]. rewrite El; auto. apply not_wlg_wm.
  - destruct (lookup k (globals σ)) as [l|] eqn:Ek; [|discriminate].
    bind_inv H as lv Hlv. destruct (valid_stmt_expr (type_of lv) e); [|discriminate].
    bind_inv H as [r σ1] H1. bind_inv H as σ2 H2. inversion H; subst.
    destruct (Ge dflt_mode _ _ _ _ W H1) as (E1 & _ & W1 & _).
    rewrite <- (eval_frame _ _ _ _ _ _ W Hp H1 x Hx).
    unfold assign_cell in H2. bind_inv H2 as a1 Ha1. bind_inv H2 as a2 Ha2. bind_inv H2 as a3 Ha3.
    inversion H2; subst.
    apply (read_write_other σ1 (NGlobal k)); auto.
    simpl. destruct E1 as [_ Eg _ _ _ _ _]. rewrite Eg; auto.
  - destruct (valid_stmt_expr TStr e); [|discriminate].
    bind_inv H as [r σ1] H1. bind_inv H as rv Hrv. bind_inv H as hv Hhv. inversion H; subst.
    rewrite <- (eval_frame _ _ _ _ _ _ W Hp H1 x Hx).
    apply read_store_header_other; auto.
  - (* a sub-field: only (views of) that one header change *)
    destruct (valid_stmt_expr TStr e); [|discriminate].
    bind_inv H as [r σ1] H1. bind_inv H as rv Hrv. bind_inv H as hv Hhv. inversion H; subst.
    rewrite <- (eval_frame _ _ _ _ _ _ W Hp H1 x Hx).
    apply read_store_field_other; auto.
  - discriminate.
Qed.

Theorem set_field_frame n fn ob h k op e σ o σ' :
  wf σ -> pure e = true -> exec repaired Os P n fn (SSet (NField ob h k) op e) σ = OK (o, σ') ->
  (forall j, read σ' (NLocal j) = read σ (NLocal j)) /\
  (forall g, read σ' (NGlobal g) = read σ (NGlobal g)) /\
  (forall ob' h', (ob', h') <> (ob, h) ->
     read σ' (NHeader ob' h') = read σ (NHeader ob' h') /\
     forall k', read σ' (NField ob' h' k') = read σ (NField ob' h' k')).
Proof.
  intros W Hp H.
  pose proof (set_frame _ _ _ _ _ _ _ _ W Hp H) as F.
  split; [|split].
  - intros j. apply F; [|reflexivity]. unfold independent; simpl. discriminate.
  - intros g. apply F; [|reflexivity]. unfold independent; simpl. discriminate.
  - intros ob' h' Hn. split; [|intros k']; (apply F; [|reflexivity]); unfold independent; simpl; congruence.
Qed.

(* add <obj>.http.<h> = E;  changes at most that header (and its views) *)
Theorem add_frame n fn o h e σ out σ' :
  wf σ -> pure e = true -> exec repaired Os P n fn (SAdd o h e) σ = OK (out, σ') ->
  forall x, independent x (NHeader o h) -> is_group x = false -> read σ' x = read σ x.
Proof.
  intros W Hp H x HxT Hx. destruct n as [|n]; [discriminate|]. simpl in H.
  destruct (valid_stmt_expr TStr e); [|discriminate].
  bind_inv H as [r σ1] H1. bind_inv H as rv Hrv. inversion H; subst.
  rewrite <- (eval_frame _ _ _ _ _ _ W Hp H1 x Hx).
  destruct (hget (o, h) (hdrs σ1)); auto. destruct (render Os rv) as [|b0 l0]; auto.
  apply (read_set_hdrs_other o h); auto. intros; apply hget_hset_other; auto.
Qed.

(* error [code [response]];  the documented implicit writes: ctx.ObjectStatus and ctx.ObjectResponse
   (cells gs, gr) - everything else keeps its value (re.group.N aside when code / response match) *)
Theorem error_frame n fn ok gs gr code arg σ out σ' :
  wf σ -> (forall e, code = Some e -> pure e = true) -> (forall e, arg = Some e -> pure e = true) ->
  exec repaired Os P n fn (SError ok gs gr code arg) σ = OK (out, σ') ->
  out = OState st_error /\
  forall x, x <> NGlobal gs -> x <> NGlobal gr -> is_group x = false -> read σ' x = read σ x.
Proof.
  intros W Hc Ha H. destruct n as [|n]; [discriminate|]. simpl in H.
  destruct (negb ok); [discriminate|].
  bind_inv H as σ1 H1. bind_inv H as σ2 H2. inversion H; subst. split; auto.
  destruct (all_good Os P n) as (Ge & _ & _).
  assert (K : forall (oe : option expr) g σa σb, wf σa -> (forall e, oe = Some e -> pure e = true) ->
            match oe with
            | None => OK σa
            | Some e => do (r, σm) <- eval repaired Os P n dflt_mode e σa;
                        match lookup g (globals σm) with
                        | Some l => assign_cell Os false l AEq r σm
                        | None => Crash
                        end
            end = OK σb ->
            wf σb /\ forall x, x <> NGlobal g -> is_group x = false -> read σb x = read σa x).
  { intros [e|] g σa σb Wa Hpe Hx.
    - bind_inv Hx as [r σm] Hm. pose proof (Hpe e eq_refl) as Hp.
      destruct (Ge dflt_mode _ _ _ _ Wa Hm) as (E1 & _ & W1 & _).
      destruct (lookup g (globals σm)) as [l|] eqn:El; [|discriminate].
      unfold assign_cell in Hx. bind_inv Hx as a1 Ha1. bind_inv Hx as a2 Ha2. bind_inv Hx as a3 Ha3.
      inversion Hx; subst. split; [apply wf_write; auto|].
      intros x Hxg Hxr. rewrite <- (eval_frame _ _ _ _ _ _ Wa Hp Hm x Hxr).
      apply (read_write_other σm (NGlobal g)); auto.
    - inversion Hx; subst. auto. }
  destruct (K _ _ _ _ W Hc H1) as (W1 & F1). destruct (K _ _ _ _ W1 Ha H2) as (W2 & F2).
  intros x X1 X2 X3. rewrite F2, F1; auto.
Qed.

(* restart; touches nothing (req.restarts changes only when the request is processed again) *)
Theorem restart_frame n fn ok σ out σ' :
  exec repaired Os P n fn (SRestart ok) σ = OK (out, σ') -> out = OState st_restart /\ σ' = σ.
Proof.
  intros H. destruct n as [|n]; [discriminate|]. simpl in H.
  destruct ok; inversion H; auto.
Qed.

(* unset of a header or of a sub-field: the same frame *)
Theorem unset_frame n fn T σ o σ' :
  exec repaired Os P n fn (SUnset T) σ = OK (o, σ') ->
  forall x, independent x T -> read σ' x = read σ x.
Proof.
  intros H x HxT. destruct n as [|n]; [discriminate|]. simpl in H.
  destruct T; try discriminate; unfold independent in HxT; simpl in HxT; inversion H; subst.
  - apply (read_set_hdrs_other o0 h); auto. intros; apply hget_hdel_other; auto.
  - apply read_unset_field_other; auto.
Qed.

(* unset <obj>.http.<pre>*;  EXACTLY the headers of that object whose name starts with pre (ASCII case
   folded) change - they become not set, with all their sub-fields - and nothing else does *)
Lemma hget_hdel_wild o pre k hs :
  hget k (hdel_wild o pre hs) = if wild_hit o pre k then None else hget k hs.
Proof.
  unfold hdel_wild. induction hs as [|[k2 v] r IH]; cbn [filter hget fst].
  - destruct (wild_hit o pre k); reflexivity.
  - destruct (key_eqb k k2) eqn:E.
    + apply key_eqb_eq in E. subst k2.
      destruct (wild_hit o pre k) eqn:Hh; cbn [negb hget].
      * exact IH.
      * rewrite key_eqb_refl. reflexivity.
    + destruct (wild_hit o pre k2); cbn [negb hget]; [|rewrite E]; exact IH.
Qed.

Theorem unset_wildcard_frame n fn o pre σ out σ' :
  exec repaired Os P n fn (SUnsetWild o pre) σ = OK (out, σ') ->
  out = ONorm /\
  (* untouched: every name that is not a header / sub-field under the prefix *)
  (forall x, match hdr_of x with Some k => wild_hit o pre k = false | None => True end -> read σ' x = read σ x) /\
  (* the headers under the prefix: not set, and so is each of their sub-fields *)
  (forall h, wild_hit o pre (o, h) = true ->
     read σ' (NHeader o h) = Some (VStr [] true false) /\
     forall k, read σ' (NField o h k) = Some (field_of_text [] k)).
Proof.
  intros H. destruct n as [|n]; [discriminate|]. simpl in H. inversion H; subst. split; [reflexivity|]. split.
  - intros x Hx. destruct x; simpl in *; auto.
    + unfold header_val. simpl. rewrite hget_hdel_wild, Hx. reflexivity.
    + unfold field_val, hdr_text. simpl. rewrite hget_hdel_wild, Hx. reflexivity.
  - intros h Hh. split; [|intros k]; simpl.
    + unfold header_val. simpl. rewrite hget_hdel_wild, Hh. reflexivity.
    + unfold field_val, hdr_text. simpl. rewrite hget_hdel_wild, Hh. reflexivity.
Qed.

(* the match is on the NAME, case-insensitively: "H" and "h" select the same headers *)
Lemma prefix_ci_fold p q s : map fold_byte p = map fold_byte q -> prefix_ci p s = prefix_ci q s.
Proof.
  revert q s. induction p as [|x p IH]; intros [|y q] s Hm; try discriminate; auto.
  simpl in Hm. inversion Hm as [[Hx Hp]]. destruct s as [|z s]; simpl; auto.
  rewrite Hx. destruct (byte_eqb (fold_byte y) (fold_byte z)); auto.
Qed.

Theorem unset_wildcard_case_insensitive n fn o p q σ :
  map fold_byte p = map fold_byte q ->
  exec repaired Os P n fn (SUnsetWild o p) σ = exec repaired Os P n fn (SUnsetWild o q) σ.
Proof.
  intros Hm. destruct n as [|n]; [reflexivity|]. simpl.
  assert (E : hdel_wild o p (hdrs σ) = hdel_wild o q (hdrs σ)).
  { unfold hdel_wild. apply filter_ext. intros e. unfold wild_hit. rewrite (prefix_ci_fold p q); auto. }
  rewrite E. reflexivity.
Qed.

(* synthetic e;  only the response-body cell gb changes (re.group.N aside when e matches) *)
Theorem synthetic_frame n fn gb e σ out σ' :
  wf σ -> pure e = true ->
  exec repaired Os P n fn (SSynthetic gb e) σ = OK (out, σ') ->
  out = ONorm /\ forall x, x <> NGlobal gb -> is_group x = false -> read σ' x = read σ x.
Proof.
  intros W Hp H. destruct n as [|n]; [discriminate|]. simpl in H.
  bind_inv H as [r σ1] H1.
  destruct (lookup gb (globals σ1)) as [l|] eqn:El; [|discriminate].
  bind_inv H as σ2 H2. inversion H; subst. split; [reflexivity|].
  intros x Hxg Hxr. rewrite <- (eval_frame _ _ _ _ _ _ W Hp H1 x Hxr).
  destruct (all_good Os P n) as (Ge & _ & _).
  destruct (Ge dflt_mode _ _ _ _ W H1) as (E1 & _ & W1 & _).
  unfold assign_cell in H2. bind_inv H2 as a1 Ha1. bind_inv H2 as a2 Ha2. bind_inv H2 as a3 Ha3.
  inversion H2; subst.
  apply (read_write_other σ1 (NGlobal gb)); auto.
Qed.

(* ---------------------------------------------------------------------------------------
   call_frame: a subroutine call leaves the caller's locals and capture groups exactly as they
   were (and args_by_value: it overwrites no cell of the caller except cells of ctx variables,
   whatever the callee does to its parameters). *)
Theorem call_frame n sb args σ r σ' :
  wf σ -> call repaired Os P n sb args σ = OK (r, σ') ->
  (forall k, read σ' (NLocal k) = read σ (NLocal k)) /\
  (forall j, read σ' (NGroup j) = read σ (NGroup j)).
Proof.
  intros W H. destruct (all_good Os P n) as (_ & _ & Gc).
  destruct (Gc _ _ _ _ _ W H) as (E & G & _ & _).
  destruct (read_ext_glob _ _ W E) as [A B]. split; auto.
Qed.

Theorem call_stmt_frame n fn f args σ o σ' :
  wf σ -> exec repaired Os P n fn (SCall f args) σ = OK (o, σ') ->
  (forall k, read σ' (NLocal k) = read σ (NLocal k)) /\
  (forallb nomatch args = true -> forall j, read σ' (NGroup j) = read σ (NGroup j)).
Proof.
  intros W H. destruct n as [|n]; [discriminate|]. simpl in H.
  destruct (all_good Os P n) as (Ge & _ & Gc).
  bind_inv H as [ls σ1] H1.
  destruct (eval_list_good _ (Ge lvar_mode) _ _ _ _ W H1) as (E1 & _ & W1 & G1).
  destruct (find_sub f P) as [sb|]; [|discriminate].
  bind_inv H as [r σ2] H2.
  assert (σ2 = σ') by (destruct r; inversion H; auto). subst σ2.
  destruct (Gc _ _ _ _ _ W1 H2) as (E2 & G2 & _ & _).
  assert (E : ext WGlob σ σ').
  { eapply ext_trans; [eapply ext_weaken; [|exact E1] | exact E2].
    destruct (forallb pure args); reflexivity. }
  destruct (read_ext_glob _ _ W E) as [A B]. split; auto.
  intros Hn. apply B. rewrite G2. auto.
Qed.

Theorem args_by_value n sb args σ r σ' :
  wf σ -> call repaired Os P n sb args σ = OK (r, σ') ->
  forall l, l < length (heap σ) -> ~ global_cell σ l ->
  nth_error (heap σ') l = nth_error (heap σ) l.
Proof.
  intros W H l Hl Hn. destruct (all_good Os P n) as (_ & _ & Gc).
  destruct (Gc _ _ _ _ _ W H) as (E & _ & _ & _).
  destruct E as [_ _ _ _ E5 _ _]. apply E5; auto.
Qed.

(* every parameter is bound to a cell that did not exist before the call *)
Theorem params_fresh ps args σ σ' :
  wf σ -> bind_params repaired Os ps args σ = OK σ' ->
  forall k l, lookup k (locals σ') = Some l -> lookup k (locals σ) = Some l \/ length (heap σ) <= l.
Proof.
  intros W H. destruct (bind_params_good Os _ _ _ _ W H) as (_ & _ & _ & _ & _ & _ & _ & A). exact A.
Qed.

(* ---------------------------------------------------------------------------------------
   the hypothesis [wf] holds in every reachable state *)
Theorem exec_wf n fn s σ o σ' :
  wf σ -> exec repaired Os P n fn s σ = OK (o, σ') -> wf σ'.
Proof.
  intros W H. destruct (all_good Os P n) as (_ & Gx & _).
  destruct (Gx fn _ _ _ _ W H) as (_ & W' & _). exact W'.
Qed.

Theorem run_main_wf n body σ o σ' :
  wf σ -> run_main repaired Os P n body σ = OK (o, σ') -> wf σ'.
Proof.
  intros W H. destruct (all_good Os P n) as (_ & Gx & _).
  destruct (run_block_good _ (Gx false) _ _ _ _ W H) as (_ & W' & _). exact W'.
Qed.

End Frame.

Lemma lookup_combine_seq a n k l :
  lookup k (combine (map N.of_nat (seq a n)) (seq a n)) = Some l -> k = N.of_nat l /\ a <= l < a + n.
Proof.
  revert a. induction n; intros a H; simpl in H; [discriminate|].
  destruct (N.eqb_spec k (N.of_nat a)).
  - inversion H; subst. split; auto. lia.
  - apply IHn in H. destruct H. split; auto. lia.
Qed.

Theorem init_wf globs : wf (init_state globs).
Proof.
  split.
  - intros x l H. destruct x; simpl in H; try discriminate.
    + apply lookup_combine_seq in H. simpl. lia.
    + destruct j; discriminate.
  - intros x y l H1 H2. destruct x, y; simpl in H1, H2; try discriminate; try (destruct j; discriminate).
    apply lookup_combine_seq in H1, H2. destruct H1, H2. congruence.
Qed.
