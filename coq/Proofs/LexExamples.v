(* Non-vacuity: the model evaluated on the inputs that used to hang / drift / carry no type. *)
From Coq Require Import List NArith ZArith Bool.
From Coq Require Strings.String.
From Falco Require Import Base.Res Base.Bytes Base.Utf8 Gen.Tokens Model.Lex Model.Pump Model.LexSpec.
Import ListNotations.

Definition src (s : String.string) : list byte := map n2b (s2r s).

Definition tok_view (t : token) := (ttype t, tlit t, tline t, tpos t).

Module Ex.
  Import Strings.String.
  Local Open Scope string_scope.

  (* the input ends inside a pragma: the pump returns SUBROUTINE, IDENT, LEFT_BRACE, EOF *)
  Example pump_truncated_pragma :
    match pump (src "sub f { pragma x") with
    | OK ms => map (fun m => (ttype (mtok m), mnest m)) ms
               = [(T_SUBROUTINE, 0%Z); (T_IDENT, 0%Z); (T_LEFT_BRACE, 1%Z); (T_EOF, 1%Z)]
    | _ => False
    end.
  Proof. vm_compute. reflexivity. Qed.

  (* an unterminated long string: OPEN, STRING, CLOSE at the end of input, EOF one past the end *)
  Example lex_unterminated_long_string :
    match tokens (src "{xy""ab") with
    | OK ts => map tok_view ts
               = [(T_OPEN_LONG_STRING, s2r "xy", 1, 1); (T_STRING, s2r "ab", 1, 4);
                  (T_CLOSE_LONG_STRING, s2r "xy", 1, 7); (T_EOF, [], 1, 7)]%N
    | _ => False
    end.
  Proof. vm_compute. reflexivity. Qed.

  (* a NUL byte ends the input: the EOF token sits on it, nothing after it is lexed *)
  Example lex_nul_byte :
    match tokens (src "a" ++ [n2b 0%N] ++ src "b") with
    | OK ts => map tok_view ts = [(T_IDENT, s2r "a", 1, 1); (T_EOF, [], 1, 2)]%N
    | _ => False
    end.
  Proof. vm_compute. reflexivity. Qed.

  (* lone operators are ILLEGAL tokens with a position, not zero-valued tokens *)
  Example lex_lone_operators :
    match tokens (src "a | b << c") with
    | OK ts => map tok_view ts
               = [(T_IDENT, s2r "a", 1, 1); (T_ILLEGAL, s2r "|", 1, 3); (T_IDENT, s2r "b", 1, 5);
                  (T_ILLEGAL, s2r "<<", 1, 7); (T_IDENT, s2r "c", 1, 10); (T_EOF, [], 1, 11)]%N
    | _ => False
    end.
  Proof. vm_compute. reflexivity. Qed.

  (* slash-star-slash is NOT a complete comment: the star of the opener does not close it; the first
     comment runs to the next star-slash, the last one is unterminated *)
  Example lex_slash_star_slash :
    match tokens (src "/*/ a /*/ b /*/") with
    | OK ts => map tok_view ts = [(T_COMMENT, s2r "/*/ a /*/", 1, 1); (T_IDENT, s2r "b", 1, 11);
                                   (T_COMMENT, s2r "/*/", 1, 13); (T_EOF, [], 1, 16)]%N
    | _ => False
    end.
  Proof. vm_compute. reflexivity. Qed.

  Example lex_empty_block_comment :
    match tokens (src "/**/a") with
    | OK ts => map tok_view ts = [(T_COMMENT, s2r "/**/", 1, 1); (T_IDENT, s2r "a", 1, 5); (T_EOF, [], 1, 6)]%N
    | _ => False
    end.
  Proof. vm_compute. reflexivity. Qed.

  (* PeekToken then NextToken deliver the same token; the queue is used *)
  Example peek_then_next_example :
    match peek_token 10 (init (src "ab cd")) with
    | OK (t, st1) =>
        tok_view t = (T_IDENT, s2r "ab", 1, 1)%N /\ peeks st1 = [t] /\
        match next_token 10 st1 with OK (t2, st2) => t2 = t /\ peeks st2 = [] | _ => False end
    | _ => False
    end.
  Proof. vm_compute. repeat split. Qed.

  (* designates, by hand, for the STRING token on the second line of: a, LF, two blanks, quote, bc *)
  Example designates_string_line2 :
    designates (dec_all (src "a") ++ [10%N] ++ dec_all (src "  ""bc"))%list
               (mkTok T_STRING (s2r "bc") 2 3).
  Proof.
    unfold designates, is_eof. cbn [ttype tlit tline tpos].
    change (str_eqb T_STRING T_EOF) with false.
    change (str_eqb T_STRING T_CLOSE_LONG_STRING) with false.
    change (str_eqb T_STRING T_STRING) with true. cbv beta iota.
    exists (s2r "a" ++ [10%N] ++ s2r "  ")%list, []. split; vm_compute; reflexivity.
  Qed.
End Ex.
