(* Simulation lemmas for Model/Ignore.v: running the same subtree from two related states
   (inside a covered region) or from the same state with filtered queues (outside). *)
From Coq Require Import List Bool Arith Lia.
From Falco Require Import Base.Bytes Model.Ignore Model.IgnoreSpec Proofs.IgnoreBasics.
Import ListNotations.

(* ------------------------------------------------------------------ list / filter facts *)
Lemma filter_ext_in' {A} (f g : A -> bool) l : (forall x, In x l -> f x = g x) -> filter f l = filter g l.
Proof.
  induction l as [|x l IH]; cbn; intros H; auto.
  rewrite (H x (or_introl eq_refl)).
  rewrite IH by (intros y Hy; apply H; right; exact Hy). reflexivity.
Qed.

Lemma filter_true {A} (f : A -> bool) l : (forall x, In x l -> f x = true) -> filter f l = l.
Proof.
  induction l as [|x l IH]; cbn; intros H; auto.
  rewrite (H x (or_introl eq_refl)). f_equal. apply IH. intros y Hy. apply H. right. exact Hy.
Qed.

Lemma filter_filter {A} (f g : A -> bool) l : filter f (filter g l) = filter (fun x => g x && f x) l.
Proof.
  induction l as [|x l IH]; cbn; auto.
  destruct (g x); cbn; [destruct (f x)|]; rewrite IH; reflexivity.
Qed.

Lemma filter_comm {A} (f g : A -> bool) l : filter f (filter g l) = filter g (filter f l).
Proof. rewrite !filter_filter. apply filter_ext_in'. intros x _. apply andb_comm. Qed.

Lemma filter_map_pair (F : diag -> bool) (p : path) (l : list rule) :
  filter F (map (pair p) l) = map (pair p) (filter (fun r => F (p, r)) l).
Proof. induction l as [|x l IH]; cbn; auto. destruct (F (p, x)); cbn; rewrite IH; reflexivity. Qed.

(* ------------------------------------------------------------------ prefixes *)
Lemma is_prefix_refl p : is_prefix p p = true.
Proof. induction p; cbn; auto. rewrite Nat.eqb_refl. exact IHp. Qed.

Lemma is_prefix_app p q : is_prefix p (p ++ q) = true.
Proof. induction p; cbn; auto. rewrite Nat.eqb_refl. exact IHp. Qed.

Lemma is_prefix_trans a b c : is_prefix a b = true -> is_prefix b c = true -> is_prefix a c = true.
Proof.
  revert b c. induction a as [|x a IH]; intros b c; cbn; auto.
  destruct b as [|y b]; [discriminate|]. destruct c as [|z c]; cbn; [intros _ H; discriminate|].
  intros H1 H2. apply andb_true_iff in H1. apply andb_true_iff in H2.
  destruct H1 as [E1 H1], H2 as [E2 H2]. apply Nat.eqb_eq in E1. apply Nat.eqb_eq in E2. subst.
  rewrite Nat.eqb_refl. cbn. eapply IH; eauto.
Qed.

Lemma is_prefix_snoc p i q : is_prefix (p ++ [i]) q = true -> is_prefix p q = true.
Proof. intros H. eapply is_prefix_trans; [apply is_prefix_app | exact H]. Qed.

(* two different children of the same owner have unrelated paths *)
Lemma is_prefix_diff b i j x y : i <> j -> is_prefix (b ++ i :: x) (b ++ j :: y) = false.
Proof.
  intros H. induction b as [|z b IH]; cbn.
  - destruct (Nat.eqb i j) eqn:E; auto. apply Nat.eqb_eq in E. contradiction.
  - rewrite Nat.eqb_refl. exact IH.
Qed.

Lemma is_prefix_longer b x : x <> [] -> is_prefix (b ++ x) b = false.
Proof.
  intros H. induction b as [|z b IH]; cbn.
  - destruct x; [contradiction | reflexivity].
  - rewrite Nat.eqb_refl. exact IH.
Qed.

Lemma is_prefix_sibling b i j rest p' :
  i <> j -> is_prefix (b ++ [j]) p' = true -> is_prefix (b ++ i :: rest) p' = false.
Proof.
  intros H. revert p'. induction b as [|z b IH]; intros p' E.
  - destruct p' as [|y p']; cbn in *; try discriminate.
    apply andb_true_iff in E. destruct E as [E _]. apply Nat.eqb_eq in E. subst y.
    destruct (Nat.eqb i j) eqn:E2; auto. apply Nat.eqb_eq in E2. contradiction.
  - destruct p' as [|y p']; cbn in *; try discriminate.
    destruct (Nat.eqb z y); cbn in *; try discriminate. apply IH. exact E.
Qed.

Definition under (P0 : path) (d : diag) : Prop := is_prefix P0 (fst d) = true.

Lemma Forall_filter {A} (P : A -> Prop) f l : Forall P l -> Forall P (filter f l).
Proof. induction 1; cbn; auto. destruct (f x); auto. Qed.

Lemma emit_under P0 p rs s : is_prefix P0 p = true -> Forall (under P0) (emit p rs s).
Proof.
  intros H. unfold emit. apply Forall_forall. intros d Hd. apply in_map_iff in Hd.
  destruct Hd as (r & <- & _). exact H.
Qed.

(* everything a subtree adds to the subroutine-level queue is located under its path *)
Lemma run_kids_under_gen ks P0 p :
  is_prefix P0 p = true ->
  Forall (fun n => forall p s qv qp, is_prefix P0 p = true -> Forall (under P0) qv ->
                   Forall (under P0) (r_qv (run n p s qv qp))) ks ->
  forall i s qv qp, Forall (under P0) qv -> Forall (under P0) (r_qv (run_kids ks p i s qv qp)).
Proof.
  intros Hp. induction 1 as [|k ks Hk _ IHks]; intros i s0 qv0 qp0 H1.
  - rewrite run_kids_nil. exact H1.
  - rewrite run_kids_cons. cbn zeta. cbn [r_qv fst snd]. apply IHks. apply Hk; auto.
    eapply is_prefix_trans; [exact Hp | apply is_prefix_app].
Qed.

Lemma run_under n : forall P0 p s qv qp,
  is_prefix P0 p = true -> Forall (under P0) qv -> Forall (under P0) (r_qv (run n p s qv qp)).
Proof.
  induction n as [w m fl pre lsub lprog kids IH] using node_ind'. intros P0 p s qv qp Hp Hqv.
  rewrite run_node. cbn zeta. cbn [r_qv fst snd]. unfold inner. cbn [r_qv r_st fst snd].
  apply Forall_app; split; [|apply emit_under; exact Hp].
  destruct fl; auto.
  apply run_kids_under_gen; auto.
  eapply Forall_impl; [|exact IH]. cbn. intros n Hn p0 s0 qv0 qp0 H1 H2. apply Hn; auto.
Qed.

Lemma run_kids_under ks P0 p i s qv qp :
  is_prefix P0 p = true -> Forall (under P0) qv -> Forall (under P0) (r_qv (run_kids ks p i s qv qp)).
Proof.
  intros Hp. apply run_kids_under_gen; auto.
  apply Forall_forall. intros n _ p0 s0 qv0 qp0 H1 H2. apply run_under; auto.
Qed.

(* ------------------------------------------------------------------ component view of the state *)
Definition nl_lead (a : irules) (c : list byte) : irules :=
  match parse_ignore_comment c with Some (NextLine, L) => ignore_rules a L | _ => a end.
Definition tl_trail (a : irules) (c : list byte) : irules :=
  match parse_ignore_comment c with Some (ThisLine, L) => ignore_rules a L | _ => a end.
Definition rg_lead (a : irules) (c : list byte) : irules :=
  match parse_ignore_comment c with
  | Some (Start, L) => ignore_rules a L
  | Some (End, L) => unignore_rules a L
  | _ => a
  end.
Definition rg_end (a : irules) (c : list byte) : irules :=
  match parse_ignore_comment c with Some (End, L) => unignore_rules a L | _ => a end.

Lemma fold_comp {A} (f : istate -> list byte -> istate) (g : istate -> A) (h : A -> list byte -> A) :
  (forall s c, g (f s c) = h (g s) c) -> forall l s, g (fold_left f l s) = fold_left h l (g s).
Proof. intros H l. induction l as [|c l IH]; intros s; cbn; auto. rewrite IH, H. reflexivity. Qed.

Lemma nl_apply_leading s c : nl (apply_leading s c) = nl_lead (nl s) c.
Proof. unfold apply_leading, nl_lead. destruct (parse_ignore_comment c) as [[[] L]|]; reflexivity. Qed.
Lemma rg_apply_leading s c : rg (apply_leading s c) = rg_lead (rg s) c.
Proof. unfold apply_leading, rg_lead. destruct (parse_ignore_comment c) as [[[] L]|]; reflexivity. Qed.
Lemma tl_apply_trailing s c : tl (apply_trailing s c) = tl_trail (tl s) c.
Proof. unfold apply_trailing, tl_trail. destruct (parse_ignore_comment c) as [[[] L]|]; reflexivity. Qed.
Lemma rg_apply_block_end s c : rg (apply_block_end s c) = rg_end (rg s) c.
Proof. unfold apply_block_end, rg_end. destruct (parse_ignore_comment c) as [[[] L]|]; reflexivity. Qed.

Lemma nl_setup w m s : nl (setup w m s) = fold_left nl_lead (leading m) (nl s).
Proof.
  destruct w; cbn [setup]; unfold setup_statement, setup_block.
  - rewrite (fold_inv apply_trailing nl apply_trailing_nl).
    rewrite (fold_comp apply_leading nl nl_lead nl_apply_leading). reflexivity.
  - rewrite (fold_comp apply_leading nl nl_lead nl_apply_leading). reflexivity.
Qed.

Lemma rg_setup w m s : rg (setup w m s) = fold_left rg_lead (leading m) (rg s).
Proof.
  destruct w; cbn [setup]; unfold setup_statement, setup_block.
  - rewrite (fold_inv apply_trailing rg apply_trailing_rg).
    rewrite (fold_comp apply_leading rg rg_lead rg_apply_leading). reflexivity.
  - rewrite (fold_comp apply_leading rg rg_lead rg_apply_leading). reflexivity.
Qed.

Definition tl_setup_of (w : wrap) (m : meta) (a : irules) : irules :=
  match w with WStmt => fold_left tl_trail (trailing m) a | WBlock => a end.

Lemma tl_setup w m s : tl (setup w m s) = tl_setup_of w m (tl s).
Proof.
  destruct w; cbn [setup tl_setup_of]; unfold setup_statement, setup_block.
  - rewrite (fold_comp apply_trailing tl tl_trail tl_apply_trailing).
    rewrite (fold_inv apply_leading tl apply_leading_tl). reflexivity.
  - rewrite (fold_inv apply_leading tl apply_leading_tl). reflexivity.
Qed.

Definition rg_teardown_of (w : wrap) (m : meta) (a : irules) : irules :=
  match w with
  | WStmt => a
  | WBlock => fold_left rg_end (trailing m) (fold_left rg_end (infix m) a)
  end.

Lemma rg_pop s : rg (pop s) = rg s.
Proof. unfold pop. destruct (stack s) as [|[a b] st]; reflexivity. Qed.

Lemma rg_teardown w m s : rg (teardown w m s) = rg_teardown_of w m (rg s).
Proof.
  destruct w; cbn [teardown rg_teardown_of]; unfold teardown_statement, teardown_block.
  - apply rg_pop.
  - rewrite !(fold_comp apply_block_end rg rg_end rg_apply_block_end). rewrite rg_pop. reflexivity.
Qed.

Lemma istate_eq (a b : istate) :
  nl a = nl b -> tl a = tl b -> rg a = rg b -> stack a = stack b -> a = b.
Proof. destruct a, b; cbn; intros; subst; reflexivity. Qed.

(* ------------------------------------------------------------------ the inside simulation *)
Section Inside.
  Variables XN XT XG : rule -> bool.
  Variable rf : bool.            (* true: the region contains no start / end directive *)
  Hypothesis HXG : rf = false -> forall r, XG r = false.
  Variable F : diag -> bool.

  Definition X (r : rule) : bool := XN r || XT r || XG r.

  Definition relN (a a' : irules) : Prop := forall r, den a' r = den a r || XN r.
  Definition relT (a a' : irules) : Prop := forall r, den a' r = den a r || XT r.
  Definition relG (a a' : irules) : Prop :=
    (forall r, den a' r = den a r || XG r) /\ (rf = false -> a' = a).

  Definition Rel (s s' : istate) : Prop :=
    relN (nl s) (nl s') /\ relT (tl s) (tl s') /\ relG (rg s) (rg s').

  Lemma relN_lead a a' c : relN a a' -> relN (nl_lead a c) (nl_lead a' c).
  Proof.
    unfold relN, nl_lead. intros H r. destruct (parse_ignore_comment c) as [[[] L]|]; auto.
    rewrite !den_ignore, H. destruct (den a r), (XN r), (named L r); reflexivity.
  Qed.

  Lemma relT_trail a a' c : relT a a' -> relT (tl_trail a c) (tl_trail a' c).
  Proof.
    unfold relT, tl_trail. intros H r. destruct (parse_ignore_comment c) as [[[] L]|]; auto.
    rewrite !den_ignore, H. destruct (den a r), (XT r), (named L r); reflexivity.
  Qed.

  Lemma relG_lead a a' c : (rf = true -> is_range_comment c = false) -> relG a a' -> relG (rg_lead a c) (rg_lead a' c).
  Proof.
    unfold relG, rg_lead, is_range_comment. intros Hc [H1 H2].
    destruct rf eqn:Erf.
    - specialize (Hc eq_refl). destruct (parse_ignore_comment c) as [[[] L]|]; try discriminate; auto.
    - rewrite (H2 eq_refl). split; auto. intros r. rewrite (HXG eq_refl r), orb_false_r. reflexivity.
  Qed.

  Lemma relG_end a a' c : (rf = true -> is_range_comment c = false) -> relG a a' -> relG (rg_end a c) (rg_end a' c).
  Proof.
    unfold relG, rg_end, is_range_comment. intros Hc [H1 H2].
    destruct rf eqn:Erf.
    - specialize (Hc eq_refl). destruct (parse_ignore_comment c) as [[[] L]|]; try discriminate; auto.
    - rewrite (H2 eq_refl). split; auto. intros r. rewrite (HXG eq_refl r), orb_false_r. reflexivity.
  Qed.

  Lemma fold_rel {A} (R : A -> A -> Prop) (h : A -> list byte -> A) (ok : list byte -> Prop) l :
    (forall a a' c, ok c -> R a a' -> R (h a c) (h a' c)) ->
    Forall ok l -> forall a a', R a a' -> R (fold_left h l a) (fold_left h l a').
  Proof.
    intros H. induction 1 as [|c l Hc _ IH]; intros a a' Ha; cbn; auto.
  Qed.

  Lemma forallb_Forall_rf (l : list (list byte)) :
    (rf = true -> forallb (fun c => negb (is_range_comment c)) l = true) ->
    Forall (fun c => rf = true -> is_range_comment c = false) l.
  Proof.
    intros H. apply Forall_forall. intros c Hc E. specialize (H E).
    rewrite forallb_forall in H. specialize (H c Hc). destruct (is_range_comment c); [discriminate | reflexivity].
  Qed.

  Lemma rfm_parts m : (rf = true -> range_free_meta m = true) ->
    (rf = true -> forallb (fun c => negb (is_range_comment c)) (leading m) = true) /\
    (rf = true -> forallb (fun c => negb (is_range_comment c)) (trailing m) = true) /\
    (rf = true -> forallb (fun c => negb (is_range_comment c)) (infix m) = true).
  Proof.
    intros H. unfold range_free_meta in H.
    repeat split; intros E; specialize (H E); apply andb_true_iff in H; destruct H as [H H3];
      apply andb_true_iff in H; destruct H as [H1 H2]; assumption.
  Qed.

  Lemma setup_Rel w m s s' : (rf = true -> range_free_meta m = true) -> Rel s s' -> Rel (setup w m s) (setup w m s').
  Proof.
    intros Hm (HN & HT & HG). destruct (rfm_parts m Hm) as (M1 & M2 & M3).
    unfold Rel. rewrite !nl_setup, !tl_setup, !rg_setup. repeat split.
    - apply (fold_rel relN nl_lead (fun _ => True)); auto using relN_lead.
      apply Forall_forall; auto.
    - destruct w; cbn [tl_setup_of]; auto.
      apply (fold_rel relT tl_trail (fun _ => True)); auto using relT_trail.
      apply Forall_forall; auto.
    - apply (fold_rel relG rg_lead (fun c => rf = true -> is_range_comment c = false)); auto using relG_lead.
      apply forallb_Forall_rf; auto.
    - apply (fold_rel relG rg_lead (fun c => rf = true -> is_range_comment c = false)); auto using relG_lead.
      apply forallb_Forall_rf; auto.
  Qed.

  Lemma relG_teardown w m a a' : (rf = true -> range_free_meta m = true) -> relG a a' ->
    relG (rg_teardown_of w m a) (rg_teardown_of w m a').
  Proof.
    intros Hm HG. destruct (rfm_parts m Hm) as (M1 & M2 & M3).
    destruct w; cbn [rg_teardown_of]; auto.
    apply (fold_rel relG rg_end (fun c => rf = true -> is_range_comment c = false)); auto using relG_end.
    { apply forallb_Forall_rf; auto. }
    apply (fold_rel relG rg_end (fun c => rf = true -> is_range_comment c = false)); auto using relG_end.
    apply forallb_Forall_rf; auto.
  Qed.

  Lemma enable_Rel s s' r : Rel s s' -> is_enable r s' = is_enable r s || X r.
  Proof.
    intros (HN & HT & HG & _). rewrite !is_enable_den, HN, HT, HG. unfold X.
    destruct (den (nl s) r), (den (tl s) r), (den (rg s) r), (XN r), (XT r), (XG r); reflexivity.
  Qed.

  Lemma emit_Rel p rs s s' : Rel s s' -> (forall r, F (p, r) = negb (X r)) -> emit p rs s' = filter F (emit p rs s).
  Proof.
    intros HR HF. unfold emit. rewrite filter_map_pair. f_equal. rewrite filter_filter.
    apply filter_ext_in'. intros r _. rewrite (enable_Rel s s' r HR), HF.
    destruct (is_enable r s), (X r); reflexivity.
  Qed.

  Lemma flush_Rel q s s' : Rel s s' -> Forall (fun d => F d = negb (X (snd d))) q ->
    flush_queue (filter F q) s' = filter F (flush_queue q s).
  Proof.
    intros HR Hq. unfold flush_queue. rewrite !filter_filter. apply filter_ext_in'. intros d Hd.
    rewrite Forall_forall in Hq. rewrite (Hq d Hd), (enable_Rel s s' _ HR).
    destruct (is_enable (snd d) s), (X (snd d)); reflexivity.
  Qed.

  Definition inside_stmt (n : node) : Prop := forall p s s' qv qp,
    (forall p' r, is_prefix p p' = true -> F (p', r) = negb (X r)) ->
    Rel s s' -> (rf = true -> range_free n = true) ->
    let r := run n p s qv qp in
    let r' := run n p s' (filter F qv) (filter F qp) in
    Rel (r_st r) (r_st r') /\ r_qv r' = filter F (r_qv r) /\ r_qp r' = filter F (r_qp r)
    /\ r_out r' = filter F (r_out r).

  Lemma inside_kids ks : Forall inside_stmt ks -> forall p i s s' qv qp,
    (forall j p' r, i <= j < i + length ks -> is_prefix (p ++ [j]) p' = true -> F (p', r) = negb (X r)) ->
    Rel s s' -> (rf = true -> forallb range_free ks = true) ->
    let r := run_kids ks p i s qv qp in
    let r' := run_kids ks p i s' (filter F qv) (filter F qp) in
    Rel (r_st r) (r_st r') /\ r_qv r' = filter F (r_qv r) /\ r_qp r' = filter F (r_qp r)
    /\ r_out r' = filter F (r_out r).
  Proof.
    induction 1 as [|k ks Hk _ IH]; intros p i s s' qv qp HF HR Hrf.
    - rewrite !run_kids_nil. cbn. auto.
    - rewrite !run_kids_cons. cbn zeta.
      assert (Hrf1 : rf = true -> range_free k = true).
      { intros E. specialize (Hrf E). cbn in Hrf. apply andb_true_iff in Hrf. tauto. }
      assert (Hrf2 : rf = true -> forallb range_free ks = true).
      { intros E. specialize (Hrf E). cbn in Hrf. apply andb_true_iff in Hrf. tauto. }
      destruct (Hk (p ++ [i]) s s' qv qp) as (A & B & C & D); auto.
      { intros p' r Hp'. apply (HF i); auto. cbn [length]. lia. }
      cbn zeta in A, B, C, D. rewrite B, C.
      assert (HF2 : forall j p' r, S i <= j < S i + length ks -> is_prefix (p ++ [j]) p' = true -> F (p', r) = negb (X r)).
      { intros j p' r Hj. apply HF. cbn [length]. lia. }
      destruct (IH p (S i) _ _ (r_qv (run k (p ++ [i]) s qv qp)) (r_qp (run k (p ++ [i]) s qv qp)) HF2 A Hrf2)
        as (A' & B' & C' & D').
      cbn zeta in A', B', C', D'. rproj.
      split; [exact A'|]. split; [exact B'|]. split; [exact C'|].
      rewrite D, D', filter_app. reflexivity.
  Qed.

  (* the body of a node (between setup and teardown) from related states *)
  Lemma inside_inner fl pre lsub lprog kids p s1 s1' qv qp :
    Forall inside_stmt kids ->
    (forall p' r, is_prefix p p' = true -> F (p', r) = negb (X r)) ->
    Rel s1 s1' -> (rf = true -> forallb range_free kids = true) ->
    let r := inner fl pre lsub lprog kids p s1 qv qp in
    let r' := inner fl pre lsub lprog kids p s1' (filter F qv) (filter F qp) in
    Rel (r_st r) (r_st r') /\ r_qv r' = filter F (r_qv r) /\ r_qp r' = filter F (r_qp r)
    /\ r_out r' = filter F (r_out r).
  Proof.
    intros IH HF HR Hrf. cbn zeta. unfold inner. cbn [r_st r_qv r_qp r_out fst snd].
    assert (Hp : forall r, F (p, r) = negb (X r)) by (intros r; apply HF; apply is_prefix_refl).
    assert (HFk : forall j p' r, 0 <= j < 0 + length kids -> is_prefix (p ++ [j]) p' = true -> F (p', r) = negb (X r)).
    { intros j p' r _ Hp'. apply HF. eapply is_prefix_snoc; eauto. }
    destruct (inside_kids kids IH p 0 s1 s1' (if fl then [] else qv) qp HFk HR Hrf) as (A & B & C & D).
    cbn zeta in A, B, C, D.
    replace (if fl then [] else filter F qv) with (filter F (if fl then [] else qv)) by (destruct fl; reflexivity).
    rewrite B, C, D. split; [exact A|].
    rewrite !filter_app, (emit_Rel p lsub _ _ HR Hp), (emit_Rel p lprog _ _ HR Hp), (emit_Rel p pre _ _ HR Hp).
    repeat split.
    - destruct fl; reflexivity.
    - f_equal. f_equal. destruct fl; auto.
  Qed.

  Lemma inside_node n : inside_stmt n.
  Proof.
    induction n as [w m fl pre lsub lprog kids IH] using node_ind'.
    intros p s s' qv qp HF HR Hrf. cbn zeta. rewrite !run_node. cbn zeta.
    assert (Hm : rf = true -> range_free_meta m = true).
    { intros E. specialize (Hrf E). cbn in Hrf. apply andb_true_iff in Hrf. tauto. }
    assert (Hk : rf = true -> forallb range_free kids = true).
    { intros E. specialize (Hrf E). cbn in Hrf. apply andb_true_iff in Hrf. tauto. }
    pose proof (setup_Rel w m s s' Hm HR) as HR1.
    destruct (inside_inner fl pre lsub lprog kids p _ _ qv qp IH HF HR1 Hk) as (A & B & C & D).
    cbn zeta in A, B, C, D. cbn [r_st r_qv r_qp r_out fst snd]. repeat split; auto.
    - (* next-line set: restored to the entry value on both sides *)
      destruct (teardown_restores w m _ _ _ _ (inner_stack w m fl pre lsub lprog kids p s qv qp)) as (E1 & _ & _).
      destruct (teardown_restores w m _ _ _ _ (inner_stack w m fl pre lsub lprog kids p s' (filter F qv) (filter F qp))) as (E1' & _ & _).
      rewrite E1, E1'. apply HR.
    - destruct (teardown_restores w m _ _ _ _ (inner_stack w m fl pre lsub lprog kids p s qv qp)) as (_ & E2 & _).
      destruct (teardown_restores w m _ _ _ _ (inner_stack w m fl pre lsub lprog kids p s' (filter F qv) (filter F qp))) as (_ & E2' & _).
      rewrite E2, E2'. apply HR.
    - rewrite !rg_teardown. apply relG_teardown; auto. apply A.
    - rewrite !rg_teardown. apply relG_teardown; auto. apply A.
  Qed.
End Inside.
