(* C17 - operations on one object leave every other object alone; what a derived object reads. *)
From Coq Require Import List NArith Bool.
From Coq Require Import Strings.Byte.
From Falco Require Import Base.Bytes Model.HdrField Model.Hdr Model.HdrMulti Proofs.HdrBytes.
Import ListNotations.

Definition writes_to (x : mop) : obj := match x with MOp o _ => o | MDerive dst _ => dst end.

Lemma obj_eqb_eq a b : obj_eqb a b = true <-> a = b.
Proof. destruct a, b; simpl; split; intros H; try reflexivity; discriminate. Qed.

Lemma mset_other m o s p : o <> p -> mset m o s p = m p.
Proof.
  intros H. unfold mset. destruct (obj_eqb o p) eqn:E; [|reflexivity].
  apply obj_eqb_eq in E. contradiction.
Qed.

(* one step: the store of every other object is the very same store, hence every read of every
   header and sub-field of it is unchanged *)
Theorem set_other_object_frame m x p : writes_to x <> p -> fst (mstep m x) p = m p.
Proof.
  destruct x as [o y|dst src]; simpl; intros H.
  - destruct (step (kind_of o) (m o) y) as [s r]. simpl. apply mset_other. exact H.
  - apply mset_other. exact H.
Qed.

(* all histories: an object no operation of the history is addressed to (and that is not rebuilt)
   ends with the store it started with *)
Theorem other_object_frame_histories h : forall m p,
  Forall (fun x => writes_to x <> p) h -> fst (mrun m h) p = m p.
Proof.
  induction h as [|x t IH]; intros m p H; [reflexivity|].
  inversion H; subst. simpl.
  pose proof (set_other_object_frame m x p H2) as H1.
  destruct (mstep m x) as [m1 r]. simpl in H1.
  specialize (IH m1 p H3). destruct (mrun m1 t) as [m2 rs]. simpl in *. congruence.
Qed.

(* a derived object has the header values of its source and no assigned marks: a header that is
   set to the empty string on the source reads as not set on the derived object *)
Theorem derive_reads s n :
  header_get (derive s) n = header_get s n /\ is_assigned (derive s) n = false.
Proof. split; reflexivity. Qed.

(* later operations on the derived object do not reach back into the source, and vice versa *)
Corollary derive_then_independent m dst src h :
  dst <> src -> Forall (fun x => writes_to x <> src) h ->
  fst (mrun (fst (mstep m (MDerive dst src))) h) src = m src.
Proof.
  intros Hne H. rewrite (other_object_frame_histories h _ src H).
  apply (set_other_object_frame m (MDerive dst src) src). exact Hne.
Qed.

(* the scenario of the seeded change C17-agent-a, in the model *)
Example shared_keystore_scenario :
  let name := [x58] in
  let h := [MOp Req (OSet name (VStr [])); MDerive Bereq Req; MOp Bereq (OUnset [x78]); MOp Req (OGet name);
            MOp Bereq (OSet name (VStr [])); MOp Bereq (OGet name); MOp Resp (OGet name)] in
  snd (mrun mst0 h) = [OOk; OOk; OOk; ORead (RStr []); OOk; ORead (RStr []); ORead RNotSet].
Proof. vm_compute. reflexivity. Qed.
