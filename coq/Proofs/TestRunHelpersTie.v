(* C10 - the registry of test-only functions, read off tester/function/functions.go
   (Gen/TestRunHelpers.v), against what the runner model assumes of it:
   - every registered name is wired to ITS OWN implementation (assert.equal_fold was wired to
     Assert_equal: repaired, repository commit "fix: assert.equal_fold ...") - [Assert h] / [Act f]
     of Model/TestRun.v give one meaning to one name;
   - every assert* reports to the pass / fail counter and no testing.* / coverage.* helper does -
     only [Assert] steps move the verdict in the model.
   Decided by computation on the generated table. *)
From Coq Require Import String Ascii List Bool Arith.
From Falco Require Import Gen.TestRunHelpers.
Import ListNotations.
Local Open Scope string_scope.

(* "assert.equal_fold" -> "Assert_equal_fold" *)
Definition upper (c : ascii) : ascii :=
  let n := nat_of_ascii c in if Nat.leb 97 n && Nat.leb n 122 then ascii_of_nat (n - 32) else c.
Fixpoint dots (s : string) : string :=
  match s with
  | EmptyString => EmptyString
  | String c r => String (if Ascii.eqb c "."%char then "_"%char else c) (dots r)
  end.
Definition canon (s : string) : string :=
  match dots s with EmptyString => EmptyString | String c r => String (upper c) r end.

Definition is_assert (n : string) : bool := prefix "assert" n.
Definition is_coverage (n : string) : bool := prefix "coverage." n.

Definition wiredb (e : string * (list string * bool)) : bool :=
  let '(n, (impls, counts)) := e in
  (if is_coverage n then match impls with [i] => String.eqb i "Coverage" | _ => false end
   else match impls with [i] => String.eqb i (canon n) | _ => false end)
  && Bool.eqb counts (is_assert n).

Definition wired (e : string * (list string * bool)) : Prop :=
  (is_coverage (fst e) = false -> fst (snd e) = [canon (fst e)]) /\
  (snd (snd e) = true <-> is_assert (fst e) = true).

Lemma wiredb_ok : forall e, wiredb e = true -> wired e.
Proof.
  intros [n [impls counts]] H. unfold wiredb in H. unfold wired. simpl.
  apply andb_true_iff in H. destruct H as [Hi Hc].
  apply Bool.eqb_prop in Hc. split.
  - intros Hcov. rewrite Hcov in Hi.
    destruct impls as [|i [|? ?]]; try discriminate.
    apply String.eqb_eq in Hi. subst. reflexivity.
  - rewrite Hc. tauto.
Qed.

Theorem helpers_wired : forall e, In e helpers -> wired e.
Proof.
  intros e H. apply wiredb_ok.
  assert (A : forallb wiredb helpers = true) by (vm_compute; reflexivity).
  rewrite forallb_forall in A. apply A. exact H.
Qed.

Fixpoint nodupb (l : list string) : bool :=
  match l with [] => true | x :: r => negb (existsb (String.eqb x) r) && nodupb r end.

(* no name is registered twice (a later entry of the Go map literal would silently replace the earlier) *)
Theorem helpers_names_distinct : nodupb (map fst helpers) = true.
Proof. vm_compute. reflexivity. Qed.

Example equal_fold_wired :
  In ("assert.equal_fold", (["Assert_equal_fold"], true)) helpers.
Proof. vm_compute. intuition. Qed.

(* the check is not vacuous: the entry as it was before the repair is refused *)
Example equal_fold_miswired_refused :
  wiredb ("assert.equal_fold", (["Assert_equal"], true)) = false.
Proof. vm_compute. reflexivity. Qed.
