(* parse_yield for declarations and the entry points: every declaration / statement of the result
   appears once, in source order, built from exactly its tokens. *)
From Coq Require Import String.
From Coq Require Import List NArith ZArith Bool Lia.
From Falco Require Import Base.Bytes Gen.TokenTypes Model.ParseKinds Gen.ParserTables
  Model.ParseBase Model.Ast Model.ParseLit Model.ParseExpr Model.ParseStmt Model.ParseDecl Model.Yield
  Proofs.ParseTables Proofs.ParseExprYield Proofs.ParseStmtYield.
Import ListNotations.
Local Open Scope parse_scope.

Section D.
Variable fok : str -> bool.
Notation parse_expr := (parse_expr fok).

Lemma plong_ok st o s c v st' :
  plong st = POK (o, s, c, v, st') -> toks st = o :: s :: c :: after st'.
Proof. intros H. apply plong_yield in H. tauto. Qed.

Lemma pcidr_yield st c st' :
  toks st = cur st :: after st -> pcidr st = POK (c, st') -> toks st = ycidr c ++ after st'.
Proof.
  intros Hc H. unfold pcidr in H.
  set (st1 := if cur_is st T_NOT then next st else st) in *.
  set (inv := if cur_is st T_NOT then Some (cur st) else None) in *.
  bi H x H1. destruct x as [ip s2].
  assert (Hip : toks st = ytok inv ++ yip ip ++ after s2).
  { assert (T1 : toks st = ytok inv ++ toks st1).
    { subst inv st1. destruct (cur_is st T_NOT); [exact Hc | reflexivity]. }
    rewrite T1. f_equal.
    destruct (typ (cur st1)) eqn:Et; try discriminate.
    - inversion H1; subst. cbn [yip app]. apply cur_not_eof. congruence.
    - bi H1 x H2. destruct x as [[[[o s] c0] v] sx]. inversion H1; subst.
      apply plong_ok in H2. exact H2. }
  bi H x H2. destruct x as [mask s3].
  assert (Hm : after s2 = match mask with Some (sl, t, _) => [sl; t] | None => [] end ++ after s3).
  { destruct (peek_is s2 T_SLASH) eqn:Es.
    - bi H2 s4 H3. ex_ok H3. bi H2 v Hv. inversion H2; subst.
      pose proof (peek_is_ok _ _ Es ltac:(discriminate)) as QQ. chase. lists.
    - inversion H2; subst. reflexivity. }
  bi H s4 H4. sm_ok H4. inversion H; subst.
  cbn [ycidr]. rewrite Hip. chase. lists.
Qed.

Lemma pcidrs_yield : forall n st acc cs st',
  pcidrs n st acc = POK (cs, st') ->
  exists cs', cs = rev acc ++ cs' /\ after st = flat_map ycidr cs' ++ after st' /\ peek_is st' T_RIGHT_BRACE = true.
Proof.
  induction n as [|n IH]; intros st acc cs st' H; [discriminate|].
  cbn [pcidrs] in H. destruct (peek_is st T_RIGHT_BRACE) eqn:Er.
  { inversion H; subst. exists []. rewrite app_nil_r. repeat split; auto. }
  bi H x H1. destruct x as [c s1].
  assert (Hne : typ (cur (next st)) <> T_EOF).
  { intros E. unfold pcidr, cur_is in H1. rewrite E in H1. cbn in H1. rewrite E in H1. discriminate. }
  apply pcidr_yield in H1; [|apply cur_not_eof; exact Hne].
  apply IH in H. destruct H as [cs' [E1 [E2 E3]]].
  exists (c :: cs'). split; [|split; [|exact E3]].
  - rewrite E1. simpl. rewrite <- app_assoc. reflexivity.
  - cbn [flat_map]. change (after st) with (toks (next st)). rewrite H1, E2. lists.
Qed.

Definition Ydecl (f : pstate -> pres (stmt * pstate)) : Prop :=
  forall st s st', toks st = cur st :: after st -> f st = POK (s, st') -> toks st = ystmt s ++ after st'.

Lemma pacl_yield : Ydecl pacl.
Proof.
  intros st s st' Hc H. unfold pacl in H.
  bi H s1 H1. ex_ok H1. bi H s2 H2. ex_ok H2. bi H x H3. destruct x as [cs s3]. inversion H; subst.
  apply pcidrs_yield in H3. destruct H3 as [cs' [E1 [E2 E3]]]. simpl in E1. subst cs'.
  pose proof (peek_is_ok _ _ E3 ltac:(discriminate)) as QQ.
  cbn [ystmt]. rewrite Hc. chase. lists.
Qed.

Lemma pbprop_yield_all : forall n,
  (forall st p st', pbprop fok n st = POK (p, st') -> after st = ybprop p ++ after st') /\
  (forall st acc ps st', pbprops fok n st acc = POK (ps, st') ->
     exists ps', ps = rev acc ++ ps' /\ after st = flat_map ybprop ps' ++ after st' /\ peek_is st' T_RIGHT_BRACE = true).
Proof.
  induction n as [|n [IHp IHl]]; [split; intros; discriminate|].
  split.
  - intros st p st' H. cbn [pbprop] in H.
    bi H s1 H1. ex_ok H1. bi H s2 H2. ex_ok H2. bi H s3 H3. ex_ok H3.
    destruct (cur_is (next s3) T_LEFT_BRACE) eqn:El.
    + bi H x H4. destruct x as [ps s5]. inversion H; subst.
      apply IHl in H4. destruct H4 as [ps' [E1 [E2 E3]]]. simpl in E1. subst ps'.
      pose proof (peek_is_ok _ _ E3 ltac:(discriminate)) as QQ.
      pose proof (cur_is_ok _ _ El ltac:(discriminate)) as QQ2. rewrite after_next in QQ2.
      cbn [ybprop]. chase. lists.
    + bi H x H4. destruct x as [e s5]. apply pe_ok in H4. rewrite after_next in H4.
      bi H s6 H6. sm_ok H6. inversion H; subst. cbn [ybprop]. chase. lists.
  - intros st acc ps st' H. cbn [pbprops] in H.
    destruct (peek_is st T_RIGHT_BRACE) eqn:Er.
    { inversion H; subst. exists []. rewrite app_nil_r. repeat split; auto. }
    bi H x H1. destruct x as [p s1]. apply IHp in H1.
    apply IHl in H. destruct H as [ps' [E1 [E2 E3]]].
    exists (p :: ps'). split; [|split; [|exact E3]].
    + rewrite E1. simpl. rewrite <- app_assoc. reflexivity.
    + cbn [flat_map]. rewrite H1, E2. lists.
Qed.

Lemma pbackend_yield : Ydecl (pbackend fok).
Proof.
  intros st s st' Hc H. unfold pbackend in H.
  bi H s1 H1. ex_ok H1. bi H s2 H2. ex_ok H2. bi H x H3. destruct x as [ps s3]. inversion H; subst.
  apply (proj2 (pbprop_yield_all _)) in H3. destruct H3 as [ps' [E1 [E2 E3]]]. simpl in E1. subst ps'.
  pose proof (peek_is_ok _ _ E3 ltac:(discriminate)) as QQ.
  cbn [ystmt]. rewrite Hc. chase. lists.
Qed.

Lemma pdfield_yield st f st' :
  toks st = cur st :: after st -> pdfield fok st = POK (f, st') -> toks st = ydfield f ++ after st'.
Proof.
  intros Hc H. unfold pdfield in H.
  bi H s1 H1.
  assert (Q1 : after st = cur s1 :: after s1).
  { destruct (expect_peek st T_IDENT) as [s|] eqn:E1.
    - inversion H1; subst. assert (He : expect st T_IDENT = POK s1) by (unfold expect; rewrite E1; reflexivity).
      ex_ok He. assumption.
    - destruct (expect_peek st T_BACKEND) as [s|] eqn:E2; [|discriminate].
      inversion H1; subst. assert (He : expect st T_BACKEND = POK s1) by (unfold expect; rewrite E2; reflexivity).
      ex_ok He. assumption. }
  bi H s2 H2. ex_ok H2. bi H x H3. destruct x as [e s3]. apply pe_next in H3.
  bi H s4 H4. sm_ok H4. inversion H; subst.
  cbn [ydfield]. rewrite Hc. chase. lists.
Qed.

Lemma pdfields_yield : forall n st acc fs st',
  pdfields fok n st acc = POK (fs, st') ->
  exists fs', fs = rev acc ++ fs' /\ after st = flat_map ydfield fs' ++ after st' /\ peek_is st' T_RIGHT_BRACE = true.
Proof.
  induction n as [|n IH]; intros st acc fs st' H; [discriminate|].
  cbn [pdfields] in H. destruct (peek_is st T_RIGHT_BRACE) eqn:Er.
  { inversion H; subst. exists []. rewrite app_nil_r. repeat split; auto. }
  bi H s1 H1. ex_ok H1. bi H x H2. destruct x as [f s2].
  apply pdfield_yield in H2; [|subst s1; apply cur_not_eof; congruence].
  apply IH in H. destruct H as [fs' [E1 [E2 E3]]].
  exists (f :: fs'). split; [|split; [|exact E3]].
  - rewrite E1. simpl. rewrite <- app_assoc. reflexivity.
  - cbn [flat_map]. change (after st) with (toks (next st)). subst s1. rewrite H2, E2. lists.
Qed.

Lemma pdbackend_yield st p st' :
  toks st = cur st :: after st -> pdbackend fok st = POK (p, st') -> toks st = ydprop p ++ after st'.
Proof.
  intros Hc H. unfold pdbackend in H. bi H x H1. destruct x as [fs s1]. inversion H; subst.
  apply pdfields_yield in H1. destruct H1 as [fs' [E1 [E2 E3]]]. simpl in E1. subst fs'.
  pose proof (peek_is_ok _ _ E3 ltac:(discriminate)) as QQ.
  cbn [ydprop]. rewrite Hc. chase. lists.
Qed.

Lemma pdprops_yield : forall n st acc ps st',
  pdprops fok n st acc = POK (ps, st') ->
  exists ps', ps = rev acc ++ ps' /\ after st = flat_map ydprop ps' ++ after st' /\ peek_is st' T_RIGHT_BRACE = true.
Proof.
  induction n as [|n IH]; intros st acc ps st' H; [discriminate|].
  cbn [pdprops] in H. destruct (peek_is st T_RIGHT_BRACE) eqn:Er.
  { inversion H; subst. exists []. rewrite app_nil_r. repeat split; auto. }
  bi H x H1. destruct x as [p s1].
  assert (Hp : after st = ydprop p ++ after s1).
  { destruct (typ (peek st)) eqn:Et; try discriminate.
    - (* LEFT_BRACE *) change (after st) with (toks (next st)).
      apply pdbackend_yield; [apply cur_not_eof; rewrite <- peek_next; congruence | exact H1].
    - (* DOT *) bi H1 x H2. destruct x as [f sx]. inversion H1; subst.
      change (after st) with (toks (next st)). cbn [ydprop].
      apply pdfield_yield; [apply cur_not_eof; rewrite <- peek_next; congruence | exact H2]. }
  apply IH in H. destruct H as [ps' [E1 [E2 E3]]].
  exists (p :: ps'). split; [|split; [|exact E3]].
  - rewrite E1. simpl. rewrite <- app_assoc. reflexivity.
  - cbn [flat_map]. rewrite Hp, E2. lists.
Qed.

Lemma pdirector_yield : Ydecl (pdirector fok).
Proof.
  intros st s st' Hc H. unfold pdirector in H.
  bi H s1 H1. ex_ok H1. bi H s2 H2. ex_ok H2. bi H s3 H3. ex_ok H3.
  bi H x H4. destruct x as [ps s4]. inversion H; subst.
  apply pdprops_yield in H4. destruct H4 as [ps' [E1 [E2 E3]]]. simpl in E1. subst ps'.
  pose proof (peek_is_ok _ _ E3 ltac:(discriminate)) as QQ.
  cbn [ystmt]. rewrite Hc. chase. lists.
Qed.

Lemma pleaf_yield s (e : expr) : toks s = cur s :: after s -> yexpr e = [cur s] -> toks s = yexpr e ++ after s.
Proof. intros H1 H2. rewrite H2. exact H1. Qed.

Lemma ptprop_yield st p st' : ptprop fok st = POK (p, st') -> after st = ytprop p ++ after st'.
Proof.
  intros H. unfold ptprop in H.
  bi H x H1. destruct x as [key s1].
  assert (Hk : after st = yexpr key ++ after s1).
  { destruct (typ (peek st)) eqn:Et; try discriminate.
    - bi H1 v Hv. inversion H1; subst. cbn [yexpr app]. apply next_ok. congruence.
    - bi H1 x H2. destruct x as [[[[o s] c] v] sx]. inversion H1; subst.
      apply plong_ok in H2. cbn [yexpr]. exact H2. }
  bi H s2 H2. ex_ok H2. bi H x H3. destruct x as [v s4].
  assert (Hv : after s2 = yexpr v ++ after s4).
  { change (after s2) with (toks (next s2)).
    destruct (typ (cur (next s2))) eqn:Et; try discriminate;
      assert (Hc : toks (next s2) = cur (next s2) :: after (next s2)) by (apply cur_not_eof; congruence).
    - inversion H3; subst. apply pleaf_yield; auto.
    - unfold pinteger in H3. bi H3 z Hz. inversion H3; subst. apply pleaf_yield; auto.
    - bi H3 z Hz. inversion H3; subst. apply pleaf_yield; auto.
    - bi H3 x H5. destruct x as [[[[o s] c] z] sx]. inversion H3; subst. apply plong_ok in H5. exact H5.
    - unfold pfloat in H3. destruct (fok _); [|discriminate]. inversion H3; subst. apply pleaf_yield; auto.
    - unfold prtime in H3. destruct (rtime_value _); [|discriminate]. destruct (fok _); [|discriminate].
      inversion H3; subst. apply pleaf_yield; auto.
    - inversion H3; subst. apply pleaf_yield; auto.
    - inversion H3; subst. apply pleaf_yield; auto. }
  destruct (typ (peek s4)) eqn:Et; try discriminate.
  - (* RIGHT_BRACE *) inversion H; subst. cbn [ytprop ytok]. chase. lists.
  - (* COMMA *) inversion H; subst. pose proof (next_ok s4 ltac:(congruence)) as QQ.
    cbn [ytprop ytok]. chase. lists.
Qed.

Lemma ptprops_yield : forall n st acc ps st',
  ptprops fok n st acc = POK (ps, st') ->
  exists ps', ps = rev acc ++ ps' /\ after st = flat_map ytprop ps' ++ after st' /\ peek_is st' T_RIGHT_BRACE = true.
Proof.
  induction n as [|n IH]; intros st acc ps st' H; [discriminate|].
  cbn [ptprops] in H. destruct (peek_is st T_RIGHT_BRACE) eqn:Er.
  { inversion H; subst. exists []. rewrite app_nil_r. repeat split; auto. }
  bi H x H1. destruct x as [p s1]. apply ptprop_yield in H1.
  apply IH in H. destruct H as [ps' [E1 [E2 E3]]].
  exists (p :: ps'). split; [|split; [|exact E3]].
  - rewrite E1. simpl. rewrite <- app_assoc. reflexivity.
  - cbn [flat_map]. rewrite H1, E2. lists.
Qed.

Lemma ptable_yield : Ydecl (ptable fok).
Proof.
  intros st s st' Hc H. unfold ptable in H.
  bi H s1 H1. ex_ok H1.
  destruct (peek_is s1 T_IDENT) eqn:Ei.
  - pose proof (peek_is_ok _ _ Ei ltac:(discriminate)) as QQ.
    bi H s3 H3. ex_ok H3. bi H x H4. destruct x as [ps s4]. inversion H; subst.
    apply ptprops_yield in H4. destruct H4 as [ps' [E1 [E2 E3]]]. simpl in E1. subst ps'.
    pose proof (peek_is_ok _ _ E3 ltac:(discriminate)) as QQ2.
    cbn [ystmt ytok]. rewrite peek_next. rewrite Hc. chase. lists.
  - bi H s3 H3. ex_ok H3. bi H x H4. destruct x as [ps s4]. inversion H; subst.
    apply ptprops_yield in H4. destruct H4 as [ps' [E1 [E2 E3]]]. simpl in E1. subst ps'.
    pose proof (peek_is_ok _ _ E3 ltac:(discriminate)) as QQ2.
    cbn [ystmt ytok]. rewrite Hc. chase. lists.
Qed.

Lemma pparams_yield : forall n st acc ps st',
  pparams n st acc = POK (ps, st') ->
  exists ps', ps = rev acc ++ ps' /\ after st = flat_map yparam ps' ++ after st'.
Proof.
  induction n as [|n IH]; intros st acc ps st' H; [discriminate|].
  cbn [pparams] in H. destruct (peek_is st T_RIGHT_PAREN || peek_is st T_EOF).
  { inversion H; subst. exists []. rewrite app_nil_r. split; reflexivity. }
  bi H s1 H1. ex_ok H1. bi H s2 H2. ex_ok H2.
  destruct (peek_is s2 T_COMMA) eqn:Ec.
  - pose proof (peek_is_ok _ _ Ec ltac:(discriminate)) as QQ.
    apply IH in H. destruct H as [ps' [E1 E2]].
    exists ((cur s1, cur s2, Some (cur (next s2))) :: ps'). split.
    + rewrite E1. simpl. rewrite <- app_assoc. reflexivity.
    + cbn [flat_map]. unfold yparam at 1. chase. lists.
  - destruct (peek_is s2 T_RIGHT_PAREN); cbn [negb] in H; [|discriminate].
    apply IH in H. destruct H as [ps' [E1 E2]].
    exists ((cur s1, cur s2, None) :: ps'). split.
    + rewrite E1. simpl. rewrite <- app_assoc. reflexivity.
    + cbn [flat_map]. unfold yparam at 1. chase. lists.
Qed.

Lemma pblock_ok n st lb ss rb st' :
  pblock fok n st = POK ((lb, ss, rb), st') -> lb = cur st /\ after st = flat_map ystmt ss ++ rb :: after st'.
Proof. apply (yield_stmt_all fok n). Qed.

Lemma psub_yield : Ydecl (psub fok).
Proof.
  intros st s st' Hc H. unfold psub in H.
  bi H s1 H1. ex_ok H1. bi H x H2. destruct x as [params s2].
  assert (Hp : after s1 = match params with Some (lp, ps, rp) => lp :: flat_map yparam ps ++ [rp] | None => [] end ++ after s2).
  { destruct (peek_is s1 T_LEFT_PAREN) eqn:El.
    - pose proof (peek_is_ok _ _ El ltac:(discriminate)) as QQ.
      bi H2 x H3. destruct x as [ps sx]. bi H2 sy H4. ex_ok H4. inversion H2; subst.
      apply pparams_yield in H3. destruct H3 as [ps' [E1 E2]]. simpl in E1. subst ps'.
      chase. lists.
    - inversion H2; subst. reflexivity. }
  destruct (peek_is s2 T_IDENT) eqn:Ei.
  - pose proof (peek_is_ok _ _ Ei ltac:(discriminate)) as QQ.
    bi H s4 H4. ex_ok H4. bi H x H5. destruct x as [[[lb ss] rb] s5]. inversion H; subst.
    apply pblock_ok in H5. destruct H5 as [E1 E2]. subst lb.
    cbn [ystmt ytok]. rewrite peek_next. rewrite Hc. chase. lists.
  - bi H s4 H4. ex_ok H4. bi H x H5. destruct x as [[[lb ss] rb] s5]. inversion H; subst.
    apply pblock_ok in H5. destruct H5 as [E1 E2]. subst lb.
    cbn [ystmt ytok]. rewrite Hc. chase. lists.
Qed.

Lemma pnamed_block_yield mk :
  (forall kw name lb b rb, ystmt (mk kw name lb b rb) = kw :: name :: lb :: flat_map ystmt b ++ [rb]) ->
  Ydecl (pnamed_block fok mk).
Proof.
  intros Hmk st s st' Hc H. unfold pnamed_block in H.
  bi H s1 H1. ex_ok H1. bi H s2 H2. ex_ok H2. bi H x H3. destruct x as [[[lb ss] rb] s3]. inversion H; subst.
  apply pblock_ok in H3. destruct H3 as [E1 E2]. subst lb.
  rewrite Hmk, Hc. chase. lists.
Qed.

(* Parse(): one declaration and the NextToken behind it *)
Theorem parse_decl_yield st d st' :
  parse_decl fok st = POK (d, st') -> toks st = ystmt d ++ toks st'.
Proof.
  intros H. unfold parse_decl in H. bi H x H1. destruct x as [d0 s1]. inversion H; subst.
  rewrite after_next.
  destruct (typ (cur st)) eqn:Et; try discriminate;
    assert (Hc : toks st = cur st :: after st) by (apply cur_not_eof; congruence); revert H1.
  - apply pacl_yield; auto.
  - apply pdirector_yield; auto.
  - apply pbackend_yield; auto.
  - apply ptable_yield; auto.
  - apply psub_yield; auto.
  - apply pinclude_yield; auto.
  - apply pkw_ident_yield; auto.
  - apply pnamed_block_yield; auto.
  - apply pnamed_block_yield; auto.
Qed.

Lemma pvcl_yield : forall n st acc ds st',
  pvcl fok n st acc = POK (ds, st') ->
  exists ds', ds = rev acc ++ ds' /\ toks st = flat_map ystmt ds' ++ toks st' /\ cur_is st' T_EOF = true.
Proof.
  induction n as [|n IH]; intros st acc ds st' H; [discriminate|].
  cbn [pvcl] in H. destruct (cur_is st T_EOF) eqn:Ee.
  { inversion H; subst. exists []. rewrite app_nil_r. repeat split; auto. }
  bi H x H1. destruct x as [d s1]. apply parse_decl_yield in H1.
  apply IH in H. destruct H as [ds' [E1 [E2 E3]]].
  exists (d :: ds'). split; [|split; [|exact E3]].
  - rewrite E1. simpl. rewrite <- app_assoc. reflexivity.
  - cbn [flat_map]. rewrite H1, E2. lists.
Qed.

Definition no_eof (ts : list token) : bool := forallb (fun t => negb (ttype_eqb (typ t) T_EOF)) ts.

(* ParseVCL: the declarations of the result are exactly the tokens of the input, once, in order *)
Theorem parse_vcl_yield ts v :
  parse_vcl fok ts = POK v -> no_eof ts = true -> ts = flat_map ystmt (vstmts v).
Proof.
  unfold parse_vcl. intros H Hn. bi H x H1. destruct x as [ds s1]. inversion H; subst. cbn [vstmts].
  apply pvcl_yield in H1. destruct H1 as [ds' [E1 [E2 E3]]]. simpl in E1. subst ds'.
  cbn [start toks] in E2.
  assert (toks s1 = []).
  { destruct (toks s1) as [|t r] eqn:Et; [reflexivity|]. exfalso.
    unfold cur_is, cur in E3. rewrite Et in E3. simpl in E3.
    unfold no_eof in Hn. rewrite E2, forallb_app in Hn. apply andb_true_iff in Hn. destruct Hn as [_ Hn].
    simpl in Hn. rewrite E3 in Hn. discriminate. }
  rewrite H0, app_nil_r in E2. exact E2.
Qed.

(* one iteration of the snippet loop *)
Lemma snippet_stmt_yield st s st' :
  toks st = cur st :: after st -> snippet_stmt fok st = POK (s, st') -> toks st = ystmt s ++ toks st'.
Proof.
  intros Hc H. unfold snippet_stmt in H. bi H x H1. destruct x as [s0 s1]. inversion H; subst.
  rewrite after_next.
  destruct (typ (cur st)) eqn:Et;
    try (destruct (psimple fok st) as [r|] eqn:Ep; [|discriminate]; eapply psimple_yield; eauto; fail).
  - (* IDENT *)
    destruct (peek_is st T_LEFT_PAREN) eqn:El.
    + eapply pfuncall_yield; eauto.
    + destruct (pgotodest st) as [[s2 st2]|] eqn:Eg; [|discriminate].
      inversion H1; subst. eapply pgotodest_yield; eauto.
  - (* LEFT_BRACE *)
    bi H1 x H2. destruct x as [[[lb ss] rb] s2]. inversion H1; subst.
    apply pblock_ok in H2. destruct H2 as [E1 E2]. subst lb.
    cbn [ystmt]. rewrite Hc, E2. lists.
  - (* IF *) revert H1. apply (yield_stmt_all fok _). exact Hc.
  - (* SWITCH *) revert H1. apply (yield_stmt_all fok _). exact Hc.
Qed.

Lemma psnippet_yield : forall n st acc ss st',
  psnippet fok n st acc = POK (ss, st') ->
  exists ss' s0, ss = rev acc ++ ss' /\ toks st = flat_map ystmt ss' ++ toks s0 /\ cur_is s0 T_EOF = true.
Proof.
  induction n as [|n IH]; intros st acc ss st' H; [discriminate|].
  cbn [psnippet] in H. destruct (cur_is st T_EOF) eqn:Ee.
  { inversion H; subst. exists [], st. rewrite app_nil_r. repeat split; auto. }
  bi H x H1. destruct x as [s0 s1].
  assert (Hc : toks st = cur st :: after st).
  { apply cur_not_eof. intros E. unfold cur_is in Ee. rewrite E in Ee. discriminate. }
  apply snippet_stmt_yield in H1; [|exact Hc].
  apply IH in H. destruct H as [ss' [sx [E1 [E2 E3]]]].
  exists (s0 :: ss'), sx. split; [|split; [|exact E3]].
  - rewrite E1. simpl. rewrite <- app_assoc. reflexivity.
  - cbn [flat_map]. rewrite H1, E2. lists.
Qed.

(* ParseSnippetVCL (after the dangling-token fix): the statements are exactly the tokens of the
   input, once, in order *)
Theorem parse_snippet_yield ts v :
  parse_snippet fok ts = POK v -> no_eof ts = true -> ts = flat_map ystmt (vstmts v).
Proof.
  unfold parse_snippet. intros H Hn. bi H x H1. destruct x as [ss s1]. inversion H; subst. cbn [vstmts].
  apply psnippet_yield in H1. destruct H1 as [ss' [s0 [E1 [E2 E3]]]]. simpl in E1. subst ss'.
  cbn [start toks] in E2.
  assert (Hr : toks s0 = []).
  { destruct (toks s0) as [|t r] eqn:Et; [reflexivity|]. exfalso.
    unfold cur_is, cur in E3. rewrite Et in E3. simpl in E3.
    unfold no_eof in Hn. rewrite E2, forallb_app in Hn.
    apply andb_true_iff in Hn. destruct Hn as [_ Hn]. simpl in Hn. rewrite E3 in Hn. discriminate. }
  rewrite Hr, app_nil_r in E2. exact E2.
Qed.

(* a dangling last token is no longer dropped: `esi; foo` is an error, a trailing label is kept *)
Example snippet_dangling_token :
  (exists k t r, parse_snippet fok [Tok T_ESI [] 0; Tok T_SEMICOLON [] 0; Tok T_IDENT [] 0] = PErr k t r)
  /\ exists v, parse_snippet fok [Tok T_ESI [] 0; Tok T_SEMICOLON [] 0; Tok T_IDENT (s2b "l:") 0] = POK v
             /\ length (vstmts v) = 2%nat.
Proof. split; [do 3 eexists; vm_compute; reflexivity | eexists; split; [vm_compute; reflexivity | reflexivity]]. Qed.

End D.
