(* C08 - the call-depth guard and the restart guard bound every simulation. *)
From Coq Require Import List Arith Bool Lia.
From Falco Require Import Base.Res Model.Exec.
Import ListNotations.

Definition fine {A} (r : res A) : Prop := r <> OutOfFuel /\ r <> Crash.
Ltac fin := split; (let H := fresh in intro H; discriminate H).

Section XInd.
  Variable P : xstmt -> Prop.
  Hypothesis HSkip : P XSkip.
  Hypothesis HCall : forall f, P (XCall f).
  Hypothesis HIf : forall c t e, Forall P t -> Forall P e -> P (XIf c t e).
  Hypothesis HIfR : forall k t e, Forall P t -> Forall P e -> P (XIfRestartsLt k t e).
  Hypothesis HRestart : P XRestart.
  Hypothesis HReturn : forall s, P (XReturn s).
  Hypothesis HError : P XError.
  Fixpoint xstmt_ind' (s : xstmt) : P s :=
    let all := fix all (l : list xstmt) : Forall P l :=
      match l with [] => Forall_nil P | x :: r => Forall_cons x (xstmt_ind' x) (all r) end in
    match s with
    | XSkip => HSkip
    | XCall f => HCall f
    | XIf c t e => HIf c t e (all t) (all e)
    | XIfRestartsLt k t e => HIfR k t e (all t) (all e)
    | XRestart => HRestart
    | XReturn st => HReturn st
    | XError => HError
    end.
End XInd.

Section Fine.
Variable subs : list (list xstmt).
Variable mr r : nat.

Lemma stmt_if callee c t e : stmt mr r callee (XIf c t e) = block mr r callee (if c then t else e).
Proof. reflexivity. Qed.
Lemma stmt_ifr callee k t e :
  stmt mr r callee (XIfRestartsLt k t e) = block mr r callee (if r <? k then t else e).
Proof. reflexivity. Qed.

Lemma block_fine callee l : Forall (fun s => fine (stmt mr r callee s)) l -> fine (block mr r callee l).
Proof.
  induction 1 as [|x l Hx Hl IH]; cbn; [fin|].
  destruct Hx as [H1 H2]. destruct (stmt mr r callee x) as [[]| | |] eqn:E; try (split; congruence); exact IH.
Qed.

Lemma stmt_fine callee : (forall g, fine (callee g)) -> forall s, fine (stmt mr r callee s).
Proof.
  intros Hc. induction s using xstmt_ind'.
  - fin.
  - apply Hc.
  - rewrite stmt_if. apply block_fine. now destruct c.
  - rewrite stmt_ifr. apply block_fine. now destruct (r <? k).
  - change (fine (if mr <? r + 1 then Err else OK XRestartSt)). destruct (mr <? r + 1); fin.
  - fin.
  - fin.
Qed.

(* subroutine execution is a value or an error at every depth budget: no fuel is involved, the
   recursion is on the budget *)
Theorem exec_fine : forall b f, fine (exec_sub subs mr r b f).
Proof.
  induction b as [|b IH]; intros f; cbn; [fin|].
  destruct (nth_error subs f); [|fin].
  apply block_fine. apply Forall_forall. intros s _. now apply stmt_fine.
Qed.

End Fine.

(* ---------------------------------------------------------------- call depth *)

(* a subroutine that calls itself ends in the MaxCallStackExceeded error, whatever the limit *)
Theorem self_recursion_err : forall mr r b, exec_sub [[XCall 0]] mr r b 0 = Err.
Proof. induction b as [|b IH]; [reflexivity|]. cbn. now rewrite IH. Qed.

(* two subroutines calling each other *)
Lemma mutual_recursion_both mr r : forall b,
  exec_sub [[XCall 1]; [XCall 0]] mr r b 0 = Err /\ exec_sub [[XCall 1]; [XCall 0]] mr r b 1 = Err.
Proof.
  induction b as [|b [IH0 IH1]]; [split; reflexivity|].
  split; cbn; [now rewrite IH1|now rewrite IH0].
Qed.

Theorem mutual_recursion_err : forall mr r b, exec_sub [[XCall 1]; [XCall 0]] mr r b 0 = Err.
Proof. intros. apply mutual_recursion_both. Qed.

Lemma chain_nth n j : j < n -> nth_error (chain n) j = Some (if S j <? n then [XCall (S j)] else [XSkip]).
Proof.
  intros H. unfold chain.
  apply map_nth_error with (f := fun j => if S j <? n then [XCall (S j)] else [XSkip]).
  rewrite nth_error_nth' with (d := 0) by (rewrite seq_length; lia). now rewrite seq_nth.
Qed.

(* a chain with k more calls below frame j needs exactly k + 1 frames *)
Lemma chain_exec mr r n : forall k j b, j + k + 1 = n ->
  exec_sub (chain n) mr r b j = if k <? b then OK XNone else Err.
Proof.
  induction k as [|k IH]; intros j b Hn.
  - destruct b; [reflexivity|]. cbn [exec_sub]. rewrite chain_nth by lia.
    replace (S j <? n) with false by (symmetry; apply Nat.ltb_ge; lia). reflexivity.
  - destruct b; [reflexivity|]. cbn [exec_sub]. rewrite chain_nth by lia.
    replace (S j <? n) with true by (symmetry; apply Nat.ltb_lt; lia).
    cbn [block stmt]. rewrite (IH (S j) b) by lia.
    change (S k <? S b) with (k <? b). destruct (k <? b); reflexivity.
Qed.

(* call chains up to the limit run, one frame more is an error: the depth never exceeds the limit *)
Theorem depth_bound : forall mr r limit n, 1 <= n ->
  exec_sub (chain n) mr r limit 0 = if n <=? limit then OK XNone else Err.
Proof.
  intros mr r limit n Hn. rewrite (chain_exec mr r n (n - 1) 0 limit) by lia.
  destruct (n <=? limit) eqn:E.
  - apply Nat.leb_le in E. replace (n - 1 <? limit) with true by (symmetry; apply Nat.ltb_lt; lia). reflexivity.
  - apply Nat.leb_gt in E. replace (n - 1 <? limit) with false by (symmetry; apply Nat.ltb_ge; lia). reflexivity.
Qed.

(* ---------------------------------------------------------------- restarts *)

Lemma serve_fine subs d mr : forall fuel r, r <= mr -> mr + 1 <= fuel + r ->
  fine (serve subs d mr fuel r).
Proof.
  induction fuel as [|k IH]; intros r Hr Hf; [lia|].
  cbn [serve]. destruct (exec_fine subs mr r d 0) as [H1 H2].
  destruct (exec_sub subs mr r d 0) as [[]| | |] eqn:Ex; try (split; congruence).
  destruct (mr <? r + 1) eqn:E; [fin|].
  apply Nat.ltb_ge in E. apply IH; lia.
Qed.

(* MaxVarnishRestarts + 1 passes are always enough: a request never restarts forever *)
Theorem restart_total : forall subs d mr, fine (serve subs d mr (S mr) 0).
Proof. intros. apply serve_fine; lia. Qed.

Lemma serve_count subs d mr : forall fuel r st n, r <= mr ->
  serve subs d mr fuel r = OK (st, n) -> r <= n <= mr.
Proof.
  induction fuel as [|k IH]; intros r st n Hr; [discriminate|].
  cbn [serve]. destruct (exec_sub subs mr r d 0) as [[]| | |]; try discriminate;
    try (intros H; injection H as <- <-; lia).
  destruct (mr <? r + 1) eqn:E; [discriminate|]. apply Nat.ltb_ge in E.
  intros H. apply IH in H; lia.
Qed.

(* the number of restarts of a request never exceeds the limit *)
Theorem restart_bound : forall subs d mr st n, serve subs d mr (S mr) 0 = OK (st, n) -> n <= mr.
Proof. intros subs d mr st n H. apply serve_count in H; lia. Qed.

(* an unconditional restart (restart; or return(restart);) in vcl_recv ends in the limit error *)
Lemma exec_restart mr r d : exec_sub [[XRestart]] mr r (S d) 0 = if mr <? r + 1 then Err else OK XRestartSt.
Proof. cbn -[Nat.ltb]. destruct (mr <? r + 1); reflexivity. Qed.
Lemma exec_return_restart mr r d : exec_sub [[XReturn XRestartSt]] mr r (S d) 0 = OK XRestartSt.
Proof. reflexivity. Qed.

Lemma always_restart_err body d mr : (body = XRestart :: nil \/ body = XReturn XRestartSt :: nil) ->
  forall fuel r, r <= mr -> mr + 1 <= fuel + r -> serve [body] (S d) mr fuel r = Err.
Proof.
  intros Hb. induction fuel as [|k IH]; intros r Hr Hf; [lia|].
  cbn [serve]. destruct Hb as [-> | ->].
  - rewrite exec_restart. destruct (mr <? r + 1) eqn:E; [reflexivity|]. apply Nat.ltb_ge in E.
    apply (IH (S r)); lia.
  - rewrite exec_return_restart. destruct (mr <? r + 1) eqn:E; [reflexivity|]. apply Nat.ltb_ge in E.
    apply (IH (S r)); lia.
Qed.

Theorem unconditional_restart_err : forall d mr,
  serve [[XRestart]] (S d) mr (S mr) 0 = Err /\ serve [[XReturn XRestartSt]] (S d) mr (S mr) 0 = Err.
Proof. intros; split; apply always_restart_err; auto; lia. Qed.

(* restart while req.restarts < k: exactly min k limit restarts when k <= limit, else the error *)
Example restart_twice : serve [[XIfRestartsLt 2 [XRestart] []; XReturn XLookup]] 100 3 4 0 = OK (XLookup, 2).
Proof. reflexivity. Qed.
Example restart_four : serve [[XIfRestartsLt 4 [XRestart] []; XReturn XLookup]] 100 3 4 0 = Err.
Proof. reflexivity. Qed.
