(* C18: the diagnostics of concurrent lint plugins, collected per slot and reported after the join, are
   exactly the diagnostics of the plugins that answered (one failure diagnostic for each that did not),
   in annotation order - whatever the interleaving. *)
From Coq Require Import List Arith Bool Lia.
From Falco Require Import Model.Sched Proofs.SchedProofs.
Import ListNotations.

Section CollectProofs.
  Variable D : Type.
  Variable os : list (outcome D).
  Let n := length os.
  Let O := fun i => nth i os (Answered []).
  Let threads := collect_threads D os.

  Definition CInv (c : config (slots D) unit) : Prop :=
    forall i, (i < n -> exists done rest, diags D (O i) = done ++ rest /\
                                          code c i = map (slot_step D i) rest /\ st c i = done) /\
              (n <= i -> code c i = [] /\ st c i = []).

  Lemma cthreads_nth i : i < n -> nth i threads [] = slot_thread D i (O i).
  Proof.
    intros Hi. unfold threads, collect_threads.
    set (g := fun p : nat * outcome D => slot_thread D (fst p) (snd p)).
    rewrite (nth_indep _ [] (g (0, Answered []))) by (rewrite map_length, combine_length, seq_length, Nat.min_id; exact Hi).
    rewrite (map_nth g), combine_nth by (rewrite seq_length; reflexivity).
    unfold g. cbn [fst snd]. rewrite seq_nth by exact Hi. reflexivity.
  Qed.

  Lemma cthreads_length : length threads = n.
  Proof. unfold threads, collect_threads. rewrite map_length, combine_length, seq_length. apply Nat.min_id. Qed.

  Lemma cinv_init : CInv (init threads (slots0 D)).
  Proof.
    intros i. split.
    - intros Hi. exists [], (diags D (O i)). cbn [init code st]. rewrite cthreads_nth by exact Hi. auto.
    - intros Hi. cbn [init code st]. split; [|reflexivity]. apply nth_overflow. rewrite cthreads_length. exact Hi.
  Qed.

  Lemma cinv_tick i c c' : CInv c -> tick i c = Some c' -> CInv c'.
  Proof.
    intros Hinv Ht. unfold tick in Ht.
    destruct (lt_dec i n) as [Hi|Hi]; [|rewrite (proj1 (proj2 (Hinv i) ltac:(lia))) in Ht; discriminate].
    destruct (proj1 (Hinv i) Hi) as (done & rest & Hd & Hc & Hs). rewrite Hc in Ht.
    destruct rest as [|d rest]; [discriminate|]. cbn [map slot_step] in Ht. inversion Ht; subst c'; clear Ht.
    intros j. destruct (Nat.eq_dec j i) as [->|Hji].
    - split; [|lia]. intros _. exists (done ++ [d]), rest. cbn [code st].
      rewrite !upd_same, <- app_assoc, Hs. auto.
    - cbn [code st]. rewrite !upd_other by exact Hji. apply Hinv.
  Qed.

  Lemma cinv_exec sched : forall c c', CInv c -> exec sched c = Some c' -> CInv c'.
  Proof.
    induction sched as [|i t IH]; intros c c' Hi He; cbn [exec] in He.
    - inversion He; subst; exact Hi.
    - destruct (tick i c) as [c1|] eqn:Et; [|discriminate]. eapply IH; [|exact He]. eapply cinv_tick; eauto.
  Qed.

  Lemma flat_map_seq_nth (f : nat -> list D) (g : outcome D -> list D) l k :
    (forall i, i < length l -> f (k + i) = g (nth i l (Answered []))) ->
    flat_map f (seq k (length l)) = flat_map g l.
  Proof.
    revert k. induction l as [|a l IH]; intros k H; [reflexivity|].
    cbn [length seq flat_map]. pose proof (H 0 ltac:(cbn; lia)) as H0. cbn [nth] in H0.
    rewrite Nat.add_0_r in H0. rewrite H0. f_equal.
    apply IH. intros i Hi. replace (S k + i) with (k + S i) by lia. apply (H (S i)). cbn. lia.
  Qed.

  Theorem plugins_collected_in_order sched c :
    exec sched (init threads (slots0 D)) = Some c -> finished n c ->
    collected D n (st c) = flat_map (diags D) os.
  Proof.
    intros He Hf. pose proof (cinv_exec sched _ _ cinv_init He) as Hinv.
    unfold collected. apply flat_map_seq_nth. intros i Hi. cbn [Nat.add].
    destruct (proj1 (Hinv i) Hi) as (done & rest & Hd & Hc & Hs). rewrite (Hf i Hi) in Hc.
    destruct rest; [|discriminate]. rewrite app_nil_r in Hd. fold (O i). congruence.
  Qed.
End CollectProofs.

(* witness: three plugins - two answer (2 and 1 diagnostics), one fails - interleaved arbitrarily *)
Example ex_collect :
  match exec [2; 0; 1; 0] (init (collect_threads nat [Answered [1; 2]; Failed 99; Answered [3]]) (slots0 nat)) with
  | Some c => collected nat 3 (st c) = [1; 2; 99; 3]
  | None => False
  end.
Proof. vm_compute. reflexivity. Qed.
