(* C17 - algebraic store laws over ALL futures: two states with the same abstraction are
   indistinguishable by any later history; an overwritten write, a write followed by an unset,
   and the order of writes to different headers are unobservable by every later history. *)
From Coq Require Import List NArith Bool.
From Falco Require Import Base.Bytes Model.HdrField Model.HdrCookie Model.Hdr Model.HdrSpec
  Proofs.HdrBytes Proofs.HdrStore Proofs.HdrLaws1.
Import ListNotations.

Lemma aeq_sym a b : aeq a b -> aeq b a.
Proof. intros [H1 H2]. split; intros n; [rewrite H1|rewrite H2]; reflexivity. Qed.

Lemma aeq_trans a b c : aeq a b -> aeq b c -> aeq a c.
Proof. intros [H1 H2] [H3 H4]. split; intros n; [rewrite H1; apply H3|rewrite H2; apply H4]. Qed.

(* observational equivalence: same abstraction => same replies to every later history *)
Theorem abs_equiv_observations kd h s1 s2 : aeq (abs s1) (abs s2) ->
  snd (run kd s1 h) = snd (run kd s2 h) /\ aeq (abs (fst (run kd s1 h))) (abs (fst (run kd s2 h))).
Proof.
  intros H.
  destruct (refinement kd h s1) as [O1 A1]. destruct (refinement kd h s2) as [O2 A2].
  destruct (srun_ext kd h (abs s1) (abs s2) H) as [O3 A3].
  split; [rewrite O1, O2; exact O3|].
  eapply aeq_trans; [exact A1|]. eapply aeq_trans; [exact A3|]. apply aeq_sym. exact A2.
Qed.

Lemma abs_after kd st o : aeq (abs (after kd st o)) (fst (sstep (abs st) (classify kd o))).
Proof. unfold after. exact (proj2 (refine_step kd st o)). Qed.

Lemma abs_after2 kd st o1 o2 :
  aeq (abs (after kd (after kd st o1) o2))
      (fst (sstep (fst (sstep (abs st) (classify kd o1))) (classify kd o2))).
Proof.
  eapply aeq_trans; [apply abs_after|].
  exact (proj2 (sstep_ext _ _ (classify kd o2) (abs_after kd st o1))).
Qed.

Lemma upd_upd_same {A} (f : bytes -> A) k v w n : upd (upd f k v) k w n = upd f k w n.
Proof. unfold upd. destruct (beq k n); reflexivity. Qed.

Lemma upd_upd_comm {A} (f : bytes -> A) k1 k2 v w n : beq k1 k2 = false ->
  upd (upd f k1 v) k2 w n = upd (upd f k2 w) k1 v n.
Proof.
  intros Hk. unfold upd. destruct (beq k2 n) eqn:E2; destruct (beq k1 n) eqn:E1; try reflexivity.
  apply beq_eq in E1. apply beq_eq in E2. subst. rewrite beq_refl in Hk. discriminate.
Qed.

(* abstract level *)
Lemma swrite_swrite a cn v1 v2 :
  aeq (fst (sstep (fst (sstep a (SWrite cn v1))) (SWrite cn v2))) (fst (sstep a (SWrite cn v2))).
Proof.
  destruct v1, v2; cbn [sstep fst a_vals a_asg]; split; intros n; cbn [a_vals a_asg]; apply upd_upd_same.
Qed.

Lemma swrite_sremove a cn v :
  aeq (fst (sstep (fst (sstep a (SWrite cn v))) (SRemove cn))) (fst (sstep a (SRemove cn))).
Proof.
  destruct v; cbn [sstep fst a_vals a_asg]; split; intros n; cbn [a_vals a_asg]; apply upd_upd_same.
Qed.

Lemma swrite_comm a c1 c2 v1 v2 : beq c1 c2 = false ->
  aeq (fst (sstep (fst (sstep a (SWrite c1 v1))) (SWrite c2 v2)))
      (fst (sstep (fst (sstep a (SWrite c2 v2))) (SWrite c1 v1))).
Proof.
  intros Hk. destruct v1, v2; cbn [sstep fst a_vals a_asg]; split; intros n; cbn [a_vals a_asg];
    apply upd_upd_comm; exact Hk.
Qed.

(* ---- the laws on the concrete store, in every state, for every later history ---- *)
Theorem set_set_unobservable kd st n v1 v2 h : whole_ok n = true ->
  snd (run kd (after kd (after kd st (OSet n v1)) (OSet n v2)) h) =
  snd (run kd (after kd st (OSet n v2)) h).
Proof.
  intros Hn. apply abs_equiv_observations.
  eapply aeq_trans; [apply abs_after2|]. eapply aeq_trans; [|apply aeq_sym; apply abs_after].
  rewrite !(classify_set_whole kd n _ Hn). apply swrite_swrite.
Qed.

Theorem set_unset_unobservable kd st n v h : whole_ok n = true ->
  snd (run kd (after kd (after kd st (OSet n v)) (OUnset n)) h) =
  snd (run kd (after kd st (OUnset n)) h).
Proof.
  intros Hn. apply abs_equiv_observations.
  eapply aeq_trans; [apply abs_after2|]. eapply aeq_trans; [|apply aeq_sym; apply abs_after].
  rewrite (classify_set_whole kd n _ Hn), (classify_unset_whole kd n Hn). apply swrite_sremove.
Qed.

Theorem set_set_commute kd st n1 n2 v1 v2 h : whole_ok n1 = true -> whole_ok n2 = true ->
  beq (canon n1) (canon n2) = false ->
  snd (run kd (after kd (after kd st (OSet n1 v1)) (OSet n2 v2)) h) =
  snd (run kd (after kd (after kd st (OSet n2 v2)) (OSet n1 v1)) h).
Proof.
  intros H1 H2 Hk. apply abs_equiv_observations.
  eapply aeq_trans; [apply abs_after2|]. eapply aeq_trans; [|apply aeq_sym; apply abs_after2].
  rewrite (classify_set_whole kd n1 _ H1), (classify_set_whole kd n2 _ H2). apply swrite_comm. exact Hk.
Qed.

(* unset is idempotent, and an unset before a write is absorbed by the write *)
Lemma sremove_sremove a cn :
  aeq (fst (sstep (fst (sstep a (SRemove cn))) (SRemove cn))) (fst (sstep a (SRemove cn))).
Proof. cbn [sstep fst a_vals a_asg]; split; intros n; cbn [a_vals a_asg]; apply upd_upd_same. Qed.

Lemma sremove_swrite a cn v :
  aeq (fst (sstep (fst (sstep a (SRemove cn))) (SWrite cn v))) (fst (sstep a (SWrite cn v))).
Proof. destruct v; cbn [sstep fst a_vals a_asg]; split; intros n; cbn [a_vals a_asg]; apply upd_upd_same. Qed.

Theorem unset_unset_idempotent kd st n h : whole_ok n = true ->
  snd (run kd (after kd (after kd st (OUnset n)) (OUnset n)) h) =
  snd (run kd (after kd st (OUnset n)) h).
Proof.
  intros Hn. apply abs_equiv_observations.
  eapply aeq_trans; [apply abs_after2|]. eapply aeq_trans; [|apply aeq_sym; apply abs_after].
  rewrite (classify_unset_whole kd n Hn). apply sremove_sremove.
Qed.

Theorem unset_set_is_set kd st n v h : whole_ok n = true ->
  snd (run kd (after kd (after kd st (OUnset n)) (OSet n v)) h) =
  snd (run kd (after kd st (OSet n v)) h).
Proof.
  intros Hn. apply abs_equiv_observations.
  eapply aeq_trans; [apply abs_after2|]. eapply aeq_trans; [|apply aeq_sym; apply abs_after].
  rewrite (classify_set_whole kd n _ Hn), (classify_unset_whole kd n Hn). apply sremove_swrite.
Qed.

(* ---- absorption: a whole-header write (or unset) erases the effect of ANY earlier operation
   that touches only that header: whole or sub-field set, add, unset, cookie write/remove, reads,
   refused writes.  (A wildcard unset touches other headers and is excluded.) *)
Definition touches_only (cn : bytes) (s : sop) : bool :=
  match s with
  | SRead _ _ _ | SRefuse | SUnmod => true
  | SWrite c _ | SWriteField c _ _ | SAppend c _ | SRemove c | SRemoveField c _
  | SCookieWrite c _ _ | SCookieRemove c _ => beq c cn
  | SRemovePrefix _ => false
  end.

Lemma absorb_write a cn s v : touches_only cn s = true ->
  aeq (fst (sstep (fst (sstep a s)) (SWrite cn v))) (fst (sstep a (SWrite cn v))).
Proof.
  intros Ht.
  assert (Hsame : forall (a1 : astate),
            (forall n, upd (a_vals a1) cn (@None (list bytes)) n = upd (a_vals a) cn None n) ->
            (forall n w, upd (a_asg a1) cn w n = upd (a_asg a) cn w n) ->
            (forall l n, upd (a_vals a1) cn (Some l) n = upd (a_vals a) cn (Some l) n) ->
            aeq (fst (sstep a1 (SWrite cn v))) (fst (sstep a (SWrite cn v)))).
  { intros a1 H1 H2 H3. destruct v; cbn [sstep fst]; split; intros n; cbn [a_vals a_asg]; auto. }
  destruct s as [c key ck|c w|c key w|c s|c|c key|p|c key s|c key| |]; cbn [touches_only] in Ht;
    try discriminate; try (apply beq_eq in Ht; subst c).
  - apply aeq_refl.
  - destruct w; apply Hsame; intros; cbn [sstep fst a_vals a_asg]; apply upd_upd_same.
  - apply Hsame; intros; cbn [sstep fst a_vals a_asg]; apply upd_upd_same.
  - apply Hsame; intros; cbn [sstep fst a_vals a_asg]; try apply upd_upd_same; reflexivity.
  - apply Hsame; intros; cbn [sstep fst a_vals a_asg]; apply upd_upd_same.
  - apply Hsame; intros; cbn [sstep fst a_vals a_asg]; apply upd_upd_same.
  - apply Hsame; intros; cbn [sstep fst a_vals a_asg]; try apply upd_upd_same; reflexivity.
  - cbn [sstep fst]. destruct (all_vals a cn) as [|l0 ls]; [apply aeq_refl|].
    destruct (remove_cookie (l0 :: ls) key); apply Hsame; intros; cbn [a_vals a_asg];
      try apply upd_upd_same; reflexivity.
  - apply aeq_refl.
  - apply aeq_refl.
Qed.

Theorem set_absorbs kd st o n v h : whole_ok n = true ->
  touches_only (canon n) (classify kd o) = true ->
  snd (run kd (after kd (after kd st o) (OSet n v)) h) = snd (run kd (after kd st (OSet n v)) h).
Proof.
  intros Hn Ht. apply abs_equiv_observations.
  eapply aeq_trans; [apply abs_after2|]. eapply aeq_trans; [|apply aeq_sym; apply abs_after].
  rewrite (classify_set_whole kd n _ Hn). apply absorb_write. exact Ht.
Qed.

Lemma absorb_remove a cn s : touches_only cn s = true ->
  aeq (fst (sstep (fst (sstep a s)) (SRemove cn))) (fst (sstep a (SRemove cn))).
Proof.
  intros Ht.
  pose proof (absorb_write a cn s VNotSet Ht) as H. exact H.
Qed.

Theorem unset_absorbs kd st o n h : whole_ok n = true ->
  touches_only (canon n) (classify kd o) = true ->
  snd (run kd (after kd (after kd st o) (OUnset n)) h) = snd (run kd (after kd st (OUnset n)) h).
Proof.
  intros Hn Ht. apply abs_equiv_observations.
  eapply aeq_trans; [apply abs_after2|]. eapply aeq_trans; [|apply aeq_sym; apply abs_after].
  rewrite (classify_unset_whole kd n Hn). apply absorb_remove. exact Ht.
Qed.

(* ---- locality and commutation of operations on different headers ---- *)
Definition on_header (cn : bytes) (s : sop) : bool :=
  match s with
  | SRead c _ _ | SWrite c _ | SWriteField c _ _ | SAppend c _ | SRemove c | SRemoveField c _
  | SCookieWrite c _ _ | SCookieRemove c _ => beq c cn
  | SRefuse | SUnmod => true
  | SRemovePrefix _ => false
  end.

Lemma upd_other {A} (f : bytes -> A) k v n : beq k n = false -> upd f k v n = f n.
Proof. intros H. unfold upd. rewrite H. reflexivity. Qed.

(* what a step on header c1 does elsewhere: nothing; and it only looks at c1 *)
Lemma step_frame a c s n : on_header c s = true -> beq c n = false ->
  a_vals (fst (sstep a s)) n = a_vals a n /\ a_asg (fst (sstep a s)) n = a_asg a n.
Proof.
  intros Hs Hn.
  destruct s as [c' key ck|c' w|c' key w|c' s|c'|c' key|p|c' key s|c' key| |]; cbn [on_header] in Hs;
    try discriminate; try (apply beq_eq in Hs; subst c'); cbn [sstep fst].
  - split; reflexivity.
  - destruct w; cbn [fst a_vals a_asg]; rewrite ?upd_other by exact Hn; split; reflexivity.
  - cbn [a_vals a_asg]; rewrite ?upd_other by exact Hn; split; reflexivity.
  - cbn [a_vals a_asg]; rewrite ?upd_other by exact Hn; split; reflexivity.
  - cbn [a_vals a_asg]; rewrite ?upd_other by exact Hn; split; reflexivity.
  - cbn [a_vals a_asg]; rewrite ?upd_other by exact Hn; split; reflexivity.
  - cbn [a_vals a_asg]; rewrite ?upd_other by exact Hn; split; reflexivity.
  - destruct (all_vals a c) as [|l0 ls]; [split; reflexivity|].
    destruct (remove_cookie (l0 :: ls) key); cbn [a_vals a_asg]; rewrite ?upd_other by exact Hn; split; reflexivity.
  - split; reflexivity.
  - split; reflexivity.
Qed.

Definition agree_at (a b : astate) (c : bytes) : Prop := a_vals a c = a_vals b c /\ a_asg a c = a_asg b c.

Lemma upd_same {A} (f : bytes -> A) k v : upd f k v k = v.
Proof. unfold upd. rewrite beq_refl. reflexivity. Qed.

(* ... and a step on header c only looks at header c *)
Lemma step_local a b c s : on_header c s = true -> agree_at a b c ->
  snd (sstep a s) = snd (sstep b s) /\ agree_at (fst (sstep a s)) (fst (sstep b s)) c.
Proof.
  intros Hs [Hv Ha].
  assert (Hf : first_val a c = first_val b c) by (unfold first_val; rewrite Hv; reflexivity).
  assert (Hall : all_vals a c = all_vals b c) by (unfold all_vals; rewrite Hv; reflexivity).
  destruct s as [c' key ck|c' w|c' key w|c' s|c'|c' key|p|c' key s|c' key| |]; cbn [on_header] in Hs;
    try discriminate; try (apply beq_eq in Hs; subst c'); cbn [sstep fst snd]; unfold agree_at.
  - rewrite Hf, Ha, Hall. repeat split; assumption.
  - destruct w; cbn [fst snd a_vals a_asg]; rewrite !upd_same; repeat split.
  - cbn [a_vals a_asg]; rewrite !upd_same, Hf; repeat split.
  - cbn [a_vals a_asg]; rewrite !upd_same, Hv; repeat split; assumption.
  - cbn [a_vals a_asg]; rewrite !upd_same; repeat split.
  - cbn [a_vals a_asg]; rewrite !upd_same, Hf; repeat split.
  - cbn [a_vals a_asg]; rewrite !upd_same, Hall; repeat split; assumption.
  - rewrite Hall. destruct (all_vals b c) as [|l0 ls]; [repeat split; assumption|].
    destruct (remove_cookie (l0 :: ls) key); cbn [a_vals a_asg]; rewrite !upd_same; repeat split; assumption.
  - repeat split; assumption.
  - repeat split; assumption.
Qed.

Theorem sstep_commute a c1 c2 s1 s2 : on_header c1 s1 = true -> on_header c2 s2 = true -> beq c1 c2 = false ->
  snd (sstep (fst (sstep a s1)) s2) = snd (sstep a s2) /\
  snd (sstep (fst (sstep a s2)) s1) = snd (sstep a s1) /\
  aeq (fst (sstep (fst (sstep a s1)) s2)) (fst (sstep (fst (sstep a s2)) s1)).
Proof.
  intros H1 H2 H12. assert (H21 : beq c2 c1 = false) by (rewrite beq_sym; exact H12).
  assert (G2 : agree_at (fst (sstep a s1)) a c2) by (exact (step_frame a c1 s1 c2 H1 H12)).
  assert (G1 : agree_at (fst (sstep a s2)) a c1) by (exact (step_frame a c2 s2 c1 H2 H21)).
  destruct (step_local _ _ c2 s2 H2 G2) as [O2 L2]. destruct (step_local _ _ c1 s1 H1 G1) as [O1 L1].
  split; [exact O2|]. split; [exact O1|].
  assert (K : forall n, a_vals (fst (sstep (fst (sstep a s1)) s2)) n = a_vals (fst (sstep (fst (sstep a s2)) s1)) n /\
                        a_asg (fst (sstep (fst (sstep a s1)) s2)) n = a_asg (fst (sstep (fst (sstep a s2)) s1)) n).
  { intros n. destruct (beq c1 n) eqn:E1.
    - apply beq_eq in E1. subst n.
      destruct (step_frame (fst (sstep a s1)) c2 s2 c1 H2 H21) as [F1 F2]. rewrite F1, F2.
      destruct L1 as [L1v L1a]. rewrite L1v, L1a. split; reflexivity.
    - destruct (beq c2 n) eqn:E2.
      + apply beq_eq in E2. subst n.
        destruct (step_frame (fst (sstep a s2)) c1 s1 c2 H1 H12) as [F1 F2]. rewrite F1, F2.
        destruct L2 as [L2v L2a]. rewrite L2v, L2a. split; reflexivity.
      + destruct (step_frame (fst (sstep a s1)) c2 s2 n H2 E2) as [F1 F2].
        destruct (step_frame a c1 s1 n H1 E1) as [F3 F4].
        destruct (step_frame (fst (sstep a s2)) c1 s1 n H1 E1) as [F5 F6].
        destruct (step_frame a c2 s2 n H2 E2) as [F7 F8].
        rewrite F1, F2, F3, F4, F5, F6, F7, F8. split; reflexivity. }
  split; intros n; apply K.
Qed.

(* ---- on the concrete store: two operations on different headers commute, in their replies and
   for every later history ---- *)
Lemma reply_after kd st o1 o2 :
  snd (step kd (after kd st o1) o2) = snd (sstep (fst (sstep (abs st) (classify kd o1))) (classify kd o2)).
Proof.
  rewrite (proj1 (refine_step kd (after kd st o1) o2)).
  exact (proj1 (sstep_ext _ _ (classify kd o2) (abs_after kd st o1))).
Qed.

Theorem ops_commute kd st o1 o2 c1 c2 h :
  on_header c1 (classify kd o1) = true -> on_header c2 (classify kd o2) = true -> beq c1 c2 = false ->
  snd (step kd (after kd st o1) o2) = snd (step kd st o2) /\
  snd (step kd (after kd st o2) o1) = snd (step kd st o1) /\
  snd (run kd (after kd (after kd st o1) o2) h) = snd (run kd (after kd (after kd st o2) o1) h).
Proof.
  intros H1 H2 H12.
  destruct (sstep_commute (abs st) c1 c2 _ _ H1 H2 H12) as (O2 & O1 & S).
  split; [rewrite reply_after, O2; symmetry; exact (proj1 (refine_step kd st o2))|].
  split; [rewrite reply_after, O1; symmetry; exact (proj1 (refine_step kd st o1))|].
  apply abs_equiv_observations.
  eapply aeq_trans; [apply abs_after2|]. eapply aeq_trans; [|apply aeq_sym; apply abs_after2]. exact S.
Qed.
