(* C03, tree level: the TOKEN-level insertion of "+" (what Model/FmtNorm.v does inside an
   expression: a "+" between a token that ends an operand and a token that can start a juxtaposed
   one) produces, on the tokens of a canonical tree, exactly the tokens of the tree with every
   juxtaposition made explicit. *)
From Coq Require Import String.
From Coq Require Import List NArith ZArith Bool Lia.
From Falco Require Import Base.Bytes Gen.TokenTypes Model.ParseKinds Gen.ParserTables
  Model.ParseBase Model.Ast Model.ParseLit Model.ParseExpr Model.Yield
  Proofs.ParseTables Proofs.ParseExprYield Proofs.ParsePratt Proofs.FmtTreeExpr.
Import ListNotations.
Local Open Scope N_scope.

(* a token that ends an operand (Model/FmtTok.v [opend], plus the keywords usable as names) *)
Definition t_opend (t : ttype) : bool :=
  match t with
  | T_IDENT | T_STRING | T_CLOSE_LONG_STRING | T_INT | T_FLOAT | T_RTIME | T_TRUE | T_FALSE
  | T_RIGHT_PAREN | T_PERCENT | T_ERROR | T_RESTART => true
  | _ => false
  end.

(* [pe]: the previous token ends an operand *)
Fixpoint ins_plus (pe : bool) (ts : list token) : list token :=
  match ts with
  | [] => []
  | t :: r => (if pe && t_juxt (typ t) then [plus_tok] else []) ++ t :: ins_plus (t_opend (typ t)) r
  end.

Definition endpe (pe : bool) (a : list token) : bool :=
  match a with [] => pe | _ => t_opend (typ (last a eof_tok)) end.

Lemma ins_plus_app : forall a pe b, ins_plus pe (a ++ b) = ins_plus pe a ++ ins_plus (endpe pe a) b.
Proof.
  induction a as [|x a IH]; intros pe b; [reflexivity|].
  simpl. rewrite IH. rewrite <- app_assoc. simpl. f_equal. f_equal. f_equal.
  destruct a; reflexivity.
Qed.

Definition pre (pe : bool) (e : expr) : list token :=
  if pe && t_juxt (typ (head e)) then [plus_tok] else [].

Section K.
Variable fok : str -> bool.
Notation canon := (canon fok).
Notation canon_args := (canon_args fok).
Notation canon_tail := (canon_tail fok).

Lemma endpe_yexpr pe e : endpe pe (yexpr e) = t_opend (typ (last (yexpr e) eof_tok)).
Proof. unfold endpe. pose proof (yexpr_nonempty e). destruct (yexpr e); [congruence|reflexivity]. Qed.

Lemma last_snoc {A} (l : list A) x d : last (l ++ [x]) d = x.
Proof. induction l as [|y l IH]; [reflexivity|]. simpl. destruct (l ++ [x]) eqn:E; [destruct l; discriminate|exact IH]. Qed.

(* a canonical tree ends with a token that ends an operand *)
Lemma canon_last_opend e : canon e -> t_opend (typ (last (yexpr e) eof_tok)) = true.
Proof.
  induction e; cbn [ParsePratt.canon yexpr]; intros Hc.
  - destruct t as [ty ? ?]; simpl in *; destruct ty; simpl in Hc; try discriminate; reflexivity.
  - destruct t as [ty ? ?]; simpl in *; destruct ty; simpl in Hc; try discriminate; reflexivity.
  - change (last [t] eof_tok) with t. destruct Hc as [-> _]. reflexivity.
  - change (last [t] eof_tok) with t. destruct Hc as [-> _]. reflexivity.
  - change (last [t] eof_tok) with t. destruct Hc as [-> _]. reflexivity.
  - change (last [t] eof_tok) with t. destruct Hc as [-> _]. reflexivity.
  - change (last [o; s; c] eof_tok) with c. destruct Hc as (_ & _ & -> & _). reflexivity.
  - destruct Hc as (_ & Hr & _). change (op :: yexpr e) with ([op] ++ yexpr e).
    rewrite last_app_ne by apply yexpr_nonempty. auto.
  - destruct Hc as (_ & Hrp & _). change (lp :: yexpr e ++ [rp]) with ((lp :: yexpr e) ++ [rp]).
    now rewrite last_snoc, Hrp.
  - destruct Hc as (_ & _ & _ & _ & Hrp & _).
    change (kw :: lp :: yexpr e1 ++ c1 :: yexpr e2 ++ c2 :: yexpr e3 ++ [rp])
      with ((kw :: lp :: yexpr e1) ++ (c1 :: yexpr e2) ++ (c2 :: yexpr e3) ++ [rp]).
    rewrite !last_app_ne by discriminate. simpl. now rewrite Hrp.
  - destruct Hc as (_ & _ & Hr & _). rewrite last_app_ne by discriminate.
    change (op :: yexpr e2) with ([op] ++ yexpr e2). rewrite last_app_ne by apply yexpr_nonempty. auto.
  - destruct Hc as (_ & Hr & _). rewrite last_app_ne by apply yexpr_nonempty. auto.
  - destruct Hc as (Hop & _). rewrite last_snoc.
    destruct op as [ty ? ?]; simpl in *; destruct ty; simpl in Hop; try discriminate; reflexivity.
  - destruct Hc as (_ & _ & Hrp & _). change (f :: lp :: yargs a ++ [rp]) with ((f :: lp :: yargs a) ++ [rp]).
    now rewrite last_snoc, Hrp.
Qed.

(* the kinds the insertion never fires on *)
Lemma no_juxt_cases t :
  typ t = T_LEFT_PAREN \/ typ t = T_RIGHT_PAREN \/ typ t = T_COMMA \/ typ t = T_CLOSE_LONG_STRING
  \/ doc_prefix (typ t) = Some PK_ParsePrefixExpression
  \/ doc_postfix (typ t) = Some QK_ParsePostfixExpression
  \/ doc_infix (typ t) = Some IK_ParseInfixExpression
  \/ doc_infix (typ t) = Some (IK_ParseInfixStringConcatExpression true) ->
  t_juxt (typ t) = false.
Proof.
  unfold t_juxt. intros H. destruct t as [ty ? ?]; simpl in *; destruct ty; simpl in *;
    repeat (destruct H as [H|H]; try discriminate); try discriminate; reflexivity.
Qed.

Lemma ins_one pe t : t_juxt (typ t) = false -> forall r, ins_plus pe (t :: r) = t :: ins_plus (t_opend (typ t)) r.
Proof. intros H r. simpl. now rewrite H, andb_false_r. Qed.

Lemma ins_cons pe t r :
  ins_plus pe (t :: r) = (if pe && t_juxt (typ t) then [plus_tok] else []) ++ t :: ins_plus (t_opend (typ t)) r.
Proof. reflexivity. Qed.

Lemma ins_sep pe (t : token) r (ty : ttype) : typ t = ty -> t_juxt ty = false -> t_opend ty = false ->
  ins_plus pe (t :: r) = t :: ins_plus false r.
Proof. intros <- H1 H2. rewrite ins_cons, H1, H2, andb_false_r. reflexivity. Qed.

Lemma ins_close pe (t : token) (ty : ttype) : typ t = ty -> t_juxt ty = false -> ins_plus pe [t] = [t].
Proof. intros <- H1. rewrite ins_cons, H1, andb_false_r. reflexivity. Qed.

Lemma step e : canon e ->
  (forall pe, ins_plus pe (yexpr e) = pre pe e ++ yexpr (mark_explicit e)) ->
  forall pe b, ins_plus pe (yexpr e ++ b) = pre pe e ++ yexpr (mark_explicit e) ++ ins_plus true b.
Proof.
  intros Hc IH pe b. rewrite ins_plus_app, IH, endpe_yexpr, (canon_last_opend e Hc). now rewrite app_assoc.
Qed.

Lemma pre_infix pe l op ex r : pre pe (EInfix l op ex r) = pre pe l.
Proof. unfold pre, head. simpl yexpr. now rewrite hd_app_ne by apply yexpr_nonempty. Qed.
Lemma pre_concat pe l r : pre pe (EConcat l r) = pre pe l.
Proof. unfold pre, head. simpl yexpr. now rewrite hd_app_ne by apply yexpr_nonempty. Qed.
Lemma pre_postfix pe l op : pre pe (EPostfix l op) = pre pe l.
Proof. unfold pre, head. simpl yexpr. now rewrite hd_app_ne by apply yexpr_nonempty. Qed.

Lemma prefix_op_sep op : doc_prefix (typ op) = Some PK_ParsePrefixExpression ->
  t_juxt (typ op) = false /\ t_opend (typ op) = false.
Proof. destruct op as [ty ? ?]; simpl; destruct ty; simpl; intros H; try discriminate; split; reflexivity. Qed.
Lemma infix_op_sep op (ex : bool) :
  doc_infix (typ op) = Some (if ex then IK_ParseInfixStringConcatExpression true else IK_ParseInfixExpression) ->
  t_juxt (typ op) = false /\ t_opend (typ op) = false.
Proof.
  destruct ex; destruct op as [ty ? ?]; simpl; destruct ty; simpl; intros H; try discriminate; split; reflexivity.
Qed.
Lemma postfix_op_juxt op : doc_postfix (typ op) = Some QK_ParsePostfixExpression -> t_juxt (typ op) = false.
Proof. destruct op as [ty ? ?]; simpl; destruct ty; simpl; intros H; try discriminate; reflexivity. Qed.

Lemma ins_plus_tree :
  (forall e, canon e -> forall pe, ins_plus pe (yexpr e) = pre pe e ++ yexpr (mark_explicit e))
  /\ (forall a, canon_args a -> forall pe, ins_plus pe (yargs a) = (match a with ASome e _ => pre pe e | ANone => [] end) ++ yargs (mark_args a))
  /\ (forall m, canon_tail m -> ins_plus true (ytail m) = ytail (mark_tail m)).
Proof.
  apply expr_args_ind; intros;
    cbn [ParsePratt.canon ParsePratt.canon_args ParsePratt.canon_tail mark_explicit mark_args mark_tail
         yexpr yargs ytail] in *.
  - reflexivity.
  - reflexivity.
  - reflexivity.
  - reflexivity.
  - reflexivity.
  - reflexivity.
  - (* long string *) destruct H as (Ho & Hs & Hc & _).
    rewrite ins_cons. change (pre pe (ELong o s c v)) with (if pe && t_juxt (typ o) then [plus_tok] else []).
    f_equal. f_equal. rewrite !ins_cons, Ho, Hs, Hc. reflexivity.
  - (* prefix *) destruct H0 as (Hop & Hr & _). destruct (prefix_op_sep op Hop) as [J O].
    rewrite (ins_sep pe op _ _ eq_refl J O), (H Hr).
    unfold pre at 2. unfold head. simpl hd. rewrite J, andb_false_r. reflexivity.
  - (* group *) destruct H0 as (Hlp & Hrp & Hr & _).
    rewrite (ins_sep pe lp _ _ Hlp) by reflexivity. rewrite (step r Hr (H Hr)).
    rewrite (ins_close true rp _ Hrp) by reflexivity.
    unfold pre at 2. unfold head. simpl hd. rewrite Hlp. simpl t_juxt. rewrite andb_false_r. reflexivity.
  - (* if *) destruct H2 as (Hkw & Hlp & Hc1 & Hc2 & Hrp & (Cc & _) & (Ct & _) & (Ce & _)).
    rewrite ins_cons.
    change (pre pe (EIfExp kw lp c c1 t c2 e rp)) with (if pe && t_juxt (typ kw) then [plus_tok] else []).
    f_equal. f_equal. rewrite Hkw. change (t_opend T_IF) with false.
    rewrite (ins_sep false lp _ _ Hlp) by reflexivity. f_equal.
    rewrite (step c Cc (H Cc)). change (pre false c) with (@nil token). cbn [app]. f_equal.
    rewrite (ins_sep true c1 _ _ Hc1) by reflexivity. f_equal.
    rewrite (step t Ct (H0 Ct)). change (pre false t) with (@nil token). cbn [app]. f_equal.
    rewrite (ins_sep true c2 _ _ Hc2) by reflexivity. f_equal.
    rewrite (step e Ce (H1 Ce)). change (pre false e) with (@nil token). cbn [app]. f_equal.
    now rewrite (ins_close true rp _ Hrp).
  - (* infix *) destruct H1 as (Hop & Hl & Hr & _). destruct (infix_op_sep op explicit Hop) as [J O].
    rewrite (step l Hl (H Hl)), (ins_sep true op _ _ eq_refl J O), (H0 Hr), pre_infix.
    change (pre false r) with (@nil token). cbn [app]. reflexivity.
  - (* juxtaposition *) destruct H1 as (Hl & Hr & _ & _ & Hj).
    rewrite (step l Hl (H Hl)), (H0 Hr), pre_concat. fold (head r) in Hj.
    unfold pre at 2. unfold t_juxt. rewrite Hj. cbn [andb app]. now rewrite <- ?app_assoc.
  - (* postfix *) destruct H0 as (Hop & Hl & _).
    rewrite (step l Hl (H Hl)), (ins_close true op _ eq_refl (postfix_op_juxt op Hop)), pre_postfix.
    now rewrite <- ?app_assoc.
  - (* call *) destruct H0 as (Hf & Hlp & Hrp & Ha).
    rewrite ins_cons.
    change (pre pe (ECall f lp a rp)) with (if pe && t_juxt (typ f) then [plus_tok] else []).
    f_equal. f_equal. rewrite (ins_sep _ lp _ _ Hlp) by reflexivity. f_equal.
    rewrite ins_plus_app, (H Ha).
    assert (E : (match a with ASome e _ => pre false e | ANone => [] end) = []) by (destruct a; reflexivity).
    rewrite E. cbn [app]. f_equal. now rewrite (ins_close _ rp _ Hrp).
  - reflexivity.
  - (* args *) destruct H1 as ((He & _) & Hm). rewrite (step e He (H He)), (H0 Hm). now rewrite <- ?app_assoc.
  - reflexivity.
  - destruct H1 as (Hc & (He & _) & Hm).
    rewrite (ins_sep true comma _ _ Hc) by reflexivity. rewrite (step e He (H He)), (H0 Hm). reflexivity.
Qed.

(* the token-level insertion on the tokens of a canonical tree = the tokens of the marked tree *)
Theorem ins_plus_yexpr e : canon e -> ins_plus false (yexpr e) = yexpr (mark_explicit e).
Proof. intros H. now rewrite (proj1 ins_plus_tree e H false). Qed.

End K.
