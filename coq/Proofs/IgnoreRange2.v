(* range_exact, composed: the list that holds the start ... end pair, the block whose closing
   brace carries the end, and whole programs. *)
From Coq Require Import List Bool Arith Lia.
From Falco Require Import Base.Bytes Model.Ignore Model.IgnoreSpec Proofs.IgnoreBasics Proofs.IgnoreSim
  Proofs.IgnoreExact Proofs.IgnoreNT Proofs.IgnoreRange.
Import ListNotations.

Lemma is_prefix_same_child b k j q :
  is_prefix (b ++ [k]) q = true -> is_prefix (b ++ [j]) q = true -> k = j.
Proof.
  intros H1 H2. destruct (Nat.eq_dec k j) as [E|E]; auto.
  rewrite (is_prefix_sibling b k j [] q E H2) in H1. discriminate.
Qed.

Lemma in_region_in b i len k q :
  i <= k < i + len -> is_prefix (b ++ [k]) q = true -> in_region b i len q = true.
Proof.
  intros Hk Hq. unfold in_region. apply existsb_exists. exists k. split; auto. apply in_seq. lia.
Qed.

Lemma in_region_out b i len j q :
  (j < i \/ i + len <= j) -> is_prefix (b ++ [j]) q = true -> in_region b i len q = false.
Proof.
  intros Hj Hq. unfold in_region. destruct (existsb _ _) eqn:E; auto.
  apply existsb_exists in E. destruct E as (k & Hk & Hkq). apply in_seq in Hk.
  pose proof (is_prefix_same_child b k j q Hkq Hq). lia.
Qed.

Lemma in_region_self b i len : in_region b i len b = false.
Proof.
  unfold in_region. destruct (existsb _ _) eqn:E; auto.
  apply existsb_exists in E. destruct E as (k & _ & Hk).
  rewrite (is_prefix_longer b [k]) in Hk; discriminate.
Qed.

Lemma in_region_above b i len q : is_prefix b q = false -> in_region b i len q = false.
Proof.
  intros H. unfold in_region. destruct (existsb _ _) eqn:E; auto.
  apply existsb_exists in E. destruct E as (k & _ & Hk).
  rewrite (is_prefix_snoc b k q Hk) in H. discriminate.
Qed.


Section RangeList.
  Variable L : list rule.
  Variables c1 c2 : list byte.
  Hypothesis Hc1 : parse_ignore_comment c1 = Some (Start, L).
  Hypothesis Hc2 : parse_ignore_comment c2 = Some (End, L).
  Variable b : path.
  Variable i0 : nat.
  Variable ki : node.
  Variable mid : list node.
  Hypothesis Hfi : range_free ki = true.
  Hypothesis Hfm : forallb range_free mid = true.

  Let len := S (length mid).
  Let FR := region_filter b i0 len L.

  Lemma FR_in k p' r : i0 <= k < i0 + len -> is_prefix (b ++ [k]) p' = true -> FR (p', r) = negb (named L r).
  Proof. intros Hk Hp. unfold FR, region_filter. cbn [fst snd]. rewrite (in_region_in b i0 len k p' Hk Hp). reflexivity. Qed.

  Lemma FR_out j p' r : (j < i0 \/ i0 + len <= j) -> is_prefix (b ++ [j]) p' = true -> FR (p', r) = true.
  Proof. intros Hj Hp. unfold FR, region_filter. cbn [fst snd]. rewrite (in_region_out b i0 len j p' Hj Hp). reflexivity. Qed.

  (* the region itself: start comment on the first statement, then the statements in between *)
  Lemma region_run k1 s qv qp :
    let r := run_kids (ki :: mid) b i0 s qv qp in
    let r' := run_kids (add_leading k1 c1 ki :: mid) b i0 s (filter FR qv) (filter FR qp) in
    RS L (r_st r) (r_st r') /\ rg (r_st r) = rg s /\
    r_qv r' = filter FR (r_qv r) /\ r_qp r' = filter FR (r_qp r) /\ r_out r' = filter FR (r_out r).
  Proof.
    cbn zeta. rewrite !run_kids_cons. cbn zeta. rproj.
    destruct (start_node L c1 Hc1 FR ki k1 (b ++ [i0]) s qv qp Hfi) as (RS1 & G1 & B1 & C1 & D1).
    { intros p' r Hp. apply (FR_in i0); [unfold len; lia | exact Hp]. }
    cbn zeta in RS1, G1, B1, C1, D1. rewrite B1, C1.
    destruct (region_kids L FR mid b (S i0) _ _ (r_qv (run ki (b ++ [i0]) s qv qp)) (r_qp (run ki (b ++ [i0]) s qv qp)) Hfm RS1)
      as (RS2 & G2 & B2 & C2 & D2).
    { intros j p' r Hj Hp. apply (FR_in j); [unfold len; lia | exact Hp]. }
    cbn zeta in RS2, G2, B2, C2, D2.
    split; [exact RS2|]. split; [congruence|]. split; [exact B2|]. split; [exact C2|].
    rewrite D1, D2, filter_app. reflexivity.
  Qed.

  (* start before [ki], end before [kj] *)
  Lemma range_list k1 k2 kj after s qv qp :
    free_list (firstn k2 (leading (node_meta kj))) = true ->
    rg_clear L (rg s) ->
    sim_eq FR
      (run_kids (add_leading k1 c1 ki :: mid ++ add_leading k2 c2 kj :: after) b i0 s (filter FR qv) (filter FR qp))
      (run_kids (ki :: mid ++ kj :: after) b i0 s qv qp).
  Proof.
    intros Hl Hclear.
    change (add_leading k1 c1 ki :: mid ++ add_leading k2 c2 kj :: after)
      with ((add_leading k1 c1 ki :: mid) ++ add_leading k2 c2 kj :: after).
    change (ki :: mid ++ kj :: after) with ((ki :: mid) ++ kj :: after).
    rewrite !run_kids_app. cbn zeta.
    destruct (region_run k1 s qv qp) as (RS2 & G2 & B2 & C2 & D2). cbn zeta in RS2, G2, B2, C2, D2.
    rewrite B2, C2.
    set (r2 := run_kids (ki :: mid) b i0 s qv qp) in *.
    set (r2' := run_kids (add_leading k1 c1 ki :: mid) b i0 s (filter FR qv) (filter FR qp)) in *.
    cbn [length]. rewrite !run_kids_cons. cbn zeta.
    rewrite (close_node L c2 Hc2 kj k2 _ (r_st r2) (r_st r2') _ _ Hl RS2) by (rewrite G2; exact Hclear).
    set (pj := b ++ [i0 + S (length mid)]).
    destruct (outside_node FR kj pj (r_st r2) (r_qv r2) (r_qp r2)) as (A3 & B3 & C3 & D3).
    { intros p' r Hp. apply (FR_out (i0 + S (length mid))); [unfold len; lia | exact Hp]. }
    rewrite A3, B3, C3.
    set (r3 := run kj pj (r_st r2) (r_qv r2) (r_qp r2)) in *.
    destruct (outside_kids' FR after b (S (i0 + S (length mid))) (r_st r3) (r_qv r3) (r_qp r3)) as (A4 & B4 & C4 & D4).
    { intros j p' r Hj Hp. apply (FR_out j); [unfold len; lia | exact Hp]. }
    unfold sim_eq. rproj. repeat split; auto.
    rewrite D2, D3, D4, !filter_app. reflexivity.
  Qed.
End RangeList.

(* ------------------------------------------------------------------ the end comment before the closing brace *)
Section RangeBlock.
  Variable L : list rule.
  Variables c1 c2 : list byte.
  Hypothesis Hc1 : parse_ignore_comment c1 = Some (Start, L).
  Hypothesis Hc2 : parse_ignore_comment c2 = Some (End, L).

  Lemma fold_insert_free_end k c l a : free_list l = true ->
    fold_left rg_end (insert_at k c l) a = rg_end a c.
  Proof.
    revert l a. induction k as [|k IH]; intros l a Hl.
    - cbn. apply (fold_free rg_end free_rg_end). exact Hl.
    - destruct l as [|y l]; cbn; auto.
      cbn in Hl. apply andb_true_iff in Hl. destruct Hl as [Hy Hl].
      rewrite (free_rg_end a y) by (destruct (is_range_comment y); [discriminate | reflexivity]).
      apply IH. exact Hl.
  Qed.

  Lemma range_block m pre before ki mid k1 k2 p s qv qp :
    range_free_meta m = true -> forallb range_free before = true ->
    range_free ki = true -> forallb range_free mid = true ->
    rg_clear L (rg s) ->
    let FR := region_filter p (length before) (S (length mid)) L in
    let m' := {| leading := leading m; trailing := trailing m; infix := insert_at k2 c2 (infix m) |} in
    sim_eq FR
      (run (Node WBlock m' false pre [] [] (before ++ add_leading k1 c1 ki :: mid)) p s (filter FR qv) (filter FR qp))
      (run (Node WBlock m false pre [] [] (before ++ ki :: mid)) p s qv qp).
  Proof.
    intros Hm Hb Hfi Hfm Hclear FR m'. destruct (rfm_split m Hm) as (M1 & M2 & M3).
    rewrite !run_node. cbn zeta. unfold inner. rproj.
    replace (setup WBlock m' s) with (setup WBlock m s) by reflexivity.
    set (s1 := setup WBlock m s).
    assert (Hp : forall r, FR (p, r) = true).
    { intros r. unfold FR, region_filter. cbn [fst snd]. rewrite in_region_self. reflexivity. }
    rewrite !run_kids_app. cbn zeta. rproj.
    destruct (outside_kids' FR before p 0 s1 qv qp) as (A1 & B1 & C1 & D1).
    { intros j p' r Hj Hp'. unfold FR, region_filter. cbn [fst snd].
      rewrite (in_region_out p (length before) (S (length mid)) j p'); auto. lia. }
    rewrite A1, B1, C1.
    set (r1 := run_kids before p 0 s1 qv qp) in *.
    destruct (region_run L c1 Hc1 p (length before) ki mid Hfi Hfm k1 (r_st r1) (r_qv r1) (r_qp r1))
      as (RS2 & G2 & B2 & C2 & D2). cbn zeta in RS2, G2, B2, C2, D2. fold FR in RS2, B2, C2, D2.
    cbn [Nat.add]. rewrite B2, C2, D2.
    set (r2 := run_kids (ki :: mid) p (length before) (r_st r1) (r_qv r1) (r_qp r1)) in *.
    set (r2' := run_kids (add_leading k1 c1 ki :: mid) p (length before) (r_st r1) (filter FR (r_qv r1)) (filter FR (r_qp r1))) in *.
    assert (Hrg1 : rg (r_st r1) = rg s).
    { unfold r1. rewrite rg_unchanged_kids' by exact Hb. unfold s1. apply rg_setup_free. exact Hm. }
    unfold sim_eq. rproj. cbn [emit filter map app]. rewrite !app_nil_r.
    split; [|split; [reflexivity|split; [reflexivity|]]].
    - (* the two teardowns end in the same state *)
      assert (St : stack (r_st r2) = (nl s, tl s) :: stack s).
      { destruct (run_kids_restores' (ki :: mid) p (length before) (r_st r1) (r_qv r1) (r_qp r1)) as (_ & _ & E).
        fold r2 in E. rewrite E.
        destruct (run_kids_restores' before p 0 s1 qv qp) as (_ & _ & E'). fold r1 in E'. rewrite E'.
        unfold s1. apply setup_stack. }
      destruct RS2 as (E1 & E2 & E3 & E4).
      assert (St' : stack (r_st r2') = (nl s, tl s) :: stack s) by congruence.
      destruct (teardown_restores WBlock m _ _ _ _ St) as (T1 & T2 & T3).
      destruct (teardown_restores WBlock m' _ _ _ _ St') as (T1' & T2' & T3').
      apply istate_eq; try congruence.
      rewrite !rg_teardown. cbn [rg_teardown_of]. subst m'. cbn [trailing infix].
      rewrite E4, fold_insert_free_end by exact M3.
      rewrite (fold_free rg_end free_rg_end (infix m)) by exact M3.
      unfold rg_end at 2. rewrite Hc2. rewrite unignore_ignore; [reflexivity|].
      rewrite G2, Hrg1. exact Hclear.
    - rewrite !filter_app, (emit_outside FR p pre s1 Hp), D1. reflexivity.
  Qed.

  (* falco-ignore-start before a statement of a block and NO end: inside the block exactly that statement and the ones
     after it are covered; what the statements before it queued (unused variables declared before the start comment) is
     untouched; when the block is left the two runs differ only by the open range (RS) *)
  Lemma range_open_in_block m pre before ki after k1 p s qv qp :
    range_free_meta m = true -> forallb range_free before = true ->
    range_free ki = true -> forallb range_free after = true ->
    let FR := region_filter p (length before) (S (length after)) L in
    let r := run (Node WBlock m false pre [] [] (before ++ ki :: after)) p s qv qp in
    let r' := run (Node WBlock m false pre [] [] (before ++ add_leading k1 c1 ki :: after)) p s (filter FR qv) (filter FR qp) in
    RS L (r_st r) (r_st r') /\ r_qv r' = filter FR (r_qv r) /\ r_qp r' = filter FR (r_qp r) /\ r_out r' = filter FR (r_out r).
  Proof.
    intros Hm Hb Hfi Hfa FR. cbn zeta. destruct (rfm_split m Hm) as (M1 & M2 & M3).
    rewrite !run_node. cbn zeta. unfold inner. rproj.
    set (s1 := setup WBlock m s).
    assert (Hp : forall r, FR (p, r) = true).
    { intros r. unfold FR, region_filter. cbn [fst snd]. rewrite in_region_self. reflexivity. }
    rewrite !run_kids_app. cbn zeta. rproj.
    destruct (outside_kids' FR before p 0 s1 qv qp) as (A1 & B1 & C1 & D1).
    { intros j p' r Hj Hp'. unfold FR, region_filter. cbn [fst snd].
      rewrite (in_region_out p (length before) (S (length after)) j p'); auto. lia. }
    rewrite A1, B1, C1.
    set (r1 := run_kids before p 0 s1 qv qp) in *.
    destruct (region_run L c1 Hc1 p (length before) ki after Hfi Hfa k1 (r_st r1) (r_qv r1) (r_qp r1))
      as (RS2 & G2 & B2 & C2 & D2). cbn zeta in RS2, G2, B2, C2, D2. fold FR in RS2, B2, C2, D2.
    cbn [Nat.add]. rewrite B2, C2, D2.
    set (r2 := run_kids (ki :: after) p (length before) (r_st r1) (r_qv r1) (r_qp r1)) in *.
    set (r2' := run_kids (add_leading k1 c1 ki :: after) p (length before) (r_st r1) (filter FR (r_qv r1)) (filter FR (r_qp r1))) in *.
    cbn [emit filter map app]. rewrite !app_nil_r.
    split; [|split; [reflexivity|split; [reflexivity|]]].
    - assert (St : stack (r_st r2) = (nl s, tl s) :: stack s).
      { destruct (run_kids_restores' (ki :: after) p (length before) (r_st r1) (r_qv r1) (r_qp r1)) as (_ & _ & E).
        fold r2 in E. rewrite E.
        destruct (run_kids_restores' before p 0 s1 qv qp) as (_ & _ & E'). fold r1 in E'. rewrite E'.
        unfold s1. apply setup_stack. }
      destruct RS2 as (E1 & E2 & E3 & E4).
      assert (St' : stack (r_st r2') = (nl s, tl s) :: stack s) by congruence.
      destruct (teardown_restores WBlock m _ _ _ _ St) as (T1 & T2 & T3).
      destruct (teardown_restores WBlock m _ _ _ _ St') as (T1' & T2' & T3').
      unfold RS. repeat split; try congruence.
      rewrite !rg_teardown_free by exact Hm. exact E4.
    - rewrite !filter_app, (emit_outside FR p pre s1 Hp), D1. reflexivity.
  Qed.
End RangeBlock.

(* ------------------------------------------------------------------ whole programs *)

Lemma rg_clear_rules0 L : rg_clear L rules0.
Proof. unfold rg_clear, rules0. cbn. auto. Qed.

Lemma get_node_free rest : forall n n0, range_free n = true -> get_node rest n = Some n0 -> range_free n0 = true.
Proof.
  induction rest as [|i rest IH]; intros n n0 Hn Hg.
  - cbn in Hg. inversion Hg; subst. exact Hn.
  - destruct n as [w m fl pre lsub lprog kids]. cbn in Hg, Hn. apply andb_true_iff in Hn. destruct Hn as [_ Hk].
    destruct (nth_error kids i) as [x|] eqn:E; [|discriminate].
    apply (IH x n0); auto. rewrite forallb_forall in Hk. apply Hk. eapply nth_error_In; eauto.
Qed.

Lemma get_prog_free P0 t n0 : forallb range_free t = true -> get_prog P0 t = Some n0 -> range_free n0 = true.
Proof.
  intros Ht Hg. destruct P0 as [|i rest]; [discriminate|]. cbn in Hg.
  destruct (nth_error t i) as [x|] eqn:E; [|discriminate].
  apply (get_node_free rest x n0); auto. rewrite forallb_forall in Ht. apply Ht. eapply nth_error_In; eauto.
Qed.

Lemma forallb_app_l {A} (f : A -> bool) l1 l2 : forallb f (l1 ++ l2) = true -> forallb f l1 = true /\ forallb f l2 = true.
Proof. rewrite forallb_app. apply andb_true_iff. Qed.

Lemma free_firstn k l : free_list l = true -> free_list (firstn k l) = true.
Proof.
  revert l. induction k as [|k IH]; intros l H; cbn; auto. destruct l as [|y l]; cbn in *; auto.
  apply andb_true_iff in H. destruct H as [H1 H2]. rewrite H1. cbn. apply IH. exact H2.
Qed.

Section Whole.
  Variable L : list rule.
  Variables c1 c2 : list byte.
  Hypothesis Hc1 : parse_ignore_comment c1 = Some (Start, L).
  Hypothesis Hc2 : parse_ignore_comment c2 = Some (End, L).

  (* start before one statement, end before a later statement of the same list, anywhere in the tree *)
  Theorem range_exact_nested t P0 w m fl pre lsub lprog before ki mid kj after k1 k2 :
    forallb range_free t = true ->
    get_prog P0 t = Some (Node w m fl pre lsub lprog (before ++ ki :: mid ++ kj :: after)) ->
    report (upd_prog P0 (set_kids (before ++ add_leading k1 c1 ki :: mid ++ add_leading k2 c2 kj :: after)) t)
    = filter (region_filter P0 (length before) (S (length mid)) L) (report t).
  Proof.
    intros Ht Hget. destruct P0 as [|i rest] eqn:EP; [discriminate|]. rewrite <- EP in *.
    set (FR := region_filter P0 (length before) (S (length mid)) L).
    pose proof (get_prog_free P0 t _ Ht Hget) as Hn0. cbn in Hn0.
    apply andb_true_iff in Hn0. destruct Hn0 as [Hm Hkids].
    destruct (forallb_app_l _ _ _ Hkids) as [Hb Hrest]. cbn in Hrest.
    apply andb_true_iff in Hrest. destruct Hrest as [Hfi Hrest].
    destruct (forallb_app_l _ _ _ Hrest) as [Hfm Hrest2]. cbn in Hrest2.
    apply andb_true_iff in Hrest2. destruct Hrest2 as [Hfj _].
    apply (path_report FR P0 _ (Node w m fl pre lsub lprog (before ++ ki :: mid ++ kj :: after))
             (fun s => rg s = rules0) range_free) with (i := i) (rest := rest); auto.
    - intros q r H. unfold FR, region_filter. cbn [fst snd]. rewrite in_region_above by exact H. reflexivity.
    - intros s qv qp Hs. cbn [set_kids]. rewrite !run_node. cbn zeta. unfold inner. rproj.
      set (s1 := setup w m s).
      assert (Hp : forall r, FR (P0, r) = true).
      { intros r. unfold FR, region_filter. cbn [fst snd]. rewrite in_region_self. reflexivity. }
      replace (if fl then [] else filter FR qv) with (filter FR (if fl then [] else qv)) by (destruct fl; reflexivity).
      rewrite !run_kids_app. cbn zeta. rproj.
      destruct (outside_kids' FR before P0 0 s1 (if fl then [] else qv) qp) as (A1 & B1 & C1 & D1).
      { intros j p' r Hj Hp'. unfold FR, region_filter. cbn [fst snd].
        rewrite (in_region_out P0 (length before) (S (length mid)) j p'); auto. lia. }
      rewrite A1, B1, C1.
      set (r1 := run_kids before P0 0 s1 (if fl then [] else qv) qp) in *.
      assert (Hrg1 : rg (r_st r1) = rules0).
      { unfold r1. rewrite rg_unchanged_kids' by exact Hb. unfold s1. rewrite rg_setup_free by exact Hm. exact Hs. }
      destruct (range_list L c1 c2 Hc1 Hc2 P0 (length before) ki mid Hfi Hfm k1 k2 kj after (r_st r1) (r_qv r1) (r_qp r1))
        as (A2 & B2 & C2 & D2).
      { destruct kj as [wj mj flj prej lsj lpj kidsj]. cbn in Hfj |- *. apply andb_true_iff in Hfj. destruct Hfj as [Hmj _].
        destruct (rfm_split mj Hmj) as (Q & _ & _). apply free_firstn. exact Q. }
      { rewrite Hrg1. apply rg_clear_rules0. }
      fold FR in A2, B2, C2, D2. cbn [Nat.add]. rewrite A2, B2, C2, D2.
      unfold sim_eq. rproj. repeat split.
      + rewrite filter_app, emit_outside by exact Hp. destruct fl; reflexivity.
      + rewrite filter_app, emit_outside by exact Hp. reflexivity.
      + rewrite !filter_app, emit_outside by exact Hp. rewrite D1. rewrite <- !app_assoc. f_equal. f_equal. f_equal.
        destruct fl; auto.
    - intros n p s qv qp Hn Hs. rewrite rg_unchanged by exact Hn. exact Hs.
    - intros w0 m0 fl0 pre0 ls0 lp0 kids0 s Hn Hs. cbn in Hn. apply andb_true_iff in Hn. destruct Hn as [Hm0 _].
      rewrite rg_setup_free by exact Hm0. exact Hs.
    - intros w0 m0 fl0 pre0 ls0 lp0 kids0 Hn. cbn in Hn. apply andb_true_iff in Hn. tauto.
  Qed.

  (* start before a statement of a block, end before the closing brace of that block *)
  Theorem range_exact_block_end t P0 m pre before ki mid k1 k2 :
    forallb range_free t = true ->
    get_prog P0 t = Some (Node WBlock m false pre [] [] (before ++ ki :: mid)) ->
    report (upd_prog P0 (fun n => add_infix k2 c2 (set_kids (before ++ add_leading k1 c1 ki :: mid) n)) t)
    = filter (region_filter P0 (length before) (S (length mid)) L) (report t).
  Proof.
    intros Ht Hget. destruct P0 as [|i rest] eqn:EP; [discriminate|]. rewrite <- EP in *.
    set (FR := region_filter P0 (length before) (S (length mid)) L).
    pose proof (get_prog_free P0 t _ Ht Hget) as Hn0. cbn in Hn0.
    apply andb_true_iff in Hn0. destruct Hn0 as [Hm Hkids].
    destruct (forallb_app_l _ _ _ Hkids) as [Hb Hrest]. cbn in Hrest.
    apply andb_true_iff in Hrest. destruct Hrest as [Hfi Hfm].
    apply (path_report FR P0 _ (Node WBlock m false pre [] [] (before ++ ki :: mid))
             (fun s => rg s = rules0) range_free) with (i := i) (rest := rest); auto.
    - intros q r H. unfold FR, region_filter. cbn [fst snd]. rewrite in_region_above by exact H. reflexivity.
    - intros s qv qp Hs. cbn [set_kids add_infix].
      apply (range_block L c1 c2 Hc1 Hc2 m pre before ki mid k1 k2 P0 s qv qp); auto.
      rewrite Hs. apply rg_clear_rules0.
    - intros n p s qv qp Hn Hs. rewrite rg_unchanged by exact Hn. exact Hs.
    - intros w0 m0 fl0 pre0 ls0 lp0 kids0 s Hn Hs. cbn in Hn. apply andb_true_iff in Hn. destruct Hn as [Hm0 _].
      rewrite rg_setup_free by exact Hm0. exact Hs.
    - intros w0 m0 fl0 pre0 ls0 lp0 kids0 Hn. cbn in Hn. apply andb_true_iff in Hn. tauto.
  Qed.

  (* start before one root declaration, end before a later one (across subroutines) *)
  Theorem range_exact_top before ki mid kj after k1 k2 :
    forallb range_free before = true -> range_free ki = true -> forallb range_free mid = true ->
    free_list (firstn k2 (leading (node_meta kj))) = true ->
    report (before ++ add_leading k1 c1 ki :: mid ++ add_leading k2 c2 kj :: after)
    = filter (region_filter [] (length before) (S (length mid)) L) (report (before ++ ki :: mid ++ kj :: after)).
  Proof.
    intros Hb Hfi Hfm Hl. set (FR := region_filter [] (length before) (S (length mid)) L).
    unfold report. rewrite !run_kids_app. cbn zeta.
    set (r1 := run_kids before [] 0 init [] []).
    assert (Hrg1 : rg (r_st r1) = rules0).
    { unfold r1. rewrite rg_unchanged_kids' by exact Hb. reflexivity. }
    destruct (outside_kids' FR before [] 0 init [] []) as (A1 & B1 & C1 & D1).
    { intros j p' r Hj Hp'. unfold FR, region_filter. cbn [fst snd].
      rewrite (in_region_out [] (length before) (S (length mid)) j p'); auto. lia. }
    cbn [filter] in A1, B1, C1, D1. fold r1 in A1, B1, C1, D1.
    destruct (range_list L c1 c2 Hc1 Hc2 [] (length before) ki mid Hfi Hfm k1 k2 kj after (r_st r1) (r_qv r1) (r_qp r1) Hl)
      as (A2 & B2 & C2 & D2).
    { rewrite Hrg1. apply rg_clear_rules0. }
    fold FR in A2, B2, C2, D2. cbn [Nat.add]. rewrite <- B1, <- C1 in A2, B2, C2, D2.
    rewrite B2, C2, D2. rewrite !filter_app. rewrite <- D1. rewrite <- !app_assoc. reflexivity.
  Qed.
  (* falco-ignore-start before a root declaration and no falco-ignore-end: the range runs to the end of the file -
     exactly the diagnostics of that declaration and of those after it go; the unused-declaration diagnostics of
     the declarations BEFORE it stay (Lint ends the range before the lintUnused passes) *)
  Theorem range_open_top before ki after k1 :
    forallb range_free before = true -> range_free ki = true -> forallb range_free after = true ->
    report (before ++ add_leading k1 c1 ki :: after)
    = filter (region_filter [] (length before) (S (length after)) L) (report (before ++ ki :: after)).
  Proof.
    intros Hb Hfi Hfa. set (FR := region_filter [] (length before) (S (length after)) L).
    unfold report. rewrite !run_kids_app. cbn zeta.
    set (r1 := run_kids before [] 0 init [] []).
    destruct (outside_kids' FR before [] 0 init [] []) as (A1 & B1 & C1 & D1).
    { intros j p' r Hj Hp'. unfold FR, region_filter. cbn [fst snd].
      rewrite (in_region_out [] (length before) (S (length after)) j p'); auto. lia. }
    cbn [filter] in A1, B1, C1, D1. fold r1 in A1, B1, C1, D1.
    destruct (region_run L c1 Hc1 [] (length before) ki after Hfi Hfa k1 (r_st r1) (r_qv r1) (r_qp r1))
      as (_ & _ & B2 & C2 & D2). cbn zeta in B2, C2, D2. fold FR in B2, C2, D2.
    cbn [Nat.add]. rewrite <- B1, <- C1 in B2, C2, D2.
    rewrite B2, C2, D2. rewrite !filter_app. rewrite <- D1. rewrite <- !app_assoc. reflexivity.
  Qed.
End Whole.
