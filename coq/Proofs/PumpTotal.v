(* Model/Pump.v: ReadPeek over any token stream that ends in a repeated EOF token always returns
   (never OutOfFuel / Crash / Err) with fuel > length of the undelivered tokens, and the pump
   loop reaches EOF.  The PRAGMA loop is where the unrepaired code never returned. *)
From Coq Require Import List NArith ZArith Bool Lia Arith.
From Falco Require Import Base.Res Base.Bytes Base.Utf8 Gen.Tokens Model.Lex Model.Pump
  Proofs.LexTables Proofs.LexProgress Proofs.LexToken.
Import ListNotations.

Lemma str_eqb_eq : forall a b, str_eqb a b = true -> a = b.
Proof.
  induction a as [|x a IH]; destruct b as [|y b]; cbn; intros H; try discriminate; auto.
  apply andb_true_iff in H as [H1 H2]. apply N.eqb_eq in H1. f_equal; auto.
Qed.

Section Stream.
  Variable e : token.
  Hypothesis He : is_eof e = true.

  Lemma e_type : ttype e = T_EOF.
  Proof. apply str_eqb_eq. exact He. Qed.

  Lemma e_not ty : str_eqb T_EOF ty = false -> is_type ty e = false.
  Proof. unfold is_type. rewrite e_type. auto. Qed.

  Lemma e_is_eof : is_type T_EOF e = true.
  Proof. exact He. Qed.

  Lemma skip_lf_ok : forall n ts cnt, (length ts < n)%nat ->
    exists c ts', skip_lf n e ts cnt = OK (c, ts') /\ (length ts' <= length ts)%nat.
  Proof.
    induction n as [|n IH]; intros ts cnt Hn; [lia|].
    cbn [skip_lf]. destruct ts as [|t r].
    - cbn [s_peek]. rewrite (e_not T_LF) by (vm_compute; reflexivity).
      eexists _, _. split; [reflexivity|]. lia.
    - cbn [s_peek s_next snd]. destruct (is_type T_LF t).
      + destruct (IH r (cnt + 1)%N) as (c & ts' & R & L); [cbn in Hn; lia|].
        rewrite R. eexists _, _. split; [reflexivity|]. cbn. lia.
      + eexists _, _. split; [reflexivity|]. lia.
  Qed.

  Lemma skip_pragma_ok : forall n ts, (length ts < n)%nat ->
    exists ts', skip_pragma n e ts = OK ts' /\ (length ts' <= length ts)%nat.
  Proof.
    induction n as [|n IH]; intros ts Hn; [lia|].
    cbn [skip_pragma]. destruct ts as [|t r]; cbn [s_next].
    - rewrite e_is_eof. rewrite orb_true_r. eexists. split; [reflexivity|]. lia.
    - destruct (is_type T_SEMICOLON t || is_type T_EOF t).
      + eexists. split; [reflexivity|]. cbn. lia.
      + destruct (IH r) as (ts' & R & L); [cbn in Hn; lia|].
        rewrite R. eexists. split; [reflexivity|]. cbn. lia.
  Qed.

  Lemma read_peek_ok : forall n ts level lead lf prev, (length ts < n)%nat ->
    exists m ts' lv', read_peek n e ts level lead lf prev = OK (m, ts', lv') /\
      (length ts' <= pred (length ts))%nat /\ (ts = [] -> mtok m = e).
  Proof.
    induction n as [|n IH]; intros ts level lead lf prev Hn; [lia|].
    cbn [read_peek]. destruct ts as [|t r]; cbn [s_next].
    - rewrite (e_not T_LF), (e_not T_COMMENT), (e_not T_FASTLY_CONTROL), (e_not T_PRAGMA)
        by (vm_compute; reflexivity).
      eexists _, _, _. split; [reflexivity|]. split; [cbn; lia|]. reflexivity.
    - cbn [length] in Hn. cbn [length pred].
      destruct (is_type T_LF t).
      { destruct (skip_lf_ok n r prev) as (c & ts2 & R & L); [lia|]. rewrite R. cbn [bind].
        destruct (IH ts2 level lead true c) as (m & ts' & lv' & R' & L' & _); [lia|].
        rewrite R'. eexists _, _, _. split; [reflexivity|]. split; [lia|]. discriminate. }
      destruct (is_type T_COMMENT t).
      { destruct (IH r level (lead ++ [mkC t lf prev]) lf 0%N) as (m & ts' & lv' & R' & L' & _); [lia|].
        rewrite R'. eexists _, _, _. split; [reflexivity|]. split; [lia|]. discriminate. }
      destruct (is_type T_FASTLY_CONTROL t).
      { destruct (IH r level lead lf prev) as (m & ts' & lv' & R' & L' & _); [lia|].
        rewrite R'. eexists _, _, _. split; [reflexivity|]. split; [lia|]. discriminate. }
      destruct (is_type T_PRAGMA t).
      { destruct (skip_pragma_ok n r) as (ts2 & R & L); [lia|]. rewrite R. cbn [bind].
        destruct (IH ts2 level lead lf prev) as (m & ts' & lv' & R' & L' & _); [lia|].
        rewrite R'. eexists _, _, _. split; [reflexivity|]. split; [lia|]. discriminate. }
      eexists _, _, _. split; [reflexivity|]. split; [lia|]. discriminate.
  Qed.

  Lemma pump_loop_ok inner : forall outer ts level,
    (length ts < outer)%nat -> (length ts < inner)%nat ->
    exists ms, pump_loop outer inner e ts level = OK ms /\ ms <> [].
  Proof.
    induction outer as [|o IH]; intros ts level Ho Hi; [lia|].
    cbn [pump_loop].
    destruct (read_peek_ok inner ts level [] false 0%N Hi) as (m & ts' & lv' & R & L & Z).
    rewrite R. cbn [bind].
    destruct (is_eof (mtok m)) eqn:E.
    - exists [m]. split; [reflexivity|discriminate].
    - assert (ts <> []). { intros ->. rewrite (Z eq_refl) in E. congruence. }
      destruct ts as [|t r]; [congruence|]. cbn [length pred] in *.
      destruct (IH ts' lv') as (ms & R' & _); [lia|lia|].
      rewrite R'. exists (m :: ms). split; [reflexivity|discriminate].
  Qed.

  Theorem pump_all_ok ts n : (S (length ts) <= n)%nat -> exists ms, pump_all n e ts = OK ms /\ ms <> [].
  Proof. intros H. unfold pump_all. apply pump_loop_ok; lia. Qed.
End Stream.

(* the lexer's output ends with an EOF token *)
Lemma lex_loop_last inner : forall outer st ts,
  lex_loop outer inner st = OK ts -> exists body e, ts = body ++ [e] /\ is_eof e = true.
Proof.
  induction outer as [|o IH]; intros st ts; cbn [lex_loop]; [discriminate|].
  destruct (next_token inner st) as [[t st']| | |]; cbn [bind]; try discriminate.
  destruct (is_eof t) eqn:E.
  - intros [= <-]. exists [], t. auto.
  - destruct (lex_loop o inner st') as [ts'| | |] eqn:R; try discriminate.
    intros [= <-]. destruct (IH _ _ R) as (body & e & -> & He).
    exists (t :: body), e. auto.
Qed.

Theorem pump_ok s : exists ms, pump s = OK ms /\ ms <> [].
Proof.
  unfold pump, tokens.
  destruct (lex_all_ok s (lex_fuel s) (Nat.le_refl _)) as (ts & R & _ & _).
  rewrite R. cbn [bind].
  unfold lex_all in R. destruct (lex_loop_last _ _ _ _ R) as (body & e & -> & He).
  rewrite rev_app_distr. cbn [rev app].
  apply pump_all_ok; [exact He|lia].
Qed.
