(* C07 - bitwise, shift and rotate assignments against Z.lor / Z.land / Z.lxor / Z.shiftl /
   Z.shiftr and 64-bit rotation, for all int64 operands. *)
From Coq Require Import List NArith ZArith Bool Lia Floats.SpecFloat.
From Falco Require Import Base.Res Base.Bytes Model.Float Model.Acl Model.Val Model.Assign Model.Oper Proofs.EvalLaws.
Import ListNotations.
Local Open Scope Z_scope.

Lemma in64_iff z : in64 z = true <-> - 2 ^ 63 <= z <= 2 ^ 63 - 1.
Proof.
  unfold in64, min64, max64. rewrite andb_true_iff, !Z.leb_le. tauto.
Qed.

Lemma in64_wrap z : in64 (wrap64 z) = true.
Proof.
  apply in64_iff. unfold wrap64. pose proof (Z.mod_pos_bound (z + 2 ^ 63) (2 ^ 64) ltac:(lia)). lia.
Qed.

Lemma wrap64_mod z : wrap64 z mod 2 ^ 64 = z mod 2 ^ 64.
Proof.
  unfold wrap64.
  rewrite Zminus_mod, Zmod_mod, <- Zminus_mod.
  replace (z + 2 ^ 63 - 2 ^ 63) with z by lia. reflexivity.
Qed.

Lemma wrap64_testbit z i : 0 <= i < 64 -> Z.testbit (wrap64 z) i = Z.testbit z i.
Proof.
  intros Hi. rewrite <- (Z.mod_pow2_bits_low (wrap64 z) 64 i) by lia.
  rewrite wrap64_mod. apply Z.mod_pow2_bits_low. lia.
Qed.

(* sign extension: an int64 is a Z whose bits from 63 upwards are all equal *)
Lemma in64_shiftr z : in64 z = true <-> (Z.shiftr z 63 = 0 \/ Z.shiftr z 63 = -1).
Proof.
  rewrite in64_iff, Z.shiftr_div_pow2 by lia.
  pose proof (Z.div_mod z (2 ^ 63) ltac:(lia)). pose proof (Z.mod_pos_bound z (2 ^ 63) ltac:(lia)).
  split; intros; lia.
Qed.

Lemma bitwise_in64 a b : in64 a = true -> in64 b = true ->
  in64 (Z.lor a b) = true /\ in64 (Z.land a b) = true /\ in64 (Z.lxor a b) = true.
Proof.
  rewrite !in64_shiftr, Z.shiftr_lor, Z.shiftr_land, Z.shiftr_lxor.
  intros [-> | ->] [-> | ->]; cbn; tauto.
Qed.

Section Bits.
Variable parse_ip : str -> option addr.

(* |= &= ^= compute Z.lor / Z.land / Z.lxor, and the result is again an int64 *)
Theorem or_spec : forall a n ni pi b bn lit,
  assign parse_ip OpOr (VInt a n ni pi) (rint b bn lit) = AOk (VInt (Z.lor a b) n ni pi).
Proof. reflexivity. Qed.
Theorem and_spec : forall a n ni pi b bn lit,
  assign parse_ip OpAnd (VInt a n ni pi) (rint b bn lit) = AOk (VInt (Z.land a b) n ni pi).
Proof. reflexivity. Qed.
Theorem xor_spec : forall a n ni pi b bn lit,
  assign parse_ip OpXor (VInt a n ni pi) (rint b bn lit) = AOk (VInt (Z.lxor a b) n ni pi).
Proof. reflexivity. Qed.

(* <<= : the mathematical shift whenever it fits; any count >= 0 *)
Theorem shl_in_range : forall a n ni pi k kn lit, 0 <= k -> in64 (Z.shiftl a k) = true ->
  assign parse_ip OpShl (VInt a n ni pi) (rint k kn lit) = AOk (VInt (Z.shiftl a k) n ni pi).
Proof.
  intros a n ni pi k kn lit Hk Hr. cbn. unfold goshl, shl64.
  replace (k <? 0) with false by (symmetry; apply Z.ltb_ge; lia).
  destruct (64 <=? k) eqn:E.
  - apply Z.leb_le in E. apply in64_iff in Hr. rewrite Z.shiftl_mul_pow2 in * by lia.
    assert (H64 : 2 ^ 64 <= 2 ^ k) by (apply Z.pow_le_mono_r; lia).
    assert (a = 0) by nia. subst. reflexivity.
  - now rewrite wrap64_id.
Qed.

(* >>= : the arithmetic shift (floor division by 2^k) for every count >= 0 *)
Theorem shr_spec : forall a n ni pi k kn lit, 0 <= k -> in64 a = true ->
  assign parse_ip OpShr (VInt a n ni pi) (rint k kn lit) = AOk (VInt (Z.shiftr a k) n ni pi).
Proof.
  intros a n ni pi k kn lit Hk Hr. cbn. unfold goshr, sar64.
  replace (k <? 0) with false by (symmetry; apply Z.ltb_ge; lia).
  destruct (64 <=? k) eqn:E; [|reflexivity].
  apply Z.leb_le in E. apply in64_iff in Hr. rewrite Z.shiftr_div_pow2 by lia.
  assert (H64 : 2 ^ 64 <= 2 ^ k) by (apply Z.pow_le_mono_r; lia).
  destruct (a <? 0) eqn:Ea.
  - apply Z.ltb_lt in Ea. do 3 f_equal. symmetry.
    pose proof (Z.div_mod a (2 ^ k) ltac:(lia)). pose proof (Z.mod_pos_bound a (2 ^ k) ltac:(lia)). nia.
  - apply Z.ltb_ge in Ea. rewrite Z.div_small by lia. reflexivity.
Qed.

(* a negative count is an error, not a value and not a crash *)
Theorem shift_negative_count : forall a n ni pi k kn lit, k < 0 ->
  assign parse_ip OpShl (VInt a n ni pi) (rint k kn lit) = AErr (VInt a n ni pi) /\
  assign parse_ip OpShr (VInt a n ni pi) (rint k kn lit) = AErr (VInt a n ni pi) /\
  assign parse_ip OpRol (VInt a n ni pi) (rint k kn lit) = AErr (VInt a n ni pi) /\
  assign parse_ip OpRor (VInt a n ni pi) (rint k kn lit) = AErr (VInt a n ni pi).
Proof.
  intros. cbn. replace (k <? 0) with true by (symmetry; apply Z.ltb_lt; lia). repeat split.
Qed.

End Bits.

(* ---------------------------------------------------------------- 64-bit rotation *)

Lemma rotl64_bits x k i : 0 <= k < 64 -> 0 <= i < 64 ->
  Z.testbit (rotl64 x k) i = Z.testbit x ((i - k) mod 64).
Proof.
  intros Hk Hi. unfold rotl64. rewrite wrap64_testbit by lia.
  rewrite Z.lor_spec, Z.mod_pow2_bits_low, Z.shiftl_spec, Z.shiftr_spec by lia.
  destruct (Z_lt_ge_dec i k) as [Hlt | Hge].
  - (* bits below the rotation count come from the top of x *)
    rewrite (Z.testbit_neg_r _ (i - k)) by lia. cbn [orb].
    replace ((i - k) mod 64) with (i + (64 - k)).
    + apply Z.mod_pow2_bits_low. lia.
    + symmetry. rewrite <- (Z.mod_small (i + (64 - k)) 64) by lia.
      replace (i + (64 - k)) with (i - k + 1 * 64) by lia. now rewrite Z.mod_add by lia.
  - rewrite (Z.mod_pow2_bits_high _ 64 (i + (64 - k))) by lia. rewrite orb_false_r.
    rewrite Z.mod_pow2_bits_low by lia. now rewrite Z.mod_small by lia.
Qed.

Section Rot.
Variable parse_ip : str -> option addr.

(* rol= k : bit i of the result is bit (i - k) mod 64 of the operand; the count is taken modulo 64 *)
Theorem rol_spec : forall a n ni pi k kn lit, 0 <= k ->
  exists v, assign parse_ip OpRol (VInt a n ni pi) (rint k kn lit) = AOk (VInt v n ni pi) /\
            in64 v = true /\
            forall i, 0 <= i < 64 -> Z.testbit v i = Z.testbit a ((i - k) mod 64).
Proof.
  intros a n ni pi k kn lit Hk. exists (rotl64 a (k mod 64)). split; [|split].
  - cbn. now replace (k <? 0) with false by (symmetry; apply Z.ltb_ge; lia).
  - apply in64_wrap.
  - intros i Hi. pose proof (Z.mod_pos_bound k 64 ltac:(lia)).
    rewrite rotl64_bits by lia. f_equal. now rewrite Zminus_mod_idemp_r.
Qed.

(* ror= k : bit i of the result is bit (i + k) mod 64 of the operand *)
Theorem ror_spec : forall a n ni pi k kn lit, 0 <= k ->
  exists v, assign parse_ip OpRor (VInt a n ni pi) (rint k kn lit) = AOk (VInt v n ni pi) /\
            in64 v = true /\
            forall i, 0 <= i < 64 -> Z.testbit v i = Z.testbit a ((i + k) mod 64).
Proof.
  intros a n ni pi k kn lit Hk. exists (rotl64 a ((64 - k mod 64) mod 64)). split; [|split].
  - cbn. now replace (k <? 0) with false by (symmetry; apply Z.ltb_ge; lia).
  - apply in64_wrap.
  - intros i Hi. pose proof (Z.mod_pos_bound (64 - k mod 64) 64 ltac:(lia)).
    rewrite rotl64_bits by lia. f_equal.
    rewrite Zminus_mod_idemp_r. replace (i - (64 - k mod 64)) with (i + k mod 64 + (-1) * 64) by lia.
    rewrite Z.mod_add by lia. now rewrite Zplus_mod_idemp_r.
Qed.

End Rot.

Example rol_example : assign (fun _ => None) OpRol (VInt (- 2 ^ 63) false false false) (rint 1 false true)
                      = AOk (VInt 1 false false false).
Proof. reflexivity. Qed.
Example ror_example : assign (fun _ => None) OpRor (VInt 1 false false false) (rint 65 false false)
                      = AOk (VInt (- 2 ^ 63) false false false).
Proof. reflexivity. Qed.

(* ---------------------------------------------------------------- witnesses: the hypotheses of the laws are satisfiable *)
Example ex_add_in_range : assign (fun _ => None) OpAdd (VInt (2 ^ 62) false false false) (rint (2 ^ 62 - 1) false true)
                          = AOk (VInt (2 ^ 63 - 1) false false false).
Proof. reflexivity. Qed.
Example ex_add_wraps : assign (fun _ => None) OpAdd (VInt (2 ^ 62) false false false) (rint (2 ^ 62) false true)
                       = AOk (VInt (- 2 ^ 63) false false false).      (* out of range: the code wraps *)
Proof. reflexivity. Qed.
Example ex_div_trunc : assign (fun _ => None) OpDiv (VInt (-7) false false false) (rint 2 false false)
                       = AOk (VInt (-3) false false false).
Proof. reflexivity. Qed.
Example ex_shl_in_range : assign (fun _ => None) OpShl (VInt (-1) false false false) (rint 63 false false)
                          = AOk (VInt (- 2 ^ 63) false false false).
Proof. reflexivity. Qed.
Example ex_shr_big_count : assign (fun _ => None) OpShr (VInt (-8) false false false) (rint (2 ^ 62) false false)
                           = AOk (VInt (-1) false false false).
Proof. reflexivity. Qed.
Example ex_rtime_seconds : assign (fun _ => None) OpAdd (VRTime 500000000) (rint 2 false false) = AOk (VRTime 2500000000).
Proof. reflexivity. Qed.
Example ex_lt_gt_mixed :
  compare_op CLt (mkOp (VRTime 1500000000) false) (mkOp (VFloat (S754_finite false 6755399441055744 (-52)) false false false) false) = OK true /\
  compare_op CGt (mkOp (VFloat (S754_finite false 6755399441055744 (-52)) false false false) false) (mkOp (VRTime 1500000000) false) = OK true.
Proof. split; reflexivity. Qed.      (* 1 (whole seconds of 1.5s) < 1.5 *)
Example ex_nan_flag_dual :
  compare_op CLt (mkOp (VRTime 0) false) (mkOp (VFloat (f_of_int 5) true false false) false) = OK false /\
  compare_op CGt (mkOp (VFloat (f_of_int 5) true false false) false) (mkOp (VRTime 0) false) = OK false.
Proof. split; reflexivity. Qed.      (* the case that was true / false before 9920526 *)
Example ex_notset_ip : equal (fun _ => None) (mkOp (VIp (Some (mkAddr V4 1%N)) false) false) (mkOp (VStr nil true) false) = OK false.
Proof. reflexivity. Qed.
