(* encode_total: every well-formed statement list does encode (no Err, no Crash):
   the round-trip theorem is not vacuous on the encoder side. *)
From Coq Require Import List NArith ZArith Lia Bool.
From Falco Require Import Base.Res Base.Bytes Base.Utf8 Gen.CodecFrames Model.CodecAst Model.Codec
  Proofs.CodecRT1 Proofs.CodecRoundtrip.
Import ListNotations.

Definition ET_stmt (k : nat) : Prop :=
  forall s, (ssize s <= k)%nat -> wf_stmt s -> exists bs, enc_stmt s = OK bs.
Definition ET_ifs (k : nat) : Prop :=
  forall i, (isz i <= k)%nat -> wf_ifs i -> exists bs, enc_ifs i = OK bs.
Definition ET_cas (k : nat) : Prop :=
  forall c, (csz c <= k)%nat -> wf_cas c -> exists bs, enc_cas c = OK bs.

Lemma enc_block_unf x xs :
  enc_block (x :: xs) =
  match enc_stmt x with OK bx => do r <- enc_block xs; OK (bx ++ r) | Err => Crash | Crash => Crash | OutOfFuel => OutOfFuel end.
Proof. reflexivity. Qed.
Lemma enc_anothers_unf x xs :
  enc_anothers (x :: xs) = do bx <- enc_ifs x; do r <- enc_anothers xs; OK (bx ++ r).
Proof. reflexivity. Qed.
Lemma enc_cases_unf x xs :
  enc_cases (x :: xs) = do bx <- enc_cas x; do r <- enc_cases xs; OK (bx ++ r).
Proof. reflexivity. Qed.
Lemma enc_top_unf x xs :
  enc_stmts_top (x :: xs) = do bx <- enc_stmt x; do r <- enc_stmts_top xs; OK (bx ++ r).
Proof. reflexivity. Qed.

Lemma block_total k : ET_stmt k -> forall b, (bsz b <= S k)%nat -> wf_block b -> exists pb, enc_block b = OK pb.
Proof.
  intros IH. induction b as [|x xs IHb]; intros Hs Hw; [eexists; reflexivity|].
  cbn [bsz wf_block] in *. fold bsz in *. fold wf_block in *.
  destruct (IH x ltac:(lia) (proj1 Hw)) as [bx Ex]. destruct (IHb ltac:(lia) (proj2 Hw)) as [r Er].
  rewrite enc_block_unf, Ex, Er, bind_OK. eexists; reflexivity.
Qed.
Lemma anothers_total k : ET_ifs k -> forall l, (asz l <= S k)%nat -> wf_anothers l -> exists pa, enc_anothers l = OK pa.
Proof.
  intros IH. induction l as [|x xs IHl]; intros Hs Hw; [eexists; reflexivity|].
  cbn [asz wf_anothers] in *. fold asz in *. fold wf_anothers in *.
  destruct (IH x ltac:(lia) (proj1 Hw)) as [bx Ex]. destruct (IHl ltac:(lia) (proj2 Hw)) as [r Er].
  rewrite enc_anothers_unf, Ex, bind_OK, Er, bind_OK. eexists; reflexivity.
Qed.
Lemma cases_total k : ET_cas k -> forall l, (cssz l <= S k)%nat -> wf_cases l -> exists pa, enc_cases l = OK pa.
Proof.
  intros IH. induction l as [|x xs IHl]; intros Hs Hw; [eexists; reflexivity|].
  cbn [cssz wf_cases] in *. fold cssz in *. fold wf_cases in *.
  destruct (IH x ltac:(lia) (proj1 Hw)) as [bx Ex]. destruct (IHl ltac:(lia) (proj2 Hw)) as [r Er].
  rewrite enc_cases_unf, Ex, bind_OK, Er, bind_OK. eexists; reflexivity.
Qed.

Lemma enc_total_group : forall k, ET_stmt k /\ ET_ifs k /\ ET_cas k.
Proof.
  induction k as [|k (IHs & IHi & IHc)].
  { split; [|split]; intros x Hs; exfalso; destruct x; simpl in Hs; lia. }
  pose proof (block_total k IHs) as Hb.
  pose proof (anothers_total k IHi) as Ha.
  pose proof (cases_total k IHc) as Hc.
  split; [|split].
  - intros s Hs Hw.
    destruct s as [id op v|id op v| b | | | | |sub args| c |name ty v|code arg|f args|d|d| i |d|d|v|d|d|paren v
                  | ctl cases d |v|v|name cidrs|name props|name ty props|name|name| name params ret b |name ty props|];
      try (eexists; reflexivity).
    + cbn [ssize wf_stmt] in *. fold bsz in *. fold wf_block in *.
      destruct (Hb b ltac:(lia) Hw) as [pb E]. rewrite enc_block_eq, E, bind_OK. eexists; reflexivity.
    + cbn [ssize wf_stmt enc_stmt] in *. apply IHc; [lia|exact Hw].
    + cbn [ssize wf_stmt enc_stmt] in *. apply IHi; [lia|exact Hw].
    + cbn [ssize wf_stmt] in *. fold cssz in *. fold wf_cases in *.
      destruct (Hc cases ltac:(lia) ltac:(tauto)) as [pc E]. rewrite enc_switch_eq, E, bind_OK. eexists; reflexivity.
    + cbn [ssize wf_stmt] in *. fold bsz in *. fold wf_block in *.
      destruct (Hb b ltac:(lia) ltac:(tauto)) as [pb E]. rewrite enc_sub_eq, E, bind_OK. eexists; reflexivity.
    + contradiction.
  - intros i Hs Hw. destruct i as [kw c csq another alt].
    cbn [isz wf_ifs] in *. fold bsz in *. fold wf_block in *. fold asz in *. fold wf_anothers in *.
    destruct Hw as (Hw1 & Hw2 & Hw3 & Hw4 & Hw5).
    destruct (Hb csq ltac:(lia) Hw3) as [pc Ec]. destruct (Ha another ltac:(lia) Hw4) as [pa Ea].
    rewrite enc_ifs_eq, Ec, bind_OK, Ea, bind_OK.
    destruct alt as [alt|].
    + destruct (Hb alt ltac:(lia) Hw5) as [pe Ee]. rewrite Ee, !bind_OK. eexists; reflexivity.
    + rewrite bind_OK. eexists; reflexivity.
  - intros c Hs Hw. destruct c as [test b ft].
    cbn [csz wf_cas] in *. fold bsz in *. fold wf_block in *.
    destruct (Hb b ltac:(lia) (proj2 Hw)) as [pb E]. rewrite enc_cas_eq, E, bind_OK. eexists; reflexivity.
Qed.

Lemma enc_stmt_total s : wf_stmt s -> exists bs, enc_stmt s = OK bs.
Proof. destruct (enc_total_group (ssize s)) as (H & _). apply H. lia. Qed.

Theorem encode_total ss : wf_block ss -> exists bs, encode ss = OK bs.
Proof.
  unfold encode. induction ss as [|x xs IH]; intros Hw; [eexists; reflexivity|].
  cbn [wf_block] in Hw. fold wf_block in Hw.
  destruct (enc_stmt_total x (proj1 Hw)) as [bx Ex]. destruct (IH (proj2 Hw)) as [r Er].
  rewrite enc_top_unf, Ex, bind_OK, Er, bind_OK. eexists; reflexivity.
Qed.
