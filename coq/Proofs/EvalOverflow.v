(* C08 - "integer overflow ... yields a value or an error": INTEGER += -= *= on operands whose mathematical result does
   not fit int64 yield a VALUE - the result reduced modulo 2^64 into the int64 range (Go's wrapping arithmetic) - with no
   error and no change of the NaN / inf flags.  This is exactly what the code does (the `> math.MaxInt64` branches of
   addition.go, subtraction.go, multiplication.go can never be taken on int64); it is a value, so C08's clause holds, and
   C07's clause only speaks about results within range (Props/C07.v *_in_range). *)
From Coq Require Import List NArith ZArith Bool Lia.
From Falco Require Import Base.Res Base.Bytes Model.Float Model.Acl Model.Val Model.Assign Proofs.EvalLaws Proofs.EvalBits.
Import ListNotations.
Local Open Scope Z_scope.

Theorem integer_overflow_yields_value : forall parse_ip a n ni pi b bn lit,
  assign parse_ip OpAdd (VInt a n ni pi) (rint b bn lit) = AOk (VInt (wrap64 (a + b)) n ni pi) /\
  assign parse_ip OpSub (VInt a n ni pi) (rint b bn lit) = AOk (VInt (wrap64 (a - b)) n ni pi) /\
  assign parse_ip OpMul (VInt a n ni pi) (rint b bn lit) = AOk (VInt (wrap64 (a * b)) n ni pi) /\
  in64 (wrap64 (a + b)) = true /\ in64 (wrap64 (a - b)) = true /\ in64 (wrap64 (a * b)) = true.
Proof. intros. repeat split; try reflexivity; apply in64_wrap. Qed.

(* the wrapped value is the mathematical one modulo 2^64 *)
Theorem wrap64_congruent : forall z, (wrap64 z - z) mod 2 ^ 64 = 0.
Proof.
  intros z. unfold wrap64.
  replace ((z + 2 ^ 63) mod 2 ^ 64 - 2 ^ 63 - z) with ((z + 2 ^ 63) mod 2 ^ 64 - (z + 2 ^ 63)) by lia.
  rewrite Zminus_mod, Zmod_mod, <- Zminus_mod, Z.sub_diag. reflexivity.
Qed.

Example ex_overflow_add : assign (fun _ => None) OpAdd (VInt (2 ^ 63 - 1) false false false) (rint 1 false true)
                          = AOk (VInt (- 2 ^ 63) false false false).
Proof. reflexivity. Qed.
Example ex_overflow_mul : assign (fun _ => None) OpMul (VInt (2 ^ 62) false false false) (rint 4 false false)
                          = AOk (VInt 0 false false false).
Proof. reflexivity. Qed.
