(* C17 - the scanner of Model/HdrField.v on rendered item lists, part 1:
   character classes, terminators, key matching, quoted values, embedded keys. *)
From Coq Require Import List NArith Bool Lia.
From Coq Require Import Strings.Byte.
From Falco Require Import Base.Bytes Model.HdrField Model.Hdr Model.HdrSpec Proofs.HdrBytes.
Import ListNotations.

(* ---- character classes ---- *)
Lemma keychar_inv c : keychar c = true ->
  is_ws c = false /\ byte_eqb c c_comma = false /\ byte_eqb c c_eq = false /\ byte_eqb c c_dq = false.
Proof.
  unfold keychar. intros H. repeat (apply andb_true_iff in H; destruct H as [H ?]).
  repeat split; apply negb_true_iff; assumption.
Qed.

Lemma ws_comma : is_ws c_comma = false. Proof. reflexivity. Qed.
Lemma ws_eq : is_ws c_eq = false. Proof. reflexivity. Qed.
Lemma ws_dq : is_ws c_dq = false. Proof. reflexivity. Qed.

Lemma key_ok_inv k : key_ok k = true -> exists c k', k = c :: k' /\ keychar c = true /\ forallb keychar k' = true.
Proof.
  unfold key_ok. destruct k as [|c k']; simpl; intros H; [discriminate|].
  apply andb_true_iff in H. destruct H as [Hc Hk]. eauto.
Qed.

Lemma key_ok_all k : key_ok k = true -> forallb keychar k = true.
Proof. unfold key_ok. intros H. apply andb_true_iff in H. tauto. Qed.

(* ---- terminators ---- *)
Definition tail_ok (tail : bytes) : Prop := tail = [] \/ exists more, tail = c_comma :: more.
Definition term_tail (tail : bytes) : bytes * bytes :=
  match tail with [] => ([], []) | _ :: m => ([c_comma], m) end.

Lemma term_tail_eq tail : tail_ok tail -> term tail = Some (term_tail tail).
Proof. intros [->|[m ->]]; reflexivity. Qed.

Lemma term_ok_tail tail : tail_ok tail -> term_ok tail = true.
Proof. intros H. unfold term_ok. rewrite (term_tail_eq _ H). reflexivity. Qed.

Lemma term_none c s : is_ws c = false -> byte_eqb c c_comma = false -> term (c :: s) = None.
Proof. intros H1 H2. unfold term. rewrite H2, H1. reflexivity. Qed.

Lemma tail_hd_not p tail : tail_ok tail -> p c_comma = false ->
  match tail with [] => True | c :: _ => p c = false end.
Proof. intros [->|[m ->]] H; [exact I | exact H]. Qed.

(* ---- key matching ---- *)
Lemma keq_cons c k d key :
  keq (c :: k) (d :: key) = byte_eqb (lower c) (lower d) && keq k key.
Proof. reflexivity. Qed.

Lemma keq_refl k : keq k k = true.
Proof. unfold keq. apply beq_refl. Qed.

Lemma keq_sym a b : keq a b = keq b a.
Proof. unfold keq. apply beq_sym. Qed.

Lemma keq_trans a b c : keq a b = true -> keq b c = true -> keq a c = true.
Proof. unfold keq. intros H1 H2. apply beq_eq in H1. apply beq_eq in H2. apply beq_eq. congruence. Qed.

Lemma keq_length a : forall b, keq a b = true -> length a = length b.
Proof.
  unfold keq. intros b H. apply beq_eq in H.
  rewrite <- (map_length lower a), <- (map_length lower b), H. reflexivity.
Qed.

Lemma strip_key_keq k : forall key rest, keq k key = true -> strip_key k (key ++ rest) = Some (key, rest).
Proof.
  induction k as [|c k IH]; intros [|d key] rest H; try (unfold keq in H; simpl in H; discriminate).
  - reflexivity.
  - rewrite keq_cons in H. apply andb_true_iff in H. destruct H as [H1 H2].
    simpl. rewrite H1. rewrite (IH key rest H2). reflexivity.
Qed.

(* what follows a key in a rendered item, or the closing quote of a value *)
Definition stop_hd (rest : bytes) : Prop :=
  match rest with [] => True | c :: _ => c = c_comma \/ c = c_eq \/ c = c_dq end.

Lemma keychar_lower_neq c x : keychar c = true -> (x = c_comma \/ x = c_eq \/ x = c_dq) ->
  byte_eqb (lower c) (lower x) = false.
Proof.
  intros Hc Hx. apply keychar_inv in Hc. destruct Hc as (_ & H1 & H2 & H3).
  apply byte_eqb_neq. intros E.
  destruct Hx as [->|[->| ->]].
  - rewrite lower_comma in E. apply lower_eq_comma in E. subst. rewrite byte_eqb_refl in H1. discriminate.
  - rewrite lower_eqc in E. apply lower_eq_eq in E. subst. rewrite byte_eqb_refl in H2. discriminate.
  - rewrite lower_dq in E. apply lower_eq_dq in E. subst. rewrite byte_eqb_refl in H3. discriminate.
Qed.

(* a key that is not (case-insensitively) the item's key: the match stops inside the key, or
   leaves a key character behind *)
Lemma strip_key_miss k : forall key rest,
  forallb keychar k = true -> forallb keychar key = true -> keq k key = false -> stop_hd rest ->
  match strip_key k (key ++ rest) with
  | None => True
  | Some (_, r) => exists c r', r = c :: r' /\ keychar c = true
  end.
Proof.
  induction k as [|c k IH]; intros key rest Hk Hkey Hne Hstop.
  - destruct key as [|d key]; [unfold keq in Hne; simpl in Hne; discriminate|].
    simpl in *. apply andb_true_iff in Hkey. destruct Hkey as [Hd _]. eauto.
  - simpl in Hk. apply andb_true_iff in Hk. destruct Hk as [Hc Hk].
    destruct key as [|d key].
    + simpl. destruct rest as [|x rest]; [exact I|].
      simpl in Hstop. rewrite (keychar_lower_neq c x Hc Hstop). exact I.
    + simpl in Hkey. apply andb_true_iff in Hkey. destruct Hkey as [Hd Hkey].
      rewrite keq_cons in Hne. simpl.
      destruct (byte_eqb (lower c) (lower d)) eqn:E; [|exact I].
      simpl in Hne. specialize (IH key rest Hk Hkey Hne Hstop).
      destruct (strip_key k (key ++ rest)) as [[km r]|]; [exact IH | exact I].
Qed.

Lemma strip_key_app k : forall s km r0 r, strip_key k s = Some (km, r0) -> strip_key k (s ++ r) = Some (km, r0 ++ r).
Proof.
  induction k as [|c k IH]; intros s km r0 r H.
  - simpl in *. inversion H; subst. reflexivity.
  - destruct s as [|d s]; simpl in *; [discriminate|].
    destruct (byte_eqb (lower c) (lower d)); [|discriminate].
    destruct (strip_key k s) as [[m r1]|] eqn:E; [|discriminate].
    inversion H; subst. rewrite (IH s m r0 r E). reflexivity.
Qed.

Lemma strip_key_none_dq k : forall s t, forallb keychar k = true ->
  strip_key k s = None -> strip_key k (s ++ c_dq :: t) = None.
Proof.
  induction k as [|c k IH]; intros s t Hk H; [simpl in H; discriminate|].
  simpl in Hk. apply andb_true_iff in Hk. destruct Hk as [Hc Hk].
  destruct s as [|d s]; simpl in *.
  - rewrite (keychar_lower_neq c c_dq Hc); auto.
  - destruct (byte_eqb (lower c) (lower d)); [|reflexivity].
    destruct (strip_key k s) as [[m r1]|] eqn:E; [discriminate|].
    rewrite (IH s t Hk E). reflexivity.
Qed.

(* ---- escaping ---- *)
Lemma unesc_cons c s : (byte_eqb c c_bs = false \/ first_is c_dq s = false) ->
  unesc (c :: s) = c :: unesc s.
Proof.
  intros H. destruct s as [|d s']; [reflexivity|].
  simpl. simpl in H. destruct (byte_eqb c c_bs); destruct (byte_eqb d c_dq); simpl; try reflexivity.
  destruct H; discriminate.
Qed.

Lemma first_is_esc q : first_is c_dq (esc q) = false.
Proof.
  destruct q as [|c q]; [reflexivity|]. simpl.
  destruct (byte_eqb c c_dq) eqn:E; simpl; [reflexivity | exact E].
Qed.

Lemma unesc_esc q : unesc (esc q) = q.
Proof.
  induction q as [|c q IH]; [reflexivity|].
  simpl esc. destruct (byte_eqb c c_dq) eqn:E.
  - apply byte_eqb_eq in E. subst c.
    change (unesc (c_bs :: c_dq :: esc q)) with (c_dq :: unesc (esc q)). rewrite IH. reflexivity.
  - rewrite unesc_cons by (right; apply first_is_esc). rewrite IH. reflexivity.
Qed.

Lemma esc_nil q : esc q = [] -> q = [].
Proof. destruct q as [|c q]; [reflexivity|]. simpl. destruct (byte_eqb c c_dq); discriminate. Qed.

(* ---- quoted values ---- *)
Lemma qscan_step ne c t :
  qscan ne (c :: t) =
    if byte_eqb c c_dq then (if ne && term_ok t then Some ([c], t) else None)
    else if byte_eqb c c_bs then
      match t with
      | d :: t' =>
        if byte_eqb d c_dq then
          match qscan true t' with
          | Some (m, r) => Some (c :: d :: m, r)
          | None => if term_ok t' then Some ([c; d], t') else None
          end
        else match qscan true t with Some (m, r) => Some (c :: m, r) | None => None end
      | [] => None
      end
    else match qscan true t with Some (m, r) => Some (c :: m, r) | None => None end.
Proof. reflexivity. Qed.

Lemma qscan_esc q : forall ne tail,
  ends_bs q = false -> (ne = true \/ q <> []) -> term_ok tail = true ->
  qscan ne (esc q ++ c_dq :: tail) = Some (esc q ++ [c_dq], tail).
Proof.
  induction q as [|c q IH]; intros ne tail Hbs Hne Ht.
  - simpl app. rewrite qscan_step. rewrite byte_eqb_refl. destruct Hne as [->|Hq]; [|congruence].
    rewrite Ht. reflexivity.
  - assert (Hbs' : ends_bs q = false).
    { simpl in Hbs. destruct q; [reflexivity | exact Hbs]. }
    specialize (IH true tail Hbs' (or_introl eq_refl) Ht).
    simpl esc. destruct (byte_eqb c c_dq) eqn:E.
    + apply byte_eqb_eq in E. subst c.
      change ((c_bs :: c_dq :: esc q) ++ c_dq :: tail) with (c_bs :: c_dq :: (esc q ++ c_dq :: tail)).
      rewrite qscan_step. change (byte_eqb c_bs c_dq) with false. change (byte_eqb c_bs c_bs) with true.
      cbv iota. rewrite byte_eqb_refl. rewrite IH. reflexivity.
    + change ((c :: esc q) ++ c_dq :: tail) with (c :: (esc q ++ c_dq :: tail)).
      rewrite qscan_step. rewrite E.
      destruct (byte_eqb c c_bs) eqn:E2.
      * (* a backslash: the next byte exists (no trailing backslash) and is not a bare quote *)
        destruct q as [|d q'].
        { apply byte_eqb_eq in E2. subst c. simpl in Hbs. discriminate. }
        assert (Hhd : exists x rest, esc (d :: q') ++ c_dq :: tail = x :: rest /\ byte_eqb x c_dq = false).
        { simpl. destruct (byte_eqb d c_dq) eqn:E3.
          - exists c_bs. eexists. split; [reflexivity|reflexivity].
          - exists d. eexists. split; [reflexivity|exact E3]. }
        destruct Hhd as (x & rest & Hx & Hxq).
        rewrite IH. rewrite Hx. rewrite Hxq. reflexivity.
      * rewrite IH. reflexivity.
Qed.

(* ---- embedded keys: a comma inside a quoted value does not start a match ---- *)
Lemma span_app_ext p s : forall a b r, span p s = (a, b) ->
  (b <> [] \/ match r with [] => True | c :: _ => p c = false end) ->
  span p (s ++ r) = (a, b ++ r).
Proof.
  induction s as [|c s IH]; simpl; intros a b r H Hr.
  - inversion H; subst. simpl. destruct Hr as [Hr|Hr]; [congruence|].
    destruct r as [|x r]; [reflexivity|]. simpl. rewrite Hr. reflexivity.
  - destruct (p c) eqn:E.
    + destruct (span p s) as [a' b'] eqn:E2. inversion H; subst.
      rewrite (IH a' b r eq_refl Hr). reflexivity.
    + inversion H; subst. reflexivity.
Qed.

Lemma match_at_noembed k b tail :
  key_ok k = true -> embeds_at k b = false -> match_at k (b ++ c_dq :: tail) = None.
Proof.
  intros Hk He. unfold embeds_at in He. unfold match_at.
  destruct (span is_ws b) as [w s1] eqn:Es.
  rewrite (span_app_ext is_ws b w s1 (c_dq :: tail) Es (or_intror ws_dq)).
  pose proof (key_ok_all k Hk) as Hall.
  destruct (strip_key k s1) as [[km s2]|] eqn:Ek.
  - rewrite (strip_key_app k s1 km s2 (c_dq :: tail) Ek). unfold after_key.
    destruct s2 as [|c s2].
    + simpl app. rewrite (span_nil_hd is_ws c_dq tail ws_dq).
      change (byte_eqb c_dq c_eq) with false. cbv iota.
      rewrite (term_none c_dq tail ws_dq eq_refl). reflexivity.
    + apply orb_false_iff in He. destruct He as [He Hc3]. apply orb_false_iff in He. destruct He as [Hc1 Hc2].
      simpl app. rewrite (span_nil_hd is_ws c _ Hc1). rewrite Hc2.
      rewrite (term_none c _ Hc1 Hc3). reflexivity.
  - rewrite (strip_key_none_dq k s1 tail Hall Ek). reflexivity.
Qed.

(* commas of x (followed by tail) at which the expression does not match *)
Fixpoint commas_miss (k x tail : bytes) : Prop :=
  match x with
  | [] => True
  | c :: t => (c = c_comma -> match_at k (t ++ tail) = None) /\ commas_miss k t tail
  end.

Lemma commas_miss_app k x1 : forall x2 tail,
  commas_miss k x1 (x2 ++ tail) -> commas_miss k x2 tail -> commas_miss k (x1 ++ x2) tail.
Proof.
  induction x1 as [|c x1 IH]; simpl; intros x2 tail H1 H2; [exact H2|].
  destruct H1 as [Ha Hb]. split.
  - intros E. rewrite <- app_assoc. exact (Ha E).
  - apply IH; assumption.
Qed.

Lemma commas_miss_nocomma k x tail :
  forallb (fun c => negb (byte_eqb c c_comma)) x = true -> commas_miss k x tail.
Proof.
  induction x as [|c x IH]; simpl; intros H; [exact I|].
  apply andb_true_iff in H. destruct H as [Hc Hx]. split; [|apply IH; exact Hx].
  intros E. subst c. rewrite byte_eqb_refl in Hc. discriminate.
Qed.

Lemma commas_miss_noembed k s tail :
  key_ok k = true -> noembed k s = true -> commas_miss k s (c_dq :: tail).
Proof.
  intros Hk. induction s as [|c s IH]; simpl; intros H; [exact I|].
  apply andb_true_iff in H. destruct H as [Hc Hs]. split; [|apply IH; exact Hs].
  intros E. subst c. rewrite byte_eqb_refl in Hc. apply negb_true_iff in Hc.
  apply match_at_noembed; assumption.
Qed.

Definition lift (x : bytes) (r : option (bytes * bytes * bytes * bytes)) :=
  match r with
  | Some (pre, mid, post, cap) => Some (x ++ pre, mid, post, cap)
  | None => None
  end.

Lemma find_comma_app k x : forall tail, commas_miss k x tail ->
  find_comma k (x ++ tail) = lift x (find_comma k tail).
Proof.
  induction x as [|c x IH]; simpl; intros tail H.
  - destruct (find_comma k tail) as [[[[pre mid] post] cap]|]; reflexivity.
  - destruct H as [Hc Hx]. rewrite (IH tail Hx).
    destruct (byte_eqb c c_comma) eqn:E.
    + apply byte_eqb_eq in E. rewrite (Hc E).
      destruct (find_comma k tail) as [[[[pre mid] post] cap]|]; reflexivity.
    + destruct (find_comma k tail) as [[[[pre mid] post] cap]|]; reflexivity.
Qed.
