(* decode_encode, part 2: statements *)
From Coq Require Import List NArith ZArith Lia Bool ZifyBool ZifyN ZifyNat.
From Falco Require Import Base.Res Base.Bytes Base.Utf8 Gen.CodecFrames Model.CodecAst Model.Codec
  Proofs.Utf8Proofs Proofs.CodecRT1.
Import ListNotations.
Local Open Scope N_scope.
Ltac Zify.zify_post_hook ::= Z.div_mod_to_equations.

Definition stmt_ty (t : N) : Prop :=
  is_ft t /\ is_expr_type t = false /\ t <> FT_ELSE_STATEMENT /\ t <> FT_SUBROUTINE_PARAMETER.

Ltac inv_bind :=
  repeat match goal with
  | H : OK _ = OK _ |- _ => inversion H; clear H; subst
  | H : bind ?r _ = OK _ |- _ =>
      lazymatch r with
      | OK _ => rewrite bind_OK in H
      | _ => let E := fresh "E" in destruct r eqn:E;
             [ rewrite bind_OK in H | exfalso; unfold bind in H; discriminate H .. ]
      end
  | H : match ?r with OK _ => _ | Err => _ | Crash => _ | OutOfFuel => _ end = OK _ |- _ =>
      lazymatch r with
      | OK _ => cbv beta iota in H
      | _ => let E := fresh "E" in destruct r eqn:E; try discriminate
      end
  end.

Ltac head_done :=
  eexists; eexists; split; [reflexivity | repeat split; first [reflexivity | discriminate]].

Lemma stmt_head s bs : enc_stmt s = OK bs ->
  exists t p, bs = enc_frame t p /\ stmt_ty t.
Proof.
  intros H.
  destruct s as [| | b | | | | |sub args| c | | | | | | i | | | | | | | ctl cases d | | | | | | | | name params ret b | |];
    try (cbn [enc_stmt] in H; inversion H; subst; head_done).
  - rewrite enc_block_eq in H. inv_bind. head_done.
  - destruct c. cbn [enc_stmt] in H. rewrite enc_cas_eq in H. inv_bind. head_done.
  - destruct i. cbn [enc_stmt] in H. rewrite enc_ifs_eq in H. inv_bind; head_done.
  - rewrite enc_switch_eq in H. inv_bind. head_done.
  - rewrite enc_sub_eq in H. inv_bind. head_done.
Qed.

Lemma fol_enc t p rs : stmt_ty t -> fol (enc_frame t p ++ rs).
Proof.
  intros (Hft & He & Hel & _). unfold fol. rewrite pty_enc by exact Hft. split; assumption.
Qed.
Lemma fol_end rs : fol (END_B ++ rs).
Proof. split; [reflexivity|discriminate]. Qed.
Lemma fol_fin rs : fol (FIN_B ++ rs).
Proof. split; [reflexivity|discriminate]. Qed.

Lemma enc_block_cons x xs pb : enc_block (x :: xs) = OK pb ->
  exists bx r, enc_stmt x = OK bx /\ enc_block xs = OK r /\ pb = bx ++ r.
Proof.
  intros H. change (enc_block (x :: xs)) with
    (match enc_stmt x with OK bx => do r <- enc_block xs; OK (bx ++ r) | Err => Crash | Crash => Crash | OutOfFuel => OutOfFuel end) in H.
  inv_bind. eauto.
Qed.

Lemma block_fol b pb rs : enc_block b = OK pb -> fol (pb ++ rs).
Proof.
  destruct b as [|x xs]; intros H.
  - inversion H. apply fol_end.
  - apply enc_block_cons in H as (bx & r & Hx & _ & ->).
    apply stmt_head in Hx as (t & p & -> & Ht). rewrite <- app_assoc. apply fol_enc; exact Ht.
Qed.

Lemma dec_stmts_S n st :
  dec_stmts (S n) st =
  nf st (fun f st => if ftype f =? FT_END then OK ([], st)
                     else if ftype f =? FT_FIN then Err
                     else do (s, st) <- dec_stmt n f st;
                          do (r, st) <- dec_stmts n st; OK (s :: r, st)).
Proof. reflexivity. Qed.

Lemma dec_anothers_S n st :
  dec_anothers (S n) st =
  nf st (fun f st => if ftype f =? FT_END then OK ([], st)
                     else if ftype f =? FT_FIN then Err
                     else if ftype f =? FT_IF_STATEMENT then
                       do (i, st) <- dec_ifs n st;
                       do (r, st) <- dec_anothers n st; OK (i :: r, st)
                     else Err).
Proof. reflexivity. Qed.

Lemma dec_cases_S n st :
  dec_cases (S n) st =
  nf st (fun f st => if ftype f =? FT_END then OK ([], st)
                     else if ftype f =? FT_FIN then Err
                     else if ftype f =? FT_CASE_STATEMENT then
                       do (c, st) <- dec_cas n st;
                       do (r, st) <- dec_cases n st; OK (c :: r, st)
                     else Err).
Proof. reflexivity. Qed.

Lemma opt_leaf_rt t o rs : is_ft t -> wf_ostr o -> (pty rs =? t) = false ->
  dec_opt_leaf t (st0 (opt (leaf t) o ++ rs)) = OK (o, st0 rs).
Proof.
  intros Ht Hw Hf. unfold dec_opt_leaf. destruct o as [s|]; unfold opt, wf_ostr in *; rewrite ?app_nil_l.
  - rewrite peek_is_leaf by exact Ht. rewrite N.eqb_refl. rewrite nf_leaf by assumption. reflexivity.
  - unfold peek_is. unfold pty in Hf. rewrite Hf. reflexivity.
Qed.

Definition SPEC_stmt (k : nat) : Prop :=
  forall s bs, (ssize s <= k)%nat -> wf_stmt s -> enc_stmt s = OK bs ->
  forall n rs, (ssize s < n)%nat -> fol rs ->
  nf (st0 (bs ++ rs)) (dec_stmt n) = OK (s, st0 rs).
Definition SPEC_ifs (k : nat) : Prop :=
  forall i bs, (isz i <= k)%nat -> wf_ifs i -> enc_ifs i = OK bs ->
  forall n rs, (isz i < n)%nat -> pty rs <> FT_ELSE_STATEMENT ->
  exists p, bs = enc_frame FT_IF_STATEMENT p /\ dec_ifs n (st0 (p ++ rs)) = OK (i, st0 rs).
Definition SPEC_cas (k : nat) : Prop :=
  forall c bs, (csz c <= k)%nat -> wf_cas c -> enc_cas c = OK bs ->
  forall n rs, (csz c < n)%nat -> (pty rs =? FT_BOOL_VALUE) = false ->
  exists p, bs = enc_frame FT_CASE_STATEMENT p /\ dec_cas n (st0 (p ++ rs)) = OK (c, st0 rs).

Lemma block_rt k : SPEC_stmt k ->
  forall b pb, (bsz b <= S k)%nat -> wf_block b -> enc_block b = OK pb ->
  forall n rs, (bsz b < n)%nat -> dec_stmts n (st0 (pb ++ rs)) = OK (b, st0 rs).
Proof.
  intros IH. induction b as [|x xs IHb]; intros pb Hs Hw He n rs Hn;
    (destruct n as [|n]; [simpl in Hn; lia|]); rewrite dec_stmts_S.
  - inversion He. rewrite nf_end. reflexivity.
  - apply enc_block_cons in He as (bx & r & Hx & Hr & ->).
    cbn [bsz wf_block] in *. fold bsz in *. fold wf_block in *.
    destruct (stmt_head _ _ Hx) as (t & p & -> & Ht).
    rewrite <- !app_assoc. rewrite nf_enc by apply Ht.
    destruct Ht as ((Hlt & Hne & Hnf) & Ht2). cbn [ftype].
    replace (t =? FT_END) with false by (symmetry; apply N.eqb_neq; exact Hne).
    replace (t =? FT_FIN) with false by (symmetry; apply N.eqb_neq; exact Hnf).
    rewrite <- (nf_enc t p (r ++ rs) (dec_stmt n)) by (repeat split; assumption).
    rewrite (IH x (enc_frame t p)) by (first [lia | tauto | assumption | eapply block_fol; eassumption]).
    rewrite bind_OK. rewrite IHb by (first [lia | tauto | assumption]). reflexivity.
Qed.

Lemma enc_anothers_cons x xs pa : enc_anothers (x :: xs) = OK pa ->
  exists bx r, enc_ifs x = OK bx /\ enc_anothers xs = OK r /\ pa = bx ++ r.
Proof.
  intros H. change (enc_anothers (x :: xs)) with
    (do bx <- enc_ifs x; do r <- enc_anothers xs; OK (bx ++ r)) in H.
  inv_bind. eauto.
Qed.
Lemma enc_cases_cons x xs pa : enc_cases (x :: xs) = OK pa ->
  exists bx r, enc_cas x = OK bx /\ enc_cases xs = OK r /\ pa = bx ++ r.
Proof.
  intros H. change (enc_cases (x :: xs)) with
    (do bx <- enc_cas x; do r <- enc_cases xs; OK (bx ++ r)) in H.
  inv_bind. eauto.
Qed.

Lemma ifs_head i bs : enc_ifs i = OK bs -> exists p, bs = enc_frame FT_IF_STATEMENT p.
Proof. destruct i. rewrite enc_ifs_eq. intros H. inv_bind; eexists; reflexivity. Qed.
Lemma cas_head c bs : enc_cas c = OK bs -> exists p, bs = enc_frame FT_CASE_STATEMENT p.
Proof. destruct c. rewrite enc_cas_eq. intros H. inv_bind; eexists; reflexivity. Qed.

Lemma anothers_pty l pa rs : enc_anothers l = OK pa -> pty (pa ++ END_B ++ rs) <> FT_ELSE_STATEMENT.
Proof.
  destruct l as [|x xs]; intros H.
  - inversion H. rewrite app_nil_l, pty_end. discriminate.
  - apply enc_anothers_cons in H as (bx & r & Hx & _ & ->). apply ifs_head in Hx as (p & ->).
    rewrite <- app_assoc. rewrite pty_enc by ft. discriminate.
Qed.
Lemma cases_pty l pa rs : enc_cases l = OK pa -> (pty (pa ++ END_B ++ rs) =? FT_BOOL_VALUE) = false.
Proof.
  destruct l as [|x xs]; intros H.
  - inversion H. rewrite app_nil_l, pty_end. reflexivity.
  - apply enc_cases_cons in H as (bx & r & Hx & _ & ->). apply cas_head in Hx as (p & ->).
    rewrite <- app_assoc. rewrite pty_enc by ft. reflexivity.
Qed.

Lemma anothers_rt k : SPEC_ifs k ->
  forall l pa, (asz l <= S k)%nat -> wf_anothers l -> enc_anothers l = OK pa ->
  forall n rs, (asz l < n)%nat -> dec_anothers n (st0 (pa ++ END_B ++ rs)) = OK (l, st0 rs).
Proof.
  intros IH. induction l as [|x xs IHl]; intros pa Hs Hw He n rs Hn;
    (destruct n as [|n]; [simpl in Hn; lia|]); rewrite dec_anothers_S.
  - inversion He. rewrite app_nil_l, nf_end. reflexivity.
  - apply enc_anothers_cons in He as (bx & r & Hx & Hr & ->).
    cbn [asz wf_anothers] in *. fold asz in *. fold wf_anothers in *.
    destruct (IH x bx ltac:(lia) (proj1 Hw) Hx n (r ++ END_B ++ rs) ltac:(lia)
                 (anothers_pty _ _ _ Hr)) as (p & -> & Hd).
    rewrite <- !app_assoc. rewrite nf_enc by ft. cbn [ftype]. pk.
    rewrite Hd. pk. rewrite IHl by (first [lia | tauto | assumption]). reflexivity.
Qed.

Lemma cases_rt k : SPEC_cas k ->
  forall l pa, (cssz l <= S k)%nat -> wf_cases l -> enc_cases l = OK pa ->
  forall n rs, (cssz l < n)%nat -> dec_cases n (st0 (pa ++ END_B ++ rs)) = OK (l, st0 rs).
Proof.
  intros IH. induction l as [|x xs IHl]; intros pa Hs Hw He n rs Hn;
    (destruct n as [|n]; [simpl in Hn; lia|]); rewrite dec_cases_S.
  - inversion He. rewrite app_nil_l, nf_end. reflexivity.
  - apply enc_cases_cons in He as (bx & r & Hx & Hr & ->).
    cbn [cssz wf_cases] in *. fold cssz in *. fold wf_cases in *.
    destruct (IH x bx ltac:(lia) (proj1 Hw) Hx n (r ++ END_B ++ rs) ltac:(lia)
                 (cases_pty _ _ _ Hr)) as (p & -> & Hd).
    rewrite <- !app_assoc. rewrite nf_enc by ft. cbn [ftype]. pk.
    rewrite Hd. pk. rewrite IHl by (first [lia | tauto | assumption]). reflexivity.
Qed.

Arguments dec_opt_expr : simpl never.
Arguments dec_opt_leaf : simpl never.
Arguments dec_cidrs : simpl never.
Arguments dec_bprops : simpl never.
Arguments dec_dprops : simpl never.
Arguments dec_tprops : simpl never.
Arguments dec_params : simpl never.
Arguments dec_kvs : simpl never.
Arguments dec_args : simpl never.
Arguments dec_expr : simpl never.
Arguments dec_infix : simpl never.
Arguments dec_cidr : simpl never.
Arguments peek_is : simpl never.
Arguments is_expr_type : simpl never.
Arguments enc_expr : simpl never.
Arguments flat_map : simpl never.

Lemma dec_ifs_S n st :
  dec_ifs (S n) st =
  do (kw, st) <- nf st (dec_leaf FT_STRING_VALUE);
  do (c, st) <- nf st (dec_expr n);
  if peek_is FT_BLOCK_STATEMENT st then
    let '(_, st) := next_frame st in
    do (csq, st) <- dec_stmts n st;
    do (another, st) <- dec_anothers n st;
    if peek_is FT_ELSE_STATEMENT st then
      let '(_, st) := next_frame st in
      if peek_is FT_BLOCK_STATEMENT st then
        let '(_, st) := next_frame st in
        do (alt, st) <- dec_stmts n st;
        OK (IfS kw c csq another (Some alt), st)
      else Err
    else OK (IfS kw c csq another None, st)
  else Err.
Proof. reflexivity. Qed.

Lemma dec_cas_S n st :
  dec_cas (S n) st =
  do (test, st) <- (if peek_is FT_INFIX_EXPRESSION st
                    then let '(_, st) := next_frame st in
                         do (i, st) <- dec_infix n st; OK (Some i, st)
                    else OK (None, st));
  do (b, st) <- dec_stmts n st;
  if peek_is FT_BOOL_VALUE st then
    do (ft, st) <- nf st dec_bool; OK (Cas test b ft, st)
  else OK (Cas test b false, st).
Proof. reflexivity. Qed.

Lemma peek_is_pty t rs : peek_is t (st0 rs) = (pty rs =? t).
Proof. reflexivity. Qed.

Lemma fm_cons {A B} (f : A -> list B) x l : flat_map f (x :: l) = f x ++ flat_map f l.
Proof. reflexivity. Qed.

Lemma not_expr_neq t x : is_expr_type t = false -> is_expr_type x = true -> (t =? x) = false.
Proof.
  intros H1 H2. apply N.eqb_neq. intros ->. congruence.
Qed.

Lemma stmt_group_rt : forall k, SPEC_stmt k /\ SPEC_ifs k /\ SPEC_cas k.
Proof.
  induction k as [|k (IHs & IHi & IHc)].
  { split; [|split]; intros x bs Hs; exfalso; destruct x; simpl in Hs; lia. }
  pose proof (block_rt k IHs) as Hb.
  pose proof (anothers_rt k IHi) as Ha.
  pose proof (cases_rt k IHc) as Hc.
  split; [|split].
  - intros s bs Hs Hw He n rs Hn [Hf1 Hf2]. destruct n as [|n]; [lia|].
    destruct s as [id op v|id op v| b | | | | |sub args| c |name ty v|code arg|f args|d|d| i |d|d|v|d|d|paren v
                  | ctl cases d |v|v|name cidrs|name props|name ty props|name|name| name params ret b |name ty props|];
      try (cbn [enc_stmt] in He; inversion He; subst bs; clear He;
           cbn [ssize wf_stmt] in *; rewrite nf_enc by ft; simpl; pk).
    all: try reflexivity.
    + (* block *)
      rewrite enc_block_eq in He. inv_bind. cbn [ssize wf_stmt] in *. fold bsz in *. fold wf_block in *.
      rewrite nf_enc by ft. simpl. rewrite (Hb b) by (first [lia | assumption]). reflexivity.
    + (* call *)
      destruct args as [|a args]; rewrite ?app_nil_l.
      * fold (pty rs). rewrite Hf1. reflexivity.
      * rewrite <- !app_assoc.
        assert (Hp : is_expr_type (ftype (peek_frame (st0 (flat_map enc_expr (a :: args) ++ END_B ++ rs)))) = true).
        { rewrite fm_cons, <- app_assoc. apply peek_expr. cbn [wf_exprs] in Hw; tauto. }
        rewrite Hp. rewrite args_rt by (first [lia | tauto]). reflexivity.
    + (* case *)
      cbn [enc_stmt ssize wf_stmt] in *.
      destruct (IHc c bs ltac:(lia) Hw He n rs ltac:(lia)) as (p & -> & Hd).
      { apply (not_expr_neq _ FT_BOOL_VALUE Hf1). reflexivity. }
      rewrite nf_enc by ft. simpl. rewrite Hd. reflexivity.
    + (* declare *) rewrite opt_expr_rt by (first [lia | tauto]). reflexivity.
    + (* error *)
      destruct Hw as (Hw1 & Hw2 & Hw3).
      rewrite opt_expr_rt; [| assumption | lia |].
      * pk. rewrite opt_expr_rt by (first [lia | tauto]). reflexivity.
      * intros ->. rewrite (Hw3 eq_refl). unfold opt. rewrite app_nil_l. exact Hf1.
    + (* funcall *) rewrite args_rt by (first [lia | tauto]). reflexivity.
    + (* if *)
      cbn [enc_stmt ssize wf_stmt] in *.
      destruct (IHi i bs ltac:(lia) Hw He n rs ltac:(lia) Hf2) as (p & -> & Hd).
      rewrite nf_enc by ft. simpl. rewrite Hd. reflexivity.
    + (* return *) rewrite opt_expr_rt by (first [lia | tauto]). reflexivity.
    + (* switch *)
      rewrite enc_switch_eq in He. inv_bind. cbn [ssize wf_stmt] in *. fold cssz in *. fold wf_cases in *.
      rewrite nf_enc by ft. simpl. pk.
      rewrite (Hc cases) by (first [lia | tauto | assumption]). pk.
      rewrite nf_int by (repeat split; first [apply Hw | reflexivity]). reflexivity.
    + rewrite cidrs_rt by (first [lia | tauto]). reflexivity.
    + rewrite bprops_rt by (first [lia | tauto]). reflexivity.
    + rewrite dprops_rt by (first [lia | tauto]). reflexivity.
    + (* sub *)
      rewrite enc_sub_eq in He. inv_bind. cbn [ssize wf_stmt] in *. fold bsz in *. fold wf_block in *.
      rewrite nf_enc by ft. simpl. pk.
      rewrite params_rt; [| tauto | lia |].
      * pk. unfold enc_ident. rewrite opt_leaf_rt; [| ft | tauto |].
        -- pk. rewrite next_frame_enc by ft. rewrite (Hb b) by (first [lia | tauto | assumption]). reflexivity.
        -- rewrite pty_enc by ft. reflexivity.
      * destruct ret; unfold opt; rewrite ?app_nil_l; unfold enc_ident, leaf; rewrite pty_enc by ft; reflexivity.
    + (* table *)
      rewrite opt_leaf_rt; [| ft | tauto |].
      * pk. rewrite tprops_rt by (first [lia | tauto]). reflexivity.
      * destruct props as [|[k0 v0] props]; cbn [flat_map]; rewrite ?app_nil_l.
        -- rewrite pty_end. reflexivity.
        -- rewrite fm_cons. unfold enc_tprop. rewrite <- app_assoc. rewrite pty_enc by ft. reflexivity.
  - (* ifs *)
    intros i bs Hs Hw He n rs Hn Hf. destruct i as [kw c csq another alt].
    rewrite enc_ifs_eq in He. cbn [isz wf_ifs] in *. fold bsz in *. fold wf_block in *.
    fold asz in *. fold wf_anothers in *.
    destruct Hw as (Hw1 & Hw2 & Hw3 & Hw4 & Hw5).
    destruct n as [|n]; [lia|].
    destruct alt as [alt|]; inv_bind; (eexists; split; [reflexivity|]); rewrite dec_ifs_S; pk.
    + rewrite next_frame_enc by ft. rewrite (Hb csq) by (first [lia | assumption]). pk.
      rewrite (Ha another) by (first [lia | assumption]). pk.
      rewrite next_frame_enc by ft. pk. rewrite next_frame_enc by ft.
      rewrite (Hb alt) by (first [lia | assumption]). reflexivity.
    + rewrite next_frame_enc by ft. rewrite (Hb csq) by (first [lia | assumption]). pk.
      rewrite (Ha another) by (first [lia | assumption]). pk.
      rewrite app_nil_l. rewrite peek_is_pty.
      replace (pty rs =? FT_ELSE_STATEMENT) with false by (symmetry; apply N.eqb_neq; exact Hf).
      reflexivity.
  - (* cas *)
    intros c bs Hs Hw He n rs Hn Hf. destruct c as [test b ft].
    rewrite enc_cas_eq in He. cbn [csz wf_cas] in *. fold bsz in *. fold wf_block in *.
    destruct Hw as (Hw1 & Hw2).
    destruct n as [|n]; [lia|].
    inv_bind. eexists; split; [reflexivity|]. rewrite dec_cas_S.
    assert (Htail : forall st, (if ft then enc_bool true else []) ++ rs = st ->
              (if peek_is FT_BOOL_VALUE (st0 st)
               then do (ft0, st1) <- nf (st0 st) dec_bool; OK (Cas test b ft0, st1)
               else OK (Cas test b false, st0 st)) = OK (Cas test b ft, st0 rs)).
    { intros st <-. destruct ft.
      - pk. reflexivity.
      - rewrite app_nil_l. rewrite peek_is_pty, Hf. reflexivity. }
    destruct test as [[[l op] r]|]; unfold opt; rewrite ?app_nil_l.
    + unfold enc_infix. pk. rewrite next_frame_enc by ft. pk.
      rewrite infix_rt by (first [assumption | unfold isize in *; lia]). pk.
      rewrite (Hb b) by (first [lia | assumption]). pk. apply Htail. reflexivity.
    + rewrite <- !app_assoc. rewrite peek_is_pty.
      match goal with E : enc_block b = OK ?a |- _ =>
        pose proof (proj1 (block_fol b a ((if ft then enc_bool true else []) ++ rs) E)) as Hfb end.
      rewrite (not_expr_neq _ FT_INFIX_EXPRESSION Hfb eq_refl).
      pk. rewrite (Hb b) by (first [lia | assumption]). pk. apply Htail. reflexivity.
Qed.

(* ---------- top level ---------- *)
Definition tsz : list stmt -> nat :=
  fix go (l : list stmt) : nat := match l with [] => 1%nat | x :: xs => (2 + ssize x + go xs)%nat end.

Lemma dec_top_S n st :
  dec_top (S n) st =
  nf st (fun f st => if ftype f =? FT_FIN then OK []
                     else do (s, st) <- dec_stmt n f st; do r <- dec_top n st; OK (s :: r)).
Proof. reflexivity. Qed.

Lemma enc_top_cons x xs bs : enc_stmts_top (x :: xs) = OK bs ->
  exists bx r, enc_stmt x = OK bx /\ enc_stmts_top xs = OK r /\ bs = bx ++ r.
Proof.
  intros H. change (enc_stmts_top (x :: xs)) with
    (do bx <- enc_stmt x; do r <- enc_stmts_top xs; OK (bx ++ r)) in H.
  inv_bind. eauto.
Qed.

Lemma top_fol l r : enc_stmts_top l = OK r -> fol r.
Proof.
  destruct l as [|x xs]; intros H.
  - inversion H. apply (fol_fin []).
  - apply enc_top_cons in H as (bx & r' & Hx & _ & ->).
    apply stmt_head in Hx as (t & p & -> & Ht). apply fol_enc; exact Ht.
Qed.

Lemma top_rt : forall ss bs, wf_block ss -> enc_stmts_top ss = OK bs ->
  forall n, (tsz ss < n)%nat -> dec_top n (st0 bs) = OK ss.
Proof.
  induction ss as [|x xs IH]; intros bs Hw He n Hn; (destruct n as [|n]; [simpl in Hn; lia|]);
    rewrite dec_top_S.
  - inversion He. reflexivity.
  - apply enc_top_cons in He as (bx & r & Hx & Hr & ->).
    cbn [tsz wf_block] in *. fold tsz in *. fold wf_block in *.
    destruct (stmt_head _ _ Hx) as (t & p & -> & Ht).
    rewrite nf_enc by apply Ht. destruct Ht as ((Hlt & Hne & Hnf) & Ht2). cbn [ftype].
    replace (t =? FT_FIN) with false by (symmetry; apply N.eqb_neq; exact Hnf).
    rewrite <- (nf_enc t p r (dec_stmt n)) by (repeat split; assumption).
    destruct (stmt_group_rt (ssize x)) as (Hs & _ & _).
    rewrite (Hs x (enc_frame t p)) by (first [lia | tauto | assumption | eapply top_fol; eassumption]).
    rewrite bind_OK. rewrite (IH r) by (first [lia | tauto | assumption]). reflexivity.
Qed.
