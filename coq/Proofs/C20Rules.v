(* C20 - header rules (set / delete, ignore_if_set) and the content type of a response object,
   end to end through the lexer, pump and parser models in SNIPPET mode. *)
From Coq Require Import List NArith ZArith Bool Lia Arith ZifyBool ZifyN ZifyNat.
From Coq Require Import Strings.Byte.
From Falco Require Import Base.Res Base.Bytes Base.Utf8 Proofs.Utf8Proofs Gen.Tokens Model.Lex Model.Pump
  Proofs.LexProgress Proofs.C20Classes Proofs.C20Lex Proofs.C20Chain Proofs.C20Table Proofs.C20Acl Proofs.C20Backend.
From Falco Require Model.Escape Model.Rules Proofs.EscapeProofs Gen.TokenTypes Model.ParseBase Model.ParseLit Model.Ast Model.Yield
  Model.ParseDecl Model.LexParse Proofs.ParsePratt Proofs.ParseProgram Proofs.ParseProgram2 Proofs.ParseProgram3 Proofs.ParseProgram6.
Import ListNotations.
Local Open Scope N_scope.
Module R := Rules.

(* ---- more token steps ---- *)
Lemma cstep_lparen after : cstep [x28] after (T_LEFT_PAREN, [40], 0).
Proof. single_tac x28. Qed.
Lemma cstep_rparen after : cstep [x29] after (T_RIGHT_PAREN, [41], 0).
Proof. single_tac x29. Qed.

Lemma cstep_bang_gen c t : b2n c <> 61 -> b2n c <> 126 -> cstep [x21] (c :: t) (T_NOT, [33], 0).
Proof.
  intros H1 H2 n st Hab Hn. cbn [app] in Hab.
  assert (Ha : ascii x21) by (unfold ascii; cbn; lia).
  destruct (ab_ascii st x21 _ Hab Ha) as [Hch _].
  pose proof (peek_char_at st x21 c t Hab Ha) as Hpk.
  unfold lex_char. rewrite Hch. cbn. unfold lex_bang. rewrite Hpk.
  replace (b2n c =? 61) with false by lia. replace (b2n c =? 126) with false by lia.
  unfold single, finish. rewrite Hch. cbn.
  eexists _, _. split; [reflexivity|]. split; [reflexivity|]. exact (ab_read_ascii st x21 _ Hab Ha).
Qed.

Lemma id_end_rparen t : id_end (x29 :: t).
Proof. cbn. repeat split; try reflexivity; try (unfold ascii; cbn; lia); cbn; lia. Qed.

(* ---- the source of a set rule: what the theorem covers ---- *)
Inductive srcdesc :=
| SVar (name : list byte)                 (* a variable *)
| SLit (qs : str) (val : list byte).      (* a string literal: runes between the quotes, decoded value *)

Definition src_text (d : srcdesc) : list byte :=
  match d with SVar name => name | SLit qs _ => x22 :: enc_all qs ++ [x22] end.
Definition src_ok (d : srcdesc) : Prop :=
  match d with
  | SVar name => ident_name name
  | SLit qs val => forallb body_ok qs = true /\ ParseLit.decode_escapes (enc_all qs) = PB.POK val
  end.
Definition src_spec (d : srcdesc) : tokspec :=
  match d with SVar name => Exact (T_IDENT, map b2n name, 0) | SLit qs _ => Exact (T_STRING, qs, 2) end.
Definition src_expr (d : srcdesc) : Ast.expr :=
  match d with
  | SVar name => Ast.EIdent (tk_ident name)
  | SLit qs val => Ast.EString (PB.Tok TT.T_STRING (enc_all qs) 2) val
  end.

Inductive actdesc := DSet (d : srcdesc) | DDelete.
Definition act_of (a : actdesc) : R.action := match a with DSet d => R.RSet (src_text d) | DDelete => R.RDelete end.
Definition act_ok (a : actdesc) : Prop := match a with DSet d => src_ok d | DDelete => True end.

Definition b_set : list byte := [x73; x65; x74].
Definition b_unset : list byte := [x75; x6e; x73; x65; x74].
Definition b_if : list byte := [x69; x66].

Definition stmt_specs (target : list byte) (a : actdesc) : list tokspec :=
  match a with
  | DSet d => [Exact (T_SET, map b2n b_set, 0); Exact (T_IDENT, map b2n target, 0); Exact p_assign; src_spec d; Exact p_semi]
  | DDelete => [Exact (T_UNSET, map b2n b_unset, 0); Exact (T_IDENT, map b2n target, 0); Exact p_semi]
  end.

Lemma spec_ok_src d : spec_ok (src_spec d) = true.
Proof. destruct d; reflexivity. Qed.

Lemma chain_stmt ws target a t specs : forallb blank ws = true -> ident_name target -> act_ok a ->
  chain (x0a :: t) (map spec_pred specs) ->
  chain (ws ++ R.stmt_text target (act_of a) ++ x0a :: t) (map spec_pred (stmt_specs target a ++ specs)).
Proof.
  intros Hws [Hn Hl] Ha Hc. destruct a as [d|]; unfold R.stmt_text, act_of, stmt_specs; cbn [app].
  - eapply (chain_spec_eq _ (ws ++ b_set) (x20 :: _)); [seg_eq | | reflexivity | |].
    { destruct ws; discriminate. }
    { exact (step_ident ws b_set _ Hws eq_refl (id_end_space _)). }
    eapply (chain_spec_eq _ ([x20] ++ target) (x20 :: _)); [seg_eq | discriminate | reflexivity | |].
    { cbn [spec_pred]. rewrite <- Hl. apply step_ident; [reflexivity | exact Hn | apply id_end_space]. }
    eapply (chain_spec_eq _ ([x20] ++ [x3d]) (x20 :: _)); [seg_eq | discriminate | reflexivity | |].
    { apply step_assign; [reflexivity | cbn; lia]. }
    destruct d as [name|qs val]; cbn [src_text src_spec src_ok act_ok] in *.
    + destruct Ha as [Hn2 Hl2].
      eapply (chain_spec_eq _ ([x20] ++ name) (x3b :: _)); [seg_eq | discriminate | reflexivity | |].
      { cbn [spec_pred]. rewrite <- Hl2. apply step_ident; [reflexivity | exact Hn2 | apply id_end_semi]. }
      eapply (chain_spec_eq _ ([] ++ [x3b])); [seg_eq | discriminate | reflexivity | apply step_semi; reflexivity|].
      exact Hc.
    + destruct Ha as [Hb _].
      eapply (chain_spec_eq _ ([x20] ++ x22 :: enc_all qs ++ [x22])); [seg_eq | discriminate | reflexivity | |].
      { apply step_string; [reflexivity | exact Hb]. }
      eapply (chain_spec_eq _ ([] ++ [x3b])); [seg_eq | discriminate | reflexivity | apply step_semi; reflexivity|].
      exact Hc.
  - eapply (chain_spec_eq _ (ws ++ b_unset) (x20 :: _)); [seg_eq | | reflexivity | |].
    { destruct ws; discriminate. }
    { exact (step_ident ws b_unset _ Hws eq_refl (id_end_space _)). }
    eapply (chain_spec_eq _ ([x20] ++ target) (x3b :: _)); [seg_eq | discriminate | reflexivity | |].
    { cbn [spec_pred]. rewrite <- Hl. apply step_ident; [reflexivity | exact Hn | apply id_end_semi]. }
    eapply (chain_spec_eq _ ([] ++ [x3b])); [seg_eq | discriminate | reflexivity | apply step_semi; reflexivity|].
    exact Hc.
Qed.

(* ---- the whole rule ---- *)
Definition p_lparen : ptok := (T_LEFT_PAREN, [40], 0).
Definition p_rparen : ptok := (T_RIGHT_PAREN, [41], 0).
Definition p_not : ptok := (T_NOT, [33], 0).

Definition head_specs (target : list byte) : list tokspec :=
  [Exact (T_IF, map b2n b_if, 0); Exact p_lparen; Exact p_not; Exact (T_IDENT, map b2n target, 0); Exact p_rparen; Exact p_lbrace].

Definition rule_specs (target : list byte) (ignore : bool) (a : actdesc) : list tokspec :=
  [Exact p_lf; Exact p_lf] ++ (if ignore then head_specs target else []) ++ [Exact p_lf] ++ stmt_specs target a ++
  [Exact p_lf] ++ (if ignore then [Exact p_rbrace] else []) ++ [Exact p_lf; Exact p_lf].

Lemma chain_lf_lf : chain [x0a; x0a] (map spec_pred [Exact p_lf; Exact p_lf]).
Proof.
  eapply (chain_spec_eq _ [x0a]); [seg_eq | discriminate | reflexivity | apply step_lf|].
  eapply (chain_spec_eq _ [x0a] []); [seg_eq | discriminate | reflexivity | apply step_lf|].
  apply ch_nil.
Qed.

Lemma name_first_letter target : name_ok target = true -> exists c r, target = c :: r /\ letterb c = true.
Proof.
  unfold name_ok. intros H. apply andb_true_iff in H. destruct H as [H _]. apply andb_true_iff in H. destruct H as [_ H].
  destruct target as [|c r]; [discriminate|]. exists c, r. split; [reflexivity | exact H].
Qed.

Theorem chain_rule target (ignore : bool) a : ident_name target -> act_ok a ->
  chain ([x0a; x0a] ++ (if ignore then R.if_head target else []) ++ [x0a] ++ R.stmt_text target (act_of a) ++ [x0a] ++
         (if ignore then [x7d] else []) ++ [x0a; x0a])
        (map spec_pred (rule_specs target ignore a)).
Proof.
  intros Ht Ha. pose proof Ht as [Hn Hl]. unfold rule_specs.
  assert (Htail : chain (x0a :: (if ignore then [x7d] else []) ++ [x0a; x0a])
                        (map spec_pred ([Exact p_lf] ++ (if ignore then [Exact p_rbrace] else []) ++ [Exact p_lf; Exact p_lf]))).
  { cbn [app]. eapply (chain_spec_eq _ [x0a]); [seg_eq | discriminate | reflexivity | apply step_lf|].
    destruct ignore; cbn [app]; [|exact chain_lf_lf].
    eapply (chain_spec_eq _ ([] ++ [x7d])); [seg_eq | discriminate | reflexivity | apply step_rbrace; reflexivity|].
    exact chain_lf_lf. }
  pose proof (chain_stmt [] target a _ _ eq_refl Ht Ha Htail) as Hs. cbn [app] in Hs.
  assert (Hbody : chain (x0a :: R.stmt_text target (act_of a) ++ [x0a] ++ (if ignore then [x7d] else []) ++ [x0a; x0a])
                        (map spec_pred ([Exact p_lf] ++ stmt_specs target a ++ [Exact p_lf] ++ (if ignore then [Exact p_rbrace] else []) ++ [Exact p_lf; Exact p_lf]))).
  { cbn [app]. eapply (chain_spec_eq _ [x0a]); [seg_eq | discriminate | reflexivity | apply step_lf|]. exact Hs. }
  cbn [app].
  eapply (chain_spec_eq _ [x0a]); [seg_eq | discriminate | reflexivity | apply step_lf|].
  eapply (chain_spec_eq _ [x0a]); [seg_eq | discriminate | reflexivity | apply step_lf|].
  destruct ignore; cbn [app]; [|exact Hbody].
  destruct (name_first_letter target Hn) as (c & r & -> & Hc).
  unfold R.if_head, head_specs. cbn [app]. rewrite <- !app_assoc. cbn [app].
  eapply (chain_spec_eq _ ([] ++ b_if) (x20 :: _)); [seg_eq | discriminate | reflexivity | |].
  { exact (step_ident [] b_if _ eq_refl eq_refl (id_end_space _)). }
  eapply (chain_spec_eq _ ([x20] ++ [x28])); [seg_eq | discriminate | reflexivity | |].
  { apply (step_of_cstep [x20] [x28]); [reflexivity | cbn; starter_tac | apply cstep_lparen]. }
  eapply (chain_spec_eq _ [x21] (c :: _)); [seg_eq | discriminate | reflexivity | |].
  { apply (step_of_cstep [] [x21] (c :: _)); [reflexivity | cbn; starter_tac|].
    unfold letterb in Hc. cls in Hc. apply cstep_bang_gen; lia. }
  eapply (chain_spec_eq _ ([] ++ c :: r) (x29 :: _)); [seg_eq | discriminate | reflexivity | |].
  { cbn [spec_pred]. rewrite <- Hl. apply step_ident; [reflexivity | exact Hn | apply id_end_rparen]. }
  eapply (chain_spec_eq _ ([] ++ [x29])); [seg_eq | discriminate | reflexivity | |].
  { apply (step_of_cstep [] [x29]); [reflexivity | cbn; starter_tac | apply cstep_rparen]. }
  eapply (chain_spec_eq _ ([x20] ++ [x7b]) (x0a :: _)); [seg_eq | discriminate | reflexivity | |].
  { apply step_lbrace; [reflexivity | reflexivity | cbn; lia]. }
  exact Hbody.
Qed.

(* ---- the parser side ---- *)
Definition tk_set : PB.token := PB.Tok TT.T_SET b_set 0.
Definition tk_unset : PB.token := PB.Tok TT.T_UNSET b_unset 0.
Definition tk_if : PB.token := PB.Tok TT.T_IF b_if 0.
Definition tk_lparen : PB.token := PB.Tok TT.T_LEFT_PAREN [x28] 0.
Definition tk_rparen : PB.token := PB.Tok TT.T_RIGHT_PAREN [x29] 0.

Definition rule_stmt (target : list byte) (a : actdesc) : Ast.stmt :=
  match a with
  | DSet d => Ast.SSet tk_set (tk_ident target) tk_assign (src_expr d) tk_semi
  | DDelete => Ast.SUnset tk_unset (tk_ident target) tk_semi
  end.
Definition rule_ast (target : list byte) (ignore : bool) (a : actdesc) : list Ast.stmt :=
  if ignore then
    [Ast.SIf tk_if tk_lparen (Ast.EPrefix tk_not (Ast.EIdent (tk_ident target))) tk_rparen tk_lbrace
             [rule_stmt target a] tk_rbrace [] None]
  else [rule_stmt target a].

Lemma exacts_stmt target a rest : name_ok target = true -> act_ok a ->
  map pconv (exacts (stmt_specs target a ++ rest)) = Yield.ystmt (rule_stmt target a) ++ map pconv (exacts rest).
Proof.
  intros Hn Ha. destruct a as [[name|qs val]|]; unfold stmt_specs, rule_stmt, src_spec, src_expr; cbn [app];
    rewrite !exacts_keep by reflexivity; cbn [map Yield.ystmt Yield.yexpr app].
  - destruct Ha as [Hn2 _].
    rewrite (pconv_ascii _ b_set _ (ascii_const b_set eq_refl)), (pconv_ascii _ target _ (name_ascii _ Hn)),
            (pconv_ascii _ name _ (name_ascii _ Hn2)). reflexivity.
  - rewrite (pconv_ascii _ b_set _ (ascii_const b_set eq_refl)), (pconv_ascii _ target _ (name_ascii _ Hn)). reflexivity.
  - rewrite (pconv_ascii _ b_unset _ (ascii_const b_unset eq_refl)), (pconv_ascii _ target _ (name_ascii _ Hn)). reflexivity.
Qed.

Lemma ptoks_rule target ignore a : name_ok target = true -> act_ok a ->
  map pconv (exacts (rule_specs target ignore a)) = flat_map Yield.ystmt (rule_ast target ignore a).
Proof.
  intros Hn Ha. unfold rule_specs, rule_ast. destruct ignore; cbn [app].
  - unfold head_specs. cbn [app]. rewrite !exacts_lf, !exacts_keep by reflexivity. rewrite exacts_lf. cbn [map].
    rewrite (exacts_stmt target a _ Hn Ha). cbn [app]. rewrite exacts_lf, exacts_keep by reflexivity. rewrite !exacts_lf.
    cbn [map flat_map Yield.ystmt Yield.yexpr Yield.yelif app exacts]. rewrite !app_nil_r.
    rewrite (pconv_ascii _ b_if _ (ascii_const b_if eq_refl)), (pconv_ascii _ target _ (name_ascii _ Hn)).
    rewrite <- ?app_assoc. reflexivity.
  - rewrite !exacts_lf. rewrite (exacts_stmt target a _ Hn Ha). cbn [app]. rewrite !exacts_lf.
    cbn [exacts map flat_map]. reflexivity.
Qed.

Lemma src_canon fok d : src_ok d -> ParseProgram.cexpr fok (src_expr d).
Proof.
  destruct d as [name|qs val]; intros H; unfold ParseProgram.cexpr, src_expr; cbn [ParsePratt.canon ParsePratt.minprec].
  - split; [reflexivity | reflexivity].
  - destruct H as [_ Hd]. split; [|reflexivity]. split; [reflexivity|].
    unfold ParsePratt.string_value. cbn [PB.off PB.lit]. rewrite Hd. reflexivity.
Qed.

Lemma stmt_canon fok target a nx : act_ok a -> ParseProgram3.cstmt fok (rule_stmt target a) nx.
Proof.
  intros Ha. apply ParseProgram3.c_simple. destruct a as [d|]; cbn [rule_stmt ParseProgram2.csimple].
  - split; [reflexivity|]. split; [reflexivity|]. split; [reflexivity|]. split; [apply src_canon; exact Ha | reflexivity].
  - repeat split; reflexivity.
Qed.

Lemma rule_canonical fok target ignore a : act_ok a -> ParseProgram6.csnip fok (rule_ast target ignore a).
Proof.
  intros Ha. unfold rule_ast. destruct ignore; cbn [ParseProgram6.csnip]; (split; [|exact I]).
  - apply ParseProgram3.c_if; try reflexivity.
    + unfold ParseProgram.cexpr. cbn [ParsePratt.canon ParsePratt.minprec]. repeat split; reflexivity.
    + apply ParseProgram3.cb_cons; [apply stmt_canon; exact Ha | apply ParseProgram3.cb_nil; reflexivity].
    + apply ParseProgram3.cc_none. intros [H|[H|H]]; discriminate H.
  - apply stmt_canon. exact Ha.
Qed.

(* a header rule (set / delete, with or without ignore_if_set) parses, as a snippet, to exactly the
   intended statement(s) *)
Theorem rule_parses_real fok ty dest ignore a :
  ident_name (R.target_of ty dest) -> act_ok a ->
  LexParse.parse_source fok LexParse.MSnippet (R.render_rule ty dest ignore (act_of a)) =
  PB.POK (Ast.Vcl (rule_ast (R.target_of ty dest) ignore a) true).
Proof.
  intros Ht Ha. unfold R.render_rule. cbv zeta. set (target := R.target_of ty dest) in *.
  destruct (ptoks_of_specs _ _ (chain_rule target ignore a Ht Ha)) as (ms & Hp & HT).
  { unfold rule_specs, head_specs. rewrite !forallb_app. destruct ignore; destruct a as [[|]|]; reflexivity. }
  unfold LexParse.parse_source. rewrite Hp. unfold LexParse.parse_mode.
  rewrite HT, (ptoks_rule target ignore a (proj1 Ht) Ha).
  apply ParseProgram6.snippet_roundtrip. apply rule_canonical. exact Ha.
Qed.

(* the content type of a response object: any NUL-free UTF-8 text *)
Theorem content_type_roundtrip fok ct : EP.text_ok ct ->
  LexParse.parse_source fok LexParse.MSnippet (R.render_content_type ct) =
  PB.POK (Ast.Vcl [Ast.SSet tk_set (tk_ident R.ct_target) tk_assign (Ast.EString (tk_string ct) ct) tk_semi] true).
Proof.
  intros Hct. destruct Hct as [H1 H2].
  set (d := SLit (qrunes ct) ct).
  assert (Hd : src_ok d).
  { split; [apply qrunes_body; split; assumption|]. rewrite <- (quote_runes ct (conj H1 H2)). apply pdecode_escape; assumption. }
  assert (Htxt : R.render_content_type ct = R.stmt_text R.ct_target (act_of (DSet d))).
  { unfold R.render_content_type, act_of, d, src_text. rewrite (quote_runes ct (conj H1 H2)). reflexivity. }
  assert (Hct : ident_name R.ct_target) by (split; reflexivity).
  assert (Hch : chain (R.render_content_type ct) (map spec_pred (stmt_specs R.ct_target (DSet d)))).
  { rewrite Htxt.
    pose proof (chain_stmt [] R.ct_target (DSet d) [] [Exact p_lf] eq_refl Hct Hd) as Hs.
    (* the statement alone: no line feed behind it - redo the last step against the end of the text *)
    clear Hs. unfold R.stmt_text, act_of, stmt_specs, d, src_text, src_spec. cbn [app].
    eapply (chain_spec_eq _ ([] ++ b_set) (x20 :: _)); [seg_eq | discriminate | reflexivity | |].
    { exact (step_ident [] b_set _ eq_refl eq_refl (id_end_space _)). }
    eapply (chain_spec_eq _ ([x20] ++ R.ct_target) (x20 :: _)); [seg_eq | discriminate | reflexivity | |].
    { exact (step_ident [x20] R.ct_target _ eq_refl eq_refl (id_end_space _)). }
    eapply (chain_spec_eq _ ([x20] ++ [x3d]) (x20 :: _)); [seg_eq | discriminate | reflexivity | |].
    { apply step_assign; [reflexivity | cbn; lia]. }
    eapply (chain_spec_eq _ ([x20] ++ x22 :: enc_all (qrunes ct) ++ [x22])); [seg_eq | discriminate | reflexivity | |].
    { apply step_string; [reflexivity | exact (proj1 Hd)]. }
    eapply (chain_spec_eq _ ([] ++ [x3b]) []); [seg_eq | discriminate | reflexivity | apply step_semi; reflexivity|].
    apply ch_nil. }
  destruct (ptoks_of_specs _ _ Hch) as (ms & Hp & HT); [reflexivity|].
  unfold LexParse.parse_source. rewrite Hp. unfold LexParse.parse_mode. rewrite HT.
  pose proof (exacts_stmt R.ct_target (DSet d) [] eq_refl Hd) as He. rewrite app_nil_r in He. rewrite He.
  cbn [exacts map]. rewrite app_nil_r.
  pose proof (ParseProgram6.snippet_roundtrip fok [rule_stmt R.ct_target (DSet d)]) as Rt.
  cbn [flat_map] in Rt. rewrite app_nil_r in Rt. rewrite Rt.
  - unfold rule_stmt, src_expr, d, tk_string. rewrite <- (quote_runes ct (conj H1 H2)). reflexivity.
  - cbn [ParseProgram6.csnip]. split; [apply stmt_canon; exact Hd | exact I].
Qed.

(* ---- examples ---- *)
Definition ex_dest : list byte := [x68; x74; x74; x70; x2e; x58; x2d; x41].   (* http.X-A *)

(* request rule, ignore_if_set, set from the literal v between double quotes:
   if (!req.http.X-A) { set req.http.X-A = DQ v DQ; } *)
Example rule_example :
  LexParse.parse_source (fun _ => true) LexParse.MSnippet (R.render_rule 1 ex_dest true (R.RSet [x22; x76; x22])) =
  PB.POK (Ast.Vcl (rule_ast (R.target_of 1 ex_dest) true (DSet (SLit [118] [x76]))) true).
Proof.
  apply (rule_parses_real (fun _ => true) 1 ex_dest true (DSet (SLit [118] [x76]))).
  - split; reflexivity.
  - split; reflexivity.
Qed.

(* response rule, delete:  unset resp.http.X-A; *)
Example rule_delete_example :
  LexParse.parse_source (fun _ => true) LexParse.MSnippet (R.render_rule 3 ex_dest false R.RDelete) =
  PB.POK (Ast.Vcl [Ast.SUnset tk_unset (tk_ident (R.target_of 3 ex_dest)) tk_semi] true).
Proof. apply (rule_parses_real (fun _ => true) 3 ex_dest false DDelete); [split; reflexivity | exact I]. Qed.

(* content type with a double quote and a percent sign *)
Example content_type_example :
  let ct := [x74; x2f; x68; x3b; x20; x78; x3d; x22; x79; x22; x25] in
  LexParse.parse_source (fun _ => true) LexParse.MSnippet (R.render_content_type ct) =
  PB.POK (Ast.Vcl [Ast.SSet tk_set (tk_ident R.ct_target) tk_assign (Ast.EString (tk_string ct) ct) tk_semi] true).
Proof.
  cbv zeta. apply content_type_roundtrip. split.
  - unfold EP.no_nul. intros H. repeat (destruct H as [H|H]; [discriminate H|]). exact H.
  - exists [116; 47; 104; 59; 32; 120; 61; 34; 121; 34; 37]. split; vm_compute; reflexivity.
Qed.

(* ---- the body of a response object: the delimiter the helper chooses cannot be closed by the body ---- *)
Lemma find_delim_spec fuel : forall k s d, R.find_delim fuel k s = Some d ->
  R.contains (R.closer d) s = false /\ exists j, d = R.delim j.
Proof.
  induction fuel as [|f IH]; intros k s d H; [discriminate|]. cbn [R.find_delim] in H.
  destruct (R.contains (R.closer (R.delim k)) s) eqn:E.
  - exact (IH _ _ _ H).
  - injection H as <-. split; [exact E | exists k; reflexivity].
Qed.

Theorem longstring_delimiter_safe s t : R.longstring s = Some t ->
  exists d, t = [x7b] ++ d ++ [x22] ++ s ++ [x22] ++ d ++ [x7d] /\ R.contains (R.closer d) s = false /\ exists j, d = R.delim j.
Proof.
  unfold R.longstring. destruct (R.find_delim (length s + 2) 0 s) as [d|] eqn:E; [|discriminate].
  intros H. injection H as <-. exists d. split; [reflexivity|]. exact (find_delim_spec _ _ _ _ E).
Qed.

(* hello DQ right-brace: the empty delimiter would be closed, EOS0 is chosen *)
Example longstring_example :
  R.longstring [x68; x69; x22; x7d] = Some [x7b; x45; x4f; x53; x30; x22; x68; x69; x22; x7d; x22; x45; x4f; x53; x30; x7d].
Proof. vm_compute. reflexivity. Qed.

(* response object: what is proved (content type end to end; the body's delimiter) *)
Theorem response_object_roundtrip_partial fok ct body t : EP.text_ok ct -> R.longstring body = Some t ->
  LexParse.parse_source fok LexParse.MSnippet (R.render_content_type ct) =
    PB.POK (Ast.Vcl [Ast.SSet tk_set (tk_ident R.ct_target) tk_assign (Ast.EString (tk_string ct) ct) tk_semi] true) /\
  exists d, t = [x7b] ++ d ++ [x22] ++ body ++ [x22] ++ d ++ [x7d] /\ R.contains (R.closer d) body = false.
Proof.
  intros Hct Hl. split; [apply content_type_roundtrip; exact Hct|].
  destruct (longstring_delimiter_safe body t Hl) as (d & A & B & _). exists d. split; assumption.
Qed.
