(* program_roundtrip, part 1: canonical statements (non-recursive kinds) parse back to themselves.
   A statement function is entered with cur = first token of the statement; on success cur is its
   last token.  Results are stated up to prevToken of the returned state ([okst]): the next
   statement starts with NextToken, which overwrites it. *)
From Coq Require Import String.
From Coq Require Import List NArith ZArith Bool Lia.
From Falco Require Import Base.Bytes Gen.TokenTypes Model.ParseKinds Gen.ParserTables
  Model.ParseBase Model.Ast Model.ParseLit Model.ParseExpr Model.ParseStmt Model.Yield
  Proofs.ParseTables Proofs.ParseExprYield Proofs.ParseExprMono Proofs.ParseExprTotal
  Proofs.ParsePratt Proofs.ParseRoundtrip.
Import ListNotations.
Local Open Scope parse_scope.

Definition okst {A} (r : pres (A * pstate)) (a : A) (l : list token) : Prop :=
  exists pv', r = POK (a, St pv' l).

Definition lastt (l : list token) : token := last l eof_tok.

(* ---------- single steps on explicit states *)
Lemma expect_cons pv c x r t : typ x = t ->
  expect (St pv (c :: x :: r)) t = POK (St (Some c) (x :: r)).
Proof. intros H. unfold expect, expect_peek, peek_is. cbn. rewrite H, ttype_eqb_refl. reflexivity. Qed.

Lemma semi_cons pv c x r : typ x = T_SEMICOLON ->
  semi (St pv (c :: x :: r)) = POK (St (Some c) (x :: r)).
Proof. intros H. unfold semi, peek_is. cbn. rewrite H. reflexivity. Qed.

Lemma peek_is_cons pv c x r t : peek_is (St pv (c :: x :: r)) t = ttype_eqb (typ x) t.
Proof. reflexivity. Qed.
Lemma cur_cons pv c r : cur (St pv (c :: r)) = c. Proof. reflexivity. Qed.
Lemma next_cons pv c r : next (St pv (c :: r)) = St (Some c) r. Proof. reflexivity. Qed.

Definition closer (x : token) : Prop := doc_prec (typ x) = 1%N.

Lemma lastt_app l x : l <> [] -> lastt (l ++ [x]) = x.
Proof. intros _. unfold lastt. apply last_last. Qed.

Section P.
Variable fok : str -> bool.

(* a canonical expression in statement position *)
Definition cexpr (e : expr) : Prop := canon fok e /\ (1 < minprec e)%N.

Lemma pe_rt e pv x rest : cexpr e -> closer x ->
  okst (parse_expr fok P_LOWEST (St pv (yexpr e ++ x :: rest))) e (lastt (yexpr e) :: x :: rest).
Proof.
  intros [Hc Hm] Hx. rewrite P_LOWEST_doc.
  rewrite (parse_expr_roundtrip fok e 1 pv (x :: rest) Hc Hm (follow_closer e x rest Hx)
             (stops_closer 1 x rest ltac:(lia) Hx)).
  destruct (endst_form (yexpr e) pv (x :: rest) (yexpr_nonempty e)) as [pv' E]. rewrite E.
  exists pv'. reflexivity.
Qed.

Lemma pe_rt_prec e p pv x rest : canon fok e -> (p < minprec e)%N -> (1 <= p <= 8)%N -> closer x ->
  okst (parse_expr fok p (St pv (yexpr e ++ x :: rest))) e (lastt (yexpr e) :: x :: rest).
Proof.
  intros Hc Hm Hp Hx.
  rewrite (parse_expr_roundtrip fok e p pv (x :: rest) Hc Hm (follow_closer e x rest Hx)
             (stops_closer p x rest ltac:(lia) Hx)).
  destruct (endst_form (yexpr e) pv (x :: rest) (yexpr_nonempty e)) as [pv' E]. rewrite E.
  exists pv'. reflexivity.
Qed.

(* arguments: entered with cur = lp *)
Lemma pa_rt a pv lp rp rest : canon_args fok a -> typ rp = T_RIGHT_PAREN ->
  parse_args fok (St pv (lp :: yargs a ++ rp :: rest))
  = POK (a, St (Some (lastt (lp :: yargs a))) (rp :: rest)).
Proof.
  intros Ca Hrp. destruct (proj1 (proj2 (K_all fok)) a Ca pv lp rp rest Hrp) as [N H].
  unfold parse_args. set (st := St pv (lp :: yargs a ++ rp :: rest)).
  pose proof (parse_args_total fok st) as Ht. unfold parse_args in Ht.
  rewrite <- (pargs_mono_any fok (expr_fuel st) (Nat.max N (expr_fuel st)) st Ht) by lia.
  apply H. lia.
Qed.

Lemma pcallexpr_rt f lp a rp pv rest : canon_args fok a -> typ rp = T_RIGHT_PAREN ->
  pcallexpr fok f (St pv (lp :: yargs a ++ rp :: rest))
  = POK (ECall f lp a rp, St (Some (lastt (lp :: yargs a))) (rp :: rest)).
Proof. intros Ca Hrp. unfold pcallexpr. rewrite (pa_rt a pv lp rp rest Ca Hrp). reflexivity. Qed.

End P.
