(* Non-vacuity of the composed model: bytes -> lexer -> pump -> parser model, evaluated. *)
From Coq Require Import List NArith Bool.
From Coq Require Strings.String.
From Falco Require Import Base.Res Base.Bytes Base.Utf8.
From Falco Require Gen.TokenTypes Model.ParseBase Model.Ast.
From Falco Require Import Model.Lex Model.Pump Model.PumpLx Model.LexParse Proofs.LexExamples.
Import ListNotations.

Definition fok_all : ParseBase.str -> bool := fun _ => true.

Definition view_outcome (o : outcome) :=
  match o with
  | OOk b => (0, b, None)
  | OErr _ (Some m) => (1, false, Some (ttype (mtok m), tline (mtok m), tpos (mtok m)))
  | OErr _ None => (2, false, None)
  | ONoTok => (3, false, None) | OCrash => (4, false, None) | OFuel => (5, false, None)
  end%N.

Module ExP.
  Import Strings.String.
  Local Open Scope string_scope.

  (* the input that used to hang: all three entry points return; ParseVCL and ParseVCLOrSnippet
     report the EOF token at 1:17, ParseSnippetVCL rejects `f` (the token after `sub`) *)
  Example parse_truncated_pragma :
    match parse_outcomes fok_all (src "sub f { pragma x") with
    | OK (v, s, a) =>
        view_outcome v = (1, false, Some (Tokens.T_EOF, 1, 17))%N /\
        view_outcome s = (1, false, Some (Tokens.T_IDENT, 1, 5))%N /\
        view_outcome a = (1, false, Some (Tokens.T_EOF, 1, 17))%N
    | _ => False
    end.
  Proof. vm_compute. repeat split. Qed.

  (* a well-formed program with a long string, a comment, C! and a pragma parses in vcl and auto mode *)
  Example parse_ok :
    match parse_outcomes fok_all (src "pragma x y; sub vcl_recv { # c
  C! set req.http.A = {xy""b""xy} ""c""; }") with
    | OK (v, s, a) => view_outcome v = (0, false, None)%N /\ view_outcome a = (0, false, None)%N
    | _ => False
    end.
  Proof. vm_compute. repeat split. Qed.

  (* the non-identifier call: a located error on the parenthesis *)
  Example parse_call_non_ident :
    match parse_outcomes fok_all (src "set req.http.a = (req.http.b)(""y"");") with
    | OK (_, s, _) => view_outcome s = (1, false, Some (Tokens.T_LEFT_PAREN, 1, 30))%N
    | _ => False
    end.
  Proof. vm_compute. repeat split. Qed.

  (* ReadPeek on the lexer state = the pump on the token list, evaluated: comments, empty lines, C!, pragma, long string *)
  Example pump_lx_example :
    let s := src "# a

sub f { C! pragma x; set b = {q""z""q} // c
}" in
    match tokens s with
    | OK ts => pump_lx (lex_fuel s) (S (List.length ts)) s = pump s /\ (exists ms, pump s = OK ms /\ List.length ms = 11%nat)
    | _ => False
    end.
  Proof. vm_compute. split; [reflexivity|eexists; split; reflexivity]. Qed.
End ExP.
