(* The statements of Props/C01.v, assembled from LexToken / PumpTotal. *)
From Coq Require Import List NArith ZArith Bool Lia.
From Falco Require Import Base.Res Base.Bytes Base.Utf8 Gen.Tokens Model.Lex Model.Pump Model.LexSpec
  Proofs.LexTables Proofs.LexProgress Proofs.LexToken Proofs.PumpTotal.
Import ListNotations.

Lemma C01_lex_returns_proof :
  forall (s : list byte) (n : nat), lex_fuel s <= n -> exists ts, lex_all n s = OK ts.
Proof. intros s n H. destruct (lex_all_ok s n H) as (ts & R & _). eauto. Qed.

Lemma C01_lex_total_proof : forall (s : list byte) n, lex_fuel s <= n -> lex_all n s <> OutOfFuel.
Proof. intros s n H. destruct (lex_all_ok s n H) as (ts & R & _). rewrite R. discriminate. Qed.

Lemma C01_lex_no_crash_proof : forall (s : list byte) n, lex_fuel s <= n -> lex_all n s <> Crash.
Proof. intros s n H. destruct (lex_all_ok s n H) as (ts & R & _). rewrite R. discriminate. Qed.

Lemma C01_next_token_progress_proof :
  forall n st, nu st < n -> wf st ->
  exists t st', next_token n st = OK (t, st') /\ (is_eof t = true \/ mu st' < mu st).
Proof.
  intros n st H W. destruct (next_token_ok n st H W) as (t & st' & R & _ & _ & _ & D). eauto.
Qed.

Lemma str_in_In x l : str_in x l = true -> In x l.
Proof.
  unfold str_in. intros H. apply existsb_exists in H as (y & Hy & E).
  apply str_eqb_eq in E. subst. exact Hy.
Qed.

Lemma C01_lex_typed_proof :
  forall s ts t, tokens s = OK ts -> In t ts -> ttype t <> [] /\ In (ttype t) all_types.
Proof.
  intros s ts t R Hin. unfold tokens in R.
  destruct (lex_all_ok s (lex_fuel s) (Nat.le_refl _)) as (ts' & R' & _ & F).
  rewrite R in R'. injection R' as <-.
  rewrite Forall_forall in F. specialize (F t Hin).
  split; [apply typed_nonempty; exact F|apply str_in_In; exact F].
Qed.

Lemma C01_lex_ends_with_eof_proof :
  forall s ts, tokens s = OK ts -> exists body e, ts = body ++ [e] /\ is_eof e = true.
Proof. intros s ts R. unfold tokens, lex_all in R. eapply lex_loop_last; eauto. Qed.

Lemma C01_pump_total_proof :
  forall e ts n, is_eof e = true -> S (length ts) <= n -> pump_all n e ts <> OutOfFuel.
Proof. intros e ts n He H. destruct (pump_all_ok e He ts n H) as (ms & R & _). rewrite R. discriminate. Qed.

Lemma C01_pump_no_crash_proof :
  forall e ts n, is_eof e = true -> S (length ts) <= n -> pump_all n e ts <> Crash.
Proof. intros e ts n He H. destruct (pump_all_ok e He ts n H) as (ms & R & _). rewrite R. discriminate. Qed.
