(* T tie for the operator table, and the model follows the table:
   op_table_documented : the switch regenerated from NextToken = the documented table;
   lex_char_follows_table : on every table entry without special actions, lex_char IS the table
   interpreter (so an edit of an operator spelling / type / look-ahead in the Go switch changes
   the subject of the lexer theorems or breaks this proof). *)
From Coq Require Import List NArith Bool Lia.
From Falco Require Import Base.Res Base.Bytes Base.Utf8 Gen.Tokens Gen.LexOps Model.Lex Model.LexOps.
Import ListNotations.
Local Open Scope N_scope.

Lemma op_table_documented : map (fun p => (fst p, erase (snd p))) op_table = ref_op_table.
Proof. vm_compute. reflexivity. Qed.

Lemma op_table_ref_fixed : map (fun p => (fst p, erase (snd p))) ref_op_table = ref_op_table.
Proof. vm_compute. reflexivity. Qed.

Ltac entry Hc :=
  unfold lex_char; cbv zeta; rewrite Hc; cbn [N.eqb Pos.eqb];
  unfold lex_bang; unfold op_eq, op_dbl, op_shift, single; cbn [interp]; unfold leaf;
  rewrite ?Hc; cbn [N.eqb Pos.eqb]; reflexivity.

Theorem lex_char_follows_ref : forall c tree, In (c, tree) ref_op_table -> simple tree = true ->
  forall n st, ch st = c -> lex_char n st = interp tree st (line st) (idx st).
Proof.
  intros c tree Hin Hs n st Hc.
  unfold ref_op_table in Hin. cbn [In] in Hin.
  repeat (destruct Hin as [Hin|Hin]; [injection Hin as <- <-; try discriminate Hs; try (entry Hc)|]).
  all: try contradiction.
Qed.

(* erase does not change a tree without special actions *)
Lemma erase_simple : forall t, simple t = true -> erase t = t.
Proof.
  fix IH 1. intros [ty lit|ty fn|nm|cases d]; cbn [simple erase]; intros H; [reflexivity|discriminate|discriminate|].
  apply andb_true_iff in H as [H1 H2]. f_equal; [|apply IH; exact H2].
  induction cases as [|[[k b] sub] r IHr]; [reflexivity|].
  apply andb_true_iff in H1 as [Hs Hr]. rewrite (IH sub Hs), (IHr Hr). reflexivity.
Qed.

Theorem lex_char_follows_table : forall c tree, In (c, tree) op_table -> simple tree = true ->
  forall n st, ch st = c -> lex_char n st = interp tree st (line st) (idx st).
Proof.
  intros c tree Hin Hs. apply lex_char_follows_ref; [|exact Hs].
  rewrite <- op_table_documented. apply in_map_iff. exists (c, tree). split; [|exact Hin].
  cbn [fst snd]. rewrite (erase_simple tree Hs). reflexivity.
Qed.

(* the same with the comment readers: `/` (/= // /* or SLASH) and `#` *)
Ltac entry_c Hc :=
  unfold lex_char; cbv zeta; rewrite Hc; cbn [N.eqb Pos.eqb];
  unfold lex_slash, lex_bang; unfold op_eq, op_dbl, op_shift, single; cbn [interp_c]; unfold leaf, call;
  rewrite ?Hc; cbn [N.eqb Pos.eqb str_eqb andb]; reflexivity.

Lemma erase_simple_c : forall t, simple_c t = true -> erase t = t.
Proof.
  fix IH 1. intros [ty lit|ty fn|nm|cases d]; cbn [simple_c erase]; intros H; [reflexivity|reflexivity|discriminate|].
  apply andb_true_iff in H as [H1 H2]. f_equal; [|apply IH; exact H2].
  induction cases as [|[[k b] sub] r IHr]; [reflexivity|].
  apply andb_true_iff in H1 as [Hs Hr]. rewrite (IH sub Hs), (IHr Hr). reflexivity.
Qed.

Theorem lex_char_follows_ref_c : forall c tree, In (c, tree) ref_op_table -> simple_c tree = true ->
  forall n st, ch st = c -> lex_char n st = interp_c n tree st (line st) (idx st).
Proof.
  intros c tree Hin Hs n st Hc.
  unfold ref_op_table in Hin. cbn [In] in Hin.
  repeat (destruct Hin as [Hin|Hin]; [injection Hin as <- <-; try discriminate Hs; try (entry_c Hc)|]).
  all: try contradiction.
Qed.

Theorem lex_char_follows_table_c : forall c tree, In (c, tree) op_table -> simple_c tree = true ->
  forall n st, ch st = c -> lex_char n st = interp_c n tree st (line st) (idx st).
Proof.
  intros c tree Hin Hs. apply lex_char_follows_ref_c; [|exact Hs].
  rewrite <- op_table_documented. apply in_map_iff. exists (c, tree). split; [|exact Hin].
  cbn [fst snd]. rewrite (erase_simple_c tree Hs). reflexivity.
Qed.

Example follows_table_c_applies :
  exists t1 t2, In (47, t1) op_table /\ simple_c t1 = true /\ simple t1 = false /\
                In (35, t2) op_table /\ simple_c t2 = true /\
                length (filter (fun p => simple_c (snd p)) op_table) = 24%nat.
Proof. eexists _, _. vm_compute. repeat split; auto 40. Qed.

(* non-vacuity: the table has entries the theorem applies to, e.g. the four-way `|` entry and `<` *)
Example follows_table_applies :
  exists t1 t2, In (124, t1) op_table /\ simple t1 = true /\ In (60, t2) op_table /\ simple t2 = true /\
                length (filter (fun p => simple (snd p)) op_table) = 22%nat.
Proof. eexists _, _. vm_compute. repeat split; auto 30. Qed.
