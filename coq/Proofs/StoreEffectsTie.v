(* C13 - tie between the built-ins the store model treats as effect-free and the table of
   effects the translator reads off interpreter/function/builtin/*.go (Gen/StoreEffects.v).
   Everything here is decided by computation on the generated table: if a built-in of the model
   starts to mention the context, or header.set starts to write anything but the five header
   maps, the file stops compiling and the C13 check reports the obligation. *)
From Coq Require Import List String Bool.
From Falco Require Import Gen.StoreEffects Model.StoreBuiltinNames.
Import ListNotations.
Local Open Scope string_scope.

Definition effects_of (f : string) : option (list string) :=
  match find (fun p => String.eqb (fst p) f) builtin_effects with
  | Some (_, w) => Some w
  | None => None
  end.

Definition mem (f : string) (l : list string) : bool := existsb (String.eqb f) l.

Lemma mem_In : forall f l, mem f l = true <-> In f l.
Proof.
  intros f l. unfold mem. rewrite existsb_exists. split.
  - intros [x [Hin Heq]]. apply String.eqb_eq in Heq. subst. exact Hin.
  - intros H. exists f. split; [exact H | apply String.eqb_refl].
Qed.

Definition effect_free (f : string) : Prop :=
  effects_of f = Some [] /\ In f builtin_ctx_free /\ ~ In f builtin_arg_writers.

Definition effect_freeb (f : string) : bool :=
  match effects_of f with Some [] => true | _ => false end
  && mem f builtin_ctx_free && negb (mem f builtin_arg_writers).

Lemma effect_freeb_ok : forall f, effect_freeb f = true -> effect_free f.
Proof.
  intros f H. unfold effect_freeb in H.
  apply andb_true_iff in H. destruct H as [H Hw].
  apply andb_true_iff in H. destruct H as [He Hc].
  unfold effect_free. split; [|split].
  - destruct (effects_of f) as [[|? ?]|]; try discriminate. reflexivity.
  - apply mem_In. exact Hc.
  - intro Hin. apply mem_In in Hin. rewrite Hin in Hw. discriminate.
Qed.

Theorem model_builtins_effect_free : forall f, In f std_builtin_names -> effect_free f.
Proof.
  intros f H. apply effect_freeb_ok.
  assert (A : forallb effect_freeb std_builtin_names = true) by (vm_compute; reflexivity).
  rewrite forallb_forall in A. apply A. exact H.
Qed.

(* the built-ins WITH effects that the generator emits as statements: each writes header maps only
   (the named object's, chosen by its identifier argument), or ctx.FastlyError *)
Definition header_maps : list string :=
  ["BackendRequest.Header"; "BackendResponse.Header"; "Object.Header"; "Request.Header"; "Response.Header"].
Definition base (p : string) : string :=
  let n := String.length p in
  if String.eqb (substring (n - 2) 2 p) ".*" then substring 0 (n - 2) p else p.
Definition observed (p : string) : bool := mem (base p) header_maps || String.eqb p "FastlyError".
Definition observed_only (f : string) : Prop :=
  exists w, effects_of f = Some w /\ forall p, In p w -> observed p = true.

Definition stmt_builtins : list string :=
  ["header.set"; "header.unset"; "header.filter"; "header.filter_except"; "header.get"; "std.collect";
   "regsub"; "regsuball"; "std.itoa"; "std.atoi"; "substr"; "std.strrev"; "std.replace"; "std.strpad";
   "std.basename"; "urlencode"; "std.prefixof"; "std.suffixof"; "std.strstr"].

Theorem stmt_builtins_observed : forall f, In f stmt_builtins -> observed_only f.
Proof.
  intros f H.
  assert (A : forallb (fun f => match effects_of f with Some w => forallb observed w | None => false end)
                stmt_builtins = true) by (vm_compute; reflexivity).
  rewrite forallb_forall in A. specialize (A f H).
  unfold observed_only. destruct (effects_of f) as [w|]; [|discriminate].
  exists w. split; [reflexivity|]. rewrite forallb_forall in A. exact A.
Qed.

(* ---- statements and operators: the implicit-write list of the model is the one in the source ---- *)
Definition lookup_eff (k : string) (t : list (string * list string)) : option (list string) :=
  match find (fun p => String.eqb (fst p) k) t with Some (_, w) => Some w | None => None end.

Theorem error_implicit_tie : lookup_eff "Error" statement_effects = Some error_implicit.
Proof. vm_compute. reflexivity. Qed.

Theorem match_implicit_tie :
  lookup_eff "Regex" operator_effects = Some match_implicit /\
  lookup_eff "NotRegex" operator_effects = Some match_implicit /\
  (* the only places a statement hands the whole context on: the built-in of a function-call
     statement, operator.Regex in a case, and the flow record of a block *)
  lookup_eff "Case" statement_effects = Some ["*"] /\
  lookup_eff "FunctionCall" statement_effects = Some ["*"].
Proof. vm_compute. repeat split; reflexivity. Qed.

Theorem set_implicit_tie :
  lookup_eff "Set" statement_effects = Some set_implicit /\
  lookup_eff "Add" statement_effects = Some set_implicit.
Proof. vm_compute. split; reflexivity. Qed.

Theorem silent_kinds_tie : forall k, In k silent_kinds -> lookup_eff k statement_effects = Some [].
Proof.
  intros k H.
  assert (A : forallb (fun k => match lookup_eff k statement_effects with Some [] => true | _ => false end)
                silent_kinds = true) by (vm_compute; reflexivity).
  rewrite forallb_forall in A. specialize (A k H).
  destruct (lookup_eff k statement_effects) as [[|? ?]|]; try discriminate. reflexivity.
Qed.

(* every binary operator other than the two matches has no access to the context at all *)
Theorem value_operators_ctx_free :
  forall o, In o ["Concat"; "Equal"; "NotEqual"; "GreaterThan"; "GreaterThanEqual"; "LessThan"; "LessThanEqual";
                  "LogicalAnd"; "LogicalOr"] -> In o operator_ctx_free.
Proof.
  intros o H. apply mem_In.
  assert (A : forallb (fun o => mem o operator_ctx_free)
     ["Concat"; "Equal"; "NotEqual"; "GreaterThan"; "GreaterThanEqual"; "LessThan"; "LessThanEqual";
      "LogicalAnd"; "LogicalOr"] = true) by (vm_compute; reflexivity).
  rewrite forallb_forall in A. apply A. exact H.
Qed.

Example header_set_effects :
  effects_of "header.set" = Some header_maps.
Proof. vm_compute. reflexivity. Qed.

Example regsub_effects : effects_of "regsub" = Some ["FastlyError"].
Proof. vm_compute. reflexivity. Qed.

(* the analysis is not vacuous: a built-in that writes is NOT effect-free *)
Example header_set_not_effect_free : ~ effect_free "header.set".
Proof. intros [H _]. vm_compute in H. discriminate. Qed.

(* ---- the ctx variables: distinct writable names of a scope are distinct cells ----
   [wf] asks that no two names share a cell.  For the variables backed by a context field this is a
   fact about interpreter/variable/<scope>.go: within what one scope can write (its own cases and the
   all-scope ones it falls back to), no two names are assigned into the same field. *)
From Falco Require Import Gen.StoreWritable.

Definition cells_of (sc : string) : list (string * string) :=
  match find (fun p => String.eqb (fst p) sc) writable with
  | Some (_, l) => map (fun e => (fst e, fst (snd e))) (filter (fun e => negb (String.eqb (fst (snd e)) "")) l)
  | None => []
  end.
(* the own case shadows the all-scope case of the same name *)
Definition scope_cells (sc : string) : list (string * string) :=
  cells_of sc ++ filter (fun e => negb (mem (fst e) (map fst (cells_of sc)))) (cells_of "all").

Fixpoint nodupb (l : list string) : bool :=
  match l with [] => true | x :: r => negb (mem x r) && nodupb r end.

Lemma nodupb_NoDup : forall l, nodupb l = true -> NoDup l.
Proof.
  induction l as [|x r IH]; intros H; [constructor|].
  simpl in H. apply andb_true_iff in H. destruct H as [Hx Hr].
  constructor; [|apply IH; exact Hr].
  intro Hin. apply mem_In in Hin. rewrite Hin in Hx. discriminate.
Qed.

Definition scopes : list string := ["recv"; "hash"; "hit"; "miss"; "pass"; "fetch"; "error"; "deliver"; "log"].

Theorem writable_cells_distinct :
  forall sc, In sc scopes ->
    NoDup (map fst (scope_cells sc)) /\ NoDup (map snd (scope_cells sc)).
Proof.
  intros sc H.
  assert (A : forallb (fun sc => nodupb (map fst (scope_cells sc)) && nodupb (map snd (scope_cells sc))) scopes = true)
    by (vm_compute; reflexivity).
  rewrite forallb_forall in A. specialize (A sc H). apply andb_true_iff in A.
  split; apply nodupb_NoDup; tauto.
Qed.

Example writable_example :
  In ("req.hash_always_miss", "HashAlwaysMiss") (scope_cells "recv") /\
  In ("req.max_stale_if_error", "MaxStaleIfError") (scope_cells "recv") /\
  In ("obj.ttl", "ObjectTTL") (scope_cells "error").
Proof. vm_compute. intuition. Qed.

(* ---- coupled ctx variables: the DOCUMENTED implicit writes of `set` on a ctx variable ----
   A Set case that assigns another context field besides its own is not a cell of its own (it is not among the
   simple cells the generator draws).  The couplings of the source are exactly these: beresp.gzip / beresp.brotli
   exclude each other (setting one to true clears the other - Fastly documents it), and obj.response is mirrored
   into the status text of the synthetic response object. *)
Definition documented_couplings : list (string * (string * (string * list string))) :=
  [("hit", ("obj.response", ("ObjectResponse", ["Object"])));
   ("fetch", ("beresp.brotli", ("BackendResponseBrotli", ["BackendResponseGzip"])));
   ("fetch", ("beresp.gzip", ("BackendResponseGzip", ["BackendResponseBrotli"])));
   ("error", ("obj.response", ("ObjectResponse", ["Object"])))].

Theorem coupled_are_the_documented : coupled = documented_couplings.
Proof. vm_compute. reflexivity. Qed.

(* and no coupled name is among the simple cells *)
Theorem coupled_not_simple :
  forallb (fun c => negb (mem (fst (snd c)) (map fst (cells_of (fst c))))) coupled = true.
Proof. vm_compute. reflexivity. Qed.
