(* ReadPeek run on the lexer (Model/PumpLx.v: NextToken / PeekToken with the peek queue) delivers
   exactly what Model/Pump.v delivers on the lexer's token list: pump_refines_lexer. *)
From Coq Require Import List NArith ZArith Bool Lia Arith.
From Falco Require Import Base.Res Base.Bytes Base.Utf8 Gen.Tokens Model.Lex Model.Pump Model.PumpLx Model.LexSpec
  Proofs.LexTables Proofs.LexProgress Proofs.LexToken Proofs.LexView Proofs.PumpTotal Proofs.LexLocated
  Proofs.LexOpen Proofs.LexExtra.
Import ListNotations.
Local Open Scope N_scope.

(* ---------- only the end-of-input branch produces an EOF token ---------- *)
Definition neof (r : res (token * lexer)) : Prop :=
  match r with OK (t, _) => is_eof t = false | _ => True end.
Definition ne (ty : str) : Prop := str_eqb ty T_EOF = false.

Lemma neof_bind {A} (r : res A) (k : A -> res (token * lexer)) :
  (forall x, neof (k x)) -> neof (bind r k).
Proof. intros H. destruct r; cbn; auto. Qed.

Lemma op_eq_neof st ln i a b : ne a -> ne b -> neof (op_eq st ln i a b).
Proof. intros Ha Hb. unfold op_eq. destruct (peek_char st =? 61); assumption. Qed.
Lemma op_dbl_neof st ln i a b c : ne a -> ne b -> ne c -> neof (op_dbl st ln i a b c).
Proof.
  intros Ha Hb Hc. unfold op_dbl.
  destruct (peek_char st =? ch st); [destruct (peek_char (read_char st) =? 61); assumption|].
  destruct (peek_char st =? 61); [assumption|reflexivity].
Qed.
Lemma op_shift_neof st ln i a b c : ne a -> ne b -> ne c -> neof (op_shift st ln i a b c).
Proof.
  intros Ha Hb Hc. unfold op_shift.
  destruct (peek_char st =? ch st); [destruct (peek_char (read_char st) =? 61); [assumption|reflexivity]|].
  destruct (peek_char st =? 61); assumption.
Qed.
Lemma lex_bang_neof st ln i : neof (lex_bang st ln i).
Proof. unfold lex_bang. destruct (peek_char st =? 61); [reflexivity|]. destruct (peek_char st =? 126); reflexivity. Qed.
Lemma lex_slash_neof n st ln i : neof (lex_slash n st ln i).
Proof.
  unfold lex_slash. destruct (peek_char st =? 61); [reflexivity|].
  destruct (peek_char st =? 47); [apply neof_bind; intros [l s]; reflexivity|].
  destruct (peek_char st =? 42); [apply neof_bind; intros [l s]; reflexivity|reflexivity].
Qed.
Lemma plain_ne ty : plain_b ty = true -> ne ty.
Proof.
  unfold plain_b, ne. intros H. repeat (apply andb_true_iff in H as [H ?]).
  apply negb_true_iff. assumption.
Qed.
Lemma lex_ident_neof n st ln i : neof (lex_ident n st ln i).
Proof.
  unfold lex_ident. apply neof_bind. intros [l0 s1].
  destruct (str_eqb l0 Lit.L_default); [reflexivity|].
  apply neof_bind. intros [m s2].
  destruct (str_eqb (l0 ++ m) L_rol && (ch s2 =? 61)); [reflexivity|].
  destruct (str_eqb (l0 ++ m) L_ror && (ch s2 =? 61)); [reflexivity|].
  cbn. apply plain_ne, lookup_plain.
Qed.
Lemma lex_number_neof n st ln i : neof (lex_number n st ln i).
Proof.
  unfold lex_number. apply neof_bind. intros [[[num isf] rt] s1].
  destruct (rt && (ch s1 =? 109)); [destruct (peek_char s1 =? 115); reflexivity|].
  destruct (rt && _); [reflexivity|]. destruct isf; reflexivity.
Qed.
Lemma lex_default_neof n st ln i : neof (lex_default n st ln i).
Proof.
  unfold lex_default. destruct (_ && _); [reflexivity|].
  destruct (is_letter (ch st)); [apply lex_ident_neof|].
  destruct (is_digit (ch st)); [apply lex_number_neof|reflexivity].
Qed.
Lemma lex_brace_neof n st ln i : neof (lex_brace n st ln i).
Proof.
  unfold lex_brace. destruct (peek_until st); [|reflexivity].
  destruct (last_byte l); [|exact I]. destruct (negb _); [reflexivity|].
  apply neof_bind. intros [bd s]. reflexivity.
Qed.

Lemma lex_char_neof n st : ch st <> 0 -> neof (lex_char n st).
Proof.
  intros Hz. unfold lex_char.
  branch E. { apply op_eq_neof; reflexivity. }
  clear E. branch E. { apply op_eq_neof; reflexivity. }
  clear E. branch E. { apply lex_brace_neof. }
  clear E. branch E. { reflexivity. }
  clear E. branch E. { reflexivity. }
  clear E. branch E. { reflexivity. }
  clear E. branch E. { reflexivity. }
  clear E. branch E. { reflexivity. }
  clear E. branch E. { apply neof_bind. intros [l s]. reflexivity. }
  clear E. branch E. { reflexivity. }
  clear E. branch E. { reflexivity. }
  clear E. branch E. { reflexivity. }
  clear E. branch E. { apply lex_slash_neof. }
  clear E. branch E. { apply neof_bind. intros [l s]. reflexivity. }
  clear E. branch E. { apply op_dbl_neof; reflexivity. }
  clear E. branch E. { apply op_dbl_neof; reflexivity. }
  clear E. branch E. { apply op_eq_neof; reflexivity. }
  clear E. branch E. { apply op_eq_neof; reflexivity. }
  clear E. branch E. { apply op_shift_neof; reflexivity. }
  clear E. branch E. { apply op_shift_neof; reflexivity. }
  clear E. branch E. { apply op_eq_neof; reflexivity. }
  clear E. branch E. { reflexivity. }
  clear E. branch E. { reflexivity. }
  clear E. branch E. { apply lex_bang_neof. }
  clear E. branch E. { apply op_eq_neof; reflexivity. }
  clear E. branch E. { congruence. }
  clear E. branch E. { reflexivity. }
  apply lex_default_neof.
Qed.

(* the tokens queued by a long string are not EOF tokens *)
Lemma lex_brace_queue n st ln i t st' :
  peeks st = [] -> lex_brace n st ln i = OK (t, st') -> Forall (fun a => is_eof a = false) (peeks st').
Proof.
  intros Hpk F. unfold lex_brace in F.
  assert (Plain : forall c, finish (mkTok T_LEFT_BRACE [c] ln i) st = OK (t, st') -> Forall (fun a => is_eof a = false) (peeks st')).
  { intros c F'. rewrite (finish_peeks _ _ _ _ F'), Hpk. constructor. }
  destruct (peek_until st) as [d|]; [|eapply Plain; exact F].
  destruct (last_byte d) as [q|]; [|discriminate].
  destruct (negb (b2n q =? 34)); [eapply Plain; exact F|].
  set (st1 := skip_bytes (length d) st) in *.
  destruct (read_bracket_string (removelast d) n st1) as [[body st2]| | |] eqn:R; cbn [bind] in F; try discriminate.
  unfold read_bracket_string in R.
  pose proof (read_bracket_loop_peeks _ _ _ _ _ R) as Pk2.
  rewrite (proj1 (read_char_aux _)) in Pk2. unfold st1, skip_bytes in Pk2. cbn [peeks] in Pk2. rewrite Hpk in Pk2.
  rewrite (finish_peeks _ _ _ _ F). unfold push_tokens, set_peeks. cbn [peeks]. rewrite Pk2. cbn [app].
  constructor; [reflexivity|constructor; [reflexivity|constructor]].
Qed.

Definition qE (st : lexer) : Prop := Forall (fun a => is_eof a = false) (peeks st).

(* the end of input, reached: NextToken returns [e] and stays *)
Definition E1 (e : token) (st : lexer) : Prop :=
  peeks st = [] /\ ch st = 0 /\ iseof st = true /\ eoftok st = e.
(* ... with the EOF token peeked into the queue *)
Definition E2 (e : token) (st : lexer) : Prop :=
  peeks st = [e] /\ ch st = 0 /\ iseof st = true /\ eoftok st = e.

Lemma E1_next f e st : (1 <= f)%nat -> E1 e st -> next_token f st = OK (e, st).
Proof.
  intros Hf (P & Z & I & T). rewrite (next_token_at_end f st Z P Hf). unfold lex_eof. rewrite I, T. reflexivity.
Qed.

Lemma next_token_step f st t st' :
  (nu st < f)%nat -> wf st -> qE st -> next_token f st = OK (t, st') ->
  qE st' /\ (is_eof t = true -> peeks st = [] /\ E1 t st').
Proof.
  intros Hn W Q F. unfold next_token in F. destruct (peeks st) as [|h ps] eqn:P.
  - destruct (skip_whitespace_ok f st Hn) as (st1 & R & L). rewrite R in F. cbn [bind] in F.
    destruct L as [Ln (A1 & A2 & A3)].
    assert (W1 : wf st1). { destruct W as [W1 W2]. unfold wf. rewrite A1, A2, A3. auto. }
    assert (P1 : peeks st1 = []) by congruence.
    destruct (N.eq_dec (ch st1) 0) as [Hz|Hz].
    + unfold lex_char in F. cbv zeta in F. rewrite Hz in F. cbn in F. unfold lex_eof in F.
      destruct (iseof st1) eqn:I.
      * injection F as <- <-. split; [unfold qE; rewrite P1; constructor|].
        intros _. split; [reflexivity|]. unfold E1. auto.
      * injection F as <- <-. split; [unfold qE; cbn [peeks]; rewrite P1; constructor|].
        intros _. split; [reflexivity|]. unfold E1. cbn [peeks ch iseof eoftok]. auto.
    + pose proof (lex_char_neof f st1 Hz) as N0. rewrite F in N0. cbn in N0.
      split; [|intros E; congruence].
      destruct (lex_char_ok f st1 ltac:(lia) P1 W1) as (t0 & st0 & F0 & K).
      rewrite F in F0. injection F0 as <- <-.
      destruct K as [(Z0 & _)|(_ & _ & _ & _ & _ & K)]; [congruence|]. unfold qE.
      destruct K as [->|[H123 _]]; [constructor|].
      unfold lex_char in F. cbv zeta in F. rewrite H123 in F. cbn in F.
      eapply lex_brace_queue; eauto.
  - injection F as <- <-. unfold qE in *. rewrite P in Q. inversion Q; subst.
    split; [exact H2|]. intros E. congruence.
Qed.

(* ---------- the abstraction: the lexer state [st] will deliver the tokens [ts], then [e] for ever ---------- *)
Section Refine.
  Variable f : nat.
  Hypothesis Hf : (1 <= f)%nat.
  Variable e : token.
  Hypothesis He : is_eof e = true.

  Definition End (st : lexer) : Prop :=
    E2 e st \/ (peeks st = [] /\ exists st', next_token f st = OK (e, st') /\ E1 e st').

  Fixpoint R (st : lexer) (ts : list token) : Prop :=
    match ts with
    | [] => End st
    | t :: r => (is_eof t = false /\ exists st', next_token f st = OK (t, st') /\ R st' r)
                \/ (t = e /\ r = [] /\ End st)
    end.

  Lemma E1_End st : E1 e st -> End st.
  Proof. intros H. right. split; [apply H|]. exists st. split; [apply E1_next; assumption|exact H]. Qed.

  Lemma End_next st : End st -> exists st', next_token f st = OK (e, st') /\ End st'.
  Proof.
    intros [(P & Z & I & T)|(P & st' & N & H1)].
    - exists (set_peeks st []). split; [unfold next_token; rewrite P; reflexivity|].
      apply E1_End. unfold E1. cbn. auto.
    - exists st'. split; [exact N|apply E1_End; exact H1].
  Qed.

  Lemma End_peek st : End st -> exists st1, peek_token f st = OK (e, st1) /\ End st1.
  Proof.
    intros [(P & Z & I & T)|(P & st' & N & (P1 & Z1 & I1 & T1))].
    - exists st. split; [unfold peek_token; rewrite P; reflexivity|left; unfold E2; auto].
    - exists (set_peeks st' (e :: peeks st')). split; [unfold peek_token; rewrite P, N; reflexivity|].
      left. unfold E2. cbn. rewrite P1. auto.
  Qed.

  (* NextToken *)
  Lemma R_next st ts : R st ts ->
    exists st', next_token f st = OK (fst (s_next e ts), st') /\ R st' (snd (s_next e ts)).
  Proof.
    destruct ts as [|t r]; cbn [R s_next fst snd].
    - intros H. destruct (End_next st H) as (st' & N & H'). eauto.
    - intros [(Ht & st' & N & H')|(-> & -> & H)]; [eauto|].
      destruct (End_next st H) as (st' & N & H'). eauto.
  Qed.

  Lemma set_peeks_twice st a b : set_peeks (set_peeks st a) b = set_peeks st b.
  Proof. reflexivity. Qed.

  (* PeekToken *)
  Lemma R_peek st ts : R st ts -> exists st1, peek_token f st = OK (s_peek e ts, st1) /\ R st1 ts.
  Proof.
    destruct ts as [|t r]; cbn [R s_peek].
    - intros H. destruct (End_peek st H) as (st1 & N & H'). eauto.
    - intros [(Ht & st' & N & H')|(-> & -> & H)].
      + unfold peek_token. destruct (peeks st) as [|h ps] eqn:P.
        * rewrite N. cbn [bind]. eexists. split; [reflexivity|]. left. split; [exact Ht|].
          exists st'. split; [|exact H'].
          unfold next_token. cbn [set_peeks peeks]. rewrite set_peeks_twice, set_peeks_id. reflexivity.
        * assert (t = h). { unfold next_token in N. rewrite P in N. injection N as <- _. reflexivity. }
          subst h. exists st. split; [reflexivity|]. left. eauto.
      + destruct (End_peek st H) as (st1 & N & H'). exists st1. split; [exact N|]. right. auto.
  Qed.

  Definition rel {A B} (Rs : lexer -> list token -> Prop) (a : res (A * lexer)) (b : res (B * list token))
             (same : A -> B -> Prop) : Prop :=
    match b with
    | OK (y, ts') => exists x st', a = OK (x, st') /\ same x y /\ Rs st' ts'
    | Err => a = Err | Crash => a = Crash | OutOfFuel => a = OutOfFuel
    end.

  Lemma skip_lf_refines : forall n st ts cnt, R st ts ->
    match skip_lf n e ts cnt with
    | OK (c, ts') => exists st', skip_lf_lx f n st cnt = OK (c, st') /\ R st' ts'
    | OutOfFuel => skip_lf_lx f n st cnt = OutOfFuel
    | _ => True
    end.
  Proof.
    induction n as [|n IH]; intros st ts cnt H; [reflexivity|].
    cbn [skip_lf skip_lf_lx].
    destruct (R_peek st ts H) as (st1 & P & H1). rewrite P. cbn [bind].
    destruct (is_type T_LF (s_peek e ts)).
    - destruct (R_next st1 ts H1) as (st2 & N & H2). rewrite N. cbn [bind].
      apply IH. exact H2.
    - exists st1. auto.
  Qed.

  Lemma skip_pragma_refines : forall n st ts, R st ts ->
    match skip_pragma n e ts with
    | OK ts' => exists st', skip_pragma_lx f n st = OK st' /\ R st' ts'
    | OutOfFuel => skip_pragma_lx f n st = OutOfFuel
    | _ => True
    end.
  Proof.
    induction n as [|n IH]; intros st ts H; [reflexivity|].
    cbn [skip_pragma skip_pragma_lx].
    destruct (R_next st ts H) as (st1 & N & H1). rewrite N. cbn [bind].
    destruct (s_next e ts) as [t ts1]. cbn [fst snd] in *.
    destruct (is_type T_SEMICOLON t || is_type T_EOF t); [eauto|]. apply IH. exact H1.
  Qed.

  Lemma read_peek_refines : forall n st ts level lead lf prev, R st ts ->
    match read_peek n e ts level lead lf prev with
    | OK (m, ts', lv) => exists st', read_peek_lx f n st level lead lf prev = OK (m, st', lv) /\ R st' ts'
    | OutOfFuel => read_peek_lx f n st level lead lf prev = OutOfFuel
    | _ => True
    end.
  Proof.
    induction n as [|n IH]; intros st ts level lead lf prev H; [reflexivity|].
    cbn [read_peek read_peek_lx].
    destruct (R_next st ts H) as (st1 & N & H1). rewrite N. cbn [bind].
    destruct (s_next e ts) as [t ts1]. cbn [fst snd] in *.
    destruct (is_type T_LF t).
    { pose proof (skip_lf_refines n st1 ts1 prev H1) as S.
      destruct (skip_lf n e ts1 prev) as [[c ts2]| | |]; cbn [bind]; try exact I.
      - destruct S as (st2 & S & H2). rewrite S. cbn [bind]. apply IH. exact H2.
      - rewrite S. reflexivity. }
    destruct (is_type T_COMMENT t); [apply IH; exact H1|].
    destruct (is_type T_FASTLY_CONTROL t); [apply IH; exact H1|].
    destruct (is_type T_PRAGMA t).
    { pose proof (skip_pragma_refines n st1 ts1 H1) as S.
      destruct (skip_pragma n e ts1) as [ts2| | |]; cbn [bind]; try exact I.
      - destruct S as (st2 & S & H2). rewrite S. cbn [bind]. apply IH. exact H2.
      - rewrite S. reflexivity. }
    eauto.
  Qed.

  Lemma pump_loop_refines inner : forall outer st ts level, R st ts ->
    match pump_loop outer inner e ts level with
    | OK ms => pump_loop_lx f outer inner st level = OK ms
    | OutOfFuel => pump_loop_lx f outer inner st level = OutOfFuel
    | _ => True
    end.
  Proof.
    induction outer as [|o IH]; intros st ts level H; [reflexivity|].
    cbn [pump_loop pump_loop_lx].
    pose proof (read_peek_refines inner st ts level [] false 0 H) as S.
    destruct (read_peek inner e ts level [] false 0) as [[[m ts1] lv]| | |]; cbn [bind]; try exact I.
    - destruct S as (st1 & S & H1). rewrite S. cbn [bind].
      destruct (is_eof (mtok m)); [reflexivity|].
      specialize (IH st1 ts1 lv H1).
      destruct (pump_loop o inner e ts1 lv); try exact I; rewrite IH; reflexivity.
    - rewrite S. reflexivity.
  Qed.

End Refine.

(* the lexer's token loop establishes the abstraction, for the EOF token its output ends with *)
Lemma lex_loop_R f : forall outer st l e,
  (nu st < f)%nat -> wf st -> qE st -> lex_loop outer f st = OK l -> (exists body, l = body ++ [e]) ->
  R f e st l.
Proof.
  induction outer as [|o IH]; intros st l e Hn W Q L Hl; [discriminate|].
  cbn [lex_loop] in L.
  destruct (next_token_ok f st Hn W) as (t & st' & F & _ & W' & N' & _).
  rewrite F in L. cbn [bind] in L.
  destruct (next_token_step f st t st' Hn W Q F) as (Q' & EE).
  destruct (is_eof t) eqn:Et.
  - injection L as <-. destruct (EE eq_refl) as (P & H1).
    destruct Hl as (body & Hb).
    assert (t = e).
    { destruct body as [|b body]; [injection Hb as ->; reflexivity|].
      injection Hb as _ Hb. destruct body; discriminate. }
    subst t. cbn [R]. right. split; [reflexivity|]. split; [reflexivity|].
    right. split; [exact P|]. exists st'. auto.
  - destruct (lex_loop o f st') as [l'| | |] eqn:L'; try discriminate. injection L as <-.
    cbn [R]. left. split; [exact Et|]. exists st'. split; [exact F|].
    apply (IH st' l' e); [lia|exact W'|exact Q'|exact L'|].
    destruct (lex_loop_last _ _ _ _ L') as (b' & e' & -> & _).
    destruct Hl as (body & Hb). destruct body as [|b body].
    + injection Hb as _ Hb. destruct b'; discriminate.
    + injection Hb as _ Hb. exists body. exact Hb.
Qed.

(* for every byte string: ReadPeek on the lexer, with the lexer's fuel for each NextToken and as many
   ReadPeek steps as Model/Pump.v takes, yields exactly pump s *)
Theorem pump_refines_lexer s :
  exists ts, tokens s = OK ts /\ pump_lx (lex_fuel s) (S (length ts)) s = pump s.
Proof.
  destruct (pump_ok s) as (ms & P & _).
  unfold pump in *. destruct (tokens s) as [ts| | |] eqn:T; cbn [bind] in *; try discriminate.
  exists ts. split; [reflexivity|].
  unfold tokens, lex_all in T. destruct (lex_loop_last _ _ _ _ T) as (body & e & E & He).
  subst ts. rewrite rev_app_distr in *. cbn [rev app] in *.
  destruct (init_facts s) as (Hn & Hp & W).
  assert (HR : R (lex_fuel s) e (init s) (body ++ [e])).
  { apply (lex_loop_R (lex_fuel s) (lex_fuel s)); [unfold lex_fuel; lia|exact W| |exact T|eauto].
    unfold qE. rewrite Hp. constructor. }
  unfold pump_all in *. unfold pump_lx.
  pose proof (pump_loop_refines (lex_fuel s) ltac:(unfold lex_fuel; lia) e (S (length (body ++ [e])))
                (S (length (body ++ [e]))) (init s) (body ++ [e]) 0%Z HR) as K.
  rewrite P in K. rewrite K, P. reflexivity.
Qed.
