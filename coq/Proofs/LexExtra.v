(* Two complements to the main theorems:
   - the EOF token is stable: at the end of input (or on a NUL byte) NextToken returns an EOF
     token and leaves the lexer in a state where it returns the very same token again, for ever
     (this is what lets Model/Pump.v treat the tokenizer as  ts ++ e e e ...);
   - a position designates at most one place of the input: positions grow strictly along the
     input, so the prefix [pre] in [at_text] is unique. *)
From Coq Require Import List NArith Bool Lia Arith.
From Falco Require Import Base.Res Base.Bytes Base.Utf8 Gen.Tokens Model.Lex Model.LexSpec
  Proofs.LexTables Proofs.LexProgress Proofs.LexToken.
Import ListNotations.
Local Open Scope N_scope.

Lemma next_token_at_end n st :
  ch st = 0 -> peeks st = [] -> (1 <= n)%nat ->
  next_token n st = lex_eof st (line st) (idx st).
Proof.
  intros Hz Hp Hn. unfold next_token. rewrite Hp.
  destruct n as [|n]; [lia|].
  unfold skip_whitespace. cbn [read_while]. rewrite Hz. change (is_space 0) with false. cbv iota. cbn [bind].
  unfold lex_char. cbv zeta. rewrite Hz. reflexivity.
Qed.

Theorem eof_stable n st :
  ch st = 0 -> peeks st = [] -> (1 <= n)%nat -> wf st ->
  exists e st1, next_token n st = OK (e, st1) /\ is_eof e = true /\
                next_token n st1 = OK (e, st1).
Proof.
  intros Hz Hp Hn [_ W]. rewrite (next_token_at_end n st Hz Hp Hn). unfold lex_eof.
  destruct (iseof st) eqn:E.
  - exists (eoftok st), st. split; [reflexivity|]. split; [apply (W eq_refl)|].
    rewrite (next_token_at_end n st Hz Hp Hn). unfold lex_eof. rewrite E. reflexivity.
  - eexists _, _. split; [reflexivity|]. split; [reflexivity|].
    rewrite next_token_at_end; [|exact Hz|exact Hp|exact Hn]. reflexivity.
Qed.

(* ---- positions are strictly increasing ---- *)
Definition pos_lt (p q : pos) : Prop := fst p < fst q \/ (fst p = fst q /\ snd p < snd q).

Lemma pos_lt_trans p q r : pos_lt p q -> pos_lt q r -> pos_lt p r.
Proof. unfold pos_lt. lia. Qed.

Lemma pos_lt_irrefl p : ~ pos_lt p p.
Proof. unfold pos_lt. lia. Qed.

Lemma advance_lt p r : pos_lt p (advance p r).
Proof. unfold pos_lt, advance. destruct (r =? 10); cbn [fst snd]; lia. Qed.

Lemma end_pos_app_lt : forall more pre, more <> [] -> pos_lt (end_pos pre) (end_pos (pre ++ more)).
Proof.
  induction more as [|r more IH]; intros pre H; [congruence|].
  replace (pre ++ r :: more) with ((pre ++ [r]) ++ more) by (rewrite <- app_assoc; reflexivity).
  destruct more as [|r' more'].
  - rewrite app_nil_r. unfold end_pos. rewrite fold_left_app. cbn [fold_left]. apply advance_lt.
  - eapply pos_lt_trans; [|apply IH; discriminate].
    unfold end_pos. rewrite fold_left_app. cbn [fold_left]. apply advance_lt.
Qed.

Lemma prefix_cases {A} : forall (a b : list A) x y, a ++ x = b ++ y ->
  (exists m, b = a ++ m) \/ (exists m, a = b ++ m).
Proof.
  induction a as [|h a IH]; intros b x y E.
  - left. exists b. reflexivity.
  - destruct b as [|h' b]; [right; exists (h :: a); reflexivity|].
    cbn in E. injection E as <- E. destruct (IH _ _ _ E) as [[m ->]|[m ->]].
    + left. exists m. reflexivity.
    + right. exists m. reflexivity.
Qed.

(* the same position cannot designate two different places of the input *)
Theorem position_unique rs pre1 suf1 pre2 suf2 :
  rs = pre1 ++ suf1 -> rs = pre2 ++ suf2 -> end_pos pre1 = end_pos pre2 -> pre1 = pre2.
Proof.
  intros E1 E2 Hp. rewrite E1 in E2.
  destruct (prefix_cases _ _ _ _ E2) as [[m ->]|[m ->]].
  - destruct m as [|x m]; [rewrite app_nil_r; reflexivity|].
    exfalso. pose proof (end_pos_app_lt (x :: m) pre1 ltac:(discriminate)) as L.
    rewrite <- Hp in L. exact (pos_lt_irrefl _ L).
  - destruct m as [|x m]; [rewrite app_nil_r; reflexivity|].
    exfalso. pose proof (end_pos_app_lt (x :: m) pre2 ltac:(discriminate)) as L.
    rewrite Hp in L. exact (pos_lt_irrefl _ L).
Qed.

(* PeekToken is coherent with NextToken: peeking changes nothing that NextToken delivers - after
   PeekToken returned t, NextToken returns the same t and reaches the state NextToken alone
   would have reached.  (Parser.ReadPeek relies on it in its line-feed loop; Model/Pump.v treats
   PeekToken as looking at the head of the token stream.) *)
Lemma set_peeks_id st : set_peeks st (peeks st) = st.
Proof. destruct st. reflexivity. Qed.

Theorem peek_then_next n st t st1 :
  peek_token n st = OK (t, st1) ->
  exists st2, next_token n st1 = OK (t, st2) /\ next_token n st = OK (t, st2).
Proof.
  unfold peek_token. destruct (peeks st) as [|h ps] eqn:P.
  - destruct (next_token n st) as [[t0 s]| | |] eqn:N; cbn [bind]; try discriminate.
    intros [= <- <-]. exists s. split; [|reflexivity].
    unfold next_token at 1. cbn [set_peeks peeks].
    f_equal. f_equal. destruct s. reflexivity.
  - intros [= <- <-]. unfold next_token. rewrite P. eauto.
Qed.

(* a second PeekToken returns the same token and changes nothing *)
Theorem peek_idempotent n st t st1 :
  peek_token n st = OK (t, st1) -> peek_token n st1 = OK (t, st1).
Proof.
  unfold peek_token. destruct (peeks st) as [|h ps] eqn:P.
  - destruct (next_token n st) as [[t0 s]| | |]; cbn [bind]; try discriminate.
    intros [= <- <-]. reflexivity.
  - intros [= <- <-]. rewrite P. reflexivity.
Qed.
