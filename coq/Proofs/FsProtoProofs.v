(* C16 - the repaired `fmt --write` protocol is atomic for every fault assignment and every
   crash point; the protocol before the repair is not. *)
From Coq Require Import List NArith Bool Lia PeanoNat.
From Coq Require Import Strings.Byte.
From Falco Require Import Base.Bytes Model.FsProto.
Import ListNotations.

Definition touches_file (e : eff) : bool :=
  match e with
  | ETrunc p | ECreate p | ERemove p => path_eqb p FILE
  | EAppend p _ => path_eqb p FILE
  | ERename s d => path_eqb s FILE || path_eqb d FILE
  end.
Definition quiet (es : list eff) : bool := forallb (fun e => negb (touches_file e)) es.

Lemma path_eqb_refl p : path_eqb p p = true.
Proof. destruct p; simpl; try reflexivity. apply Nat.eqb_refl. Qed.

Lemma apply_eff_file e f : touches_file e = false -> apply_eff e f FILE = f FILE.
Proof.
  destruct e as [p|p|p b|s d|p]; simpl; unfold fs_set; intros H.
  - destruct (f p); [rewrite H|]; reflexivity.
  - rewrite H. reflexivity.
  - destruct (f p); [rewrite H|]; reflexivity.
  - apply orb_false_iff in H. destruct H as [H1 H2]. destruct (f s); [rewrite H1, H2|]; reflexivity.
  - rewrite H. reflexivity.
Qed.

Lemma run_effs_quiet es : forall f, quiet es = true -> run_effs es f FILE = f FILE.
Proof.
  induction es as [|e es IH]; intros f H; [reflexivity|].
  simpl in H. apply andb_true_iff in H. destruct H as [He Hes]. apply negb_true_iff in He.
  simpl. rewrite (IH _ Hes). apply apply_eff_file. exact He.
Qed.

Lemma quiet_firstn k es : quiet es = true -> quiet (firstn k es) = true.
Proof.
  unfold quiet. intros H. apply forallb_forall. intros e He. rewrite forallb_forall in H.
  apply H. exact (firstn_In _ _ _ _ He) || exact (In_firstn _ _ _ He) || idtac.
  revert k He. induction es as [|x es IH]; intros [|k] He; simpl in *; try contradiction.
  destruct He as [->|He]; [left; reflexivity | right; eapply IH; [|exact He]].
  intros y Hy. apply H. right. exact Hy.
Qed.

Lemma quiet_app a b : quiet (a ++ b) = quiet a && quiet b.
Proof. unfold quiet. apply forallb_app. Qed.

Lemma quiet_appends d : quiet (map (EAppend TMP) d) = true.
Proof. induction d as [|b d IH]; [reflexivity | exact IH]. Qed.

Lemma run_effs_app a : forall b f, run_effs (a ++ b) f = run_effs b (run_effs a f).
Proof. induction a as [|e a IH]; intros b f; [reflexivity | simpl; apply IH]. Qed.

Lemma run_appends p d : forall f x, f p = Some x -> run_effs (map (EAppend p) d) f p = Some (x ++ d).
Proof.
  induction d as [|b d IH]; intros f x H; simpl.
  - rewrite app_nil_r. exact H.
  - rewrite H. rewrite (IH _ (x ++ [b])).
    + rewrite <- app_assoc. reflexivity.
    + unfold fs_set. rewrite path_eqb_refl. reflexivity.
Qed.

(* the successful run: create, all the bytes, rename *)
Definition ok_effs (out : bytes) : list eff := ECreate TMP :: map (EAppend TMP) out ++ [ERename TMP FILE].

Lemma run_ok_effs out f : run_effs (ok_effs out) f FILE = Some out.
Proof.
  unfold ok_effs. simpl. rewrite run_effs_app. simpl.
  rewrite (run_appends TMP out (fs_set f TMP (Some [])) []).
  - unfold fs_set. simpl. reflexivity.
  - unfold fs_set. reflexivity.
Qed.

Lemma quiet_cons e l : quiet (e :: l) = negb (touches_file e) && quiet l.
Proof. reflexivity. Qed.

Ltac cb := cbn [is_none_fault fst snd app exec effects_of cleanup_effs].
Ltac fail_branch faults :=
  cb; repeat (match goal with |- context [faults ?n] => destruct (faults n); cb end);
  right; (split; [reflexivity | rewrite ?quiet_cons, ?quiet_app, ?quiet_cons, ?quiet_appends; reflexivity]).

(* shape of every execution of the repaired protocol *)
Lemma exec_fmt_w_ok out faults :
  (snd (exec 0 faults (fmt_w (FmtOk out))) = 0 /\ fst (exec 0 faults (fmt_w (FmtOk out))) = ok_effs out) \/
  (snd (exec 0 faults (fmt_w (FmtOk out))) = 1 /\ quiet (fst (exec 0 faults (fmt_w (FmtOk out)))) = true).
Proof.
  unfold fmt_w, cl_open, cl_closed, ok_effs.
  cbn [exec effects_of cleanup_effs].
  destruct (faults 0). 2: { fail_branch faults. } 2: { fail_branch faults. } cb.
  destruct (faults 1). 2: { fail_branch faults. } 2: { fail_branch faults. } cb.
  destruct (faults 2). 2: { fail_branch faults. } 2: { fail_branch faults. } cb.
  destruct (faults 3). 2: { fail_branch faults. } 2: { fail_branch faults. } cb.
  destruct (faults 4). 2: { fail_branch faults. } 2: { fail_branch faults. } cb.
  destruct (faults 5). 2: { fail_branch faults. } 2: { fail_branch faults. } cb.
  destruct (faults 6). 2: { fail_branch faults. } 2: { fail_branch faults. } cb.
  destruct (faults 7). 2: { fail_branch faults. } 2: { fail_branch faults. } cb.
  left. split; reflexivity.
Qed.

Section Atomic.
Variable formatted : bytes -> fmt_result.

Theorem write_atomic content faults k fs0 :
  fs0 FILE = Some content ->
  let fs' := run_prefix k (inject faults (fmt_w (formatted content))) fs0 in
  fs' FILE = Some content \/ (exists out, formatted content = FmtOk out /\ fs' FILE = Some out).
Proof.
  intros H0. cbv zeta. unfold run_prefix, inject.
  destruct (formatted content) as [out| | |] eqn:E;
    try (left; simpl; destruct k; simpl; exact H0).
  destruct (exec_fmt_w_ok out faults) as [[_ Hes]|[_ Hq]].
  - rewrite Hes. unfold ok_effs.
    destruct (Nat.le_gt_cases k (length (ECreate TMP :: map (EAppend TMP) out))) as [Hk|Hk].
    + left. change (ECreate TMP :: map (EAppend TMP) out ++ [ERename TMP FILE])
        with ((ECreate TMP :: map (EAppend TMP) out) ++ [ERename TMP FILE]).
      rewrite firstn_app. replace (k - length (ECreate TMP :: map (EAppend TMP) out)) with 0 by lia.
      simpl firstn at 2. rewrite app_nil_r.
      rewrite run_effs_quiet; [exact H0|]. apply quiet_firstn. simpl. apply quiet_appends.
    + right. exists out. split; [reflexivity|].
      rewrite firstn_all2.
      * apply run_ok_effs.
      * simpl in *. rewrite app_length in *. simpl. lia.
  - left. rewrite run_effs_quiet; [exact H0 | apply quiet_firstn; exact Hq].
Qed.

(* whenever the command fails (non-zero exit status), at NO point of the run was the file
   anything else than its original bytes *)
Theorem failure_preserves content faults fs0 :
  fs0 FILE = Some content ->
  exit_of faults (formatted content) <> 0 ->
  forall k, run_prefix k (inject faults (fmt_w (formatted content))) fs0 FILE = Some content.
Proof.
  intros H0 Hx k. unfold run_prefix, inject, exit_of in *.
  destruct (formatted content) as [out| | |] eqn:E; try (simpl; destruct k; simpl; exact H0).
  destruct (exec_fmt_w_ok out faults) as [[Hz _]|[_ Hq]].
  - rewrite Hz in Hx. simpl in Hx. congruence.
  - rewrite run_effs_quiet; [exact H0 | apply quiet_firstn; exact Hq].
Qed.

(* a run that reports success has formatted the file *)
Theorem success_formats content faults fs0 :
  fs0 FILE = Some content ->
  exit_of faults (formatted content) = 0 ->
  exists out, formatted content = FmtOk out /\
    run_effs (inject faults (fmt_w (formatted content))) fs0 FILE = Some out.
Proof.
  intros H0 Hx. unfold inject, exit_of in *.
  destruct (formatted content) as [out| | |] eqn:E; try (simpl in Hx; discriminate).
  exists out. split; [reflexivity|].
  destruct (exec_fmt_w_ok out faults) as [[_ Hes]|[Ho _]].
  - rewrite Hes. apply run_ok_effs.
  - rewrite Ho in Hx. discriminate.
Qed.

(* a process killed before the rename leaves the original bytes *)
Theorem kill_before_rename content faults k fs0 :
  fs0 FILE = Some content ->
  ~ In (ERename TMP FILE) (firstn k (inject faults (fmt_w (formatted content)))) ->
  run_prefix k (inject faults (fmt_w (formatted content))) fs0 FILE = Some content.
Proof.
  intros H0 Hn. unfold run_prefix, inject in *.
  destruct (formatted content) as [out| | |] eqn:E; try (simpl; destruct k; simpl; exact H0).
  destruct (exec_fmt_w_ok out faults) as [[_ Hes]|[_ Hq]].
  - rewrite Hes in *. rewrite run_effs_quiet; [exact H0|].
    unfold quiet. apply forallb_forall. intros e He.
    assert (Hin : In e (ok_effs out)).
    { clear - He. revert k He. generalize (ok_effs out). induction l as [|x l IH]; intros [|k] He; simpl in *; try contradiction.
      destruct He as [->|He]; [left; reflexivity | right; exact (IH k He)]. }
    unfold ok_effs in Hin. simpl in Hin. destruct Hin as [<-|Hin]; [reflexivity|].
    apply in_app_or in Hin. destruct Hin as [Hin|[<-|[]]].
    + apply in_map_iff in Hin. destruct Hin as (b & <- & _). reflexivity.
    + contradiction.
  - rewrite run_effs_quiet; [exact H0 | apply quiet_firstn; exact Hq].
Qed.
End Atomic.

(* ---- the protocol before the repair ---- *)
Definition fs_of (content : bytes) : fs := fun p => match p with FILE => Some content | _ => None end.
Definition no_faults : nat -> fault := fun _ => FNone.

(* a statement-only snippet: the file is truncated, then the program panics *)
Theorem trunc_first_refuted :
  exists (formatted : bytes -> fmt_result) content faults k fs0,
    fs0 FILE = Some content /\
    let fs' := run_prefix k (inject faults (fmt_w_old (formatted content))) fs0 in
    fs' FILE <> Some content /\ (forall out, formatted content = FmtOk out -> fs' FILE <> Some out).
Proof.
  exists (fun _ => FmtNil), [x73; x3b], no_faults, 1, (fs_of [x73; x3b]).
  split; [reflexivity|]. cbv zeta. split.
  - vm_compute. discriminate.
  - intros out H. discriminate.
Qed.

(* ... and it reports failure with the file damaged *)
Theorem old_failure_damages :
  exists (formatted : bytes -> fmt_result) content faults fs0,
    fs0 FILE = Some content /\ exit_of_old faults (formatted content) <> 0 /\
    run_effs (inject faults (fmt_w_old (formatted content))) fs0 FILE <> Some content.
Proof.
  exists (fun _ => FmtNil), [x73; x3b], no_faults, (fs_of [x73; x3b]).
  split; [reflexivity|]. split; vm_compute; discriminate.
Qed.

(* a well-formed file: killed (or a short write) in the middle of the copy leaves neither text *)
Theorem old_midwrite_refuted :
  exists (formatted : bytes -> fmt_result) content faults k fs0 out,
    fs0 FILE = Some content /\ formatted content = FmtOk out /\
    let fs' := run_prefix k (inject faults (fmt_w_old (formatted content))) fs0 in
    fs' FILE <> Some content /\ fs' FILE <> Some out.
Proof.
  exists (fun _ => FmtOk [x61; x62]), [x63], no_faults, 2, (fs_of [x63]), [x61; x62].
  split; [reflexivity|]. split; [reflexivity|]. cbv zeta. split; vm_compute; discriminate.
Qed.

(* witnesses for the repaired protocol: a short write at byte 1 of 2, clean-up runs, exit 1 *)
Example short_write_witness :
  let faults := fun i => match i with 3 => FShort 1 | _ => FNone end in
  exit_of faults (FmtOk [x61; x62]) = 1 /\
  inject faults (fmt_w (FmtOk [x61; x62])) = [ECreate TMP; EAppend TMP x61; ERemove TMP] /\
  run_effs (inject faults (fmt_w (FmtOk [x61; x62]))) (fs_of [x63]) FILE = Some [x63] /\
  run_effs (inject faults (fmt_w (FmtOk [x61; x62]))) (fs_of [x63]) TMP = None.
Proof. vm_compute. repeat split; reflexivity. Qed.

Example success_witness :
  exit_of no_faults (FmtOk [x61; x62]) = 0 /\
  run_effs (inject no_faults (fmt_w (FmtOk [x61; x62]))) (fs_of [x63]) FILE = Some [x61; x62] /\
  run_effs (inject no_faults (fmt_w (FmtOk [x61; x62]))) (fs_of [x63]) TMP = None.
Proof. vm_compute. repeat split; reflexivity. Qed.

(* ---- the statements of the file ----
   [tree] reads a content as its declarations and statements (None: not a program); the oracle
   hypothesis [keeps formatted tree] says that whenever parser + formatter produce a text, the
   text reads as the statements of the input.  Under it a run never leaves FILE with another
   statement list - at no moment, whatever fails - and a run that reports success leaves the
   formatted text, which has all of them. *)
Definition keeps {T : Type} (formatted : bytes -> fmt_result) (tree : bytes -> option T) : Prop :=
  forall c out, formatted c = FmtOk out -> tree c <> None /\ tree out = tree c.

Theorem statements_never_lost {T : Type} (tree : bytes -> option T) (formatted : bytes -> fmt_result)
  content faults k fs0 :
  keeps formatted tree -> fs0 FILE = Some content ->
  exists d, run_prefix k (inject faults (fmt_w (formatted content))) fs0 FILE = Some d /\ tree d = tree content.
Proof.
  intros Hk H0. destruct (write_atomic formatted content faults k fs0 H0) as [H | (out & Ho & H)].
  - exists content. split; [exact H | reflexivity].
  - exists out. split; [exact H | exact (proj2 (Hk content out Ho))].
Qed.

Theorem success_keeps_statements {T : Type} (tree : bytes -> option T) (formatted : bytes -> fmt_result)
  content faults fs0 :
  keeps formatted tree -> fs0 FILE = Some content -> exit_of faults (formatted content) = 0 ->
  exists out, formatted content = FmtOk out /\
    run_effs (inject faults (fmt_w (formatted content))) fs0 FILE = Some out /\
    tree out = tree content /\ tree content <> None.
Proof.
  intros Hk H0 He. destruct (success_formats formatted content faults fs0 H0 He) as (out & Ho & H).
  exists out. destruct (Hk content out Ho) as [A B]. repeat split; assumption.
Qed.

(* the hypothesis is what fails for a formatter that skips what it cannot print: FILE reads as
   fewer statements after a successful run *)
Theorem skipping_formatter_refuted :
  exists (tree : bytes -> option nat) (formatted : bytes -> fmt_result) content faults fs0,
    fs0 FILE = Some content /\ exit_of faults (formatted content) = 0 /\
    exists d, run_effs (inject faults (fmt_w (formatted content))) fs0 FILE = Some d /\ tree d <> tree content.
Proof.
  exists (fun c => Some (length c)), (fun _ => FmtOk []), [x73; x3b], no_faults, (fs_of [x73; x3b]).
  split; [reflexivity|]. split; [reflexivity|]. exists []. split; [vm_compute; reflexivity | discriminate].
Qed.
