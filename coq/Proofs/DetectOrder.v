(* C11 - detectRecursion terminates on every call graph, the set it computes does not depend on
   the key order of the map, and the map-ordered report passes produce the same multiset of
   diagnostics for every key order. *)
From Coq Require Import List Arith Bool Lia Permutation.
From Falco Require Import Base.Res Model.ScopeInfer.
Import ListNotations.

Lemma mname_In x l : mname x l = true <-> In x l.
Proof.
  unfold mname. rewrite existsb_exists. split.
  - intros [y [Hy E]]. apply Nat.eqb_eq in E. subst. exact Hy.
  - intros H. exists x. split; [exact H | apply Nat.eqb_refl].
Qed.
Lemma mname_false x l : mname x l = false <-> ~ In x l.
Proof. rewrite <- mname_In. destruct (mname x l); split; intros; congruence. Qed.

Section DetectTotal.
Variable callees : name -> list name.
Variable nodes : list name.
Hypothesis nodes_closed : forall n, In n nodes -> incl (callees n) nodes.

Definition any_f (f : nat) :=
  fix any (l : list name) (st : dst) : res (bool * dst * list name) :=
    match l with
    | [] => OK (false, st, [])
    | c :: rest =>
      do r1 <- dfs callees f c st;
      let '(b, st', w) := r1 in
      if b then OK (true, st', w)
      else do r2 <- any rest st';
           let '(b2, st'', w2) := r2 in OK (b2, st'', w ++ w2)
    end.

Lemma dfs_S f n st :
  dfs callees (S f) n st =
  if mname n (path st) then OK (true, st, [])
  else if mname n (visited st) then OK (false, st, [])
  else
    let st1 := {| visited := n :: visited st; path := n :: path st |} in
    do r <- any_f f (callees n) st1;
    let '(found, st2, w) := r in
    if found then OK (true, st2, w ++ [n])
    else OK (false, {| visited := visited st2; path := rname n (path st2) |}, w).
Proof. reflexivity. Qed.

Definition good (st : dst) : Prop := NoDup (visited st) /\ incl (visited st) nodes.

(* every call that does real work adds a fresh node to `visited`, which never shrinks, so the
   recursion depth is bounded by the number of nodes *)
Lemma dfs_ok :
  forall fuel n st,
    good st -> In n nodes -> length nodes - length (visited st) < fuel ->
    exists b st' w, dfs callees fuel n st = OK (b, st', w) /\ good st' /\
                    length (visited st) <= length (visited st').
Proof.
  induction fuel as [|f IH]; intros n st G Hn Hlt; [lia|].
  rewrite dfs_S.
  destruct (mname n (path st)); [exists true, st, []; auto|].
  destruct (mname n (visited st)) eqn:Mv; [exists false, st, []; auto|].
  apply mname_false in Mv. destruct G as [ND INC].
  set (st1 := {| visited := n :: visited st; path := n :: path st |}).
  assert (G1 : good st1).
  { split; cbn; [constructor; assumption | intros x [->|Hx]; auto]. }
  assert (Hlen : S (length (visited st)) <= length nodes).
  { destruct G1 as [ND1 INC1]. apply (NoDup_incl_length ND1 INC1). }
  assert (Hany : forall l st0, good st0 -> incl l nodes ->
             length nodes - length (visited st0) < f ->
             exists b st' w, any_f f l st0 = OK (b, st', w) /\ good st' /\
                             length (visited st0) <= length (visited st')).
  { induction l as [|c rest IHl]; intros st0 G0 Hl Hf; cbn [any_f].
    - exists false, st0, []. auto.
    - fold (any_f f).
      destruct (IH c st0 G0 (Hl c (or_introl eq_refl)) Hf) as (b & st' & w & E & G' & L').
      rewrite E. cbn [bind]. destruct b.
      + exists true, st', w. auto.
      + destruct (IHl st' G' (fun x Hx => Hl x (or_intror Hx))) as (b2 & st'' & w2 & E2 & G'' & L''); [lia|].
        rewrite E2. cbn [bind]. exists b2, st'', (w ++ w2). repeat split; try apply G''. lia. }
  destruct (Hany (callees n) st1 G1 (nodes_closed n Hn)) as (found & st2 & w & E & G2 & L2).
  { cbn [visited st1 length]. lia. }
  cbv zeta. fold st1. rewrite E. cbn [bind]. cbn [visited st1 length] in L2.
  destruct found.
  - exists true, st2, (w ++ [n]). repeat split; try apply G2. lia.
  - eexists false, _, w. split; [reflexivity|]. split; [exact G2 | cbn [visited]; lia].
Qed.

Lemma marks_ok start :
  In start nodes -> exists w, marks callees (S (length nodes)) start = OK w.
Proof.
  intros Hs. unfold marks.
  destruct (dfs_ok (S (length nodes)) start {| visited := []; path := [] |}) as (b & st' & w & E & _).
  - split; cbn; [constructor | intros x []].
  - exact Hs.
  - cbn. lia.
  - rewrite E. cbn [bind]. eauto.
Qed.

Definition marks_of (fuel : nat) (s : name) : list name :=
  match marks callees fuel s with OK w => w | _ => [] end.

Lemma detect_flat fuel order :
  (forall s, In s order -> exists w, marks callees fuel s = OK w) ->
  detect callees fuel order = OK (flat_map (marks_of fuel) order).
Proof.
  induction order as [|s r IH]; intros H; cbn [detect flat_map]; [reflexivity|].
  destruct (H s (or_introl eq_refl)) as [w Hw].
  unfold marks_of at 1. rewrite Hw. cbn [bind].
  rewrite IH by (intros; apply H; right; assumption). reflexivity.
Qed.

Theorem detect_total order :
  incl order nodes -> exists w, detect callees (S (length nodes)) order = OK w.
Proof.
  intros Hinc. eexists. apply detect_flat. intros s Hs. apply marks_ok. apply Hinc. exact Hs.
Qed.

(* the writes into inCycle are the same multiset for every enumeration order of the keys *)
Theorem cycle_set_order_free order order' :
  Permutation order order' -> incl order nodes ->
  exists w w', detect callees (S (length nodes)) order = OK w /\
               detect callees (S (length nodes)) order' = OK w' /\
               Permutation w w' /\ (forall n, In n w <-> In n w').
Proof.
  intros HP Hinc.
  assert (Hinc' : incl order' nodes).
  { intros x Hx. apply Hinc. eapply Permutation_in; [apply Permutation_sym; exact HP | exact Hx]. }
  exists (flat_map (marks_of (S (length nodes))) order), (flat_map (marks_of (S (length nodes))) order').
  assert (P : Permutation (flat_map (marks_of (S (length nodes))) order)
                          (flat_map (marks_of (S (length nodes))) order'))
    by (apply Permutation_flat_map; exact HP).
  repeat split.
  - apply detect_flat. intros s Hs. apply marks_ok. auto.
  - apply detect_flat. intros s Hs. apply marks_ok. auto.
  - exact P.
  - apply Permutation_in. exact P.
  - apply Permutation_in. apply Permutation_sym. exact P.
Qed.
End DetectTotal.

(* map-ordered report passes *)
Theorem unused_multiset_order_free (D : Type) (report : name -> option D) order order' :
  Permutation order order' -> Permutation (unused D report order) (unused D report order').
Proof. intros HP. unfold unused. apply Permutation_flat_map. exact HP. Qed.

(* a pass that stops after the first k diagnostics (a truncated list) is NOT order free: the
   statement above is about the untruncated fold the code performs *)
Example truncated_not_order_free :
  let report := fun k : name => Some k in
  firstn 1 (unused nat report [1; 2]) <> firstn 1 (unused nat report [2; 1]).
Proof. cbn. discriminate. Qed.
