(* C17 - the scanner of Model/HdrField.v on rendered item lists, part 2:
   find_field / get_field / unset_field / set_field on [render its] are the list operations. *)
From Coq Require Import List NArith Bool Lia.
From Coq Require Import Strings.Byte.
From Falco Require Import Base.Bytes Model.HdrField Model.Hdr Model.HdrSpec Proofs.HdrBytes Proofs.HdrScan.
Import ListNotations.

(* well-formedness with respect to ONE searched key *)
Definition val_okk (k : bytes) (v : ival) : bool :=
  match v with
  | IBare => true
  | IRaw r => forallb nonsep r && negb (first_is c_dq r)
  | IQuoted q => negb (is_nil q) && negb (ends_bs q) && noembed k (esc q)
  end.
Definition item_okk (k : bytes) (it : item) : bool :=
  forallb is_ws (i_lead it) && key_ok (i_key it) && val_okk k (i_val it).

Definition rawcap (it : item) : bytes :=
  match i_val it with IBare => [] | IRaw r => r | IQuoted q => c_dq :: esc q ++ [c_dq] end.

Definition sep_of (rest : list item) : bytes := match rest with [] => [] | _ => [c_comma] end.
Definition tail_of (rest : list item) : bytes := match rest with [] => [] | _ => c_comma :: render rest end.

Lemma render_cons it rest : render (it :: rest) = render_item it ++ tail_of rest.
Proof. reflexivity. Qed.

Lemma tail_of_ok rest : tail_ok (tail_of rest).
Proof. destruct rest; [left; reflexivity | right; eexists; reflexivity]. Qed.

Lemma term_tail_of rest : term_tail (tail_of rest) = (sep_of rest, render rest).
Proof. destruct rest; reflexivity. Qed.

(* ---- after the key ---- *)
Lemma after_key_bare w0 km tail : tail_ok tail ->
  after_key w0 km tail = Some (w0 ++ km ++ fst (term_tail tail), snd (term_tail tail), []).
Proof. intros [->|[m ->]]; reflexivity. Qed.

Lemma capture_raw r tail : forallb nonsep r = true -> first_is c_dq r = false -> tail_ok tail ->
  capture (r ++ tail) = (r, tail).
Proof.
  intros Hr Hq Ht.
  assert (Hs : span nonsep (r ++ tail) = (r, tail)).
  { apply span_app; [exact Hr|]. apply (tail_hd_not nonsep tail Ht). reflexivity. }
  destruct r as [|c r'].
  - simpl app in *. destruct Ht as [->|[m ->]]; reflexivity.
  - simpl app in *. unfold capture. simpl in Hq. rewrite Hq. exact Hs.
Qed.

Lemma after_key_raw w0 km r tail :
  forallb nonsep r = true -> first_is c_dq r = false -> tail_ok tail ->
  after_key w0 km (c_eq :: r ++ tail) =
    Some (w0 ++ km ++ c_eq :: r ++ fst (term_tail tail), snd (term_tail tail), r).
Proof.
  intros Hr Hq Ht. unfold after_key.
  rewrite (span_nil_hd is_ws c_eq _ ws_eq). rewrite byte_eqb_refl.
  assert (Hw : span is_ws (r ++ tail) = ([], r ++ tail)).
  { destruct r as [|c r'].
    - simpl. destruct Ht as [->|[m ->]]; reflexivity.
    - simpl in Hr. apply andb_true_iff in Hr. destruct Hr as [Hc _].
      unfold nonsep in Hc. apply andb_true_iff in Hc. destruct Hc as [_ Hc]. apply negb_true_iff in Hc.
      simpl app. apply span_nil_hd. exact Hc. }
  rewrite Hw. rewrite (capture_raw r tail Hr Hq Ht). rewrite (term_tail_eq tail Ht).
  destruct (term_tail tail) as [tm post]. reflexivity.
Qed.

Lemma after_key_quoted w0 km q tail :
  q <> [] -> ends_bs q = false -> tail_ok tail ->
  after_key w0 km (c_eq :: c_dq :: esc q ++ c_dq :: tail) =
    Some (w0 ++ km ++ c_eq :: c_dq :: esc q ++ c_dq :: fst (term_tail tail), snd (term_tail tail),
          c_dq :: esc q ++ [c_dq]).
Proof.
  intros Hq Hbs Ht. unfold after_key.
  rewrite (span_nil_hd is_ws c_eq _ ws_eq). rewrite byte_eqb_refl.
  rewrite (span_nil_hd is_ws c_dq _ ws_dq).
  unfold capture. rewrite byte_eqb_refl.
  rewrite (qscan_esc q false tail Hbs (or_intror Hq) (term_ok_tail tail Ht)).
  rewrite (term_tail_eq tail Ht). destruct (term_tail tail) as [tm post].
  simpl. rewrite <- app_assoc. reflexivity.
Qed.

Lemma after_key_keychar w0 km c s : keychar c = true -> after_key w0 km (c :: s) = None.
Proof.
  intros H. apply keychar_inv in H. destruct H as (H1 & H2 & H3 & _).
  unfold after_key. rewrite (span_nil_hd is_ws c s H1). rewrite H3.
  rewrite (term_none c s H1 H2). reflexivity.
Qed.

(* ---- the expression at the beginning of a rendered item ---- *)
Lemma span_lead it rest : item_okk (i_key it) it = true \/ True ->
  forallb is_ws (i_lead it) = true -> key_ok (i_key it) = true ->
  span is_ws (i_lead it ++ i_key it ++ rest) = (i_lead it, i_key it ++ rest).
Proof.
  intros _ Hl Hk. apply span_app; [exact Hl|].
  apply key_ok_inv in Hk. destruct Hk as (c & k' & -> & Hc & _).
  apply keychar_inv in Hc. simpl. tauto.
Qed.

Lemma stop_hd_val v tail : tail_ok tail -> stop_hd (render_val v ++ tail).
Proof.
  intros Ht. destruct v; simpl; auto.
  destruct Ht as [->|[m ->]]; simpl; auto.
Qed.

Lemma match_at_hit k it tail :
  item_okk k it = true -> keq k (i_key it) = true -> tail_ok tail ->
  match_at k (render_item it ++ tail) =
    Some (render_item it ++ fst (term_tail tail), snd (term_tail tail), rawcap it).
Proof.
  intros Hok Hk Ht. unfold item_okk in Hok.
  apply andb_true_iff in Hok. destruct Hok as [Hok Hv]. apply andb_true_iff in Hok. destruct Hok as [Hl Hkey].
  unfold match_at, render_item. rewrite <- !app_assoc.
  rewrite (span_lead it _ (or_intror I) Hl Hkey).
  rewrite (strip_key_keq k (i_key it) _ Hk).
  unfold rawcap. destruct (i_val it) as [|r|q]; simpl render_val; simpl in Hv.
  - simpl app. rewrite (after_key_bare _ _ tail Ht). destruct (term_tail tail). simpl. reflexivity.
  - apply andb_true_iff in Hv. destruct Hv as [Hr Hq]. apply negb_true_iff in Hq.
    simpl app. rewrite (after_key_raw _ _ r tail Hr Hq Ht). destruct (term_tail tail). simpl.
    rewrite <- ?app_assoc. reflexivity.
  - apply andb_true_iff in Hv. destruct Hv as [Hv _]. apply andb_true_iff in Hv. destruct Hv as [Hq Hbs].
    apply negb_true_iff in Hbs.
    assert (Hq' : q <> []) by (destruct q; [discriminate | congruence]).
    simpl app. rewrite <- app_assoc. simpl app.
    rewrite (after_key_quoted _ _ q tail Hq' Hbs Ht). destruct (term_tail tail). simpl.
    rewrite <- ?app_assoc. reflexivity.
Qed.

Lemma match_at_miss k it tail :
  key_ok k = true -> item_okk k it = true -> keq k (i_key it) = false -> tail_ok tail ->
  match_at k (render_item it ++ tail) = None.
Proof.
  intros Hkk Hok Hk Ht. unfold item_okk in Hok.
  apply andb_true_iff in Hok. destruct Hok as [Hok Hv]. apply andb_true_iff in Hok. destruct Hok as [Hl Hkey].
  unfold match_at, render_item. rewrite <- !app_assoc.
  rewrite (span_lead it _ (or_intror I) Hl Hkey).
  pose proof (strip_key_miss k (i_key it) (render_val (i_val it) ++ tail)
                (key_ok_all k Hkk) (key_ok_all _ Hkey) Hk (stop_hd_val _ tail Ht)) as H.
  destruct (strip_key k (i_key it ++ render_val (i_val it) ++ tail)) as [[km r]|]; [|reflexivity].
  destruct H as (c & r' & -> & Hc). apply after_key_keychar. exact Hc.
Qed.

(* commas inside a rendered item never start a match *)
Lemma nocomma_ws l : forallb is_ws l = true -> forallb (fun c => negb (byte_eqb c c_comma)) l = true.
Proof.
  induction l as [|c l IH]; simpl; intros H; [reflexivity|].
  apply andb_true_iff in H. destruct H as [Hc Hl]. rewrite (IH Hl), andb_true_r.
  apply negb_true_iff. apply byte_eqb_neq. intros ->. rewrite ws_comma in Hc. discriminate.
Qed.

Lemma nocomma_key l : forallb keychar l = true -> forallb (fun c => negb (byte_eqb c c_comma)) l = true.
Proof.
  induction l as [|c l IH]; simpl; intros H; [reflexivity|].
  apply andb_true_iff in H. destruct H as [Hc Hl]. rewrite (IH Hl), andb_true_r.
  apply keychar_inv in Hc. apply negb_true_iff. tauto.
Qed.

Lemma nocomma_nonsep l : forallb nonsep l = true -> forallb (fun c => negb (byte_eqb c c_comma)) l = true.
Proof.
  induction l as [|c l IH]; simpl; intros H; [reflexivity|].
  apply andb_true_iff in H. destruct H as [Hc Hl]. rewrite (IH Hl), andb_true_r.
  unfold nonsep in Hc. apply andb_true_iff in Hc. tauto.
Qed.

Lemma commas_miss_item k it tail :
  key_ok k = true -> item_okk k it = true -> commas_miss k (render_item it) tail.
Proof.
  intros Hkk Hok. unfold item_okk in Hok.
  apply andb_true_iff in Hok. destruct Hok as [Hok Hv]. apply andb_true_iff in Hok. destruct Hok as [Hl Hkey].
  unfold render_item.
  apply commas_miss_app; [apply commas_miss_nocomma, nocomma_ws, Hl|].
  apply commas_miss_app; [apply commas_miss_nocomma, nocomma_key, key_ok_all, Hkey|].
  destruct (i_val it) as [|r|q]; simpl render_val; simpl in Hv.
  - exact I.
  - apply andb_true_iff in Hv. destruct Hv as [Hr _].
    apply commas_miss_nocomma. simpl. apply nocomma_nonsep. exact Hr.
  - apply andb_true_iff in Hv. destruct Hv as [_ Hne].
    change (c_eq :: c_dq :: esc q ++ [c_dq]) with ([c_eq; c_dq] ++ esc q ++ [c_dq]).
    apply commas_miss_app; [apply commas_miss_nocomma; reflexivity|].
    apply commas_miss_app; [|apply commas_miss_nocomma; reflexivity].
    simpl app. apply commas_miss_noembed; assumption.
Qed.

(* ---- find_field on a rendered list ---- *)
Fixpoint split_at (k : bytes) (its : list item) : option (list item * item * list item) :=
  match its with
  | [] => None
  | it :: rest =>
    if keq k (i_key it) then Some ([], it, rest)
    else match split_at k rest with
         | Some (b, x, a) => Some (it :: b, x, a)
         | None => None
         end
  end.

Lemma find_comma_step k t :
  find_comma k (c_comma :: t) =
    match match_at k t with
    | Some (m, post, cap) => Some ([], c_comma :: m, post, cap)
    | None => lift [c_comma] (find_comma k t)
    end.
Proof.
  simpl. destruct (match_at k t) as [[[m post] cap]|]; [reflexivity|].
  destruct (find_comma k t) as [[[[pre mid] post] cap]|]; reflexivity.
Qed.

Lemma find_comma_render k : key_ok k = true -> forall its,
  forallb (item_okk k) its = true ->
  match its with [] => True | it :: _ => keq k (i_key it) = false end ->
  find_comma k (render its) =
    match split_at k its with
    | None => None
    | Some (b, x, a) => Some (render b, c_comma :: render_item x ++ sep_of a, render a, rawcap x)
    end.
Proof.
  intros Hkk. induction its as [|it rest IH]; intros Hok Hhd; [reflexivity|].
  simpl in Hok. apply andb_true_iff in Hok. destruct Hok as [Hit Hrest].
  rewrite render_cons. rewrite (find_comma_app k _ _ (commas_miss_item k it _ Hkk Hit)).
  simpl split_at. rewrite Hhd.
  destruct rest as [|it2 r2].
  - reflexivity.
  - unfold tail_of. rewrite find_comma_step. rewrite render_cons.
    simpl in Hrest. apply andb_true_iff in Hrest. destruct Hrest as [Hit2 Hr2].
    simpl split_at.
    destruct (keq k (i_key it2)) eqn:E2.
    + rewrite (match_at_hit k it2 _ Hit2 E2 (tail_of_ok r2)). rewrite term_tail_of. simpl.
      rewrite app_nil_r. reflexivity.
    + rewrite (match_at_miss k it2 _ Hkk Hit2 E2 (tail_of_ok r2)).
      rewrite <- render_cons.
      rewrite (IH (proj2 (andb_true_iff _ _) (conj Hit2 Hr2)) eq_refl).
      simpl split_at. rewrite E2.
      destruct (split_at k r2) as [[[b x] a]|]; reflexivity.
Qed.

Theorem find_field_render k its :
  key_ok k = true -> forallb (item_okk k) its = true ->
  find_field k (render its) =
    match split_at k its with
    | None => None
    | Some (b, x, a) => Some (render b, sep_of b ++ render_item x ++ sep_of a, render a, rawcap x)
    end.
Proof.
  intros Hkk Hok. unfold find_field. destruct its as [|it rest].
  { apply key_ok_inv in Hkk. destruct Hkk as (c & k' & -> & _). reflexivity. }
  pose proof Hok as Hok'. simpl in Hok'. apply andb_true_iff in Hok'. destruct Hok' as [Hit Hrest].
  rewrite render_cons. simpl split_at.
  destruct (keq k (i_key it)) eqn:E.
  - rewrite (match_at_hit k it _ Hit E (tail_of_ok rest)). rewrite term_tail_of. reflexivity.
  - rewrite (match_at_miss k it _ Hkk Hit E (tail_of_ok rest)).
    rewrite <- render_cons. rewrite (find_comma_render k Hkk (it :: rest) Hok E).
    simpl split_at. rewrite E.
    destruct (split_at k rest) as [[[b x] a]|]; reflexivity.
Qed.

(* ---- split_at and the list operations ---- *)
Lemma split_at_lookup k its :
  lookup k its = match split_at k its with Some (_, x, _) => RStr (item_read x) | None => RNotSet end.
Proof.
  induction its as [|it rest IH]; [reflexivity|]. simpl.
  destruct (keq k (i_key it)); [reflexivity|]. rewrite IH.
  destruct (split_at k rest) as [[[b x] a]|]; reflexivity.
Qed.

Lemma split_at_remove k its :
  remove_first k its = match split_at k its with Some (b, _, a) => b ++ a | None => its end.
Proof.
  induction its as [|it rest IH]; [reflexivity|]. simpl.
  destruct (keq k (i_key it)); [reflexivity|]. rewrite IH.
  destruct (split_at k rest) as [[[b x] a]|]; reflexivity.
Qed.

Lemma render_app b : forall a, b <> [] -> a <> [] -> render (b ++ a) = render b ++ c_comma :: render a.
Proof.
  induction b as [|it b IH]; intros a Hb Ha; [congruence|].
  destruct b as [|it2 b'].
  - simpl app. rewrite render_cons. destruct a; [congruence|]. simpl. rewrite app_nil_r. reflexivity.
  - change (render ((it :: it2 :: b') ++ a)) with (render_item it ++ c_comma :: render ((it2 :: b') ++ a)).
    rewrite (IH a) by (assumption || discriminate).
    change (render (it :: it2 :: b')) with (render_item it ++ c_comma :: render (it2 :: b')).
    rewrite <- app_assoc. reflexivity.
Qed.

Lemma render_nil_iff its : forallb (fun it => key_ok (i_key it)) its = true -> (is_nil (render its) = is_nil its).
Proof.
  destruct its as [|it rest]; [reflexivity|]. simpl. intros H.
  apply andb_true_iff in H. destruct H as [Hk _].
  apply key_ok_inv in Hk. destruct Hk as (c & k' & Hk & _).
  unfold render_item. rewrite Hk. destruct (i_lead it); reflexivity.
Qed.

Lemma item_okk_key k its : forallb (item_okk k) its = true -> forallb (fun it => key_ok (i_key it)) its = true.
Proof.
  induction its as [|it rest IH]; simpl; intros H; [reflexivity|].
  apply andb_true_iff in H. destruct H as [Hit Hr]. rewrite (IH Hr), andb_true_r.
  unfold item_okk in Hit. apply andb_true_iff in Hit. destruct Hit as [Hit _].
  apply andb_true_iff in Hit. tauto.
Qed.

(* the last byte of a rendered item is not a comma *)
Lemma last_is_app_single x s : last_is x (s ++ [x]) = true.
Proof. unfold last_is. rewrite rev_app_distr. simpl. apply byte_eqb_refl. Qed.

Lemma last_is_app s t x : t <> [] -> last_is x (s ++ t) = last_is x t.
Proof.
  intros Ht. unfold last_is. rewrite rev_app_distr.
  destruct (rev t) as [|c r] eqn:E.
  - apply (f_equal (@rev byte)) in E. rewrite rev_involutive in E. simpl in E. congruence.
  - reflexivity.
Qed.

Lemma last_is_forall p x s : s <> [] -> forallb p s = true -> p x = false -> last_is x s = false.
Proof.
  intros Hs Hp Hx. unfold last_is.
  destruct (rev s) as [|c r] eqn:E.
  - reflexivity.
  - assert (Hin : In c s) by (apply in_rev; rewrite E; left; reflexivity).
    rewrite forallb_forall in Hp. specialize (Hp c Hin).
    apply byte_eqb_neq. intros ->. congruence.
Qed.

Lemma item_last_not_comma k it : item_okk k it = true -> last_is c_comma (render_item it) = false.
Proof.
  intros Hok. unfold item_okk in Hok.
  apply andb_true_iff in Hok. destruct Hok as [Hok Hv]. apply andb_true_iff in Hok. destruct Hok as [Hl Hkey].
  unfold render_item.
  pose proof (key_ok_inv _ Hkey) as (c & k' & Hk & Hc & Hk').
  destruct (i_val it) as [|r|q]; simpl render_val; simpl in Hv.
  - rewrite app_nil_r. rewrite last_is_app by (rewrite Hk; discriminate).
    apply (last_is_forall keychar); [rewrite Hk; discriminate | apply key_ok_all; exact Hkey | reflexivity].
  - apply andb_true_iff in Hv. destruct Hv as [Hr _].
    rewrite app_assoc. rewrite last_is_app by discriminate.
    destruct r as [|d r'].
    + reflexivity.
    + change (c_eq :: d :: r') with ([c_eq] ++ d :: r'). rewrite last_is_app by discriminate.
      apply (last_is_forall nonsep); [discriminate | exact Hr | reflexivity].
  - rewrite app_assoc. rewrite last_is_app by discriminate.
    change (c_eq :: c_dq :: esc q ++ [c_dq]) with ((c_eq :: c_dq :: esc q) ++ [c_dq]).
    rewrite last_is_app by discriminate. reflexivity.
Qed.

(* ---- the three operations of field.go on rendered lists ---- *)
Lemma strip_quotes_rawcap it k : item_okk k it = true -> strip_quotes (rawcap it) = item_read it.
Proof.
  intros Hok. unfold item_okk in Hok. apply andb_true_iff in Hok. destruct Hok as [_ Hv].
  unfold rawcap, item_read. destruct (i_val it) as [|r|q]; simpl in Hv.
  - reflexivity.
  - apply andb_true_iff in Hv. destruct Hv as [_ Hq]. apply negb_true_iff in Hq.
    unfold strip_quotes. rewrite Hq. rewrite andb_false_r. reflexivity.
  - unfold strip_quotes.
    assert (H2 : (2 <=? N.of_nat (length (c_dq :: esc q ++ [c_dq])))%N = true).
    { apply N.leb_le. simpl length. rewrite app_length. simpl. lia. }
    rewrite H2. simpl first_is. rewrite byte_eqb_refl.
    change (c_dq :: esc q ++ [c_dq]) with ((c_dq :: esc q) ++ [c_dq]) at 1.
    rewrite last_is_app_single. simpl andb. cbv iota.
    unfold middle. simpl tl. rewrite removelast_last. apply unesc_esc.
Qed.

Theorem get_field_render k its :
  key_ok k = true -> forallb (item_okk k) its = true ->
  get_field (render its) k = lookup k its.
Proof.
  intros Hkk Hok. unfold get_field. rewrite (find_field_render k its Hkk Hok).
  rewrite split_at_lookup.
  destruct (split_at k its) as [[[b x] a]|] eqn:E; [|reflexivity].
  assert (Hx : item_okk k x = true).
  { clear - E Hok. revert b x a E. induction its as [|it rest IH]; intros b x a E; [discriminate|].
    simpl in Hok. apply andb_true_iff in Hok. destruct Hok as [Hit Hr]. simpl in E.
    destruct (keq k (i_key it)); [inversion E; subst; exact Hit|].
    destruct (split_at k rest) as [[[b' x'] a']|]; [|discriminate]. inversion E; subst.
    eapply IH; eauto. }
  rewrite (strip_quotes_rawcap x k Hx). reflexivity.
Qed.

Lemma split_at_okk k its b x a : forallb (item_okk k) its = true -> split_at k its = Some (b, x, a) ->
  forallb (item_okk k) b = true /\ item_okk k x = true /\ forallb (item_okk k) a = true.
Proof.
  revert b x a. induction its as [|it rest IH]; intros b x a Hok E; [discriminate|].
  simpl in Hok. apply andb_true_iff in Hok. destruct Hok as [Hit Hr]. simpl in E.
  destruct (keq k (i_key it)).
  - inversion E; subst. auto.
  - destruct (split_at k rest) as [[[b' x'] a']|]; [|discriminate]. inversion E; subst.
    destruct (IH b' x a Hr eq_refl) as (H1 & H2 & H3). simpl. rewrite Hit, H1. auto.
Qed.

Theorem unset_field_render k its :
  key_ok k = true -> forallb (item_okk k) its = true ->
  unset_field (render its) k = render (remove_first k its).
Proof.
  intros Hkk Hok. unfold unset_field. rewrite (find_field_render k its Hkk Hok).
  rewrite split_at_remove.
  destruct (split_at k its) as [[[b x] a]|] eqn:E; [|reflexivity].
  destruct (split_at_okk k its b x a Hok E) as (Hb & Hx & Ha).
  rewrite (render_nil_iff b (item_okk_key k b Hb)).
  destruct b as [|b1 b'].
  - reflexivity.
  - simpl is_nil. cbv iota.
    destruct a as [|a1 a'].
    + simpl sep_of. rewrite app_nil_r. rewrite app_nil_r.
      change ([c_comma] ++ render_item x) with ([c_comma] ++ render_item x).
      rewrite last_is_app.
      * rewrite (item_last_not_comma k x Hx). rewrite app_nil_r. reflexivity.
      * intros Hn. pose proof (render_nil_iff [x]) as H. simpl in H.
        unfold item_okk in Hx. apply andb_true_iff in Hx. destruct Hx as [Hx _]. apply andb_true_iff in Hx.
        destruct Hx as [_ Hkx]. rewrite Hkx in H. specialize (H eq_refl). rewrite app_nil_r in H.
        rewrite Hn in H. discriminate.
    + simpl sep_of.
      replace ([c_comma] ++ render_item x ++ [c_comma]) with (([c_comma] ++ render_item x) ++ [c_comma])
        by (rewrite <- app_assoc; reflexivity).
      rewrite last_is_app_single.
      rewrite render_app by discriminate. reflexivity.
Qed.

Lemma cut_lf_id s : no_lf s = true -> cut_lf s = s.
Proof.
  induction s as [|c s IH]; simpl; intros H; [reflexivity|].
  apply andb_true_iff in H. destruct H as [Hc Hs]. apply negb_true_iff in Hc. rewrite Hc, (IH Hs). reflexivity.
Qed.

Lemma no_lf_app a b : no_lf (a ++ b) = no_lf a && no_lf b.
Proof. unfold no_lf. apply forallb_app. Qed.

Lemma no_lf_esc s : no_lf (esc s) = no_lf s.
Proof.
  induction s as [|c s IH]; [reflexivity|]. simpl.
  destruct (byte_eqb c c_dq) eqn:E; simpl; rewrite IH; [|reflexivity].
  apply byte_eqb_eq in E. subst. reflexivity.
Qed.

Lemma render_snoc its it : its <> [] -> render (its ++ [it]) = render its ++ c_comma :: render_item it.
Proof.
  intros H. rewrite render_app by (assumption || discriminate). simpl. rewrite app_nil_r. reflexivity.
Qed.

Lemma kv_render k s : no_lf s = true ->
  (if is_nil (if needs_quote s then cut_lf (c_dq :: esc s ++ [c_dq]) else s) then k
   else k ++ c_eq :: (if needs_quote s then cut_lf (c_dq :: esc s ++ [c_dq]) else s))
  = render_item (new_item k (enc_val s)).
Proof.
  intros Hv. unfold enc_val, render_item, new_item. cbn [i_lead i_key i_val app].
  destruct (needs_quote s) eqn:Eq.
  - rewrite cut_lf_id.
    + destruct s as [|c s']; [discriminate Eq|]. reflexivity.
    + change (c_dq :: esc s ++ [c_dq]) with ([c_dq] ++ esc s ++ [c_dq]).
      rewrite !no_lf_app, no_lf_esc, Hv. reflexivity.
  - destruct s as [|c s']; simpl; [rewrite app_nil_r|]; reflexivity.
Qed.

Theorem set_field_render k its v :
  key_ok k = true -> forallb (item_okk k) its = true ->
  match v with VStr s => no_lf s = true | VNotSet => True end ->
  set_field (render its) k v = render (spec_set its k v).
Proof.
  intros Hkk Hok Hv. unfold set_field, spec_set.
  rewrite (unset_field_render k its Hkk Hok).
  set (its' := remove_first k its).
  assert (Hok' : forallb (item_okk k) its' = true).
  { unfold its'. rewrite split_at_remove. destruct (split_at k its) as [[[b x] a]|] eqn:E; [|exact Hok].
    destruct (split_at_okk k its b x a Hok E) as (Hb & _ & Ha). rewrite forallb_app, Hb, Ha. reflexivity. }
  pose proof (render_nil_iff its' (item_okk_key k its' Hok')) as Hnil.
  assert (Hjoin : forall it, render_item it <> [] ->
            join_field (render its') (render_item it) = render (its' ++ [it])).
  { intros it _. unfold join_field. rewrite Hnil. destruct its' as [|i1 r1] eqn:E.
    - simpl. rewrite app_nil_r. reflexivity.
    - simpl is_nil. cbv iota. rewrite render_snoc by discriminate. reflexivity. }
  destruct v as [|s].
  - rewrite Hnil. destruct (is_nil its' && Nat.eqb (length k) 1) eqn:E; [reflexivity|].
    rewrite <- (Hjoin (new_item k IBare)).
    + unfold render_item, new_item. simpl. rewrite app_nil_r. reflexivity.
    + unfold render_item, new_item. simpl. rewrite app_nil_r.
      apply key_ok_inv in Hkk. destruct Hkk as (c & k' & -> & _). discriminate.
  - rewrite <- (Hjoin (new_item k (enc_val s))).
    + f_equal. apply kv_render. exact Hv.
    + unfold render_item, new_item. simpl.
      apply key_ok_inv in Hkk. destruct Hkk as (c & k' & -> & _). discriminate.
Qed.
