(* C15 core over the token model: the local pass prints every comment exactly once, in order,
   with its text unchanged (the marker is restyled before the pass). *)
From Coq Require Import List Bool NArith Arith Lia.
From Falco Require Import Base.Bytes Model.FmtTok Model.FmtNorm.
Import ListNotations.

Lemma item_comments_app a b : item_comments (a ++ b) = item_comments a ++ item_comments b.
Proof. unfold item_comments. apply flat_map_app. Qed.

Lemma item_comments_nocom (l : list tok) : item_comments (map (fun y => ([], y)) l) = [].
Proof. induction l; simpl; auto. Qed.

Lemma split_lf0_app cs : fst (split_lf0 cs) ++ snd (split_lf0 cs) = cs.
Proof.
  induction cs as [|x r IH]; simpl; auto.
  destruct (clf x); simpl; auto.
  destruct (split_lf0 r) as [a b]; simpl in *. now rewrite IH.
Qed.

Lemma split_lf0_fst_lf0 cs : Forall (fun x => clf x = false) (fst (split_lf0 cs)).
Proof.
  induction cs as [|x r IH]; simpl; auto.
  destruct (clf x) eqn:E; simpl; auto.
  destruct (split_lf0 r) as [a b]; simpl in *. constructor; auto.
Qed.

Lemma split_lf0_snd_head cs : match snd (split_lf0 cs) with [] => True | x :: _ => clf x = true end.
Proof.
  induction cs as [|x r IH]; simpl; auto.
  destruct (clf x) eqn:E; simpl; auto.
  destruct (split_lf0 r) as [a b]; simpl in *. exact IH.
Qed.

(* every action hands on exactly the comments it was given, in order *)
Lemma emit_comments a cs t :
  item_comments (fst (emit a cs t)) ++ snd (emit a cs t) = cs.
Proof.
  destruct a; simpl; unfold item_comments; simpl; rewrite ?app_nil_r; auto.
  - pose proof (split_lf0_app cs) as H. destruct (split_lf0 cs) as [a0 b0]; simpl in *.
    now rewrite !app_nil_r.
  - destruct n as [|m]; simpl; rewrite ?app_nil_r; auto.
    change (flat_map fst (map (fun y : tok => ([] : list com, y)) (repeat t_rparen m ++ [t])))
      with (item_comments (map (fun y : tok => ([] : list com, y)) (repeat t_rparen m ++ [t]))).
    now rewrite item_comments_nocom, app_nil_r.
  - destruct ts as [|x r]; simpl; rewrite ?app_nil_r; auto.
    change (flat_map fst (map (fun y : tok => ([] : list com, y)) r))
      with (item_comments (map (fun y : tok => ([] : list com, y)) r)).
    now rewrite item_comments_nocom, app_nil_r.
Qed.

Lemma step0_comments c s cs t nk out s' carry :
  step0 c s cs t nk = (out, s', carry) -> item_comments out ++ carry = cs.
Proof.
  unfold step0. pose proof (emit_comments (decide c s t nk) cs t) as H.
  destruct (emit (decide c s t nk) cs t) as [o ca]; simpl in *.
  intros E. injection E as E1 E2 E3. rewrite <- E1, <- E3. exact H.
Qed.

Lemma step_comments c s cs t nk out s' carry :
  step c s cs t nk = (out, s', carry) -> item_comments out ++ carry = cs.
Proof.
  unfold step. destruct (opens_return s t).
  - destruct (step0 c (adv c s t_lparen) cs t nk) as [[o s1] ca] eqn:E0.
    intros E. injection E as E1 E2 E3. subst out carry.
    apply step0_comments in E0. exact E0.
  - apply step0_comments.
Qed.

Theorem run_comments c : forall its s carry out tl,
  run c s carry its = (out, tl) -> item_comments out ++ tl = carry ++ item_comments its.
Proof.
  induction its as [|[cs t] rest IH]; intros s carry out tl; simpl.
  - intros E; inversion E; subst. simpl. now rewrite app_nil_r.
  - destruct (step c s (carry ++ cs) t (head_kind rest)) as [[o s'] ca] eqn:Es.
    destruct (run c s' ca rest) as [outs tail] eqn:Er.
    intros E; inversion E; subst.
    apply step_comments in Es. apply IH in Er.
    rewrite item_comments_app, <- app_assoc, Er, app_assoc, Es.
    unfold item_comments at 2. simpl. fold (item_comments rest). now rewrite <- app_assoc.
Qed.

(* stream <-> items *)
Lemma comments_app a b : comments (a ++ b) = comments a ++ comments b.
Proof. induction a as [|[t|x] a IH]; simpl; auto. now rewrite IH. Qed.

Lemma comments_mapC l : comments (map Cm l) = l.
Proof. induction l; simpl; auto. now rewrite IHl. Qed.

Lemma comments_flat_of_item its : comments (flat_map of_item its) = item_comments its.
Proof.
  induction its as [|[cs t] r IH]; simpl; auto.
  unfold of_item at 1; simpl. rewrite <- app_assoc, comments_app, comments_mapC. simpl.
  rewrite IH. reflexivity.
Qed.

Lemma comments_of_items its tail : comments (of_items its tail) = item_comments its ++ tail.
Proof. unfold of_items. now rewrite comments_app, comments_mapC, comments_flat_of_item. Qed.

Lemma to_items_comments : forall ts acc its tail,
  to_items acc ts = (its, tail) -> item_comments its ++ tail = rev acc ++ comments ts.
Proof.
  induction ts as [|[t|x] ts IH]; intros acc its tail; simpl.
  - intros E; inversion E; subst. simpl. now rewrite app_nil_r.
  - destruct (to_items [] ts) as [its' tail'] eqn:E'. intros E; inversion E; subst.
    apply IH in E'. simpl in E'. unfold item_comments in *. simpl. now rewrite <- app_assoc, E'.
  - intros E. apply IH in E. rewrite E. simpl. now rewrite <- app_assoc.
Qed.

Lemma significant_app a b : significant (a ++ b) = significant a ++ significant b.
Proof. induction a as [|[t|x] a IH]; simpl; auto. now rewrite IH. Qed.

Lemma significant_mapC l : significant (map Cm l) = [].
Proof. induction l; simpl; auto. Qed.

Lemma significant_flat_of_item its : significant (flat_map of_item its) = item_toks its.
Proof.
  induction its as [|[cs t] r IH]; simpl; auto.
  unfold of_item at 1; simpl. rewrite <- app_assoc, significant_app, significant_mapC. simpl.
  now rewrite IH.
Qed.

Lemma significant_of_items its tail : significant (of_items its tail) = item_toks its.
Proof. unfold of_items. now rewrite significant_app, significant_mapC, app_nil_r, significant_flat_of_item. Qed.

Lemma to_items_significant : forall ts acc its tail,
  to_items acc ts = (its, tail) -> item_toks its = significant ts.
Proof.
  induction ts as [|[t|x] ts IH]; intros acc its tail; simpl.
  - intros E; inversion E; subst. reflexivity.
  - destruct (to_items [] ts) as [its' tail'] eqn:E'. intros E; inversion E; subst.
    apply IH in E'. simpl. now rewrite E'.
  - intros E. now apply IH in E.
Qed.

Lemma item_comments_restyle c its :
  item_comments (map (restyle_item c) its) = map (restyle c) (item_comments its).
Proof.
  induction its as [|[cs t] r IH]; simpl; auto.
  unfold item_comments in *. simpl. now rewrite map_app, IH.
Qed.

Lemma item_toks_restyle c its : item_toks (map (restyle_item c) its) = item_toks its.
Proof. unfold item_toks. rewrite map_map. apply map_ext. now intros [cs t]. Qed.

Lemma keep_tail_app out t : fst (keep_tail out t) ++ snd (keep_tail out t) = t.
Proof. destruct out; simpl; auto. apply split_lf0_app. Qed.

Lemma keep_tail_fst_lf0 out t : Forall (fun x => clf x = false) (fst (keep_tail out t)).
Proof. destruct out; simpl; [constructor|]. apply split_lf0_fst_lf0. Qed.

(* every comment is printed: those of the tokens by the pass, those behind the last token after it
   (the ones on its line trail the last declaration, the others follow on lines of their own) *)
Theorem norm_comments c ts :
  sort_declaration c = false ->
  comments (norm c ts) = map (restyle c) (comments ts).
Proof.
  intros Hs. unfold norm, norm_items.
  destruct (to_items [] ts) as [its tail] eqn:Et.
  destruct (run c st0 [] (map (restyle_item c) its)) as [out tl1] eqn:Er.
  pose proof (keep_tail_app out (tl1 ++ map (restyle c) tail)) as Hsp.
  destruct (keep_tail out (tl1 ++ map (restyle c) tail)) as [tr rest] eqn:Es. simpl in Hsp.
  apply run_comments in Er. simpl in Er. rewrite item_comments_restyle in Er.
  apply to_items_comments in Et. simpl in Et.
  assert (Hgoal : comments (of_items out (tr ++ rest)) = map (restyle c) (comments ts)).
  { rewrite comments_of_items, Hsp, app_assoc, Er, <- map_app, Et. reflexivity. }
  destruct (chunks 0 [] out) as [gs0 rest0]. destruct rest0; [|exact Hgoal].
  rewrite Hs. exact Hgoal.
Qed.

(* restyle changes the marker only: the line-feed bit is kept, and the text is kept from the
   end of the leading marker run on *)
Lemma restyle_clf c x : clf (restyle c x) = clf x.
Proof. reflexivity. Qed.
