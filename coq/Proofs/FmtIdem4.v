(* C14 core, part 4: a full step (with the "(" opened after return), what a step emits first,
   and the run-level theorem. *)
From Coq Require Import List Bool NArith Arith Lia.
From Falco Require Import Base.Bytes Model.FmtTok Model.FmtNorm Proofs.FmtIdem1 Proofs.FmtIdem2 Proofs.FmtIdem3.
Import ListNotations.

Lemma opens_return_true s t : opens_return s t = true ->
  rt s = RWant true /\ (kis (tk t) KSemi || kis (tk t) KLParen) = false.
Proof.
  unfold opens_return. destruct (rt s) as [|[|]|]; try discriminate.
  intros H. apply negb_true_iff in H. auto.
Qed.

Lemma adv_lparen_rwant c s w : rt s = RWant w -> rt (adv c s t_lparen) = RBody w false 1.
Proof. intros H. unfold adv. destruct (next_mode (mode s) (pe s) t_lparen). simpl. now rewrite H. Qed.

Lemma step_replay c si so cs t nk nkX E si' carry' :
  inv si -> rel si so -> side si so ->
  (is_fresh si so -> kis (tk t) KLParen = false) ->
  step c si cs t nk = (E, si', carry') ->
  (kis (tk t) KLParen = true -> callhdr si = true -> nk_is nk KRParen = false -> nk_is nkX KRParen = false) ->
  (kis (tk t) KLParen = true -> rt si = RWant false -> nk_is nk KLParen = true -> nk_is nkX KLParen = true) ->
  (kis (tk t) KPlus = true -> inexpr (mode (if opens_return si t then adv c si t_lparen else si)) = true ->
   pe (if opens_return si t then adv c si t_lparen else si) = true -> explicit_string_concat c = false ->
   nk_juxt nk = false -> nk_juxt nkX = false) ->
  quiet_seq c so E nkX = true
  /\ rel si' (fold_left (adv c) (map snd E) so) /\ inv si'
  /\ side si' (fold_left (adv c) (map snd E) so)
  /\ (is_fresh si' (fold_left (adv c) (map snd E) so) -> nk_is nk KLParen = false).
Proof.
  intros Hinv R Hs Hf Hstep C2 C4 C9. unfold step in Hstep.
  destruct (opens_return si t) eqn:O.
  2:{ eapply step0_replay; eauto. }
  destruct (opens_return_true _ _ O) as [Hr Hk].
  destruct (step0 c (adv c si t_lparen) cs t nk) as [[E0 s0] ca0] eqn:E0'.
  inversion Hstep; subst. clear Hstep.
  assert (Hro : rt so = RWant true).
  { pose proof (r_rt _ _ R) as H. unfold rt_rel in H. rewrite Hr in H.
    destruct (rt so) as [|w2|? ? ?]; try discriminate.
    - destruct H as [H|[_ [? H]]]; [congruence|discriminate].
    - destruct H as [_ [? H]]. discriminate. }
  assert (Hch : callhdr si = false).
  { destruct (callhdr si) eqn:Ech; auto. apply (callhdr_rno _ Hinv) in Ech. congruence. }
  pose proof (adv_rel c si so t_lparen R) as R1.
  pose proof (inv_adv c si t_lparen Hinv) as I1.
  pose proof (adv_lparen_rwant c si true Hr) as Hr1.
  assert (Hkl : kis (tk t) KLParen = false) by (apply orb_false_iff in Hk; tauto).
  assert (O1 : opens_return (adv c si t_lparen) t = false)
    by (unfold opens_return; now rewrite Hr1).
  assert (S1 : side (adv c si t_lparen) (adv c so t_lparen))
    by (intros F; now destruct (adv_not_fresh c si so t_lparen R F)).
  destruct (step0_replay c (adv c si t_lparen) (adv c so t_lparen) cs t nk nkX E0 si' carry' I1 R1 S1
              ltac:(intros _; exact Hkl) O1 E0'
              ltac:(intros H; congruence) ltac:(intros H; congruence) C9) as (Q & A & B & C' & D').
  split; [|split; [exact A|split; [exact B|split; [exact C'|exact D']]]].
  simpl. rewrite Q, andb_true_r.
  apply quiet_guards.
  - exact (r_dp _ _ R).
  - unfold opens_return. now rewrite Hro.
  - unfold callhdr in *. rewrite <- (r_mode _ _ R), <- (r_hdr _ _ R). rewrite Hch. now rewrite andb_false_r.
  - unfold rt_guard. now rewrite Hro.
  - simpl. now rewrite andb_false_r.
  - simpl. now rewrite !andb_false_r.
  - now apply spelling_keep.
Qed.

(* ---------------------------------------------------------------- what a step emits first *)
Definition calm (s : st) : Prop :=
  dp s = false /\ pe s = false /\ callhdr s = false /\ (forall w, rt s <> RWant w).

Lemma calm_step c s cs x nk E s' ca :
  calm s -> step c s cs x nk = (E, s', ca) ->
  (exists cs' e r, E = (cs', e) :: r /\
     (tk e = tk x
      \/ (e = t_comma /\ kis (tk x) KRBrace = true)
      \/ (e = t_rparen /\ kis (tk x) KSemi = true /\ exists dr d, rt s = RBody true dr d)
      \/ (e = t_else /\ (kis (tk x) KElseIf || kis (tk x) KElsIf) = true)
      \/ (e = t_unset /\ kis (tk x) KRemove = true)))
  \/ (E = [] /\ exists w, rt s = RBody w true 0 /\ kis (tk x) KRParen = true /\ nk_is nk KSemi = true
               /\ s' = apply_patch PRetClose s).
Proof.
  intros (Hdp & Hpe & Hch & Hrw) Hstep. unfold step in Hstep.
  rewrite (opens_return_not_rwant s x Hrw) in Hstep. unfold step0 in Hstep.
  pose proof (decide_ok c s x nk) as S.
  destruct (decide c s x nk) as [|p|y|y|n|ts] eqn:D.
  - left. simpl in Hstep. inversion Hstep; subst. eauto 10.
  - inversion S as [Hd Hk Ea | Hk Hnk Hc Ea | Hr Hk Hnk Ea | w Hr Hk Hnk Ea | | G0 G1 G2 Ea].
    + congruence.
    + congruence.
    + now destruct (Hrw false).
    + right. subst p. simpl in Hstep. inversion Hstep; subst. split; auto. exists w. auto.
    + pose proof (normal_ok c s x nk) as Sn. rewrite Ea in Sn.
      inversion Sn as [| | Hin Hp Hex Hkp Hj Eb |? ? ? Eb].
      * congruence.
      * destruct (spelling_cases c x) as [Hs|[[Hs _]|[Hs _]]]; rewrite Hs in Eb; discriminate.
  - inversion S as [| | | | | G0 G1 G2 Ea].
    pose proof (normal_ok c s x nk) as Sn. rewrite Ea in Sn.
    inversion Sn as [| Hin Hp Hex Hj Eb | |? ? ? Eb].
    + congruence.
    + destruct (spelling_cases c x) as [Hs|[[Hs _]|[Hs _]]]; rewrite Hs in Eb; discriminate.
  - inversion S as [| | | | | G0 G1 G2 Ea].
    pose proof (normal_ok c s x nk) as Sn. rewrite Ea in Sn.
    inversion Sn as [Htb Hk Hp Eb | | |? ? ? Eb].
    + left. simpl in Hstep. destruct (split_lf0 cs) as [a0 b0]. inversion Hstep; subst. eauto 10.
    + destruct (spelling_cases c x) as [Hs|[[Hs _]|[Hs _]]]; rewrite Hs in Eb; discriminate.
  - inversion S as [| | | | dr d Hr Hd Hk Ea | G0 G1 G2 Ea].
    + subst n. destruct d as [|m]; [lia|]. left. simpl in Hstep. inversion Hstep; subst.
      do 3 eexists. split; [reflexivity|]. right. right. left. eauto.
    + pose proof (normal_ok c s x nk) as Sn. rewrite Ea in Sn.
      inversion Sn as [| | |? ? ? Eb].
      destruct (spelling_cases c x) as [Hs|[[Hs _]|[Hs _]]]; rewrite Hs in Eb; discriminate.
  - inversion S as [| | | | | G0 G1 G2 Ea].
    pose proof (normal_ok c s x nk) as Sn. rewrite Ea in Sn.
    inversion Sn as [| | |? ? ? Eb].
    destruct (spelling_cases c x) as [Hs|[[Hs [_ Hk]]|[Hs [_ Hk]]]]; rewrite Hs in Eb; try discriminate;
      inversion Eb; subst ts; simpl in Hstep; inversion Hstep; subst; left; do 3 eexists; (split; [reflexivity|]).
    + right. right. right. left. auto.
    + right. right. right. right. auto.
Qed.

Lemma run_cons c s carry cs t rest :
  run c s carry ((cs, t) :: rest) =
  (let '(out, s', carry') := step c s (carry ++ cs) t (head_kind rest) in
   let (outs, tail) := run c s' carry' rest in (out ++ outs, tail)).
Proof. reflexivity. Qed.

Lemma kis_excl k a b : kis k a = true -> kis k b = true -> kis a b = true.
Proof. unfold kis. intros H1 H2. apply N.eqb_eq in H1, H2. apply N.eqb_eq. congruence. Qed.

Lemma head_kind_cons_app cs e (r o : list item) : head_kind (((cs, e) :: r) ++ o) = Some (tk e).
Proof. reflexivity. Qed.

(* F2: behind the kept "(" of "call f(" / "sub f(" no ")" comes first *)
Lemma head_not_rparen c s carry its out tl :
  calm s -> rt s = RNo -> run c s carry its = (out, tl) ->
  nk_is (head_kind its) KRParen = false -> nk_is (head_kind out) KRParen = false.
Proof.
  intros Hc Hr Hrun Hh. destruct its as [|[cs x] rest]; simpl in Hrun.
  - inversion Hrun; subst. reflexivity.
  - destruct (step c s (carry ++ cs) x (head_kind rest)) as [[E s'] ca] eqn:Es.
    destruct (run c s' ca rest) as [o t2]. inversion Hrun; subst.
    destruct (calm_step _ _ _ _ _ _ _ _ Hc Es) as [(cs' & e & r & -> & H)|(-> & w & Hw & _)].
    + rewrite head_kind_cons_app. simpl in Hh. simpl.
      destruct H as [H|[[-> _]|[[-> [_ [dr [d Hd]]]]|[[-> _]|[-> _]]]]]; try reflexivity.
      * now rewrite H.
      * congruence.
    + congruence.
Qed.

(* F4: behind the kept "(" of "return ((" the second "(" comes first *)
Lemma head_lparen c s carry its out tl :
  calm s -> run c s carry its = (out, tl) ->
  nk_is (head_kind its) KLParen = true -> nk_is (head_kind out) KLParen = true.
Proof.
  intros Hc Hrun Hh. destruct its as [|[cs x] rest]; simpl in Hrun; [discriminate|].
  destruct (step c s (carry ++ cs) x (head_kind rest)) as [[E s'] ca] eqn:Es.
  destruct (run c s' ca rest) as [o t2]. inversion Hrun; subst. simpl in Hh.
  destruct (calm_step _ _ _ _ _ _ _ _ Hc Es) as [(cs' & e & r & -> & H)|(-> & w & _ & Hk & _)].
  - rewrite head_kind_cons_app. simpl.
    destruct H as [H|[[-> Hk]|[[-> [Hk _]]|[[-> Hk]|[-> Hk]]]]].
    + now rewrite H.
    + pose proof (kis_excl _ _ _ Hh Hk). discriminate.
    + pose proof (kis_excl _ _ _ Hh Hk). discriminate.
    + apply orb_true_iff in Hk as [Hk|Hk]; pose proof (kis_excl _ _ _ Hh Hk); discriminate.
    + pose proof (kis_excl _ _ _ Hh Hk). discriminate.
  - pose proof (kis_excl _ _ _ Hh Hk). discriminate.
Qed.

Lemma juxt_kis k a : juxt k = false -> kis k a = true -> juxt a = false.
Proof. destruct k, a; simpl; intros; try discriminate; reflexivity. Qed.

Lemma calm_after_retclose s : calm s -> calm (apply_patch PRetClose s).
Proof.
  intros (A & B & C' & D'). unfold calm, apply_patch, callhdr in *. simpl. repeat split; auto.
  intros w. destruct (rt s) as [|w0|w0 dr d]; try discriminate. apply D'.
Qed.

(* F9: behind a kept "+" no operand that could be juxtaposed comes first *)
Lemma head_not_juxt c s carry its out tl :
  calm s -> (match rt s with RBody w true _ => w = false | _ => True end) ->
  run c s carry its = (out, tl) ->
  nk_juxt (head_kind its) = false -> nk_juxt (head_kind out) = false.
Proof.
  intros Hc I3 Hrun Hh. destruct its as [|[cs x] rest]; simpl in Hrun.
  { inversion Hrun; subst. reflexivity. }
  destruct (step c s (carry ++ cs) x (head_kind rest)) as [[E s'] ca] eqn:Es.
  destruct (run c s' ca rest) as [o t2] eqn:Er. inversion Hrun; subst. simpl in Hh.
  destruct (calm_step _ _ _ _ _ _ _ _ Hc Es) as [(cs' & e & r & -> & H)|(-> & w & Hw & Hk & Hnk & ->)].
  - rewrite head_kind_cons_app. simpl.
    destruct H as [H|[[-> _]|[[-> _]|[[-> _]|[-> _]]]]]; try reflexivity. now rewrite H.
  - (* the ")" of return was removed: a ";" follows *)
    simpl. rewrite Hw in I3. subst w.
    destruct rest as [|[cs2 y] rest2]; [discriminate|]. simpl in Hnk. rewrite run_cons in Er.
    destruct (step c (apply_patch PRetClose s) (ca ++ cs2) y (head_kind rest2)) as [[E2 s2] ca2] eqn:Es2.
    destruct (run c s2 ca2 rest2) as [o2 t3]. inversion Er; subst.
    destruct (calm_step _ _ _ _ _ _ _ _ (calm_after_retclose _ Hc) Es2)
      as [(cs' & e & r & -> & H)|(-> & w & Hw2 & Hk2 & _)].
    + simpl.
      destruct H as [H|[[-> _]|[[-> _]|[[-> _]|[-> _]]]]]; try reflexivity.
      rewrite H. destruct (tk y); simpl in *; try discriminate; reflexivity.
    + pose proof (kis_excl _ _ _ Hnk Hk2). discriminate.
Qed.

(* ---------------------------------------------------------------- the three look-ahead facts *)
Lemma lparen_kinds k : kis k KLParen = true ->
  kis k KRParen = false /\ kis k KSemi = false /\ kis k KRBrace = false /\ kis k KPlus = false
  /\ juxt k = false /\ kis k KElseIf = false /\ kis k KElsIf = false /\ kis k KRemove = false
  /\ opend k = false /\ kis k KReturn = false /\ terminator k = false.
Proof. destruct k; simpl; intros; try discriminate; repeat split; reflexivity. Qed.

Lemma plus_kinds k : kis k KPlus = true ->
  kis k KRParen = false /\ kis k KSemi = false /\ kis k KRBrace = false /\ kis k KLParen = false
  /\ juxt k = false /\ kis k KElseIf = false /\ kis k KElsIf = false /\ kis k KRemove = false
  /\ opend k = false /\ kis k KReturn = false /\ terminator k = false.
Proof. destruct k; simpl; intros; try discriminate; repeat split; reflexivity. Qed.

(* a token that is neither "(" ")" ";" "}" "+" nor respelled, outside of ... is kept: the cases we need *)
Lemma normal_keep c s t nk :
  kis (tk t) KRBrace = false -> juxt (tk t) = false ->
  (kis (tk t) KPlus && negb (explicit_string_concat c) && inexpr (mode s) && pe s && nk_juxt nk) = false ->
  kis (tk t) KElseIf = false -> kis (tk t) KElsIf = false -> kis (tk t) KRemove = false ->
  normal c s t nk = AKeep.
Proof.
  intros K1 K2 K3 K4 K5 K6. unfold normal. rewrite K1, K2. rewrite andb_false_r. simpl.
  rewrite andb_false_r.
  destruct (inexpr (mode s) && pe s) eqn:E; [|now apply spelling_keep].
  apply andb_true_iff in E as [E1 E2]. rewrite E1, E2 in K3.
  destruct (negb (explicit_string_concat c)), (kis (tk t) KPlus), (nk_juxt nk); simpl in *; try discriminate;
    now apply spelling_keep.
Qed.

Lemma adv_callhdr_expr c s t :
  inv s -> mode s = MExpr \/ (exists d, mode s = MErrCall d) \/ mode s = MCallName \/ mode s = MCase ->
  terminator (tk t) = false -> callhdr (adv c s t) = false.
Proof.
  intros (_ & I2 & _) Hm Ht.
  assert (Hh : hdr s = None).
  { destruct (hdr s) eqn:E; auto. destruct (I2 ltac:(discriminate)) as [Hm2 _].
    destruct Hm as [Hm|[[d Hm]|[Hm|Hm]]]; congruence. }
  unfold callhdr, adv. destruct (next_mode (mode s) (pe s) t) as [m' p'] eqn:En.
  destruct (kis (tk t) KRBrace && (depth s <=? 1) || kis (tk t) KSemi && (depth s =? 0)); simpl; auto.
  rewrite Hh.
  assert (Hm' : match m' with MCallName => false | _ => true end = true).
  { unfold next_mode in En. rewrite Ht in En.
    destruct Hm as [Hm|[[d Hm]|[Hm|Hm]]]; rewrite Hm in En.
    - inversion En; reflexivity.
    - destruct (tk t); inversion En; try reflexivity. destruct d as [|[|d']]; inversion H0; reflexivity.
    - inversion En; reflexivity.
    - destruct (tk t); inversion En; reflexivity. }
  destruct m'; try discriminate; simpl; destruct (tk t); simpl; try reflexivity;
    destruct ((depth s =? 0) && at_start (mode s)); reflexivity.
Qed.

Lemma keep_step c s cs t nk :
  opens_return s t = false -> decide c s t nk = AKeep -> step c s cs t nk = ([(cs, t)], adv c s t, []).
Proof. intros O D. unfold step, step0. rewrite O, D. reflexivity. Qed.

Lemma adv_rno c s t : rt s = RNo -> kis (tk t) KReturn = false -> rt (adv c s t) = RNo.
Proof.
  intros H K. unfold adv. destruct (next_mode (mode s) (pe s) t).
  destruct (kis (tk t) KRBrace && (depth s <=? 1) || kis (tk t) KSemi && (depth s =? 0)); simpl; auto.
  rewrite H, K. reflexivity.
Qed.

Lemma C2_fact c si cs t nk :
  inv si -> callhdr si = true -> kis (tk t) KLParen = true -> nk_is nk KRParen = false ->
  step c si cs t nk = ([(cs, t)], adv c si t, []) /\ calm (adv c si t) /\ rt (adv c si t) = RNo.
Proof.
  intros Hinv Hch Hk Hnk.
  destruct (lparen_kinds _ Hk) as (K1 & K2 & K3 & K4 & K5 & K6 & K7 & K8 & K9 & K10 & K11).
  pose proof (callhdr_rno _ Hinv Hch) as Hr.
  assert (O : opens_return si t = false) by (unfold opens_return; now rewrite Hr).
  assert (D : decide c si t nk = AKeep).
  { pose proof (decide_ok c si t nk) as S. remember (decide c si t nk) as a eqn:Ha. clear Ha.
    inversion S as [Hd Hk' Ea | Hk' Hnk' Hc Ea | Hr' Hk' Hnk' Ea | w Hr' Hk' Hnk' Ea | dr d Hr' Hd Hk' Ea | G0 G1 G2 Ea];
      try congruence.
    apply normal_keep; auto. now rewrite K4. }
  split; [now apply keep_step|]. split; [|now apply adv_rno].
  unfold calm. split; [apply adv_dp|]. split; [now apply adv_pe_false|]. split; [|now apply adv_not_rwant].
  pose proof Hinv as (I1 & I2 & _).
  unfold callhdr in Hch. apply orb_true_iff in Hch as [Hm|Hh].
  - apply adv_callhdr_expr; auto. right. right. left. destruct (mode si); try discriminate; reflexivity.
  - destruct (hdr si) as [[[|[|n]] b]|] eqn:Eh; try discriminate.
    destruct (I2 ltac:(discriminate)) as [Hm _].
    unfold callhdr, adv. rewrite Hm, Eh. unfold next_mode. rewrite K11.
    destruct (kis (tk t) KRBrace && (depth si <=? 1) || kis (tk t) KSemi && (depth si =? 0)); simpl; auto.
    destruct (tk t); simpl in *; try discriminate; reflexivity.
Qed.

Lemma C4_fact c si cs t nk :
  inv si -> rt si = RWant false -> kis (tk t) KLParen = true -> nk_is nk KLParen = true ->
  step c si cs t nk = ([(cs, t)], adv c si t, []) /\ calm (adv c si t).
Proof.
  intros Hinv Hr Hk Hnk.
  destruct (lparen_kinds _ Hk) as (K1 & K2 & K3 & K4 & K5 & K6 & K7 & K8 & K9 & K10 & K11).
  pose proof Hinv as (I1 & I2 & I3 & I4 & I5 & I6).
  assert (Hm : mode si = MExpr) by (apply I1; rewrite Hr; discriminate).
  assert (Hdp : dp si = false) by (apply I6; rewrite Hr; discriminate).
  assert (Hch : callhdr si = false).
  { destruct (callhdr si) eqn:E; auto. apply (callhdr_rno _ Hinv) in E. congruence. }
  assert (O : opens_return si t = false) by (unfold opens_return; now rewrite Hr).
  assert (D : decide c si t nk = AKeep).
  { pose proof (decide_ok c si t nk) as S. remember (decide c si t nk) as a eqn:Ha. clear Ha.
    inversion S as [Hd Hk' Ea | Hk' Hnk' Hc Ea | Hr' Hk' Hnk' Ea | w Hr' Hk' Hnk' Ea | dr d Hr' Hd Hk' Ea | G0 G1 G2 Ea];
      try congruence.
    apply normal_keep; auto. now rewrite K4. }
  split; [now apply keep_step|].
  unfold calm. split; [apply adv_dp|]. split; [now apply adv_pe_false|]. split; [|now apply adv_not_rwant].
  apply adv_callhdr_expr; auto.
Qed.

Lemma C9_fact c s cs t nk :
  inv s -> opens_return s t = false -> kis (tk t) KPlus = true -> inexpr (mode s) = true -> pe s = true ->
  explicit_string_concat c = false -> nk_juxt nk = false ->
  step c s cs t nk = ([(cs, t)], adv c s t, []) /\ calm (adv c s t).
Proof.
  intros Hinv O Hk Hin Hpe Hex Hnk.
  destruct (plus_kinds _ Hk) as (K1 & K2 & K3 & K4 & K5 & K6 & K7 & K8 & K9 & K10 & K11).
  assert (D : decide c s t nk = AKeep).
  { pose proof (decide_ok c s t nk) as S. remember (decide c s t nk) as a eqn:Ha. clear Ha.
    inversion S as [Hd Hk' Ea | Hk' Hnk' Hc Ea | Hr' Hk' Hnk' Ea | w Hr' Hk' Hnk' Ea | dr d Hr' Hd Hk' Ea | G0 G1 G2 Ea];
      try congruence.
    apply normal_keep; auto. rewrite Hnk. now rewrite !andb_false_r. }
  split; [now apply keep_step|].
  unfold calm. split; [apply adv_dp|]. split; [now apply adv_pe_false|]. split; [|now apply adv_not_rwant].
  apply adv_callhdr_expr; auto.
  destruct (mode s); try discriminate; eauto.
Qed.

(* ---------------------------------------------------------------- the run over its own output *)
Lemma quiet_seq_app c : forall A s B nk,
  quiet_seq c s (A ++ B) nk = quiet_seq c s A (next_of B nk) && quiet_seq c (fold_left (adv c) (map snd A) s) B nk.
Proof.
  induction A as [|[cs e] r IH]; intros s B nk; simpl; auto.
  rewrite IH, andb_assoc. f_equal. f_equal.
  destruct r as [|[cs2 e2] r2]; simpl; auto.
Qed.

(* every token of the output is left alone by the pass over the output *)
Theorem run_quiet c : forall its si so carry out tl,
  inv si -> rel si so -> side si so ->
  (is_fresh si so -> nk_is (head_kind its) KLParen = false) ->
  run c si carry its = (out, tl) -> quiet_seq c so out None = true.
Proof.
  induction its as [|[cs t] rest IH]; intros si so carry out tl Hinv R Hs Hf Hrun.
  - simpl in Hrun. inversion Hrun; subst. reflexivity.
  - rewrite run_cons in Hrun.
    destruct (step c si (carry ++ cs) t (head_kind rest)) as [[E si'] ca] eqn:Es.
    destruct (run c si' ca rest) as [out' tl'] eqn:Er. inversion Hrun; subst. clear Hrun.
    destruct (step_replay c si so (carry ++ cs) t (head_kind rest) (head_kind out') E si' ca Hinv R Hs Hf Es)
      as (Q & R' & I' & S' & F').
    + (* "(" kept after call f / sub f *)
      intros Hk Hch Hnk.
      destruct (C2_fact c si (carry ++ cs) t (head_kind rest) Hinv Hch Hk Hnk) as (Est & Hc & Hr).
      rewrite Est in Es. inversion Es; subst. eapply head_not_rparen; eauto.
    + (* "(" kept after return ( *)
      intros Hk Hr Hnk.
      destruct (C4_fact c si (carry ++ cs) t (head_kind rest) Hinv Hr Hk Hnk) as (Est & Hc).
      rewrite Est in Es. inversion Es; subst. eapply head_lparen; eauto.
    + (* "+" kept *)
      intros Hk Hin Hpe Hex Hnk.
      destruct (opens_return si t) eqn:O.
      * rewrite adv_pe_false in Hpe by reflexivity. discriminate.
      * destruct (C9_fact c si (carry ++ cs) t (head_kind rest) Hinv O Hk Hin Hpe Hex Hnk) as (Est & Hc).
        rewrite Est in Es. inversion Es; subst.
        eapply head_not_juxt; eauto.
        destruct (inv_adv c si t Hinv) as (_ & _ & I3 & _). exact I3.
    + rewrite quiet_seq_app.
      assert (Hn : next_of out' None = head_kind out') by (destruct out' as [|[? ?] ?]; reflexivity).
      rewrite Hn, Q. simpl. exact (IH _ _ _ _ _ I' R' S' F' Er).
Qed.

Theorem run_replay c its si so carry out tl :
  inv si -> rel si so -> side si so ->
  (is_fresh si so -> nk_is (head_kind its) KLParen = false) ->
  run c si carry its = (out, tl) -> run c so [] out = (out, []).
Proof.
  intros Hinv R Hs Hf Hrun.
  pose proof (run_quiet c its si so carry out tl Hinv R Hs Hf Hrun) as Q.
  pose proof (run_quiet_seq c out so [] Q) as H. rewrite app_nil_r in H. simpl in H.
  rewrite H. now rewrite app_nil_r.
Qed.
