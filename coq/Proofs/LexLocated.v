(* lex_located: every token the lexer model returns carries a (line, column) that lies inside
   the input and designates the token's text (Model/LexSpec.v designates), for every byte string. *)
From Coq Require Import List NArith Bool Lia Arith.
From Falco Require Import Base.Res Base.Bytes Base.Utf8 Gen.Tokens Model.Lex Model.LexSpec
  Proofs.LexTables Proofs.LexProgress Proofs.LexToken Proofs.LexView Proofs.PumpTotal.
Import ListNotations.
Local Open Scope N_scope.

(* token types whose surface form is the literal itself *)
Definition plain_b (ty : str) : bool :=
  negb (str_eqb ty T_EOF) && negb (str_eqb ty T_CLOSE_LONG_STRING) &&
  negb (str_eqb ty T_STRING) && negb (str_eqb ty T_OPEN_LONG_STRING).

Lemma pfx_nonempty l txt : pfx l txt -> l <> [] -> txt <> [].
Proof. intros [r ->] H E. apply app_eq_nil in E as [E _]. congruence. Qed.

Lemma tok_plain rs st pre txt ty l :
  plain_b ty = true -> l <> [] -> view rs st pre txt -> pfx l txt ->
  designates rs (mkTok ty l (line st) (idx st)).
Proof.
  intros Hp Hl V P. unfold plain_b in Hp.
  repeat (apply andb_true_iff in Hp as [Hp ?]).
  repeat match goal with H : negb _ = true |- _ => apply negb_true_iff in H end.
  unfold designates, is_eof. cbn [ttype tlit tline tpos].
  rewrite Hp, H1, H0, H. split; [exact Hl|].
  eapply view_at_text; [exact V|eapply pfx_nonempty; eauto|exact P].
Qed.

Lemma fin_plain rs st pre txt ty l st1 t st' :
  view rs st pre txt -> finish (mkTok ty l (line st) (idx st)) st1 = OK (t, st') ->
  plain_b ty = true -> l <> [] -> pfx l txt -> cur rs st1 ->
  designates rs t /\ cur rs st'.
Proof.
  intros V F Hp Hl P C. destruct (finish_cur _ _ _ _ _ C F) as [-> C'].
  split; [eapply tok_plain; eauto|exact C'].
Qed.

Lemma cur_of_view rs st pre txt : view rs st pre txt -> cur rs st.
Proof. intros V. eexists _, _. exact V. Qed.

Lemma cur_read rs st pre c suf : view rs st pre (c :: suf) -> cur rs (read_char st).
Proof. intros V. eapply cur_of_view, read_char_view, V. Qed.

Section Tok.
  Variable rs : list rune.
  Variables (st : lexer) (pre : list rune) (c : rune) (suf : list rune).
  Hypothesis V : view rs st pre (c :: suf).

  Lemma HcL : ch st = c.
  Proof. exact (view_cons_ch _ _ _ _ _ V). Qed.

  Lemma L_single ty t st' :
    plain_b ty = true -> single st (line st) (idx st) ty = OK (t, st') -> designates rs t /\ cur rs st'.
  Proof.
    pose proof HcL as Hc.
    intros Hp F. unfold single in F. rewrite Hc in F.
    eapply fin_plain; [exact V|exact F|exact Hp|discriminate|apply pfx_cons, pfx_refl_nil|eapply cur_of_view, V].
  Qed.

  (* the character after the cursor when peekChar says k *)
  Lemma peek_next k : peek_char st = k -> k <> 0 -> k < 128 ->
    exists suf', suf = k :: suf' /\ view rs (read_char st) (pre ++ [c]) (k :: suf').
  Proof.
    pose proof HcL as Hc.
    intros Hk Hz Hl. destruct (peek_ascii _ _ _ _ _ k V Hk Hz Hl) as (suf' & E).
    exists suf'. split; [exact E|]. rewrite <- E. apply read_char_view. exact V.
  Qed.

  Lemma L_two ty k t st' :
    plain_b ty = true -> peek_char st = k -> k <> 0 -> k < 128 ->
    finish (mkTok ty [ch st; k] (line st) (idx st)) (read_char st) = OK (t, st') ->
    designates rs t /\ cur rs st'.
  Proof.
    pose proof HcL as Hc.
    intros Hp Hk Hz Hl F. destruct (peek_next k Hk Hz Hl) as (suf' & E & V1). rewrite Hc in F.
    eapply fin_plain; [exact V|exact F|exact Hp|discriminate| |eapply cur_of_view, V1].
    rewrite E. apply pfx_cons, pfx_cons, pfx_refl_nil.
  Qed.

  Lemma L_op_eq ty1 ty2 t st' :
    plain_b ty1 = true -> plain_b ty2 = true ->
    op_eq st (line st) (idx st) ty1 ty2 = OK (t, st') -> designates rs t /\ cur rs st'.
  Proof.
    pose proof HcL as Hc.
    intros H1 H2 F. unfold op_eq in F. destruct (peek_char st =? 61) eqn:E.
    - apply N.eqb_eq in E. eapply (L_two ty2 61); [exact H2|exact E|discriminate|reflexivity|exact F].
    - eapply (L_single ty1); [exact H1|exact F].
  Qed.

  Lemma L_three ty t st' :
    plain_b ty = true -> c <> 0 -> c < 128 -> peek_char st = c -> peek_char (read_char st) = 61 ->
    finish (mkTok ty [ch st; ch st; 61] (line st) (idx st)) (read_char (read_char st)) = OK (t, st') ->
    designates rs t /\ cur rs st'.
  Proof.
    pose proof HcL as Hc.
    intros Hp Hz Hl Hk1 Hk2 F. destruct (peek_next c Hk1 Hz Hl) as (suf' & E & V1).
    destruct (peek_ascii _ _ _ _ _ 61 V1 Hk2) as (suf2 & E2); [discriminate|reflexivity|].
    rewrite E2 in V1. rewrite Hc in F.
    eapply fin_plain; [exact V|exact F|exact Hp|discriminate| |eapply cur_read, V1].
    rewrite E, E2. apply pfx_cons, pfx_cons, pfx_cons, pfx_refl_nil.
  Qed.

  Lemma L_dbl ty t st' :
    plain_b ty = true -> c <> 0 -> c < 128 -> peek_char st = c ->
    finish (mkTok ty [ch st; ch st] (line st) (idx st)) (read_char st) = OK (t, st') ->
    designates rs t /\ cur rs st'.
  Proof.
    pose proof HcL as Hc.
    intros Hp Hz Hl Hk F. pose proof (L_two ty c t st' Hp Hk Hz Hl) as L.
    rewrite <- Hc in L at 1. apply L. exact F.
  Qed.

  Lemma L_op_dbl ty2 ty3 tyeq t st' :
    plain_b ty2 = true -> plain_b ty3 = true -> plain_b tyeq = true -> c <> 0 -> c < 128 ->
    op_dbl st (line st) (idx st) ty2 ty3 tyeq = OK (t, st') -> designates rs t /\ cur rs st'.
  Proof.
    pose proof HcL as Hc.
    intros H2 H3 He Hz Hl F. unfold op_dbl in F. destruct (peek_char st =? ch st) eqn:E.
    - apply N.eqb_eq in E. rewrite Hc in E.
      destruct (peek_char (read_char st) =? 61) eqn:E2.
      + apply N.eqb_eq in E2. eapply (L_three ty3); [exact H3|exact Hz|exact Hl|exact E|exact E2|exact F].
      + eapply (L_dbl ty2); [exact H2|exact Hz|exact Hl|exact E|exact F].
    - destruct (peek_char st =? 61) eqn:E1.
      + apply N.eqb_eq in E1. eapply (L_two tyeq 61); [exact He|exact E1|discriminate|reflexivity|exact F].
      + eapply (L_single T_ILLEGAL); [reflexivity|exact F].
  Qed.

  Lemma L_op_shift ty1 ty3 tyeq t st' :
    plain_b ty1 = true -> plain_b ty3 = true -> plain_b tyeq = true -> c <> 0 -> c < 128 ->
    op_shift st (line st) (idx st) ty1 ty3 tyeq = OK (t, st') -> designates rs t /\ cur rs st'.
  Proof.
    pose proof HcL as Hc.
    intros H1 H3 He Hz Hl F. unfold op_shift in F. destruct (peek_char st =? ch st) eqn:E.
    - apply N.eqb_eq in E. rewrite Hc in E.
      destruct (peek_char (read_char st) =? 61) eqn:E2.
      + apply N.eqb_eq in E2. eapply (L_three ty3); [exact H3|exact Hz|exact Hl|exact E|exact E2|exact F].
      + eapply (L_dbl T_ILLEGAL); [reflexivity|exact Hz|exact Hl|exact E|exact F].
    - destruct (peek_char st =? 61) eqn:E1.
      + apply N.eqb_eq in E1. eapply (L_two tyeq 61); [exact He|exact E1|discriminate|reflexivity|exact F].
      + eapply (L_single ty1); [exact H1|exact F].
  Qed.

  Lemma L_two' ty a k t st' :
    plain_b ty = true -> a = c -> peek_char st = k -> k <> 0 -> k < 128 ->
    finish (mkTok ty [a; k] (line st) (idx st)) (read_char st) = OK (t, st') ->
    designates rs t /\ cur rs st'.
  Proof.
    pose proof HcL as Hc. intros Hp Ha Hk Hz Hl F. subst a.
    eapply (L_two ty k); [exact Hp|exact Hk|exact Hz|exact Hl|rewrite Hc; exact F].
  Qed.

  Lemma L_bang t st' :
    c = 33 -> lex_bang st (line st) (idx st) = OK (t, st') -> designates rs t /\ cur rs st'.
  Proof.
    pose proof HcL as Hc.
    intros H33 F. unfold lex_bang in F. destruct (peek_char st =? 61) eqn:E.
    - apply N.eqb_eq in E.
      eapply (L_two' T_NOT_EQUAL 33 61); [reflexivity|symmetry; exact H33|exact E|discriminate|reflexivity|exact F].
    - destruct (peek_char st =? 126) eqn:E2.
      + apply N.eqb_eq in E2.
        eapply (L_two' T_NOT_REGEX_MATCH 33 126); [reflexivity|symmetry; exact H33|exact E2|discriminate|reflexivity|exact F].
      + eapply (L_single T_NOT); [reflexivity|exact F].
  Qed.

  Lemma L_comment n t st' :
    (do (l, st1) <- read_eol n st; finish (mkTok T_COMMENT l (line st) (idx st)) st1) = OK (t, st') ->
    designates rs t /\ cur rs st'.
  Proof.
    pose proof HcL as Hc.
    intros F. destruct (read_eol n st) as [[l st1]| | |] eqn:R; cbn [bind] in F; try discriminate.
    destruct (read_eol_view rs _ _ _ _ _ _ _ V R) as (P & Hl & C).
    eapply fin_plain; [exact V|exact F|reflexivity|exact Hl|exact P|exact C].
  Qed.

  Lemma L_slash n t st' :
    c = 47 -> lex_slash n st (line st) (idx st) = OK (t, st') -> designates rs t /\ cur rs st'.
  Proof.
    pose proof HcL as Hc.
    intros H47 F. unfold lex_slash in F. destruct (peek_char st =? 61) eqn:E.
    { apply N.eqb_eq in E.
      eapply (L_two' T_DIVISION 47 61); [reflexivity|symmetry; exact H47|exact E|discriminate|reflexivity|exact F]. }
    destruct (peek_char st =? 47).
    { eapply L_comment; exact F. }
    destruct (peek_char st =? 42) eqn:E42.
    { apply N.eqb_eq in E42.
      destruct (read_multi_comment n st) as [[l st1]| | |] eqn:R; cbn [bind] in F; try discriminate.
      destruct (read_multi_comment_view rs _ _ _ _ _ _ _ V E42 R) as (P & Hl & C).
      eapply fin_plain; [exact V|exact F|reflexivity|exact Hl|exact P|exact C]. }
    eapply (L_single T_SLASH); [reflexivity|exact F].
  Qed.

  Lemma des_string p l o : at_text rs p (34 :: l) -> designates rs (mkTokO T_STRING l (fst p) (snd p) o).
  Proof.
    intros A. unfold designates, is_eof. cbn [ttype tlit tline tpos].
    change (str_eqb T_STRING T_EOF) with false.
    change (str_eqb T_STRING T_CLOSE_LONG_STRING) with false.
    change (str_eqb T_STRING T_STRING) with true.
    cbv beta iota. destruct p. exact A.
  Qed.

  Lemma L_string n t st' :
    c = 34 ->
    (do (l, st1) <- read_string n st; finish (mkTokO T_STRING l (line st) (idx st) 2) st1) = OK (t, st') ->
    designates rs t /\ cur rs st'.
  Proof.
    pose proof HcL as Hc.
    intros H34 F. destruct (read_string n st) as [[l st1]| | |] eqn:R; cbn [bind] in F; try discriminate.
    unfold read_string in R.
    destruct (read_while_moved rs in_string nz_in_string _ _ _ _ _ _ (read_char_view _ _ _ _ _ V) R)
      as (txt' & E & V1).
    destruct (finish_cur _ _ _ _ _ (cur_of_view _ _ _ _ V1) F) as [-> C'].
    split; [|exact C'].
    apply (des_string (line st, idx st) _ 2).
    eapply view_at_text; [exact V|discriminate|]. rewrite H34, E. apply pfx_cons. exists txt'. reflexivity.
  Qed.
End Tok.

Lemma pfx_app a b txt t1 : txt = a ++ t1 -> pfx b t1 -> pfx (a ++ b) txt.
Proof. intros -> [r ->]. exists r. rewrite app_assoc. reflexivity. Qed.

Lemma read_while_nonempty p n st l st' :
  read_while p n st = OK (l, st') -> p (ch st) = true -> l <> [].
Proof.
  destruct n as [|n]; [discriminate|]. cbn [read_while]. intros R E. rewrite E in R.
  destruct (read_while p n (read_char st)) as [[l1 s1]| | |]; cbn in R; try discriminate.
  injection R as <- <-. discriminate.
Qed.

Lemma plain_keywords : forallb (fun kv => plain_b (snd kv)) keywords = true /\ plain_b T_IDENT = true.
Proof. split; vm_compute; reflexivity. Qed.

Lemma lookup_plain l : plain_b (lookup_ident l) = true.
Proof.
  unfold lookup_ident.
  destruct (find (fun kv => str_eqb (fst kv) l) keywords) as [kv|] eqn:E.
  - apply find_some in E as [Hin _]. pose proof (proj1 plain_keywords) as K.
    rewrite forallb_forall in K. apply (K kv Hin).
  - apply plain_keywords.
Qed.

Lemma L_ident rs st pre c suf n t st' :
  view rs st pre (c :: suf) -> is_letter c = true ->
  lex_ident n st (line st) (idx st) = OK (t, st') -> designates rs t /\ cur rs st'.
Proof.
  intros V Hl F. pose proof (view_cons_ch _ _ _ _ _ V) as Hc. unfold lex_ident in F.
  destruct (read_identifier n st) as [[lit0 st1]| | |] eqn:R0; cbn [bind] in F; try discriminate.
  unfold read_identifier in R0.
  assert (N0 : lit0 <> []) by (eapply read_while_nonempty; [exact R0|rewrite Hc; exact Hl]).
  destruct (read_while_moved rs is_letter nz_letter _ _ _ _ _ _ V R0) as (txt1 & E1 & V1).
  destruct (str_eqb lit0 L_default).
  { injection F as <- <-. split; [|eapply cur_of_view, V1].
    eapply tok_plain; [reflexivity|exact N0|exact V|]. exists txt1. exact E1. }
  destruct (ident_more n st1) as [[more st2]| | |] eqn:R1; cbn [bind] in F; try discriminate.
  destruct (ident_more_moved rs _ _ _ _ _ _ V1 R1) as (txt2 & E2 & V2).
  assert (P : pfx (lit0 ++ more) (c :: suf)).
  { eapply pfx_app; [exact E1|]. exists txt2. exact E2. }
  assert (N1 : lit0 ++ more <> []).
  { intros E. apply app_eq_nil in E as [E _]. congruence. }
  assert (Rot : forall ty lq lr, plain_b ty = true -> str_eqb (lit0 ++ more) lr = true ->
                  lq = lr ++ [61] -> ch st2 = 61 ->
                  finish (mkTok ty lq (line st) (idx st)) st2 = OK (t, st') ->
                  designates rs t /\ cur rs st').
  { intros ty lq lr Hp Hs Hq H61 F'. apply str_eqb_eq in Hs.
    destruct (view_nz _ _ _ _ V2) as (c2 & s2 & E3 & Hc2); [rewrite H61; discriminate|].
    eapply fin_plain; [exact V|exact F'|exact Hp| | |eapply cur_of_view, V2].
    - rewrite Hq. intros E. apply app_eq_nil in E as [_ E]. discriminate.
    - rewrite Hq, <- Hs. eapply pfx_app; [rewrite E1, E2, app_assoc; reflexivity|].
      rewrite E3, <- Hc2, H61. apply pfx_cons, pfx_refl_nil. }
  destruct (str_eqb (lit0 ++ more) L_rol && (ch st2 =? 61)) eqn:B1.
  { apply andb_true_iff in B1 as [B1 B2]. apply N.eqb_eq in B2.
    eapply (Rot T_LEFT_ROTATE L_roleq L_rol); eauto. }
  destruct (str_eqb (lit0 ++ more) L_ror && (ch st2 =? 61)) eqn:B3.
  { apply andb_true_iff in B3 as [B3 B4]. apply N.eqb_eq in B4.
    eapply (Rot T_RIGHT_ROTATE L_roreq L_ror); eauto. }
  injection F as <- <-. split; [|eapply cur_of_view, V2].
  eapply tok_plain; [apply lookup_plain|exact N1|exact V|exact P].
Qed.

Lemma read_number_nonempty n st r st' :
  read_number n st = OK (r, st') -> is_decimal (ch st) = true -> fst (fst r) <> [].
Proof.
  intros R Hd. unfold read_number in R.
  destruct ((ch st =? 48) && ((peek_char st =? 120) || (peek_char st =? 88))).
  - destruct (read_mantissa is_hex 112 n (read_char (read_char st))) as [[[[l isf] x] st3]| | |];
      cbn [bind] in R; try discriminate. injection R as <- <-. cbn. discriminate.
  - destruct (read_mantissa is_decimal 101 n st) as [[[[l isf] x] st3]| | |] eqn:M;
      cbn [bind] in R; try discriminate. injection R as <- <-. cbn [fst].
    unfold read_mantissa in M.
    destruct (read_while is_decimal n st) as [[a st1]| | |] eqn:R1; cbn [bind] in M; try discriminate.
    pose proof (read_while_nonempty _ _ _ _ _ R1 Hd) as Na.
    assert (forall y, a ++ y <> []) as Nay.
    { intros y E. apply app_eq_nil in E as [E _]. congruence. }
    destruct (ch st1 =? 46).
    + destruct (read_while is_decimal n (read_char st1)) as [[b st2]| | |]; cbn in M; try discriminate.
      destruct (ch st2 =? 101).
      * destruct (read_exponent n st2) as [[e st4]| | |]; cbn in M; try discriminate.
        injection M as <- _ _ _. apply Nay.
      * injection M as <- _ _ _. apply Nay.
    + cbn [bind] in M. destruct (ch st1 =? 101).
      * destruct (read_exponent n st1) as [[e st4]| | |]; cbn in M; try discriminate.
        injection M as <- _ _ _. apply Nay.
      * injection M as <- _ _ _. apply Nay.
Qed.

Lemma L_number rs st pre c suf n t st' :
  view rs st pre (c :: suf) -> is_decimal c = true ->
  lex_number n st (line st) (idx st) = OK (t, st') -> designates rs t /\ cur rs st'.
Proof.
  intros V Hd F. pose proof (view_cons_ch _ _ _ _ _ V) as Hc. unfold lex_number in F.
  destruct (read_number n st) as [[[[num isf] rt] st1]| | |] eqn:R; cbn [bind] in F; try discriminate.
  assert (Hz : ch st <> 0) by (apply nz_decimal; rewrite Hc; exact Hd).
  pose proof (read_number_moved rs _ _ _ _ _ _ V Hz R) as (txt1 & E1 & V1). cbn [fst] in E1, V1.
  assert (Nn : num <> []).
  { pose proof (read_number_nonempty _ _ _ _ R) as H. cbn [fst] in H. apply H. rewrite Hc. exact Hd. }
  assert (Napp : forall y, num ++ y <> []).
  { intros y E. apply app_eq_nil in E as [E _]. congruence. }
  assert (Suffix : forall stx, cur rs stx -> ch st1 <> 0 ->
            finish (mkTok T_RTIME (num ++ [ch st1]) (line st) (idx st)) stx = OK (t, st') ->
            designates rs t /\ cur rs st').
  { intros stx Cx Hnz F'. destruct (view_nz _ _ _ _ V1 Hnz) as (c1 & s1 & E2 & Hc1).
    eapply fin_plain; [exact V|exact F'|reflexivity|apply Napp| |exact Cx].
    eapply pfx_app; [exact E1|]. rewrite E2, Hc1. apply pfx_cons, pfx_refl_nil. }
  destruct (rt && (ch st1 =? 109)) eqn:B1.
  { apply andb_true_iff in B1 as [_ B1]. apply N.eqb_eq in B1.
    assert (Hnz : ch st1 <> 0) by (rewrite B1; discriminate).
    destruct (peek_char st1 =? 115) eqn:B2.
    - apply N.eqb_eq in B2.
      destruct (view_nz _ _ _ _ V1 Hnz) as (c1 & s1 & E2 & Hc1). rewrite E2 in V1.
      destruct (peek_ascii _ _ _ _ _ 115 V1 B2) as (s2 & E3); [discriminate|reflexivity|].
      eapply fin_plain; [exact V|exact F|reflexivity|apply Napp| |eapply cur_read, V1].
      eapply pfx_app; [exact E1|]. rewrite E2, E3, <- Hc1, B1.
      apply pfx_cons, pfx_cons, pfx_refl_nil.
    - eapply Suffix; [eapply cur_of_view, V1|exact Hnz|exact F]. }
  destruct (rt && ((ch st1 =? 115) || (ch st1 =? 104) || (ch st1 =? 100) || (ch st1 =? 121))) eqn:B3.
  { apply andb_true_iff in B3 as [_ B3].
    assert (Hnz : ch st1 <> 0) by (intros Z; rewrite Z in B3; discriminate).
    eapply Suffix; [eapply cur_of_view, V1|exact Hnz|exact F]. }
  injection F as <- <-. split; [|eapply cur_of_view, V1].
  eapply tok_plain; [destruct isf; reflexivity|exact Nn|exact V|]. exists txt1. exact E1.
Qed.

Lemma L_default rs st pre c suf n t st' :
  view rs st pre (c :: suf) -> c <> 0 -> c <> 46 ->
  lex_default n st (line st) (idx st) = OK (t, st') -> designates rs t /\ cur rs st'.
Proof.
  intros V Hz Hdot F. pose proof (view_cons_ch _ _ _ _ _ V) as Hc. unfold lex_default in F.
  destruct (((ch st =? 67) || (ch st =? 87)) && (peek_char st =? 33)) eqn:B.
  { apply andb_true_iff in B as [_ B]. apply N.eqb_eq in B.
    eapply (L_two rs st pre c suf V T_FASTLY_CONTROL 33); eauto; [discriminate|reflexivity]. }
  destruct (is_letter (ch st)) eqn:El.
  { eapply L_ident; [exact V|rewrite <- Hc; exact El|exact F]. }
  destruct (is_digit (ch st)) eqn:Ed.
  { eapply L_number; [exact V| |exact F]. rewrite <- Hc. apply digit_not_dot; [exact Ed|rewrite Hc; exact Hdot]. }
  eapply L_single; [exact V| |exact F]. reflexivity.
Qed.

(* ---- the long string ---- *)
Lemma last_byte_snoc d0 q : last_byte (d0 ++ [q]) = Some q.
Proof. unfold last_byte. rewrite rev_app_distr. reflexivity. Qed.

Lemma view_push rs st ts pre txt : view rs st pre txt -> view rs (push_tokens st ts) pre txt.
Proof. unfold view. intros [H V]. split; [exact H|]. destruct txt; exact V. Qed.

Lemma vcur_push rs st ts : vcur rs st -> vcur rs (push_tokens st ts).
Proof.
  intros [(pre & txt & V)|[Hq (pre & txt & V)]].
  - left. eexists _, _. apply view_push. exact V.
  - right. split; [exact Hq|]. eexists _, _.
    change (set_ch (push_tokens st ts) 125) with (push_tokens (set_ch st 125) ts).
    apply view_push. exact V.
Qed.

Lemma read_bracket_loop_peeks endb : forall n st l st',
  read_bracket_loop endb n st = OK (l, st') -> peeks st' = peeks st.
Proof.
  induction n as [|n IH]; intros st l st' R; [discriminate|].
  cbn [read_bracket_loop] in R.
  assert (Rec : forall l1 s1, read_bracket_loop endb n (read_char st) = OK (l1, s1) -> peeks s1 = peeks st).
  { intros l1 s1 R1. rewrite (IH _ _ _ R1). apply read_char_aux. }
  destruct (ch st =? 0); [injection R as <- <-; reflexivity|].
  destruct (ch st =? 34).
  - destruct (peek_bytes (length endb) (rest st)); [|injection R as <- <-; reflexivity].
    destruct (bytes_eqb endb l0).
    + injection R as <- <-. reflexivity.
    + destruct (read_bracket_loop endb n (read_char st)) as [[l1 s1]| | |] eqn:R1; cbn in R; try discriminate.
      injection R as <- <-. eapply Rec. reflexivity.
  - destruct (read_bracket_loop endb n (read_char st)) as [[l1 s1]| | |] eqn:R1; cbn in R; try discriminate.
    injection R as <- <-. eapply Rec. reflexivity.
Qed.

Lemma finish_peeks t st1 t' st' : finish t st1 = OK (t', st') -> peeks st' = peeks st1.
Proof.
  unfold finish. intros [= <- <-]. destruct (ch st1 =? 0); [reflexivity|apply read_char_aux].
Qed.

Lemma des_open rs p l : at_text rs p (123 :: l ++ [34]) ->
  designates rs (mkTok T_OPEN_LONG_STRING l (fst p) (snd p)).
Proof.
  intros A. unfold designates, is_eof. cbn [ttype tlit tline tpos].
  change (str_eqb T_OPEN_LONG_STRING T_EOF) with false.
  change (str_eqb T_OPEN_LONG_STRING T_CLOSE_LONG_STRING) with false.
  change (str_eqb T_OPEN_LONG_STRING T_STRING) with false.
  change (str_eqb T_OPEN_LONG_STRING T_OPEN_LONG_STRING) with true.
  cbv beta iota. destruct p. exact A.
Qed.

Lemma des_close rs st l : close_pos rs st ->
  designates rs (mkTok T_CLOSE_LONG_STRING l (line st) (idx st)).
Proof.
  intros A. unfold designates, is_eof. cbn [ttype tlit tline tpos].
  change (str_eqb T_CLOSE_LONG_STRING T_EOF) with false.
  change (str_eqb T_CLOSE_LONG_STRING T_CLOSE_LONG_STRING) with true.
  cbv beta iota. exact A.
Qed.

Lemma L_brace rs st pre c suf n t st' :
  view rs st pre (c :: suf) -> c = 123 -> peeks st = [] ->
  lex_brace n st (line st) (idx st) = OK (t, st') ->
  designates rs t /\ cur rs st' /\ Forall (designates rs) (peeks st').
Proof.
  intros V H123 Hpk F. pose proof (view_cons_ch _ _ _ _ _ V) as Hc. unfold lex_brace in F.
  assert (Plain : finish (mkTok T_LEFT_BRACE [ch st] (line st) (idx st)) st = OK (t, st') ->
                  designates rs t /\ cur rs st' /\ Forall (designates rs) (peeks st')).
  { intros F'. pose proof (finish_peeks _ _ _ _ F') as Pk.
    destruct (L_single rs st pre c suf V T_LEFT_BRACE t st' eq_refl F') as [D C].
    split; [exact D|]. split; [exact C|]. rewrite Pk, Hpk. constructor. }
  destruct (peek_until st) as [d|] eqn:P; [|apply Plain; exact F].
  unfold peek_until in P. destruct (scan_delim_split _ _ _ P) as (d0 & q & tl & -> & Hr & Hok).
  rewrite last_byte_snoc in F.
  destruct (negb (b2n q =? 34)) eqn:Eq; [apply Plain; exact F|].
  apply negb_false_iff, N.eqb_eq in Eq.
  rewrite removelast_last in F.
  set (st1 := skip_bytes (length (d0 ++ [q])) st) in *.
  destruct (read_bracket_string d0 n st1) as [[body st2]| | |] eqn:R; cbn [bind] in F; try discriminate.
  (* the text after the brace: the delimiter, the quote, the rest *)
  assert (Hsuf : suf = map b2n (d0 ++ [q]) ++ dec_all tl).
  { destruct V as [_ (_ & Hd & _)]. rewrite <- Hd, Hr.
    apply dec_all_ascii_app. apply Forall_app. split; [apply dl_ok_ascii; exact Hok|].
    constructor; [|constructor]. unfold ascii. rewrite Eq. reflexivity. }
  assert (V' := V). rewrite Hsuf in V'.
  assert (Hlf : c <> 10) by (rewrite H123; discriminate).
  destruct (skip_view rs st pre c d0 q tl V' Hr Hlf Hok) as [V1 Hch1]. fold st1 in V1, Hch1.
  rewrite Eq in V1.
  unfold read_bracket_string in R.
  rewrite <- (read_char_set_ch st1 34) in R by (try rewrite Hch1, Hc, H123; discriminate).
  pose proof (read_char_view _ _ _ _ _ V1) as V1'.
  destruct (read_bracket_loop_view rs d0 Hok _ _ _ _ _ _ V1' R) as (Pb & VC & CP).
  pose proof (read_bracket_loop_peeks _ _ _ _ _ R) as Pk2.
  assert (Pk1 : peeks (read_char (set_ch st1 34)) = []).
  { rewrite (proj1 (read_char_aux _)). cbn [set_ch peeks]. unfold st1, skip_bytes. cbn [peeks]. exact Hpk. }
  rewrite Pk1 in Pk2.
  set (stt := mkTokO T_STRING body (line st1) (idx st1) (2 + 2 * N.of_nat (length (d0 ++ [q])))) in *.
  set (ct := mkTok T_CLOSE_LONG_STRING (map b2n d0) (line st2) (idx st2)) in *.
  destruct (finish_vcur rs _ _ _ _ (vcur_push rs st2 [stt; ct] VC) F) as [-> C'].
  pose proof (finish_peeks _ _ _ _ F) as Pk3.
  split; [|split; [exact C'|]].
  - apply (des_open rs (line st, idx st)).
    eapply view_at_text; [exact V|discriminate|].
    rewrite Hsuf, H123, map_app. cbn [map]. rewrite Eq.
    exists (dec_all tl). cbn [app]. rewrite <- !app_assoc. reflexivity.
  - rewrite Pk3. unfold push_tokens, set_peeks. cbn [peeks]. rewrite Pk2. cbn [app].
    constructor; [|constructor; [|constructor]].
    + apply (des_string rs (line st1, idx st1) _ _).
      change (line st1, idx st1) with (line (set_ch st1 34), idx (set_ch st1 34)).
      eapply view_at_text; [exact V1|discriminate|]. apply pfx_cons. exact Pb.
    + apply des_close. exact CP.
Qed.

(* ---- EOF ---- *)
Lemma L_eof rs st t st' :
  cur rs st -> ch st = 0 -> iseof st = false ->
  lex_eof st (line st) (idx st) = OK (t, st') -> designates rs t /\ is_eof t = true.
Proof.
  intros (pre & txt & V) Hz He F. unfold lex_eof in F. rewrite He in F. injection F as <- _.
  split; [|reflexivity].
  unfold designates. change (is_eof (mkTok T_EOF [] (line st) (idx st))) with true.
  cbv beta iota. cbn [tline tpos].
  destruct txt as [|c suf].
  - left. destruct V as [_ (_ & _ & Hp)]. exact Hp.
  - right. pose proof (view_cons_ch _ _ _ _ _ V) as Hc. rewrite <- Hz, Hc.
    eapply view_at_text; [exact V|discriminate|apply pfx_cons, pfx_refl_nil].
Qed.

(* ---- the switch ---- *)
Definition linv (rs : list rune) (st : lexer) : Prop :=
  iseof st = false /\ cur rs st /\ Forall (designates rs) (peeks st).

Ltac branchF F E :=
  match type of F with
  | context [if ?c =? ?k then _ else _] =>
    destruct (c =? k) eqn:E; [apply N.eqb_eq in E | apply N.eqb_neq in E]
  end.

Lemma lex_char_located rs n st t st' :
  (nu st < n)%nat -> wf st -> peeks st = [] -> iseof st = false -> cur rs st ->
  lex_char n st = OK (t, st') ->
  designates rs t /\ (is_eof t = true \/ linv rs st').
Proof.
  intros Hn W Hpk He C F.
  destruct (lex_char_ok n st Hn Hpk W) as (t0 & st0 & F0 & K).
  rewrite F in F0. injection F0 as <- <-.
  destruct K as [[Hz _]|[Hz K]].
  { unfold lex_char in F. rewrite Hz in F. cbn in F.
    destruct (L_eof rs st t st' C Hz He F) as [D E]. split; [exact D|left; exact E]. }
  destruct C as (pre & txt & V).
  destruct (view_nz _ _ _ _ V Hz) as (c & suf & -> & Hc).
  destruct K as (_ & _ & Ke & _ & Kp).
  assert (Done : forall k, ch st = k -> k <> 123 ->
                 designates rs t /\ cur rs st' -> designates rs t /\ (is_eof t = true \/ linv rs st')).
  { intros k Ek Hk [D C']. split; [exact D|]. right. unfold linv. split; [congruence|]. split; [exact C'|].
    destruct Kp as [->|[H123 _]]; [constructor|]. exfalso. congruence. }
  assert (Done' : ch st <> 123 ->
                 designates rs t /\ cur rs st' -> designates rs t /\ (is_eof t = true \/ linv rs st')).
  { intros Hk. apply (Done (ch st) eq_refl Hk). }
  unfold lex_char in F.
  Ltac ceq E Hc := rewrite <- Hc; exact E.
  branchF F E. { apply (Done _ E); [discriminate|]. eapply (L_op_eq rs st pre c suf V); [| |exact F]; reflexivity. }
  clear E. branchF F E. { apply (Done _ E); [discriminate|]. eapply (L_op_eq rs st pre c suf V); [| |exact F]; reflexivity. }
  clear E. branchF F E123.
  { destruct (L_brace rs st pre c suf n t st' V ltac:(ceq E123 Hc) Hpk F) as (D & C' & P).
    split; [exact D|]. right. unfold linv. split; [congruence|]. split; assumption. }
  branchF F E. { apply (Done _ E); [discriminate|]. eapply (L_single rs st pre c suf V); [|exact F]; reflexivity. }
  clear E. branchF F E. { apply (Done _ E); [discriminate|]. eapply (L_single rs st pre c suf V); [|exact F]; reflexivity. }
  clear E. branchF F E. { apply (Done _ E); [discriminate|]. eapply (L_single rs st pre c suf V); [|exact F]; reflexivity. }
  clear E. branchF F E. { apply (Done _ E); [discriminate|]. eapply (L_single rs st pre c suf V); [|exact F]; reflexivity. }
  clear E. branchF F E. { apply (Done _ E); [discriminate|]. eapply (L_single rs st pre c suf V); [|exact F]; reflexivity. }
  clear E. branchF F E. { apply (Done _ E); [discriminate|]. eapply (L_string rs st pre c suf V n); [ceq E Hc|exact F]. }
  clear E. branchF F E. { apply (Done _ E); [discriminate|]. eapply (L_single rs st pre c suf V); [|exact F]; reflexivity. }
  clear E. branchF F Edot. { apply (Done _ Edot); [discriminate|]. eapply (L_single rs st pre c suf V); [|exact F]; reflexivity. }
  branchF F E. { apply (Done _ E); [discriminate|]. eapply (L_single rs st pre c suf V); [|exact F]; reflexivity. }
  clear E. branchF F E. { apply (Done _ E); [discriminate|]. eapply (L_slash rs st pre c suf V n); [ceq E Hc|exact F]. }
  clear E. branchF F E. { apply (Done _ E); [discriminate|]. eapply (L_comment rs st pre c suf V n); exact F. }
  clear E. branchF F E.
  { apply (Done _ E); [discriminate|].
    eapply (L_op_dbl rs st pre c suf V); [| | | | |exact F]; try reflexivity; rewrite <- Hc, E; [discriminate|reflexivity]. }
  clear E. branchF F E.
  { apply (Done _ E); [discriminate|].
    eapply (L_op_dbl rs st pre c suf V); [| | | | |exact F]; try reflexivity; rewrite <- Hc, E; [discriminate|reflexivity]. }
  clear E. branchF F E. { apply (Done _ E); [discriminate|]. eapply (L_op_eq rs st pre c suf V); [| |exact F]; reflexivity. }
  clear E. branchF F E. { apply (Done _ E); [discriminate|]. eapply (L_op_eq rs st pre c suf V); [| |exact F]; reflexivity. }
  clear E. branchF F E.
  { apply (Done _ E); [discriminate|].
    eapply (L_op_shift rs st pre c suf V); [| | | | |exact F]; try reflexivity; rewrite <- Hc, E; [discriminate|reflexivity]. }
  clear E. branchF F E.
  { apply (Done _ E); [discriminate|].
    eapply (L_op_shift rs st pre c suf V); [| | | | |exact F]; try reflexivity; rewrite <- Hc, E; [discriminate|reflexivity]. }
  clear E. branchF F E. { apply (Done _ E); [discriminate|]. eapply (L_op_eq rs st pre c suf V); [| |exact F]; reflexivity. }
  clear E. branchF F E. { apply (Done _ E); [discriminate|]. eapply (L_single rs st pre c suf V); [|exact F]; reflexivity. }
  clear E. branchF F E. { apply (Done _ E); [discriminate|]. eapply (L_single rs st pre c suf V); [|exact F]; reflexivity. }
  clear E. branchF F E. { apply (Done _ E); [discriminate|]. eapply (L_bang rs st pre c suf V); [ceq E Hc|exact F]. }
  clear E. branchF F E. { apply (Done _ E); [discriminate|]. eapply (L_op_eq rs st pre c suf V); [| |exact F]; reflexivity. }
  clear E. branchF F Ez. { congruence. }
  branchF F E. { apply (Done _ E); [discriminate|]. eapply (L_single rs st pre c suf V); [|exact F]; reflexivity. }
  apply (Done' E123).
  eapply (L_default rs st pre c suf n t st' V); [rewrite <- Hc; exact Hz|rewrite <- Hc; exact Edot|exact F].
Qed.

(* ---- NextToken and the loop ---- *)
Lemma cur_set_peeks rs st ps : cur rs st -> cur rs (set_peeks st ps).
Proof.
  intros (pre & txt & [H V]). exists pre, txt. split; [exact H|]. destruct txt; exact V.
Qed.

Lemma next_token_located rs n st t st' :
  (nu st < n)%nat -> wf st -> linv rs st -> next_token n st = OK (t, st') ->
  designates rs t /\ (is_eof t = true \/ linv rs st').
Proof.
  intros Hn W (He & C & P) F. unfold next_token in F.
  destruct (peeks st) as [|t0 ps] eqn:Pk.
  - destruct (skip_whitespace_ok n st Hn) as (st1 & R & L). rewrite R in F. cbn [bind] in F.
    destruct L as [Ln (A1 & A2 & A3)].
    assert (W1 : wf st1). { destruct W as [W1 W2]. unfold wf. rewrite A1, A2, A3. auto. }
    assert (C1 : cur rs st1).
    { unfold skip_whitespace in R.
      destruct (read_while is_space n st) as [[l s1]| | |] eqn:R1; try discriminate.
      injection R as <-. destruct C as (pre & txt & V).
      destruct (read_while_moved rs is_space nz_space _ _ _ _ _ _ V R1) as (txt' & _ & V').
      eapply cur_of_view, V'. }
    eapply lex_char_located; [|exact W1| | |exact C1|exact F]; [lia|congruence|congruence].
  - injection F as <- <-. inversion P; subst. split; [assumption|]. right.
    unfold linv. cbn [set_peeks iseof peeks]. split; [exact He|]. split; [apply cur_set_peeks; exact C|assumption].
Qed.

Lemma lex_loop_located rs inner : forall outer st ts,
  (nu st < inner)%nat -> wf st -> linv rs st -> lex_loop outer inner st = OK ts ->
  Forall (designates rs) ts.
Proof.
  induction outer as [|o IH]; intros st ts Hn W L R; [discriminate|].
  cbn [lex_loop] in R.
  destruct (next_token_ok inner st Hn W) as (t & st' & F & _ & W' & N' & _).
  rewrite F in R. cbn [bind] in R.
  destruct (next_token_located rs inner st t st' Hn W L F) as [D K].
  destruct (is_eof t) eqn:E.
  - injection R as <-. constructor; [exact D|constructor].
  - destruct K as [K|K]; [discriminate|].
    destruct (lex_loop o inner st') as [ts'| | |] eqn:R'; try discriminate.
    injection R as <-. constructor; [exact D|]. eapply IH; [|exact W'|exact K|exact R']. lia.
Qed.

Lemma init_cur s : cur (dec_all s) (init s).
Proof.
  unfold init, read_char. cbn [rest ch line idx peeks iseof eoftok].
  destruct s as [|b t].
  - exists [], []. split; [reflexivity|]. cbn. auto.
  - destruct (dec_rune (b :: t)) as [r sz] eqn:D.
    exists [], (dec_all (b :: t)). split; [reflexivity|].
    rewrite dec_all_cons, D. cbn [fst snd ch rest line idx]. repeat split.
Qed.

Theorem lex_located s ts t :
  tokens s = OK ts -> In t ts -> designates (dec_all s) t.
Proof.
  intros R Hin. unfold tokens, lex_all in R.
  destruct (init_facts s) as (Hn & Hp & W).
  assert (L : linv (dec_all s) (init s)).
  { unfold linv. split; [|split; [apply init_cur|rewrite Hp; constructor]].
    unfold init. rewrite (proj1 (proj2 (read_char_aux _))). reflexivity. }
  pose proof (lex_loop_located (dec_all s) (lex_fuel s) (lex_fuel s) (init s) ts) as H.
  assert (F : Forall (designates (dec_all s)) ts).
  { apply H; [unfold lex_fuel; lia|exact W|exact L|exact R]. }
  rewrite Forall_forall in F. apply F. exact Hin.
Qed.
