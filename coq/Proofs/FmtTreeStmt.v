(* C03, tree level, statements: the keyword rewrites of Model/FmtNorm.v ([spelling], [opens_return])
   replayed on the parser model (Model/ParseStmt.v).  Each theorem says: the rewritten token list
   parses to the documented normalisation of the tree the original parses to (errors included where
   stated). *)
From Coq Require Import String.
From Coq Require Import List NArith ZArith Bool Lia.
From Falco Require Import Base.Bytes Gen.TokenTypes Model.ParseKinds Gen.ParserTables
  Model.ParseBase Model.Ast Model.ParseLit Model.ParseExpr Model.ParseStmt Model.Yield
  Proofs.ParseTables Proofs.ParseExprYield Proofs.ParsePratt Proofs.ParseRoundtrip Proofs.FmtTreeExpr.
Import ListNotations.
Local Open Scope N_scope.

(* ---------------------------------------------------------------- remove -> unset *)
(* ast.RemoveStatement{Ident} becomes ast.UnsetStatement{Ident}: same identifier, same semicolon *)
Definition unset_of (u : token) (r : pres (stmt * pstate)) : pres (stmt * pstate) :=
  match r with
  | POK (SRemove _ id sm, s) => POK (SUnset u id sm, s)
  | x => x
  end.

(* ---------------------------------------------------------------- elseif / elsif -> else if *)
Definition elif_kw (k1 : token) (k2 : option token) (r : pres (elif * pstate)) : pres (elif * pstate) :=
  match r with
  | POK (Elif _ _ lp c rp lb ss rb, s) => POK (Elif k1 k2 lp c rp lb ss rb, s)
  | x => x
  end.

Lemma elif_kw_bind {A} k1 k2 (e : pres A) f : elif_kw k1 k2 (pbind e f) = pbind e (fun x => elif_kw k1 k2 (f x)).
Proof. destruct e; reflexivity. Qed.

Lemma pbind_ext {A B} (e : pres A) (f g : A -> pres B) : (forall a, f a = g a) -> pbind e f = pbind e g.
Proof. intros H. destruct e; simpl; auto. Qed.

Section S.
Variable fok : str -> bool.

Notation parse_expr := (parse_expr fok).
Local Open Scope parse_scope.

(* one unfolding of the fuelled functions, stated with the recursive calls folded *)
Lemma pstmt_simple n st0 r : psimple fok (next st0) = Some r -> pstmt fok (S n) st0 = r.
Proof. intros H. cbn [pstmt]. now rewrite H. Qed.

Lemma pelif_S n k1 k2 st :
  pelif fok (S n) k1 k2 st =
    (do st1 <- expect st T_LEFT_PAREN;
     do (c, st2) <- parse_expr P_LOWEST (next st1);
     do st3 <- expect st2 T_RIGHT_PAREN;
     do st4 <- expect st3 T_LEFT_BRACE;
     do (b, st5) <- pblock fok n st4;
     let '(lb, ss, rb) := b in
     POK (Elif k1 k2 (cur st1) c (cur st3) lb ss rb, st5)).
Proof. reflexivity. Qed.

Lemma pif_chain_S n st acc :
  pif_chain fok (S n) st acc =
    match typ (peek st) with
    | T_ELSE =>
        let st1 := next st in
        if peek_is st1 T_IF then
          let st2 := next st1 in
          do (e, st3) <- pelif fok n (cur st1) (Some (cur st2)) st2;
          pif_chain fok n st3 (e :: acc)
        else
          do st2 <- expect st1 T_LEFT_BRACE;
          do (b, st3) <- pblock fok n st2;
          let '(lb, ss, rb) := b in
          POK ((rev acc, Some (cur st1, lb, ss, rb)), st3)
    | T_ELSEIF | T_ELSIF =>
        let st1 := next st in
        do (e, st2) <- pelif fok n (cur st1) None st1;
        pif_chain fok n st2 (e :: acc)
    | _ => POK ((rev acc, None), st)
    end.
Proof. reflexivity. Qed.

Lemma expect_cons pv a R t :
  expect (St pv (a :: R)) t =
    if ttype_eqb (typ (hd eof_tok R)) t then POK (St (Some a) R)
    else PErr E_unexpected (hd eof_tok R) (length R).
Proof.
  unfold expect, expect_peek, peek_is, peek, err_peek. cbn [toks tl].
  destruct (ttype_eqb (typ (hd eof_tok R)) t); reflexivity.
Qed.

Lemma semi_cons pv a R :
  semi (St pv (a :: R)) =
    if ttype_eqb (typ (hd eof_tok R)) T_SEMICOLON then POK (St (Some a) R)
    else PErr E_missing_semi a (S (length R)).
Proof. reflexivity. Qed.

Theorem remove_to_unset n pv c kw u rest :
  typ kw = T_REMOVE -> typ u = T_UNSET ->
  pstmt fok (S n) (St pv (c :: u :: rest)) = unset_of u (pstmt fok (S n) (St pv (c :: kw :: rest))).
Proof.
  intros Hk Hu.
  rewrite (pstmt_simple n (St pv (c :: u :: rest)) (pkw_ident SUnset (St (Some c) (u :: rest))))
    by (unfold psimple, next, cur; cbn [toks hd tl]; now rewrite Hu).
  rewrite (pstmt_simple n (St pv (c :: kw :: rest)) (pkw_ident SRemove (St (Some c) (kw :: rest))))
    by (unfold psimple, next, cur; cbn [toks hd tl]; now rewrite Hk).
  unfold pkw_ident. rewrite !expect_cons.
  destruct (ttype_eqb (typ (hd eof_tok rest)) T_IDENT); [|reflexivity].
  cbn [pbind]. destruct rest as [|a rest]; [reflexivity|]. rewrite !semi_cons.
  destruct (ttype_eqb (typ (hd eof_tok rest)) T_SEMICOLON); reflexivity.
Qed.

(* ParseAnotherIfStatement never looks at the keyword token(s) it is entered on *)
Lemma pelif_entry n k1 k2 k1' k2' pv pv' a b R :
  pelif fok n k1 k2 (St pv (a :: R)) = elif_kw k1 k2 (pelif fok n k1' k2' (St pv' (b :: R))).
Proof.
  destruct n as [|n]; [reflexivity|]. rewrite !pelif_S, !expect_cons.
  destruct (ttype_eqb (typ (hd eof_tok R)) T_LEFT_PAREN); [|reflexivity].
  cbn [pbind].
  change (next (St (Some a) R)) with (St (Some (hd eof_tok R)) (tl R)).
  change (next (St (Some b) R)) with (St (Some (hd eof_tok R)) (tl R)).
  change (cur (St (Some a) R)) with (hd eof_tok R). change (cur (St (Some b) R)) with (hd eof_tok R).
  repeat (rewrite elif_kw_bind; apply pbind_ext; intros ?;
          repeat match goal with x : (_ * _)%type |- _ => destruct x
                            | x : blockr |- _ => destruct x as [[? ?] ?] end).
  reflexivity.
Qed.

(* one step of the else-if chain: `x elseif (c) {..}` and `x else if (c) {..}` parse the same clause
   (same condition, same block, same end state); only the keyword fields of the clause differ *)
Theorem elseif_to_else_if n pv x E el i R acc :
  (typ E = T_ELSEIF \/ typ E = T_ELSIF) -> typ el = T_ELSE -> typ i = T_IF ->
  let r := pelif fok n E None (St (Some x) (E :: R)) in
  pif_chain fok (S n) (St pv (x :: E :: R)) acc
    = pbind r (fun es => pif_chain fok n (snd es) (fst es :: acc))
  /\ pif_chain fok (S n) (St pv (x :: el :: i :: R)) acc
    = pbind (elif_kw el (Some i) r) (fun es => pif_chain fok n (snd es) (fst es :: acc)).
Proof.
  intros HE Hel Hi r. split; rewrite pif_chain_S.
  - change (peek (St pv (x :: E :: R))) with E.
    change (next (St pv (x :: E :: R))) with (St (Some x) (E :: R)).
    change (cur (St (Some x) (E :: R))) with E. fold r.
    destruct HE as [HE|HE]; rewrite HE; apply pbind_ext; intros [e s]; reflexivity.
  - change (peek (St pv (x :: el :: i :: R))) with el. rewrite Hel.
    change (next (St pv (x :: el :: i :: R))) with (St (Some x) (el :: i :: R)). cbv zeta.
    change (peek_is (St (Some x) (el :: i :: R)) T_IF) with (ttype_eqb (typ i) T_IF).
    rewrite Hi, ttype_eqb_refl.
    change (next (St (Some x) (el :: i :: R))) with (St (Some el) (i :: R)).
    change (cur (St (Some x) (el :: i :: R))) with el. change (cur (St (Some el) (i :: R))) with i.
    unfold r. rewrite <- (pelif_entry n el (Some i) E None (Some el) (Some x) i E R).
    apply pbind_ext; intros [e s]; reflexivity.
Qed.

(* ---------------------------------------------------------------- return x <-> return (x) *)
(* `return e;` and `return (e);` give the same ReturnExpression; the parenthesis tokens are the
   only difference (fields ParenthesisLeading / ParenthesisTrailing of the node).  Side condition
   of the UNparenthesised form: [e] does not itself start with "(" - otherwise the parser takes that
   parenthesis for the statement's (the formatter's startsWithGroup test, fix f/return-group). *)
Lemma head_not_semicolon e : canon fok e -> typ (head e) <> T_SEMICOLON.
Proof.
  intros Hc E. destruct (canon_hd_prefix fok e Hc) as [k Hk]. fold (head e) in Hk. rewrite E in Hk. discriminate.
Qed.

Lemma low_lt e : 1 < minprec e -> P_LOWEST < minprec e.
Proof. now rewrite P_LOWEST_doc. Qed.
Lemma low_stops x rest : doc_prec (typ x) = 1 -> stops P_LOWEST (x :: rest) = true.
Proof. intros H. apply stops_closer; [rewrite P_LOWEST_doc; lia|exact H]. Qed.

Theorem return_plain n pv c kw sm e rest :
  typ kw = T_RETURN -> typ sm = T_SEMICOLON ->
  canon fok e -> 1 < minprec e -> typ (head e) <> T_LEFT_PAREN ->
  pstmt fok (S n) (St pv (c :: kw :: yexpr e ++ sm :: rest))
    = POK (SReturn kw (Some (None, e, None)) sm, St (Some (last (yexpr e) eof_tok)) (sm :: rest)).
Proof.
  intros Hk Hsm Hc Hm Hnp. pose proof (yexpr_nonempty e) as Hne.
  rewrite (pstmt_simple n _ (preturn fok (St (Some c) (kw :: yexpr e ++ sm :: rest))))
    by (unfold psimple, next, cur; cbn [toks hd tl]; now rewrite Hk).
  assert (Hpk : peek (St (Some c) (kw :: yexpr e ++ sm :: rest)) = head e)
    by (unfold peek, head; cbn [toks tl]; now apply hd_app_ne).
  assert (P1 : peek_is (St (Some c) (kw :: yexpr e ++ sm :: rest)) T_SEMICOLON = false)
    by (unfold peek_is; rewrite Hpk; apply ttype_eqb_neq; now apply head_not_semicolon).
  assert (P2 : peek_is (St (Some c) (kw :: yexpr e ++ sm :: rest)) T_LEFT_PAREN = false)
    by (unfold peek_is; rewrite Hpk; now apply ttype_eqb_neq).
  assert (Hd : doc_prec (typ sm) = 1) by now rewrite Hsm.
  unfold preturn. cbv zeta. rewrite P1, P2. cbv beta iota.
  change (next (St (Some c) (kw :: yexpr e ++ sm :: rest))) with (St (Some kw) (yexpr e ++ sm :: rest)).
  rewrite (parse_expr_roundtrip fok e P_LOWEST (Some kw) (sm :: rest) Hc (low_lt e Hm)
             (follow_closer e sm rest Hd) (low_stops sm rest Hd)).
  cbn [pbind]. unfold peek_is. rewrite endst_peek by exact Hne. rewrite Hsm.
  change (ttype_eqb T_SEMICOLON T_RIGHT_PAREN) with false. cbv beta iota. cbn [xorb].
  unfold semi, peek_is. rewrite endst_peek by exact Hne. rewrite Hsm, ttype_eqb_refl.
  cbn [pbind]. rewrite endst_next by exact Hne. reflexivity.
Qed.

Theorem return_parenthesised n pv c kw lp rp sm e rest :
  typ kw = T_RETURN -> typ lp = T_LEFT_PAREN -> typ rp = T_RIGHT_PAREN -> typ sm = T_SEMICOLON ->
  canon fok e -> 1 < minprec e ->
  pstmt fok (S n) (St pv (c :: kw :: lp :: yexpr e ++ rp :: sm :: rest))
    = POK (SReturn kw (Some (Some lp, e, Some rp)) sm, St (Some rp) (sm :: rest)).
Proof.
  intros Hk Hlp Hrp Hsm Hc Hm. pose proof (yexpr_nonempty e) as Hne.
  rewrite (pstmt_simple n _ (preturn fok (St (Some c) (kw :: lp :: yexpr e ++ rp :: sm :: rest))))
    by (unfold psimple, next, cur; cbn [toks hd tl]; now rewrite Hk).
  assert (P1 : peek_is (St (Some c) (kw :: lp :: yexpr e ++ rp :: sm :: rest)) T_SEMICOLON = false)
    by (unfold peek_is, peek; cbn [toks hd tl]; now rewrite Hlp).
  assert (P2 : peek_is (St (Some c) (kw :: lp :: yexpr e ++ rp :: sm :: rest)) T_LEFT_PAREN = true)
    by (unfold peek_is, peek; cbn [toks hd tl]; now rewrite Hlp).
  assert (Hd : doc_prec (typ rp) = 1) by now rewrite Hrp.
  unfold preturn. cbv zeta. rewrite P1, P2. cbv beta iota.
  change (next (next (St (Some c) (kw :: lp :: yexpr e ++ rp :: sm :: rest))))
    with (St (Some lp) (yexpr e ++ rp :: sm :: rest)).
  rewrite (parse_expr_roundtrip fok e P_LOWEST (Some lp) (rp :: sm :: rest) Hc (low_lt e Hm)
             (follow_closer e rp (sm :: rest) Hd) (low_stops rp (sm :: rest) Hd)).
  assert (P3 : peek_is (endst (Some lp) (yexpr e) (rp :: sm :: rest)) T_RIGHT_PAREN = true)
    by (unfold peek_is; rewrite endst_peek by exact Hne; now rewrite Hrp).
  cbn [pbind]. rewrite !P3. cbv beta iota. cbn [xorb]. rewrite endst_next by exact Hne.
  unfold semi, peek_is, peek. cbn [toks hd tl]. rewrite Hsm, ttype_eqb_refl. reflexivity.
Qed.

End S.
