(* C14 core, part 1: the state relation between the pass over a stream ("input run") and the pass
   over its own output ("output run"), invariants of reachable states, and "a kept token is kept
   again". *)
From Coq Require Import List Bool NArith Arith Lia.
From Falco Require Import Base.Bytes Model.FmtTok Model.FmtNorm.
Import ListNotations.

(* ---------------------------------------------------------------- invariants *)
Definition inv (s : st) : Prop :=
  (rt s <> RNo -> mode s = MExpr)
  /\ (hdr s <> None -> mode s = MNoExpr /\ depth s = 0)
  /\ (match rt s with RBody w true _ => w = false | _ => True end)
  /\ (match rt s with RWant _ => pe s = false | _ => True end)
  /\ (tbl s = true -> 1 <= depth s)
  /\ (rt s <> RNo -> dp s = false).

Lemma inv_st0 : inv st0.
Proof. unfold inv, st0; simpl. repeat split; auto; try congruence; try discriminate. Qed.

(* ---------------------------------------------------------------- relation *)
(* the output run has no pending deletion; right after the "(" of a return value was removed it
   has not yet left the state that follows "return" *)
Definition rt_rel (a b : ret_t) : Prop :=
  match b with
  | RNo => a = RNo
  | RWant w' => a = RWant w' \/ (w' = false /\ exists dr, a = RBody false dr 0)
  | RBody w' dr' d' => dr' = false /\ exists dr, a = RBody w' dr d'
  end.

Record rel (si so : st) : Prop := Rel {
  r_mode : mode si = mode so; r_pe : pe si = pe so; r_depth : depth si = depth so;
  r_fn : fn si = fn so; r_hdr : hdr si = hdr so; r_tblp : tblp si = tblp so;
  r_tbl : tbl si = tbl so; r_prev : prev si = prev so;
  r_rt : rt_rel (rt si) (rt so); r_dp : dp so = false }.

Lemma rel_st0 : rel st0 st0.
Proof. constructor; simpl; auto. Qed.

Lemma adv_rel c si so t : rel si so -> rel (adv c si t) (adv c so t).
Proof.
  intros [Hm Hp Hd Hf Hh Htp Ht Hpr Hr Hdp].
  destruct si as [m p d f h tp tb pr r dpi], so as [m2 p2 d2 f2 h2 tp2 tb2 pr2 r2 dpo]. simpl in *. subst.
  unfold adv; simpl.
  destruct (next_mode m2 p2 t) as [m' p'].
  destruct (kis (tk t) KRBrace && (d2 <=? 1) || kis (tk t) KSemi && (d2 =? 0)).
  { constructor; simpl; auto. }
  constructor; simpl; auto.
  destruct r2 as [|w2|w2 dr2 dd2]; simpl in Hr.
  - subst r. destruct (kis (tk t) KReturn && at_start m2); simpl; auto.
  - destruct Hr as [->|[-> [dr ->]]].
    + destruct (terminator (tk t)); simpl; eauto.
    + destruct (terminator (tk t)); simpl; auto.
      destruct (kis (tk t) KLParen); simpl; eauto.
      destruct (kis (tk t) KRParen); simpl; eauto.
  - destruct Hr as [-> [dr ->]].
    destruct (terminator (tk t)); simpl; auto.
    destruct (kis (tk t) KLParen); simpl; eauto.
    destruct (kis (tk t) KRParen); simpl; eauto.
Qed.

(* ---------------------------------------------------------------- invariants are kept *)
Lemma terminator_cases k : terminator k = true -> kis k KSemi = true \/ kis k KLBrace = true \/ kis k KRBrace = true.
Proof. destruct k; simpl; intros; try discriminate; auto. Qed.

Lemma inv_adv c s t : inv s -> inv (adv c s t).
Proof.
  intros (I1 & I2 & I3 & I4 & I5 & I6).
  destruct s as [m p d f h tp tb pr r dpi]. simpl in *.
  unfold adv; simpl.
  destruct (next_mode m p t) as [m' p'] eqn:Enm.
  destruct (kis (tk t) KRBrace && (d <=? 1) || kis (tk t) KSemi && (d =? 0)) eqn:Ereset.
  { unfold inv; simpl. repeat split; auto; try congruence; try discriminate. }
  apply orb_false_iff in Ereset as [Er1 Er2].
  unfold inv; simpl. split; [|split; [|split; [|split; [|split; [|reflexivity]]]]].
  - (* rt <> RNo -> MExpr *)
    destruct r as [|w|w dr dd].
    + destruct (kis (tk t) KReturn && at_start m) eqn:E; [|congruence].
      intros _. apply andb_true_iff in E as [E1 E2].
      destruct m; try discriminate. destruct t as [k l]; destruct k; simpl in *; try discriminate.
      inversion Enm; reflexivity.
    + assert (m = MExpr) by (apply I1; discriminate). subst m.
      destruct (terminator (tk t)) eqn:Et; [congruence|]. intros _.
      unfold next_mode in Enm. rewrite Et in Enm. inversion Enm; reflexivity.
    + assert (m = MExpr) by (apply I1; discriminate). subst m.
      destruct (terminator (tk t)) eqn:Et; [congruence|]. intros _.
      unfold next_mode in Enm. rewrite Et in Enm. inversion Enm; reflexivity.
  - (* hdr -> MNoExpr *)
    assert (Hkeep : forall n b, h = Some (n, b) -> terminator (tk t) = false -> m' = MNoExpr /\ d = 0).
    { intros n b Hh Ht. destruct (I2 ltac:(congruence)) as [-> ->].
      unfold next_mode in Enm. rewrite Ht in Enm. inversion Enm. auto. }
    destruct t as [k l]. destruct k; simpl in *;
      try (destruct h as [[n b]|]; [|congruence]; intros _;
           destruct (Hkeep n b eq_refl eq_refl) as [-> ->]; auto; fail).
    + congruence.
    + (* "}" : not the one that closes the declaration, so depth >= 2, but a header is read at depth 0 *)
      destruct h as [[n b]|]; [|congruence]. destruct (I2 ltac:(discriminate)) as [_ ->]. discriminate.
    + destruct h as [[n b]|]; [|congruence]. destruct (I2 ltac:(discriminate)) as [_ ->]. discriminate.
    + destruct ((d =? 0) && at_start m) eqn:E.
      * intros _. apply andb_true_iff in E as [E1 E2]. apply Nat.eqb_eq in E1.
        destruct m; try discriminate. simpl in Enm. inversion Enm. auto.
      * intros Hh. destruct h as [[n b]|]; [|congruence].
        destruct (Hkeep n b eq_refl eq_refl) as [-> ->]; auto.
  - (* drop -> not wanted *)
    destruct r as [|w|w dr dd]; simpl.
    + destruct (kis (tk t) KReturn && at_start m); simpl; auto.
    + destruct (terminator (tk t)); simpl; auto.
    + destruct (terminator (tk t)); simpl; auto.
      destruct (kis (tk t) KLParen); simpl; auto.
      destruct (kis (tk t) KRParen); simpl; auto.
      destruct dr; simpl; auto. destruct (dd =? 0); simpl; auto.
  - (* RWant -> pe false *)
    destruct r as [|w|w dr dd]; simpl.
    + destruct (kis (tk t) KReturn && at_start m) eqn:E; simpl; auto.
      apply andb_true_iff in E as [E1 E2].
      destruct m; try discriminate. destruct t as [k l]; destruct k; simpl in *; try discriminate.
      inversion Enm; reflexivity.
    + destruct (terminator (tk t)); simpl; auto.
    + destruct (terminator (tk t)); simpl; auto.
      destruct (kis (tk t) KLParen); simpl; auto.
      destruct (kis (tk t) KRParen); simpl; auto.
  - (* tbl -> depth >= 1 *)
    destruct t as [k l]. destruct k; simpl in *; try (intros H; specialize (I5 H); lia).
    + destruct (d =? 0); intros H; try lia.
    + destruct (d <=? 1) eqn:E; [discriminate|]. apply Nat.leb_gt in E. intros _. lia.
Qed.

Lemma inv_fold c l : forall s, inv s -> inv (fold_left (adv c) l s).
Proof. induction l; simpl; auto. intros s H. apply IHl. now apply inv_adv. Qed.

(* ---------------------------------------------------------------- quiet tokens *)
(* the pass leaves the token alone *)
Definition quietb (c : fmt_config) (s : st) (e : tok) (nk : option kind) : bool :=
  negb (opens_return s e) && match decide c s e nk with AKeep => true | _ => false end.

Lemma quiet_step c s cs e nk :
  quietb c s e nk = true -> step c s cs e nk = ([(cs, e)], adv c s e, []).
Proof.
  unfold quietb, step, step0. intros H. apply andb_true_iff in H as [H1 H2].
  apply negb_true_iff in H1. rewrite H1.
  destruct (decide c s e nk); try discriminate. reflexivity.
Qed.

Lemma run_cons_quiet c s cs e rest :
  quietb c s e (head_kind rest) = true ->
  run c s [] ((cs, e) :: rest) = (let (o, tl) := run c (adv c s e) [] rest in ((cs, e) :: o, tl)).
Proof.
  intros H. simpl. rewrite (quiet_step _ _ _ _ _ H). destruct (run c (adv c s e) [] rest). reflexivity.
Qed.

Definition next_of (r : list item) (nkX : option kind) : option kind :=
  match r with [] => nkX | (_, e2) :: _ => Some (tk e2) end.

Fixpoint quiet_seq (c : fmt_config) (s : st) (E : list item) (nkX : option kind) : bool :=
  match E with
  | [] => true
  | (cs, e) :: r => quietb c s e (next_of r nkX) && quiet_seq c (adv c s e) r nkX
  end.

Lemma head_kind_app E X : head_kind (E ++ X) = next_of E (head_kind X).
Proof. destruct E as [|[cs e] r]; reflexivity. Qed.

Lemma run_quiet_seq c : forall E s X,
  quiet_seq c s E (head_kind X) = true ->
  run c s [] (E ++ X) = (let (o, tl) := run c (fold_left (adv c) (map snd E) s) [] X in (E ++ o, tl)).
Proof.
  induction E as [|[cs e] r IH]; intros s X H.
  - simpl. destruct (run c s [] X). reflexivity.
  - simpl in H. apply andb_true_iff in H as [H1 H2].
    change (((cs, e) :: r) ++ X) with ((cs, e) :: (r ++ X)).
    rewrite run_cons_quiet by (rewrite head_kind_app; exact H1).
    rewrite (IH _ _ H2). simpl. destruct (run c (fold_left (adv c) (map snd r) (adv c s e)) [] X). reflexivity.
Qed.

(* ---------------------------------------------------------------- the same decision again *)
Lemma normal_eq c si so t nk nkX :
  rel si so ->
  (negb (explicit_string_concat c) && kis (tk t) KPlus && inexpr (mode si) && pe si = true -> nk_juxt nkX = nk_juxt nk) ->
  normal c so t nkX = normal c si t nk.
Proof.
  intros [Hm Hp _ _ _ _ Ht Hpr _ _] H. unfold normal. rewrite <- Hm, <- Hp, <- Ht, <- Hpr.
  destruct (tbl si && kis (tk t) KRBrace && negb (kis (prev si) KComma || kis (prev si) KLBrace)); auto.
  destruct (inexpr (mode si) && pe si) eqn:E; auto.
  apply andb_true_iff in E as [E1 E2]. rewrite E1, E2 in H.
  destruct (explicit_string_concat c && juxt (tk t)); auto.
  destruct (negb (explicit_string_concat c)) eqn:Ee; simpl; auto.
  destruct (kis (tk t) KPlus) eqn:Ek; simpl; auto.
  rewrite H; auto.
Qed.
