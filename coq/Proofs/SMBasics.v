(* C06: induction principle over the run of the request state machine, the case-analysis
   tactic shared by all invariants, restart bound and totality. *)
From Coq Require Import List ZArith NArith Bool Arith Lia.
From Falco Require Import Base.Res Base.SMBase Gen.SMConst Model.SM Model.SMDoc.
Import ListNotations.

Lemma run_S fuel orc q n c p :
  run (S fuel) orc q n c p =
  match step orc q n c p with
  | (c', p', Goto n') => run fuel orc q n' c' p'
  | (c', p', Done) => OK (c', p', false)
  | (c', p', Fail) => OK (c', p', true)
  end.
Proof. reflexivity. Qed.

(* an invariant [I] kept by every step that continues, and a final condition [F] established by
   every step that ends, give [F] for the result of the whole run *)
Lemma run_inv (I : node -> ctx -> persistent -> Prop) (F : ctx -> persistent -> bool -> Prop) orc q :
  (forall n c p c' p' nx, I n c p -> step orc q n c p = (c', p', nx) ->
     match nx with Goto n' => I n' c' p' | Done => F c' p' false | Fail => F c' p' true end) ->
  forall fuel n c p c' p' err,
    I n c p -> run fuel orc q n c p = OK (c', p', err) -> F c' p' err.
Proof.
  intros Hs fuel. induction fuel as [|f IH]; intros n c p c' p' err Hi Hr; [discriminate|].
  rewrite run_S in Hr. destruct (step orc q n c p) as [[c1 p1] nx] eqn:E.
  specialize (Hs _ _ _ _ _ _ Hi E). destruct nx.
  - exact (IH _ _ _ _ _ _ Hs Hr).
  - inversion Hr; subst; exact Hs.
  - inversion Hr; subst; exact Hs.
Qed.

Lemma run_not_err fuel orc q : forall n c p, run fuel orc q n c p <> Err /\ run fuel orc q n c p <> Crash.
Proof.
  induction fuel as [|f IH]; intros; [split; discriminate|].
  rewrite run_S. destruct (step orc q n c p) as [[c1 p1] []]; try (split; discriminate). apply IH.
Qed.

(* ---- exhaustive case analysis of one step ---- *)
Ltac dpair :=
  match goal with
  | H : context [let (_, _) := ?e in _] |- _ =>
      let E := fresh "E" in destruct e eqn:E; cbn [fst snd] in H
  | |- context [let (_, _) := ?e in _] =>
      let E := fresh "E" in destruct e eqn:E; cbn [fst snd]
  end.

Ltac dmatch H :=
  repeat match type of H with
  | context [match ?x with _ => _ end] =>
      match x with
      | context [match _ with _ => _ end] => fail 1
      | _ => let E := fresh "E" in destruct x eqn:E
      end
  end.

Ltac step_cases H :=
  unfold step, process_recv, process_hit, process_miss, process_pass, process_fetch, process_error,
    process_deliver, process_log, process_hash, do_restart, call, run_sub in H;
  cbn [scope_of] in H;
  dmatch H; try discriminate H;
  try match goal with E : negb _ = _ |- _ => cbn [negb] in E; discriminate E end;
  try (injection H as ? ? ?; subst).

(* projections of the explicit records only; never unfolds comparisons on numbers *)
Ltac psimpl :=
  cbn [c_restarts c_state c_cached c_obj c_beresp c_resp c_trace c_obs c_objttl c_pass c_hit c_objstatus c_errobj c_respstatus set_errobj set_branch set_obj
       set_beresp set_resp add_obs set_objttl set_pass set_hit set_cache p_cache p_rc p_pb fst snd] in *.

(* ---- restart bound ---- *)
Lemma step_restarts orc q n c p c' p' nx :
  c_restarts c <= max_varnish_restarts -> step orc q n c p = (c', p', nx) ->
  c_restarts c' <= max_varnish_restarts.
Proof.
  intros Hle H. destruct n; step_cases H; psimpl;
    repeat match goal with E : (_ <? _) = false |- _ => apply Nat.ltb_ge in E end; try lia.
Qed.

Lemma restart_bound_run fuel orc q n c p c' p' err :
  c_restarts c <= max_varnish_restarts -> run fuel orc q n c p = OK (c', p', err) ->
  c_restarts c' <= max_varnish_restarts.
Proof.
  intros Hle Hr.
  apply (run_inv (fun _ c _ => c_restarts c <= max_varnish_restarts)
                 (fun c _ _ => c_restarts c <= max_varnish_restarts) orc q) with (3 := Hr); auto.
  intros n0 c0 p0 c1 p1 nx Hi Hs. pose proof (step_restarts _ _ _ _ _ _ _ _ Hi Hs). destruct nx; auto.
Qed.

(* ---- totality: the recursion depth is bounded by 7 lifecycle steps per round ---- *)
Definition rank (n : node) : nat :=
  match n with
  | NRecv => 7 | NHit | NMiss => 6 | NPass => 5 | NFetch => 4 | NError => 3 | NDeliver => 2 | NLog => 1
  end.
Definition mu (n : node) (c : ctx) : nat := 7 * (max_varnish_restarts - c_restarts c) + rank n.

Lemma step_mu orc q n c p c' p' n' :
  c_restarts c <= max_varnish_restarts -> step orc q n c p = (c', p', Goto n') -> mu n' c' < mu n c.
Proof.
  intros Hle H. unfold mu. destruct n; step_cases H; psimpl; cbn [rank];
    repeat match goal with E : (_ <? _) = false |- _ => apply Nat.ltb_ge in E end; lia.
Qed.

Lemma run_total fuel orc q : forall n c p,
  c_restarts c <= max_varnish_restarts -> mu n c <= fuel -> run fuel orc q n c p <> OutOfFuel.
Proof.
  induction fuel as [|f IH]; intros n c p Hle Hmu.
  - unfold mu in Hmu. destruct n; cbn [rank] in Hmu; lia.
  - rewrite run_S. destruct (step orc q n c p) as [[c1 p1] nx] eqn:E. destruct nx; try discriminate.
    apply IH.
    + eapply step_restarts; eauto.
    + pose proof (step_mu _ _ _ _ _ _ _ _ Hle E). lia.
Qed.

Lemma run_request_total orc p q : exists rep p', run_request orc p q = OK (rep, p').
Proof.
  unfold run_request.
  pose proof (run_total sm_fuel orc q NRecv ctx0 p) as Ht.
  pose proof (run_not_err sm_fuel orc q NRecv ctx0 p) as [He Hc].
  destruct (run sm_fuel orc q NRecv ctx0 p) as [[[c p'] e]| | |] eqn:E; try congruence.
  - eauto.
  - exfalso. apply Ht.
    + cbn [c_restarts ctx0]. lia.
    + unfold mu, sm_fuel. cbn [c_restarts ctx0 rank]. lia.
    + reflexivity.
Qed.

Lemma run_request_restarts orc p q rep p' :
  run_request orc p q = OK (rep, p') -> r_restarts rep <= max_varnish_restarts.
Proof.
  unfold run_request. destruct (run sm_fuel orc q NRecv ctx0 p) as [[[c p1] e]| | |] eqn:E; try discriminate.
  intros H; inversion H; subst; cbn [r_restarts].
  eapply restart_bound_run; [|exact E]. cbn; lia.
Qed.
