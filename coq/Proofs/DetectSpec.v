(* C11 - what detectRecursion computes: the names it writes into inCycle are exactly the
   call-graph keys that REACH a cycle (not only those that lie ON one). *)
From Coq Require Import List Arith Bool Lia Permutation.
From Falco Require Import Base.Res Model.ScopeInfer Proofs.DetectOrder.
Import ListNotations.

Section Spec.
Variable callees : name -> list name.

Definition edge (x y : name) : Prop := In y (callees x).
Inductive reach : name -> name -> Prop :=
| reach_refl : forall x, reach x x
| reach_step : forall x y z, edge x y -> reach y z -> reach x z.

Lemma reach_trans x y z : reach x y -> reach y z -> reach x z.
Proof. induction 1; intros; [assumption | eapply reach_step; eauto]. Qed.
Lemma reach_edge x y : edge x y -> reach x y.
Proof. intros. eapply reach_step; [eassumption | apply reach_refl]. Qed.

(* c lies on a cycle: c ->+ c *)
Definition on_cycle (c : name) : Prop := exists d, edge c d /\ reach d c.
Definition reaches_cycle (n : name) : Prop := exists c, reach n c /\ on_cycle c.
Definition dead (n : name) : Prop := ~ reaches_cycle n.

Lemma reaches_cycle_edge n c : edge n c -> reaches_cycle c -> reaches_cycle n.
Proof. intros E (x & R & C). exists x. split; [eapply reach_step; eauto | exact C]. Qed.

Lemma reaches_cycle_child n : reaches_cycle n -> exists c, edge n c /\ reaches_cycle c.
Proof.
  intros (x & R & C). inversion R; subst.
  - destruct C as (d & E & Rd). exists d. split; [exact E|].
    exists x. split; [exact Rd | exists d; auto].
  - exists y. split; [assumption|]. exists x. auto.
Qed.

(* the path of the search is a chain of calls, most recent first *)
Fixpoint chain (l : list name) : Prop :=
  match l with
  | x :: ((y :: _) as r) => edge y x /\ chain r
  | _ => True
  end.

Lemma chain_reach : forall l x z, chain (x :: l) -> In z l -> reach z x.
Proof.
  induction l as [|y r IH]; intros x z C H; [destruct H|].
  cbn in C. destruct C as [E C]. destruct H as [<-|H].
  - apply reach_edge. exact E.
  - eapply reach_trans; [apply (IH y z C H) | apply reach_edge; exact E].
Qed.

Lemma rname_fresh n l : ~ In n l -> rname n l = l.
Proof.
  unfold rname. induction l as [|y r IH]; intros H; [reflexivity|]. cbn.
  destruct (Nat.eqb_spec n y) as [->|Hne]; [exfalso; apply H; left; reflexivity|].
  cbn. rewrite IH; [reflexivity | intro; apply H; right; assumption].
Qed.

(* ---- soundness: everything written reaches a cycle; a search that fails leaves the path as it was *)
Definition sound_res (n : name) (st : dst) (r : bool * dst * list name) : Prop :=
  let '(b, st', w) := r in
  (b = false -> path st' = path st /\ w = []) /\
  (b = true -> reaches_cycle n /\ Forall reaches_cycle w).

Lemma dfs_sound : forall fuel n st r,
  dfs callees fuel n st = OK r -> chain (n :: path st) -> sound_res n st r.
Proof.
  induction fuel as [|f IH]; intros n st r H C; [discriminate|].
  rewrite dfs_S in H.
  destruct (mname n (path st)) eqn:Mp.
  { inversion H; subst. cbn. split; [discriminate|]. intros _. split; [|constructor].
    apply mname_In in Mp. exists n. split; [apply reach_refl|].
    destruct (path st) as [|top rest] eqn:P; [destruct Mp|].
    cbn in C. destruct C as [E C].
    (* n is on the path: n ->* top -> n *)
    assert (R : reach n top).
    { destruct Mp as [<-|Mp]; [apply reach_refl | apply (chain_reach rest top n C Mp)]. }
    inversion R; subst.
    - exists top. split; [exact E | apply reach_refl].
    - exists y. split; [assumption | eapply reach_trans; [eassumption | apply reach_edge; exact E]]. }
  destruct (mname n (visited st)) eqn:Mv.
  { inversion H; subst. cbn. split; [auto | discriminate]. }
  apply mname_false in Mp.
  cbv zeta in H.
  set (st1 := {| visited := n :: visited st; path := n :: path st |}) in *.
  assert (Hany : forall l st0 r0, any_f callees f l st0 = OK r0 ->
            path st0 = n :: path st -> incl l (callees n) ->
            let '(b, st', w) := r0 in
            (b = false -> path st' = path st0 /\ w = []) /\
            (b = true -> (exists c, In c l /\ reaches_cycle c) /\ Forall reaches_cycle w)).
  { induction l as [|c rest IHl]; intros st0 r0 H0 P0 Hl; cbn [any_f] in H0.
    - inversion H0; subst. split; [auto | discriminate].
    - fold (any_f callees f) in H0.
      destruct (dfs callees f c st0) as [[[b st'] w]| | |] eqn:D; cbn [bind] in H0; try discriminate.
      assert (Cc : chain (c :: path st0)).
      { rewrite P0. cbn. split; [apply Hl; left; reflexivity | exact C]. }
      pose proof (IH _ _ _ D Cc) as S. cbn in S. destruct S as [Sf St].
      destruct b.
      + inversion H0; subst. split; [discriminate|]. intros _. destruct (St eq_refl) as [Rc Fw].
        split; [exists c; split; [left; reflexivity | exact Rc] | exact Fw].
      + destruct (Sf eq_refl) as [P' ->].
        destruct (any_f callees f rest st') as [[[b2 st''] w2]| | |] eqn:A; cbn [bind] in H0; try discriminate.
        inversion H0; subst. cbn [app].
        assert (P1 : path st' = n :: path st) by congruence.
        specialize (IHl st' _ A P1 (fun x Hx => Hl x (or_intror Hx))). cbn in IHl.
        destruct IHl as [If It]. split.
        * intros Hb. destruct (If Hb) as [Q ->]. split; [congruence | reflexivity].
        * intros Hb. destruct (It Hb) as [(x & Hx & Rx) Fw]. split; [exists x; split; [right; exact Hx | exact Rx] | exact Fw]. }
  destruct (any_f callees f (callees n) st1) as [[[found st2] w]| | |] eqn:A; cbn [bind] in H; try discriminate.
  specialize (Hany _ _ _ A eq_refl (fun x Hx => Hx)). cbn in Hany. destruct Hany as [Hf Ht].
  destruct found; inversion H; subst; cbn.
  - split; [discriminate|]. intros _. destruct (Ht eq_refl) as [(c & Hc & Rc) Fw].
    assert (Rn : reaches_cycle n) by (eapply reaches_cycle_edge; eauto).
    split; [exact Rn|]. apply Forall_app. split; [exact Fw | constructor; [exact Rn | constructor]].
  - split; [|discriminate]. intros _. destruct (Hf eq_refl) as [P2 ->]. split; [|reflexivity].
    rewrite P2. cbn [path st1]. unfold rname. cbn. rewrite Nat.eqb_refl. cbn.
    apply rname_fresh. exact Mp.
Qed.

(* ---- completeness: a search that fails proves that the node reaches no cycle *)
Definition inv (st : dst) : Prop := forall v, In v (visited st) -> ~ In v (path st) -> dead v.

Definition complete_res (n : name) (st : dst) (r : bool * dst * list name) : Prop :=
  let '(b, st', w) := r in
  b = false -> dead n /\ path st' = path st /\ (forall v, In v (visited st') -> In v (visited st) \/ dead v).

Lemma dfs_complete : forall fuel n st r,
  dfs callees fuel n st = OK r -> chain (n :: path st) -> inv st -> complete_res n st r.
Proof.
  induction fuel as [|f IH]; intros n st r H C I; [discriminate|].
  rewrite dfs_S in H.
  destruct (mname n (path st)) eqn:Mp.
  { inversion H; subst. cbn. discriminate. }
  apply mname_false in Mp.
  destruct (mname n (visited st)) eqn:Mv.
  { inversion H; subst. cbn. intros _. apply mname_In in Mv. split; [apply I; assumption|]. auto. }
  cbv zeta in H.
  set (st1 := {| visited := n :: visited st; path := n :: path st |}) in *.
  assert (I1 : inv st1).
  { intros v Hv Hp. cbn in Hv, Hp. destruct Hv as [<-|Hv]; [exfalso; apply Hp; left; reflexivity|].
    apply I; [exact Hv | intro; apply Hp; right; assumption]. }
  assert (Hany : forall l st0 r0, any_f callees f l st0 = OK r0 ->
            path st0 = n :: path st -> incl l (callees n) -> inv st0 ->
            let '(b, st', w) := r0 in
            b = false -> Forall dead l /\ path st' = path st0 /\
                         (forall v, In v (visited st') -> In v (visited st0) \/ dead v)).
  { induction l as [|c rest IHl]; intros st0 r0 H0 P0 Hl I0; cbn [any_f] in H0.
    - inversion H0; subst. intros _. split; [constructor|]. auto.
    - fold (any_f callees f) in H0.
      destruct (dfs callees f c st0) as [[[b st'] w]| | |] eqn:D; cbn [bind] in H0; try discriminate.
      assert (Cc : chain (c :: path st0)).
      { rewrite P0. cbn. split; [apply Hl; left; reflexivity | exact C]. }
      pose proof (IH _ _ _ D Cc I0) as S. cbn in S.
      destruct b; [inversion H0; subst; discriminate|].
      destruct (S eq_refl) as (Dc & P' & V').
      destruct (any_f callees f rest st') as [[[b2 st''] w2]| | |] eqn:A; cbn [bind] in H0; try discriminate.
      inversion H0; subst.
      assert (I' : inv st').
      { intros v Hv Hp. destruct (V' v Hv) as [Hv0|Dv]; [|exact Dv]. apply I0; [exact Hv0 | congruence]. }
      assert (P1 : path st' = n :: path st) by congruence.
      specialize (IHl st' _ A P1 (fun x Hx => Hl x (or_intror Hx)) I'). cbn in IHl.
      intros Hb. destruct (IHl Hb) as (Fr & P'' & V'').
      split; [constructor; assumption|]. split; [congruence|].
      intros v Hv. destruct (V'' v Hv) as [Hv'|Dv]; [|auto]. apply V'. exact Hv'. }
  destruct (any_f callees f (callees n) st1) as [[[found st2] w]| | |] eqn:A; cbn [bind] in H; try discriminate.
  specialize (Hany _ _ _ A eq_refl (fun x Hx => Hx) I1). cbn in Hany.
  destruct found; inversion H; subst; cbn; [discriminate|].
  intros _. destruct (Hany eq_refl) as (Fd & P2 & V2).
  assert (Dn : dead n).
  { intros Rn. destruct (reaches_cycle_child n Rn) as (c & E & Rc).
    rewrite Forall_forall in Fd. exact (Fd c E Rc). }
  split; [exact Dn|]. split.
  - rewrite P2. cbn [path st1]. unfold rname. cbn. rewrite Nat.eqb_refl. cbn. apply rname_fresh. exact Mp.
  - intros v Hv. destruct (V2 v Hv) as [Hv1|Dv]; [|auto]. cbn in Hv1. destruct Hv1 as [<-|Hv1]; auto.
Qed.

(* ---- one start name, fresh state *)
Lemma marks_spec fuel s w :
  marks callees fuel s = OK w ->
  (forall f, In f w -> reaches_cycle f) /\ (reaches_cycle s -> In s w).
Proof.
  unfold marks. set (st0 := {| visited := []; path := [] |}).
  destruct (dfs callees fuel s st0) as [[[b st'] ws]| | |] eqn:D; cbn [bind]; try discriminate.
  intros H. inversion H; subst. clear H.
  pose proof (dfs_sound _ _ _ _ D I) as S. cbn in S. destruct S as [Sf St].
  assert (I0 : inv st0) by (intros v []).
  pose proof (dfs_complete _ _ _ _ D I I0) as Cm. cbn in Cm.
  destruct b.
  - destruct (St eq_refl) as [Rs Fw]. split.
    + intros f Hf. apply in_app_or in Hf. destruct Hf as [Hf|[<-|[]]]; [|exact Rs].
      rewrite Forall_forall in Fw. auto.
    + intros _. apply in_or_app. right. left. reflexivity.
  - destruct (Sf eq_refl) as [_ ->]. destruct (Cm eq_refl) as [Ds _]. split.
    + intros f [].
    + intros Rs. exfalso. exact (Ds Rs).
Qed.
End Spec.

(* ---- the whole loop: for every enumeration order of the keys *)
Theorem detect_spec (callees : name -> list name) (nodes order : list name) :
  (forall n, In n nodes -> incl (callees n) nodes) -> incl order nodes ->
  exists w, detect callees (S (length nodes)) order = OK w /\
    (forall f, In f w -> reaches_cycle callees f) /\
    (forall s, In s order -> reaches_cycle callees s -> In s w) /\
    ((forall f, callees f <> [] -> In f order) -> forall f, In f w <-> reaches_cycle callees f).
Proof.
  intros Hcl Hinc.
  assert (Hm : forall s, In s order -> exists w, marks callees (S (length nodes)) s = OK w)
    by (intros s Hs; apply (marks_ok callees nodes Hcl); auto).
  rewrite (detect_flat callees _ order Hm).
  eexists. split; [reflexivity|].
  assert (A : forall f, In f (flat_map (marks_of callees (S (length nodes))) order) -> reaches_cycle callees f).
  { intros f Hf. apply in_flat_map in Hf. destruct Hf as (s & Hs & Hf).
    destruct (Hm s Hs) as [w Hw]. unfold marks_of in Hf. rewrite Hw in Hf.
    destruct (marks_spec callees _ _ _ Hw) as [S1 _]. auto. }
  assert (B : forall s, In s order -> reaches_cycle callees s ->
                        In s (flat_map (marks_of callees (S (length nodes))) order)).
  { intros s Hs Rs. apply in_flat_map. exists s. split; [exact Hs|].
    destruct (Hm s Hs) as [w Hw]. unfold marks_of. rewrite Hw.
    destruct (marks_spec callees _ _ _ Hw) as [_ S2]. auto. }
  split; [exact A|]. split; [exact B|].
  intros Hcov f. split; [apply A|]. intros Rf. apply B; [|exact Rf]. apply Hcov.
  destruct (reaches_cycle_child callees f Rf) as (c & E & _). intro Z. unfold edge in E. rewrite Z in E. destruct E.
Qed.

(* the code's notion is "reaches a cycle", NOT "lies on a cycle": vcl_recv(0) -> a(1) -> a *)
Definition ex_g (n : name) : list name := match n with 0 => [1] | 1 => [1] | _ => [] end.
Theorem detect_on_cycle_refuted :
  exists callees order w f, detect callees 3 order = OK w /\ In f w /\ ~ on_cycle callees f.
Proof.
  exists ex_g, [0; 1], [1; 0; 0; 1; 1], 0. split; [vm_compute; reflexivity|]. split; [right; left; reflexivity|].
  intros (d & E & R). unfold edge, ex_g in E. destruct E as [<-|[]].
  assert (H : forall x y, reach ex_g x y -> x = 1 -> y = 1).
  { induction 1; intros; [assumption|]. subst. unfold edge, ex_g in H. destruct H as [<-|[]]. auto. }
  discriminate (H _ _ R eq_refl).
Qed.
