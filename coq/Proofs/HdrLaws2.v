(* C17 - sub-field laws over histories: the list level (lookup / remove_first / spec_set) and
   the invariant "every header value is a well-formed item list" along well-formed histories. *)
From Coq Require Import List NArith Bool Lia.
From Coq Require Import Strings.Byte.
From Falco Require Import Base.Bytes Model.HdrField Model.Hdr Model.HdrSpec
  Proofs.HdrBytes Proofs.HdrScan Proofs.HdrItems Proofs.HdrStore Proofs.HdrLaws1.
Import ListNotations.

(* ---- list level ---- *)
Definition nomatch (k : bytes) (l : list item) : bool := forallb (fun x => negb (keq k (i_key x))) l.

Lemma lookup_nomatch k l : nomatch k l = true -> lookup k l = RNotSet.
Proof.
  induction l as [|it rest IH]; simpl; intros H; [reflexivity|].
  apply andb_true_iff in H. destruct H as [H1 H2]. apply negb_true_iff in H1. rewrite H1. exact (IH H2).
Qed.

Lemma In_remove_first k x l : In x (remove_first k l) -> In x l.
Proof.
  induction l as [|it rest IH]; simpl; intros H; [exact H|].
  destruct (keq k (i_key it)); [right; exact H|]. destruct H as [->|H]; [left; reflexivity | right; exact (IH H)].
Qed.

Lemma remove_nomatch k l : nodup_keys l = true -> nomatch k (remove_first k l) = true.
Proof.
  induction l as [|it rest IH]; simpl; intros H; [reflexivity|].
  apply andb_true_iff in H. destruct H as [H1 H2]. apply negb_true_iff in H1.
  destruct (keq k (i_key it)) eqn:E.
  - unfold nomatch. apply forallb_forall. intros x Hx. apply negb_true_iff.
    destruct (keq k (i_key x)) eqn:E2; [|reflexivity].
    exfalso. assert (Hc : existsb (fun x0 => keq (i_key it) (i_key x0)) rest = true).
    { apply existsb_exists. exists x. split; [exact Hx|].
      apply (keq_trans _ k); [rewrite keq_sym; exact E | exact E2]. }
    congruence.
  - simpl. rewrite E. simpl. exact (IH H2).
Qed.

Lemma nodup_remove k l : nodup_keys l = true -> nodup_keys (remove_first k l) = true.
Proof.
  induction l as [|it rest IH]; simpl; intros H; [reflexivity|].
  apply andb_true_iff in H. destruct H as [H1 H2].
  destruct (keq k (i_key it)); [exact H2|]. simpl. rewrite (IH H2), andb_true_r.
  apply negb_true_iff. apply negb_true_iff in H1.
  destruct (existsb (fun x => keq (i_key it) (i_key x)) (remove_first k rest)) eqn:E; [|reflexivity].
  apply existsb_exists in E. destruct E as (x & Hx & Hk).
  assert (existsb (fun x0 => keq (i_key it) (i_key x0)) rest = true).
  { apply existsb_exists. exists x. split; [exact (In_remove_first k x rest Hx) | exact Hk]. }
  congruence.
Qed.

Lemma nodup_snoc k v l : nodup_keys l = true -> nomatch k l = true -> nodup_keys (l ++ [new_item k v]) = true.
Proof.
  induction l as [|it rest IH]; simpl; intros H Hn; [reflexivity|].
  apply andb_true_iff in H. destruct H as [H1 H2]. apply andb_true_iff in Hn. destruct Hn as [Hn1 Hn2].
  rewrite (IH H2 Hn2), andb_true_r. rewrite existsb_app. simpl. rewrite orb_false_r.
  apply negb_true_iff in H1. rewrite H1. simpl. rewrite keq_sym. exact Hn1.
Qed.

Lemma lookup_app k a b : lookup k (a ++ b) = match lookup k a with RNotSet => lookup k b | r => r end.
Proof.
  induction a as [|it rest IH]; simpl; [reflexivity|].
  destruct (keq k (i_key it)); [reflexivity | exact IH].
Qed.

Lemma lookup_remove_other k k' l : keq k k' = false -> lookup k' (remove_first k l) = lookup k' l.
Proof.
  intros Hne. induction l as [|it rest IH]; simpl; [reflexivity|].
  destruct (keq k (i_key it)) eqn:E.
  - destruct (keq k' (i_key it)) eqn:E2; [|reflexivity].
    exfalso. assert (keq k k' = true) by (apply (keq_trans _ (i_key it)); [exact E | rewrite keq_sym; exact E2]).
    congruence.
  - simpl. destruct (keq k' (i_key it)); [reflexivity | exact IH].
Qed.

Lemma keq_lookup k k' l : keq k k' = true -> lookup k l = lookup k' l.
Proof.
  intros H. induction l as [|it rest IH]; simpl; [reflexivity|].
  destruct (keq k (i_key it)) eqn:E.
  - rewrite (keq_trans k' k (i_key it)); [reflexivity | rewrite keq_sym; exact H | exact E].
  - destruct (keq k' (i_key it)) eqn:E2; [|exact IH].
    rewrite (keq_trans k k' (i_key it) H E2) in E. discriminate.
Qed.

Lemma item_read_enc s : item_read (new_item [] (enc_val s)) = s.
Proof.
  unfold item_read, new_item, enc_val. simpl. destruct s as [|c s]; [reflexivity|]. simpl.
  destruct (special c || needs_quote s); reflexivity.
Qed.

Theorem lookup_set_same its k k' s :
  nodup_keys its = true -> keq k k' = true ->
  lookup k' (spec_set its k (VStr s)) = RStr s.
Proof.
  intros Hnd Hk. rewrite <- (keq_lookup k k' _ Hk). unfold spec_set. rewrite lookup_app.
  rewrite (lookup_nomatch k _ (remove_nomatch k its Hnd)). simpl. rewrite keq_refl.
  unfold item_read, new_item, enc_val. simpl. destruct s as [|c s]; [reflexivity|]. simpl.
  destruct (special c || needs_quote s); reflexivity.
Qed.

Theorem lookup_set_other its k k' v : keq k k' = false -> lookup k' (spec_set its k v) = lookup k' its.
Proof.
  intros Hne. unfold spec_set.
  assert (Hnew : forall iv, lookup k' (remove_first k its ++ [new_item k iv]) = lookup k' its).
  { intros iv. rewrite lookup_app, (lookup_remove_other k k' its Hne). simpl.
    rewrite keq_sym, Hne. destruct (lookup k' its); reflexivity. }
  destruct v as [|s]; [|apply Hnew].
  destruct (is_nil (remove_first k its) && Nat.eqb (length k) 1); [|apply Hnew].
  apply lookup_remove_other. exact Hne.
Qed.

Theorem lookup_unset_same its k k' : nodup_keys its = true -> keq k k' = true ->
  lookup k' (remove_first k its) = RNotSet.
Proof.
  intros Hnd Hk. rewrite <- (keq_lookup k k' _ Hk). apply lookup_nomatch, remove_nomatch, Hnd.
Qed.

(* ---- well-formedness is preserved ---- *)
Lemma items_ok_inv ks its : items_ok ks its = true -> forallb (item_ok ks) its = true /\ nodup_keys its = true.
Proof. unfold items_ok. intros H. apply andb_true_iff in H. exact H. Qed.

Lemma forallb_remove_first {p} k its : forallb p its = true -> forallb p (remove_first k its) = true.
Proof.
  intros H. apply forallb_forall. intros x Hx. rewrite forallb_forall in H. apply H.
  exact (In_remove_first k x its Hx).
Qed.

Lemma items_ok_remove ks k its : items_ok ks its = true -> items_ok ks (remove_first k its) = true.
Proof.
  intros H. apply items_ok_inv in H. destruct H as [H1 H2]. unfold items_ok.
  rewrite (forallb_remove_first k its H1), (nodup_remove k its H2). reflexivity.
Qed.

Lemma items_ok_snoc ks k iv its :
  items_ok ks its = true -> nomatch k its = true -> key_ok k = true -> val_ok ks iv = true ->
  items_ok ks (its ++ [new_item k iv]) = true.
Proof.
  intros H Hn Hk Hv. apply items_ok_inv in H. destruct H as [H1 H2]. unfold items_ok.
  rewrite forallb_app, H1. simpl. unfold item_ok at 1. simpl. rewrite Hk, Hv. simpl.
  apply nodup_snoc; assumption.
Qed.

Theorem items_ok_set ks its k v :
  items_ok ks its = true -> key_ok k = true ->
  match v with VStr s => fv_ok ks s = true | VNotSet => True end ->
  items_ok ks (spec_set its k v) = true.
Proof.
  intros H Hk Hv. pose proof (items_ok_remove ks k its H) as Hr.
  pose proof (items_ok_inv ks its H) as [_ Hnd].
  unfold spec_set. destruct v as [|s].
  - destruct (is_nil (remove_first k its) && Nat.eqb (length k) 1); [exact Hr|].
    apply items_ok_snoc; auto. apply remove_nomatch, Hnd.
  - apply items_ok_snoc; auto; [apply remove_nomatch, Hnd|].
    unfold fv_ok in Hv. apply andb_true_iff in Hv. tauto.
Qed.

(* from the set of keys to one key *)
Lemma mem_In k ks : mem k ks = true -> In k ks.
Proof.
  unfold mem. intros H. apply existsb_exists in H. destruct H as (x & Hx & E). apply beq_eq in E. subst. exact Hx.
Qed.

Lemma item_ok_okk ks k it : mem k ks = true -> item_ok ks it = true -> item_okk k it = true.
Proof.
  intros Hm H. apply mem_In in Hm. unfold item_ok in H. unfold item_okk.
  apply andb_true_iff in H. destruct H as [H Hv]. apply andb_true_iff in H. destruct H as [H Hk].
  apply andb_true_iff in H. destruct H as [Hl _]. rewrite Hl, Hk. simpl.
  destruct (i_val it) as [|r|q]; simpl in *; [reflexivity | exact Hv|].
  apply andb_true_iff in Hv. destruct Hv as [Hv Hne]. apply andb_true_iff in Hv. destruct Hv as [Hv _].
  rewrite Hv. simpl. rewrite forallb_forall in Hne. exact (Hne k Hm).
Qed.

Lemma items_ok_okk ks k its : mem k ks = true -> items_ok ks its = true -> forallb (item_okk k) its = true.
Proof.
  intros Hm H. apply items_ok_inv in H. destruct H as [H _].
  apply forallb_forall. intros x Hx. rewrite forallb_forall in H. exact (item_ok_okk ks k x Hm (H x Hx)).
Qed.

(* rendered well-formed lists contain no LF *)
Lemma no_lf_forall p l : (forall c, p c = true -> byte_eqb c c_lf = false) -> forallb p l = true -> no_lf l = true.
Proof.
  intros Hp H. unfold no_lf. apply forallb_forall. intros c Hc. rewrite forallb_forall in H.
  rewrite (Hp c (H c Hc)). reflexivity.
Qed.

Lemma keychar_not_lf c : keychar c = true -> byte_eqb c c_lf = false.
Proof.
  intros H. apply keychar_inv in H. destruct H as (H & _). apply byte_eqb_neq. intros ->. discriminate H.
Qed.
Lemma nonsep_not_lf c : nonsep c = true -> byte_eqb c c_lf = false.
Proof.
  unfold nonsep. intros H. apply andb_true_iff in H. destruct H as [_ H]. apply negb_true_iff in H.
  apply byte_eqb_neq. intros ->. discriminate H.
Qed.

Lemma no_lf_item ks it : item_ok ks it = true -> no_lf (render_item it) = true.
Proof.
  unfold item_ok. intros H.
  apply andb_true_iff in H. destruct H as [H Hv]. apply andb_true_iff in H. destruct H as [H Hk].
  apply andb_true_iff in H. destruct H as [_ Hl].
  unfold render_item. rewrite !no_lf_app, Hl. simpl.
  rewrite (no_lf_forall keychar _ keychar_not_lf (key_ok_all _ Hk)). simpl.
  destruct (i_val it) as [|r|q]; simpl in *.
  - reflexivity.
  - apply andb_true_iff in Hv. destruct Hv as [Hr _]. exact (no_lf_forall nonsep _ nonsep_not_lf Hr).
  - apply andb_true_iff in Hv. destruct Hv as [Hv _]. apply andb_true_iff in Hv. destruct Hv as [_ Hq].
    change (no_lf (c_dq :: esc q ++ [c_dq])) with (no_lf (esc q ++ [c_dq])).
    rewrite no_lf_app, no_lf_esc, Hq. reflexivity.
Qed.

Lemma no_lf_render ks its : forallb (item_ok ks) its = true -> no_lf (render its) = true.
Proof.
  induction its as [|it rest IH]; simpl; intros H; [reflexivity|].
  apply andb_true_iff in H. destruct H as [Hi Hr]. rewrite no_lf_app, (no_lf_item ks it Hi). simpl.
  destruct rest as [|it2 r2]; [reflexivity|].
  change (no_lf (c_comma :: render (it2 :: r2))) with (no_lf (render (it2 :: r2))). exact (IH Hr).
Qed.

(* ---- structured histories ---- *)
Inductive hop :=
| HGet (t : bytes)                          (* any read *)
| HSet (n : bytes) (its : list item)        (* set obj.http.n = <rendered list> *)
| HSetNot (n : bytes)                       (* set obj.http.n = <not set> *)
| HSetF (n k : bytes) (v : val)             (* set obj.http.n:k = v *)
| HAdd (n : bytes) (its : list item)        (* add obj.http.n = <rendered list> *)
| HUnset (n : bytes)
| HUnsetF (n k : bytes).

Definition conc (o : hop) : op :=
  match o with
  | HGet t => OGet t
  | HSet n its => OSet n (VStr (render its))
  | HSetNot n => OSet n VNotSet
  | HSetF n k v => OSet (ftarget n k) v
  | HAdd n its => OAdd n (VStr (render its))
  | HUnset n => OUnset n
  | HUnsetF n k => OUnset (ftarget n k)
  end.

Definition hop_ok (ks : list bytes) (kd : kind) (o : hop) : bool :=
  match o with
  | HGet _ => true
  | HSet n its | HAdd n its => whole_ok n && items_ok ks its
  | HSetNot n | HUnset n => whole_ok n
  | HSetF n k v =>
    field_ok kd n k && key_ok k && mem k ks &&
    match v with VStr s => fv_ok ks s | VNotSet => true end
  | HUnsetF n k => field_ok kd n k && key_ok k && mem k ks
  end.

(* the invariant, on the abstract store *)
Definition Inv (ks : list bytes) (a : astate) : Prop :=
  forall cn, exists its, first_val a cn = render its /\ items_ok ks its = true.

Lemma Inv_ext ks a b : aeq a b -> Inv ks a -> Inv ks b.
Proof. intros H HI cn. destruct (HI cn) as (its & H1 & H2). exists its. rewrite <- (first_val_ext a b cn H). auto. Qed.

Lemma Inv_st0 ks : Inv ks (abs st0).
Proof. intros cn. exists []. split; reflexivity. Qed.

Lemma first_val_upd_other a g cn v cn' : beq cn cn' = false ->
  first_val {| a_vals := upd (a_vals a) cn v; a_asg := g |} cn' = first_val a cn'.
Proof. intros H. unfold first_val. cbn [a_vals]. rewrite (upd_other _ cn v cn' H). reflexivity. Qed.

Lemma Inv_upd ks a cn v g :
  Inv ks a ->
  (exists its, match v with Some (x :: _) => x | _ => [] end = render its /\ items_ok ks its = true) ->
  Inv ks {| a_vals := upd (a_vals a) cn v; a_asg := g |}.
Proof.
  intros HI Hv cn'. destruct (beq cn cn') eqn:E.
  - apply beq_eq in E. subst cn'. unfold first_val. cbn [a_vals]. rewrite upd_same. exact Hv.
  - rewrite (first_val_upd_other a g cn v cn' E). apply HI.
Qed.

Theorem Inv_step ks kd a o : hop_ok ks kd o = true -> Inv ks a ->
  Inv ks (fst (sstep a (classify kd (conc o)))).
Proof.
  intros Hok HI. destruct o as [t|n its|n|n k v|n its|n|n k]; simpl in Hok; unfold conc.
  - unfold classify. destruct (cut_colon t) as [[n key] f]. exact HI.
  - apply andb_true_iff in Hok. destruct Hok as [Hn Hi].
    rewrite (classify_set_whole kd n _ Hn). unfold sstep. cbn [fst].
    apply Inv_upd; [exact HI|]. exists its. split; [|exact Hi].
    apply cut_lf_id. apply (no_lf_render ks). apply items_ok_inv in Hi. tauto.
  - rewrite (classify_set_whole kd n _ Hok). unfold sstep. cbn [fst].
    apply Inv_upd; [exact HI|]. exists []. split; reflexivity.
  - apply andb_true_iff in Hok. destruct Hok as [Hok Hv]. apply andb_true_iff in Hok. destruct Hok as [Hok Hm].
    apply andb_true_iff in Hok. destruct Hok as [Hf Hk].
    rewrite (classify_set_field kd n k v Hf). unfold sstep. cbn [fst].
    apply Inv_upd; [exact HI|]. destruct (HI (canon n)) as (its & H1 & H2).
    exists (spec_set its k v). rewrite H1. split.
    + apply set_field_render; [exact Hk | exact (items_ok_okk ks k its Hm H2)|].
      destruct v as [|s]; [exact I|]. unfold fv_ok in Hv. apply andb_true_iff in Hv. tauto.
    + apply items_ok_set; [exact H2 | exact Hk|]. destruct v; [exact I | exact Hv].
  - apply andb_true_iff in Hok. destruct Hok as [Hn Hi].
    rewrite (classify_add_whole kd n _ Hn). unfold sstep. cbn [fst].
    apply Inv_upd; [exact HI|]. destruct (HI (canon n)) as (its0 & H1 & H2). unfold first_val in H1.
    destruct (a_vals a (canon n)) as [[|x l]|].
    + exists its. split; [reflexivity | exact Hi].
    + exists its0. split; [exact H1 | exact H2].
    + exists its. split; [reflexivity | exact Hi].
  - rewrite (classify_unset_whole kd n Hok). unfold sstep. cbn [fst].
    apply Inv_upd; [exact HI|]. exists []. split; reflexivity.
  - apply andb_true_iff in Hok. destruct Hok as [Hok Hm]. apply andb_true_iff in Hok. destruct Hok as [Hf Hk].
    rewrite (classify_unset_field kd n k Hf). unfold sstep. cbn [fst].
    apply Inv_upd; [exact HI|]. destruct (HI (canon n)) as (its & H1 & H2). rewrite H1.
    rewrite (unset_field_render k its Hk (items_ok_okk ks k its Hm H2)).
    destruct (is_nil (render (remove_first k its))) eqn:E.
    + exists []. split; reflexivity.
    + exists (remove_first k its). split; [reflexivity | apply items_ok_remove; exact H2].
Qed.

Theorem Inv_run ks kd h : forall st, forallb (hop_ok ks kd) h = true -> Inv ks (abs st) ->
  Inv ks (abs (fst (run kd st (map conc h)))).
Proof.
  induction h as [|o t IH]; intros st Hok HI; [exact HI|].
  simpl in Hok. apply andb_true_iff in Hok. destruct Hok as [Ho Ht].
  simpl. destruct (refine_step kd st (conc o)) as [_ Hs].
  pose proof (Inv_step ks kd (abs st) o Ho HI) as H1.
  destruct (step kd st (conc o)) as [st1 x]. cbn [fst] in *.
  assert (HI1 : Inv ks (abs st1)).
  { eapply Inv_ext; [|exact H1]. destruct Hs as [A B]. split; intros n; [rewrite A | rewrite B]; reflexivity. }
  specialize (IH st1 Ht HI1). destruct (run kd st1 (map conc t)) as [st2 xs]. exact IH.
Qed.

(* ---- reading a sub-field in a state that satisfies the invariant ---- *)
Lemma read_field_inv ks a cn k' its :
  first_val a cn = render its -> items_ok ks its = true -> key_ok k' = true -> mem k' ks = true ->
  snd (sstep a (SRead cn k' false)) = ORead (lookup k' its).
Proof.
  intros H1 H2 Hk Hm. unfold sstep. cbn [snd]. rewrite H1.
  pose proof (items_ok_okk ks k' its Hm H2) as Hokk.
  rewrite (render_nil_iff its (item_okk_key k' its Hokk)).
  apply key_ok_inv in Hk as Hk'. destruct Hk' as (c & kk & -> & _). cbn [is_nil negb orb].
  destruct its as [|it rest]; [reflexivity|]. cbn [is_nil].
  rewrite (get_field_render _ _ Hk Hokk). reflexivity.
Qed.
