(* C05, second set of finite products (every statement names its domain; vm_compute over forallb, lifted):
   - a value of type T in eight forms (literal, local, predefined variable, PARAMETER of a functional subroutine
     bound from each of these, if() expression, function result) where a value of type E is expected
     (built-in argument, return value, parameter): linter model, simulator model, inclusion;
   - uses whose subroutine gets its scopes from the linter's CALL-GRAPH INFERENCE (chains of 1..3 un-annotated
     helpers reached from every pair - thorough: also every triple - of lifecycle subroutines). *)
From Coq Require Import NArith List String Bool.
From Falco Require Import Base.TablesBase Model.ScopeMask Model.LintTables Model.LintOps Model.TablesDomain Model.InterpAssign.
From Falco Require Import Gen.ObsVars Gen.ObsOps Gen.ObsCoerce Gen.ObsInferred Gen.ObsIdArgs Gen.KnownGaps.
Import ListNotations.
Local Open Scope N_scope.
Local Open Scope string_scope.

(* ================================================================ coercion cells *)
Theorem obs_coerce_domain : map (fun r => match r with (c, e, _, _) => (c, e) end) obs_coerce = coerce_rows.
Proof. vm_compute. reflexivity. Qed.

Definition coerce_check (r : string * string * N * N) (c : N * string * string) : bool :=
  match r, c with (cx, e, lint, interp), (p, t, form) =>
    Bool.eqb (lint_coerce_model cx e t form) (N.testbit lint p)
    && Bool.eqb (interp_coerce_model cx e t form) (N.testbit interp p)
    && limp (N.testbit lint p) (N.testbit interp p) (fun _ => gap_covers "coerce-interp" cx e p)
  end.
Lemma coerce_check_ok : forallb (fun r => forallb (coerce_check r) op_cells_existing) obs_coerce = true.
Proof. vm_cast_no_check (eq_refl true). Qed.

(* implicitCoersionTable / exact parameter types (linter) and stringify + *_Validate / convertValueToType
   (simulator) as functions of (context, expected type, value type, form) give the real verdicts on every cell *)
Theorem coerce_models_eq_observed : forall cx e lint interp p t form,
  In (cx, e, lint, interp) obs_coerce -> In (p, t, form) op_cells_existing ->
  lint_coerce_model cx e t form = N.testbit lint p /\ interp_coerce_model cx e t form = N.testbit interp p.
Proof.
  intros cx e lint interp p t form Hr Hc.
  pose proof (forallb2_lift _ _ _ _ _ coerce_check_ok _ _ Hr Hc) as C. unfold coerce_check in C.
  apply andb_true_iff in C. destruct C as [C _]. apply andb_true_iff in C. destruct C as [C1 C2].
  split; apply eqb_prop; assumption.
Qed.

Theorem lint_sub_interp_coerce : forall cx e lint interp p t form,
  In (cx, e, lint, interp) obs_coerce -> In (p, t, form) op_cells_existing ->
  N.testbit lint p = true ->
  N.testbit interp p = true \/ gap_covers "coerce-interp" cx e p = true.
Proof.
  intros cx e lint interp p t form Hr Hc Hl.
  pose proof (forallb2_lift _ _ _ _ _ coerce_check_ok _ _ Hr Hc) as C. unfold coerce_check in C.
  apply andb_true_iff in C. destruct C as [_ C]. exact (limp_or _ _ _ C Hl).
Qed.

(* over the models alone *)
Definition coerce_models_check (r : string * string) (c : N * string * string) : bool :=
  match r, c with (cx, e), (p, t, form) =>
    limp (lint_coerce_model cx e t form) (interp_coerce_model cx e t form) (fun _ => gap_covers "coerce-interp" cx e p)
  end.
Theorem lint_sub_interp_coerce_models : forall cx e p t form,
  In cx coerce_ctxs -> In e value_types -> In (p, t, form) op_cells_existing ->
  lint_coerce_model cx e t form = true ->
  interp_coerce_model cx e t form = true \/ gap_covers "coerce-interp" cx e p = true.
Proof.
  assert (H : forallb (fun r => forallb (coerce_models_check r) op_cells_existing) coerce_rows = true)
    by (vm_cast_no_check (eq_refl true)).
  intros cx e p t form Hx He Hc Hl.
  assert (Hin : In (cx, e) coerce_rows).
  { unfold coerce_rows. apply in_flat_map. exists cx. split; [exact Hx|]. apply in_map. exact He. }
  pose proof (forallb2_lift _ _ _ _ _ H _ _ Hin Hc) as C. unfold coerce_models_check in C.
  exact (limp_or _ _ _ C Hl).
Qed.

Theorem lint_sub_interp_coerce_refuted : exists cx e lint interp p t form,
  In (cx, e, lint, interp) obs_coerce /\ In (p, t, form) op_cells_existing /\
  N.testbit lint p = true /\ N.testbit interp p = false.
Proof.
  (* return <STRING variable>; in a functional subroutine of return type IP: position 14*2+1 = 29 *)
  destruct (find (fun r => match r with (cx, e, lint, interp) =>
                    String.eqb cx "ret" && String.eqb e "IP" && N.testbit (N.ldiff lint interp) 29 end) obs_coerce)
    as [[[[cx e] lint] interp]|] eqn:E.
  - exists cx, e, lint, interp, 29, "STRING", "local".
    pose proof (find_some _ _ E) as [Hin Hb].
    apply andb_true_iff in Hb. destruct Hb as [_ Hb].
    rewrite N.ldiff_spec in Hb. apply andb_true_iff in Hb.
    destruct Hb as [Hl Hi]. apply negb_true_iff in Hi.
    split; [exact Hin|]. split; [vm_compute; tauto|]. split; assumption.
  - vm_compute in E. discriminate.
Qed.

(* ================================================================ spellings of a literal *)
Definition variant_check (r : string * string * N * N) (v : N * string * string * string) : bool :=
  match r, v with (op, lty, lint, interp), (i, _, t, f) =>
    Bool.eqb (lint_op_model op lty t f) (N.testbit lint i) && Bool.eqb (interp_op_model op lty t f) (N.testbit interp i)
  end.

(* a negative number, an RTIME in minutes / hours / days / years / milliseconds, a long string, false, and a header
   sub-field (req.http.X:sub) get, as right operand of every operator and target type, the verdicts of the plain
   literal (resp. header) of their type - from the linter and from the simulator *)
Theorem op_variants_eq_base : forall op lty lint interp i vid t f,
  In (op, lty, lint, interp) obs_op_variants -> In (i, vid, t, f) lit_variants ->
  lint_op_model op lty t f = N.testbit lint i /\ interp_op_model op lty t f = N.testbit interp i.
Proof.
  assert (H : forallb (fun r => forallb (variant_check r) lit_variants) obs_op_variants = true)
    by (vm_cast_no_check (eq_refl true)).
  intros op lty lint interp i vid t f Hr Hv.
  pose proof (forallb2_lift _ _ _ _ _ H _ _ Hr Hv) as C. unfold variant_check in C.
  apply andb_true_iff in C. destruct C as [C1 C2]. split; apply eqb_prop; assumption.
Qed.
Theorem obs_op_variants_domain : map obs_op_key obs_op_variants = op_rows.
Proof. vm_compute. reflexivity. Qed.

(* ================================================================ provenance of the left operand *)
Theorem obs_ops_left_domain : map (fun r => match r with (op, l, lp, _, _) => (op, l, lp) end) obs_ops_left = opl_rows.
Proof. vm_compute. reflexivity. Qed.

Definition opl_check (r : string * string * string * N * N) (c : N * string * string) : bool :=
  match r, c with (op, lty, lp, lint, interp), (p, rty, form) =>
    Bool.eqb (lint_op_model op lty rty form) (N.testbit lint p)
    && Bool.eqb (interp_op_model_left op lty lp rty form) (N.testbit interp p)
    && limp (N.testbit lint p) (N.testbit interp p) (fun _ => gap_covers "opl-interp" op (String.append lty (String.append ":" lp)) p)
  end.
Lemma opl_check_ok : forallb (fun r => forallb (opl_check r) op_cells_left) obs_ops_left = true.
Proof. vm_cast_no_check (eq_refl true). Qed.

(* the left operand (assignment target, left side of a comparison) is a local variable that got its value by a
   declaration with initialiser, from another variable, by a compound operator, never, or inside an if block:
   both the linter and the simulator decide exactly as the models do for a plain local - the provenance of a
   variable does not matter - and the inclusion holds *)
Theorem ops_left_models_eq_observed : forall op lty lp lint interp p rty form,
  In (op, lty, lp, lint, interp) obs_ops_left -> In (p, rty, form) op_cells_left ->
  lint_op_model op lty rty form = N.testbit lint p /\ interp_op_model_left op lty lp rty form = N.testbit interp p /\
  (N.testbit lint p = true ->
   N.testbit interp p = true \/ gap_covers "opl-interp" op (String.append lty (String.append ":" lp)) p = true).
Proof.
  intros op lty lp lint interp p rty form Hr Hc.
  pose proof (forallb2_lift _ _ _ _ _ opl_check_ok _ _ Hr Hc) as C. unfold opl_check in C.
  apply andb_true_iff in C. destruct C as [C C3]. apply andb_true_iff in C. destruct C as [C1 C2].
  split; [apply eqb_prop; exact C1|]. split; [apply eqb_prop; exact C2|].
  intro Hl. exact (limp_or _ _ _ C3 Hl).
Qed.

(* ================================================================ identifier arguments *)
Theorem obs_idargs_domain : map (fun r => match r with (fn, i, _, _) => (fn, i) end) obs_idargs = idarg_rows.
Proof. vm_compute. reflexivity. Qed.

Definition sig_digit (i : N) : string := String (Ascii.ascii_of_N (48 + i)) "".
Definition idarg_check (r : string * N * N * N) (c : N * string * N) : bool :=
  match r, c with (fn, i, lint, interp), (p, ident, s) =>
    limp (N.testbit lint p) (N.testbit interp p) (fun _ => gap_covers "idarg-interp" fn (sig_digit i) p)
  end.

(* every built-in with an ID-typed argument (and the add statement), the first ID argument drawn from every identifier
   of idarg_idents (the five HTTP objects as header, header collection and object; declared objects; enumeration
   identifiers), in each of the nine scopes: what the linter accepts the simulator runs without an error that is
   attributable to the identifier - it runs, or the baseline cell (the same call with an identifier of the correct kind
   in the same scope) fails too (a value error of the well-typed call, or no object of that kind in the scope: not
   decidable from the cell, counted in the evidence) - or the cell is a recorded gap *)
Theorem lint_sub_interp_idargs : forall fn i lint interp p ident s,
  In (fn, i, lint, interp) obs_idargs -> In (p, ident, s) idarg_cells ->
  N.testbit lint p = true ->
  N.testbit interp p = true \/ gap_covers "idarg-interp" fn (sig_digit i) p = true.
Proof.
  assert (H : forallb (fun r => forallb (idarg_check r) idarg_cells) obs_idargs = true) by (vm_cast_no_check (eq_refl true)).
  intros fn i lint interp p ident s Hr Hc Hl.
  pose proof (forallb2_lift _ _ _ _ _ H _ _ Hr Hc) as C. unfold idarg_check in C.
  exact (limp_or _ _ _ C Hl).
Qed.

(* not vacuous: std.collect on a header of the cached object in vcl_hit (identifier 4 = obj.http.*, scope 2) *)
Example lint_sub_interp_idargs_witness : exists lint interp,
  In ("std.collect", 0, lint, interp) obs_idargs /\ In (38, "obj.http.X-Verif-One", 2) idarg_cells /\
  N.testbit lint 38 = true /\ N.testbit interp 38 = true.
Proof.
  destruct (find (fun r => match r with (fn, i, lint, interp) =>
                    String.eqb fn "std.collect" && N.eqb i 0 && N.testbit (N.land lint interp) 38 end) obs_idargs)
    as [[[[fn i] lint] interp]|] eqn:E.
  - pose proof (find_some _ _ E) as [Hin Hb].
    apply andb_true_iff in Hb. destruct Hb as [Hb Ht]. apply andb_true_iff in Hb. destruct Hb as [Hf Hi].
    apply String.eqb_eq in Hf. apply N.eqb_eq in Hi. subst fn i.
    rewrite N.land_spec in Ht. apply andb_true_iff in Ht.
    exists lint, interp. split; [exact Hin|]. split; [vm_compute; tauto|]. exact Ht.
  - vm_compute in E. discriminate.
Qed.

(* ================================================================ scopes by call-graph inference *)
Theorem obs_inferred_domain :
  map obs_inferred_key obs_inferred = inferred_rows obs_http_names obs_inferred_full /\
  map obs_inferred_key obs_inferred3 = inferred3_rows obs_http_names obs_inferred_full.
Proof. vm_compute. split; reflexivity. Qed.

Definition inferred_check (r : string * string * string * N * N * N) (m : N) : bool :=
  match r with (k, n, a, d, lint, interp) =>
    Bool.eqb (lint_use_model the_ctx k n a m) (N.testbit lint m)
    && limp (N.testbit lint m) (N.testbit interp m) (fun _ => use_gap_covers k n a m)
  end.
Lemma inferred_check_ok :
  forallb (fun r => forallb (inferred_check r) pair_masks) obs_inferred
  && forallb (fun r => forallb (inferred_check r) triple_masks) obs_inferred3 = true.
Proof. vm_cast_no_check (eq_refl true). Qed.

(* the use sits in an un-annotated helper at depth 1..3 under every pair of lifecycle subroutines: the linter's
   verdict is that of the models on the union of the entry scopes (hence, by C05_multi_scope_exact and the
   reference theorems, "every inferred scope allows it"), and what it accepts runs from every entry *)
Theorem lint_inferred_eq_model : forall k n a d lint interp m,
  In (k, n, a, d, lint, interp) obs_inferred -> In m pair_masks ->
  lint_use_model the_ctx k n a m = N.testbit lint m /\
  (N.testbit lint m = true -> N.testbit interp m = true \/ use_gap_covers k n a m = true).
Proof.
  intros k n a d lint interp m Hr Hm.
  pose proof inferred_check_ok as H. apply andb_true_iff in H. destruct H as [H _].
  pose proof (forallb2_lift _ _ _ _ _ H _ _ Hr Hm) as C. unfold inferred_check in C.
  apply andb_true_iff in C. destruct C as [C1 C2].
  split; [apply eqb_prop; exact C1|]. intro Hl. exact (limp_or _ _ _ C2 Hl).
Qed.

Theorem lint_inferred3_eq_model : forall k n a d lint interp m,
  In (k, n, a, d, lint, interp) obs_inferred3 -> In m triple_masks ->
  lint_use_model the_ctx k n a m = N.testbit lint m /\
  (N.testbit lint m = true -> N.testbit interp m = true \/ use_gap_covers k n a m = true).
Proof.
  intros k n a d lint interp m Hr Hm.
  pose proof inferred_check_ok as H. apply andb_true_iff in H. destruct H as [_ H].
  pose proof (forallb2_lift _ _ _ _ _ H _ _ Hr Hm) as C. unfold inferred_check in C.
  apply andb_true_iff in C. destruct C as [C1 C2].
  split; [apply eqb_prop; exact C1|]. intro Hl. exact (limp_or _ _ _ C2 Hl).
Qed.

(* not vacuous: a use accepted under a pair of scopes at depth 3 *)
Example lint_inferred_witness : exists k n a lint interp m,
  In (k, n, a, 3, lint, interp) obs_inferred /\ In m pair_masks /\ N.testbit lint m = true /\ N.testbit interp m = true.
Proof.
  destruct (find (fun r => match r with (k, n, a, d, lint, interp) => N.eqb d 3 && N.testbit (N.land lint interp) 160 end) obs_inferred)
    as [[[[[[k n] a] d] lint] interp]|] eqn:E.
  - pose proof (find_some _ _ E) as [Hin Hb]. apply andb_true_iff in Hb. destruct Hb as [Hd Hb].
    apply N.eqb_eq in Hd. subst d. rewrite N.land_spec in Hb. apply andb_true_iff in Hb.
    exists k, n, a, lint, interp, 160. split; [exact Hin|]. split; [vm_compute; tauto|]. exact Hb.
  - vm_compute in E. discriminate.
Qed.
