(* C18 x C06: n requests served by handlers `Acquire; request; Release` over the simulator's persistent
   state (cache, rate counter, penalty box).  Any lock-respecting interleaving leaves the persistent state,
   and gives every request the process report, of Model/SM.run_history in lock-acquisition order. *)
From Coq Require Import List Arith Bool Lia Permutation ZArith NArith.
From Falco Require Import Base.Res Base.SMBase Model.SM Model.Sched Proofs.SMBasics Proofs.SchedProofs Proofs.SchedSerial.
Import ListNotations.

Definition req0 : oracle * request :=
  ((fun _ _ => ANone), mkQ 0%Z (fun _ => 0%N) false (fun _ => None) (fun _ => None) (fun _ => []) (fun _ _ => None)).
Definition report0 : report := mkR [] 0 false None None None true [].

(* one request as an atomic step on the persistent state (total: C06_sm_total) *)
Definition serve (oq : oracle * request) (p : persistent) : report * persistent :=
  match run_request (fst oq) p (snd oq) with
  | OK rp => rp
  | _ => (report0, p)
  end.

Lemma serve_ok oq p : run_request (fst oq) p (snd oq) = OK (serve oq p).
Proof. unfold serve. destruct (run_request_total (fst oq) p (snd oq)) as (r & p' & ->). reflexivity. Qed.

Definition request_body (oq : oracle * request) : list (step persistent report) :=
  [Respond (fun p => fst (serve oq p)); Act (fun p => snd (serve oq p))].

Section Requests.
  Variable reqs : list (oracle * request).
  Let n := length reqs.
  Let bodies := map request_body reqs.
  Let B := fun i => nth i bodies [].

  Lemma bodies_body : Forall (fun b => forallb is_body_step b = true) bodies.
  Proof. unfold bodies. apply Forall_forall. intros b Hb. apply in_map_iff in Hb. destruct Hb as (x & <- & _). reflexivity. Qed.

  Lemma B_lt i : i < n -> B i = request_body (nth i reqs req0).
  Proof.
    intros Hi. unfold B, bodies. rewrite (nth_indep _ [] (request_body req0)) by (rewrite map_length; exact Hi).
    apply map_nth.
  Qed.

  (* the reference of Proofs/SchedSerial.v, computed by run_history *)
  Lemma seq_is_history order : forall p,
    (forall i, In i order -> i < n) ->
    exists rs, run_history (map (fun i => nth i reqs req0) order) p = OK (rs, seq_final B order p) /\
               length rs = length order /\
               forall k i, NoDup order -> nth_error order k = Some i -> seq_resp B order p i = nth_error rs k.
  Proof.
    induction order as [|j order IH]; intros p Hlt.
    - exists []. cbn. repeat split; auto. intros k i _ H. destruct k; discriminate.
    - assert (Hj : j < n) by (apply Hlt; left; reflexivity).
      cbn [map run_history seq_final fold_left]. fold (seq_final B order).
      rewrite (B_lt j Hj). cbn [request_body run_body fst snd].
      destruct (nth j reqs req0) as [orc q] eqn:Ej.
      pose proof (serve_ok (orc, q) p) as Hs. cbn [fst snd] in Hs. rewrite Hs.
      destruct (serve (orc, q) p) as [r p1] eqn:Es. cbn [fst snd].
      destruct (IH p1 (fun i Hi => Hlt i (or_intror Hi))) as (rs & Hh & Hl & Hr).
      rewrite Hh. exists (r :: rs). split; [reflexivity|]. split; [cbn; lia|].
      intros k i Hnd Hk. inversion Hnd as [|? ? Hnj Hnd']; subst.
      cbn [seq_resp]. rewrite (B_lt j Hj), Ej. cbn [request_body run_body fst snd]. rewrite Es. cbn [fst snd].
      destruct k as [|k]; cbn [nth_error] in *.
      + inversion Hk; subst. rewrite Nat.eqb_refl. reflexivity.
      + assert (Hij : i <> j) by (intros ->; apply Hnj; eapply nth_error_In; eauto).
        apply Nat.eqb_neq in Hij. rewrite Nat.eqb_sym, Hij. apply Hr; assumption.
  Qed.

  Theorem requests_serialisable (p0 : persistent) sched c :
    respects_lock (map handler bodies) p0 sched c ->
    Permutation (acq c) (seq 0 n) /\
    exists rs, run_history (map (fun i => nth i reqs req0) (acq c)) p0 = OK (rs, st c) /\
               length rs = n /\
               forall k i, nth_error (acq c) k = Some i -> resp c i = nth_error rs k.
  Proof.
    intros Hr. destruct (locked_serialisable _ _ bodies bodies_body p0 sched c Hr) as (Hp & _ & Hs & Hrs).
    unfold bodies in Hp at 1. rewrite map_length in Hp. fold n in Hp.
    split; [exact Hp|].
    assert (Hlt : forall i, In i (acq c) -> i < n).
    { intros i Hi. apply (Permutation_in _ Hp) in Hi. apply in_seq in Hi. lia. }
    assert (Hnd : NoDup (acq c)) by (apply (Permutation_NoDup (Permutation_sym Hp)); apply seq_NoDup).
    destruct (seq_is_history (acq c) p0 Hlt) as (rs & Hh & Hl & Hrr).
    exists rs. fold B in Hs. rewrite <- Hs in Hh. split; [exact Hh|]. split.
    - rewrite Hl. rewrite (Permutation_length Hp). apply seq_length.
    - intros k i Hk. rewrite <- (Hrr k i Hnd Hk). apply Hrs.
      unfold bodies. rewrite map_length. apply Hlt. eapply nth_error_In; eauto.
  Qed.
End Requests.

(* witness: two requests for one cacheable URL, the second acquires the lock first: it misses and stores,
   the first one hits; the cache is left with one object that was hit once *)
Example ex_two_requests :
  let q := mkQ 1000%Z (fun _ => 5%N) true (fun _ => Some (true, 10000%Z)) (fun _ => None) (fun _ => []) (fun _ _ => None) in
  let reqs := [((fun _ _ => ANone), q); ((fun _ _ => ANone), q)] in
  match exec [1; 1; 1; 1; 0; 0; 0; 0] (init (map handler (map request_body reqs)) SM.init) with
  | Some c => acq c = [1; 0] /\
              option_map r_cached (resp c 1) = Some false /\ option_map r_cached (resp c 0) = Some true /\
              option_map (fun it => hits it) (cache_find 5%N (p_cache (st c))) = Some 1
  | None => False
  end.
Proof. vm_compute. repeat split; reflexivity. Qed.
