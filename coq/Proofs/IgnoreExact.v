(* ignore_exact for falco-ignore-next-line / trailing falco-ignore: the outside simulation, the
   descent along the path to the edited node, and the two theorems. *)
From Coq Require Import List Bool Arith Lia.
From Falco Require Import Base.Bytes Model.Ignore Model.IgnoreSpec Proofs.IgnoreBasics Proofs.IgnoreSim.
Import ListNotations.


Section Outside.
  Variable F : diag -> bool.

  Definition outside_stmt (n : node) : Prop := forall p s qv qp,
    (forall p' r, is_prefix p p' = true -> F (p', r) = true) ->
    sim_eq F (run n p s (filter F qv) (filter F qp)) (run n p s qv qp).

  Lemma emit_outside p rs s : (forall r, F (p, r) = true) -> filter F (emit p rs s) = emit p rs s.
  Proof.
    intros H. apply filter_true. intros d Hd. unfold emit in Hd. apply in_map_iff in Hd.
    destruct Hd as (r & <- & _). apply H.
  Qed.

  Lemma outside_kids ks : Forall outside_stmt ks -> forall p i s qv qp,
    (forall j p' r, i <= j < i + length ks -> is_prefix (p ++ [j]) p' = true -> F (p', r) = true) ->
    sim_eq F (run_kids ks p i s (filter F qv) (filter F qp)) (run_kids ks p i s qv qp).
  Proof.
    induction 1 as [|k ks Hk _ IH]; intros p i s qv qp HF.
    - rewrite !run_kids_nil. unfold sim_eq. rproj. auto.
    - rewrite !run_kids_cons. cbn zeta.
      destruct (Hk (p ++ [i]) s qv qp) as (A & B & C & D).
      { intros p' r Hp'. eapply HF; [|exact Hp']. cbn [length]. lia. }
      rewrite A, B, C.
      destruct (IH p (S i) (r_st (run k (p ++ [i]) s qv qp)) (r_qv (run k (p ++ [i]) s qv qp))
                  (r_qp (run k (p ++ [i]) s qv qp))) as (A' & B' & C' & D').
      { intros j p' r Hj. apply HF. cbn [length]. lia. }
      unfold sim_eq. rproj. repeat split; auto. rewrite D, D', filter_app. reflexivity.
  Qed.

  Lemma outside_node n : outside_stmt n.
  Proof.
    induction n as [w m fl pre lsub lprog kids IH] using node_ind'.
    intros p s qv qp HF. rewrite !run_node. cbn zeta. unfold inner. rproj.
    assert (Hp : forall r, F (p, r) = true) by (intros r; apply HF; apply is_prefix_refl).
    replace (if fl then [] else filter F qv) with (filter F (if fl then [] else qv)) by (destruct fl; reflexivity).
    destruct (outside_kids kids IH p 0 (setup w m s) (if fl then [] else qv) qp) as (A & B & C & D).
    { intros j p' r _ Hp'. apply HF. eapply is_prefix_snoc; eauto. }
    unfold sim_eq. rproj. rewrite A, B, C, D. repeat split.
    - rewrite filter_app, emit_outside by exact Hp. destruct fl; reflexivity.
    - rewrite filter_app, emit_outside by exact Hp. reflexivity.
    - rewrite !filter_app, emit_outside by exact Hp. f_equal. f_equal.
      destruct fl; auto.
  Qed.

  Lemma outside_kids' ks p i s qv qp :
    (forall j p' r, i <= j < i + length ks -> is_prefix (p ++ [j]) p' = true -> F (p', r) = true) ->
    sim_eq F (run_kids ks p i s (filter F qv) (filter F qp)) (run_kids ks p i s qv qp).
  Proof. apply outside_kids. apply Forall_forall. intros n _. apply outside_node. Qed.

  (* a list in which at most the element number k is edited; everything else is outside *)
  Lemma list_step (Inv : istate -> Prop) (good : node -> bool) (g : node -> node) :
    (forall n p s qv qp, good n = true -> Inv s -> Inv (r_st (run n p s qv qp))) ->
    forall ks b j0 k s qv qp,
    forallb good ks = true -> Inv s ->
    (forall x s qv qp, nth_error ks k = Some x -> Inv s ->
       sim_eq F (run (g x) (b ++ [j0 + k]) s (filter F qv) (filter F qp)) (run x (b ++ [j0 + k]) s qv qp)) ->
    (forall j p' r, j <> j0 + k -> is_prefix (b ++ [j]) p' = true -> F (p', r) = true) ->
    sim_eq F (run_kids (upd_nth k g ks) b j0 s (filter F qv) (filter F qp)) (run_kids ks b j0 s qv qp).
  Proof.
    intros HI. induction ks as [|x ks IHks]; intros b j0 k s qv qp Hg HInv Hx HFo.
    - destruct k; cbn [upd_nth]; rewrite !run_kids_nil; unfold sim_eq; rproj; auto.
    - cbn in Hg. apply andb_true_iff in Hg. destruct Hg as [Hgx Hgks].
      destruct k as [|k]; cbn [upd_nth]; rewrite !run_kids_cons; cbn zeta.
      + rewrite Nat.add_0_r in Hx, HFo.
        destruct (Hx x s qv qp eq_refl HInv) as (A & B & C & D). rewrite A, B, C.
        destruct (outside_kids' ks b (S j0) (r_st (run x (b ++ [j0]) s qv qp)) (r_qv (run x (b ++ [j0]) s qv qp))
                    (r_qp (run x (b ++ [j0]) s qv qp))) as (A' & B' & C' & D').
        { intros j p' r Hj. apply HFo. lia. }
        unfold sim_eq. rproj. repeat split; auto. rewrite D, D', filter_app. reflexivity.
      + destruct (outside_node x (b ++ [j0]) s qv qp) as (A & B & C & D).
        { intros p' r Hp'. eapply HFo; [|exact Hp']. lia. }
        rewrite A, B, C.
        destruct (IHks b (S j0) k (r_st (run x (b ++ [j0]) s qv qp)) (r_qv (run x (b ++ [j0]) s qv qp))
                    (r_qp (run x (b ++ [j0]) s qv qp))) as (A' & B' & C' & D'); auto.
        { intros y s0 qv0 qp0 Hy HI0. replace (S j0 + k) with (j0 + S k) by lia. apply Hx; auto. }
        { intros j p' r Hj. apply HFo. lia. }
        unfold sim_eq. rproj. repeat split; auto. rewrite D, D', filter_app. reflexivity.
  Qed.
End Outside.

(* ------------------------------------------------------------------ descent to the edited node *)
Section Path.
  Variable F : diag -> bool.
  Variable P0 : path.                 (* absolute path of the edited node *)
  Variable f : node -> node.
  Variable n0 : node.                 (* the node found there *)
  Variable Inv : istate -> Prop.
  Variable good : node -> bool.

  Hypothesis HF_out : forall q r, is_prefix P0 q = false -> F (q, r) = true.
  Hypothesis Hf : forall s qv qp, Inv s ->
    sim_eq F (run (f n0) P0 s (filter F qv) (filter F qp)) (run n0 P0 s qv qp).
  Hypothesis HI_node : forall n p s qv qp, good n = true -> Inv s -> Inv (r_st (run n p s qv qp)).
  Hypothesis HI_setup : forall w m fl pre lsub lprog kids s,
    good (Node w m fl pre lsub lprog kids) = true -> Inv s -> Inv (setup w m s).
  Hypothesis good_kids : forall w m fl pre lsub lprog kids,
    good (Node w m fl pre lsub lprog kids) = true -> forallb good kids = true.

  Lemma path_kids : forall rest ks b j0 k s qv qp,
    P0 = b ++ (j0 + k) :: rest ->
    forallb good ks = true -> Inv s ->
    (match nth_error ks k with Some x => get_node rest x | None => None end) = Some n0 ->
    sim_eq F (run_kids (upd_nth k (upd rest f) ks) b j0 s (filter F qv) (filter F qp))
             (run_kids ks b j0 s qv qp).
  Proof.
    induction rest as [|i' rest' IHrest]; intros ks b j0 k s qv qp HP Hg HI Hget.
    - apply (list_step F Inv good); auto.
      + intros x s0 qv0 qp0 Hx HI0. rewrite Hx in Hget. cbn in Hget. inversion Hget; subst x.
        cbn [upd]. replace (b ++ [j0 + k]) with P0. apply Hf; auto.
      + intros j p' r Hj Hp'. apply HF_out. rewrite HP. apply (is_prefix_sibling b (j0 + k) j [] p'); [lia | exact Hp'].
    - apply (list_step F Inv good); auto.
      + intros x s0 qv0 qp0 Hx HI0. rewrite Hx in Hget.
        assert (Hgx : good x = true).
        { rewrite forallb_forall in Hg. apply Hg. eapply nth_error_In; eauto. }
        destruct x as [w m fl pre lsub lprog kids]. cbn [upd]. cbn in Hget.
        (* the ancestor: same setup, its own diagnostics are outside, its children by induction *)
        rewrite !run_node. cbn zeta. unfold inner. rproj.
        set (pa := b ++ [j0 + k]) in *.
        assert (Hp : forall r, F (pa, r) = true).
        { intros r. apply HF_out. rewrite HP. replace (b ++ (j0 + k) :: i' :: rest') with (pa ++ i' :: rest').
          - apply is_prefix_longer. discriminate.
          - unfold pa. rewrite <- app_assoc. reflexivity. }
        replace (if fl then [] else filter F qv0) with (filter F (if fl then [] else qv0)) by (destruct fl; reflexivity).
        destruct (IHrest kids pa 0 i' (setup w m s0) (if fl then [] else qv0) qp0) as (A & B & C & D).
        { rewrite HP. unfold pa. rewrite <- app_assoc. reflexivity. }
        { eapply good_kids; eauto. }
        { eapply HI_setup; eauto. }
        { exact Hget. }
        unfold sim_eq. rproj. rewrite A, B, C, D. repeat split.
        * rewrite filter_app, emit_outside by exact Hp. destruct fl; reflexivity.
        * rewrite filter_app, emit_outside by exact Hp. reflexivity.
        * rewrite !filter_app, emit_outside by exact Hp. f_equal. f_equal.
          destruct fl; auto.
      + intros j p' r Hj Hp'. apply HF_out. rewrite HP. apply (is_prefix_sibling b (j0 + k) j (i' :: rest') p'); [lia | exact Hp'].
  Qed.

  (* whole programs *)
  Lemma path_report : forall t i rest,
    P0 = i :: rest -> forallb good t = true -> Inv init ->
    get_prog P0 t = Some n0 ->
    report (upd_prog P0 f t) = filter F (report t).
  Proof.
    intros t i rest HP Hg HI Hget. unfold report.
    replace (upd_prog P0 f t) with (upd_nth i (upd rest f) t) by (rewrite HP; reflexivity).
    rewrite HP in Hget. cbn [get_prog] in Hget.
    pose proof (path_kids rest t [] 0 i init [] [] HP Hg HI Hget) as (A & B & C & D).
    cbn [filter] in A, B, C, D.
    rewrite (rres_eta (run_kids (upd_nth i (upd rest f) t) [] 0 init [] [])).
    rewrite (rres_eta (run_kids t [] 0 init [] [])).
    rewrite B, C, D, !filter_app. reflexivity.
  Qed.
End Path.
