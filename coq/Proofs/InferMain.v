(* C11 - the termination and least-fixpoint theorems instantiated with the scope constants
   regenerated from linter/context/scope.go (Gen/InferScopes.v). *)
From Coq Require Import List Arith Bool NArith Lia.
From Coq Require String.
From Falco Require Import Base.Res Gen.InferScopes Model.ScopeInfer
  Proofs.ScopeInferLfp Proofs.ScopeInferTerm.
Import ListNotations.

(* T tie: ten scope bits, all distinct single bits; every entry of fastlyScopes is one of them *)
Fixpoint nodupb {A} (eqb : A -> A -> bool) (l : list A) : bool :=
  match l with [] => true | x :: r => negb (existsb (eqb x) r) && nodupb eqb r end.

Lemma NoDup_by_dec {A} (eqb : A -> A -> bool) (l : list A) :
  (forall x y, eqb x y = true <-> x = y) -> nodupb eqb l = true -> NoDup l.
Proof.
  intros Heq. induction l as [|x r IH]; cbn; intros H; [constructor|].
  apply andb_true_iff in H. destruct H as [H1 H2]. constructor; [|auto].
  intro Hin. apply negb_true_iff in H1.
  assert (existsb (eqb x) r = true) by (apply existsb_exists; exists x; split; [exact Hin | apply Heq; reflexivity]).
  congruence.
Qed.

Lemma Forall_by_forallb {A} (p : A -> bool) (P : A -> Prop) (l : list A) :
  (forall x, p x = true -> P x) -> forallb p l = true -> Forall P l.
Proof. intros H Hb. apply Forall_forall. intros x Hx. apply H. rewrite forallb_forall in Hb. auto. Qed.

Lemma scope_constants :
  popcount all_scopes = 10 /\ length scope_consts = 10 /\ NoDup scope_consts /\
  Forall (fun c => popcount c = 1) scope_consts /\
  Forall (fun kv => In (snd kv) scope_consts) fastly_scopes /\
  NoDup (map fst fastly_scopes) /\ length fastly_scopes = 10.
Proof.
  split; [vm_compute; reflexivity|]. split; [reflexivity|].
  split. { apply (NoDup_by_dec N.eqb); [apply N.eqb_eq | vm_compute; reflexivity]. }
  split. { apply (Forall_by_forallb (fun c => Nat.eqb (popcount c) 1)).
           - intros x Hx. apply Nat.eqb_eq. exact Hx.
           - vm_compute. reflexivity. }
  split. { apply (Forall_by_forallb (fun kv => existsb (N.eqb (snd kv)) scope_consts)).
           - intros x Hx. apply existsb_exists in Hx. destruct Hx as [y [Hy E]].
             apply N.eqb_eq in E. rewrite E. exact Hy.
           - vm_compute. reflexivity. }
  split; [|reflexivity].
  apply (NoDup_by_dec String.eqb); [apply String.eqb_eq | vm_compute; reflexivity].
Qed.

Section Main.
Variable present explicit : name -> bool.
Variable callees : name -> list name.
Variable subs : list name.
Hypothesis subs_nodup : NoDup subs.
Hypothesis present_subs : forall n, present n = true <-> In n subs.

Theorem infer_terminates_scopes :
  forall orders s0,
    (forall n, In n subs -> sub (s0 n) all_scopes) ->
    exists r, infer present explicit callees (S (10 * length subs)) orders 0 s0 = OK r.
Proof.
  intros orders s0 Hb.
  destruct scope_constants as [P _]. rewrite <- P.
  apply (infer_terminates present explicit callees subs all_scopes subs_nodup present_subs orders s0 Hb).
Qed.

Theorem infer_lfp_order_free :
  forall orders orders' s0,
    (forall j, covers callees (orders j)) -> (forall j, covers callees (orders' j)) ->
    (forall n, In n subs -> sub (s0 n) all_scopes) ->
    exists r r',
      infer present explicit callees (S (10 * length subs)) orders 0 s0 = OK r /\
      infer present explicit callees (S (10 * length subs)) orders' 0 s0 = OK r' /\
      (forall n, r n = r' n) /\ is_lfp present explicit callees s0 r.
Proof.
  intros orders orders' s0 Hc Hc' Hb.
  destruct (infer_terminates_scopes orders s0 Hb) as [r Hr].
  destruct (infer_terminates_scopes orders' s0 Hb) as [r' Hr'].
  exists r, r'. split; [exact Hr|]. split; [exact Hr'|]. split.
  - exact (infer_order_free present explicit callees _ _ _ _ _ _ _ _ _ Hc Hc' Hr Hr').
  - exact (infer_is_lfp present explicit callees _ _ _ _ _ Hc Hr).
Qed.
End Main.

(* witness: vcl_recv(0) -> a(1) -> b(2) -> a ; vcl_fetch(3) -> b ; c(4) explicit DELIVER called by a;
   two different orders per round give the same scopes *)
Definition ex_present (n : name) := Nat.leb n 4.
Definition ex_explicit (n : name) := match n with 0 | 3 | 4 => true | _ => false end.
Definition ex_callees (n : name) : list name :=
  match n with 0 => [1] | 1 => [2; 4] | 2 => [1] | 3 => [2] | _ => [] end.
Definition ex_s0 : state := fun n => match n with 0 => SC_RECV | 3 => SC_FETCH | 4 => SC_DELIVER | _ => 0%N end.

Example infer_example :
  (do r <- infer ex_present ex_explicit ex_callees 51 (fun _ => [0; 1; 2; 3]) 0 ex_s0;
   OK (map r [0; 1; 2; 3; 4]))
  = OK [SC_RECV; N.lor SC_RECV SC_FETCH; N.lor SC_RECV SC_FETCH; SC_FETCH; SC_DELIVER]
  /\
  (do r <- infer ex_present ex_explicit ex_callees 51 (fun i => if Nat.even i then [3; 2; 1; 0] else [2; 0; 3; 1]) 0 ex_s0;
   OK (map r [0; 1; 2; 3; 4]))
  = OK [SC_RECV; N.lor SC_RECV SC_FETCH; N.lor SC_RECV SC_FETCH; SC_FETCH; SC_DELIVER].
Proof. split; vm_compute; reflexivity. Qed.

(* stopping after one round is NOT the fixpoint: with the order [2;1;0;3] the first round leaves b(2) empty *)
Example one_round_is_not_enough :
  let r1 := fst (round ex_present ex_explicit ex_callees [2; 1; 0; 3] ex_s0) in
  map r1 [1; 2] = [SC_RECV; SC_FETCH].
Proof. vm_compute. reflexivity. Qed.

