(* decode_total / decode_no_crash: for every byte string, Model.Codec.decode
   returns statements or an error -- never OutOfFuel (the Go loops terminate)
   and never Crash (no slice/index fault). *)
From Coq Require Import List NArith ZArith Lia Bool.
From Falco Require Import Base.Res Base.Bytes Base.Utf8 Gen.CodecFrames Model.CodecAst Model.Codec.
Import ListNotations.
Local Open Scope N_scope.

Definition len (st : dstate) : nat := length (rest st).

(* a result is "good" w.r.t. the state it started from: a value whose remaining
   input is not longer, or an error *)
Definition good {A} (st : dstate) (r : res (A * dstate)) : Prop :=
  match r with
  | OK (_, st') => (len st' <= len st)%nat
  | Err => True
  | Crash => False
  | OutOfFuel => False
  end.

(* frames that nextFrame returns without consuming input *)
Definition noncons (f : frame) : Prop := ftype f = FT_UNKNOWN \/ ftype f = FT_FIN.
Definition pre (m : nat) (f : frame) (st : dstate) : Prop :=
  (8 * len st + 10 <= m)%nat \/ ((1 <= m)%nat /\ noncons f).

Lemma good_mono {A} st st' (r : res (A * dstate)) :
  (len st' <= len st)%nat -> good st' r -> good st r.
Proof. destruct r as [[a s]| | |]; simpl; auto; lia. Qed.

Lemma next_frame_cases st f st' :
  next_frame st = (f, st') ->
  (len st' < len st)%nat \/ (st' = st /\ noncons f).
Proof.
  unfold next_frame, len, noncons. destruct st as [fn r]; simpl.
  destruct fn; [intros H; inversion H; subst; simpl; auto|].
  destruct r as [|t r]; [intros H; inversion H; subst; simpl; auto|].
  destruct (b2n t =? FT_END); [intros H; inversion H; subst; simpl; left; lia|].
  destruct (b2n t =? FT_FIN); [intros H; inversion H; subst; simpl; left; lia|].
  destruct r as [|hi [|lo r']]; intros H; inversion H; subst; simpl; left; lia.
Qed.

(* continuation that needs fuel m (a recursive decoder) *)
Lemma nf_good {A} (k : frame -> dstate -> res (A * dstate)) st m :
  (8 * len st + 2 <= m)%nat ->
  (forall f st', pre m f st' -> (len st' <= len st)%nat -> good st' (k f st')) ->
  good st (nf st k).
Proof.
  intros Hm Hk. unfold nf. destruct (next_frame st) as [f st'] eqn:E.
  destruct (next_frame_cases _ _ _ E) as [Hlt | [-> Hn]].
  - eapply good_mono; [|apply Hk]; try lia. left; lia.
  - apply Hk; [right; split; [lia|exact Hn] | lia].
Qed.

(* continuation that is good on every frame (a leaf decoder) *)
Lemma nf_any_good {A} (k : frame -> dstate -> res (A * dstate)) st :
  (forall f st', good st' (k f st')) -> good st (nf st k).
Proof.
  intros Hk. unfold nf. destruct (next_frame st) as [f st'] eqn:E.
  destruct (next_frame_cases _ _ _ E) as [Hlt | [-> Hn]].
  - eapply good_mono; [|apply Hk]; lia.
  - apply Hk.
Qed.

Lemma bind_good {A B} st (r : res (A * dstate)) (k : A * dstate -> res (B * dstate)) :
  good st r ->
  (forall a st1, (len st1 <= len st)%nat -> good st1 (k (a, st1))) ->
  good st (bind r k).
Proof.
  destruct r as [[a s]| | |]; simpl; intros H Hk; try tauto.
  eapply good_mono; [exact H|]. apply Hk. exact H.
Qed.

(* ---- leaves ---- *)
Lemma read_payload_good f st : good st (read_payload f st).
Proof.
  unfold read_payload. destruct (Nat.leb _ _); simpl; [|exact I].
  unfold len; simpl. rewrite skipn_length. lia.
Qed.

Lemma dec_leaf_good t f st : good st (dec_leaf t f st).
Proof.
  unfold dec_leaf. destruct (_ =? _); [|exact I].
  pose proof (read_payload_good f st) as H.
  destruct (read_payload f st) as [[b s]| | |]; simpl in *; auto.
Qed.

Lemma dec_num_good t f st : good st (dec_num t f st).
Proof.
  unfold dec_num. destruct (_ =? _); [|exact I].
  pose proof (read_payload_good f st) as H.
  destruct (read_payload f st) as [[b s]| | |]; simpl in *; auto.
  destruct (Nat.ltb (length b) 8) eqn:E; simpl; [exact I|].
  unfold go_prefix. rewrite E. simpl. exact H.
Qed.

Lemma dec_bool_good f st : good st (dec_bool f st).
Proof.
  unfold dec_bool. destruct (_ =? _); [|exact I].
  pose proof (read_payload_good f st) as H.
  destruct (read_payload f st) as [[b s]| | |]; simpl in *; auto.
  destruct b as [|b0 b]; simpl; [exact I|exact H].
Qed.

Lemma pre_S m f st : pre (S m) f st -> noncons f \/ (8 * len st + 9 <= m)%nat.
Proof. unfold pre. intros [H|[_ H]]; [right; lia | left; exact H]. Qed.

Ltac noncons_case f Hn :=
  destruct f as [ty sz]; unfold noncons in Hn; simpl in Hn;
  destruct Hn as [Hn|Hn]; subst ty; vm_compute; exact I.

Arguments nf : simpl never.
Arguments bind : simpl never.
Arguments dec_leaf : simpl never.
Arguments dec_num : simpl never.
Arguments dec_bool : simpl never.
Arguments next_frame : simpl never.
Arguments peek_frame : simpl never.
Arguments peek_is : simpl never.
Arguments is_expr_type : simpl never.
Arguments N.eqb : simpl never.
Arguments Nat.mul : simpl never.
Arguments Nat.add : simpl never.

Lemma dec_expr_noncons n f st : noncons f -> (1 <= n)%nat -> dec_expr n f st = Err.
Proof.
  intros Hn H1. destruct n as [|n]; [lia|]. destruct f as [ty sz].
  unfold noncons in Hn; simpl in Hn. destruct Hn as [Hn|Hn]; subst ty; reflexivity.
Qed.

Ltac use_pre := unfold pre in *;
  first [ left; lia
        | right; split; [lia | assumption]
        | match goal with H : _ \/ _ |- _ => destruct H as [H|[? H]]; [left; lia | right; split; [lia|exact H]] end ].

Ltac gd_hook := fail.
(* generic step tactic: peel binds / nf / ifs, discharge leaves, use IHs via [IH] *)
Ltac gd IH :=
  repeat first
    [ exact I
    | gd_hook
    | match goal with H : noncons ?f, H2 : (ftype ?f =? _) = true |- _ =>
        exfalso; apply N.eqb_eq in H2; destruct H as [H|H]; rewrite H in H2;
        solve [discriminate | congruence] end
    | match goal with |- good _ (OK _) => simpl; lia end
    | apply dec_leaf_good | apply dec_num_good | apply dec_bool_good
    | match goal with |- good _ (nf _ (dec_leaf _)) => apply nf_any_good; intros ? ? end
    | match goal with |- good _ (nf _ dec_bool) => apply nf_any_good; intros ? ? end
    | match goal with |- good _ (nf _ (dec_num _)) => apply nf_any_good; intros ? ? end
    | match goal with H : noncons ?f |- good _ (bind (dec_expr _ ?f _) _) =>
        rewrite (dec_expr_noncons _ f) by (assumption || lia); unfold bind; exact I end
    | match goal with |- good _ (bind _ _) => apply bind_good; [| intros ? ? ?; cbv beta iota] end
    | match goal with |- good _ (let '(_, _) := ?p in _) => is_var p; destruct p; cbv beta iota end
    | match goal with |- good _ (if ?c then _ else _) => destruct c eqn:? end
    | match goal with |- good _ (let '(_, _) := next_frame ?s in _) =>
        let E := fresh "E" in let d := fresh "d" in let fr := fresh "fr" in
        destruct (next_frame s) as [fr d] eqn:E;
        apply next_frame_cases in E; destruct E as [E|[-> E]];
        [ match goal with |- good ?st0 _ => apply (good_mono st0 d); [lia|] end | ] end
    | progress IH
    ].

Lemma expr_group_good : forall n,
  (forall f st, pre n f st -> good st (dec_expr n f st)) /\
  (forall st, (8 * len st + 7 <= n)%nat -> good st (dec_infix n st)) /\
  (forall st, (8 * len st + 6 <= n)%nat -> good st (dec_args n st)).
Proof.
  induction n as [|n [IHe [IHi IHa]]].
  { repeat split; intros; try lia. destruct H as [H|[H _]]; lia. }
  assert (IHnf : forall st, (8 * len st + 2 <= n)%nat -> good st (nf st (dec_expr n))).
  { intros st H. apply (nf_good _ _ n); [lia|]. intros f st' Hp _. apply IHe; exact Hp. }
  repeat split.
  - intros f st Hp. destruct (pre_S _ _ _ Hp) as [Hn|Hl]; [noncons_case f Hn|].
    simpl.
    gd ltac:(first [ apply IHnf; lia | apply IHi; lia | apply IHa; lia ]).
  - intros st Hl. simpl.
    gd ltac:(first [ apply IHnf; lia | apply IHi; lia | apply IHa; lia ]).
  - intros st Hl. simpl.
    gd ltac:(first [ apply IHnf; lia | apply IHi; lia | apply IHa; lia
                   | apply IHe; use_pre ]).
Qed.

Lemma dec_expr_good n f st : pre n f st -> good st (dec_expr n f st).
Proof. apply expr_group_good. Qed.
Lemma dec_infix_good n st : (8 * len st + 7 <= n)%nat -> good st (dec_infix n st).
Proof. apply expr_group_good. Qed.
Lemma dec_args_good n st : (8 * len st + 6 <= n)%nat -> good st (dec_args n st).
Proof. apply expr_group_good. Qed.
Lemma nf_expr_good n st : (8 * len st + 2 <= n)%nat -> good st (nf st (dec_expr n)).
Proof.
  intros H. apply (nf_good _ _ n); [lia|]. intros f st' Hp _. apply dec_expr_good; exact Hp.
Qed.

Arguments dec_expr : simpl never.
Arguments dec_infix : simpl never.
Arguments dec_args : simpl never.

Ltac ex := first [ apply nf_expr_good; lia | apply dec_infix_good; lia | apply dec_args_good; lia
                 | apply dec_expr_good; use_pre ].

Lemma dec_opt_expr_good n st : (8 * len st + 2 <= n)%nat -> good st (dec_opt_expr n st).
Proof. intros H. unfold dec_opt_expr. gd ltac:(ex). Qed.

Lemma dec_opt_leaf_good t st : good st (dec_opt_leaf t st).
Proof. unfold dec_opt_leaf. gd ltac:(ex). Qed.

Lemma dec_cidr_good n st : good st (dec_cidr n st).
Proof. unfold dec_cidr. gd ltac:(ex). Qed.

Lemma dec_kvs_good t : t <> FT_UNKNOWN -> t <> FT_FIN ->
  forall n st, (8 * len st + 6 <= n)%nat -> good st (dec_kvs t n st).
Proof.
  intros Hu Hf. induction n as [|n IH]; intros st H; [lia|]. simpl.
  gd ltac:(first [ ex | apply IH; lia ]).
Qed.

Lemma dec_cidrs_good : forall n st, (8 * len st + 6 <= n)%nat -> good st (dec_cidrs n st).
Proof.
  induction n as [|n IH]; intros st H; [lia|]. simpl.
  gd ltac:(first [ ex | apply dec_cidr_good | apply IH; lia ]).
Qed.

Lemma dec_bprops_good : forall n st, (8 * len st + 6 <= n)%nat -> good st (dec_bprops n st).
Proof.
  induction n as [|n IH]; intros st H; [lia|]. simpl.
  gd ltac:(first [ ex | apply dec_kvs_good; [discriminate|discriminate|lia] | apply IH; lia ]).
Qed.

Lemma dec_dprops_good : forall n st, (8 * len st + 6 <= n)%nat -> good st (dec_dprops n st).
Proof.
  induction n as [|n IH]; intros st H; [lia|]. simpl.
  gd ltac:(first [ ex | apply dec_kvs_good; [discriminate|discriminate|lia] | apply IH; lia ]).
Qed.

Lemma dec_tprops_good : forall n st, (8 * len st + 6 <= n)%nat -> good st (dec_tprops n st).
Proof.
  induction n as [|n IH]; intros st H; [lia|]. simpl.
  gd ltac:(first [ ex | apply IH; lia ]).
Qed.

Lemma peek_is_nonempty t st : peek_is t st = true -> t <> FT_UNKNOWN -> (1 <= len st)%nat.
Proof.
  unfold peek_is, peek_frame, len. destruct (rest st); simpl; [|lia].
  intros H Hne. apply N.eqb_eq in H. congruence.
Qed.

Lemma next_frame_cases' st f st' :
  next_frame st = (f, st') ->
  (len st' < len st)%nat \/ (st' = st /\ (rest st = [] \/ (fin st = true /\ f = Frame FT_FIN 0))).
Proof.
  unfold next_frame, len. destruct st as [fn r]; simpl.
  destruct fn; [intros H; inversion H; subst; simpl; auto|].
  destruct r as [|t r]; [intros H; inversion H; subst; simpl; auto|].
  destruct (b2n t =? FT_END); [intros H; inversion H; subst; simpl; left; lia|].
  destruct (b2n t =? FT_FIN); [intros H; inversion H; subst; simpl; left; lia|].
  destruct r as [|hi [|lo r']]; intros H; inversion H; subst; simpl; left; lia.
Qed.

Lemma nf_fin {A} st (k : frame -> dstate -> res A) : fin st = true -> nf st k = k (Frame FT_FIN 0) st.
Proof. intros H. unfold nf, next_frame. rewrite H. reflexivity. Qed.

Lemma peek_is_rest t st : peek_is t st = true -> t <> FT_UNKNOWN -> rest st <> [].
Proof.
  unfold peek_is, peek_frame. destruct (rest st); simpl; [|congruence].
  intros H Hne. apply N.eqb_eq in H. congruence.
Qed.

Lemma dec_params_good : forall n st, (8 * len st + 6 <= n)%nat -> good st (dec_params n st).
Proof.
  induction n as [|n IH]; intros st H; [lia|]. simpl.
  destruct (peek_is FT_SUBROUTINE_PARAMETER st) eqn:Hp; [|simpl; lia].
  destruct (next_frame st) as [fr d] eqn:E.
  apply next_frame_cases' in E. destruct E as [E|[-> [E|[E _]]]].
  - apply (good_mono st d); [lia|]. gd ltac:(first [ ex | apply IH; lia ]).
  - exfalso. eapply peek_is_rest; eauto. discriminate.
  - rewrite nf_fin by exact E. exact I.
Qed.

Arguments dec_kvs : simpl never.
Arguments dec_cidrs : simpl never.
Arguments dec_bprops : simpl never.
Arguments dec_dprops : simpl never.
Arguments dec_tprops : simpl never.
Arguments dec_params : simpl never.
Arguments dec_opt_expr : simpl never.
Arguments dec_opt_leaf : simpl never.

Ltac ex2 := first [ ex | apply dec_opt_expr_good; lia | apply dec_opt_leaf_good
                  | apply dec_cidrs_good; lia | apply dec_bprops_good; lia | apply dec_dprops_good; lia
                  | apply dec_tprops_good; lia | apply dec_params_good; lia ].

Lemma dec_stmt_noncons_aux n f st : noncons f -> dec_stmt (S n) f st = Err.
Proof.
  intros Hn. destruct f as [ty sz].
  unfold noncons in Hn; simpl in Hn. destruct Hn as [Hn|Hn]; subst ty; reflexivity.
Qed.
Lemma dec_stmt_noncons n f st : noncons f -> (1 <= n)%nat -> dec_stmt n f st = Err.
Proof. intros Hn H1. destruct n as [|n]; [lia|]. apply dec_stmt_noncons_aux; exact Hn. Qed.

Ltac gd_hook ::=
  match goal with H : noncons ?f |- good _ (bind (dec_stmt _ ?f _) _) =>
    rewrite (dec_stmt_noncons _ f) by (assumption || lia); unfold bind; exact I end.

Lemma stmt_group_good : forall n,
  (forall f st, pre n f st -> good st (dec_stmt n f st)) /\
  (forall st, (8 * len st + 6 <= n)%nat -> good st (dec_stmts n st)) /\
  (forall st, (8 * len st + 9 <= n)%nat -> good st (dec_ifs n st)) /\
  (forall st, (8 * len st + 6 <= n)%nat -> good st (dec_anothers n st)) /\
  (forall st, (8 * len st + 9 <= n)%nat -> good st (dec_cas n st)) /\
  (forall st, (8 * len st + 6 <= n)%nat -> good st (dec_cases n st)).
Proof.
  induction n as [|n [IHs [IHss [IHi [IHan [IHc IHcs]]]]]].
  { repeat split; intros; try lia. destruct H as [H|[H _]]; lia. }
  pose (ih := fun (u : unit) => u).
  Ltac ihs IHs IHss IHi IHan IHc IHcs :=
    first [ ex2 | apply IHss; lia | apply IHi; lia | apply IHan; lia | apply IHc; lia | apply IHcs; lia
          | apply IHs; use_pre ].
  repeat split.
  - intros f st Hp. destruct (pre_S _ _ _ Hp) as [Hn|Hl]; [rewrite dec_stmt_noncons_aux by exact Hn; exact I|].
    simpl.
    gd ltac:(ihs IHs IHss IHi IHan IHc IHcs).
  - intros st Hl. simpl. gd ltac:(ihs IHs IHss IHi IHan IHc IHcs).
  - intros st Hl. simpl. gd ltac:(ihs IHs IHss IHi IHan IHc IHcs).
  - intros st Hl. simpl. gd ltac:(ihs IHs IHss IHi IHan IHc IHcs).
  - intros st Hl. simpl. gd ltac:(ihs IHs IHss IHi IHan IHc IHcs).
  - intros st Hl. simpl. gd ltac:(ihs IHs IHss IHi IHan IHc IHcs).
Qed.

Lemma dec_stmt_good n f st : pre n f st -> good st (dec_stmt n f st).
Proof. apply stmt_group_good. Qed.

Definition fine {A} (r : res A) : Prop := r <> OutOfFuel /\ r <> Crash.

Lemma dec_top_fine : forall n st, (8 * len st + 11 <= n)%nat -> fine (dec_top n st).
Proof.
  induction n as [|n IH]; intros st H; [lia|]. cbn [dec_top].
  destruct (next_frame st) as [f d] eqn:E. apply next_frame_cases in E.
  destruct (ftype f =? FT_FIN) eqn:Hf; [split; discriminate|].
  destruct E as [E|[-> E]].
  - assert (G : good d (dec_stmt n f d)) by (apply dec_stmt_good; left; lia).
    destruct (dec_stmt n f d) as [[s d']| | |]; simpl in G; try tauto; [|split; discriminate].
    unfold bind. assert (F : fine (dec_top n d')) by (apply IH; lia).
    destruct (dec_top n d'); destruct F as [F1 F2]; split; congruence.
  - rewrite dec_stmt_noncons by (assumption || lia). split; discriminate.
Qed.

Theorem decode_total_no_crash (bs : list byte) :
  decode bs <> OutOfFuel /\ decode bs <> Crash.
Proof. unfold decode, decode_fuel. apply dec_top_fine. unfold len; simpl. lia. Qed.
