(* T tie for the spellings: every token the token model INSERTS is spelled with a word that occurs in
   a string literal of formatter/*.go (Gen/FmtSpell.v, regenerated on every run). *)
From Coq Require Import List Bool Strings.String.
From Falco Require Import Base.Bytes Gen.FmtSpell Model.FmtTok.
Import ListNotations.
Local Open Scope string_scope.

(* the tokens [norm] can insert (Model/FmtNorm.v: AInsBefore t_plus, AReplace [t_unset] / [t_else; t_if],
   t_lparen / t_rparen of return, AInsSplit t_comma), with the word each is spelled by *)
Definition inserted : list (tok * string) :=
  [ (t_plus, "+"); (t_unset, "unset"); (t_else, "else"); (t_if, "if"); (t_lparen, "("); (t_rparen, ")"); (t_comma, ",") ].

Definition word_known (w : string) : bool := existsb (String.eqb w) fmt_go_words.

Theorem inserted_spellings_documented :
  forall t w, In (t, w) inserted -> tl t = bs w /\ word_known w = true.
Proof.
  intros t w H. repeat (destruct H as [H|H]; [inversion H; subst; split; reflexivity|]). destruct H.
Qed.

(* non-vacuity: the list is the one above, and a word the formatter does not write is rejected *)
Example inserted_count : List.length inserted = 7. Proof. reflexivity. Qed.
Example unknown_word : word_known "elseif" = false. Proof. reflexivity. Qed.
