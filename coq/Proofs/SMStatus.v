(* C06: the report is faithful for EVERY request of EVERY history; the status the client sees after
   `error <code>`; explicit endings for "vcl_log last and exactly once". *)
From Coq Require Import List ZArith NArith Bool Arith Lia.
From Falco Require Import Base.Res Base.SMBase Gen.SMConst Model.SM Model.SMDoc Proofs.SMBasics Proofs.SMPath
  Proofs.SMCache Proofs.SMReport Proofs.SMExamples.
Import ListNotations.

Definition faithful (r : report) : Prop :=
  (r_cached r = true <-> last_branch (r_trace r) XNone = XHit) /\
  (forall x, r_xcache r = Some x -> x = last_branch (r_trace r) XNone) /\
  (forall h, r_xhits r = Some h -> 0 < h -> last_branch (r_trace r) XNone = XHit) /\
  (r_error r = false -> r_xcache r <> None).

(* every request of every history, whatever state the earlier requests left *)
Lemma history_report_faithful h : forall p rs p',
  Forall (fun oq => q_backend (snd oq) = true) h ->
  run_history h p = OK (rs, p') -> Forall faithful rs.
Proof.
  induction h as [|[orc q] h IH]; intros p rs p' Hb Hr; cbn [run_history] in Hr.
  - inversion Hr; constructor.
  - destruct (run_request orc p q) as [[r p1]| | |] eqn:E1; try discriminate.
    destruct (run_history h p1) as [[rs1 p2]| | |] eqn:E2; try discriminate.
    inversion Hr; subst. inversion Hb as [|? ? Hb1 Hb2]; subst. constructor.
    + exact (report_faithful orc p q r p1 Hb1 E1).
    + exact (IH p1 rs1 p' Hb2 E2).
Qed.

(* every request of every history without reported error ran vcl_log exactly once, and last *)
Lemma history_log_last_once h : forall p rs p',
  run_history h p = OK (rs, p') ->
  Forall (fun r => r_error r = false ->
                   (exists tr k a, r_trace r = tr ++ [(DLog, k, a)] /\ doc_next DLog a = Some TEnd) /\
                   count_log (r_trace r) = 1) rs.
Proof.
  induction h as [|[orc q] h IH]; intros p rs p' Hr; cbn [run_history] in Hr.
  - inversion Hr; constructor.
  - destruct (run_request orc p q) as [[r p1]| | |] eqn:E1; try discriminate.
    destruct (run_history h p1) as [[rs1 p2]| | |] eqn:E2; try discriminate.
    inversion Hr; subst. constructor.
    + exact (log_last_once orc p q r p1 E1).
    + exact (IH p1 rs1 p' E2).
Qed.

(* ---- the status of the synthetic object ---- *)
Definition is_error (e : event) : bool := match fst (fst e) with DError => true | _ => false end.

Definition TI (_ : node) (c : ctx) (_ : persistent) : Prop :=
  (c_errobj c <> None -> existsb is_error (c_trace c) = true) /\
  (c_respstatus c <> None -> existsb is_error (c_trace c) = true).
Definition TF (c : ctx) (_ : persistent) (_ : bool) : Prop :=
  c_respstatus c <> None -> existsb is_error (c_trace c) = true.

Lemma step_status orc q n c p c' p' nx :
  TI n c p -> step orc q n c p = (c', p', nx) ->
  match nx with Goto n' => TI n' c' p' | Done => TF c' p' false | Fail => TF c' p' true end.
Proof.
  intros [H1 H2] H. unfold TI, TF.
  destruct n; step_cases H; psimpl; cbn [existsb is_error fst orb];
    repeat split; intros Hx; try (exfalso; apply Hx; reflexivity); try reflexivity;
    try (apply H1; assumption); try (apply H2; assumption);
    try (destruct (c_obj c); [apply H1; assumption | exfalso; apply Hx; reflexivity]).
Qed.

(* a status is reported for the synthetic object of vcl_error only ... *)
Lemma status_only_after_error orc p q rep p' k :
  run_request orc p q = OK (rep, p') -> r_status rep = Some k ->
  existsb is_error (r_trace rep) = true.
Proof.
  unfold run_request. destruct (run sm_fuel orc q NRecv ctx0 p) as [[[c p1] e]| | |] eqn:E; try discriminate.
  intros H; inversion H; subst; cbn [r_trace r_status]. intros Hs. rewrite existsb_rev.
  assert (HF : TF c p' e).
  { apply (run_inv TI TF orc q (step_status orc q)) with (2 := E). unfold TI. cbn. split; intros Hx; exfalso; apply Hx; reflexivity. }
  apply HF. destruct (c_resp c); [rewrite Hs; discriminate|discriminate].
Qed.

(* ... and it is the status obj.status has when ProcessError builds the object: the code of the last
   `error <code>;` that passed its scope guard in this request, 500 if there was none *)
Lemma error_object_status orc q c p c' p' nx :
  process_error orc q c p = (c', p', nx) -> nx <> Goto NRecv -> c_errobj c' = Some (c_objstatus c).
Proof.
  intros H Hn. unfold process_error, call, run_sub, do_restart in H. cbn [scope_of] in H.
  dmatch H; try discriminate H; injection H as ? ? ?; subst; psimpl; try reflexivity; exfalso; apply Hn; reflexivity.
Qed.

(* ---- explicit endings ---- *)
Definition q_code (k : option nat) : request :=
  mkQ 1000 (fun _ => 5%N) true (fun _ => Some (true, 10000%Z)) (fun _ => None) (fun _ => []) (fun _ _ => k).

(* `error <code>` then deliver: the client sees the code, also below 200 and above 599; `return(error)`
   (no error statement) and `error;` leave obj.status at its initial 500 *)
Example ex_error_status :
  let err := fun sc (_ : nat) => match sc with Recv => AErrorStmt | _ => ANone end in
  match run_history [(err, q_code (Some 150)); (err, q_code (Some 999)); (err, q_code None);
                     ((fun sc _ => match sc with Recv => ARet SError | _ => ANone end), q_code (Some 601))] init with
  | OK ([r1; r2; r3; r4], _) =>
      r_status r1 = Some 150 /\ r_status r2 = Some 999 /\ r_status r3 = Some 500 /\ r_status r4 = Some 500 /\
      r_flows r1 = [Recv; Error; Deliver; Log] /\ r_xcache r1 = Some XNone /\ r_cached r1 = false /\ r_error r1 = false
  | _ => False
  end.
Proof. vm_compute. repeat split; reflexivity. Qed.

(* three restarts from vcl_deliver, then `error 503` in the last vcl_recv: vcl_error, deliver, and vcl_log
   exactly once and last; X-Cache is the branch of the last lookup (HIT on the object fetched in round 0) *)
Example ex_error_after_restarts :
  match run_request (fun sc r => match sc, r with
                                 | Deliver, (0 | 1 | 2) => ARet SRestart
                                 | Recv, 3 => AErrorStmt
                                 | _, _ => ANone end) init (q_code (Some 503)) with
  | OK (r, _) => r_restarts r = 3 /\ r_error r = false /\ r_status r = Some 503 /\ count_log (r_trace r) = 1 /\
                 last (r_flows r) Recv = Log /\ r_xcache r = Some XHit /\ r_cached r = true
  | _ => False
  end.
Proof. vm_compute. repeat split; reflexivity. Qed.

(* the endings WITH a reported error run no vcl_log at all: a fourth restart, an `error` statement in
   vcl_deliver (outside its scopes), a failing statement in vcl_error *)
Example ex_error_endings :
  let run := fun orc => match run_request orc init (q_code (Some 601)) with
                        | OK (r, _) => Some (r_error r, count_log (r_trace r), r_restarts r) | _ => None end in
  run (fun sc _ => match sc with Deliver => ARestartStmt | _ => ANone end) = Some (true, 0, 3) /\
  run (fun sc _ => match sc with Deliver => AErrorStmt | _ => ANone end) = Some (true, 0, 0) /\
  run (fun sc _ => match sc with Recv => AErrorStmt | Error => AFail | _ => ANone end) = Some (true, 0, 0) /\
  run (fun sc _ => match sc with Fetch => AErrorStmt | Error => ARet SRestart | _ => ANone end) = Some (true, 0, 3).
Proof. vm_compute. repeat split; reflexivity. Qed.
