(* C13 - concrete witnesses: the theorems' hypotheses are satisfiable and their conclusions are
   not trivial; and on the model of the tree BEFORE the two repairs they are false. *)
From Coq Require Import List NArith ZArith Bool Lia.
From Falco Require Import Base.Res Base.Bytes Model.StoreSyntax Model.Store Model.StoreOps
  Proofs.StoreHeap Proofs.StoreInv Proofs.StoreMain Proofs.StoreFrame.
Import ListNotations.
Local Open Scope Z_scope.

(* declare local var.v0 INTEGER; declare local var.v1 INTEGER; set var.v0 = 5; *)
Definition prog_ab : list stmt :=
  [SDeclare 0 TInt None; SDeclare 1 TInt None; SSet (NLocal 0) AEq (ELit (VInt 5 true))].
Definition σ_ab : state :=
  {| heap := [VInt 5 false; VInt 0 false; VInt 5 true]; locals := [(1%N, 1%nat); (0%N, 0%nat)]; globals := [];
     groups := []; hdrs := []; logs := []; depth := 0; trace := [] |}.

Lemma reach_ab : exists o σ, run_main repaired std_ops [] 20 prog_ab (init_state []) = OK (o, σ)
                             /\ set_trace [] σ = σ_ab.
Proof. vm_compute. do 2 eexists. split; reflexivity. Qed.

Lemma wf_ab : wf σ_ab.
Proof.
  destruct reach_ab as (o & σ & H & E). rewrite <- E.
  eapply wf_same; [| | | | eapply run_main_wf; [apply init_wf | exact H]]; reflexivity.
Qed.

(* sub f0(INTEGER var.v10) { set var.v10 = 99; } *)
Definition sub_f0 : sub :=
  {| s_params := [(10%N, TInt)]; s_ret := None; s_body := [SSet (NLocal 10) AEq (ELit (VInt 99 true))] |}.
Definition prog_f0 : program := [(0%N, sub_f0)].

(* set var.v1 = -var.v0;  in the repaired interpreter: var.v1 = -5, var.v0 still 5 *)
Lemma set_neg_example :
  exists σ', exec repaired std_ops [] 10 false (SSet (NLocal 1) AEq (ENeg (EVar (NLocal 0)))) σ_ab = OK (ONorm, σ')
    /\ read σ' (NLocal 1) = Some (VInt (-5) false) /\ read σ' (NLocal 0) = Some (VInt 5 false).
Proof. vm_compute. eexists. repeat split; reflexivity. Qed.

(* set var.v1 = -(if(true, +var.v0, 3));  the operand of the minus is var.v0's own cell reached through a
   group, an if() expression and a unary plus: the repaired interpreter still leaves var.v0 alone *)
Definition shaped_neg : expr :=
  ENeg (EGroup (EIf (ELit (VBool true true)) (EPos (EVar (NLocal 0))) (ELit (VInt 3 true)))).
Lemma set_neg_shapes_example :
  exists σ', exec repaired std_ops [] 10 false (SSet (NLocal 1) AEq shaped_neg) σ_ab = OK (ONorm, σ')
    /\ read σ' (NLocal 1) = Some (VInt (-5) false) /\ read σ' (NLocal 0) = Some (VInt 5 false).
Proof. vm_compute. eexists. repeat split; reflexivity. Qed.

(* ... and before the repair it did not *)
Lemma neg_in_place_shapes_refutes :
  exists l σ', eval original std_ops [] 10 lvar_mode shaped_neg σ_ab = OK (l, σ') /\
               read σ' (NLocal 0) <> read σ_ab (NLocal 0).
Proof. eexists _, _. split; [vm_compute; reflexivity|]. vm_compute. discriminate. Qed.

(* call f0(var.v0);  the callee assigns 99 to its parameter: var.v0 is still 5 *)
Lemma call_example :
  exists σ', exec repaired std_ops prog_f0 10 false (SCall 0 [EVar (NLocal 0)]) σ_ab = OK (ONorm, σ')
    /\ read σ' (NLocal 0) = Some (VInt 5 false) /\ length (heap σ') = 5%nat.
Proof. vm_compute. eexists. repeat split; reflexivity. Qed.

(* switch (var.v0) { case "5": set var.v1 = 1; fallthrough;  default: set var.v1 += 2; break; }
   the control is "5": the first case matches and falls through into the default: var.v1 = 3, var.v0 = 5 *)
Definition sw_example : stmt :=
  SSwitch (EVar (NLocal 0))
    [ (CStr [Byte.x35], [SSet (NLocal 1) AEq (ELit (VInt 1 true)); SNop], true);
      (CDefault, [SSet (NLocal 1) AAdd (ELit (VInt 2 true)); SNop], false) ] (Some 1%nat).
Lemma switch_example :
  exists σ', exec repaired std_ops [] 20 false sw_example σ_ab = OK (ONorm, σ')
    /\ read σ' (NLocal 1) = Some (VInt 3 false) /\ read σ' (NLocal 0) = Some (VInt 5 false).
Proof. vm_compute. eexists. repeat split; reflexivity. Qed.

(* sub f1 { set var.v20 ... ; return(lookup); }   call f1; set var.v1 = 9;
   the state travels through the call: the statement after the call does not run *)
Definition sub_f1 : sub := {| s_params := []; s_ret := None; s_body := [SReturnState 7; SSet (NLocal 1) AEq (ELit (VInt 8 true))] |}.
Lemma return_state_example :
  exists σ', run_main repaired std_ops [(1%N, sub_f1)] 20 [SCall 1 []; SSet (NLocal 1) AEq (ELit (VInt 9 true))] σ_ab
             = OK (OState 7, σ')
    /\ read σ' (NLocal 1) = Some (VInt 0 false) /\ locals σ' = locals σ_ab.
Proof. vm_compute. eexists. repeat split; reflexivity. Qed.

(* set req.http.h0:k1 = "x";  set req.http.h0:k2 = "y";  then h0 reads "k1=x,k2=y", h1 is untouched *)
Definition field_example_stmt : Prop :=
  match exec repaired std_ops [] 20 false (SSet (NField 0 0 1) AEq (ELit (VStr [Byte.x78] false true))) σ_ab with
  | OK (ONorm, σ1) =>
    match exec repaired std_ops [] 20 false (SSet (NField 0 0 2) AEq (ELit (VStr [Byte.x79] false true))) σ1 with
    | OK (ONorm, σ2) =>
        read σ2 (NHeader 0 0) = Some (VStr [Byte.x6b; Byte.x31; Byte.x3d; Byte.x78; Byte.x2c; Byte.x6b; Byte.x32; Byte.x3d; Byte.x79] false false) /\
        read σ2 (NField 0 0 1) = Some (VStr [Byte.x78] false false) /\
        read σ2 (NField 0 0 2) = Some (VStr [Byte.x79] false false) /\
        read σ2 (NHeader 0 1) = Some (VStr [] true false)
    | _ => False
    end
  | _ => False
  end.
Lemma field_example : field_example_stmt.
Proof. vm_compute. repeat split; reflexivity. Qed.

(* error 503 "gone";  with ctx.ObjectStatus / ctx.ObjectResponse as ctx cells 0 / 1: they become 503 / "gone",
   var.v0 keeps 5, the statement ends with the state error *)
Definition σ_err : state :=
  {| heap := [VInt 500 false; VStr [] true false; VInt 5 false]; locals := [(0%N, 2%nat)];
     globals := [(0%N, 0%nat); (1%N, 1%nat)]; groups := []; hdrs := []; logs := []; depth := 0; trace := [] |}.
Definition error_example_stmt : Prop :=
  match exec repaired std_ops [] 20 false
          (SError true 0 1 (Some (ELit (VInt 503 true))) (Some (ELit (VStr [Byte.x67] false true)))) σ_err with
  | OK (OState st, σ') =>
      st = st_error /\ read σ' (NGlobal 0) = Some (VInt 503 false) /\
      read σ' (NGlobal 1) = Some (VStr [Byte.x67] false false) /\ read σ' (NLocal 0) = Some (VInt 5 false)
  | _ => False
  end.
Lemma error_example : error_example_stmt.
Proof. vm_compute. repeat split; reflexivity. Qed.

(* add req.http.h0 = "x"; add req.http.h0 = "y";  the header reads "x" (the first value), h1 is untouched *)
Definition add_example_stmt : Prop :=
  match exec repaired std_ops [] 20 false (SAdd 0 0 (ELit (VStr [Byte.x78] false true))) σ_ab with
  | OK (ONorm, σ1) =>
    match exec repaired std_ops [] 20 false (SAdd 0 0 (ELit (VStr [Byte.x79] false true))) σ1 with
    | OK (ONorm, σ2) => read σ2 (NHeader 0 0) = Some (VStr [Byte.x78] false false) /\
                        read σ2 (NHeader 0 1) = Some (VStr [] true false)
    | _ => False
    end
  | _ => False
  end.
Lemma add_example : add_example_stmt.
Proof. vm_compute. repeat split; reflexivity. Qed.

(* unset <obj 0>.http.H*;  with ha = "x", hb = "y" on object 0 and ha = "z" on object 1: both headers of
   object 0 go (the prefix is compared case-folded), object 1 keeps its own; with the prefix "hA" only ha goes *)
Definition σ_wild : state :=
  {| heap := [VInt 5 false]; locals := [(0%N, 0%nat)]; globals := []; groups := [];
     hdrs := [((0%N, 0%N), [Byte.x78]); ((0%N, 1%N), [Byte.x79]); ((1%N, 0%N), [Byte.x7a])];
     logs := []; depth := 0; trace := [] |}.
Definition unset_wildcard_example_stmt : Prop :=
  match exec repaired std_ops [] 20 false (SUnsetWild 0 [Byte.x48]) σ_wild,
        exec repaired std_ops [] 20 false (SUnsetWild 0 [Byte.x68; Byte.x41]) σ_wild with
  | OK (ONorm, σ1), OK (ONorm, σ2) =>
      read σ1 (NHeader 0 0) = Some (VStr [] true false) /\ read σ1 (NHeader 0 1) = Some (VStr [] true false) /\
      read σ1 (NHeader 1 0) = Some (VStr [Byte.x7a] false false) /\ read σ1 (NLocal 0) = Some (VInt 5 false) /\
      read σ2 (NHeader 0 0) = Some (VStr [] true false) /\ read σ2 (NHeader 0 1) = Some (VStr [Byte.x79] false false)
  | _, _ => False
  end.
Lemma unset_wildcard_example : unset_wildcard_example_stmt.
Proof. vm_compute. repeat split; reflexivity. Qed.

(* synthetic "g";  with the response body as ctx cell 1: it becomes "g"; ctx cell 0 and var.v0 keep their values *)
Definition synthetic_example_stmt : Prop :=
  match exec repaired std_ops [] 20 false (SSynthetic 1 (ELit (VStr [Byte.x67] false true))) σ_err with
  | OK (ONorm, σ') =>
      read σ' (NGlobal 1) = Some (VStr [Byte.x67] false false) /\
      read σ' (NGlobal 0) = Some (VInt 500 false) /\ read σ' (NLocal 0) = Some (VInt 5 false)
  | _ => False
  end.
Lemma synthetic_example : synthetic_example_stmt.
Proof. vm_compute. repeat split; reflexivity. Qed.

(* BEFORE the repair of unary minus: evaluating -var.v0 changes var.v0 *)
Lemma neg_in_place_refutes :
  exists n m e σ l σ',
    wf σ /\ pure e = true /\ eval original std_ops [] n m e σ = OK (l, σ') /\
    exists x, is_group x = false /\ read σ' x <> read σ x.
Proof.
  exists 5%nat, dflt_mode, (ENeg (EVar (NLocal 0))), σ_ab. eexists _, _.
  split; [apply wf_ab|]. split; [reflexivity|]. split; [vm_compute; reflexivity|].
  exists (NLocal 0). split; [reflexivity|]. vm_compute. discriminate.
Qed.

(* BEFORE the repair of parameter passing: the callee's `set` on its parameter reaches the caller *)
Lemma param_alias_refutes :
  exists Pg n sb args σ r σ',
    wf σ /\ call original std_ops Pg n sb args σ = OK (r, σ') /\
    exists k, read σ' (NLocal k) <> read σ (NLocal k).
Proof.
  exists prog_f0, 10%nat, sub_f0, [0%nat], σ_ab. eexists _, _.
  split; [apply wf_ab|]. split; [vm_compute; reflexivity|].
  exists 0%N. vm_compute. discriminate.
Qed.

(* ---- opaque values: TIME / IP / BACKEND / ACL are cells whose content the model copies and never inspects ----
   declare local var.v0 BACKEND (= "F_a"); declare local var.v1 BACKEND (= "F_b");
   sub f1(BACKEND var.v10) { set var.v10 = var.v11; }  with var.v11 a BACKEND local of the callee ("F_c") *)
Definition σ_op : state :=
  {| heap := [VOpaque 2 [Byte.x61]; VOpaque 2 [Byte.x62]]; locals := [(1%N, 1%nat); (0%N, 0%nat)]; globals := [];
     groups := []; hdrs := []; logs := []; depth := 0; trace := [] |}.
Definition sub_fop : sub :=
  {| s_params := [(10%N, TOpaque 2)]; s_ret := None;
     s_body := [SDeclare 11 (TOpaque 2) None; SSet (NLocal 10) AEq (EVar (NLocal 11))] |}.
Definition prog_fop : program := [(1%N, sub_fop)].

(* set var.v1 = var.v0;  copies the BACKEND value: var.v1 reads "a", var.v0 still "a", two distinct cells;
   call f1(var.v0);  the callee overwrites its parameter: var.v0 still reads "a" *)
Definition opaque_example_stmt : Prop :=
  match exec repaired std_ops prog_fop 10 false (SSet (NLocal 1) AEq (EVar (NLocal 0))) σ_op,
        exec repaired std_ops prog_fop 10 false (SCall 1 [EVar (NLocal 0)]) σ_op with
  | OK (ONorm, σ1), OK (ONorm, σ2) =>
      read σ1 (NLocal 1) = Some (VOpaque 2 [Byte.x61]) /\ read σ1 (NLocal 0) = Some (VOpaque 2 [Byte.x61]) /\
      loc_of σ1 (NLocal 0) <> loc_of σ1 (NLocal 1) /\
      read σ2 (NLocal 0) = Some (VOpaque 2 [Byte.x61]) /\ read σ2 (NLocal 1) = Some (VOpaque 2 [Byte.x62])
  | _, _ => False
  end.
Lemma opaque_example : opaque_example_stmt.
Proof. vm_compute. repeat split; try reflexivity. discriminate. Qed.

(* BEFORE the repair of parameter passing the same call changes the caller's BACKEND local (no conversion is
   needed for an opaque argument, so the callee got the caller's own cell) *)
Lemma param_alias_opaque_refutes :
  exists r σ', call original std_ops prog_fop 10 sub_fop [0%nat] σ_op = OK (r, σ') /\
               read σ' (NLocal 0) <> read σ_op (NLocal 0).
Proof. eexists _, _. split; [vm_compute; reflexivity|]. vm_compute. discriminate. Qed.

