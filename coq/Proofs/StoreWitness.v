(* C13 - concrete witnesses: the theorems' hypotheses are satisfiable and their conclusions are
   not trivial; and on the model of the tree BEFORE the two repairs they are false. *)
From Coq Require Import List NArith ZArith Bool Lia.
From Falco Require Import Base.Res Base.Bytes Model.StoreSyntax Model.Store Model.StoreOps
  Proofs.StoreHeap Proofs.StoreInv Proofs.StoreMain Proofs.StoreFrame.
Import ListNotations.
Local Open Scope Z_scope.

(* declare local var.v0 INTEGER; declare local var.v1 INTEGER; set var.v0 = 5; *)
Definition prog_ab : list stmt :=
  [SDeclare 0 TInt None; SDeclare 1 TInt None; SSet (NLocal 0) AEq (ELit (VInt 5 true))].
Definition σ_ab : state :=
  {| heap := [VInt 5 false; VInt 0 false; VInt 5 true]; locals := [(1%N, 1%nat); (0%N, 0%nat)]; globals := [];
     groups := []; hdrs := []; logs := []; depth := 0; trace := [] |}.

Lemma reach_ab : exists o σ, run_main repaired std_ops [] 20 prog_ab (init_state []) = OK (o, σ)
                             /\ set_trace [] σ = σ_ab.
Proof. vm_compute. do 2 eexists. split; reflexivity. Qed.

Lemma wf_ab : wf σ_ab.
Proof.
  destruct reach_ab as (o & σ & H & E). rewrite <- E.
  eapply wf_same; [| | | | eapply run_main_wf; [apply init_wf | exact H]]; reflexivity.
Qed.

(* sub f0(INTEGER var.v10) { set var.v10 = 99; } *)
Definition sub_f0 : sub :=
  {| s_params := [(10%N, TInt)]; s_ret := None; s_body := [SSet (NLocal 10) AEq (ELit (VInt 99 true))] |}.
Definition prog_f0 : program := [(0%N, sub_f0)].

(* set var.v1 = -var.v0;  in the repaired interpreter: var.v1 = -5, var.v0 still 5 *)
Lemma set_neg_example :
  exists σ', exec repaired std_ops [] 10 false (SSet (NLocal 1) AEq (ENeg (EVar (NLocal 0)))) σ_ab = OK (ONorm, σ')
    /\ read σ' (NLocal 1) = Some (VInt (-5) false) /\ read σ' (NLocal 0) = Some (VInt 5 false).
Proof. vm_compute. eexists. repeat split; reflexivity. Qed.

(* set var.v1 = -(if(true, +var.v0, 3));  the operand of the minus is var.v0's own cell reached through a
   group, an if() expression and a unary plus: the repaired interpreter still leaves var.v0 alone *)
Definition shaped_neg : expr :=
  ENeg (EGroup (EIf (ELit (VBool true true)) (EPos (EVar (NLocal 0))) (ELit (VInt 3 true)))).
Lemma set_neg_shapes_example :
  exists σ', exec repaired std_ops [] 10 false (SSet (NLocal 1) AEq shaped_neg) σ_ab = OK (ONorm, σ')
    /\ read σ' (NLocal 1) = Some (VInt (-5) false) /\ read σ' (NLocal 0) = Some (VInt 5 false).
Proof. vm_compute. eexists. repeat split; reflexivity. Qed.

(* ... and before the repair it did not *)
Lemma neg_in_place_shapes_refutes :
  exists l σ', eval original std_ops [] 10 lvar_mode shaped_neg σ_ab = OK (l, σ') /\
               read σ' (NLocal 0) <> read σ_ab (NLocal 0).
Proof. eexists _, _. split; [vm_compute; reflexivity|]. vm_compute. discriminate. Qed.

(* call f0(var.v0);  the callee assigns 99 to its parameter: var.v0 is still 5 *)
Lemma call_example :
  exists σ', exec repaired std_ops prog_f0 10 false (SCall 0 [EVar (NLocal 0)]) σ_ab = OK (ONorm, σ')
    /\ read σ' (NLocal 0) = Some (VInt 5 false) /\ length (heap σ') = 5%nat.
Proof. vm_compute. eexists. repeat split; reflexivity. Qed.

(* BEFORE the repair of unary minus: evaluating -var.v0 changes var.v0 *)
Lemma neg_in_place_refutes :
  exists n m e σ l σ',
    wf σ /\ pure e = true /\ eval original std_ops [] n m e σ = OK (l, σ') /\
    exists x, is_group x = false /\ read σ' x <> read σ x.
Proof.
  exists 5%nat, dflt_mode, (ENeg (EVar (NLocal 0))), σ_ab. eexists _, _.
  split; [apply wf_ab|]. split; [reflexivity|]. split; [vm_compute; reflexivity|].
  exists (NLocal 0). split; [reflexivity|]. vm_compute. discriminate.
Qed.

(* BEFORE the repair of parameter passing: the callee's `set` on its parameter reaches the caller *)
Lemma param_alias_refutes :
  exists Pg n sb args σ r σ',
    wf σ /\ call original std_ops Pg n sb args σ = OK (r, σ') /\
    exists k, read σ' (NLocal k) <> read σ (NLocal k).
Proof.
  exists prog_f0, 10%nat, sub_f0, [0%nat], σ_ab. eexists _, _.
  split; [apply wf_ab|]. split; [vm_compute; reflexivity|].
  exists 0%N. vm_compute. discriminate.
Qed.
