(* One NextToken call of Model/Lex.v: it always returns a token (never OutOfFuel / Crash / Err)
   when nu st < fuel; the token has one of the declared token types; and either the token is
   EOF or the lexer made progress (next_token_ok).  Then the token loop (lex_loop_ok). *)
From Coq Require Import List NArith Bool Lia Arith.
From Falco Require Import Base.Res Base.Bytes Base.Utf8 Gen.Tokens Model.Lex Model.LexSpec
  Proofs.LexTables Proofs.LexProgress.
Import ListNotations.
Local Open Scope N_scope.

Definition typed (t : token) : Prop := str_in (ttype t) all_types = true.

(* queue entries are typed; once the end was seen, the remembered token is an EOF token *)
Definition wf (st : lexer) : Prop :=
  Forall typed (peeks st) /\ (iseof st = true -> is_eof (eoftok st) = true /\ typed (eoftok st)).

(* a fresh non-EOF token was produced from [st] (whose queue was empty) *)
Definition fresh_ok (st : lexer) (t : token) (st' : lexer) : Prop :=
  (nu st' < nu st)%nat /\ typed t /\ iseof st' = iseof st /\ eoftok st' = eoftok st /\
  (peeks st' = [] \/ (ch st = 123 /\ exists a b, peeks st' = [a; b] /\ typed a /\ typed b)).

Lemma finish_nu t st1 :
  exists st', finish t st1 = OK (t, st') /\ le_st st' st1 /\ (ch st1 <> 0 -> (nu st' < nu st1)%nat).
Proof.
  unfold finish. destruct (ch st1 =? 0) eqn:E.
  - exists st1. split; [reflexivity|]. split; [apply le_refl|].
    apply N.eqb_eq in E. congruence.
  - exists (read_char st1). split; [reflexivity|]. split; [apply read_char_le|].
    intros H. apply read_char_lt. exact H.
Qed.

(* finishing on a state [st1] reached from [st] *)
Lemma finish_fresh t st st1 :
  le_st st1 st -> (ch st1 = 0 -> (nu st1 < nu st)%nat) -> typed t -> peeks st = [] ->
  exists st', finish t st1 = OK (t, st') /\ fresh_ok st t st'.
Proof.
  intros L Hz Ht Hp.
  destruct (finish_nu t st1) as (st' & F & L' & S').
  exists st'. split; [exact F|].
  destruct L as [Ln (A1 & A2 & A3)]. destruct L' as [Ln' (B1 & B2 & B3)].
  unfold fresh_ok. repeat split; try congruence.
  - destruct (N.eq_dec (ch st1) 0) as [E|E]; [specialize (Hz E)|specialize (S' E)]; lia.
  - left. congruence.
Qed.

Ltac ty := unfold typed; cbn [ttype]; vm_compute; reflexivity.

Lemma single_ok st ln i ty_ :
  ch st <> 0 -> peeks st = [] -> str_in ty_ all_types = true ->
  exists t st', single st ln i ty_ = OK (t, st') /\ fresh_ok st t st'.
Proof.
  intros Hc Hp Ht. unfold single.
  destruct (finish_fresh (mkTok ty_ [ch st] ln i) st st) as (st' & F & K);
    [apply le_refl|congruence|exact Ht|exact Hp|eauto].
Qed.

Lemma after_read_fresh t st :
  ch st <> 0 -> typed t -> peeks st = [] ->
  exists st', finish t (read_char st) = OK (t, st') /\ fresh_ok st t st'.
Proof.
  intros Hc Ht Hp. apply finish_fresh; auto using read_char_le.
  intros _. apply read_char_lt. exact Hc.
Qed.

Lemma after_read2_fresh t st :
  ch st <> 0 -> typed t -> peeks st = [] ->
  exists st', finish t (read_char (read_char st)) = OK (t, st') /\ fresh_ok st t st'.
Proof.
  intros Hc Ht Hp. apply finish_fresh; auto.
  - eapply le_trans; apply read_char_le.
  - intros _. pose proof (read_char_lt st Hc). pose proof (read_char_le (read_char st)) as [L _]. lia.
Qed.

Lemma same_fresh t st :
  ch st <> 0 -> typed t -> peeks st = [] ->
  exists st', finish t st = OK (t, st') /\ fresh_ok st t st'.
Proof.
  intros Hc Ht Hp. apply finish_fresh; auto using le_refl. congruence.
Qed.

Lemma op_eq_ok st ln i ty1 ty2 :
  ch st <> 0 -> peeks st = [] -> str_in ty1 all_types = true -> str_in ty2 all_types = true ->
  exists t st', op_eq st ln i ty1 ty2 = OK (t, st') /\ fresh_ok st t st'.
Proof.
  intros Hc Hp H1 H2. unfold op_eq. destruct (peek_char st =? 61).
  - edestruct after_read_fresh as (st' & F & K); [exact Hc| |exact Hp|eauto]. exact H2.
  - edestruct same_fresh as (st' & F & K); [exact Hc| |exact Hp|eauto]. exact H1.
Qed.

Lemma illegal_typed : str_in T_ILLEGAL all_types = true.
Proof. vm_compute. reflexivity. Qed.

Lemma op_dbl_ok st ln i ty2 ty3 tyeq :
  ch st <> 0 -> peeks st = [] -> str_in ty2 all_types = true -> str_in ty3 all_types = true ->
  str_in tyeq all_types = true ->
  exists t st', op_dbl st ln i ty2 ty3 tyeq = OK (t, st') /\ fresh_ok st t st'.
Proof.
  intros Hc Hp H2 H3 He. unfold op_dbl. destruct (peek_char st =? ch st).
  - destruct (peek_char (read_char st) =? 61).
    + edestruct after_read2_fresh as (st' & F & K); [exact Hc| |exact Hp|eauto]. exact H3.
    + edestruct after_read_fresh as (st' & F & K); [exact Hc| |exact Hp|eauto]. exact H2.
  - destruct (peek_char st =? 61).
    + edestruct after_read_fresh as (st' & F & K); [exact Hc| |exact Hp|eauto]. exact He.
    + edestruct same_fresh as (st' & F & K); [exact Hc| |exact Hp|eauto]. exact illegal_typed.
Qed.

Lemma op_shift_ok st ln i ty1 ty3 tyeq :
  ch st <> 0 -> peeks st = [] -> str_in ty1 all_types = true -> str_in ty3 all_types = true ->
  str_in tyeq all_types = true ->
  exists t st', op_shift st ln i ty1 ty3 tyeq = OK (t, st') /\ fresh_ok st t st'.
Proof.
  intros Hc Hp H1 H3 He. unfold op_shift. destruct (peek_char st =? ch st).
  - destruct (peek_char (read_char st) =? 61).
    + edestruct after_read2_fresh as (st' & F & K); [exact Hc| |exact Hp|eauto]. exact H3.
    + edestruct after_read_fresh as (st' & F & K); [exact Hc| |exact Hp|eauto]. exact illegal_typed.
  - destruct (peek_char st =? 61).
    + edestruct after_read_fresh as (st' & F & K); [exact Hc| |exact Hp|eauto]. exact He.
    + edestruct same_fresh as (st' & F & K); [exact Hc| |exact Hp|eauto]. exact H1.
Qed.

Lemma lex_bang_ok st ln i :
  ch st <> 0 -> peeks st = [] ->
  exists t st', lex_bang st ln i = OK (t, st') /\ fresh_ok st t st'.
Proof.
  intros Hc Hp. unfold lex_bang. destruct (peek_char st =? 61).
  - edestruct after_read_fresh as (st' & F & K); [exact Hc| |exact Hp|eauto]. ty.
  - destruct (peek_char st =? 126).
    + edestruct after_read_fresh as (st' & F & K); [exact Hc| |exact Hp|eauto]. ty.
    + apply single_ok; [assumption|assumption|vm_compute; reflexivity].
Qed.

(* a loop result [st1] with st1 = st or st1 below read_char st *)
Lemma eol_fresh t st st1 :
  ch st <> 0 -> peeks st = [] -> typed t -> le_st st1 st ->
  (st1 = st \/ le_st st1 (read_char st)) ->
  exists st', finish t st1 = OK (t, st') /\ fresh_ok st t st'.
Proof.
  intros Hc Hp Ht L D. apply finish_fresh; auto.
  intros Hz. destruct D as [->|[L' _]]; [congruence|].
  pose proof (read_char_lt st Hc). lia.
Qed.

Lemma comment_ok n st ln i :
  (nu st < n)%nat -> ch st <> 0 -> peeks st = [] ->
  exists t st', (do (l, st1) <- read_eol n st; finish (mkTok T_COMMENT l ln i) st1) = OK (t, st')
                /\ fresh_ok st t st'.
Proof.
  intros Hn Hc Hp.
  destruct (read_eol_ok n st) as (l & st1 & R & L & D). { pose proof (nu_rest st). lia. }
  rewrite R. cbn [bind].
  edestruct (eol_fresh (mkTok T_COMMENT l ln i) st st1) as (st' & F & K); eauto. ty.
Qed.

Lemma lex_slash_ok n st ln i :
  (nu st < n)%nat -> ch st <> 0 -> peeks st = [] ->
  exists t st', lex_slash n st ln i = OK (t, st') /\ fresh_ok st t st'.
Proof.
  intros Hn Hc Hp. unfold lex_slash. destruct (peek_char st =? 61).
  { edestruct after_read_fresh as (st' & F & K); [exact Hc| |exact Hp|eauto]. ty. }
  destruct (peek_char st =? 47).
  { apply comment_ok; auto. }
  destruct (peek_char st =? 42).
  { destruct (read_multi_comment_ok n st Hn Hc) as (l & st1 & R & L & S). rewrite R. cbn [bind].
    edestruct (finish_fresh (mkTok T_COMMENT l ln i) st st1) as (st' & F & K); eauto. ty. }
  apply single_ok; [assumption|assumption|vm_compute; reflexivity].
Qed.

Lemma string_ok n st ln i :
  (nu st < n)%nat -> ch st <> 0 -> peeks st = [] ->
  exists t st', (do (l, st1) <- read_string n st; finish (mkTokO T_STRING l ln i 2) st1) = OK (t, st')
                /\ fresh_ok st t st'.
Proof.
  intros Hn Hc Hp.
  destruct (read_string_ok n st Hn Hc) as (l & st1 & R & L & S). rewrite R. cbn [bind].
  edestruct (finish_fresh (mkTokO T_STRING l ln i 2) st st1) as (st' & F & K); eauto. ty.
Qed.

(* ---- the long string ---- *)
Lemma scan_delim_nonempty : forall f bs d, scan_delim f bs = Some d -> d <> [].
Proof.
  induction f as [|f IH]; intros bs d; cbn [scan_delim]; [discriminate|].
  destruct bs as [|b t]; [discriminate|].
  destruct (is_delim (b2n b)).
  - destruct (scan_delim f t); intros [= <-]; discriminate.
  - intros [= <-]. discriminate.
Qed.

Lemma last_byte_some d : d <> [] -> exists q, last_byte d = Some q.
Proof.
  intros H. unfold last_byte. destruct (rev d) eqn:E.
  - apply (f_equal (@rev byte)) in E. rewrite rev_involutive in E. cbn in E. congruence.
  - eauto.
Qed.

Lemma push_tokens_nu st ts : nu (push_tokens st ts) = nu st.
Proof. reflexivity. Qed.

Lemma lex_brace_ok n st ln i :
  (nu st < n)%nat -> ch st = 123 -> peeks st = [] ->
  exists t st', lex_brace n st ln i = OK (t, st') /\ fresh_ok st t st'.
Proof.
  intros Hn H123 Hp. assert (Hc : ch st <> 0) by (rewrite H123; discriminate). unfold lex_brace.
  destruct (peek_until st) as [d|] eqn:P.
  2:{ edestruct same_fresh as (st' & F & K); [exact Hc| |exact Hp|eauto]. ty. }
  unfold peek_until in P. apply scan_delim_nonempty in P.
  destruct (last_byte_some d P) as (q & Q). rewrite Q.
  destruct (negb (b2n q =? 34)).
  { edestruct same_fresh as (st' & F & K); [exact Hc| |exact Hp|eauto]. ty. }
  set (st1 := skip_bytes (length d) st).
  pose proof (skip_bytes_le (length d) st) as L1. fold st1 in L1.
  destruct (read_bracket_string_ok (removelast d) n st1) as (body & st2 & R & L2 & S2).
  { destruct L1. lia. }
  rewrite R. cbn [bind].
  assert (Hlt : (nu st2 < nu st)%nat).
  { destruct (N.eq_dec (ch st1) 0) as [E|E].
    - (* the skip ran past the end: nothing is left *)
      assert (nu st1 < nu st)%nat.
      { unfold st1, skip_bytes, nu in *. cbn [ch rest] in *.
        destruct (Nat.ltb (length (rest st)) (length d)) eqn:B.
        + apply Nat.ltb_lt in B. rewrite skipn_length. cbn.
          apply N.eqb_neq in Hc. rewrite Hc. lia.
        + congruence. }
      destruct L2. lia.
    - specialize (S2 E). destruct L1. lia. }
  set (st3 := push_tokens st2 _).
  destruct (finish_nu (mkTok T_OPEN_LONG_STRING (map b2n (removelast d)) ln i) st3) as (st' & F & L' & _).
  exists (mkTok T_OPEN_LONG_STRING (map b2n (removelast d)) ln i), st'. split; [exact F|].
  destruct L1 as [_ (A1 & A2 & A3)]. destruct L2 as [_ (B1 & B2 & B3)].
  destruct L' as [Ln' (C1 & C2 & C3)].
  unfold fresh_ok. split; [|split; [ty|]].
  - unfold st3 in Ln'. rewrite push_tokens_nu in Ln'. lia.
  - unfold st3, push_tokens, set_peeks in C1, C2, C3. cbn [peeks iseof eoftok] in C1, C2, C3.
    repeat split; try congruence.
    right. split; [exact H123|]. rewrite C1, B1, A1, Hp. cbn [app].
    eexists _, _. split; [reflexivity|]. split; ty.
Qed.

(* ---- identifiers and numbers ---- *)
Lemma keyword_types_ok : forallb (fun kv => str_in (snd kv) all_types) keywords = true.
Proof. vm_compute. reflexivity. Qed.

Lemma lookup_typed l : str_in (lookup_ident l) all_types = true.
Proof.
  unfold lookup_ident.
  destruct (find (fun kv => str_eqb (fst kv) l) keywords) as [kv|] eqn:E.
  - apply find_some in E as [Hin _].
    pose proof keyword_types_ok as K. rewrite forallb_forall in K. apply (K kv Hin).
  - vm_compute. reflexivity.
Qed.

Lemma lex_ident_ok n st ln i :
  (nu st < n)%nat -> is_letter (ch st) = true -> peeks st = [] ->
  exists t st', lex_ident n st ln i = OK (t, st') /\ fresh_ok st t st'.
Proof.
  intros Hn Hl Hp. unfold lex_ident, read_identifier.
  destruct (read_while_ok is_letter nz_letter n st Hn) as (l0 & st1 & R1 & L1 & S1).
  specialize (S1 Hl). rewrite R1. cbn [bind].
  assert (Base : forall t st2, le_st st2 st1 -> typed t -> fresh_ok st t st2).
  { intros t st2 [Ln (A1 & A2 & A3)] Ht. destruct L1 as [Ln1 (B1 & B2 & B3)].
    unfold fresh_ok. repeat split; try congruence; [lia|]. left. congruence. }
  destruct (str_eqb l0 L_default).
  { eexists _, st1. split; [reflexivity|]. apply Base; [apply le_refl|ty]. }
  destruct (ident_more_ok n st1) as (more & st2 & R2 & L2). { destruct L1. lia. }
  rewrite R2. cbn [bind].
  assert (Fin : forall t, typed t -> exists st', finish t st2 = OK (t, st') /\ fresh_ok st t st').
  { intros t Ht. destruct (finish_nu t st2) as (st' & F & L' & _). exists st'. split; [exact F|].
    apply Base; [eapply le_trans; eassumption|exact Ht]. }
  destruct (str_eqb (l0 ++ more) L_rol && (ch st2 =? 61)).
  { edestruct Fin as (st' & F & K); [|eauto]. ty. }
  destruct (str_eqb (l0 ++ more) L_ror && (ch st2 =? 61)).
  { edestruct Fin as (st' & F & K); [|eauto]. ty. }
  eexists _, st2. split; [reflexivity|]. apply Base; [exact L2|]. unfold typed. cbn [ttype].
  apply lookup_typed.
Qed.

Lemma lex_number_ok n st ln i :
  (nu st < n)%nat -> is_decimal (ch st) = true -> peeks st = [] ->
  exists t st', lex_number n st ln i = OK (t, st') /\ fresh_ok st t st'.
Proof.
  intros Hn Hd Hp. unfold lex_number.
  destruct (read_number_ok n st Hn Hd) as ([[num isf] rt] & st1 & R & L1 & S1).
  rewrite R. cbn [bind].
  assert (Base : forall t st2, le_st st2 st1 -> typed t -> fresh_ok st t st2).
  { intros t st2 [Ln (A1 & A2 & A3)] Ht. destruct L1 as [Ln1 (B1 & B2 & B3)].
    unfold fresh_ok. repeat split; try congruence; [lia|]. left. congruence. }
  assert (Fin : forall t stx, le_st stx st1 -> typed t ->
                              exists st', finish t stx = OK (t, st') /\ fresh_ok st t st').
  { intros t stx Lx Ht. destruct (finish_nu t stx) as (st' & F & L' & _). exists st'. split; [exact F|].
    apply Base; [eapply le_trans; eassumption|exact Ht]. }
  destruct (rt && (ch st1 =? 109)).
  { destruct (peek_char st1 =? 115).
    - edestruct (Fin (mkTok T_RTIME (num ++ L_ms) ln i) (read_char st1)) as (st' & F & K);
        [apply read_char_le|ty|eauto].
    - edestruct (Fin (mkTok T_RTIME (num ++ [ch st1]) ln i) st1) as (st' & F & K);
        [apply le_refl|ty|eauto]. }
  destruct (rt && ((ch st1 =? 115) || (ch st1 =? 104) || (ch st1 =? 100) || (ch st1 =? 121))).
  { edestruct (Fin (mkTok T_RTIME (num ++ [ch st1]) ln i) st1) as (st' & F & K);
      [apply le_refl|ty|eauto]. }
  eexists _, st1. split; [reflexivity|]. apply Base; [apply le_refl|].
  destruct isf; ty.
Qed.

Lemma digit_not_dot c : is_digit c = true -> c <> 46 -> is_decimal c = true.
Proof.
  unfold is_digit. intros H Hd. apply orb_true_iff in H as [H|H]; [exact H|].
  apply N.eqb_eq in H. congruence.
Qed.

Lemma lex_default_ok n st ln i :
  (nu st < n)%nat -> ch st <> 0 -> ch st <> 46 -> peeks st = [] ->
  exists t st', lex_default n st ln i = OK (t, st') /\ fresh_ok st t st'.
Proof.
  intros Hn Hc Hdot Hp. unfold lex_default.
  destruct (((ch st =? 67) || (ch st =? 87)) && (peek_char st =? 33)).
  { edestruct after_read_fresh as (st' & F & K); [exact Hc| |exact Hp|eauto]. ty. }
  destruct (is_letter (ch st)) eqn:El.
  { apply lex_ident_ok; auto. }
  destruct (is_digit (ch st)) eqn:Ed.
  { apply lex_number_ok; auto. apply digit_not_dot; auto. }
  apply single_ok; [assumption|assumption|vm_compute; reflexivity].
Qed.

(* ---- the switch on l.char ---- *)
Definition eof_ok (st : lexer) (t : token) (st' : lexer) : Prop :=
  is_eof t = true /\ typed t /\ nu st' = nu st /\ peeks st' = peeks st /\ wf st'.

Lemma eof_token_typed ln i : is_eof (mkTok T_EOF [] ln i) = true /\ typed (mkTok T_EOF [] ln i).
Proof. split; [vm_compute; reflexivity|ty]. Qed.

Lemma lex_eof_ok st ln i :
  wf st -> exists t st', lex_eof st ln i = OK (t, st') /\ eof_ok st t st'.
Proof.
  intros [W1 W2]. unfold lex_eof. destruct (iseof st) eqn:E.
  - destruct (W2 eq_refl) as [E1 E2]. exists (eoftok st), st. split; [reflexivity|].
    unfold eof_ok, wf. repeat split; auto.
  - eexists _, _. split; [reflexivity|].
    destruct (eof_token_typed ln i) as [E1 E2].
    unfold eof_ok, wf. cbn [peeks iseof eoftok]. repeat split; auto.
Qed.

Ltac branch H :=
  match goal with
  | |- context [if ?c =? ?k then _ else _] =>
    destruct (c =? k) eqn:H; [apply N.eqb_eq in H | apply N.eqb_neq in H]
  end.

Lemma lex_char_ok n st :
  (nu st < n)%nat -> peeks st = [] -> wf st ->
  exists t st', lex_char n st = OK (t, st') /\
                ((ch st = 0 /\ eof_ok st t st') \/ (ch st <> 0 /\ fresh_ok st t st')).
Proof.
  intros Hn Hp W. unfold lex_char.
  Ltac nzc := match goal with E : ch ?st = ?k |- ch ?st <> 0 => rewrite E; discriminate end.
  Ltac fresh_by tac :=
    match goal with
    | |- exists t st', ?e = OK (t, st') /\ (_ \/ (_ /\ fresh_ok ?s0 t st')) =>
      let H := fresh in
      assert (H : exists t st', e = OK (t, st') /\ fresh_ok s0 t st') by tac;
      let t0 := fresh "t" in let s1 := fresh "st'" in let F := fresh "F" in let K := fresh "K" in
      destruct H as (t0 & s1 & F & K);
      exists t0, s1; split; [exact F|right; split; [first [nzc|assumption]|exact K]]
    end.
  Ltac tyc := vm_compute; reflexivity.
  branch E. { fresh_by ltac:(apply op_eq_ok; [nzc|assumption|tyc|tyc]). }
  clear E. branch E. { fresh_by ltac:(apply op_eq_ok; [nzc|assumption|tyc|tyc]). }
  clear E. branch E. { fresh_by ltac:(apply lex_brace_ok; [assumption|assumption|assumption]). }
  clear E. branch E. { fresh_by ltac:(apply single_ok; [nzc|assumption|tyc]). }
  clear E. branch E. { fresh_by ltac:(apply single_ok; [nzc|assumption|tyc]). }
  clear E. branch E. { fresh_by ltac:(apply single_ok; [nzc|assumption|tyc]). }
  clear E. branch E. { fresh_by ltac:(apply single_ok; [nzc|assumption|tyc]). }
  clear E. branch E. { fresh_by ltac:(apply single_ok; [nzc|assumption|tyc]). }
  clear E. branch E. { fresh_by ltac:(apply string_ok; [assumption|nzc|assumption]). }
  clear E. branch E. { fresh_by ltac:(apply single_ok; [nzc|assumption|tyc]). }
  clear E. branch Edot. { fresh_by ltac:(apply single_ok; [nzc|assumption|tyc]). }
  branch E. { fresh_by ltac:(apply single_ok; [nzc|assumption|tyc]). }
  clear E. branch E. { fresh_by ltac:(apply lex_slash_ok; [assumption|nzc|assumption]). }
  clear E. branch E. { fresh_by ltac:(apply comment_ok; [assumption|nzc|assumption]). }
  clear E. branch E. { fresh_by ltac:(apply op_dbl_ok; [nzc|assumption|tyc|tyc|tyc]). }
  clear E. branch E. { fresh_by ltac:(apply op_dbl_ok; [nzc|assumption|tyc|tyc|tyc]). }
  clear E. branch E. { fresh_by ltac:(apply op_eq_ok; [nzc|assumption|tyc|tyc]). }
  clear E. branch E. { fresh_by ltac:(apply op_eq_ok; [nzc|assumption|tyc|tyc]). }
  clear E. branch E. { fresh_by ltac:(apply op_shift_ok; [nzc|assumption|tyc|tyc|tyc]). }
  clear E. branch E. { fresh_by ltac:(apply op_shift_ok; [nzc|assumption|tyc|tyc|tyc]). }
  clear E. branch E. { fresh_by ltac:(apply op_eq_ok; [nzc|assumption|tyc|tyc]). }
  clear E. branch E. { fresh_by ltac:(apply single_ok; [nzc|assumption|tyc]). }
  clear E. branch E. { fresh_by ltac:(apply single_ok; [nzc|assumption|tyc]). }
  clear E. branch E. { fresh_by ltac:(apply lex_bang_ok; [nzc|assumption]). }
  clear E. branch E. { fresh_by ltac:(apply op_eq_ok; [nzc|assumption|tyc|tyc]). }
  clear E. branch Ez.
  { destruct (lex_eof_ok st (line st) (idx st) W) as (t & st' & F & K).
    exists t, st'. split; [exact F|]. left. split; assumption. }
  branch E. { fresh_by ltac:(apply single_ok; [nzc|assumption|tyc]). }
  fresh_by ltac:(apply lex_default_ok; assumption).
Qed.

(* ---- NextToken ---- *)
Definition mu (st : lexer) : nat := (3 * nu st + length (peeks st))%nat.

Lemma fresh_wf st t st' : wf st -> fresh_ok st t st' -> wf st'.
Proof.
  intros [W1 W2] (_ & _ & E1 & E2 & P). unfold wf. rewrite E1, E2. split; [|exact W2].
  destruct P as [->|(_ & a & b & -> & Ta & Tb)]; auto.
Qed.

Lemma next_token_ok n st :
  (nu st < n)%nat -> wf st ->
  exists t st', next_token n st = OK (t, st') /\ typed t /\ wf st' /\ (nu st' <= nu st)%nat /\
                (is_eof t = true \/ (mu st' < mu st)%nat).
Proof.
  intros Hn W. unfold next_token. destruct (peeks st) as [|t ps] eqn:P.
  - destruct (skip_whitespace_ok n st Hn) as (st1 & R & L). rewrite R. cbn [bind].
    destruct L as [Ln (A1 & A2 & A3)].
    assert (W1 : wf st1). { destruct W as [W1 W2]. unfold wf. rewrite A1, A2, A3. auto. }
    assert (P1 : peeks st1 = []) by congruence.
    destruct (lex_char_ok n st1) as (t & st' & F & K); [lia|exact P1|exact W1|].
    exists t, st'. split; [exact F|].
    destruct K as [(_ & E & T & N1 & Pk & W')|(_ & K)].
    + split; [exact T|]. split; [exact W'|]. split; [lia|]. left. exact E.
    + pose proof (fresh_wf _ _ _ W1 K) as W'.
      destruct K as (N1 & T & _ & _ & Pk).
      split; [exact T|]. split; [exact W'|]. split; [lia|].
      right. unfold mu. rewrite P. cbn [length].
      destruct Pk as [->|(_ & a & b & -> & _)]; cbn [length]; lia.
  - exists t, (set_peeks st ps). split; [reflexivity|].
    destruct W as [W1 W2]. rewrite P in W1. inversion W1; subst.
    split; [assumption|]. split; [split; assumption|]. split; [apply Nat.le_refl|].
    right. unfold mu. rewrite P. cbn [set_peeks peeks length]. 
    change (nu (set_peeks st ps)) with (nu st). lia.
Qed.

(* ---- the token loop ---- *)
Lemma lex_loop_ok inner : forall outer st,
  (mu st < outer)%nat -> (nu st < inner)%nat -> wf st ->
  exists ts, lex_loop outer inner st = OK ts /\ ts <> [] /\ Forall typed ts.
Proof.
  induction outer as [|o IH]; intros st Hm Hn W; [lia|].
  cbn [lex_loop].
  destruct (next_token_ok inner st Hn W) as (t & st' & R & T & W' & N' & D).
  rewrite R. cbn [bind].
  destruct (is_eof t) eqn:E.
  - exists [t]. split; [reflexivity|]. split; [discriminate|]. constructor; auto.
  - destruct D as [D|D]; [discriminate|].
    destruct (IH st') as (ts & R' & _ & F'); [lia|lia|exact W'|].
    rewrite R'. exists (t :: ts). split; [reflexivity|]. split; [discriminate|]. constructor; auto.
Qed.

Lemma init_facts s : (nu (init s) <= length s)%nat /\ peeks (init s) = [] /\ wf (init s).
Proof.
  unfold init. set (st0 := mkLx 0 s 1 0 [] false zero_token).
  pose proof (read_char_le st0) as [Ln (A1 & A2 & A3)].
  split; [|split].
  - unfold nu in Ln at 2. cbn in Ln. lia.
  - rewrite A1. reflexivity.
  - unfold wf. rewrite A1, A2. cbn. split; [constructor|discriminate].
Qed.

Theorem lex_all_ok s n :
  (lex_fuel s <= n)%nat -> exists ts, lex_all n s = OK ts /\ ts <> [] /\ Forall typed ts.
Proof.
  intros H. unfold lex_all, lex_fuel in *.
  destruct (init_facts s) as (Hn & Hp & W).
  apply lex_loop_ok; [unfold mu; rewrite Hp; cbn [length]; lia|lia|exact W].
Qed.

Lemma typed_nonempty t : typed t -> ttype t <> [].
Proof.
  unfold typed. intros H E. rewrite E in H.
  pose proof (proj2 types_distinct). congruence.
Qed.
