(* Closing C01's parser half: for every byte string the token list the lexer + pump model hands
   to the parser model (Model/LexParse.v to_ptoks) is lexer-shaped (`long_ok`, the hypothesis of
   C02's crash-freedom theorems), hence the three entry points of the parser model neither run
   out of fuel nor crash on it; and the pumped tokens are tokens of the lexer (so they are
   located, by lex_located). *)
From Coq Require Import List NArith ZArith Bool Lia Arith.
From Falco Require Import Base.Res Base.Bytes Base.Utf8.
From Falco Require Gen.Tokens Gen.TokenTypes Model.ParseBase Model.Ast Model.ParseDecl
  Proofs.ParseExprTotal Proofs.ParseDeclTotal.
From Falco Require Import Model.Lex Model.Pump Model.LexSpec Model.LexParse
  Proofs.LexTables Proofs.LexProgress Proofs.LexToken Proofs.PumpTotal Proofs.LexLocated Proofs.LexOpen.
Import ListNotations.

(* ---------- the pump keeps an OPEN_LONG_STRING next to its STRING ---------- *)

Definition is_string (t : token) : bool := str_eqb (ttype t) Tokens.T_STRING.

(* what long_ok asks, on lexer tokens *)
Fixpoint lok (ts : list token) : Prop :=
  match ts with
  | o :: ((s :: _) as rest) => (is_open o = true -> is_string s = true -> toff s <> 2%N) /\ lok rest
  | _ => True
  end.

Lemma raw_ok_app pre : forall l, raw_ok (pre ++ l) -> raw_ok l.
Proof.
  induction pre as [|a pre IH]; intros l H; [exact H|].
  apply IH. cbn [app] in H. destruct (pre ++ l) eqn:E; [destruct pre; cbn in *; [subst; exact I|discriminate]|].
  apply H.
Qed.

Definition suffix (l ts : list token) : Prop := exists pre, ts = pre ++ l.

Lemma suffix_refl l : suffix l l. Proof. exists []. reflexivity. Qed.
Lemma suffix_tl a l ts : suffix (a :: l) ts -> suffix l ts.
Proof. intros [pre ->]. exists (pre ++ [a]). rewrite <- app_assoc. reflexivity. Qed.
Lemma suffix_trans a b c : suffix a b -> suffix b c -> suffix a c.
Proof. intros [p ->] [q ->]. exists (q ++ p). rewrite app_assoc. reflexivity. Qed.
Lemma suffix_nil ts : suffix [] ts.
Proof. exists ts. rewrite app_nil_r. reflexivity. Qed.

Section Stream.
  Variable e : token.
  Hypothesis He : is_eof e = true.

  Lemma skip_lf_suffix : forall n ts cnt c ts', skip_lf n e ts cnt = OK (c, ts') -> suffix ts' ts.
  Proof.
    induction n as [|n IH]; intros ts cnt c ts'; cbn [skip_lf]; [discriminate|].
    destruct (is_type Tokens.T_LF (s_peek e ts)).
    - intros R. apply IH in R. destruct ts as [|t r]; cbn [s_next snd] in R; [exact R|].
      eapply suffix_trans; [exact R|]. eapply suffix_tl, suffix_refl.
    - intros [= <- <-]. apply suffix_refl.
  Qed.

  Lemma skip_pragma_suffix : forall n ts ts', skip_pragma n e ts = OK ts' -> suffix ts' ts.
  Proof.
    induction n as [|n IH]; intros ts ts'; cbn [skip_pragma]; [discriminate|].
    destruct ts as [|t r]; cbn [s_next].
    - destruct (_ || _); [intros [= <-]; apply suffix_refl|]. intros R. apply IH in R. exact R.
    - destruct (_ || _); [intros [= <-]; eapply suffix_tl, suffix_refl|].
      intros R. apply IH in R. eapply suffix_trans; [exact R|]. eapply suffix_tl, suffix_refl.
  Qed.

  (* ReadPeek returns a token of the stream followed by the rest, or the EOF token at the end *)
  Lemma read_peek_suffix : forall n ts level lead lf prev m ts' lv',
    read_peek n e ts level lead lf prev = OK (m, ts', lv') ->
    suffix (mtok m :: ts') ts \/ (mtok m = e /\ ts' = []).
  Proof.
    induction n as [|n IH]; intros ts level lead lf prev m ts' lv'; cbn [read_peek]; [discriminate|].
    destruct ts as [|t r]; cbn [s_next].
    - assert (Rec : forall lv ld f p, read_peek n e [] lv ld f p = OK (m, ts', lv') ->
                    suffix (mtok m :: ts') [] \/ (mtok m = e /\ ts' = [])).
      { intros lv ld f p R. destruct (IH _ _ _ _ _ _ _ _ R) as [[pre E]|H]; [|right; exact H].
        destruct pre; discriminate. }
      destruct (is_type Tokens.T_LF e).
      { destruct (skip_lf n e [] prev) as [[c ts2]| | |] eqn:S; cbn [bind]; try discriminate.
        apply skip_lf_suffix in S. destruct S as [pre S]. destruct pre; [|discriminate]. cbn in S. subst ts2.
        apply Rec. }
      destruct (is_type Tokens.T_COMMENT e); [apply Rec|].
      destruct (is_type Tokens.T_FASTLY_CONTROL e); [apply Rec|].
      destruct (is_type Tokens.T_PRAGMA e).
      { destruct (skip_pragma n e []) as [ts2| | |] eqn:S; cbn [bind]; try discriminate.
        apply skip_pragma_suffix in S. destruct S as [pre S]. destruct pre; [|discriminate]. cbn in S. subst ts2.
        apply Rec. }
      intros [= <- <- _]. right. split; reflexivity.
    - assert (Rec : forall ts2 lv ld f p, suffix ts2 r -> read_peek n e ts2 lv ld f p = OK (m, ts', lv') ->
                    suffix (mtok m :: ts') (t :: r) \/ (mtok m = e /\ ts' = [])).
      { intros ts2 lv ld f p S R. destruct (IH _ _ _ _ _ _ _ _ R) as [S'|H]; [left|right; exact H].
        eapply suffix_trans; [exact S'|]. eapply suffix_trans; [exact S|]. eapply suffix_tl, suffix_refl. }
      destruct (is_type Tokens.T_LF t).
      { destruct (skip_lf n e r prev) as [[c ts2]| | |] eqn:S; cbn [bind]; try discriminate.
        apply skip_lf_suffix in S. apply Rec. exact S. }
      destruct (is_type Tokens.T_COMMENT t); [apply Rec, suffix_refl|].
      destruct (is_type Tokens.T_FASTLY_CONTROL t); [apply Rec, suffix_refl|].
      destruct (is_type Tokens.T_PRAGMA t).
      { destruct (skip_pragma n e r) as [ts2| | |] eqn:S; cbn [bind]; try discriminate.
        apply skip_pragma_suffix in S. apply Rec. exact S. }
      intros [= <- <- _]. left. apply suffix_refl.
  Qed.

  (* a STRING token at the head of the stream is delivered at once *)
  Lemma read_peek_string n s r level lead lf prev :
    is_string s = true ->
    exists m lv', read_peek (S n) e (s :: r) level lead lf prev = OK (m, r, lv') /\ mtok m = s.
  Proof.
    intros Hs. cbn [read_peek s_next]. unfold is_string in Hs. apply str_eqb_eq in Hs.
    unfold is_type. rewrite Hs.
    change (str_eqb Tokens.T_STRING Tokens.T_LF) with false.
    change (str_eqb Tokens.T_STRING Tokens.T_COMMENT) with false.
    change (str_eqb Tokens.T_STRING Tokens.T_FASTLY_CONTROL) with false.
    change (str_eqb Tokens.T_STRING Tokens.T_PRAGMA) with false.
    change (str_eqb Tokens.T_STRING Tokens.T_LEFT_BRACE) with false.
    change (str_eqb Tokens.T_STRING Tokens.T_RIGHT_BRACE) with false.
    cbv iota. eexists _, _. split; reflexivity.
  Qed.

  Lemma e_not_string : is_string e = false.
  Proof. unfold is_string. rewrite (e_type e He). reflexivity. Qed.

  Lemma pump_loop_lok inner : forall outer ts level ms,
    raw_ok ts -> pump_loop outer inner e ts level = OK ms ->
    lok (map mtok ms) /\
    (forall s r, ts = s :: r -> is_string s = true -> (1 <= inner)%nat -> exists m ms', ms = m :: ms' /\ mtok m = s).
  Proof.
    induction outer as [|o IH]; intros ts level ms Hraw R; [discriminate|].
    cbn [pump_loop] in R.
    destruct (read_peek inner e ts level [] false 0%N) as [[[m ts1] lv1]| | |] eqn:RP; cbn [bind] in R; try discriminate.
    assert (Head : forall s r, ts = s :: r -> is_string s = true -> (1 <= inner)%nat -> mtok m = s /\ ts1 = r).
    { intros s r -> Hs Hi. destruct inner as [|i]; [lia|].
      destruct (read_peek_string i s r level [] false 0%N Hs) as (m0 & lv0 & R0 & E0).
      rewrite R0 in RP. injection RP as <- <- _. auto. }
    destruct (is_eof (mtok m)) eqn:E.
    - injection R as <-. split; [exact I|]. intros s r Hts Hs Hi.
      destruct (Head s r Hts Hs Hi) as [E1 _]. eauto.
    - destruct (pump_loop o inner e ts1 lv1) as [ms'| | |] eqn:R'; try discriminate.
      injection R as <-.
      assert (Hraw1 : raw_ok (mtok m :: ts1) \/ ts1 = []).
      { destruct (read_peek_suffix _ _ _ _ _ _ _ _ _ RP) as [[pre ->]|[_ ->]]; [left|right; reflexivity].
        eapply raw_ok_app. exact Hraw. }
      assert (Hraw' : raw_ok ts1).
      { destruct Hraw1 as [H| ->]; [|exact I]. destruct ts1; [exact I|apply H]. }
      destruct (IH ts1 lv1 ms' Hraw' R') as (L' & HD').
      split.
      + cbn [map]. destruct ms' as [|m' ms'']; [exact I|]. cbn [map]. split; [|exact L'].
        intros Ho Hs.
        (* the stream behind an OPEN token starts with its STRING, which the pump delivers next *)
        destruct Hraw1 as [H| ->].
        * destruct ts1 as [|s r].
          { (* the stream ended: the next pumped token is the EOF token *)
            cbn [pump_loop] in R'. destruct o as [|o']; [discriminate|]. cbn [pump_loop] in R'.
            destruct (read_peek inner e [] lv1 [] false 0%N) as [[[m2 ts2] lv2]| | |] eqn:RP2; cbn [bind] in R'; try discriminate.
            assert (mtok m2 = e).
            { destruct (read_peek_suffix _ _ _ _ _ _ _ _ _ RP2) as [[pre E2]|[E2 _]]; [destruct pre; discriminate|exact E2]. }
            assert (m' = m2).
            { destruct (is_eof (mtok m2)); [injection R' as <-; reflexivity|].
              destruct (pump_loop o' inner e ts2 lv2); try discriminate. injection R' as <- _. reflexivity. }
            subst m'. rewrite H0, e_not_string in Hs. discriminate. }
          { destruct H as [Hos _]. destruct (Hos Ho) as [Hstr Hoff].
            assert (Hi : (1 <= inner)%nat).
            { destruct inner; [cbn in RP; discriminate|lia]. }
            destruct (HD' s r eq_refl Hstr Hi) as (m3 & ms3 & E3 & E4).
            injection E3 as <- _. rewrite E4. exact Hoff. }
        * cbn [pump_loop] in R'. destruct o as [|o']; [discriminate|]. cbn [pump_loop] in R'.
          destruct (read_peek inner e [] lv1 [] false 0%N) as [[[m2 ts2] lv2]| | |] eqn:RP2; cbn [bind] in R'; try discriminate.
          assert (mtok m2 = e).
          { destruct (read_peek_suffix _ _ _ _ _ _ _ _ _ RP2) as [[pre E2]|[E2 _]]; [destruct pre; discriminate|exact E2]. }
          assert (m' = m2).
          { destruct (is_eof (mtok m2)); [injection R' as <-; reflexivity|].
            destruct (pump_loop o' inner e ts2 lv2); try discriminate. injection R' as <- _. reflexivity. }
          subst m'. rewrite H, e_not_string in Hs. discriminate.
      + intros s r Hts Hs Hi. destruct (Head s r Hts Hs Hi) as [E1 _]. eauto.
  Qed.

  (* every pumped token is a token of the stream or the EOF token *)
  Lemma pump_loop_in inner : forall outer ts level ms,
    pump_loop outer inner e ts level = OK ms -> Forall (fun m => In (mtok m) ts \/ mtok m = e) ms.
  Proof.
    induction outer as [|o IH]; intros ts level ms R; [discriminate|].
    cbn [pump_loop] in R.
    destruct (read_peek inner e ts level [] false 0%N) as [[[m ts1] lv1]| | |] eqn:RP; cbn [bind] in R; try discriminate.
    assert (Hm : In (mtok m) ts \/ mtok m = e).
    { destruct (read_peek_suffix _ _ _ _ _ _ _ _ _ RP) as [[pre ->]|[E _]]; [left|right; exact E].
      apply in_or_app. right. left. reflexivity. }
    destruct (is_eof (mtok m)).
    - injection R as <-. constructor; [exact Hm|constructor].
    - destruct (pump_loop o inner e ts1 lv1) as [ms'| | |] eqn:R'; try discriminate.
      injection R as <-. constructor; [exact Hm|].
      specialize (IH _ _ _ R'). eapply Forall_impl; [|exact IH]. cbn. intros a [H|H]; [left|right; exact H].
      destruct (read_peek_suffix _ _ _ _ _ _ _ _ _ RP) as [[pre ->]|[_ ->]]; [|destruct H].
      apply in_or_app. right. right. exact H.
  Qed.
End Stream.

(* ---------- lexer + pump on a source ---------- *)
Lemma pump_unfold s ms : pump s = OK ms ->
  exists ts body e, tokens s = OK ts /\ ts = body ++ [e] /\ is_eof e = true /\ pump_all (S (length ts)) e ts = OK ms.
Proof.
  unfold pump. destruct (tokens s) as [ts| | |] eqn:T; cbn [bind]; try discriminate.
  unfold tokens, lex_all in T. destruct (lex_loop_last _ _ _ _ T) as (body & e & -> & He).
  rewrite rev_app_distr. cbn [rev app]. intros R. exists (body ++ [e]), body, e. auto.
Qed.

Theorem pump_lok s ms : pump s = OK ms -> lok (map mtok ms).
Proof.
  intros R. destruct (pump_unfold s ms R) as (ts & body & e & T & _ & He & P).
  unfold pump_all in P. eapply (pump_loop_lok e He); [|exact P]. eapply tokens_raw_ok. exact T.
Qed.

Theorem pump_tokens_of_lexer s ms ts :
  pump s = OK ms -> tokens s = OK ts -> Forall (fun m => In (mtok m) ts) ms.
Proof.
  intros R T. destruct (pump_unfold s ms R) as (ts' & body & e & T' & E & He & P).
  rewrite T in T'. injection T' as <-.
  unfold pump_all in P. pose proof (pump_loop_in e _ _ _ _ _ P) as F.
  eapply Forall_impl; [|exact F]. cbn. intros m [H|H]; [exact H|].
  rewrite H, E. apply in_or_app. right. left. reflexivity.
Qed.

(* ---------- the conversion keeps the shape ---------- *)
Lemma ttype_eqb_eq a b : ParseBase.ttype_eqb a b = true -> a = b.
Proof. destruct a; destruct b; cbn; intros H; try discriminate; reflexivity. Qed.

Lemma ttype_of_name x t : ttype_of x = t -> t <> TokenTypes.T_ILLEGAL -> x = s2r (TokenTypes.tname t).
Proof.
  unfold ttype_of. destruct (find (fun p => str_eqb (fst p) x) type_table) as [p|] eqn:F; [|congruence].
  intros <- _. apply find_some in F as [Hin Heq]. apply str_eqb_eq in Heq. rewrite <- Heq.
  unfold type_table in Hin. apply in_map_iff in Hin as (t & <- & _). reflexivity.
Qed.

Lemma conv_open t : ParseBase.ttype_eqb (ParseBase.typ (conv t)) TokenTypes.T_OPEN_LONG_STRING = true -> is_open t = true.
Proof.
  intros H. apply ttype_eqb_eq in H. cbn [conv ParseBase.typ] in H.
  apply ttype_of_name in H; [|discriminate]. unfold is_open. rewrite H. reflexivity.
Qed.

Lemma conv_string t : ParseBase.ttype_eqb (ParseBase.typ (conv t)) TokenTypes.T_STRING = true -> is_string t = true.
Proof.
  intros H. apply ttype_eqb_eq in H. cbn [conv ParseBase.typ] in H.
  apply ttype_of_name in H; [|discriminate]. unfold is_string. rewrite H. reflexivity.
Qed.

Lemma to_ptoks_long_ok : forall ms, lok (map mtok ms) -> ParseExprTotal.long_ok (to_ptoks ms) = true.
Proof.
  induction ms as [|m ms IH]; intros L; [reflexivity|].
  cbn [to_ptoks]. destruct (is_eof (mtok m)); [reflexivity|].
  destruct ms as [|m2 ms2]; [reflexivity|].
  cbn [map] in L. destruct L as [L1 L2]. specialize (IH L2).
  cbn [to_ptoks] in *. destruct (is_eof (mtok m2)); [reflexivity|].
  cbn [ParseExprTotal.long_ok]. apply andb_true_iff. split; [|exact IH].
  destruct (ParseBase.ttype_eqb (ParseBase.typ (conv (mtok m))) TokenTypes.T_OPEN_LONG_STRING) eqn:Eo; [|reflexivity].
  destruct (ParseBase.ttype_eqb (ParseBase.typ (conv (mtok m2))) TokenTypes.T_STRING) eqn:Es; [|reflexivity].
  cbn [andb]. apply negb_true_iff, N.eqb_neq. cbn [conv ParseBase.off].
  apply L1; [apply conv_open; exact Eo|apply conv_string; exact Es].
Qed.

Theorem source_long_ok s ms : pump s = OK ms -> ParseExprTotal.long_ok (to_ptoks ms) = true.
Proof. intros R. apply to_ptoks_long_ok. eapply pump_lok. exact R. Qed.

(* ---------- composition with C02 ---------- *)
Theorem parse_source_total fok mode s : parse_source fok mode s <> ParseBase.PFuel.
Proof.
  unfold parse_source. destruct (pump_ok s) as (ms & R & _). rewrite R.
  destruct mode; cbn [parse_mode];
    [apply ParseDeclTotal.parse_vcl_total|apply ParseDeclTotal.parse_snippet_total|apply ParseDeclTotal.parse_total].
Qed.

Theorem parse_source_no_crash fok mode s : parse_source fok mode s <> ParseBase.PCrash.
Proof.
  unfold parse_source. destruct (pump_ok s) as (ms & R & _). rewrite R.
  pose proof (source_long_ok s ms R) as L.
  destruct mode; cbn [parse_mode];
    [apply ParseDeclTotal.parse_vcl_no_crash|apply ParseDeclTotal.parse_snippet_no_crash|apply ParseDeclTotal.parse_no_crash];
    exact L.
Qed.

(* an element of to_ptoks is the image of a pumped token *)
Lemma in_to_ptoks : forall ms t, In t (to_ptoks ms) -> exists m, In m ms /\ conv (mtok m) = t.
Proof.
  induction ms as [|m ms IH]; intros t H; [destruct H|].
  cbn [to_ptoks] in H. destruct (is_eof (mtok m)); [destruct H|].
  destruct H as [<-|H]; [exists m; split; [left; reflexivity|reflexivity]|].
  destruct (IH t H) as (m' & Hin & E). exists m'. split; [right; exact Hin|exact E].
Qed.

(* located-ness of a parse error, given that the error token is one of the parser's input tokens
   (the part that is not proved on the parser-model side) *)
Theorem parse_error_located_partial fok mode s ms k t rem :
  pump s = OK ms -> parse_mode fok mode (to_ptoks ms) = ParseBase.PErr k t rem ->
  In t (to_ptoks ms) ->
  exists m, In m ms /\ conv (mtok m) = t /\ designates (dec_all s) (mtok m).
Proof.
  intros R _ Hin. destruct (in_to_ptoks ms t Hin) as (m & Hm & E).
  exists m. split; [exact Hm|]. split; [exact E|].
  destruct (pump_unfold s ms R) as (ts & _ & _ & T & _).
  pose proof (pump_tokens_of_lexer s ms ts R T) as F. rewrite Forall_forall in F.
  eapply lex_located; [exact T|apply F; exact Hm].
Qed.

(* the pump's output ends with the EOF meta, which is what an error "at EOF" refers to; it is located *)
Lemma pump_loop_last_eof inner e : forall outer ts level ms,
  pump_loop outer inner e ts level = OK ms -> exists body m, ms = body ++ [m] /\ is_eof (mtok m) = true.
Proof.
  induction outer as [|o IH]; intros ts level ms R; [discriminate|].
  cbn [pump_loop] in R.
  destruct (read_peek inner e ts level [] false 0%N) as [[[m ts1] lv1]| | |]; cbn [bind] in R; try discriminate.
  destruct (is_eof (mtok m)) eqn:E.
  - injection R as <-. exists [], m. auto.
  - destruct (pump_loop o inner e ts1 lv1) as [ms'| | |] eqn:R'; try discriminate.
    injection R as <-. destruct (IH _ _ _ R') as (body & m' & -> & E').
    exists (m :: body), m'. auto.
Qed.

Theorem pump_eof_located s ms :
  pump s = OK ms ->
  exists body m, ms = body ++ [m] /\ is_eof (mtok m) = true /\ designates (dec_all s) (mtok m).
Proof.
  intros R. destruct (pump_unfold s ms R) as (ts & _ & e & T & _ & _ & P).
  unfold pump_all in P. destruct (pump_loop_last_eof _ _ _ _ _ _ P) as (body & m & -> & E).
  exists body, m. split; [reflexivity|]. split; [exact E|].
  pose proof (pump_tokens_of_lexer s _ ts R T) as F. rewrite Forall_forall in F.
  eapply lex_located; [exact T|]. apply F. apply in_or_app. right. left. reflexivity.
Qed.

Theorem pump_tokens_located s ms m : pump s = OK ms -> In m ms -> designates (dec_all s) (mtok m).
Proof.
  intros R Hm. destruct (pump_unfold s ms R) as (ts & _ & _ & T & _).
  pose proof (pump_tokens_of_lexer s ms ts R T) as F. rewrite Forall_forall in F.
  eapply lex_located; [exact T|apply F; exact Hm].
Qed.

(* ---------- every parse error is located (closing the partial statement with C02's
   parse_error_located: the error token is eof_tok or the token at index length - rem) ---------- *)
From Falco Require Proofs.ParseLocated Proofs.ParseLocated2.

Lemma pump_loop_shape inner e : forall outer ts level ms,
  pump_loop outer inner e ts level = OK ms ->
  exists body m, ms = body ++ [m] /\ is_eof (mtok m) = true /\
                 Forall (fun x => is_eof (mtok x) = false) body.
Proof.
  induction outer as [|o IH]; intros ts level ms R; [discriminate|].
  cbn [pump_loop] in R.
  destruct (read_peek inner e ts level [] false 0%N) as [[[m ts1] lv1]| | |]; cbn [bind] in R; try discriminate.
  destruct (is_eof (mtok m)) eqn:E.
  - injection R as <-. exists [], m. auto.
  - destruct (pump_loop o inner e ts1 lv1) as [ms'| | |] eqn:R'; try discriminate.
    injection R as <-. destruct (IH _ _ _ R') as (body & m' & -> & E' & F).
    exists (m :: body), m'. repeat split; auto.
Qed.

Lemma pump_shape s ms : pump s = OK ms ->
  exists body m, ms = body ++ [m] /\ is_eof (mtok m) = true /\
                 Forall (fun x => is_eof (mtok x) = false) body.
Proof.
  intros R. destruct (pump_unfold s ms R) as (ts & _ & e & _ & _ & _ & P).
  unfold pump_all in P. eapply pump_loop_shape. exact P.
Qed.

Lemma to_ptoks_body : forall body m,
  Forall (fun x => is_eof (mtok x) = false) body -> is_eof (mtok m) = true ->
  to_ptoks (body ++ [m]) = map (fun x => conv (mtok x)) body.
Proof.
  induction body as [|b body IH]; intros m F E; cbn [app to_ptoks map].
  - rewrite E. reflexivity.
  - inversion F; subst. rewrite H1. f_equal. apply IH; assumption.
Qed.

Lemma conv_not_eof t : is_eof t = false ->
  ParseBase.ttype_eqb (ParseBase.typ (conv t)) TokenTypes.T_EOF = false.
Proof.
  intros H. destruct (ParseBase.ttype_eqb _ _) eqn:E; [|reflexivity].
  apply ttype_eqb_eq in E. cbn [conv ParseBase.typ] in E.
  apply ttype_of_name in E; [|discriminate].
  unfold is_eof in H. rewrite E in H. discriminate.
Qed.

Lemma parse_mode_located fok mode ts k t rem :
  parse_mode fok mode ts = ParseBase.PErr k t rem -> ParseLocated.located ts t rem.
Proof.
  destruct mode; cbn [parse_mode]; intros H;
    [eapply ParseLocated2.parse_vcl_error_located|eapply ParseLocated2.parse_snippet_error_located
     |eapply ParseLocated2.parse_error_located]; exact H.
Qed.

(* the pumped token a parse error refers to ([err_meta], what the driver prints and the
   correspondence compares with the *ParseError of the real parser) exists, is the image of the
   model's error token - or the EOF meta for an error at the end of input - and designates its text *)
Theorem parse_error_located fok mode s k t rem :
  parse_source fok mode s = ParseBase.PErr k t rem ->
  exists ms m, pump s = OK ms /\ err_meta ms t rem = Some m /\ In m ms /\
               designates (dec_all s) (mtok m) /\
               (conv (mtok m) = t \/ (t = ParseBase.eof_tok /\ is_eof (mtok m) = true)).
Proof.
  unfold parse_source. destruct (pump_ok s) as (ms & R & _). intros H. rewrite R in H.
  apply parse_mode_located in H.
  destruct (pump_shape s ms R) as (body & me & E & Ee & Fb).
  assert (TP : to_ptoks ms = map (fun x => conv (mtok x)) body) by (rewrite E; apply to_ptoks_body; assumption).
  assert (Len : length (to_ptoks ms) = length body) by (rewrite TP; apply map_length).
  exists ms.
  assert (Fin : forall m, err_meta ms t rem = Some m -> In m ms ->
                (conv (mtok m) = t \/ (t = ParseBase.eof_tok /\ is_eof (mtok m) = true)) ->
                exists m0, pump s = OK ms /\ err_meta ms t rem = Some m0 /\ In m0 ms /\
                  designates (dec_all s) (mtok m0) /\
                  (conv (mtok m0) = t \/ (t = ParseBase.eof_tok /\ is_eof (mtok m0) = true))).
  { intros m H1 H2 H3. exists m. repeat split; auto. eapply pump_tokens_located; eauto. }
  destruct H as [Heof|[[Hr1 Hr2] Hn]].
  - (* an error on the EOF behind the last token: the EOF meta *)
    apply (Fin me).
    + unfold err_meta. rewrite Heof. cbn [ParseBase.eof_tok ParseBase.typ ParseBase.ttype_eqb].
      change (ParseBase.ttype_eqb TokenTypes.T_EOF TokenTypes.T_EOF) with true. cbv iota.
      rewrite Len, E. rewrite nth_error_app2 by lia.
      replace (length body - length body)%nat with 0%nat by lia. reflexivity.
    + rewrite E. apply in_or_app. right. left. reflexivity.
    + right. split; assumption.
  - (* an error on the token at index length - rem *)
    rewrite Len in Hn, Hr2. rewrite TP in Hn.
    set (i := (length body - rem)%nat) in *.
    assert (Hi : (i < length body)%nat) by (unfold i; lia).
    rewrite nth_error_map in Hn.
    destruct (nth_error body i) as [mi|] eqn:Ni; cbn [option_map] in Hn; [|discriminate]. injection Hn as Hn.
    assert (Hin : In mi body) by (eapply nth_error_In; eauto).
    rewrite Forall_forall in Fb. pose proof (Fb mi Hin) as Hne.
    apply (Fin mi).
    + unfold err_meta. rewrite <- Hn, (conv_not_eof _ Hne), Len. fold i.
      rewrite E, nth_error_app1 by exact Hi. exact Ni.
    + rewrite E. apply in_or_app. left. exact Hin.
    + left. exact Hn.
Qed.
