(* size <= 8 * length of the encoding: the fuel decode computes from the byte string
   (8 * len + 12) is enough for the round trip. *)
From Coq Require Import List NArith ZArith Lia Bool.
From Falco Require Import Base.Res Base.Bytes Base.Utf8 Gen.CodecFrames Model.CodecAst Model.Codec
  Proofs.Utf8Proofs Proofs.CodecRT1 Proofs.CodecRoundtrip.
Import ListNotations.
Arguments enc_expr : simpl nomatch.
Arguments flat_map : simpl nomatch.
Arguments app : simpl nomatch.
Arguments Nat.add : simpl nomatch.
Arguments Nat.mul : simpl nomatch.

Lemma len_frame t p : length (enc_frame t p) = (3 + length p)%nat.
Proof. reflexivity. Qed.
Lemma len_leaf t s : (3 <= length (leaf t s))%nat.
Proof. unfold leaf. rewrite len_frame. lia. Qed.
Lemma len_end : length END_B = 1%nat. Proof. reflexivity. Qed.

Ltac lens := repeat first [ rewrite len_frame | rewrite app_length | rewrite len_end | progress cbn [length] ].

Lemma esize_len : forall k e, (esize e <= k)%nat -> (esize e + 2 <= 8 * length (enc_expr e))%nat.
Proof.
  induction k as [|k IH]; intros e Hk.
  { destruct e; simpl in Hk; lia. }
  destruct e as [v|v|v|v|b|v lit|v lit|r|l op r|l op|op r|c t e|f args|]; cbn [enc_expr esize] in *;
    unfold leaf, enc_int, enc_float, enc_bool, enc_op, enc_ident, leaf; lens; try lia.
  - pose proof (IH r ltac:(lia)). lia.
  - destruct l as [l|]; unfold opt.
    + pose proof (IH l ltac:(lia)). pose proof (IH r ltac:(lia)). lia.
    + pose proof (IH r ltac:(lia)). simpl. lia.
  - pose proof (IH l ltac:(lia)). lia.
  - pose proof (IH r ltac:(lia)). lia.
  - pose proof (IH c ltac:(lia)). pose proof (IH t ltac:(lia)). pose proof (IH e ltac:(lia)). lia.
  - fold (esizes args) in *.
    assert (H : forall l, (esizes l <= k)%nat -> (esizes l <= 8 * length (flat_map enc_expr l) + 1)%nat).
    { induction l as [|x xs IHl]; intros Hl; [simpl; lia|].
      cbn [esizes flat_map] in *; fold (esizes xs) in *.
      rewrite app_length. pose proof (IH x ltac:(lia)). pose proof (IHl ltac:(lia)). lia. }
    pose proof (H args ltac:(lia)). lia.
Qed.

Lemma esize_len' e : (esize e + 2 <= 8 * length (enc_expr e))%nat.
Proof. apply (esize_len (esize e)). lia. Qed.

Lemma esizes_len l : (esizes l <= 8 * length (flat_map enc_expr l) + 1)%nat.
Proof.
  induction l as [|x xs IHl]; [simpl; lia|].
  cbn [esizes flat_map] in *; fold (esizes xs) in *.
  rewrite app_length. pose proof (esize_len' x). lia.
Qed.

Lemma osize_len o : (osize o <= 8 * length (opt enc_expr o))%nat.
Proof. destruct o as [e|]; unfold osize, opt; [pose proof (esize_len' e); lia | simpl; lia]. Qed.

Lemma kvsize_len t l : (kvsize l <= 8 * length (flat_map (enc_kv t) l) + 1)%nat.
Proof.
  induction l as [|[k v] xs IHl]; cbn [kvsize flat_map fst snd] in *; [simpl; lia|].
  unfold enc_kv at 1; cbn [fst snd]. lens. pose proof (esize_len' v). lia.
Qed.

Lemma tpsize_len l : (kvsize l <= 8 * length (flat_map enc_tprop l) + 1)%nat.
Proof.
  induction l as [|[k v] xs IHl]; cbn [kvsize flat_map fst snd] in *; [simpl; lia|].
  unfold enc_tprop at 1; cbn [fst snd]. lens. pose proof (esize_len' v). lia.
Qed.

Lemma cidrs_len l : (length l <= 8 * length (flat_map enc_cidr l))%nat.
Proof.
  induction l as [|c xs IHl]; cbn [length flat_map]; [lia|].
  destruct c. unfold enc_cidr at 1. lens. lia.
Qed.

Lemma params_len l : (length l <= 8 * length (flat_map enc_param l))%nat.
Proof.
  induction l as [|c xs IHl]; cbn [length flat_map]; [lia|].
  unfold enc_param at 1. lens. lia.
Qed.

Lemma bpssize_len l : (bpssize l <= 8 * length (flat_map enc_bprop l) + 1)%nat.
Proof.
  induction l as [|p xs IHl]; cbn [bpssize flat_map] in *; [simpl; lia|].
  destruct p as [k v|k vs]; cbn [enc_bprop bpsize]; lens.
  - pose proof (esize_len' v). lia.
  - pose proof (kvsize_len FT_BACKEND_PROPERTY vs). lia.
Qed.

Lemma dpssize_len l : (dpssize l <= 8 * length (flat_map enc_dprop l) + 1)%nat.
Proof.
  induction l as [|p xs IHl]; cbn [dpssize flat_map] in *; [simpl; lia|].
  destruct p as [k v|vs]; cbn [enc_dprop dpsize]; lens.
  - pose proof (esize_len' v). lia.
  - pose proof (kvsize_len FT_DIRECTOR_PROPERTY vs). lia.
Qed.

Lemma isize_len l op r :
  (isize (l, op, r) <= 8 * length (opt enc_expr l ++ enc_op op ++ enc_expr r))%nat.
Proof.
  unfold isize. lens. pose proof (osize_len l). pose proof (esize_len' r).
  unfold enc_op. pose proof (len_leaf FT_OPERATOR op). lia.
Qed.

Definition SZ_stmt (k : nat) : Prop :=
  forall s bs, (ssize s <= k)%nat -> enc_stmt s = OK bs -> (ssize s + 2 <= 8 * length bs)%nat.
Definition SZ_ifs (k : nat) : Prop :=
  forall i bs, (isz i <= k)%nat -> enc_ifs i = OK bs -> (isz i + 4 <= 8 * length bs)%nat.
Definition SZ_cas (k : nat) : Prop :=
  forall c bs, (csz c <= k)%nat -> enc_cas c = OK bs -> (csz c + 4 <= 8 * length bs)%nat.

Lemma bsz_len k : SZ_stmt k -> forall b pb, (bsz b <= S k)%nat -> enc_block b = OK pb ->
  (bsz b <= 8 * length pb)%nat.
Proof.
  intros IH. induction b as [|x xs IHb]; intros pb Hs He.
  - inversion He. simpl. lia.
  - apply enc_block_cons in He as (bx & r & Hx & Hr & ->).
    cbn [bsz] in *. fold bsz in *. rewrite app_length.
    pose proof (IH x bx ltac:(lia) Hx). pose proof (IHb r ltac:(lia) Hr). lia.
Qed.

Lemma asz_len k : SZ_ifs k -> forall l pa, (asz l <= S k)%nat -> enc_anothers l = OK pa ->
  (asz l <= 8 * length pa + 1)%nat.
Proof.
  intros IH. induction l as [|x xs IHl]; intros pa Hs He.
  - inversion He. simpl. lia.
  - apply enc_anothers_cons in He as (bx & r & Hx & Hr & ->).
    cbn [asz] in *. fold asz in *. rewrite app_length.
    pose proof (IH x bx ltac:(lia) Hx). pose proof (IHl r ltac:(lia) Hr). lia.
Qed.

Lemma cssz_len k : SZ_cas k -> forall l pa, (cssz l <= S k)%nat -> enc_cases l = OK pa ->
  (cssz l <= 8 * length pa + 1)%nat.
Proof.
  intros IH. induction l as [|x xs IHl]; intros pa Hs He.
  - inversion He. simpl. lia.
  - apply enc_cases_cons in He as (bx & r & Hx & Hr & ->).
    cbn [cssz] in *. fold cssz in *. rewrite app_length.
    pose proof (IH x bx ltac:(lia) Hx). pose proof (IHl r ltac:(lia) Hr). lia.
Qed.

Lemma size_group : forall k, SZ_stmt k /\ SZ_ifs k /\ SZ_cas k.
Proof.
  induction k as [|k (IHs & IHi & IHc)].
  { split; [|split]; intros x bs Hs; exfalso; destruct x; simpl in Hs; lia. }
  pose proof (bsz_len k IHs) as Hb.
  pose proof (asz_len k IHi) as Ha.
  pose proof (cssz_len k IHc) as Hc.
  split; [|split].
  - intros s bs Hs He.
    destruct s as [id op v|id op v| b | | | | |sub args| c |name ty v|code arg|f args|d|d| i |d|d|v|d|d|paren v
                  | ctl cases d |v|v|name cidrs|name props|name ty props|name|name| name params ret b |name ty props|];
      try (cbn [enc_stmt] in He; inversion He; subst bs; clear He; cbn [ssize] in *;
           unfold enc_ident, enc_op, enc_bool, leaf; lens;
           try pose proof (esize_len' v); try pose proof (osize_len v);
           try pose proof (esizes_len args);
           try pose proof (cidrs_len cidrs); try pose proof (bpssize_len props);
           try pose proof (dpssize_len props); try pose proof (tpsize_len props);
           try lia).
    + rewrite enc_block_eq in He. inv_bind. cbn [ssize] in *. fold bsz in *. lens.
      match goal with E : enc_block b = OK ?a |- _ => pose proof (Hb b a ltac:(lia) E) end. lia.
    + destruct args as [|a args]; rewrite ?app_nil_r in *; [cbn [esizes]; lia|]. lens. lia.
    + cbn [enc_stmt ssize] in *. pose proof (IHc c bs ltac:(lia) He). lia.
    + pose proof (osize_len code). pose proof (osize_len arg). lia.
    + cbn [enc_stmt ssize] in *. pose proof (IHi i bs ltac:(lia) He). lia.
    + rewrite enc_switch_eq in He. inv_bind. cbn [ssize] in *. fold cssz in *. unfold enc_int. lens.
      match goal with E : enc_cases cases = OK ?a |- _ => pose proof (Hc cases a ltac:(lia) E) end.
      pose proof (esize_len' ctl). lia.
    + rewrite enc_sub_eq in He. inv_bind. cbn [ssize] in *. fold bsz in *. unfold enc_ident, leaf. lens.
      match goal with E : enc_block b = OK ?a |- _ => pose proof (Hb b a ltac:(lia) E) end.
      pose proof (params_len params). lia.
  - intros i bs Hs He. destruct i as [kw c csq another alt].
    rewrite enc_ifs_eq in He. cbn [isz] in *. fold bsz in *. fold asz in *.
    destruct alt as [alt|]; inv_bind; unfold leaf; lens;
      repeat match goal with
      | E : enc_block ?b = OK ?a |- _ => pose proof (Hb b a ltac:(lia) E); clear E
      | E : enc_anothers ?b = OK ?a |- _ => pose proof (Ha b a ltac:(lia) E); clear E
      end; pose proof (esize_len' c); lia.
  - intros c bs Hs He. destruct c as [test b ft].
    rewrite enc_cas_eq in He. cbn [csz] in *. fold bsz in *.
    inv_bind. lens.
    match goal with E : enc_block b = OK ?a |- _ => pose proof (Hb b a ltac:(lia) E) end.
    destruct test as [[[l op] r]|]; unfold opt.
    + unfold enc_infix. lens. pose proof (isize_len l op r). rewrite !app_length in *. lia.
    + cbn [length]. lia.
Qed.

Lemma ssize_len s bs : enc_stmt s = OK bs -> (ssize s + 2 <= 8 * length bs)%nat.
Proof. intros H. destruct (size_group (ssize s)) as (Hs & _). apply Hs; [lia|exact H]. Qed.

Lemma tsz_len ss bs : enc_stmts_top ss = OK bs -> (tsz ss <= 8 * length bs)%nat.
Proof.
  revert bs. induction ss as [|x xs IH]; intros bs He.
  - inversion He. simpl. lia.
  - apply enc_top_cons in He as (bx & r & Hx & Hr & ->).
    cbn [tsz]. fold tsz. rewrite app_length. pose proof (ssize_len _ _ Hx). pose proof (IH _ Hr). lia.
Qed.

(* ---------- the theorem ---------- *)
Theorem decode_encode ss bs :
  wf_block ss -> encode ss = OK bs -> decode bs = OK ss.
Proof.
  intros Hw He. unfold decode, decode_fuel. apply (top_rt ss bs Hw He).
  pose proof (tsz_len ss bs He). lia.
Qed.

(* every well-formed statement list does encode *)


(* ---------- generated-table obligation ---------- *)
Lemma NoDup_by_nodupb (l : list N) :
  (fix go (l : list N) : bool :=
     match l with [] => true | x :: xs => negb (existsb (N.eqb x) xs) && go xs end) l = true -> NoDup l.
Proof.
  induction l as [|x xs IH]; intros H; [constructor|].
  apply andb_prop in H as [H1 H2]. constructor; [|apply IH; exact H2].
  intros Hin. apply negb_true_iff in H1.
  assert (existsb (N.eqb x) xs = true) by (apply existsb_exists; exists x; split; [exact Hin|apply N.eqb_refl]).
  congruence.
Qed.

Lemma C19_frame_numbering_proof :
  NoDup frame_types /\ FT_END = 1%N /\ FT_FIN = 2%N /\ FT_UNKNOWN = 0%N.
Proof. split; [apply NoDup_by_nodupb; vm_compute; reflexivity | repeat split]. Qed.

(* ---------- non-vacuity: concrete nested statements satisfy wf ---------- *)
Definition s_of (l : list N) : str := l.
Local Open Scope N_scope.
Example wf_example :
  wf_block
    [ SSet (s_of [114;101;113]) (s_of [61]) (EInfix (Some (EString (s_of [120]))) (s_of [43]) (EInt 1%Z (s_of [49])));
      SError None None;
      SCall (s_of [102]) [EIdent (s_of [97]); EBool true];
      SIf (IfS (s_of [105;102]) (EIdent (s_of [97])) [SEsi]
               [IfS (s_of [101;108;115;101;32;105;102]) (EPrefix (s_of [33]) (EIdent (s_of [98]))) [SRestart] [] None]
               (Some [SLog (EString [])]));
      SSwitch (EIdent (s_of [120]))
              [Cas (Some (None, s_of [61;61], EString (s_of [97]))) [SBreak] false;
               Cas None [SFallthrough] true] 1%Z;
      DSub (s_of [102]) [(s_of [83], s_of [97])] (Some (s_of [83])) [SReturn false (Some (EIdent (s_of [97])))] ].
Proof. vm_compute. repeat split; try discriminate; auto. Qed.

(* ---------- the known finding: a 65536-byte leaf does not round-trip ---------- *)
Definition big_leaf : list stmt := [SLog (EString (repeat 97%N (N.to_nat 65536)))].
Lemma leaf_64k_refuted : exists ss bs, encode ss = OK bs /\ decode bs <> OK ss.
Proof.
  exists big_leaf.
  assert (Hok : is_ok (encode big_leaf) = true) by (vm_compute; reflexivity).
  destruct (encode big_leaf) as [bs| | |] eqn:E; try discriminate Hok.
  exists bs. split; [reflexivity|].
  assert (H : match encode big_leaf with OK b => match decode b with OK [SLog (EString s)] => Nat.eqb (length s) (N.to_nat 65536) | _ => false end | _ => false end = false)
    by (vm_compute; reflexivity).
  rewrite E in H. intros D. rewrite D in H. unfold big_leaf in H.
  rewrite repeat_length, Nat.eqb_refl in H. discriminate.
Qed.
