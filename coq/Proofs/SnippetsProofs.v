(* C20 - the placement of VCL snippets: sorted, stable, complete; none snippets by exact name. *)
From Coq Require Import List ZArith Bool Lia Permutation Sorted.
From Falco Require Import Base.Bytes Model.HdrField Model.Escape Model.Snippets Proofs.HdrBytes.
Import ListNotations.
Local Open Scope Z_scope.

Definition le_prio (a b : snip) : Prop := s_prio a <= s_prio b.
Definition prio_is (p : Z) (s : snip) : bool := s_prio s =? p.

Lemma insert_perm x l : Permutation (insert x l) (x :: l).
Proof.
  induction l as [|y t IH]; simpl; [apply Permutation_refl|].
  destruct (s_prio x <=? s_prio y); [apply Permutation_refl|].
  eapply Permutation_trans; [apply perm_skip; exact IH | apply perm_swap].
Qed.

Lemma sort_perm l : Permutation (sort_stable l) l.
Proof.
  induction l as [|x l IH]; simpl; [constructor|].
  eapply Permutation_trans; [apply insert_perm | apply perm_skip; exact IH].
Qed.

Lemma insert_sorted x l : StronglySorted le_prio l -> StronglySorted le_prio (insert x l).
Proof.
  induction l as [|y t IH]; intros H; simpl.
  - constructor; constructor.
  - inversion H as [|? ? Ht Hy]; subst. destruct (s_prio x <=? s_prio y) eqn:E.
    + constructor; [exact H|]. constructor; [unfold le_prio; lia|].
      eapply Forall_impl; [|exact Hy]. intros a Ha. unfold le_prio in *. lia.
    + constructor; [exact (IH Ht)|].
      eapply Permutation_Forall; [apply Permutation_sym; apply insert_perm|].
      constructor; [unfold le_prio; lia | exact Hy].
Qed.

Lemma sort_sorted l : StronglySorted le_prio (sort_stable l).
Proof. induction l as [|x l IH]; simpl; [constructor | apply insert_sorted; exact IH]. Qed.

Lemma filter_sorted (f : snip -> bool) l : StronglySorted le_prio l -> StronglySorted le_prio (filter f l).
Proof.
  induction l as [|y t IH]; intros H; simpl; [constructor|]. inversion H as [|? ? Ht Hy]; subst.
  destruct (f y); [|exact (IH Ht)]. constructor; [exact (IH Ht)|].
  apply Forall_forall. intros a Ha. apply filter_In in Ha. rewrite Forall_forall in Hy. exact (Hy a (proj1 Ha)).
Qed.

(* stability: among the snippets of one priority nothing moves *)
Lemma insert_stable p x l :
  filter (prio_is p) (insert x l) = if prio_is p x then x :: filter (prio_is p) l else filter (prio_is p) l.
Proof.
  induction l as [|y t IH]; simpl; [reflexivity|].
  destruct (s_prio x <=? s_prio y) eqn:E; simpl; [reflexivity|]. rewrite IH.
  unfold prio_is in *. destruct (s_prio x =? p) eqn:Ex; [|reflexivity].
  replace (s_prio y =? p) with false by lia. reflexivity.
Qed.

Lemma sort_stable_spec p l : filter (prio_is p) (sort_stable l) = filter (prio_is p) l.
Proof. induction l as [|x l IH]; simpl; [reflexivity|]. rewrite insert_stable, IH. reflexivity. Qed.

Lemma filter_comm {A} (f g : A -> bool) l : filter f (filter g l) = filter g (filter f l).
Proof.
  induction l as [|a l IH]; simpl; [reflexivity|].
  destruct (g a) eqn:G; destruct (f a) eqn:F; simpl; rewrite ?G, ?F, IH; reflexivity.
Qed.

(* the list of one type: ascending priority, and for every priority exactly the snippets of that
   type and priority in the order they were given = the stable sort of the snippets of the type *)
Theorem snippets_sorted_stable ty l :
  StronglySorted le_prio (scoped ty l) /\
  forall p, filter (prio_is p) (scoped ty l) = filter (prio_is p) (filter (has_type ty) l).
Proof.
  unfold scoped. split; [apply filter_sorted, sort_sorted|].
  intros p. rewrite filter_comm, sort_stable_spec, filter_comm. reflexivity.
Qed.

(* complete: the list of a type is a rearrangement of the snippets of that type - every one of them
   appears, as often as it was given (exactly once when the snippets are distinct), nothing else *)
Lemma perm_filter {A} (f : A -> bool) l l' : Permutation l l' -> Permutation (filter f l) (filter f l').
Proof.
  induction 1; simpl.
  - constructor.
  - destruct (f x); [apply perm_skip|]; assumption.
  - destruct (f x); destruct (f y); try apply Permutation_refl. apply perm_swap.
  - eapply Permutation_trans; eassumption.
Qed.

Theorem snippets_complete ty l : Permutation (scoped ty l) (filter (has_type ty) l).
Proof. unfold scoped. apply perm_filter, sort_perm. Qed.

Corollary snippets_each_once ty l s : has_type ty s = true ->
  (In s (scoped ty l) <-> In s l) /\ (NoDup l -> NoDup (scoped ty l)).
Proof.
  intros Hs. split.
  - split; intros H.
    + apply (Permutation_in _ (snippets_complete ty l)) in H. apply filter_In in H. exact (proj1 H).
    + apply (Permutation_in _ (Permutation_sym (snippets_complete ty l))). apply filter_In. split; assumption.
  - intros Hn. eapply Permutation_NoDup; [apply Permutation_sym, snippets_complete|]. apply NoDup_filter. exact Hn.
Qed.

(* type none: stored under the name as written.  When the none snippets have pairwise different
   names - names that only COLLIDE AFTER SANITISING are different names - each is found under its own *)
Lemma nodup_map_inj {A B} (f : A -> B) l : NoDup (map f l) -> forall a b, In a l -> In b l -> f a = f b -> a = b.
Proof.
  induction l as [|x t IH]; intros Hn a b Ha Hb E; [destruct Ha|].
  simpl in Hn. inversion Hn as [|? ? Hx Ht]; subst. destruct Ha as [->|Ha]; destruct Hb as [->|Hb].
  - reflexivity.
  - exfalso. apply Hx. rewrite E. apply in_map. exact Hb.
  - exfalso. apply Hx. rewrite <- E. apply in_map. exact Ha.
  - exact (IH Ht a b Ha Hb E).
Qed.

Lemma last_all_same (s : snip) m : m <> [] -> (forall a, In a m -> a = s) -> last (map Some m) None = Some s.
Proof.
  induction m as [|a t IH]; intros Hne Hall; [congruence|].
  destruct t as [|b t']; [simpl; f_equal; apply Hall; left; reflexivity|].
  change (last (map Some (a :: b :: t')) None) with (last (map Some (b :: t')) None).
  apply IH; [discriminate | intros c Hc; apply Hall; right; exact Hc].
Qed.

Theorem none_by_name l s :
  In s l -> is_none s = true -> NoDup (map s_name (filter is_none l)) ->
  include_of (s_name s) l = Some s.
Proof.
  intros Hin Hnone Hn. unfold include_of. apply last_all_same.
  - intros E. assert (H : In s (filter (fun x => is_none x && beq (s_name s) (s_name x)) (sort_stable l))).
    { apply filter_In. split; [apply (Permutation_in _ (Permutation_sym (sort_perm l))); exact Hin|].
      rewrite Hnone, beq_refl. reflexivity. }
    rewrite E in H. destruct H.
  - intros a Ha. apply filter_In in Ha. destruct Ha as [Ha Hf]. apply andb_true_iff in Hf. destruct Hf as [Hna Hnm].
    apply (Permutation_in _ (sort_perm l)) in Ha. apply beq_eq in Hnm.
    apply (nodup_map_inj s_name (filter is_none l) Hn); [apply filter_In; split; assumption | apply filter_In; split; assumption | symmetry; exact Hnm].
Qed.

(* two none snippets whose names are the same word after sanitising are both found, each under its own name *)
Example sanitised_collision_kept :
  let a := {| s_name := [Byte.x61; Byte.x2d; Byte.x62]; s_type := t_none; s_prio := 10; s_content := [Byte.x31] |} in
  let b := {| s_name := [Byte.x61; Byte.x5f; Byte.x62]; s_type := t_none; s_prio := 10; s_content := [Byte.x32] |} in
  sanitize (s_name a) = sanitize (s_name b) /\ include_of (s_name a) [b; a] = Some a /\ include_of (s_name b) [b; a] = Some b.
Proof. repeat split; vm_compute; reflexivity. Qed.

(* priorities 20, 10, 20, 10: the two of priority 10 first, then the two of priority 20, each pair in the order given *)
Example sorted_stable_example :
  let mk n p := {| s_name := [n]; s_type := [Byte.x72]; s_prio := p; s_content := [] |} in
  map s_name (scoped [Byte.x72] [mk Byte.x61 20; mk Byte.x62 10; mk Byte.x63 20; mk Byte.x64 10]) =
  [[Byte.x62]; [Byte.x64]; [Byte.x61]; [Byte.x63]].
Proof. vm_compute. reflexivity. Qed.
