(* C07 - the text conversions of Model/Float.v: the decimal digits denote the number; the three-decimal
   rendering of a FLOAT is the nearest thousandth of the exact binary value, ties to even. *)
From Coq Require Import List NArith ZArith Bool Lia Floats.SpecFloat.
From Falco Require Import Base.Res Base.Bytes Model.Float.
Import ListNotations.
Local Open Scope Z_scope.

(* value denoted by a list of ASCII digits *)
Fixpoint dv (l : list byte) : Z :=
  match l with [] => 0 | b :: t => (Z.of_N (b2n b) - 48) * 10 ^ Z.of_nat (length t) + dv t end.

Definition is_digit (b : byte) : Prop := 48 <= Z.of_N (b2n b) <= 57.

Lemma digit_val d : 0 <= d < 10 -> Z.of_N (b2n (digit d)) - 48 = d.
Proof.
  intros H. unfold digit. rewrite b2n_n2b_small by (apply N2Z.inj_lt; rewrite Z2N.id; lia).
  rewrite Z2N.id by lia. lia.
Qed.

Lemma dec_fuel_value : forall fuel n acc, 0 <= n < 10 ^ Z.of_nat fuel ->
  dv (dec_fuel fuel n acc) = n * 10 ^ Z.of_nat (length acc) + dv acc.
Proof.
  induction fuel as [|k IH]; intros n acc Hn.
  - cbn in Hn. assert (n = 0) by lia. subst. cbn. lia.
  - cbn [dec_fuel]. destruct (n <? 10) eqn:E.
    + apply Z.ltb_lt in E. cbn [dv]. rewrite digit_val by lia. reflexivity.
    + apply Z.ltb_ge in E. rewrite IH.
      * cbn [dv length]. rewrite digit_val by (apply Z.mod_pos_bound; lia).
        rewrite Nat2Z.inj_succ, Z.pow_succ_r by lia.
        pose proof (Z.div_mod n 10 ltac:(lia)). nia.
      * rewrite Nat2Z.inj_succ, Z.pow_succ_r in Hn by lia.
        split; [apply Z.div_pos; lia|apply Z.div_lt_upper_bound; lia].
Qed.

Lemma pow10_ge_pow2 k : 0 <= k -> 2 ^ k <= 10 ^ k.
Proof. intros. apply Z.pow_le_mono_l. lia. Qed.

(* the decimal text of a non-negative number denotes it *)
Theorem dec_nat_value : forall n, 0 <= n -> dv (dec_nat n) = n.
Proof.
  intros n Hn. unfold dec_nat. rewrite dec_fuel_value; [cbn; lia|].
  split; [assumption|]. rewrite Nat2Z.inj_succ.
  destruct (Z.eq_dec n 0) as [->|Hz]; [cbn; lia|].
  rewrite Z2Nat.id by (apply Z.log2_nonneg).
  pose proof (Z.log2_spec n ltac:(lia)) as [_ Hlt].
  pose proof (pow10_ge_pow2 (Z.succ (Z.log2 n)) ltac:(pose proof (Z.log2_nonneg n); lia)). lia.
Qed.

(* ... with a leading minus for negative numbers *)
Theorem dec_int_value : forall z,
  dec_int z = if z <? 0 then minus_sign :: dec_nat (- z) else dec_nat z.
Proof. reflexivity. Qed.

(* three decimals of m * 2^e (e < 0): the nearest thousandth, ties to the even one *)
Theorem milli_rounds_half_even : forall m e, e < 0 ->
  let n := Z.pos m * 1000 in
  let d := 2 ^ (- e) in
  let q := milli m e in
  2 * Z.abs (q * d - n) <= d /\ (2 * Z.abs (q * d - n) = d -> Z.even q = true).
Proof.
  intros m e He n d q. subst q. unfold milli.
  replace (0 <=? e) with false by (symmetry; apply Z.leb_gt; lia).
  fold n. fold d.
  assert (Hd : 0 < d) by (apply Z.pow_pos_nonneg; lia).
  pose proof (Z.div_mod n d ltac:(lia)) as Hdm. pose proof (Z.mod_pos_bound n d Hd) as Hr.
  set (k := n / d) in *. set (r := n mod d) in *.
  destruct ((d <? 2 * r) || ((2 * r =? d) && Z.odd k)) eqn:E.
  - apply orb_prop in E. destruct E as [E|E].
    + apply Z.ltb_lt in E. split; [lia|]. intros H. lia.
    + apply andb_prop in E as [E1 E2]. apply Z.eqb_eq in E1. split; [lia|].
      intros _. rewrite Z.even_add. rewrite <- Z.negb_odd, E2. reflexivity.
  - apply orb_false_elim in E as [E1 E2]. apply Z.ltb_ge in E1. split; [lia|].
    intros H. assert (Hrd : 2 * r = d) by lia.
    apply andb_false_elim in E2. destruct E2 as [E2|E2]; [apply Z.eqb_neq in E2; lia|].
    rewrite <- Z.negb_odd, E2. reflexivity.
Qed.

(* the special values *)
Theorem fmt3_specials :
  fmt3 S754_nan = s_NaN /\ fmt3 (S754_infinity false) = s_pInf /\ fmt3 (S754_infinity true) = s_nInf /\
  fmt3 (S754_zero true) = minus_sign :: digit 0 :: dot :: [digit 0; digit 0; digit 0].
Proof. repeat split. Qed.

Example ex_dec : dec_nat 9223372036854775807 = map (fun c => n2b (Z.to_N c)) [57;50;50;51;51;55;50;48;51;54;56;53;52;55;55;53;56;48;55].
Proof. vm_compute. reflexivity. Qed.
Example ex_milli_tie_even : milli 1 (-1) = 500 /\ milli 1 (-4) = 62 /\ milli 3 (-4) = 188.
Proof. repeat split. Qed.   (* 0.5 -> 0.500; 0.0625 -> 0.062 (tie, even); 0.1875 -> 0.188 (tie, even) *)
