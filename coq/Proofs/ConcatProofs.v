(* C07 - laws of the concatenation series (Model/Concat.v). *)
From Coq Require Import List NArith ZArith Bool Lia.
From Falco Require Import Base.Res Base.Bytes Model.Float Model.Acl Model.Val Model.Assign Model.Oper Model.Concat.
Import ListNotations.
Local Open Scope Z_scope.

(* ---------------------------------------------------------------- the series is the left fold of the binary step *)

Lemma step_err local l : fold_left (step local) l Err = Err.
Proof. induction l as [|x l IH]; [reflexivity|]. exact IH. Qed.

Lemma step_crash local l : fold_left (step local) l Crash = Crash.
Proof. induction l as [|x l IH]; [reflexivity|]. exact IH. Qed.

Lemma step_fuel local l : fold_left (step local) l OutOfFuel = OutOfFuel.
Proof. induction l as [|x l IH]; [reflexivity|]. exact IH. Qed.

Lemma fold_next local l r :
  fold_left (step local) l r = next r (fun rv => fold_left (step local) l (OK rv)).
Proof. destruct r; cbn; auto using step_err, step_crash, step_fuel. Qed.

Lemma step_ok local rv x :
  step local (OK rv) x =
  match conv local x with OK o => cat rv o | Err => Err | Crash => Crash | OutOfFuel => OutOfFuel end.
Proof. reflexivity. Qed.

Lemma no_time_not_time_var l x : no_time l = true -> In x l -> is_time_var (Some (sit x)) = false.
Proof.
  unfold no_time. rewrite forallb_forall. intros H Hin. specialize (H x Hin).
  destruct (sit x) as [| [] | |]; try reflexivity; discriminate.
Qed.

Lemma loop_fold local : forall l prev rv,
  no_time l = true -> is_time_var prev = false ->
  loop local prev l rv = fold_left (step local) l (OK rv).
Proof.
  induction l as [|x l IH]; intros prev rv Hnt Hprev; [reflexivity|].
  assert (Hl : no_time l = true) by (cbn in Hnt; now apply andb_prop in Hnt).
  assert (Hx : is_time_var (Some (sit x)) = false) by (apply (no_time_not_time_var (x :: l)); [assumption|now left]).
  cbn [fold_left]. rewrite fold_next, step_ok.
  cbn [loop]. unfold conv.
  destruct (sit x) as [s | v | d |] eqn:E.
  - destruct (cat rv _); cbn [next]; try reflexivity. now apply IH.
  - destruct v; try (destruct (cat rv _); cbn [next]; try reflexivity; now apply IH).
    + (* RTIME variable: the sign only matters right after a TIME variable *)
      rewrite Hprev, andb_false_r. destruct (cat rv _); cbn [next]; try reflexivity. now apply IH.
    + (* TIME variable: excluded *) cbn in Hx. discriminate.
  - reflexivity.
  - reflexivity.
Qed.

(* without TIME variables (whose "time calculation" consumes two operands) the series is the left
   fold of operator.Concat over the converted operands, starting from the empty string *)
Theorem concat_assoc_left : forall local l, no_time l = true -> all_notset l = false ->
  concat_series local l =
  match fold_left (step local) l (OK []) with
  | OK s => OK (VStr s false)
  | Err => Err | Crash => Crash | OutOfFuel => OutOfFuel
  end.
Proof.
  intros local l Hnt Hns. unfold concat_series. rewrite Hns. now rewrite loop_fold.
Qed.

(* the step is the binary operator of Model/Oper.v applied to the accumulated string *)
Theorem step_is_binary_concat : forall local rv x,
  step local (OK rv) x =
  match conv local x with
  | OK o => concat (mkOp (VStr rv false) false) o
  | Err => Err | Crash => Crash | OutOfFuel => OutOfFuel
  end.
Proof. reflexivity. Qed.

(* the two-operand time calculation: TIME variable followed by an RTIME literal (anywhere in the
   series, also at its end) is one operand, the time shifted by the literal *)
Theorem time_calculation_step : forall local prev x nx rest rv ext nsec oob d,
  sit x = CVar (VTime ext nsec oob) -> sit nx = CRTimeLit d ->
  loop local prev (x :: nx :: rest) rv =
  loop local (Some (sit nx)) rest
       (rv ++ http_time (fst (time_add ext nsec (match sop nx with SMinus => wrap64 (- d) | _ => d end)))).
Proof.
  intros local prev x nx rest rv ext nsec oob d Hx Hn. cbn [loop]. rewrite Hx, Hn.
  destruct (time_add ext nsec _) as [e n]. reflexivity.
Qed.

(* ---------------------------------------------------------------- conversions *)

Definition lit (s : str) : sitem := mkItem SNone (CLit s).
Definition var (v : val) : sitem := mkItem SNone (CVar v).

(* "s" var.x : the variable is converted by its String() method - per type: *)
Theorem concat_conversion_spec : forall local s,
  (forall v nan ninf pinf, concat_series local [lit s; var (VInt v nan ninf pinf)]
                           = OK (VStr (s ++ int_string v nan ninf pinf) false)) /\
  (forall f nan ninf pinf, concat_series local [lit s; var (VFloat f nan ninf pinf)]
                           = OK (VStr (s ++ float_string f nan ninf pinf) false)) /\
  (forall b, concat_series local [lit s; var (VBool b)] = OK (VStr (s ++ bool_string b) false)) /\
  (forall ns, concat_series local [lit s; var (VRTime ns)] = OK (VStr (s ++ rtime_string ns) false)) /\
  (forall t, concat_series local [lit s; var (VStr t false)] = OK (VStr (s ++ t) false)) /\
  (forall a, concat_series local [lit s; var (VIp a false)] = OK (VStr (s ++ addr_string a) false)) /\
  (forall ext nsec, concat_series local [lit s; var (VTime ext nsec false)] = OK (VStr (s ++ http_time ext) false)) /\
  (forall n es, concat_series local [lit s; var (VAcl n es)] = Err).
Proof.
  intros local s. repeat split; intros; cbn; rewrite ?andb_false_r; reflexivity.
Qed.

(* the texts themselves: decimal INTEGER, FLOAT and RTIME with three decimals, BOOL as 1 / 0 *)
Theorem conversion_texts :
  (forall v, int_string v false false false = dec_int v) /\
  (forall f, float_string f false false false = fmt3 f) /\
  (forall ns, rtime_string ns = fmt3 (fdiv (f_of_int (Z.quot ns 1000000)) (f_of_int 1000))) /\
  bool_string true = [Byte.x31] /\ bool_string false = [Byte.x30].
Proof. repeat split. Qed.

(* ---------------------------------------------------------------- not-set operands *)

Theorem notset_in_concat :
  (* in an assignment to a local variable a not-set STRING / IP operand contributes nothing ... *)
  (forall s t, concat_series true [lit s; var (VStr t true)] = OK (VStr s false)) /\
  (forall s a, concat_series true [lit s; var (VIp a true)] = OK (VStr s false)) /\
  (* ... elsewhere (header assignment, log, condition) it reads "(null)" ... *)
  (forall s t, concat_series false [lit s; var (VStr t true)] = OK (VStr (s ++ s_null) false)) /\
  (forall s a, concat_series false [lit s; var (VIp a true)] = OK (VStr (s ++ s_null) false)) /\
  (* ... and a series made only of not-set operands is itself not set, in both contexts *)
  (forall local l, all_notset l = true -> concat_series local l = OK (VStr [] true)).
Proof.
  repeat split; intros; cbn; rewrite ?app_nil_r; try reflexivity.
  unfold concat_series. now rewrite H.
Qed.

(* witnesses *)
Example ex_series :
  concat_series true [var (VStr [Byte.x61] false); var (VStr [] true); mkItem SPlus (CLit [Byte.x7a]); var (VInt 5 false false false)]
  = OK (VStr [Byte.x61; Byte.x7a; Byte.x35] false).
Proof. reflexivity. Qed.
Example ex_series_header :
  concat_series false [var (VStr [Byte.x61] false); var (VStr [] true)]
  = OK (VStr ([Byte.x61] ++ s_null) false).
Proof. reflexivity. Qed.
Example ex_all_notset : all_notset [var (VStr [] true); var (VIp None true)] = true.
Proof. reflexivity. Qed.
Example ex_no_time : no_time [var (VStr [Byte.x61] false); lit []; var (VRTime 5)] = true.
Proof. reflexivity. Qed.
