(* pratt_roundtrip and its corollaries (parse_expr with its own fuel; uniqueness of the canonical
   tree of a token sequence), plus a concrete witness. *)
From Coq Require Import String.
From Coq Require Import List NArith ZArith Bool Lia.
From Falco Require Import Base.Bytes Gen.TokenTypes Model.ParseKinds Gen.ParserTables
  Model.ParseBase Model.Ast Model.ParseLit Model.ParseExpr Model.ParseStmt Model.ParseDecl Model.Yield
  Proofs.ParseTables Proofs.ParseExprYield Proofs.ParseExprMono Proofs.ParseExprTotal Proofs.ParsePratt.
Import ListNotations.
Local Open Scope N_scope.

Section R.
Variable fok : str -> bool.

Theorem pratt_roundtrip e p pv rest :
  canon fok e -> p < minprec e -> follow_ok e rest = true -> stops p rest = true ->
  exists N, forall n, (N <= n)%nat ->
    pexpr fok n p (St pv (yexpr e ++ rest)) = POK (e, endst pv (yexpr e) rest).
Proof.
  intros Hc Hp Hf Hs. apply (K_to_R fok e (proj1 (K_all fok) e) Hc p pv rest Hp Hf Hs).
Qed.

(* with the fuel the statement parsers use *)
Theorem parse_expr_roundtrip e p pv rest :
  canon fok e -> p < minprec e -> follow_ok e rest = true -> stops p rest = true ->
  parse_expr fok p (St pv (yexpr e ++ rest)) = POK (e, endst pv (yexpr e) rest).
Proof.
  intros Hc Hp Hf Hs. destruct (pratt_roundtrip e p pv rest Hc Hp Hf Hs) as [N H].
  unfold parse_expr. set (st := St pv (yexpr e ++ rest)).
  pose proof (parse_expr_total fok p st) as Ht. unfold parse_expr in Ht.
  rewrite <- (pexpr_mono_any fok (expr_fuel st) (Nat.max N (expr_fuel st)) p st Ht) by lia.
  apply H. lia.
Qed.

Lemma follow_nil e : follow_ok e [] = true.
Proof.
  destruct e; simpl; try reflexivity; unfold stops; simpl; apply negb_true_iff; apply N.ltb_ge;
    try apply doc_prec_range; vm_compute; discriminate.
Qed.

(* ParseExpression(LOWEST) on exactly the tokens of a canonical tree *)
Theorem parse_expression_roundtrip e :
  canon fok e -> 1 < minprec e ->
  parse_expression fok (yexpr e) = POK (e, [last (yexpr e) eof_tok]).
Proof.
  intros Hc Hp. unfold parse_expression, start. rewrite P_LOWEST_doc.
  rewrite <- (app_nil_r (yexpr e)) at 1.
  rewrite (parse_expr_roundtrip e 1 None [] Hc Hp (follow_nil e)) by reflexivity.
  cbn [pbind]. destruct (endst_form (yexpr e) None [] (yexpr_nonempty e)) as [pv' E].
  rewrite E. reflexivity.
Qed.

(* grouping is determined by the tokens: two canonical trees with the same tokens are equal *)
Theorem canonical_tree_unique e1 e2 :
  canon fok e1 -> canon fok e2 -> 1 < minprec e1 -> 1 < minprec e2 ->
  yexpr e1 = yexpr e2 -> e1 = e2.
Proof.
  intros C1 C2 M1 M2 Hy.
  pose proof (parse_expression_roundtrip e1 C1 M1) as H1.
  pose proof (parse_expression_roundtrip e2 C2 M2) as H2.
  rewrite Hy in H1. rewrite H1 in H2. inversion H2. reflexivity.
Qed.

End R.

(* ---------- a witness:   a == b "c" + d || ! e && ( f < g )
   documented grouping:    ((a == ((b "c") + d)) || ((!e) && (group (f < g)))) *)
Definition tk (t : ttype) (s : string) : token := Tok t (s2b s) 0.
Definition tstr (s : string) : token := Tok T_STRING (s2b s) 2.
Definition ex_tree : expr :=
  EInfix
    (EInfix (EIdent (tk T_IDENT "a")) (tk T_EQUAL "==") false
       (EInfix (EConcat (EIdent (tk T_IDENT "b")) (EString (tstr "c%20") (s2b "c "))) (tk T_PLUS "+") true
          (EIdent (tk T_IDENT "d"))))
    (tk T_OR "||") false
    (EInfix (EPrefix (tk T_NOT "!") (EIdent (tk T_IDENT "e"))) (tk T_AND "&&") false
       (EGroup (tk T_LEFT_PAREN "(")
          (EInfix (EIdent (tk T_IDENT "f")) (tk T_LESS_THAN "<") false (EInt (tk T_INT "0x10") 16))
          (tk T_RIGHT_PAREN ")"))).

Example ex_tree_canon : canon (fun _ => true) ex_tree /\ 1 < minprec ex_tree.
Proof. vm_compute. repeat split; reflexivity. Qed.

Example ex_tree_parses :
  parse_expression (fun _ => true) (yexpr ex_tree) = POK (ex_tree, [tk T_RIGHT_PAREN ")"]).
Proof. vm_compute. reflexivity. Qed.
