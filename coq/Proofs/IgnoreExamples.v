(* Concrete witnesses for the C12 theorems (evaluated by vm_compute): the statements are not
   vacuous, the range hypothesis is needed, and what the code reported before the repairs. *)
From Coq Require Import List Bool Arith.
From Coq Require Import Strings.String Strings.Byte.
From Falco Require Import Base.Bytes Model.Ignore Model.IgnoreSpec Model.IgnoreLegacy
  Proofs.IgnoreBasics Proofs.IgnoreRange Proofs.IgnoreRange2.
Import ListNotations.
Open Scope list_scope.

Definition bs (s : string) : list byte := list_byte_of_string s.
Definition mt : meta := {| leading := []; trailing := []; infix := [] |}.
Definition simple (r : string) : node := Node WStmt mt false [bs r] [] [] [].
Definition blk (ks : list node) : node := Node WBlock mt false [] [] [] ks.
(* sub vcl_recv { s0; if (c) { s1; s2; } else { s3; } s4; }   sub vcl_fetch { s5; } *)
Definition ex_prog : list node :=
  [ Node WStmt mt true [bs "macro"] [] [] [blk [ simple "r0";
      Node WStmt mt false [bs "cond"] [] [] [ blk [simple "r1"; simple "r2"];
                                              Node WStmt mt false [] [] [] [blk [simple "r3"]] ];
      simple "r4" ]];
    Node WStmt mt true [] [] [] [blk [simple "r5"]] ].

(* next-line before the if: its condition and both branches go, nothing else *)
Example ex_next_line :
  map snd (report (upd_prog [0; 0; 1] (add_leading 0 (bs "# falco-ignore-next-line")) ex_prog))
  = map bs ["macro"; "r0"; "r4"; "r5"]%string
  /\ map snd (report ex_prog) = map bs ["macro"; "r0"; "cond"; "r1"; "r2"; "r3"; "r4"; "r5"]%string.
Proof. vm_compute. split; reflexivity. Qed.

(* a nested next-line with a rule list inside the covered if does not cancel the outer one *)
Example ex_nested :
  map snd (report (upd_prog [0; 0; 1; 0; 0] (add_leading 0 (bs "// falco-ignore-next-line r1"))
                    (upd_prog [0; 0; 1] (add_leading 0 (bs "/* falco-ignore-next-line */")) ex_prog)))
  = map bs ["macro"; "r0"; "r4"; "r5"]%string.
Proof. vm_compute. reflexivity. Qed.

(* range: start before s1, end before the closing brace of the consequence *)
Example ex_block_end :
  map snd (report (upd_prog [0; 0; 1; 0]
                     (fun n => add_infix 0 (bs "# falco-ignore-end r1, r2") (set_kids [add_leading 0 (bs "# falco-ignore-start r1, r2") (simple "r1"); simple "r2"] n))
                     ex_prog))
  = map bs ["macro"; "r0"; "cond"; "r3"; "r4"; "r5"]%string
  /\ forallb range_free ex_prog = true.
Proof. vm_compute. split; reflexivity. Qed.

(* The "no other start / end directive" hypothesis of the range theorems is needed: by design
   (linter tests pin it) falco-ignore-end without rules clears the whole range set, so a pair
   placed inside an open range ends it. *)
(* outer pair around a .. d (end before e), inner pair around b (end before c): with the inner pair
   c and d, inside the outer range, are reported again *)
Example ex_nested_ranges :
  let outer := [add_leading 0 (bs "# falco-ignore-start") (simple "a")] in
  let tail := [simple "d"; add_leading 0 (bs "# falco-ignore-end") (simple "e")] in
  map snd (report (outer ++ simple "b" :: [] ++ simple "c" :: tail)) = map bs ["e"]%string /\
  map snd (report (outer ++ add_leading 0 (bs "# falco-ignore-start") (simple "b") :: []
                         ++ add_leading 0 (bs "# falco-ignore-end") (simple "c") :: tail))
  = map bs ["c"; "d"; "e"]%string.
Proof. vm_compute. split; reflexivity. Qed.

Lemma range_overlap_refuted :
  exists L c1 c2 before ki mid kj after k1 k2,
    parse_ignore_comment c1 = Some (Start, L) /\ parse_ignore_comment c2 = Some (End, L) /\
    range_free ki = true /\ forallb range_free mid = true /\
    free_list (firstn k2 (leading (node_meta kj))) = true /\
    report (before ++ add_leading k1 c1 ki :: mid ++ add_leading k2 c2 kj :: after)
    <> filter (region_filter [] (List.length before) (S (List.length mid)) L) (report (before ++ ki :: mid ++ kj :: after)).
Proof.
  exists [], (bs "# falco-ignore-start"), (bs "# falco-ignore-end"),
    [add_leading 0 (bs "# falco-ignore-start") (simple "a")], (simple "b"), [], (simple "c"),
    [simple "d"; add_leading 0 (bs "# falco-ignore-end") (simple "e")], 0, 0.
  vm_compute. repeat split; discriminate.
Qed.

(* trailing falco-ignore with a rule list on s2; start before vcl_recv, end before vcl_fetch *)
Example ex_this_line :
  map snd (report (upd_prog [0; 0; 1; 0; 1] (add_trailing 0 (bs "// falco-ignore r2, other/rule")) ex_prog))
  = map bs ["macro"; "r0"; "cond"; "r1"; "r3"; "r4"; "r5"]%string.
Proof. vm_compute. reflexivity. Qed.

Example ex_range_top :
  match ex_prog with
  | [s1; s2] =>
      map snd (report ([] ++ add_leading 0 (bs "# falco-ignore-start") s1 :: [] ++ add_leading 0 (bs "# falco-ignore-end") s2 :: []))
      = map bs ["r5"]%string
  | _ => False
  end.
Proof. vm_compute. reflexivity. Qed.

(* start before s0, end before s4 (siblings in the body of vcl_recv): s0 and the whole if go *)
Example ex_range_siblings :
  map snd (report (upd_prog [0; 0]
                     (set_kids ([] ++ add_leading 0 (bs "# falco-ignore-start") (simple "r0")
                                   :: [Node WStmt mt false [bs "cond"] [] [] [ blk [simple "r1"; simple "r2"];
                                                                            Node WStmt mt false [] [] [] [blk [simple "r3"]] ]]
                                   ++ add_leading 0 (bs "# falco-ignore-end") (simple "r4") :: []))
                     ex_prog))
  = map bs ["macro"; "r4"; "r5"]%string.
Proof. vm_compute. reflexivity. Qed.

(* ---------------------------------------------------------------- the code before the repairs
   Model/IgnoreLegacy.v transcribes linter/ignore.go and its call sites as they were at repository
   commit 06bf344 (validated against that linter, notes/C12.md).  For each repaired defect: what
   the unrepaired code reported, next to what the repaired code reports (which the theorems above
   show to be what the comments cover). *)
Definition lead (c : string) : meta := {| leading := [bs c]; trailing := []; infix := [] |}.
Definition trail (c : string) : meta := {| leading := []; trailing := [bs c]; infix := [] |}.
Definition vsub (ss : list stmt) : decl := DSub mt [bs "macro"] [] (SBlock mt ss).
Definition st (m : meta) (r : string) : stmt := SSimple m [bs r] [].

(* a nested next-line cancelled the enclosing one: r2, inside the ignored if, was reported *)
Definition p_nested_next_line : list decl :=
  [vsub [SIf (lead "# falco-ignore-next-line") [bs "cond"]
                    (SBlock mt [st (lead "# falco-ignore-next-line") "r1"; st mt "r2"]) [] None; st mt "r3"]].
Example unrepaired_nested_next_line :
  map snd (report_vcl_unrepaired p_nested_next_line) = map bs ["macro"; "r2"; "r3"]%string /\
  map snd (report_vcl p_nested_next_line) = map bs ["macro"; "r3"]%string.
Proof. vm_compute. split; reflexivity. Qed.

(* falco-ignore-end before the closing brace was never read: everything after it, the next
   subroutine included, was suppressed *)
Definition p_range_leak : list decl :=
  [vsub [SIf mt [] (SBlock {| leading := []; trailing := []; infix := [bs "# falco-ignore-end"] |}
                               [st (lead "# falco-ignore-start") "r1"]) [] None; st mt "r2"]; vsub [st mt "r3"]].
Example unrepaired_range_leak :
  map snd (report_vcl_unrepaired p_range_leak) = map bs ["macro"]%string /\
  map snd (report_vcl p_range_leak) = map bs ["macro"; "r2"; "macro"; "r3"]%string.
Proof. vm_compute. split; reflexivity. Qed.

(* statements of a switch case never got a setup *)
Definition p_switch_case : list decl :=
  [vsub [SSwitch mt [] [SCase mt [st (lead "# falco-ignore-next-line") "r1"; st (trail "// falco-ignore") "r2"]]; st mt "r3"]].
Example unrepaired_switch_case :
  map snd (report_vcl_unrepaired p_switch_case) = map bs ["macro"; "r1"; "r2"; "r3"]%string /\
  map snd (report_vcl p_switch_case) = map bs ["macro"; "r3"]%string.
Proof. vm_compute. split; reflexivity. Qed.

(* nor did else-if / else branches *)
Definition p_else : list decl :=
  [vsub [SIf mt [] (SBlock mt [st mt "r0"])
                    [SBranch (lead "# falco-ignore-next-line") [bs "c2"] (SBlock mt [st mt "r1"])]
                    (Some (SBranch (lead "# falco-ignore-next-line") [] (SBlock mt [st mt "r2"])))]].
Example unrepaired_else :
  map snd (report_vcl_unrepaired p_else) = map bs ["macro"; "r0"; "c2"; "r1"; "r2"]%string /\
  map snd (report_vcl p_else) = map bs ["macro"; "r0"]%string.
Proof. vm_compute. split; reflexivity. Qed.

(* block-comment directives suppressed nothing *)
Definition p_block_comment : list decl :=
  [vsub [st (lead "/* falco-ignore-next-line */") "r1"; st (trail "/* falco-ignore r2 */") "r2"]].
Example unrepaired_block_comment :
  map snd (report_vcl_unrepaired p_block_comment) = map bs ["macro"; "r1"; "r2"]%string /\
  map snd (report_vcl p_block_comment) = map bs ["macro"]%string.
Proof. vm_compute. split; reflexivity. Qed.

(* unused/variable could not be ignored at the declare statement *)
Definition p_unused_variable : list decl :=
  [vsub [SSimple (trail "// falco-ignore") [] [bs "unused/variable"]; st mt "r1"]].
Example unrepaired_unused_variable :
  map snd (report_vcl_unrepaired p_unused_variable) = map bs ["macro"; "r1"; "unused/variable"]%string /\
  map snd (report_vcl p_unused_variable) = map bs ["macro"; "r1"]%string.
Proof. vm_compute. split; reflexivity. Qed.

(* an ignore range left open at the end of the file: the unused/declaration diagnostic of the subroutine written
   BEFORE the start comment was swallowed too *)
Definition p_open_range : list decl :=
  [DSub mt [bs "scope"] [bs "unused/declaration"] (SBlock mt [st mt "r0"]);
   DSub (lead "# falco-ignore-start") [bs "macro"] [] (SBlock mt [st mt "r1"])].
Example unrepaired_open_range :
  map snd (report_vcl_unrepaired p_open_range) = map bs ["scope"; "r0"]%string /\
  map snd (report_vcl p_open_range) = map bs ["scope"; "r0"; "unused/declaration"]%string.
Proof. vm_compute. split; reflexivity. Qed.

(* every rule name declared in linter/rules.go (regenerated) can be written in a rule list *)
Lemma declared_rules_plain : forallb plain_rule Gen.LintGen.rule_names = true.
Proof. vm_compute. reflexivity. Qed.

(* a stack of directives on one statement: next-line r1, start r2 before it, falco-ignore r3 and a bare falco-ignore-next-line
   further down in the list of another statement; the first statement raises r1 r2 r3 r4: only r4 survives *)
Example ex_stack :
  let m := {| leading := [bs "# falco-ignore-next-line r1"; bs "// falco-ignore-start r2"; bs "# falco-ignore-next-line r1, r1"];
              trailing := [bs "/* falco-ignore r3 */"; bs "// falco-ignore r3"]; infix := [] |} in
  map snd (report [Node WStmt mt true [] [] [] [blk [Node WStmt m false [bs "r1"; bs "r2"; bs "r3"; bs "r4"] [] [] []; simple "r1"; simple "r2"]]])
  = map bs ["r4"; "r1"]%string.
Proof. vm_compute. reflexivity. Qed.

(* falco-ignore-start inside a subroutine body, never closed: the variable declared BEFORE it (unused/variable, reported when
   the subroutine ends) and the subroutine's own unused/declaration stay; r1, the rest of the body and the next subroutine go *)
Definition p_open_in_block : list decl :=
  [DSub mt [bs "scope"] [bs "unused/declaration"]
        (SBlock mt [SSimple mt [] [bs "unused/variable"]; st mt "r0"; st (lead "# falco-ignore-start") "r1"; st mt "r2"]);
   vsub [st mt "r3"]].
Example unrepaired_open_in_block :
  map snd (report_vcl_unrepaired p_open_in_block) = map bs ["scope"; "r0"]%string /\
  map snd (report_vcl p_open_in_block) = map bs ["scope"; "r0"; "unused/variable"; "unused/declaration"]%string.
Proof. vm_compute. split; reflexivity. Qed.
