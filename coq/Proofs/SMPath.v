(* C06: the flow of every request is a path of the documented state machine; vcl_log runs
   exactly once and last when no error is reported. *)
From Coq Require Import List ZArith NArith Bool Arith Lia Setoid.
From Falco Require Import Base.Res Base.SMBase Gen.SMConst Model.SM Model.SMDoc Proofs.SMBasics.
Import ListNotations.

Definition dn (n : node) : dnode :=
  match n with
  | NRecv => DRecv | NHit => DHit | NMiss => DMiss | NPass => DPass | NFetch => DFetch
  | NError => DError | NDeliver => DDeliver | NLog => DLog
  end.

(* the trace is kept newest first while the request runs *)
Fixpoint rpath (tr : list event) : Prop :=
  match tr with
  | e2 :: ((e1 :: _) as rest) => link e1 e2 /\ rpath rest
  | _ => True
  end.

(* the documented machine allows [n] to run next, with req.restarts = r *)
Definition pending (tr : list event) (n : node) (r : nat) : Prop :=
  match tr with
  | [] => n = NRecv /\ r = 0
  | (m, r0, a) :: _ =>
      exists t, doc_next m a = Some t /\ follows t (dn n) /\ r = (match t with TRestart => S r0 | _ => r0 end)
  end.

Fixpoint rlast (tr : list event) : option event :=
  match tr with
  | [] => None
  | [e] => Some e
  | _ :: t => rlast t
  end.
Definition rstart (tr : list event) : Prop :=
  match rlast tr with
  | None => True
  | Some (n, r, _) => n = DRecv /\ r = 0
  end.

Lemma rpath_push tr n r a : rpath tr -> pending tr n r -> rpath ((dn n, r, a) :: tr).
Proof.
  destruct tr as [|[[m r0] a0] tr]; cbn [rpath pending]; auto.
Qed.

Lemma rstart_push tr n r a : rstart tr -> pending tr n r -> rstart ((dn n, r, a) :: tr).
Proof.
  destruct tr as [|e tr]; cbn [pending].
  - intros _ [-> ->]. cbn. auto.
  - unfold rstart. cbn [rlast]. auto.
Qed.

Lemma rstart_cons e e' tr : rstart (e' :: tr) -> rstart (e :: e' :: tr).
Proof. unfold rstart. cbn [rlast]. auto. Qed.

Lemma count_log_cons e tr : count_log (e :: tr) = (if is_log e then 1 else 0) + count_log tr.
Proof. unfold count_log. cbn [filter]. destruct (is_log e); reflexivity. Qed.

Definition PI (n : node) (c : ctx) (_ : persistent) : Prop :=
  rpath (c_trace c) /\ pending (c_trace c) n (c_restarts c) /\ rstart (c_trace c) /\ count_log (c_trace c) = 0.

Definition PF (c : ctx) (_ : persistent) (err : bool) : Prop :=
  rpath (c_trace c) /\ rstart (c_trace c) /\
  (err = false -> exists r a tr, c_trace c = (DLog, r, a) :: tr /\ doc_next DLog a = Some TEnd /\ count_log tr = 0).

Ltac pending_now :=
  cbn [pending]; eexists; split; [reflexivity | split; [cbn [follows dn]; auto | reflexivity]].

Ltac link_now := unfold link; eexists; split; [reflexivity | split; [cbn [follows]; auto | reflexivity]].

Ltac path_case Hp Hn Hs Hl :=
  psimpl;
  repeat match goal with
  | |- _ /\ _ => split
  | |- rpath (_ :: _ :: _ :: _) => cbn [rpath]; fold rpath
  | |- rpath ((?d, _, _) :: ?t) =>
      first [ exact (rpath_push _ _ _ _ Hp Hn) | (split; [link_now | ]) ]
  | |- link _ _ => link_now
  | |- pending (_ :: _) _ _ => pending_now
  | |- rstart (_ :: _ :: _) => apply rstart_cons
  | |- rstart ((?d, _, _) :: ?t) => exact (rstart_push _ _ _ _ Hs Hn)
  | |- count_log (_ :: _) = 0 => rewrite count_log_cons; cbn [is_log fst]; cbn [Nat.add]
  | |- _ = false -> _ => first [ discriminate | intros _ ]
  | |- _ => assumption
  end.

Lemma step_path orc q n c p c' p' nx :
  PI n c p -> step orc q n c p = (c', p', nx) ->
  match nx with Goto n' => PI n' c' p' | Done => PF c' p' false | Fail => PF c' p' true end.
Proof.
  intros (Hp & Hn & Hs & Hl) H. unfold PI, PF.
  destruct n; step_cases H; path_case Hp Hn Hs Hl;
    (do 3 eexists; split; [reflexivity | split; [reflexivity | assumption]]).
Qed.

(* ---- from the newest-first trace of the run to the oldest-first flow of the report ---- *)
Lemma hd_rev_cons {A} (a : A) l : l <> [] -> hd_error (rev (a :: l)) = hd_error (rev l).
Proof.
  intros Hl. cbn [rev]. destruct (rev l) as [|x t] eqn:E.
  - exfalso. apply Hl. rewrite <- (rev_involutive l), E. reflexivity.
  - reflexivity.
Qed.

Lemma is_path_cons2 a b l : is_path (a :: b :: l) <-> link a b /\ is_path (b :: l).
Proof. reflexivity. Qed.

Lemma is_path_snoc l e2 :
  is_path (l ++ [e2]) <->
  is_path l /\ (match hd_error (rev l) with None => True | Some e1 => link e1 e2 end).
Proof.
  induction l as [|a l IH].
  - cbn. tauto.
  - destruct l as [|b l].
    + cbn. tauto.
    + rewrite hd_rev_cons by discriminate.
      change ((a :: b :: l) ++ [e2]) with (a :: b :: (l ++ [e2])).
      rewrite !is_path_cons2.
      change (b :: l ++ [e2]) with ((b :: l) ++ [e2]).
      rewrite IH. tauto.
Qed.

Lemma rpath_is_path tr : rpath tr <-> is_path (rev tr).
Proof.
  induction tr as [|e2 tr IH]; cbn [rev rpath]; [tauto|].
  rewrite is_path_snoc, rev_involutive, <- IH.
  destruct tr as [|e1 tr]; cbn [rpath hd_error]; tauto.
Qed.

Lemma rlast_rev tr : rlast tr = match rev tr with [] => None | e :: _ => Some e end.
Proof.
  induction tr as [|e tr IH]; [reflexivity|].
  destruct tr as [|e' tr]; [reflexivity|].
  change (rlast (e :: e' :: tr)) with (rlast (e' :: tr)). rewrite IH. cbn [rev].
  destruct (rev tr ++ [e']) as [|x t] eqn:E; [destruct (rev tr); discriminate|]. reflexivity.
Qed.

Lemma rstart_starts tr : rstart tr -> starts_at_recv (rev tr).
Proof.
  unfold rstart, starts_at_recv. rewrite rlast_rev. destruct (rev tr) as [|[[n r] a] t]; auto.
Qed.

Lemma count_log_rev tr : count_log (rev tr) = count_log tr.
Proof.
  unfold count_log. induction tr as [|e tr IH]; [reflexivity|].
  cbn [rev filter]. rewrite filter_app, app_length, IH. cbn [filter].
  destruct (is_log e); cbn [length]; lia.
Qed.

Lemma sm_path orc p q rep p' :
  run_request orc p q = OK (rep, p') ->
  is_path (r_trace rep) /\ starts_at_recv (r_trace rep).
Proof.
  unfold run_request. destruct (run sm_fuel orc q NRecv ctx0 p) as [[[c p1] e]| | |] eqn:E; try discriminate.
  intros H; inversion H; subst; cbn [r_trace].
  assert (HF : PF c p' e).
  { apply (run_inv PI PF orc q (step_path orc q)) with (2 := E).
    unfold PI. cbn. auto. }
  destruct HF as (H1 & H2 & _). split; [apply rpath_is_path; exact H1 | apply rstart_starts; exact H2].
Qed.

Lemma log_last_once orc p q rep p' :
  run_request orc p q = OK (rep, p') -> r_error rep = false ->
  (exists tr r a, r_trace rep = tr ++ [(DLog, r, a)] /\ doc_next DLog a = Some TEnd) /\
  count_log (r_trace rep) = 1.
Proof.
  unfold run_request. destruct (run sm_fuel orc q NRecv ctx0 p) as [[[c p1] e]| | |] eqn:E; try discriminate.
  intros H; inversion H; subst; cbn [r_trace r_error]. intros ->.
  assert (HF : PF c p' false).
  { apply (run_inv PI PF orc q (step_path orc q)) with (2 := E). unfold PI. cbn. auto. }
  destruct HF as (_ & _ & H3). destruct (H3 eq_refl) as (r & a & tr & Ht & Hd & Hc).
  rewrite Ht. cbn [rev]. split.
  - exists (rev tr), r, a. auto.
  - pose proof (count_log_rev tr) as Hr. unfold count_log in *.
    rewrite filter_app, app_length, Hr, Hc. reflexivity.
Qed.
