(* decodeStringEscapes terminates: every iteration consumes at least one byte. *)
From Coq Require Import List NArith ZArith Bool Lia.
From Falco Require Import Base.Bytes Base.Utf8 Gen.TokenTypes Model.ParseBase Model.ParseLit.
Import ListNotations.

Lemma dec_rune_size s : (1 <= snd (dec_rune s))%nat.
Proof.
  unfold dec_rune. destruct s as [|c0 t]; [simpl; lia|].
  repeat match goal with
  | |- context [if ?c then _ else _] => destruct c
  | |- context [match ?l with [] => _ | _ :: _ => _ end] => destruct l
  end; simpl; lia.
Qed.

Lemma read_byte_len s b s' : read_byte s = Some (b, s') -> (length s' + 2 = length s)%nat.
Proof.
  unfold read_byte. destruct s as [|a [|c r]]; try discriminate.
  destruct (is_hex a && is_hex c); [|discriminate]. intros H. inversion H; subst. simpl. lia.
Qed.

Lemma more_bytes_len k : forall s acc bs s', more_bytes k s acc = Some (bs, s') -> (length s' <= length s)%nat.
Proof.
  induction k as [|k IH]; intros s acc bs s' H; simpl in H.
  - inversion H; subst. lia.
  - destruct s as [|p s1]; [discriminate|]. destruct (is_c 37 p); [|discriminate].
    destruct (read_byte s1) as [[b s2]|] eqn:E; [|discriminate].
    apply read_byte_len in E. apply IH in H. simpl. lia.
Qed.

Lemma utf8_escape_len s out s' : utf8_escape s = EscOK out s' -> (length s' <= length s)%nat.
Proof.
  unfold utf8_escape. destruct (read_byte s) as [[b1 s1]|] eqn:E; [|discriminate].
  apply read_byte_len in E.
  destruct (b1 <? 128)%N.
  { destruct (b1 =? 0)%N; [discriminate|]. intros H. inversion H; subst. lia. }
  match goal with |- context [match ?n with O => _ | S _ => _ end] => destruct n as [|k] end; [discriminate|].
  destruct (more_bytes k s1 [n2b b1]) as [[bs s2]|] eqn:E2; [|discriminate].
  apply more_bytes_len in E2. destruct (dec_rune bs) as [r sz].
  destruct (r =? rune_error)%N; [discriminate|]. intros H. inversion H; subst. lia.
Qed.

Lemma hex_run_len k : forall s x cnt x' cnt' s', hex_run k s x cnt = (x', cnt', s') -> (length s' <= length s)%nat.
Proof.
  induction k as [|k IH]; intros s x cnt x' cnt' s' H; simpl in H.
  - inversion H; subst. lia.
  - destruct s as [|c s1]; [inversion H; subst; lia|].
    destruct (is_hex c); [|inversion H; subst; lia].
    apply IH in H. simpl. lia.
Qed.

Lemma code_point_result_len x s out s' : code_point_result x s = EscOK out s' -> s' = s.
Proof.
  unfold code_point_result. repeat (match goal with |- context [if ?c then _ else _] => destruct c end; try discriminate).
  intros H. inversion H. reflexivity.
Qed.

Lemma code_point_escape_len s out s' : code_point_escape s = EscOK out s' -> (length s' <= length s)%nat.
Proof.
  unfold code_point_escape. destruct s as [|b s1]; [discriminate|].
  destruct (is_c 123 b).
  - destruct (hex_run 6 s1 0 0) as [[x cnt] s2] eqn:E. apply hex_run_len in E.
    destruct (cnt <? 1)%nat; [discriminate|].
    destruct s2 as [|c s3]; [discriminate|]. destruct (is_c 125 c); [|discriminate].
    intros H. apply code_point_result_len in H. subst. simpl in *. lia.
  - destruct (hex_run 4 (b :: s1) 0 0) as [[x cnt] s2] eqn:E. apply hex_run_len in E.
    destruct (cnt <? 4)%nat; [discriminate|].
    intros H. apply code_point_result_len in H. subst. simpl in *. lia.
Qed.

Lemma pcons_fine out r : (r <> PFuel /\ r <> PCrash) -> pcons out r <> PFuel /\ pcons out r <> PCrash.
Proof. intros [H1 H2]. destruct r; simpl; split; congruence. Qed.

Lemma dec_esc_fine : forall fuel s, (length s < fuel)%nat ->
  dec_esc fuel s <> PFuel /\ dec_esc fuel s <> PCrash.
Proof.
  induction fuel as [|f IH]; intros s Hl; [lia|].
  cbn [dec_esc]. destruct s as [|b s0]; [split; discriminate|].
  set (s := b :: s0) in *.
  pose proof (dec_rune_size s) as Hsz. destruct (dec_rune s) as [c sz]. simpl in Hsz.
  assert (Hs1 : (length (skipn sz s) < length s)%nat).
  { rewrite skipn_length. unfold s. cbn [length]. lia. }
  destruct (c =? 0)%N; [split; discriminate|].
  destruct (c =? 37)%N.
  2:{ apply pcons_fine. apply IH. lia. }
  set (r := match skipn sz s with
            | [] => utf8_escape (skipn sz s)
            | u :: s2 => if is_c 117 u then code_point_escape s2 else utf8_escape (skipn sz s)
            end).
  assert (Hr : forall out s', r = EscOK out s' -> (length s' <= length (skipn sz s))%nat).
  { intros out s' Hr. subst r. destruct (skipn sz s) as [|u s2] eqn:E.
    - apply utf8_escape_len in Hr. exact Hr.
    - destruct (is_c 117 u).
      + apply code_point_escape_len in Hr. simpl. lia.
      + apply utf8_escape_len in Hr. exact Hr. }
  destruct r as [out s'| |] eqn:Er; try (split; discriminate).
  apply pcons_fine. apply IH. specialize (Hr out s' eq_refl). lia.
Qed.

Lemma decode_escapes_fine s : decode_escapes s <> PFuel /\ decode_escapes s <> PCrash.
Proof. unfold decode_escapes. apply dec_esc_fine. lia. Qed.
