(* C03 core over the token model: the significant tokens of [norm c ts] are those of [ts] up to
   exactly the documented rewrites - an inductive relation with one constructor per rewrite,
   each guarded by the option that switches it. *)
From Coq Require Import List Bool NArith Arith Lia.
From Falco Require Import Base.Bytes Model.FmtTok Model.FmtNorm Proofs.FmtComments.
Import ListNotations.

Inductive rewrites (c : fmt_config) : list tok -> list tok -> Prop :=
| rw_nil : rewrites c [] []
(* every other token is kept: same kind, same literal, same order *)
| rw_keep t a b : rewrites c a b -> rewrites c (t :: a) (t :: b)
(* explicit_string_concat = true: a "+" is inserted (between juxtaposed operands) *)
| rw_plus_ins a b : explicit_string_concat c = true -> rewrites c a b -> rewrites c a (t_plus :: b)
(* explicit_string_concat = false: a "+" is removed (when the right operand can be juxtaposed) *)
| rw_plus_del t a b : explicit_string_concat c = false -> kis (tk t) KPlus = true ->
    rewrites c a b -> rewrites c (t :: a) b
(* else_if = true: elseif / elsif are spelled "else if" *)
| rw_elseif t a b : else_if c = true -> kis (tk t) KElseIf || kis (tk t) KElsIf = true ->
    rewrites c a b -> rewrites c (t :: a) (t_else :: t_if :: b)
(* should_use_unset = true: remove is spelled unset *)
| rw_unset t a b : should_use_unset c = true -> kis (tk t) KRemove = true ->
    rewrites c a b -> rewrites c (t :: a) (t_unset :: b)
(* return_statement_parenthesis = true: "(" and ")" are inserted around a return value *)
| rw_paren_ins x a b : return_statement_parenthesis c = true -> x = t_lparen \/ x = t_rparen ->
    rewrites c a b -> rewrites c a (x :: b)
(* a parenthesis is removed: around a return value (option false, or subroutine with a return
   type), or the empty "()" of "call f();" and "sub f() {" *)
| rw_paren_del t a b : kis (tk t) KLParen || kis (tk t) KRParen = true ->
    rewrites c a b -> rewrites c (t :: a) b
(* a table body always ends with a comma *)
| rw_comma_ins a b : rewrites c a b -> rewrites c a (t_comma :: b).

(* the return state promises parentheses only when the option asks for them *)
Definition ret_ok (c : fmt_config) (s : st) : Prop :=
  match rt s with
  | RWant true | RBody true _ _ => return_statement_parenthesis c = true
  | _ => True
  end.

Lemma ret_ok_adv c s t : ret_ok c s -> ret_ok c (adv c s t).
Proof.
  unfold ret_ok, adv. destruct (next_mode (mode s) (pe s) t) as [m' p'].
  destruct (kis (tk t) KRBrace && Nat.leb (depth s) 1 || kis (tk t) KSemi && Nat.eqb (depth s) 0); simpl; auto.
  destruct (rt s) as [|w|w dr d]; simpl.
  - intros _. destruct (kis (tk t) KReturn && _); simpl; auto.
    destruct (return_statement_parenthesis c) eqn:E; simpl; auto. destruct (negb (fn s)); auto.
  - intros H. destruct (terminator (tk t)); simpl; auto; try (destruct w; auto).
  - intros H. destruct (terminator (tk t)); simpl; auto.
    destruct (kis (tk t) KLParen); simpl; [try (destruct w; auto); auto|].
    destruct (kis (tk t) KRParen); simpl; auto; try (destruct w; auto).
Qed.

Lemma ret_ok_fold c l : forall s, ret_ok c s -> ret_ok c (fold_left (adv c) l s).
Proof. induction l; simpl; auto. intros s H. apply IHl. now apply ret_ok_adv. Qed.

Lemma ret_ok_patch c p s : ret_ok c s -> ret_ok c (apply_patch p s).
Proof.
  unfold ret_ok. destruct p; simpl; auto.
  destruct (rt s) as [|w|w dr d]; simpl; auto.
Qed.

Lemma ret_ok_step0 c s cs t nk out s' carry :
  ret_ok c s -> step0 c s cs t nk = (out, s', carry) -> ret_ok c s'.
Proof.
  unfold step0. destruct (emit (decide c s t nk) cs t) as [o ca].
  intros H E. injection E as _ E2 _. subst s'.
  destruct (decide c s t nk); try (now apply ret_ok_fold).
  apply ret_ok_patch. now apply ret_ok_fold.
Qed.

Lemma ret_ok_step c s cs t nk out s' carry :
  ret_ok c s -> step c s cs t nk = (out, s', carry) -> ret_ok c s'.
Proof.
  unfold step. intros H. destruct (opens_return s t).
  - destruct (step0 c (adv c s t_lparen) cs t nk) as [[o s1] ca] eqn:E0.
    intros E. injection E as _ E2 _. subst s'.
    eapply ret_ok_step0; [|exact E0]. now apply ret_ok_adv.
  - now apply ret_ok_step0.
Qed.

Lemma item_toks_app a b : item_toks (a ++ b) = item_toks a ++ item_toks b.
Proof. unfold item_toks. apply map_app. Qed.

Lemma item_toks_nocom (l : list tok) : item_toks (map (fun y => ([] : list com, y)) l) = l.
Proof. unfold item_toks. rewrite map_map. simpl. apply map_id. Qed.

Lemma rw_parens_ins c n a b :
  return_statement_parenthesis c = true -> rewrites c a b -> rewrites c a (repeat t_rparen n ++ b).
Proof. intros H R. induction n; simpl; auto. apply rw_paren_ins; auto. Qed.

Lemma spelling_rw c t cs a b :
  rewrites c a b -> rewrites c (t :: a) (item_toks (fst (emit (spelling c t) cs t)) ++ b).
Proof.
  intros H. unfold spelling.
  destruct (else_if c && (kis (tk t) KElseIf || kis (tk t) KElsIf)) eqn:E1.
  { apply andb_true_iff in E1 as [E1 E2]. simpl. now apply rw_elseif. }
  destruct (should_use_unset c && kis (tk t) KRemove) eqn:E2.
  { apply andb_true_iff in E2 as [E2 E3]. simpl. now apply rw_unset. }
  simpl. now apply rw_keep.
Qed.

Lemma normal_rw c s t nk cs a b :
  rewrites c a b -> rewrites c (t :: a) (item_toks (fst (emit (normal c s t nk) cs t)) ++ b).
Proof.
  intros H. unfold normal.
  destruct (tbl s && kis (tk t) KRBrace && negb (kis (prev s) KComma || kis (prev s) KLBrace)).
  { simpl. destruct (split_lf0 cs). simpl. apply rw_comma_ins. now apply rw_keep. }
  destruct (inexpr (mode s) && pe s); [|now apply spelling_rw].
  destruct (explicit_string_concat c && juxt (tk t)) eqn:E1.
  { apply andb_true_iff in E1 as [E1 _]. simpl. apply rw_plus_ins; auto. now apply rw_keep. }
  destruct (negb (explicit_string_concat c) && kis (tk t) KPlus && nk_juxt nk) eqn:E2.
  { apply andb_true_iff in E2 as [E2 _]. apply andb_true_iff in E2 as [E2 E3].
    apply negb_true_iff in E2. simpl. now apply rw_plus_del. }
  now apply spelling_rw.
Qed.

Lemma decide_rw c s t nk cs a b :
  ret_ok c s ->
  rewrites c a b -> rewrites c (t :: a) (item_toks (fst (emit (decide c s t nk) cs t)) ++ b).
Proof.
  intros Hr H. unfold decide.
  destruct (dp s && kis (tk t) KRParen) eqn:E0.
  { apply andb_true_iff in E0 as [_ E0]. simpl. apply rw_paren_del; auto. now rewrite E0, orb_true_r. }
  destruct (kis (tk t) KLParen && nk_is nk KRParen && _) eqn:E1.
  { apply andb_true_iff in E1 as [E1 _]. apply andb_true_iff in E1 as [E1 _].
    simpl. apply rw_paren_del; auto. now rewrite E1. }
  unfold ret_ok in Hr. destruct (rt s) as [|w|w dr d].
  - now apply normal_rw.
  - destruct w.
    + now apply normal_rw.
    + destruct (kis (tk t) KLParen && negb (nk_is nk KLParen)) eqn:E2; [|now apply normal_rw].
      apply andb_true_iff in E2 as [E2 _]. simpl. apply rw_paren_del; auto. now rewrite E2.
  - destruct (kis (tk t) KRParen && Nat.eqb d 0 && dr && nk_is nk KSemi) eqn:E2.
    { apply andb_true_iff in E2 as [E2 _]. apply andb_true_iff in E2 as [E2 _].
      apply andb_true_iff in E2 as [E2 _]. simpl. apply rw_paren_del; auto. now rewrite E2, orb_true_r. }
    destruct (kis (tk t) KSemi && w && Nat.ltb 0 d) eqn:E3; [|now apply normal_rw].
    apply andb_true_iff in E3 as [E3 _]. apply andb_true_iff in E3 as [_ E3]. subst w.
    destruct d as [|m]; [simpl; now apply rw_keep|].
    unfold emit. cbn [fst]. unfold item_toks. cbn [map snd].
    change (map snd (map (fun y : tok => ([] : list com, y)) (repeat t_rparen m ++ [t])))
      with (item_toks (map (fun y : tok => ([] : list com, y)) (repeat t_rparen m ++ [t]))).
    rewrite item_toks_nocom. cbn [app]. apply rw_paren_ins; auto.
    rewrite <- app_assoc. apply rw_parens_ins; auto. simpl. now apply rw_keep.
Qed.

Lemma step0_rw c s cs t nk out s' carry a b :
  ret_ok c s -> step0 c s cs t nk = (out, s', carry) ->
  rewrites c a b -> rewrites c (t :: a) (item_toks out ++ b).
Proof.
  intros Hr E R. unfold step0 in E.
  destruct (emit (decide c s t nk) cs t) as [o' ca'] eqn:Ee.
  injection E as E1 _ _. subst o'.
  pose proof (decide_rw c s t nk cs _ _ Hr R) as H. rewrite Ee in H. exact H.
Qed.

Lemma opens_return_paren c s t : ret_ok c s -> opens_return s t = true -> return_statement_parenthesis c = true.
Proof.
  unfold ret_ok, opens_return. destruct (rt s) as [|[|]|]; auto; discriminate.
Qed.

Lemma step_rw c s cs t nk out s' carry a b :
  ret_ok c s -> step c s cs t nk = (out, s', carry) ->
  rewrites c a b -> rewrites c (t :: a) (item_toks out ++ b).
Proof.
  intros Hr E R. unfold step in E. destruct (opens_return s t) eqn:Eo.
  - destruct (step0 c (adv c s t_lparen) cs t nk) as [[o s1] ca] eqn:E0.
    injection E as E1 _ _. subst out. simpl.
    apply rw_paren_ins; auto. { eapply opens_return_paren; eauto. }
    eapply (step0_rw c (adv c s t_lparen)); [now apply ret_ok_adv | exact E0 | exact R].
  - eapply step0_rw; eauto.
Qed.

Theorem run_rewrites c : forall its s carry out tl,
  ret_ok c s -> run c s carry its = (out, tl) -> rewrites c (item_toks its) (item_toks out).
Proof.
  induction its as [|[cs t] rest IH]; intros s carry out tl Hr; simpl.
  - intros E; inversion E; subst. constructor.
  - destruct (step c s (carry ++ cs) t (head_kind rest)) as [[o s'] ca] eqn:Es.
    destruct (run c s' ca rest) as [outs tail] eqn:Er.
    intros E; inversion E; subst.
    pose proof (ret_ok_step _ _ _ _ _ _ _ _ Hr Es) as Hr'.
    specialize (IH _ _ _ _ Hr' Er).
    rewrite item_toks_app. eapply step_rw; [exact Hr | exact Es | exact IH].
Qed.

Lemma ret_ok_st0 c : ret_ok c st0.
Proof. exact I. Qed.

Theorem norm_significant c ts :
  sort_declaration c = false ->
  rewrites c (significant ts) (significant (norm c ts)).
Proof.
  intros Hs. unfold norm, norm_items.
  destruct (to_items [] ts) as [its tail] eqn:Et.
  destruct (run c st0 [] (map (restyle_item c) its)) as [out tl1] eqn:Er.
  destruct (keep_tail out (tl1 ++ map (restyle c) tail)) as [tr rest].
  apply run_rewrites in Er; [|apply ret_ok_st0].
  rewrite item_toks_restyle in Er.
  apply to_items_significant in Et. rewrite <- Et.
  assert (H : rewrites c (item_toks its) (significant (of_items out (tr ++ rest))))
    by now rewrite significant_of_items.
  destruct (chunks 0 [] out) as [gs0 rest0]. destruct rest0; [|exact H].
  rewrite Hs. exact H.
Qed.
