(* C06: concrete, non-trivial witnesses for the hypotheses of the theorems (evaluated by vm_compute). *)
From Coq Require Import List ZArith NArith Bool Arith.
From Falco Require Import Base.Res Base.SMBase Gen.SMConst Model.SM Model.SMDoc.
Import ListNotations.

(* vcl_deliver restarts once, the restarted vcl_recv raises an error, vcl_error delivers *)
Definition ex_oracle : oracle := fun sc r =>
  match sc, r with
  | Deliver, 0 => ARet SRestart
  | Recv, 1 => AErrorStmt
  | _, _ => ANone
  end.
Definition ex_request (now : Z) : request :=
  mkQ now (fun _ => 5%N) true (fun _ => Some (true, 10000%Z)) (fun _ => None)
      (fun r => match r with 0 => [OIncr 1%N 2%Z; OPbHas 9%N] | _ => [OPbAdd 9%N 30000%Z] end)
      (fun _ _ => Some 601).
Definition plain : oracle := fun _ _ => ANone.

(* three requests to one simulator: cold with a restart, warm (HIT) 5 s later, expired 20 s later *)
Definition ex_history : list (oracle * request) :=
  [(ex_oracle, ex_request 1000); (plain, ex_request 6000); (plain, ex_request 26000)].

Example ex_history_runs :
  match run_history ex_history init with
  | OK ([r1; r2; r3], _) =>
      r_flows r1 = [Recv; Hash; Miss; Fetch; Deliver; Recv; Error; Deliver; Log] /\ r_restarts r1 = 1 /\
      r_cached r1 = false /\ r_xcache r1 = Some XMiss /\ r_error r1 = false /\ r_obs r1 = [2%Z; 0%Z] /\
      r_flows r2 = [Recv; Hash; Hit; Deliver; Log] /\ r_cached r2 = true /\ r_xcache r2 = Some XHit /\
      r_obs r2 = [4%Z; 1%Z] /\
      r_flows r3 = [Recv; Hash; Miss; Fetch; Deliver; Log] /\ r_cached r3 = false /\ r_xcache r3 = Some XMiss
  | _ => False
  end.
Proof. vm_compute. repeat split; reflexivity. Qed.

(* a restart asked for at the limit is a reported error, with restarts = 3 *)
Example ex_restart_limit :
  match run_request (fun sc _ => match sc with Deliver => ARet SRestart | _ => ANone end) init (ex_request 0) with
  | OK (r, _) => r_restarts r = 3 /\ r_error r = true /\ count_log (r_trace r) = 0 /\ length (r_trace r) = 17
  | _ => False
  end.
Proof. vm_compute. repeat split; reflexivity. Qed.

(* a request that passes does not populate the cache: the next lookup of the same hash misses *)
Example ex_pass_then_lookup :
  match run_history [((fun sc _ => match sc with Recv => ARet SPass | _ => ANone end), ex_request 1000);
                     (plain, ex_request 2000)] init with
  | OK ([r1; r2], _) =>
      r_flows r1 = [Recv; Hash; Pass; Fetch; Deliver; Log] /\
      r_flows r2 = [Recv; Hash; Miss; Fetch; Deliver; Log] /\ r_cached r2 = false /\ r_xhits r2 = Some 0
  | _ => False
  end.
Proof. vm_compute. repeat split; reflexivity. Qed.

(* subroutines that are not defined leave no flow entry; without vcl_recv the request is looked up *)
Example ex_absent :
  match run_history [((fun sc _ => match sc with Recv | Hash | Log => AAbsent | _ => ANone end), ex_request 1000);
                     ((fun sc _ => match sc with Recv | Hash | Log => AAbsent | _ => ANone end), ex_request 2000)] init with
  | OK ([r1; r2], _) =>
      r_flows r1 = [Miss; Fetch; Deliver] /\ r_flows r2 = [Hit; Deliver] /\ r_cached r2 = true /\
      r_xhits r2 = Some 1 /\ length (r_trace r2) = 5
  | _ => False
  end.
Proof. vm_compute. repeat split; reflexivity. Qed.

(* RECORDED FINDING (known_findings.txt, history hit_for_pass): the documented machine keeps a hit-for-pass
   object when vcl_fetch ends with return(pass), so that the next lookup of that hash goes to vcl_pass.  The
   simulator (and therefore the faithful model) has no such object: the second request runs vcl_miss. *)
Lemma hit_for_pass_refuted :
  exists orc1 orc2 q rs p,
    orc1 Fetch 0 = ARet SPass /\
    run_history [(orc1, q); (orc2, q)] init = OK (rs, p) /\
    match rs with
    | [_; r2] => existsb (scope_eqb Miss) (r_flows r2) = true /\ existsb (scope_eqb Pass) (r_flows r2) = false
    | _ => False
    end.
Proof.
  exists (fun sc _ => match sc with Fetch => ARet SPass | _ => ANone end), plain, (ex_request 1000).
  eexists. eexists. split; [reflexivity|]. split; [vm_compute; reflexivity|]. vm_compute. split; reflexivity.
Qed.
