(* C08 - include expansion is total: self / mutual includes end in an error. *)
From Coq Require Import List Arith Bool Lia.
From Falco Require Import Base.Res Model.EvalInclude.
Import ListNotations.

Lemma mem_In n l : mem n l = true <-> In n l.
Proof.
  induction l as [|x t IH]; cbn; [split; [discriminate|tauto]|].
  rewrite orb_true_iff, Nat.eqb_eq, IH. tauto.
Qed.

Lemma nodup_bounded_length (l : list nat) n : NoDup l -> (forall x, In x l -> x < n) -> length l <= n.
Proof.
  intros Hnd Hb. rewrite <- (seq_length n 0). apply NoDup_incl_length; [assumption|].
  intros x Hx. apply in_seq. specialize (Hb x Hx). lia.
Qed.

(* one-step unfolding of the statement loop *)
Definition go (k : nat) (mods : modules) (including : list nat) :=
  fix go (ss : list item) : res (list nat) :=
    match ss with
    | [] => OK []
    | IStmt t :: rest => match go rest with OK out => OK (t :: out) | e => e end
    | IInclude m :: rest =>
        if mem m including then Err
        else match nth_error mods m with
             | None => Err
             | Some body =>
                 match resolve k mods (m :: including) body with
                 | OK inner => match go rest with OK out => OK (inner ++ out) | e => e end
                 | e => e
                 end
             end
    end.

Lemma resolve_S k mods including ss : resolve (S k) mods including ss = go k mods including ss.
Proof. reflexivity. Qed.

Definition fine {A} (r : res A) : Prop := r <> OutOfFuel /\ r <> Crash.

Lemma resolve_fine : forall fuel mods including ss,
  NoDup including -> (forall x, In x including -> x < length mods) ->
  length mods < fuel + length including ->
  fine (resolve fuel mods including ss).
Proof.
  induction fuel as [|k IH]; intros mods including ss Hnd Hb Hlen.
  - pose proof (nodup_bounded_length including (length mods) Hnd Hb). lia.
  - rewrite resolve_S. induction ss as [|[m|t] rest IHss]; cbn.
    + split; discriminate.
    + destruct (mem m including) eqn:Hm; [split; discriminate|].
      destruct (nth_error mods m) as [body|] eqn:Hn; [|split; discriminate].
      assert (Hfine : fine (resolve k mods (m :: including) body)).
      { apply IH.
        - constructor; [|assumption]. intros Hin. apply mem_In in Hin. congruence.
        - intros x [<-|Hx]; [apply nth_error_Some; congruence|now apply Hb].
        - cbn. lia. }
      destruct Hfine as [H1 H2]. destruct (resolve k mods (m :: including) body); try (split; congruence).
      destruct IHss as [H3 H4]. destruct (go k mods including rest); split; congruence.
    + destruct IHss as [H3 H4]. destruct (go k mods including rest); split; congruence.
Qed.

(* fuel = number of modules + 1 is always enough, whatever the modules include *)
Theorem include_total : forall (mods : modules) (ss : list item),
  resolve (S (length mods)) mods [] ss <> OutOfFuel /\ resolve (S (length mods)) mods [] ss <> Crash.
Proof.
  intros mods ss. apply resolve_fine; [constructor|intros x []|cbn; lia].
Qed.

(* an expansion that succeeds met no include of a module that is being expanded ... *)
Lemma resolve_ok_not_including : forall fuel mods including ss out m,
  resolve fuel mods including ss = OK out -> In (IInclude m) ss -> ~ In m including.
Proof.
  intros [|k] mods including ss out m; [discriminate|]. rewrite resolve_S. revert out.
  induction ss as [|[m'|t] rest IHss]; intros out H Hin; [contradiction| |].
  - cbn in H. destruct (mem m' including) eqn:Hm; [discriminate|].
    destruct (nth_error mods m'); [|discriminate].
    destruct (resolve k mods (m' :: including) l); try discriminate.
    destruct (go k mods including rest) eqn:Hr; try discriminate.
    destruct Hin as [Heq|Hin].
    + injection Heq as <-. intros Hi. apply mem_In in Hi. congruence.
    + eapply IHss; eauto.
  - cbn in H. destruct (go k mods including rest) eqn:Hr; try discriminate.
    destruct Hin as [Heq|Hin]; [discriminate|]. eapply IHss; eauto.
Qed.

(* ... and expanded every module it includes, one level down *)
Lemma resolve_ok_inner : forall k mods including ss out m,
  resolve (S k) mods including ss = OK out -> In (IInclude m) ss ->
  exists body out', nth_error mods m = Some body /\ resolve k mods (m :: including) body = OK out'.
Proof.
  intros k mods including ss out m. rewrite resolve_S. revert out.
  induction ss as [|[m'|t] rest IHss]; intros out H Hin; [contradiction| |].
  - cbn in H. destruct (mem m' including) eqn:Hm; [discriminate|].
    destruct (nth_error mods m') as [body|] eqn:Hn; [|discriminate].
    destruct (resolve k mods (m' :: including) body) eqn:Hi; try discriminate.
    destruct (go k mods including rest) eqn:Hr; try discriminate.
    destruct Hin as [Heq|Hin].
    + injection Heq as <-. eauto.
    + eapply IHss; eauto.
  - cbn in H. destruct (go k mods including rest) eqn:Hr; try discriminate.
    destruct Hin as [Heq|Hin]; [discriminate|]. eapply IHss; eauto.
Qed.

(* a module that includes itself: the expansion of an include of it is an error *)
Theorem self_include_err : forall (mods : modules) m body,
  nth_error mods m = Some body -> In (IInclude m) body ->
  resolve (S (length mods)) mods [] [IInclude m] = Err.
Proof.
  intros mods m body Hn Hin.
  destruct (include_total mods [IInclude m]) as [H1 H2].
  destruct (resolve (S (length mods)) mods [] [IInclude m]) as [out| | |] eqn:E; try congruence.
  exfalso.
  destruct (length mods) as [|k] eqn:Hl.
  - apply nth_error_In in Hn. destruct mods; [contradiction|discriminate].
  - destruct (resolve_ok_inner _ _ _ _ _ m E (or_introl eq_refl)) as (body' & out' & Hn' & Hr).
    rewrite Hn in Hn'. injection Hn' as <-.
    eapply (resolve_ok_not_including _ _ _ _ _ m Hr Hin). now left.
Qed.

(* two modules that include each other *)
Theorem mutual_include_err : forall (mods : modules) a b body_a body_b,
  nth_error mods a = Some body_a -> nth_error mods b = Some body_b ->
  In (IInclude b) body_a -> In (IInclude a) body_b ->
  resolve (S (length mods)) mods [] [IInclude a] = Err.
Proof.
  intros mods a b body_a body_b Ha Hb Hab Hba.
  destruct (include_total mods [IInclude a]) as [H1 H2].
  destruct (resolve (S (length mods)) mods [] [IInclude a]) as [out| | |] eqn:E; try congruence.
  exfalso.
  destruct (length mods) as [|[|k]] eqn:Hl.
  - apply nth_error_In in Ha. destruct mods; [contradiction|discriminate].
  - (* a single module: a = b = 0, a self include *)
    assert (a = 0) by (assert (a < length mods) by (apply nth_error_Some; congruence); lia).
    assert (b = 0) by (assert (b < length mods) by (apply nth_error_Some; congruence); lia).
    subst. rewrite Ha in Hb. injection Hb as <-.
    destruct (resolve_ok_inner _ _ _ _ _ 0 E (or_introl eq_refl)) as (body' & out' & Hn' & Hr).
    rewrite Ha in Hn'. injection Hn' as <-.
    eapply (resolve_ok_not_including _ _ _ _ _ 0 Hr Hab). now left.
  - destruct (resolve_ok_inner _ _ _ _ _ a E (or_introl eq_refl)) as (ba & oa & Hna & Hra).
    rewrite Ha in Hna. injection Hna as <-.
    destruct (resolve_ok_inner _ _ _ _ _ b Hra Hab) as (bb & ob & Hnb & Hrb).
    rewrite Hb in Hnb. injection Hnb as <-.
    eapply (resolve_ok_not_including _ _ _ _ _ a Hrb Hba). right. now left.
Qed.

(* the unchanged tree: no amount of fuel is enough for a self-including module (in Go: the
   recursion goes on until the stack overflows) *)
Lemma resolve_old_step k :
  resolve_old (S k) [[IInclude 0]] [IInclude 0] =
  match resolve_old k [[IInclude 0]] [IInclude 0] with OK inner => OK (inner ++ []) | e => e end.
Proof. reflexivity. Qed.

Theorem resolve_old_diverges : forall fuel, resolve_old fuel [[IInclude 0]] [IInclude 0] = OutOfFuel.
Proof. induction fuel as [|k IH]; [reflexivity|]. rewrite resolve_old_step, IH. reflexivity. Qed.

Example include_ok : resolve 4 [[IStmt 1; IInclude 1; IStmt 2]; [IStmt 10; IInclude 2]; [IStmt 20]] [] [IInclude 0; IInclude 2]
                     = OK [1; 10; 20; 2; 20].
Proof. reflexivity. Qed.
Example include_self : resolve 2 [[IStmt 1; IInclude 0]] [] [IInclude 0] = Err.
Proof. reflexivity. Qed.
Example include_mutual : resolve 3 [[IInclude 1]; [IInclude 0]] [] [IInclude 0] = Err.
Proof. reflexivity. Qed.
