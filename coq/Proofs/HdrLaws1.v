(* C17 - whole-header laws: get/set, get/unset, newline truncation, case-insensitive names,
   frame for other headers.  All of them hold in EVERY state (hence after every history). *)
From Coq Require Import List NArith Bool Lia.
From Coq Require Import Strings.Byte.
From Falco Require Import Base.Bytes Model.HdrField Model.Hdr Model.HdrSpec
  Proofs.HdrBytes Proofs.HdrStore.
Import ListNotations.

Definition get (kd : kind) (st : hstate) (t : bytes) : obs := snd (step kd st (OGet t)).
Definition after (kd : kind) (st : hstate) (o : op) : hstate := fst (step kd st o).
Definition state_after (kd : kind) (h : list op) : hstate := fst (run kd st0 h).

(* `Name:key` *)
Definition ftarget (n k : bytes) : bytes := n ++ c_colon :: k.

Definition is_none {A} (o : option A) : bool := match o with None => true | Some _ => false end.

(* a header name the theorems speak about: token characters, not protected, no wildcard *)
Definition whole_ok (n : bytes) : bool :=
  forallb tchar n && negb (protected n) && is_none (cut_star n).
Definition field_ok (kd : kind) (n k : bytes) : bool :=
  forallb tchar n && negb (protected (ftarget n k)) && is_none (cut_star (ftarget n k)) &&
  match kd with KReq => negb (is_cookie n) | KResp => true end.

(* ---- reading after a step, on the abstract side ---- *)
Lemma get_after kd st o t :
  get kd (after kd st o) t =
  snd (sstep (fst (sstep (abs st) (classify kd o))) (classify kd (OGet t))).
Proof.
  unfold get, after.
  destruct (refine_step kd (fst (step kd st o)) (OGet t)) as [H1 _]. rewrite H1.
  destruct (refine_step kd st o) as [_ H2].
  destruct (sstep_ext _ _ (classify kd (OGet t)) H2) as [H3 _]. exact H3.
Qed.

Lemma get_abs kd st t : get kd st t = snd (sstep (abs st) (classify kd (OGet t))).
Proof. unfold get. destruct (refine_step kd st (OGet t)) as [H1 _]. exact H1. Qed.

(* ---- name parsing ---- *)
Lemma tchar_not_colon c : tchar c = true -> byte_eqb c c_colon = false.
Proof. destruct c; cbv; intros H; try reflexivity; discriminate H. Qed.

Lemma cut_colon_whole n : forallb tchar n = true -> cut_colon n = (n, [], false).
Proof.
  induction n as [|c n IH]; simpl; intros H; [reflexivity|].
  apply andb_true_iff in H. destruct H as [Hc Hn]. rewrite (tchar_not_colon c Hc), (IH Hn). reflexivity.
Qed.

Lemma cut_colon_field n k : forallb tchar n = true -> cut_colon (ftarget n k) = (n, k, true).
Proof.
  unfold ftarget. induction n as [|c n IH]; simpl; intros H; [reflexivity|].
  apply andb_true_iff in H. destruct H as [Hc Hn]. rewrite (tchar_not_colon c Hc), (IH Hn). reflexivity.
Qed.

Lemma whole_ok_inv n : whole_ok n = true -> forallb tchar n = true /\ protected n = false /\ cut_star n = None.
Proof.
  unfold whole_ok. intros H. apply andb_true_iff in H. destruct H as [H H3].
  apply andb_true_iff in H. destruct H as [H1 H2]. apply negb_true_iff in H2.
  destruct (cut_star n); [discriminate|]. auto.
Qed.

Lemma field_ok_inv kd n k : field_ok kd n k = true ->
  forallb tchar n = true /\ protected (ftarget n k) = false /\ cut_star (ftarget n k) = None /\
  match kd with KReq => is_cookie n = false | KResp => True end.
Proof.
  unfold field_ok. intros H. apply andb_true_iff in H. destruct H as [H H4].
  apply andb_true_iff in H. destruct H as [H H3]. apply andb_true_iff in H. destruct H as [H1 H2].
  apply negb_true_iff in H2. destruct (cut_star (ftarget n k)); [discriminate|].
  repeat split; auto. destruct kd; [apply negb_true_iff; exact H4 | exact I].
Qed.

Lemma classify_get_whole kd n : forallb tchar n = true ->
  classify kd (OGet n) = SRead (canon n) [] (match kd with KReq => is_cookie n | KResp => false end).
Proof. intros H. unfold classify. rewrite (cut_colon_whole n H). reflexivity. Qed.

Lemma classify_get_field kd n k : forallb tchar n = true ->
  classify kd (OGet (ftarget n k)) = SRead (canon n) k (match kd with KReq => is_cookie n | KResp => false end).
Proof. intros H. unfold classify. rewrite (cut_colon_field n k H). reflexivity. Qed.

Lemma classify_set_whole kd n v : whole_ok n = true -> classify kd (OSet n v) = SWrite (canon n) v.
Proof.
  intros H. apply whole_ok_inv in H. destruct H as (H1 & H2 & _).
  unfold classify. rewrite H2, (cut_colon_whole n H1). reflexivity.
Qed.

Lemma classify_unset_whole kd n : whole_ok n = true -> classify kd (OUnset n) = SRemove (canon n).
Proof.
  intros H. apply whole_ok_inv in H. destruct H as (H1 & H2 & H3).
  unfold classify. rewrite H2, H3, (cut_colon_whole n H1). reflexivity.
Qed.

Lemma classify_add_whole kd n v : whole_ok n = true -> classify kd (OAdd n v) = SAppend (canon n) (val_string v).
Proof.
  intros H. apply whole_ok_inv in H. destruct H as (_ & H2 & _). unfold classify. rewrite H2. reflexivity.
Qed.

Lemma classify_set_field kd n k v : field_ok kd n k = true ->
  classify kd (OSet (ftarget n k) v) = SWriteField (canon n) k v.
Proof.
  intros H. apply field_ok_inv in H. destruct H as (H1 & H2 & _ & H4).
  unfold classify. rewrite H2, (cut_colon_field n k H1). cbn [negb].
  destruct kd; [rewrite H4|]; reflexivity.
Qed.

Lemma classify_unset_field kd n k : field_ok kd n k = true ->
  classify kd (OUnset (ftarget n k)) = SRemoveField (canon n) k.
Proof.
  intros H. apply field_ok_inv in H. destruct H as (H1 & H2 & H3 & H4).
  unfold classify. rewrite H2, H3, (cut_colon_field n k H1). cbn [negb].
  destruct kd; [rewrite H4|]; reflexivity.
Qed.

Lemma upd_same {A} (f : bytes -> A) k v : upd f k v k = v.
Proof. unfold upd. rewrite beq_refl. reflexivity. Qed.

Lemma upd_other {A} (f : bytes -> A) k v n : beq k n = false -> upd f k v n = f n.
Proof. unfold upd. intros ->. reflexivity. Qed.

(* ---- get after set ---- *)
Theorem get_set_state kd st n n' v :
  whole_ok n = true -> eqfold n n' ->
  get kd (after kd st (OSet n (VStr v))) n' = ORead (RStr (cut_lf v)).
Proof.
  intros Hn Hf. rewrite get_after. rewrite (classify_set_whole kd n _ Hn).
  pose proof (whole_ok_inv n Hn) as (Ht & _ & _).
  assert (Ht' : forallb tchar n' = true).
  { rewrite <- forallb_tchar_lower. unfold eqfold in Hf. rewrite <- Hf. rewrite forallb_tchar_lower. exact Ht. }
  rewrite (classify_get_whole kd n' Ht'). rewrite <- (canon_fold n n' Hf Ht).
  unfold sstep. cbn [fst snd]. unfold first_val. cbn [a_vals a_asg]. rewrite !upd_same.
  destruct (cut_lf v); reflexivity.
Qed.

(* ---- get after unset / after set to the not-set value ---- *)
Theorem get_unset_state kd st n n' :
  whole_ok n = true -> eqfold n n' ->
  get kd (after kd st (OUnset n)) n' = ORead RNotSet /\
  get kd (after kd st (OSet n VNotSet)) n' = ORead RNotSet.
Proof.
  intros Hn Hf.
  pose proof (whole_ok_inv n Hn) as (Ht & _ & _).
  assert (Ht' : forallb tchar n' = true).
  { rewrite <- forallb_tchar_lower. unfold eqfold in Hf. rewrite <- Hf. rewrite forallb_tchar_lower. exact Ht. }
  split; rewrite get_after; rewrite ?(classify_unset_whole kd n Hn), ?(classify_set_whole kd n _ Hn);
    rewrite (classify_get_whole kd n' Ht'); rewrite <- (canon_fold n n' Hf Ht);
    unfold sstep; cbn [fst snd]; unfold first_val; cbn [a_vals a_asg]; rewrite !upd_same; reflexivity.
Qed.

(* ---- newline truncation ---- *)
Lemma cut_lf_app a b : forallb (fun c => negb (byte_eqb c c_lf)) a = true -> cut_lf (a ++ c_lf :: b) = a.
Proof.
  induction a as [|c a IH]; simpl; intros H.
  - reflexivity.
  - apply andb_true_iff in H. destruct H as [Hc Ha]. apply negb_true_iff in Hc. rewrite Hc, (IH Ha). reflexivity.
Qed.

Theorem newline_truncation_state kd st n n' a b :
  whole_ok n = true -> eqfold n n' -> no_lf a = true ->
  get kd (after kd st (OSet n (VStr (a ++ c_lf :: b)))) n' = ORead (RStr a).
Proof. intros Hn Hf Ha. rewrite (get_set_state kd st n n' _ Hn Hf). rewrite (cut_lf_app a b Ha). reflexivity. Qed.

(* ---- frame: operations on one header leave every other header alone ---- *)
Definition hdr_of (t : bytes) : bytes := fst (fst (cut_colon t)).

(* the canonical name an operation writes to (wildcard unset excluded by hypothesis below) *)
Definition touched (o : op) : option bytes :=
  match o with
  | OGet _ => None
  | OSet t _ => Some (canon (hdr_of t))
  | OUnset t => Some (canon (hdr_of t))
  | OAdd t _ => Some (canon t)
  end.

Definition writes (s : sop) : option bytes :=
  match s with
  | SWrite cn _ | SWriteField cn _ _ | SAppend cn _ | SRemove cn | SRemoveField cn _
  | SCookieWrite cn _ _ | SCookieRemove cn _ => Some cn
  | _ => None
  end.

Lemma sstep_other a s cn' :
  (match s with SRemovePrefix _ => False | _ => True end) ->
  (forall cn, writes s = Some cn -> beq cn cn' = false) ->
  a_vals (fst (sstep a s)) cn' = a_vals a cn' /\ a_asg (fst (sstep a s)) cn' = a_asg a cn'.
Proof.
  intros Hp Hw.
  destruct s as [cn k c|cn v|cn k v|cn s|cn|cn k|p|cn k s|cn k| |]; try (exfalso; exact Hp);
    try (split; reflexivity); specialize (Hw cn eq_refl); unfold sstep; cbn [fst snd].
  - destruct v; cbn [fst a_vals a_asg]; rewrite !(upd_other _ cn _ cn' Hw); split; reflexivity.
  - cbn [a_vals a_asg]. rewrite !(upd_other _ cn _ cn' Hw). split; reflexivity.
  - cbn [a_vals a_asg]. rewrite !(upd_other _ cn _ cn' Hw). split; reflexivity.
  - cbn [a_vals a_asg]. rewrite !(upd_other _ cn _ cn' Hw). split; reflexivity.
  - cbn [a_vals a_asg]. rewrite !(upd_other _ cn _ cn' Hw). split; reflexivity.
  - cbn [a_vals a_asg]. rewrite !(upd_other _ cn _ cn' Hw). split; reflexivity.
  - destruct (all_vals a cn) as [|l0 ls]; [split; reflexivity|].
    destruct (HdrCookie.remove_cookie (l0 :: ls) k); cbn [a_vals a_asg];
      rewrite ?(upd_other _ cn _ cn' Hw); split; reflexivity.
Qed.

Lemma sstep_frame a s cn' key ck :
  (match s with SRemovePrefix _ => False | _ => True end) ->
  (forall cn, writes s = Some cn -> beq cn cn' = false) ->
  snd (sstep (fst (sstep a s)) (SRead cn' key ck)) = snd (sstep a (SRead cn' key ck)).
Proof.
  intros Hp Hw. destruct (sstep_other a s cn' Hp Hw) as [H1 H2].
  unfold sstep at 1 3. cbn [snd]. unfold first_val, all_vals. rewrite H1, H2. reflexivity.
Qed.

Lemma classify_writes kd o cn :
  (match o with OUnset t => cut_star t = None | _ => True end) ->
  writes (classify kd o) = Some cn -> touched o = Some cn.
Proof.
  destruct o as [t|t v|t v|t]; unfold classify, touched, hdr_of; intros Hs H.
  - destruct (cut_colon t) as [[n key] f]. discriminate.
  - destruct (protected t); [discriminate|]. destruct (cut_colon t) as [[n key] f]. cbn [fst].
    destruct f; cbn [negb] in H; [destruct kd; [destruct (is_cookie n)|]|]; simpl in H; congruence.
  - destruct (protected t); simpl in H; congruence.
  - destruct (protected t); [discriminate|]. rewrite Hs in H. destruct (cut_colon t) as [[n key] f]. cbn [fst].
    destruct f; cbn [negb] in H; [destruct kd; [destruct (is_cookie n)|]|]; simpl in H; congruence.
Qed.

Lemma classify_no_prefix kd o :
  (match o with OUnset t => cut_star t = None | _ => True end) ->
  match classify kd o with SRemovePrefix _ => False | _ => True end.
Proof.
  destruct o as [t|t v|t v|t]; unfold classify; intros Hs.
  - destruct (cut_colon t) as [[n key] f]. exact I.
  - destruct (protected t); [exact I|]. destruct (cut_colon t) as [[n key] f].
    destruct f; cbn [negb]; [destruct kd; [destruct (is_cookie n)|]|]; exact I.
  - destruct (protected t); exact I.
  - destruct (protected t); [exact I|]. rewrite Hs. destruct (cut_colon t) as [[n key] f].
    destruct f; cbn [negb]; [destruct kd; [destruct (is_cookie n)|]|]; exact I.
Qed.

Theorem set_other_frame_state kd st o t' :
  (match o with OUnset t => cut_star t = None | _ => True end) ->
  (forall cn, touched o = Some cn -> cn <> canon (hdr_of t')) ->
  get kd (after kd st o) t' = get kd st t'.
Proof.
  intros Hs Hne. rewrite get_after, get_abs.
  unfold classify at 2 3. unfold hdr_of in Hne. destruct (cut_colon t') as [[n' key'] f']. cbn [fst] in Hne.
  apply sstep_frame.
  - apply classify_no_prefix. exact Hs.
  - intros cn Hw. apply beq_neq. apply Hne. apply (classify_writes kd o cn Hs Hw).
Qed.

(* ---- header names are case-insensitive ---- *)
(* two spellings of one target: the header-name parts fold to the same text, the `:key`
   suffix (if any) is identical *)
Definition same_target (t1 t2 : bytes) : Prop :=
  exists n1 n2 sfx, t1 = n1 ++ sfx /\ t2 = n2 ++ sfx /\ eqfold n1 n2 /\ forallb tchar n1 = true /\
    (sfx = [] \/ exists k, sfx = c_colon :: k).

Definition op_fold (o1 o2 : op) : Prop :=
  match o1, o2 with
  | OGet t1, OGet t2 => same_target t1 t2
  | OSet t1 v1, OSet t2 v2 => same_target t1 t2 /\ v1 = v2
  | OAdd t1 v1, OAdd t2 v2 => eqfold t1 t2 /\ forallb tchar t1 = true /\ v1 = v2
  | OUnset t1, OUnset t2 => same_target t1 t2 /\ cut_star t1 = None /\ cut_star t2 = None
  | _, _ => False
  end.

Lemma eqfold_tchar a b : eqfold a b -> forallb tchar a = true -> forallb tchar b = true.
Proof. unfold eqfold. intros H Ha. rewrite <- forallb_tchar_lower, <- H, forallb_tchar_lower. exact Ha. Qed.

Lemma protected_fold a b : map lower a = map lower b -> protected a = protected b.
Proof. unfold protected. intros ->. reflexivity. Qed.

Lemma is_cookie_fold a b : eqfold a b -> is_cookie a = is_cookie b.
Proof. unfold is_cookie, eqfold. intros ->. reflexivity. Qed.

Lemma cut_colon_sfx n sfx : forallb tchar n = true -> (sfx = [] \/ exists k, sfx = c_colon :: k) ->
  cut_colon (n ++ sfx) = (n, match sfx with [] => [] | _ :: k => k end, negb (is_nil sfx)).
Proof.
  intros Hn [->|[k ->]].
  - rewrite app_nil_r. apply cut_colon_whole. exact Hn.
  - apply (cut_colon_field n k Hn).
Qed.

Lemma same_target_facts t1 t2 : same_target t1 t2 ->
  map lower t1 = map lower t2 /\
  exists n1 n2 key f, cut_colon t1 = (n1, key, f) /\ cut_colon t2 = (n2, key, f) /\
    canon n1 = canon n2 /\ is_cookie n1 = is_cookie n2.
Proof.
  intros (n1 & n2 & sfx & -> & -> & Hf & Ht & Hs). split.
  - rewrite !map_app. unfold eqfold in Hf. rewrite Hf. reflexivity.
  - exists n1, n2. eexists. eexists.
    rewrite (cut_colon_sfx n1 sfx Ht Hs), (cut_colon_sfx n2 sfx (eqfold_tchar _ _ Hf Ht) Hs).
    repeat split. apply canon_fold; assumption. apply is_cookie_fold; assumption.
Qed.

Theorem classify_fold kd o1 o2 : op_fold o1 o2 -> classify kd o1 = classify kd o2.
Proof.
  destruct o1 as [t1|t1 v1|t1 v1|t1]; destruct o2 as [t2|t2 v2|t2 v2|t2]; simpl; try contradiction.
  - intros H. apply same_target_facts in H. destruct H as (_ & n1 & n2 & key & f & -> & -> & -> & ->). reflexivity.
  - intros [H ->]. apply same_target_facts in H. destruct H as (Hl & n1 & n2 & key & f & -> & -> & -> & ->).
    rewrite (protected_fold _ _ Hl). reflexivity.
  - intros (Hf & Ht & ->). rewrite (protected_fold t1 t2 Hf), (canon_fold t1 t2 Hf Ht). reflexivity.
  - intros (H & -> & ->). apply same_target_facts in H. destruct H as (Hl & n1 & n2 & key & f & -> & -> & -> & ->).
    rewrite (protected_fold _ _ Hl). reflexivity.
Qed.

Lemma srun_fold kd h1 : forall h2 a, Forall2 op_fold h1 h2 -> srun kd a h1 = srun kd a h2.
Proof.
  induction h1 as [|o1 t1 IH]; intros h2 a H; inversion H; subst; [reflexivity|].
  simpl. rewrite (classify_fold kd o1 y H2).
  destruct (sstep a (classify kd y)) as [a1 x]. rewrite (IH l' a1 H4). reflexivity.
Qed.

(* two histories that differ only in the spelling of header names are indistinguishable:
   same replies (every read, every ok/error), and the same abstract store afterwards *)
Theorem case_insensitive_histories kd h1 h2 st :
  Forall2 op_fold h1 h2 ->
  snd (run kd st h1) = snd (run kd st h2) /\
  aeq (abs (fst (run kd st h1))) (abs (fst (run kd st h2))).
Proof.
  intros H. destruct (refinement kd h1 st) as [A1 [B1 C1]]. destruct (refinement kd h2 st) as [A2 [B2 C2]].
  rewrite (srun_fold kd h1 h2 (abs st) H) in *. split; [congruence|].
  split; intros n; [rewrite B1, B2 | rewrite C1, C2]; reflexivity.
Qed.
