(* C10 - (1) the hypothesis of instrument_equiv in the heap model of C13: a condition without user
   calls and without a match leaves EVERY observable of the store as it was;
   (2) for the instance that is run against `falco test` coverage is invisible. *)
From Coq Require Import List NArith ZArith Bool Lia.
From Falco Require Import Base.Res Base.Bytes Model.StoreSyntax Model.Store
  Proofs.StoreHeap Proofs.StoreInv Proofs.StoreMain Proofs.StoreFrame
  Model.TestRun Model.TestRunCover Model.TestRunInst Proofs.TestRunProofs Proofs.TestRunCoverProofs.
Import ListNotations.

Theorem quiet_condition_in_store_model Os P n e σ l σ' :
  wf σ -> pure e = true -> nomatch e = true ->
  eval repaired Os P n cond_mode e σ = OK (l, σ') ->
  (forall x, read σ' x = read σ x) /\
  hdrs σ' = hdrs σ /\ logs σ' = logs σ /\ locals σ' = locals σ /\ groups σ' = groups σ /\ depth σ' = depth σ.
Proof.
  intros W Hp Hm H.
  destruct (all_good Os P n) as (Ge & _ & _).
  destruct (Ge cond_mode _ _ _ _ W H) as (E & _ & _ & G).
  unfold wm in E. rewrite Hp in E. simpl in E. specialize (G Hm).
  pose proof (eval_frame Os P n cond_mode e σ l σ' W Hp H) as F.
  destruct E as [E1 E2 E3 E4 E5 E6 E7]. destruct (E7 eq_refl) as [E8 E9].
  repeat split; auto; try (apply E6; discriminate).
  intros x. destruct (is_group x) eqn:Hg; [|apply F; auto].
  destruct x; try discriminate. simpl. rewrite G.
  destruct (nth_error (groups σ) j) as [l'|] eqn:Ej; auto.
  apply E5; [destruct W as [W1 _]; apply (W1 (NGroup j)); auto | simpl; tauto].
Qed.

(* ---- the running instance: every condition is quiet *)
Lemma iev_quiet c σ : exists b, iev c σ = OK (b, σ).
Proof. unfold iev. eauto. Qed.

Notation okq := (okq_block icond iprim ictl iconds (fun _ => true)).

Lemma forallb_true {A} (l : list A) : forallb (fun _ => true) l = true.
Proof. induction l; simpl; auto. Qed.

Notation oks := (okq_stmt icond iprim ictl iconds (fun _ => true)).
Notation oka := (okq_alt icond iprim ictl iconds (fun _ => true)).
Notation okc := (okq_cases icond iprim ictl iconds (fun _ => true)).

Lemma okq_all :
  (forall s, oks s = true) /\ (forall b, okq b = true) /\ (forall a, oka a = true) /\ (forall cs, okc cs = true).
Proof.
  apply lang_mutind; intros.
  - exact (forallb_true _).
  - reflexivity.
  - change (okq th && oka el = true). rewrite H, H0. reflexivity.
  - change (okc cs = true). auto.
  - change (okq b = true). auto.
  - reflexivity.
  - change (oks s && okq b = true). rewrite H, H0. reflexivity.
  - reflexivity.
  - change (okq b = true). auto.
  - change (okq th && oka rest = true). rewrite H, H0. reflexivity.
  - reflexivity.
  - change (okq body && okc rest = true). rewrite H, H0. reflexivity.
Qed.

Theorem inst_cover_equiv b σ : iexec (iinstr b) σ = iexec b σ.
Proof.
  unfold iexec, iinstr.
  apply (instrument_equiv icond iprim ictl ist bool iev irun iconds imarker ictl_val itest_case (fun _ => true)).
  - intros c _ σ0. apply iev_quiet.
  - destruct okq_all as (_ & B & _). apply B.
Qed.

Lemma run_steps_cov P sc b : forall σ k lg,
  run_steps N N tstate sc (map (interp true P) b) σ k lg =
  run_steps N N tstate sc (map (interp false P) b) σ k lg.
Proof.
  induction b as [|s r IH]; intros σ k lg; simpl; auto.
  destruct s; simpl; auto.
  - destruct (find_sub k0 P) as [blk|]; auto. rewrite inst_cover_equiv.
    destruct (iexec blk (fst σ, [], false)) as [[o [[fl' lg'] [|]]]| | |]; simpl; auto.
  - destruct (Bool.eqb (has f (fst σ)) want); auto.
  - destruct holds; auto.
  - destruct (N.eqb (rget r0 (snd σ)) v); auto.
Qed.

Lemma run_scopes_cov P t ss : forall σ c,
  run_scopes N N tstate (list tstep) (irun_body true P) t ss σ c =
  run_scopes N N tstate (list tstep) (irun_body false P) t ss σ c.
Proof.
  induction ss as [|s r IH]; intros σ c; simpl; auto.
  destruct (t_skip t).
  - rewrite IH. reflexivity.
  - unfold irun_body, run_body_steps. rewrite run_steps_cov.
    destruct (run_steps N N tstate s (map (interp false P) (t_body t)) σ 0 []) as [[[k v] lg] σ'].
    rewrite IH. reflexivity.
Qed.

(* verdicts, logs, counters and exit status of a whole file do not depend on --coverage *)
Theorem inst_coverage_independent P ts : irun_file true P ts = irun_file false P ts.
Proof.
  unfold irun_file. generalize c0. induction ts as [|t r IH]; intros c; simpl; auto.
  unfold run_test. rewrite run_scopes_cov.
  destruct (run_scopes N N tstate (list tstep) (irun_body false P) t (t_scopes t) ([], []) c) as [cs1 c1].
  rewrite IH. reflexivity.
Qed.

(* the same with describe groups and hooks *)
Theorem inst_coverage_independent_items P is : irun_items true P is = irun_items false P is.
Proof.
  unfold irun_items. apply run_items_ext. intros s b σ. unfold irun_body, run_body_steps. apply run_steps_cov.
Qed.

(* ---- inside ONE describe group the tests share the interpreter: their verdicts DO depend on order.
   test a: set req.http.f0 = "1";   test b: assert.is_notset(req.http.f0);   (no hooks) *)
Definition t_a : itest := {| t_name := 0; t_scopes := [0%N]; t_skip := false; t_body := [TSet 0] |}.
Definition t_b : itest := {| t_name := 1; t_scopes := [0%N]; t_skip := false; t_body := [TAssertFlag 0 false] |}.
Definition grp (ts : list itest) : iitem :=
  IGroup {| g_name := 7; g_before := fun _ => None; g_after := fun _ => None; g_tests := ts |}.
Definition verdict_of (name : N) (r : option (list (gcase N N) * counter)) : option verdict :=
  match r with
  | Some (cs, _) => match filter (fun x => N.eqb (tc_name (snd x)) name) cs with x :: _ => Some (tc_verdict (snd x)) | [] => None end
  | None => None
  end.

Theorem group_order_dependent_refuted :
  verdict_of 1 (irun_items false [] [grp [t_b; t_a]]) = Some Pass /\
  verdict_of 1 (irun_items false [] [grp [t_a; t_b]]) = Some FailAssert /\
  (* while as ungrouped tests they do not *)
  verdict_of 1 (irun_items false [] [ISingle t_a; ISingle t_b]) = Some Pass /\
  verdict_of 1 (irun_items false [] [ISingle t_b; ISingle t_a]) = Some Pass.
Proof. vm_compute. repeat split; reflexivity. Qed.
