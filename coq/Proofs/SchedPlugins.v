(* C18: plugin goroutines that report a LIST of diagnostics in program order (custom_linter.go as it is):
   with the mutex inside Linter.Error every diagnostic of every plugin is in the final list, under
   every lock-respecting interleaving; without it a diagnostic can be lost. *)
From Coq Require Import List Arith Bool Lia.
From Falco Require Import Model.Sched Proofs.SchedProofs.
Import ListNotations.

Section Plugins.
  Variable D : Type.
  Variable dss : list (list D).
  Notation step := (step (astate D) unit).
  Notation config := (config (astate D) unit).
  Let n := length dss.
  Let DS := fun k => nth k dss [].
  Let rl := report_locked D.
  Let threads := plugin_threads D rl dss.

  Definition shared (c : config) : list D := fst (st c).

  (* thread k is between two calls of Linter.Error: it has reported [done], [rest] is still to come *)
  Definition idle (c : config) (k : nat) : Prop :=
    exists done rest, DS k = done ++ rest /\ code c k = plugin_code D rl k rest /\
                      forall d, In d done -> In d (shared c).

  Definition PInv (c : config) : Prop :=
    (forall k, n <= k -> code c k = []) /\
    match lock c with
    | None => forall k, k < n -> idle c k
    | Some h =>
        h < n /\ (forall k, k < n -> k <> h -> idle c k) /\
        exists done d rest,
          DS h = done ++ d :: rest /\ (forall x, In x done -> In x (shared c)) /\
          (code c h = RD D h :: WR D h d :: Release :: plugin_code D rl h rest \/
           (code c h = WR D h d :: Release :: plugin_code D rl h rest /\ snd (st c) h = shared c) \/
           (code c h = Release :: plugin_code D rl h rest /\ In d (shared c)))
    end.

  Lemma threads_nth k : k < n -> nth k threads [] = plugin_code D rl k (DS k).
  Proof.
    intros Hk. unfold threads, plugin_threads.
    set (g := fun p : nat * list D => plugin_code D rl (fst p) (snd p)).
    rewrite (nth_indep _ [] (g (0, []))) by (rewrite map_length, combine_length, seq_length, Nat.min_id; exact Hk).
    rewrite (map_nth g), combine_nth by (rewrite seq_length; reflexivity).
    unfold g. cbn [fst snd]. rewrite seq_nth by exact Hk. reflexivity.
  Qed.

  Lemma threads_length : length threads = n.
  Proof. unfold threads, plugin_threads. rewrite map_length, combine_length, seq_length. apply Nat.min_id. Qed.

  Lemma pinv_init : PInv (init threads (astate0 D)).
  Proof.
    split.
    - intros k Hk. cbn [init code]. apply nth_overflow. rewrite threads_length. exact Hk.
    - cbn [init lock]. intros k Hk. exists [], (DS k). cbn [init code]. rewrite threads_nth by exact Hk.
      split; [reflexivity|]. split; [reflexivity|]. intros d [].
  Qed.

  Lemma idle_keep (c c' : config) k :
    idle c k -> code c' k = code c k -> (forall x, In x (shared c) -> In x (shared c')) -> idle c' k.
  Proof.
    intros (done & rest & H1 & H2 & H3) Hc Hs. exists done, rest. rewrite Hc. repeat split; auto.
  Qed.

  Lemma pinv_tick i c c' : PInv c -> tick i c = Some c' -> PInv c'.
  Proof.
    intros [Hge Hl] Ht. unfold tick in Ht.
    destruct (lt_dec i n) as [Hi|Hi]; [|rewrite (Hge i) in Ht by lia; discriminate].
    destruct (lock c) as [h|] eqn:El.
    - destruct Hl as (Hh & Hidle & done & d & rest & HD & Hdone & Hph).
      destruct (Nat.eq_dec i h) as [->|Hne].
      + (* the holder moves: read, write, release *)
        destruct Hph as [Hc|[[Hc Hreg]|[Hc Hin]]]; rewrite Hc in Ht; cbn [RD WR] in Ht.
        * inversion Ht; subst c'; clear Ht. split; [intros k Hk; cbn [code]; rewrite upd_other by lia; apply Hge; exact Hk|].
          cbn [lock]. split; [exact Hh|]. split.
          { intros k Hk Hkh. apply (idle_keep c); [apply Hidle; assumption| cbn [code]; apply upd_other; exact Hkh | auto]. }
          exists done, d, rest. split; [exact HD|]. split; [exact Hdone|]. right. left.
          cbn [code st fst snd shared]. split; [apply upd_same|]. unfold shared. apply upd_same.
        * inversion Ht; subst c'; clear Ht.
          assert (Hmono : forall x, In x (shared c) -> In x (snd (st c) h ++ [d])).
          { intros x Hx. rewrite Hreg. apply in_or_app. left. exact Hx. }
          split; [intros k Hk; cbn [code]; rewrite upd_other by lia; apply Hge; exact Hk|].
          cbn [lock]. split; [exact Hh|]. split.
          { intros k Hk Hkh. apply (idle_keep c); [apply Hidle; assumption| cbn [code]; apply upd_other; exact Hkh | exact Hmono]. }
          exists done, d, rest. split; [exact HD|]. split; [intros x Hx; apply Hmono; apply Hdone; exact Hx|].
          right. right. cbn [code st fst shared]. split; [apply upd_same|]. apply in_or_app. right. left. reflexivity.
        * rewrite Nat.eqb_refl in Ht. inversion Ht; subst c'; clear Ht.
          split; [intros k Hk; cbn [code]; rewrite upd_other by lia; apply Hge; exact Hk|].
          cbn [lock]. intros k Hk. destruct (Nat.eq_dec k h) as [->|Hkh].
          -- exists (done ++ [d]), rest. cbn [code]. rewrite upd_same. rewrite <- app_assoc. cbn [app].
             repeat split; auto. intros x Hx. apply in_app_or in Hx. destruct Hx as [Hx|[<-|[]]]; auto.
          -- apply (idle_keep c); [apply Hidle; assumption| cbn [code]; apply upd_other; exact Hkh | auto].
      + (* somebody else is scheduled while the lock is held: blocked at Acquire, or finished *)
        exfalso. destruct (Hidle i Hi Hne) as (dn & rs & _ & Hc & _). rewrite Hc in Ht.
        destruct rs as [|x rs]; cbn in Ht; discriminate.
    - (* the lock is free: a thread with a diagnostic left to report acquires *)
      destruct (Hl i Hi) as (done & rest & HD & Hc & Hdone). rewrite Hc in Ht.
      destruct rest as [|d rest]; [discriminate|].
      cbn [plugin_code flat_map] in Ht. unfold rl at 1, report_locked, handler in Ht. cbn [app] in Ht.
      inversion Ht; subst c'; clear Ht.
      split; [intros k Hk; cbn [code]; rewrite upd_other by lia; apply Hge; exact Hk|].
      cbn [lock]. split; [exact Hi|]. split.
      { intros k Hk Hki. apply (idle_keep c); [apply Hl; assumption| cbn [code]; apply upd_other; exact Hki | auto]. }
      exists done, d, rest. split; [exact HD|]. split; [exact Hdone|]. left. cbn [code]. apply upd_same.
  Qed.

  Lemma pinv_exec sched : forall c c', PInv c -> exec sched c = Some c' -> PInv c'.
  Proof.
    induction sched as [|i t IH]; intros c c' Hi He; cbn [exec] in He.
    - inversion He; subst; exact Hi.
    - destruct (tick i c) as [c1|] eqn:Et; [|discriminate]. eapply IH; [|exact He]. eapply pinv_tick; eauto.
  Qed.

  Lemma plugin_code_nil k rest : plugin_code D rl k rest = [] -> rest = [].
  Proof. destruct rest; [reflexivity|]. cbn. discriminate. Qed.

  Theorem append_locked_complete_goroutines sched c :
    respects_lock threads (astate0 D) sched c ->
    forall k d, In d (nth k dss []) -> In d (fst (st c)).
  Proof.
    intros [He Hf] k d Hd. rewrite threads_length in Hf.
    assert (Hk : k < n).
    { destruct (lt_dec k n) as [H|H]; [exact H|]. rewrite nth_overflow in Hd by (fold n; lia). destruct Hd. }
    pose proof (pinv_exec sched _ _ pinv_init He) as [_ Hl].
    destruct (lock c) as [h|].
    - exfalso. destruct Hl as (Hh & _ & dn & x & rs & _ & _ & Hph). rewrite (Hf h Hh) in Hph.
      destruct Hph as [H|[[H _]|[H _]]]; discriminate.
    - destruct (Hl k Hk) as (done & rest & HD & Hc & Hdone). rewrite (Hf k Hk) in Hc.
      symmetry in Hc. apply plugin_code_nil in Hc. subst rest. rewrite app_nil_r in HD.
      apply Hdone. fold (DS k) in Hd. rewrite HD in Hd. exact Hd.
  Qed.
End Plugins.

(* two goroutines with two diagnostics each, no mutex: read-read-write-write loses one *)
Theorem append_unlocked_goroutines_refuted :
  exists (dss : list (list nat)) sched c,
    exec sched (init (plugin_threads nat (report_unlocked nat) dss) (astate0 nat)) = Some c /\
    finished (length dss) c /\ exists k d, In d (nth k dss []) /\ ~ In d (fst (st c)).
Proof.
  exists [[10; 11]; [20; 21]], [0; 1; 0; 1; 0; 0; 1; 1].
  match goal with |- exists c, ?e = Some c /\ _ => destruct e as [c|] eqn:E end;
    vm_compute in E; [|discriminate E].
  inversion E; subst c; clear E. eexists. split; [reflexivity|]. split.
  - intros i Hi. destruct i as [|[|i]]; [reflexivity|reflexivity|cbn in Hi; lia].
  - exists 0, 10. split; [left; reflexivity|]. cbn. intros [H|[H|[H|[]]]]; discriminate.
Qed.

(* witness for the hypothesis: three plugins (2, 1 and 3 diagnostics) interleaved at call boundaries *)
Example ex_plugins_locked :
  match exec [0;0;0;0; 2;2;2;2; 1;1;1;1; 2;2;2;2; 0;0;0;0; 2;2;2;2]
             (init (plugin_threads nat (report_locked nat) [[1; 2]; [3]; [4; 5; 6]]) (astate0 nat)) with
  | Some c => fst (st c) = [1; 4; 3; 5; 2; 6] /\ lock c = None
  | None => False
  end.
Proof. vm_compute. split; reflexivity. Qed.
