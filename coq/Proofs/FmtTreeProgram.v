(* C03, tree level, WHOLE subroutine bodies and programs: the documented normalisation of a canonical
   program is again canonical, so - C02 program_roundtrip - its tokens parse to exactly the normalised
   tree.  Composition of the per-construct lemmas (FmtTreeExpr / FmtTreeStmt) through the statement
   and block structure of the parser model; unconditional for statements, blocks, chains and switches
   (the duplicate-case bookkeeping compares [clabel], which the normalisation does not change: [book_n]). *)
From Coq Require Import String.
From Coq Require Import List NArith ZArith Bool Lia.
From Falco Require Import Base.Bytes Gen.TokenTypes Model.ParseKinds Gen.ParserTables.
From Falco Require Model.FmtTok Model.FmtNorm Proofs.FmtExamples.
From Falco Require Import Model.ParseBase Model.Ast Model.ParseLit Model.ParseExpr Model.ParseStmt Model.ParseDecl
  Model.Yield Proofs.ParseTables Proofs.ParseExprYield Proofs.ParsePratt Proofs.ParseRoundtrip
  Proofs.ParseProgram Proofs.ParseProgram2 Proofs.ParseProgram3 Proofs.ParseProgram4 Proofs.ParseProgram5
  Proofs.FmtTreeExpr Proofs.FmtTreeTokens Proofs.FmtTreeTokensDel Proofs.FmtTreeStmt Proofs.FmtTreeBridge
  Proofs.FmtTreeNorm.
Import ListNotations.

Section AllP.
  Context {A : Type} (P : A -> Prop).
  Fixpoint allp (l : list A) : Prop := match l with [] => True | x :: r => P x /\ allp r end.
End AllP.

Section B.
Variable c : FmtTok.fmt_config.
Variable fok : str -> bool.

(* the token that follows a statement, before and after: same type, or remove -> unset *)
Definition sim (a b : token) : Prop := typ b = typ a \/ (typ a = T_REMOVE /\ typ b = T_UNSET).

Lemma sim_refl a : sim a a. Proof. now left. Qed.

Definition remove_ok (s : stmt) : Prop := match s with SRemove kw _ _ => typ kw = T_REMOVE | _ => True end.

Lemma hd_nstmt fn s : remove_ok s -> sim (hdt (ystmt s)) (hdt (ystmt (nstmt c fn s))).
Proof.
  destruct s; cbn [nstmt ystmt remove_ok]; intros Hr; try (left; reflexivity).
  destruct (FmtTok.should_use_unset c); [|left; reflexivity].
  right. split; [exact Hr|reflexivity].
Qed.

Notation cexpr := (cexpr fok).

Lemma canon_nexpr e : canon fok e -> canon fok (nexpr c e).
Proof.
  unfold nexpr. destruct (FmtTok.explicit_string_concat c).
  - apply (proj1 (canon_mark fok)).
  - apply (proj1 (canon_unmark fok)).
Qed.

Lemma canon_nargs a : canon_args fok a -> canon_args fok (nargs c a).
Proof.
  unfold nargs. destruct (FmtTok.explicit_string_concat c).
  - apply (proj1 (proj2 (canon_mark fok))).
  - apply (proj1 (proj2 (canon_unmark fok))).
Qed.

Lemma minprec_nexpr e : canon fok e -> minprec (nexpr c e) = minprec e.
Proof.
  unfold nexpr. destruct (FmtTok.explicit_string_concat c); intros H.
  - apply minprec_mark.
  - now apply (minprec_unmark fok).
Qed.

Lemma hd_nexpr e : hdt (yexpr (nexpr c e)) = hdt (yexpr e).
Proof.
  unfold nexpr. destruct (FmtTok.explicit_string_concat c).
  - apply head_mark.
  - apply head_unmark.
Qed.

Lemma cexpr_nexpr e : cexpr e -> cexpr (nexpr c e).
Proof. intros [H1 H2]. split; [now apply canon_nexpr|]. now rewrite minprec_nexpr. Qed.

Ltac fin :=
  repeat match goal with
         | |- ParseProgram.cexpr _ (nexpr _ _) => apply cexpr_nexpr; assumption
         | |- _ /\ _ => split
         end; auto.

Lemma nexpr_int t v : nexpr c (EInt t v) = EInt t v.
Proof. unfold nexpr. now destruct (FmtTok.explicit_string_concat c). Qed.
Lemma nexpr_ident t : nexpr c (EIdent t) = EIdent t.
Proof. unfold nexpr. now destruct (FmtTok.explicit_string_concat c). Qed.
Lemma nexpr_call f lp a rp : nexpr c (ECall f lp a rp) = ECall f lp (nargs c a) rp.
Proof. unfold nexpr, nargs. now destruct (FmtTok.explicit_string_concat c). Qed.

Lemma sim_not a b t : t <> T_UNSET -> sim a b -> typ a <> t -> typ b <> t.
Proof. intros Ht [E|[_ E]] H; rewrite E; auto. Qed.

Lemma ccode_n e nx nx' : typ nx' = typ nx -> ccode fok e nx -> ccode fok (nexpr c e) nx'.
Proof.
  intros Hn. destruct e; cbn [ccode]; try contradiction.
  - rewrite nexpr_ident. cbn [ccode]. now rewrite Hn.
  - rewrite nexpr_int. auto.
  - rewrite nexpr_call. cbn [ccode]. intros (A & B & C & D). repeat split; auto. now apply canon_nargs.
Qed.

Lemma citems_n items : citems fok items -> citems fok (map (fun x => (nexpr c (fst x), snd x)) items).
Proof.
  induction items as [|[e cm] r IH]; cbn [citems map fst snd]; auto.
  intros (A & B & C). split; [now apply cexpr_nexpr|]. split; [|now apply IH].
  destruct cm; [exact B|]. rewrite B. reflexivity.
Qed.

Lemma csimple_n fn s nx nx' : csimple fok s nx -> sim nx nx' -> csimple fok (nstmt c fn s) nx'.
Proof.
  intros H Hs. destruct s; cbn [csimple] in H; try contradiction; cbn [nstmt csimple].
  - (* set *) destruct H as (A & B & C & D & E). fin.
  - (* add *) destruct H as (A & B & C & D & E). fin.
  - (* unset *) exact H.
  - (* remove *) destruct (FmtTok.should_use_unset c); cbn [csimple]; [|exact H].
    destruct H as (A & B & C). fin.
  - (* declare *) destruct H as (A & B & C & D & E & F & G). fin.
    destruct v as [[q e]|]; auto. destruct F as [F1 F2]. split; auto using cexpr_nexpr.
  - (* call *) destruct H as (A & B & C & D). fin.
    destruct a as [[[lp items] rp]|]; auto. destruct items as [|i items]; auto.
    destruct C as (C1 & C2 & C3). fin. now apply (citems_n (i :: items)).
  - (* error *) destruct H as (A & B & C). fin.
    destruct code as [cd|], arg as [ar|]; cbn [option_map]; auto.
    + destruct C as [C1 C2]. split; [|now apply cexpr_nexpr].
      apply (ccode_n cd (hdt (yexpr ar))); auto. now rewrite hd_nexpr.
    + now apply (ccode_n cd semi).
  - (* esi *) exact H.
  - (* restart *) exact H.
  - (* return *) destruct H as (A & B & C). fin.
    destruct v as [[[l e] r]|]; cbn [nret]; auto.
    destruct l as [lp|], r as [rp|]; try contradiction.
    + destruct C as (C1 & C2 & C3).
      destruct (FmtTok.return_statement_parenthesis c && negb fn).
      * fin.
      * destruct (ttype_eqb (typ (head e)) T_LEFT_PAREN) eqn:E.
        -- fin.
        -- split; [now apply cexpr_nexpr|]. rewrite hd_nexpr. now apply ttype_eqb_neq.
    + destruct C as (C1 & C2).
      destruct (FmtTok.return_statement_parenthesis c && negb fn).
      * fin.
      * split; [now apply cexpr_nexpr|]. now rewrite hd_nexpr.
  - (* log *) destruct H as (A & B & C). fin.
  - destruct H as (A & B & C). fin.
  - destruct H as (A & B & C). fin.
  - (* goto *) exact H.
  - (* include *) destruct H as (A & B & C & D). fin.
    destruct semi; auto. apply (sim_not nx nx'); auto. discriminate.
Qed.

(* ---------------------------------------------------------------- statements, blocks, chains *)
Definition nels fn (els : option (token * token * list stmt * token)) :=
  match els with Some (k, lb', b', rb') => Some (k, lb', map (nstmt c fn) b', rb') | None => None end.
Lemma cstmt_remove_ok s nx : cstmt fok s nx -> remove_ok s.
Proof.
  intros H. destruct s; cbn [remove_ok]; auto. inversion H as [? ? Hc| | | | |]; subst.
  cbn [csimple] in Hc. tauto.
Qed.

Lemma hdt_app_ne (l r : list token) : l <> [] -> hdt (l ++ r) = hdt l.
Proof. destruct l; [congruence|reflexivity]. Qed.

Lemma hd_block fn ss rb : cblock fok ss rb ->
  sim (hdt (flat_map ystmt ss ++ [rb])) (hdt (flat_map ystmt (map (nstmt c fn) ss) ++ [rb])).
Proof.
  intros H. destruct ss as [|s ss]; [apply sim_refl|].
  inversion H as [|? ? ? Hs _]; subst. cbn [map flat_map]. rewrite <- !app_assoc.
  rewrite !hdt_app_ne by apply ystmt_ne. apply hd_nstmt. eapply cstmt_remove_ok; eauto.
Qed.

Lemma hd_body fn ss ft nx : cbody fok ss ft nx ->
  sim (hdt (flat_map ystmt ss ++ [nx])) (hdt (flat_map ystmt (map (nstmt c fn) ss) ++ [nx])).
Proof.
  intros H. destruct ss as [|s ss]; [apply sim_refl|].
  cbn [map flat_map]. rewrite <- !app_assoc. rewrite !hdt_app_ne by apply ystmt_ne. apply hd_nstmt.
  inversion H; subst; cbn [remove_ok]; auto. eapply cstmt_remove_ok; eauto.
Qed.

Lemma sim_else a b : sim a b -> ~ else_like a -> ~ else_like b.
Proof.
  unfold else_like. intros [E|[E1 E2]] H; rewrite ?E; auto. rewrite E2. intros [F|[F|F]]; discriminate.
Qed.

Lemma hd_cases fn cs rb : hdt (flat_map ycase (map (ncase c fn) cs) ++ [rb]) = hdt (flat_map ycase cs ++ [rb]).
Proof.
  destruct cs as [|[h cl b ft] cs]; [reflexivity|]. cbn [map flat_map ncase ycase].
  destruct h as [kw t|kw]; [destruct t|]; reflexivity.
Qed.

Lemma chead_n h : chead_ok fok h -> chead_ok fok (nhead c h).
Proof.
  destruct h as [kw t|kw]; [destruct t|]; cbn [chead_ok nhead]; auto.
  - intros (A & B & C). fin. now rewrite hd_nexpr.
  - intros (A & B & C & D). fin. now apply canon_nexpr. now rewrite minprec_nexpr.
Qed.

Lemma last_case_n fn cs : last_case_breaks cs -> last_case_breaks (map (ncase c fn) cs).
Proof.
  unfold last_case_breaks. rewrite <- map_rev. destruct (rev cs) as [|[h cl b ft] r]; auto.
Qed.

(* the switch control stays a control: the second token of the expression is "+", unchanged, or a token
   that can be juxtaposed - never a parenthesis *)
Lemma second_mark e : canon fok e -> typ (hdt (tl (yexpr e))) <> T_LEFT_PAREN ->
  typ (hdt (tl (yexpr (mark_explicit e)))) <> T_LEFT_PAREN.
Proof.
  intros Hc H. rewrite <- (ins_plus_yexpr fok e Hc).
  destruct (yexpr e) as [|x [|y r]]; cbn [ins_plus tl hdt hd app andb]; try discriminate.
  destruct (t_opend (typ x) && t_juxt (typ y)); cbn [app hd]; [discriminate|exact H].
Qed.

Lemma juxt_not_lparen t : t_juxt t = true -> t <> T_LEFT_PAREN.
Proof. intros H E. subst t. discriminate H. Qed.

Lemma second_unmark e : canon fok e -> typ (hdt (tl (yexpr e))) <> T_LEFT_PAREN ->
  typ (hdt (tl (yexpr (unmark e)))) <> T_LEFT_PAREN.
Proof.
  intros Hc H. rewrite <- (del_plus_yexpr fok e Hc).
  destruct (yexpr e) as [|x [|y r]]; cbn [del_plus tl hdt hd andb]; try discriminate.
  cbn [andb]. destruct (t_opend (typ x) && is_plus (typ y) && t_juxt (typ (hd eof_tok r))) eqn:E; cbn [tl hd]; [|exact H].
  apply andb_true_iff in E as [_ E]. destruct r as [|z r']; [discriminate E|].
  cbn [del_plus andb hd] in *. now apply juxt_not_lparen.
Qed.

Lemma cctl_n e : cctl fok e -> cctl fok (nexpr c e).
Proof.
  intros H.
  assert (G : forall e, cexpr e /\ (typ (hdt (yexpr e)) = T_TRUE \/ typ (hdt (yexpr e)) = T_FALSE \/ typ (hdt (yexpr e)) = T_STRING)
                      /\ typ (hdt (tl (yexpr e))) <> T_LEFT_PAREN ->
              cexpr (nexpr c e) /\ (typ (hdt (yexpr (nexpr c e))) = T_TRUE \/ typ (hdt (yexpr (nexpr c e))) = T_FALSE
                                    \/ typ (hdt (yexpr (nexpr c e))) = T_STRING)
              /\ typ (hdt (tl (yexpr (nexpr c e)))) <> T_LEFT_PAREN).
  { intros e0 (A & B & C). split; [now apply cexpr_nexpr|]. split; [now rewrite hd_nexpr|].
    destruct A as [A _]. unfold nexpr. destruct (FmtTok.explicit_string_concat c); [now apply second_mark|now apply second_unmark]. }
  destruct e; cbn [cctl] in H; try (specialize (G _ H)).
  all: try (rewrite nexpr_ident; exact H).
  all: try (rewrite nexpr_call; cbn [cctl]; destruct H as (A & B & C & D); repeat split; auto; now apply canon_nargs).
  all: unfold nexpr in *; destruct (FmtTok.explicit_string_concat c); cbn [mark_explicit unmark cctl] in *; try exact G.
  all: try (destruct explicit; [destruct (t_juxt _)|]; exact G).
Qed.

(* the label the parser compares case tests by spells every concatenation with its operator: the
   normalisation does not change it, so the duplicate-case bookkeeping of a switch is unchanged *)
Lemma clabel_mark :
  (forall e, clabel (mark_explicit e) = clabel e)
  /\ (forall a, alabel (mark_args a) = alabel a) /\ (forall m, atlabel (mark_tail m) = atlabel m).
Proof.
  apply expr_args_ind; intros; cbn [mark_explicit mark_args mark_tail clabel alabel atlabel]; try congruence.
  rewrite H, H0. reflexivity.
Qed.

Lemma clabel_unmark :
  (forall e, clabel (unmark e) = clabel e)
  /\ (forall a, alabel (unmark_args a) = alabel a) /\ (forall m, atlabel (unmark_tail m) = atlabel m).
Proof.
  apply expr_args_ind; intros; cbn [unmark unmark_args unmark_tail clabel alabel atlabel]; try congruence.
  destruct explicit; [destruct (t_juxt (typ (head r)))|]; cbn [clabel]; rewrite ?H, ?H0; reflexivity.
Qed.

Lemma clabel_nexpr e : clabel (nexpr c e) = clabel e.
Proof. unfold nexpr. destruct (FmtTok.explicit_string_concat c); [apply clabel_mark|apply clabel_unmark]. Qed.

Lemma ncase_eq fn h cl b ft : ncase c fn (Case h cl b ft) = Case (nhead c h) cl (map (nstmt c fn) b) ft.
Proof. reflexivity. Qed.

Lemma dup_case_n fn a b : dup_case (ncase c fn a) (ncase c fn b) = dup_case a b.
Proof.
  destruct a as [ha ? ? ?], b as [hb ? ? ?]. rewrite !ncase_eq.
  destruct ha as [? [x|? x]|?], hb as [? [y|? y]|?]; cbn [nhead dup_case]; rewrite ?clabel_nexpr; reflexivity.
Qed.

Lemma is_default_n fn a : is_default (ncase c fn a) = is_default a.
Proof. destruct a as [h ? ? ?]. rewrite ncase_eq. destruct h as [? [x|? x]|?]; reflexivity. Qed.

Lemma book_n fn : forall cs acc d, book (map (ncase c fn) acc) d (map (ncase c fn) cs) = book acc d cs.
Proof.
  induction cs as [|cl r IH]; intros acc d; cbn [book map]; [reflexivity|].
  rewrite is_default_n, map_length.
  assert (E : existsb (dup_case (ncase c fn cl)) (map (ncase c fn) acc) = existsb (dup_case cl) acc).
  { induction acc as [|a acc IHa]; cbn [existsb map]; [reflexivity|]. now rewrite dup_case_n, IHa. }
  rewrite E.
  destruct (if is_default cl then if negb (d =? -1)%Z then None else Some (Z.of_nat (length acc)) else Some d); [|reflexivity].
  destruct (existsb (dup_case cl) acc); [reflexivity|]. exact (IH (cl :: acc) z).
Qed.

Lemma nelif_eq fn k1 k2 lp cnd rp lb b rb :
  nelif c fn (Elif k1 k2 lp cnd rp lb b rb) =
    match k2 with
    | None => if FmtTok.else_if c then Elif else_tok (Some if_tok) lp (nexpr c cnd) rp lb (map (nstmt c fn) b) rb
              else Elif k1 None lp (nexpr c cnd) rp lb (map (nstmt c fn) b) rb
    | Some _ => Elif k1 k2 lp (nexpr c cnd) rp lb (map (nstmt c fn) b) rb
    end.
Proof. reflexivity. Qed.

Theorem norm_canonical :
  (forall s nx, cstmt fok s nx -> forall fn nx', sim nx nx' -> cstmt fok (nstmt c fn s) nx')
  /\ (forall ss rb, cblock fok ss rb -> forall fn, cblock fok (map (nstmt c fn) ss) rb)
  /\ (forall an els nx, cchain fok an els nx -> forall fn nx', sim nx nx' ->
        cchain fok (map (nelif c fn) an) (nels fn els) nx')
  /\ (forall cs rb, ccases fok cs rb -> forall fn, ccases fok (map (ncase c fn) cs) rb)
  /\ (forall ss ft nx, cbody fok ss ft nx -> forall fn, cbody fok (map (nstmt c fn) ss) ft nx).
Proof.
  apply cstmt_all_ind.
  - (* simple *) intros s nx H fn nx' Hs. apply c_simple. now apply (csimple_n fn s nx nx').
  - (* function call *) intros. cbn [nstmt]. apply c_funcall; auto. now apply canon_nargs.
  - (* label *) intros name nx A B C fn nx' Hs. cbn [nstmt]. apply c_label; auto.
    apply (sim_not nx nx'); auto. discriminate.
  - (* block *) intros lb ss rb nx A B IH fn nx' Hs. cbn [nstmt]. apply c_block; auto.
  - (* if *) intros kw lp cnd rp lb b rb an els nx A B C D E F IHb G IHc fn nx' Hs.
    cbn [nstmt]. fold (nels fn els). apply c_if; auto. now apply cexpr_nexpr.
  - (* switch *) intros kw lp ctl rp lb cases d rb nx A B C D E F IHc G H fn nx' Hs.
    cbn [nstmt]. apply c_switch; auto.
    + now apply cctl_n.
    + rewrite <- G. exact (book_n fn cases [] (-1)%Z).
    + now apply last_case_n.
  - (* empty block *) intros rb A fn. now apply cb_nil.
  - (* block cons *) intros s ss rb A IHs B IHb fn. cbn [map]. apply cb_cons; auto.
    apply (IHs fn); auto. now apply hd_block.
  - (* chain end *) intros nx A fn nx' Hs. apply cc_none. now apply (sim_else nx nx').
  - (* else *) intros k lb ss rb nx A B C IH fn nx' Hs. cbn [map nels]. apply cc_else; auto.
  - (* else if *) intros k1 k2 lp cnd rp lb b rb more els nx A B C D E F IHb G IHc fn nx' Hs.
    cbn [map]. rewrite nelif_eq. destruct k2 as [i|].
    + apply cc_elif; [exact A|auto|now apply cexpr_nexpr|auto|auto|exact (IHb fn)|now apply IHc].
    + destruct (FmtTok.else_if c).
      * apply cc_elif; [split; reflexivity|auto|now apply cexpr_nexpr|auto|auto|exact (IHb fn)|now apply IHc].
      * apply cc_elif; [exact A|auto|now apply cexpr_nexpr|auto|auto|exact (IHb fn)|now apply IHc].
  - (* no case *) intros rb A fn. now apply cs_nil.
  - (* case *) intros h cl body ft cs rb A B C IHb D IHc fn. cbn [map ncase]. apply cs_cons; auto.
    + now apply chead_n.
    + rewrite hd_cases. now apply IHb.
  - intros kw sm nx A B C fn. now apply cy_break.
  - intros kw sm nx A B C fn. now apply cy_fall.
  - intros s ss ft nx A IHs B IHb fn. cbn [map]. apply cy_cons; auto.
    apply (IHs fn); auto. now apply (hd_body fn ss ft nx).
  - intros kw sm ss ft nx A B C IH fn. cbn [map nstmt]. apply cy_mid_break; auto.
  - intros kw sm ss ft nx A B C IH fn. cbn [map nstmt]. apply cy_mid_fall; auto.
Qed.

(* ---------------------------------------------------------------- declarations and programs *)
(* declarations with properties: every property value is an expression of the model, normalised like any other;
   a table gets its trailing comma *)
Lemma cbprop_n :
  (forall p, cbprop fok p -> cbprop fok (nbprop c p)) /\ (forall ps, cbprops fok ps -> cbprops fok (map (nbprop c) ps)).
Proof.
  apply cbprop_all_ind; intros; cbn [nbprop map].
  - apply cbp_expr; auto. now apply cexpr_nexpr.
  - apply cbp_probe; auto.
  - apply cbs_nil.
  - apply cbs_cons; auto.
Qed.

Lemma cdfield_n f : cdfield fok f -> cdfield fok (ndfield c f).
Proof. destruct f. cbn [cdfield ndfield]. intros (A & B & C & D & E). fin. Qed.

Lemma cdprop_n p : cdprop fok p -> cdprop fok (ndprop c p).
Proof.
  destruct p as [f|lb fs rb]; cbn [cdprop ndprop]; [apply cdfield_n|].
  intros (A & B & C). repeat split; auto. rewrite Forall_forall in *. intros x Hx.
  apply in_map_iff in Hx as [y [<- Hy]]. apply cdfield_n. auto.
Qed.

Lemma nexpr_leaf e : ckey e \/ ctval fok e -> nexpr c e = e.
Proof.
  unfold nexpr. intros H. destruct e; cbn [ckey ctval] in H; try (destruct H; contradiction);
    destruct (FmtTok.explicit_string_concat c); reflexivity.
Qed.

Lemma ctprop_n p l : ctprop fok p l -> forall l', ctprop fok (ntprop c p) l'.
Proof.
  destruct p as [k cl v cm]. cbn [ctprop ntprop]. intros (A & B & C & D) l'.
  rewrite (nexpr_leaf k) by auto. rewrite (nexpr_leaf v) by auto. repeat split; auto.
  destruct cm; [exact D|reflexivity].
Qed.

Lemma ctprops_n ps : ctprops fok ps -> ctprops fok (map (ntprop c) ps).
Proof.
  induction ps as [|p r IH]; cbn [ctprops map]; auto. intros [A B]. split; [|now apply IH].
  eapply ctprop_n; eauto.
Qed.

Lemma cdeclx_n d nx nx' : cdeclx fok d nx -> sim nx nx' -> cdeclx fok (nstmt c false d) nx'.
Proof.
  intros H Hs. destruct d; cbn [cdeclx cdecl] in H; try contradiction.
  - (* include *) apply (csimple_n false _ nx nx' H Hs).
  - (* import *) exact H.
  - (* acl *) exact H.
  - (* backend *) destruct H as (A & B & C & D & E). cbn [nstmt cdeclx]. repeat split; auto. now apply (proj2 cbprop_n).
  - (* director *) destruct H as (A & B & C & D & E & F). cbn [nstmt cdeclx]. repeat split; auto.
    rewrite Forall_forall in *. intros x Hx. apply in_map_iff in Hx as [y [<- Hy]]. apply cdprop_n. auto.
  - (* table *) destruct H as (A & B & C & D & E & F). cbn [nstmt cdeclx]. repeat split; auto. now apply ctprops_n.
  - (* sub *) destruct H as (A & B & C & D & E & F). cbn [nstmt cdeclx cdecl].
    split; [exact A|]. split; [exact B|]. split.
    { destruct params as [[[lp ps] rp]|]; auto. destruct ps; auto. }
    split; [exact D|]. split; [exact E|].
    exact (proj1 (proj2 norm_canonical) b rb F _).
  - (* penaltybox *) destruct H as (A & B & C & D). cbn [nstmt cdeclx cdecl]. repeat split; auto.
    exact (proj1 (proj2 norm_canonical) b rb D _).
  - (* ratecounter *) destruct H as (A & B & C & D). cbn [nstmt cdeclx cdecl]. repeat split; auto.
    exact (proj1 (proj2 norm_canonical) b rb D _).
Qed.

Theorem cprog_n : forall ds, cprog fok ds -> cprog fok (map (nstmt c false) ds).
Proof.
  induction ds as [|d ds IH]; cbn [cprog map]; auto.
  intros [Hd Hds]. split; [|now apply IH].
  apply (cdeclx_n d _ _ Hd); auto.
  destruct ds as [|d2 ds]; [apply sim_refl|]. cbn [map flat_map]. rewrite !hdt_app_ne by apply ystmt_ne.
  apply hd_nstmt. destruct Hds as [Hd2 _]. destruct d2; cbn [remove_ok]; auto.
  cbn [cdeclx cdecl] in Hd2. contradiction.
Qed.

(* the tokens of the normalised program parse to exactly the normalised tree *)
Theorem program_norm_parses ds :
  cprog fok ds ->
  parse_vcl fok (flat_map ystmt (vstmts (norm_vcl c (Vcl ds false)))) = POK (norm_vcl c (Vcl ds false)).
Proof.
  intros H. unfold norm_vcl. cbn [vstmts vsnippet].
  apply (program_roundtrip fok). now apply cprog_n.
Qed.

End B.

(* ---------------------------------------------------------------- non-vacuity: the witness program of C02
   (a typed sub with a juxtaposition, an elsif, a switch, return (true); and an acl) under a configuration
   where every rewrite applies *)
Example ex_prog_norm_parses :
  parse_vcl (fun _ => true) (flat_map ystmt (vstmts (norm_vcl FmtExamples.ex_conf (Vcl ex_prog false))))
  = POK (norm_vcl FmtExamples.ex_conf (Vcl ex_prog false)).
Proof. exact (program_norm_parses _ _ ex_prog ex_prog_canonical). Qed.

Example ex_prog_norm_changes : norm_vcl FmtExamples.ex_conf (Vcl ex_prog false) <> Vcl ex_prog false.
Proof. intros H. vm_compute in H. discriminate H. Qed.

(* ---------------------------------------------------------------- case tests with concatenations:
   sub f { switch (x) { case "a" "b": break; case "c" + "d": break; } }
   (until parser fix a5b80c6 the duplicate test compared spellings and `case "a" "b":` / `case "a" + "b":` was a
   program whose formatted text did not parse; now [clabel] spells both alike, the source itself is rejected, and
   [book_n] shows that the normalisation never changes the bookkeeping) *)
Definition case_e (e : expr) (body : list stmt) : scase :=
  Case (CCase (k_ T_CASE "case") (CTEq e)) (k_ T_COLON ":") body false.
Definition ex_cases : list stmt :=
  [ DSub (k_ T_SUBROUTINE "sub") (k_ T_IDENT "f") None None (k_ T_LEFT_BRACE "{")
      [ sw [ case_e (EConcat (EString (tstr "a") (s2b "a")) (EString (tstr "b") (s2b "b"))) [brk];
             case_e (EInfix (EString (tstr "c") (s2b "c")) plus_tok true (EString (tstr "d") (s2b "d"))) [brk] ] ]
      (k_ T_RIGHT_BRACE "}") ].

Example ex_cases_parses : parse_vcl (fun _ => true) (flat_map ystmt ex_cases) = POK (Vcl ex_cases false).
Proof. vm_compute. reflexivity. Qed.

Example ex_cases_norm_parses c :
  parse_vcl (fun _ => true) (flat_map ystmt (vstmts (norm_vcl c (Vcl ex_cases false)))) = POK (norm_vcl c (Vcl ex_cases false)).
Proof.
  unfold norm_vcl, ex_cases, sw, case_e. cbn [vstmts map nstmt ncase nhead]. unfold nexpr.
  destruct (FmtTok.explicit_string_concat c); vm_compute; reflexivity.
Qed.

(* the two spellings of one test are one label: the source is rejected *)
Example ex_dup_rejected :
  exists t n, parse_vcl (fun _ => true) (flat_map ystmt
    [ DSub (k_ T_SUBROUTINE "sub") (k_ T_IDENT "f") None None (k_ T_LEFT_BRACE "{")
        [ sw [ case_e (EConcat (EString (tstr "a") (s2b "a")) (EString (tstr "b") (s2b "b"))) [brk];
               case_e (EInfix (EString (tstr "a") (s2b "a")) plus_tok true (EString (tstr "b") (s2b "b"))) [brk] ] ]
        (k_ T_RIGHT_BRACE "}") ]) = PErr E_dup_case t n.
Proof. vm_compute. eexists. eexists. reflexivity. Qed.

(* for these programs the tokens of the normalised tree are the significant tokens of the formatter's token
   model on the tokens of the source *)
Example ex_cases_token_model :
  map to_tok (flat_map ystmt (vstmts (norm_vcl FmtTok.default_config (Vcl ex_cases false))))
  = FmtTok.significant (FmtNorm.norm FmtTok.default_config (to_elts (flat_map ystmt ex_cases))).
Proof. vm_compute. reflexivity. Qed.

Definition ex_conf_unsorted : FmtTok.fmt_config :=
  FmtTok.FmtConfig 2 1 FmtTok.ISpace (Some 120%N) true false false true false true false false FmtTok.CSharp true false true.

Example ex_prog_token_model :
  map to_tok (flat_map ystmt (vstmts (norm_vcl ex_conf_unsorted (Vcl ex_prog false))))
  = FmtTok.significant (FmtNorm.norm ex_conf_unsorted (to_elts (flat_map ystmt ex_prog))).
Proof. vm_compute. reflexivity. Qed.

(* ---------------------------------------------------------------- C14 at tree level (expressions, return):
   normalising the normalised tree changes nothing *)
Lemma mark_idem :
  (forall e, mark_explicit (mark_explicit e) = mark_explicit e)
  /\ (forall a, mark_args (mark_args a) = mark_args a) /\ (forall m, mark_tail (mark_tail m) = mark_tail m).
Proof. apply expr_args_ind; intros; cbn [mark_explicit mark_args mark_tail]; congruence. Qed.

Lemma unmark_idem :
  (forall e, unmark (unmark e) = unmark e)
  /\ (forall a, unmark_args (unmark_args a) = unmark_args a) /\ (forall m, unmark_tail (unmark_tail m) = unmark_tail m).
Proof.
  apply expr_args_ind; intros; cbn [unmark unmark_args unmark_tail]; try congruence.
  destruct explicit; [|cbn [unmark]; congruence].
  destruct (t_juxt (typ (head r))) eqn:E; cbn [unmark]; [congruence|].
  rewrite head_unmark, E. congruence.
Qed.

Lemma nexpr_idem c e : nexpr c (nexpr c e) = nexpr c e.
Proof.
  unfold nexpr. destruct (FmtTok.explicit_string_concat c); [apply mark_idem|apply unmark_idem].
Qed.

Lemma head_nexpr c e : head (nexpr c e) = head e.
Proof. exact (hd_nexpr c e). Qed.

Lemma nret_idem c fn v : nret c fn (nret c fn v) = nret c fn v.
Proof.
  destruct v as [[[l e] r]|]; [|reflexivity]. unfold nret.
  destruct (FmtTok.return_statement_parenthesis c && negb fn) eqn:W.
  - destruct l; rewrite ?W, nexpr_idem; reflexivity.
  - destruct l.
    + destruct (ttype_eqb (typ (head e)) T_LEFT_PAREN) eqn:E; rewrite ?W, ?head_nexpr, ?E, nexpr_idem; reflexivity.
    + rewrite ?W, nexpr_idem. reflexivity.
Qed.

(* ---------------------------------------------------------------- C14 at tree level, statements and programs:
   the normalisation of a canonical statement / block / chain / case list is a fixed point of the normalisation
   (induction over the canonicity derivation of C02) *)
Section I.
Variable c : FmtTok.fmt_config.
Variable fok : str -> bool.

Lemma nargs_idem a : nargs c (nargs c a) = nargs c a.
Proof.
  unfold nargs. destruct (FmtTok.explicit_string_concat c);
    [apply (proj1 (proj2 mark_idem))|apply (proj1 (proj2 unmark_idem))].
Qed.

Lemma nhead_idem h : nhead c (nhead c h) = nhead c h.
Proof. destruct h as [kw [e|op e]|kw]; cbn [nhead]; rewrite ?nexpr_idem; reflexivity. Qed.

Lemma citems_idem items :
  map (fun x : expr * option token => (nexpr c (fst x), snd x)) (map (fun x => (nexpr c (fst x), snd x)) items)
  = map (fun x => (nexpr c (fst x), snd x)) items.
Proof. rewrite map_map. apply map_ext. intros [e t]. cbn [fst snd]. now rewrite nexpr_idem. Qed.

Lemma simple_idem fn s nx : csimple fok s nx -> nstmt c fn (nstmt c fn s) = nstmt c fn s.
Proof.
  intros H. destruct s; cbn [csimple] in H; try contradiction; cbn [nstmt]; rewrite ?nexpr_idem; try reflexivity.
  - (* remove *) destruct (FmtTok.should_use_unset c) eqn:E; cbn [nstmt]; rewrite ?E; reflexivity.
  - (* declare *) destruct v as [[q e]|]; rewrite ?nexpr_idem; reflexivity.
  - (* call *) destruct a as [[[lp items] rp]|]; [|reflexivity]. destruct items as [|[e t] items]; [reflexivity|].
    cbn [map nstmt fst snd]. rewrite nexpr_idem. fold (map (fun x : expr * option token => (nexpr c (fst x), snd x)) items).
    rewrite citems_idem. reflexivity.
  - (* error *) destruct code, arg; cbn [option_map]; rewrite ?nexpr_idem; reflexivity.
  - (* return *) now rewrite nret_idem.
Qed.

Lemma nels_idem fn els : (forall b, (exists k lb rb, els = Some (k, lb, b, rb)) ->
    map (nstmt c fn) (map (nstmt c fn) b) = map (nstmt c fn) b) ->
  nels c fn (nels c fn els) = nels c fn els.
Proof.
  destruct els as [[[[k lb] b] rb]|]; cbn [nels]; [|reflexivity]. intros H. rewrite (H b); [reflexivity|eauto].
Qed.

Lemma nstmt_if_eq fn kw lp cnd rp lb b rb an els :
  nstmt c fn (SIf kw lp cnd rp lb b rb an els)
  = SIf kw lp (nexpr c cnd) rp lb (map (nstmt c fn) b) rb (map (nelif c fn) an) (nels c fn els).
Proof. reflexivity. Qed.
Lemma nstmt_switch_eq fn kw lp ctl rp lb cases d rb :
  nstmt c fn (SSwitch kw lp ctl rp lb cases d rb) = SSwitch kw lp (nexpr c ctl) rp lb (map (ncase c fn) cases) d rb.
Proof. reflexivity. Qed.
Lemma nstmt_block_eq fn lb b rb : nstmt c fn (SBlock lb b rb) = SBlock lb (map (nstmt c fn) b) rb.
Proof. reflexivity. Qed.

Theorem norm_fixed_point :
  (forall s nx, cstmt fok s nx -> forall fn, nstmt c fn (nstmt c fn s) = nstmt c fn s)
  /\ (forall ss rb, cblock fok ss rb -> forall fn, map (nstmt c fn) (map (nstmt c fn) ss) = map (nstmt c fn) ss)
  /\ (forall an els nx, cchain fok an els nx -> forall fn,
        map (nelif c fn) (map (nelif c fn) an) = map (nelif c fn) an /\ nels c fn (nels c fn els) = nels c fn els)
  /\ (forall cs rb, ccases fok cs rb -> forall fn, map (ncase c fn) (map (ncase c fn) cs) = map (ncase c fn) cs)
  /\ (forall ss ft nx, cbody fok ss ft nx -> forall fn, map (nstmt c fn) (map (nstmt c fn) ss) = map (nstmt c fn) ss).
Proof.
  apply cstmt_all_ind.
  - intros s nx H fn. now apply (simple_idem fn s nx).
  - intros. cbn [nstmt]. now rewrite nargs_idem.
  - intros. reflexivity.
  - intros lb ss rb nx A B IH fn. rewrite !nstmt_block_eq. now rewrite IH.
  - intros kw lp cnd rp lb b rb an els nx A B C D E F IHb G IHc fn.
    destruct (IHc fn) as [I1 I2]. rewrite !nstmt_if_eq.
    rewrite nexpr_idem, IHb, I1, I2. reflexivity.
  - intros kw lp ctl rp lb cases d rb nx A B C D E F IHc G H fn. rewrite !nstmt_switch_eq. now rewrite nexpr_idem, IHc.
  - intros. reflexivity.
  - intros s ss rb A IHs B IHb fn. cbn [map]. now rewrite IHs, IHb.
  - intros. split; reflexivity.
  - intros k lb ss rb nx A B C IH fn. split; [reflexivity|]. cbn [nels]. now rewrite IH.
  - intros k1 k2 lp cnd rp lb b rb more els nx A B C D E F IHb G IHc fn. destruct (IHc fn) as [I1 I2].
    split; [|exact I2]. cbn [map]. rewrite I1. f_equal. rewrite (nelif_eq c fn k1 k2).
    destruct k2 as [i|]; [|destruct (FmtTok.else_if c) eqn:Ee]; rewrite nelif_eq, ?Ee, nexpr_idem, IHb; reflexivity.
  - intros. reflexivity.
  - intros h cl body ft cs rb A B C IHb D IHc fn. cbn [map]. rewrite IHc. f_equal.
    rewrite !ncase_eq. now rewrite nhead_idem, IHb.
  - intros. reflexivity.
  - intros. reflexivity.
  - intros s ss ft nx A IHs B IHb fn. cbn [map]. now rewrite IHs, IHb.
  - intros kw sm ss ft nx A B C IH fn. cbn [map nstmt]. now rewrite IH.
  - intros kw sm ss ft nx A B C IH fn. cbn [map nstmt]. now rewrite IH.
Qed.

Lemma ndfield_idem f : ndfield c (ndfield c f) = ndfield c f.
Proof. destruct f. cbn [ndfield]. now rewrite nexpr_idem. Qed.

Lemma ndprop_idem p : ndprop c (ndprop c p) = ndprop c p.
Proof.
  destruct p as [f|lb fs rb]; cbn [ndprop]; [now rewrite ndfield_idem|].
  rewrite map_map. f_equal. apply map_ext. intros. apply ndfield_idem.
Qed.

Lemma ntprop_idem p : ntprop c (ntprop c p) = ntprop c p.
Proof. destruct p as [k cl v cm]. cbn [ntprop]. rewrite !nexpr_idem. destruct cm; reflexivity. Qed.

Lemma nbprop_idem : forall p, nbprop c (nbprop c p) = nbprop c p.
Proof.
  fix IH 1. intros [d k q v sm|d k q lb ps rb]; cbn [nbprop].
  - now rewrite nexpr_idem.
  - f_equal. rewrite map_map. induction ps as [|a ps IHps]; cbn [map]; [reflexivity|]. now rewrite IH, IHps.
Qed.

Lemma decl_idem d nx : cdeclx fok d nx -> nstmt c false (nstmt c false d) = nstmt c false d.
Proof.
  intros H. destruct d; cbn [cdeclx cdecl] in H; try contradiction; try reflexivity.
  - (* backend *) cbn [nstmt]. f_equal. rewrite map_map. apply map_ext. intros. apply nbprop_idem.
  - (* director *) cbn [nstmt]. f_equal. rewrite map_map. apply map_ext. intros. apply ndprop_idem.
  - (* table *) cbn [nstmt]. f_equal. rewrite map_map. apply map_ext. intros. apply ntprop_idem.
  - (* sub *) destruct H as (_ & _ & _ & _ & _ & F).
    pose proof (proj1 (proj2 norm_fixed_point) b rb F (match ret with Some _ => true | None => false end)) as I.
    cbn [nstmt]. rewrite I. f_equal. destruct params as [[[lp ps] rp]|]; [destruct ps|]; reflexivity.
  - (* penaltybox *) destruct H as (_ & _ & _ & F). cbn [nstmt].
    now rewrite (proj1 (proj2 norm_fixed_point) b rb F false).
  - (* ratecounter *) destruct H as (_ & _ & _ & F). cbn [nstmt].
    now rewrite (proj1 (proj2 norm_fixed_point) b rb F false).
Qed.

(* format o format = format on the tree: the normalised program is a fixed point *)
Theorem tree_idem ds : cprog fok ds -> norm_vcl c (norm_vcl c (Vcl ds false)) = norm_vcl c (Vcl ds false).
Proof.
  intros H. unfold norm_vcl. cbn [vstmts vsnippet]. f_equal.
  induction ds as [|d ds IH]; [reflexivity|]. destruct H as [Hd Hds]. cbn [map].
  now rewrite (decl_idem d _ Hd), (IH Hds).
Qed.
End I.

Example ex_prog_tree_idem :
  norm_vcl FmtExamples.ex_conf (norm_vcl FmtExamples.ex_conf (Vcl ex_prog false)) = norm_vcl FmtExamples.ex_conf (Vcl ex_prog false).
Proof. exact (tree_idem _ _ ex_prog ex_prog_canonical). Qed.
