(* program_roundtrip, part 6: snippets (ParseSnippetVCL) and INT_MIN under a unary minus. *)
From Coq Require Import String.
From Coq Require Import List NArith ZArith Bool Lia.
From Falco Require Import Base.Bytes Gen.TokenTypes Model.ParseKinds Gen.ParserTables
  Model.ParseBase Model.Ast Model.ParseLit Model.ParseExpr Model.ParseStmt Model.ParseDecl Model.Yield
  Proofs.ParseTables Proofs.ParseExprYield Proofs.ParseExprMono Proofs.ParseExprTotal
  Proofs.ParsePratt Proofs.ParseRoundtrip Proofs.ParseStmtYield Proofs.ParseStmtTotal Proofs.ParseDeclTotal
  Proofs.ParseStmtMono Proofs.ParseProgram Proofs.ParseProgram2 Proofs.ParseProgram3 Proofs.ParseProgram4
  Proofs.ParseProgram5.
Import ListNotations.
Local Open Scope parse_scope.

Section P.
Variable fok : str -> bool.
Notation cstmt := (cstmt fok).

(* ParseIfStatement / ParseSwitchStatement never look at prevToken of the state they are entered with *)
Lemma pif_prev n pv pv' l : pif fok n (St pv l) = pif fok n (St pv' l).
Proof. destruct n; [reflexivity|]. rewrite !pif_S. reflexivity. Qed.
Lemma pswitch_prev n pv pv' l : pswitch fok n (St pv l) = pswitch fok n (St pv' l).
Proof. destruct n; [reflexivity|]. rewrite !pswitch_F. reflexivity. Qed.

Lemma pif_fixed s nx pv rest :
  cstmt s nx -> hdt rest = nx -> typ (hdt (ystmt s)) = T_IF ->
  okst (pif fok (stmt_fuel (St pv (ystmt s ++ rest))) (St pv (ystmt s ++ rest))) s (lastt (ystmt s) :: rest).
Proof.
  intros Hc Hnx Hif. set (st := St pv (ystmt s ++ rest)).
  destruct (proj1 (roundtrip_all fok) s nx Hc eof_tok rest Hnx) as [N HN].
  assert (Hne : toks st <> []).
  { subst st. cbn [toks]. pose proof (ystmt_ne s). destruct (ystmt s); [congruence | discriminate]. }
  assert (Hf : pif fok (stmt_fuel st) st <> PFuel).
  { apply (stmt_total_all fok (stmt_fuel st)); [exact Hne | unfold stmt_fuel, L; lia]. }
  set (m := Nat.max N (stmt_fuel st)).
  rewrite <- (pif_mono_any fok (stmt_fuel st) m st Hf) by (subst m; lia).
  destruct (HN None (S m) ltac:(subst m; lia)) as [pv' E].
  rewrite pstmt_S in E. cbn zeta in E. rewrite next_cons in E.
  destruct (ystmt s) as [|x r] eqn:Ey; [pose proof (ystmt_ne s); congruence|].
  cbn [app] in E. rewrite psimple_none in E by (right; right; left; exact Hif).
  rewrite cur_cons in E. cbn [hdt hd] in Hif. rewrite Hif in E.
  subst st. cbn [app]. rewrite (pif_prev m pv (Some eof_tok)). exists pv'. exact E.
Qed.

Lemma pswitch_fixed s nx pv rest :
  cstmt s nx -> hdt rest = nx -> typ (hdt (ystmt s)) = T_SWITCH ->
  okst (pswitch fok (stmt_fuel (St pv (ystmt s ++ rest))) (St pv (ystmt s ++ rest))) s (lastt (ystmt s) :: rest).
Proof.
  intros Hc Hnx Hsw. set (st := St pv (ystmt s ++ rest)).
  destruct (proj1 (roundtrip_all fok) s nx Hc eof_tok rest Hnx) as [N HN].
  assert (Hne : toks st <> []).
  { subst st. cbn [toks]. pose proof (ystmt_ne s). destruct (ystmt s); [congruence | discriminate]. }
  assert (Hf : pswitch fok (stmt_fuel st) st <> PFuel).
  { apply (stmt_total_all fok (stmt_fuel st)); [exact Hne | unfold stmt_fuel, L; lia]. }
  set (m := Nat.max N (stmt_fuel st)).
  rewrite <- (pswitch_mono_any fok (stmt_fuel st) m st Hf) by (subst m; lia).
  destruct (HN None (S m) ltac:(subst m; lia)) as [pv' E].
  rewrite pstmt_S in E. cbn zeta in E. rewrite next_cons in E.
  destruct (ystmt s) as [|x r] eqn:Ey; [pose proof (ystmt_ne s); congruence|].
  cbn [app] in E. rewrite psimple_none in E by (right; right; right; left; exact Hsw).
  rewrite cur_cons in E. cbn [hdt hd] in Hsw. rewrite Hsw in E.
  subst st. cbn [app]. rewrite (pswitch_prev m pv (Some eof_tok)). exists pv'. exact E.
Qed.

(* one iteration of the snippet loop on a canonical statement *)
Lemma snippet_stmt_rt s pv rest : cstmt s (hdt rest) -> okst (snippet_stmt fok (St pv (ystmt s ++ rest))) s rest.
Proof.
  intros Hc. unfold snippet_stmt.
  assert (H : exists lst, okst
    (match typ (cur (St pv (ystmt s ++ rest))) with
     | T_LEFT_BRACE =>
         do (b, st') <- pblock fok (stmt_fuel (St pv (ystmt s ++ rest))) (St pv (ystmt s ++ rest));
         let '(lb, ss, rb) := b in POK (SBlock lb ss rb, st')
     | T_IF => pif fok (stmt_fuel (St pv (ystmt s ++ rest))) (St pv (ystmt s ++ rest))
     | T_SWITCH => pswitch fok (stmt_fuel (St pv (ystmt s ++ rest))) (St pv (ystmt s ++ rest))
     | T_IDENT =>
         if peek_is (St pv (ystmt s ++ rest)) T_LEFT_PAREN then pfuncall fok (St pv (ystmt s ++ rest))
         else match pgotodest (St pv (ystmt s ++ rest)) with
              | Some r => POK r
              | None => err_peek E_unexpected (St pv (ystmt s ++ rest))
              end
     | _ => match psimple fok (St pv (ystmt s ++ rest)) with
            | Some r => r
            | None => err_peek E_unexpected (St pv (ystmt s ++ rest))
            end
     end) s (lst :: rest)).
  { remember (hdt rest) as nx eqn:Hnx. symmetry in Hnx.
    destruct Hc as [s nx Hq|f lp a rp semi nx Hf Hlp Hrp Ca Hs|name nx Hn Hg Hnl|lb ss rb nx Hlb Hcb
                   |kw lp c rp lb b rb another els nx Hkw Hlp Hce Hrp Hlb Hcb Hch
                   |kw lp ctl rp lb cases dflt rb nx Hkw Hlp Hctl Hrp Hlb Hcs Hbk Hlast].
    - (* simple *) subst nx. destruct (simple_rt fok s pv rest Hq) as [r [E1 E2]]. exists (lastt (ystmt s)).
      destruct (ystmt s) as [|x r0] eqn:Ey; [pose proof (ystmt_ne s); congruence|]. cbn [app] in *.
      rewrite cur_cons.
      destruct (typ x) eqn:Et; try (rewrite E1; exact E2);
        (exfalso; rewrite psimple_none in E1; [discriminate | rewrite Et; auto 8]).
    - (* call *) eexists. cbn [ystmt app]. rewrite cur_cons, Hf. rewrite <- app_assoc. cbn [app].
      rewrite peek_is_cons, Hlp, ttype_eqb_refl. unfold pfuncall. rewrite next_cons.
      rewrite (pa_rt fok a (Some f) lp rp (semi :: rest) Ca Hrp). cbn [pbind].
      rewrite (semi_cons _ _ _ _ Hs). cbn [pbind]. rewrite !cur_cons. eexists. reflexivity.
    - (* label *) subst nx. eexists. cbn [ystmt app]. rewrite cur_cons, Hn.
      change (peek_is (St pv (name :: rest)) T_LEFT_PAREN) with (ttype_eqb (typ (hdt rest)) T_LEFT_PAREN).
      apply ttype_eqb_neq in Hnl. rewrite Hnl. unfold pgotodest. rewrite cur_cons, Hg. eexists. reflexivity.
    - (* block *) eexists. cbn [ystmt app]. rewrite <- app_assoc. cbn [app]. rewrite cur_cons, Hlb.
      destruct (pblock_fixed fok ss rb pv lb rest Hcb) as [pv' E]. rewrite E. cbn [pbind]. eexists. reflexivity.
    - (* if *) eexists.
      replace (typ (cur (St pv (ystmt (SIf kw lp c rp lb b rb another els) ++ rest)))) with T_IF by (cbn; symmetry; exact Hkw).
      apply (pif_fixed _ nx); [apply c_if; assumption | exact Hnx | exact Hkw].
    - (* switch *) eexists.
      replace (typ (cur (St pv (ystmt (SSwitch kw lp ctl rp lb cases dflt rb) ++ rest)))) with T_SWITCH by (cbn; symmetry; exact Hkw).
      apply (pswitch_fixed _ nx); [apply c_switch; assumption | exact Hnx | exact Hkw]. }
  destruct H as [lst [pv1 E]]. rewrite E. cbn [pbind]. rewrite next_cons. eexists. reflexivity.
Qed.

(* a canonical snippet: canonical statements, each followed by the first token of the next *)
Fixpoint csnip (ss : list stmt) : Prop :=
  match ss with
  | [] => True
  | s :: r => cstmt s (hdt (flat_map ystmt r)) /\ csnip r
  end.

Lemma cstmt_first_eof s nx : cstmt s nx -> typ (hdt (ystmt s)) <> T_EOF.
Proof.
  intros H. destruct H.
  - apply (csimple_first fok) in H. intros E. apply H. unfold psimple.
    replace (typ (cur (St None (ystmt s)))) with (typ (hdt (ystmt s))) by reflexivity. rewrite E. reflexivity.
  - cbn. rewrite H. discriminate.
  - cbn. rewrite H. discriminate.
  - cbn. rewrite H. discriminate.
  - cbn. rewrite H. discriminate.
  - cbn. rewrite H. discriminate.
Qed.

Lemma psnippet_rt : forall ss n pv acc, csnip ss -> length ss < n ->
  okst (psnippet fok n (St pv (flat_map ystmt ss)) acc) (rev acc ++ ss) [].
Proof.
  induction ss as [|s ss IH]; intros n pv acc Hc Hn.
  - destruct n; [simpl in Hn; lia|]. cbn [psnippet flat_map]. rewrite app_nil_r. eexists. reflexivity.
  - destruct n; [simpl in Hn; lia|]. destruct Hc as [Hs Hss]. cbn [psnippet flat_map].
    rewrite cur_is_app by apply ystmt_ne.
    pose proof (cstmt_first_eof s _ Hs) as Hh. apply ttype_eqb_neq in Hh. rewrite Hh.
    destruct (snippet_stmt_rt s pv (flat_map ystmt ss) Hs) as [pv1 E1]. rewrite E1. cbn [pbind].
    destruct (IH n pv1 (s :: acc) Hss ltac:(simpl in Hn; lia)) as [pv2 E2]. rewrite E2.
    exists pv2. cbn [rev]. rewrite <- app_assoc. reflexivity.
Qed.

(* snippet_roundtrip: ParseSnippetVCL on the tokens of a canonical snippet returns the snippet *)
Theorem snippet_roundtrip ss : csnip ss -> parse_snippet fok (flat_map ystmt ss) = POK (Vcl ss true).
Proof.
  intros Hc. unfold parse_snippet, start.
  destruct (psnippet_rt ss (S (length (flat_map ystmt ss))) None [] Hc) as [pv E].
  { pose proof (flat_map_len_ge ystmt ss ystmt_ne). lia. }
  rewrite E. reflexivity.
Qed.

(* INT_MIN: the literal 2^63 (decimal or hex) directly behind a unary minus - the one integer literal
   whose conversion depends on prevToken, hence outside [canon] - parses to -(-2^63 stored) *)
Theorem int_min_roundtrip op t p pv rest :
  typ op = T_MINUS -> typ t = T_INT -> conv_integer true (lit t) = Some (- Z.of_N two63)%Z ->
  stops 8 rest = true -> stops p rest = true ->
  parse_expr fok p (St pv (op :: t :: rest)) = POK (EPrefix op (EInt t (- Z.of_N two63)%Z), St (Some op) (t :: rest)).
Proof.
  intros Hop Ht Hv H8 Hp. unfold parse_expr, expr_fuel. cbn [toks length].
  set (n := 2 * S (S (length rest)) + 4). assert (Hn : 3 <= n) by (subst n; lia).
  destruct n as [|[|[|n]]]; try lia.
  rewrite (pexpr_S fok _ _ _ PK_ParsePrefixExpression) by (unfold cur; cbn [toks hd]; rewrite Hop; reflexivity).
  cbn [pprefix]. rewrite next_cons, P_PREFIX_doc.
  rewrite (pexpr_S fok _ _ _ PK_ParseInteger) by (unfold cur; cbn [toks hd]; rewrite Ht; reflexivity).
  cbn [pprefix]. unfold pinteger, pint. cbn [prev cur toks hd]. rewrite Hop, ttype_eqb_refl, Hv. cbn [pbind].
  rewrite ploop_stop by exact H8. cbn [pbind]. rewrite ?cur_cons.
  apply ploop_stop. exact Hp.
Qed.

End P.

(* witnesses *)
Local Open Scope string_scope.
Definition ex_snippet : list stmt :=
  [ SEsi (k_ T_ESI "esi") (k_ T_SEMICOLON ";");
    sw [ case_ "a" [ brk; SRestart (k_ T_RESTART "restart") (k_ T_SEMICOLON ";"); brk ] ];
    SGotoDest (k_ T_IDENT "l:") ].

Example ex_snippet_canonical : csnip (fun _ => true) ex_snippet.
Proof.
  cbn [csnip ex_snippet]. repeat split.
  - apply c_simple. vm_compute. repeat split; reflexivity.
  - apply c_switch; [reflexivity | reflexivity | reflexivity | reflexivity | reflexivity | | vm_compute; reflexivity | vm_compute; reflexivity].
    apply cs_cons; [vm_compute; repeat split; reflexivity | reflexivity | | apply cs_nil; reflexivity].
    apply cy_mid_break; try reflexivity.
    apply cy_cons; [apply c_simple; vm_compute; repeat split; reflexivity|].
    apply cy_break; try reflexivity. right. right. reflexivity.
  - apply c_label; try reflexivity. vm_compute. discriminate.
Qed.

Example ex_snippet_parses : parse_snippet (fun _ => true) (flat_map ystmt ex_snippet) = POK (Vcl ex_snippet true).
Proof. apply snippet_roundtrip. exact ex_snippet_canonical. Qed.

Example ex_int_min :
  parse_expr (fun _ => true) 1%N (St None [k_ T_MINUS "-"; k_ T_INT "9223372036854775808"; k_ T_SEMICOLON ";"])
  = POK (EPrefix (k_ T_MINUS "-") (EInt (k_ T_INT "9223372036854775808") (-9223372036854775808)%Z),
         St (Some (k_ T_MINUS "-")) [k_ T_INT "9223372036854775808"; k_ T_SEMICOLON ";"]).
Proof. apply int_min_roundtrip; reflexivity. Qed.
