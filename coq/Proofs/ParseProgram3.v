(* program_roundtrip, part 3: canonical statements (simple kinds, function calls, labels, blocks,
   if / else if / elseif / elsif / else chains, any nesting depth) parse back to themselves.
   Canonicity is an inductive predicate [cstmt s nx]; nx is the token that follows the statement
   (it matters for three kinds: a label must not be followed by `(`, an include without `;` not by
   `;`, an if without else not by else / elseif / elsif).  switch statements are NOT covered. *)
From Coq Require Import String.
From Coq Require Import List NArith ZArith Bool Lia.
From Falco Require Import Base.Bytes Gen.TokenTypes Model.ParseKinds Gen.ParserTables
  Model.ParseBase Model.Ast Model.ParseLit Model.ParseExpr Model.ParseStmt Model.Yield
  Proofs.ParseTables Proofs.ParseExprYield Proofs.ParseExprMono Proofs.ParseExprTotal
  Proofs.ParsePratt Proofs.ParseRoundtrip Proofs.ParseStmtYield Proofs.ParseStmtMono Proofs.ParseProgram Proofs.ParseProgram2.
Import ListNotations.
Local Open Scope parse_scope.

Definition evok {A} (f : nat -> pres (A * pstate)) (a : A) (l : list token) : Prop :=
  exists N, forall n, N <= n -> okst (f n) a l.

Lemma evok_S {A} (f : nat -> pres (A * pstate)) a l : evok (fun n => f (S n)) a l -> evok f a l.
Proof. intros [N H]. exists (S N). intros n Hn. destruct n; [lia|]. apply H. lia. Qed.

Section P.
Variable fok : str -> bool.
Notation cexpr := (cexpr fok).

Definition else_like (t : token) : Prop := typ t = T_ELSE \/ typ t = T_ELSEIF \/ typ t = T_ELSIF.

Definition case_end (t : token) : Prop := typ t = T_CASE \/ typ t = T_DEFAULT \/ typ t = T_RIGHT_BRACE.

(* the switch control expression: identifier, call, or an expression starting with a bool / string
   literal (not directly followed by a parenthesis) *)
Definition cctl (e : expr) : Prop :=
  match e with
  | EIdent t => typ t = T_IDENT
  | ECall f lp a rp => typ f = T_IDENT /\ typ lp = T_LEFT_PAREN /\ typ rp = T_RIGHT_PAREN /\ canon_args fok a
  | _ => cexpr e
         /\ (typ (hdt (yexpr e)) = T_TRUE \/ typ (hdt (yexpr e)) = T_FALSE \/ typ (hdt (yexpr e)) = T_STRING)
         /\ typ (hdt (tl (yexpr e))) <> T_LEFT_PAREN
  end.

Definition chead_ok (h : chead) : Prop :=
  match h with
  | CDefault kw => typ kw = T_DEFAULT
  | CCase kw (CTEq e) => typ kw = T_CASE /\ cexpr e /\ typ (hdt (yexpr e)) = T_STRING
  | CCase kw (CTRegex op e) => typ kw = T_CASE /\ typ op = T_REGEX_MATCH /\ canon fok e /\ (8 < minprec e)%N
  end.

(* the bookkeeping of the case loop: default index, duplicate test, multiple defaults *)
Fixpoint book (acc : list scase) (d : Z) (cs : list scase) : option Z :=
  match cs with
  | [] => Some d
  | cl :: r =>
      match (if is_default cl then (if negb (d =? -1)%Z then None else Some (Z.of_nat (length acc))) else Some d) with
      | None => None
      | Some d' => if existsb (dup_case cl) acc then None else book (cl :: acc) d' r
      end
  end.

Definition last_case_breaks (cs : list scase) : Prop :=
  match rev cs with Case _ _ _ ft :: _ => ft = false | [] => False end.

Inductive cstmt : stmt -> token -> Prop :=
| c_simple s nx : csimple fok s nx -> cstmt s nx
| c_funcall f lp a rp semi nx :
    typ f = T_IDENT -> typ lp = T_LEFT_PAREN -> typ rp = T_RIGHT_PAREN -> canon_args fok a ->
    typ semi = T_SEMICOLON -> cstmt (SFunCall f lp a rp semi) nx
| c_label name nx :
    typ name = T_IDENT -> is_goto_dest name = true -> typ nx <> T_LEFT_PAREN -> cstmt (SGotoDest name) nx
| c_block lb ss rb nx :
    typ lb = T_LEFT_BRACE -> cblock ss rb -> cstmt (SBlock lb ss rb) nx
| c_if kw lp c rp lb b rb another els nx :
    typ kw = T_IF -> typ lp = T_LEFT_PAREN -> cexpr c -> typ rp = T_RIGHT_PAREN -> typ lb = T_LEFT_BRACE ->
    cblock b rb -> cchain another els nx ->
    cstmt (SIf kw lp c rp lb b rb another els) nx
| c_switch kw lp ctl rp lb cases dflt rb nx :
    typ kw = T_SWITCH -> typ lp = T_LEFT_PAREN -> cctl ctl -> typ rp = T_RIGHT_PAREN -> typ lb = T_LEFT_BRACE ->
    ccases cases rb -> book [] (-1)%Z cases = Some dflt -> last_case_breaks cases ->
    cstmt (SSwitch kw lp ctl rp lb cases dflt rb) nx
with cblock : list stmt -> token -> Prop :=
| cb_nil rb : typ rb = T_RIGHT_BRACE -> cblock [] rb
| cb_cons s ss rb :
    cstmt s (hdt (flat_map ystmt ss ++ [rb])) -> cblock ss rb -> cblock (s :: ss) rb
with cchain : list elif -> option (token * token * list stmt * token) -> token -> Prop :=
| cc_none nx : ~ else_like nx -> cchain [] None nx
| cc_else k lb ss rb nx :
    typ k = T_ELSE -> typ lb = T_LEFT_BRACE -> cblock ss rb -> cchain [] (Some (k, lb, ss, rb)) nx
| cc_elif k1 k2 lp c rp lb b rb more els nx :
    match k2 with
    | Some i => typ k1 = T_ELSE /\ typ i = T_IF
    | None => typ k1 = T_ELSEIF \/ typ k1 = T_ELSIF
    end ->
    typ lp = T_LEFT_PAREN -> cexpr c -> typ rp = T_RIGHT_PAREN -> typ lb = T_LEFT_BRACE -> cblock b rb ->
    cchain more els nx ->
    cchain (Elif k1 k2 lp c rp lb b rb :: more) els nx
(* the case clauses of a switch closed by rb *)
with ccases : list scase -> token -> Prop :=
| cs_nil rb : typ rb = T_RIGHT_BRACE -> ccases [] rb
| cs_cons h colon body ft cs rb :
    chead_ok h -> typ colon = T_COLON -> cbody body ft (hdt (flat_map ycase cs ++ [rb])) -> ccases cs rb ->
    ccases (Case h colon body ft :: cs) rb
(* a case body: canonical statements, then break; (ft = false) or fallthrough; (ft = true) *)
with cbody : list stmt -> bool -> token -> Prop :=
| cy_break kw semi nx :
    typ kw = T_BREAK -> typ semi = T_SEMICOLON -> case_end nx -> cbody [SBreak kw semi] false nx
| cy_fall kw semi nx :
    typ kw = T_FALLTHROUGH -> typ semi = T_SEMICOLON -> case_end nx -> cbody [SFallthrough kw semi] true nx
| cy_cons s ss ft nx :
    cstmt s (hdt (flat_map ystmt ss ++ [nx])) -> cbody ss ft nx -> cbody (s :: ss) ft nx
(* a break; / fallthrough; that is NOT the last statement of the clause (the parser accepts it) *)
| cy_mid_break kw semi ss ft nx :
    typ kw = T_BREAK -> typ semi = T_SEMICOLON -> cbody ss ft nx -> cbody (SBreak kw semi :: ss) ft nx
| cy_mid_fall kw semi ss ft nx :
    typ kw = T_FALLTHROUGH -> typ semi = T_SEMICOLON -> cbody ss ft nx -> cbody (SFallthrough kw semi :: ss) ft nx.

Scheme cstmt_mut := Minimality for cstmt Sort Prop
  with cblock_mut := Minimality for cblock Sort Prop
  with cchain_mut := Minimality for cchain Sort Prop
  with ccases_mut := Minimality for ccases Sort Prop
  with cbody_mut := Minimality for cbody Sort Prop.
Combined Scheme cstmt_all_ind from cstmt_mut, cblock_mut, cchain_mut, ccases_mut, cbody_mut.

Lemma cblock_rb ss rb : cblock ss rb -> typ rb = T_RIGHT_BRACE.
Proof. induction 1; auto. Qed.

Lemma hdt_app_any (l : list token) a r1 r2 : hdt (l ++ a :: r1) = hdt (l ++ a :: r2).
Proof. destruct l; reflexivity. Qed.

Lemma lastt_cons x l : l <> [] -> lastt (x :: l) = lastt l.
Proof. intros H. unfold lastt. destruct l; [congruence | reflexivity]. Qed.
Lemma lastt_app_ne l1 l2 : l2 <> [] -> lastt (l1 ++ l2) = lastt l2.
Proof. apply last_app_ne. Qed.

Lemma ystmt_ne s : ystmt s <> []. Proof. destruct s; simpl; discriminate. Qed.

(* the first token of a canonical statement starts a statement: it is not `}` *)
Lemma csimple_first s nx : csimple fok s nx -> psimple fok (St None (ystmt s)) <> None.
Proof.
  intros H. destruct s; cbn [csimple] in H; try contradiction;
    unfold psimple; cbn [ystmt app cur toks hd]; (destruct H as [Hk _]); rewrite Hk; discriminate.
Qed.

Lemma cstmt_first2 s nx : cstmt s nx -> ~ case_end (hdt (ystmt s)).
Proof.
  intros H. destruct H.
  - apply csimple_first in H. intros E. apply H. unfold psimple.
    replace (typ (cur (St None (ystmt s)))) with (typ (hdt (ystmt s))) by reflexivity.
    destruct E as [E|[E|E]]; rewrite E; reflexivity.
  - cbn. unfold case_end. rewrite H. intros [E|[E|E]]; discriminate.
  - cbn. unfold case_end. rewrite H. intros [E|[E|E]]; discriminate.
  - cbn. unfold case_end. rewrite H. intros [E|[E|E]]; discriminate.
  - cbn. unfold case_end. rewrite H. intros [E|[E|E]]; discriminate.
  - cbn. unfold case_end. rewrite H. intros [E|[E|E]]; discriminate.
Qed.

Lemma cstmt_first s nx : cstmt s nx -> typ (hdt (ystmt s)) <> T_RIGHT_BRACE.
Proof. intros H E. apply (cstmt_first2 s nx H). right. right. exact E. Qed.

Lemma psimple_none pv x r : 
  (typ x = T_IDENT \/ typ x = T_LEFT_BRACE \/ typ x = T_IF \/ typ x = T_SWITCH \/ typ x = T_BREAK \/ typ x = T_FALLTHROUGH) ->
  psimple fok (St pv (x :: r)) = None.
Proof. intros [H|[H|[H|[H|[H|H]]]]]; unfold psimple; rewrite cur_cons, H; reflexivity. Qed.

(* one-step unfoldings *)
Lemma pstmt_S n st0 :
  pstmt fok (S n) st0 =
  let st := next st0 in
  match psimple fok st with
  | Some r => r
  | None =>
    match typ (cur st) with
    | T_LEFT_BRACE => do (b, st') <- pblock fok n st; let '(lb, ss, rb) := b in POK (SBlock lb ss rb, st')
    | T_IF => pif fok n st
    | T_SWITCH => pswitch fok n st
    | T_BREAK => pkw_semi SBreak st
    | T_FALLTHROUGH => pkw_semi SFallthrough st
    | T_IDENT =>
        if peek_is st T_LEFT_PAREN then pfuncall fok st
        else match pgotodest st with Some r => POK r | None => err_cur E_unexpected st end
    | _ => err_cur E_unexpected st
    end
  end.
Proof. reflexivity. Qed.

Lemma pblock_S n st :
  pblock fok (S n) st = do (ss, st1) <- pblock_loop fok n st []; POK ((cur st, ss, cur (next st1)), next st1).
Proof. reflexivity. Qed.

Lemma pblock_loop_S n st acc :
  pblock_loop fok (S n) st acc =
  if peek_is st T_RIGHT_BRACE then POK (rev acc, st)
  else do (s, st1) <- pstmt fok n st;
       if is_break_or_fallthrough s then err_prev E_unexpected st1 else pblock_loop fok n st1 (s :: acc).
Proof. reflexivity. Qed.

Lemma pif_S n st :
  pif fok (S n) st =
  do st1 <- expect st T_LEFT_PAREN;
  do (c, st2) <- parse_expr fok P_LOWEST (next st1);
  do st3 <- expect st2 T_RIGHT_PAREN;
  do st4 <- expect st3 T_LEFT_BRACE;
  do (b, st5) <- pblock fok n st4;
  let '(lb, ss, rb) := b in
  do (r, st6) <- pif_chain fok n st5 [];
  POK (SIf (cur st) (cur st1) c (cur st3) lb ss rb (fst r) (snd r), st6).
Proof. reflexivity. Qed.

Lemma pelif_S n k1 k2 st :
  pelif fok (S n) k1 k2 st =
  do st1 <- expect st T_LEFT_PAREN;
  do (c, st2) <- parse_expr fok P_LOWEST (next st1);
  do st3 <- expect st2 T_RIGHT_PAREN;
  do st4 <- expect st3 T_LEFT_BRACE;
  do (b, st5) <- pblock fok n st4;
  let '(lb, ss, rb) := b in
  POK (Elif k1 k2 (cur st1) c (cur st3) lb ss rb, st5).
Proof. reflexivity. Qed.

Lemma pif_chain_S n st acc :
  pif_chain fok (S n) st acc =
  match typ (peek st) with
  | T_ELSE =>
      let st1 := next st in
      if peek_is st1 T_IF then
        let st2 := next st1 in
        do (e, st3) <- pelif fok n (cur st1) (Some (cur st2)) st2; pif_chain fok n st3 (e :: acc)
      else
        do st2 <- expect st1 T_LEFT_BRACE;
        do (b, st3) <- pblock fok n st2;
        let '(lb, ss, rb) := b in POK ((rev acc, Some (cur st1, lb, ss, rb)), st3)
  | T_ELSEIF | T_ELSIF =>
      let st1 := next st in
      do (e, st2) <- pelif fok n (cur st1) None st1; pif_chain fok n st2 (e :: acc)
  | _ => POK ((rev acc, None), st)
  end.
Proof. reflexivity. Qed.

(* "for all sufficiently large fuel and every prevToken" *)
Definition evp {A} (f : option token -> nat -> pres (A * pstate)) (a : A) (l : list token) : Prop :=
  exists N, forall pv n, N <= n -> okst (f pv n) a l.

Definition Ps (s : stmt) (nx : token) : Prop :=
  forall x0 rest, hdt rest = nx ->
    evp (fun pv n => pstmt fok n (St pv (x0 :: ystmt s ++ rest))) s (lastt (ystmt s) :: rest).
Definition Pb (ss : list stmt) (rb : token) : Prop :=
  forall x acc rest,
    evp (fun pv n => pblock_loop fok n (St pv (x :: flat_map ystmt ss ++ rb :: rest)) acc)
        (rev acc ++ ss) (lastt (x :: flat_map ystmt ss) :: rb :: rest).
Definition Pc (another : list elif) (els : option (token * token * list stmt * token)) (nx : token) : Prop :=
  forall x acc rest, hdt rest = nx ->
    evp (fun pv n => pif_chain fok n (St pv (x :: flat_map yelif another ++ yels els ++ rest)) acc)
        (rev acc ++ another, els) (lastt (x :: flat_map yelif another ++ yels els) :: rest).

Definition Pcs (cs : list scase) (rb : token) : Prop :=
  forall x acc d rest dfin, book acc d cs = Some dfin ->
    evp (fun pv n => pcases fok n (St pv (x :: flat_map ycase cs ++ rb :: rest)) acc d)
        (rev acc ++ cs, dfin) (lastt (x :: flat_map ycase cs) :: rb :: rest).
Definition Pcb (body : list stmt) (ft : bool) (nx : token) : Prop :=
  forall x acc rest, hdt rest = nx ->
    exists N, forall pv n, N <= n -> exists kwl,
      pcase_body fok n (St pv (x :: flat_map ystmt body ++ rest)) acc
      = POK (rev acc ++ body, St (Some kwl) (lastt (x :: flat_map ystmt body) :: rest))
      /\ typ kwl = (if ft then T_FALLTHROUGH else T_BREAK).

Lemma pblock_from_loop ss rb : Pb ss rb -> typ rb = T_RIGHT_BRACE ->
  forall lb rest,
    evp (fun pv n => pblock fok n (St pv (lb :: flat_map ystmt ss ++ rb :: rest))) (lb, ss, rb) (rb :: rest).
Proof.
  intros H Hrb lb rest. destruct (H lb [] rest) as [N HN]. exists (S N). intros pv n Hn.
  destruct n; [lia|]. rewrite pblock_S. destruct (HN pv n ltac:(lia)) as [pv' E]. rewrite E. cbn [pbind rev app].
  rewrite next_cons, !cur_cons. eexists. reflexivity.
Qed.

(* `( cond ) { body }` behind the token x (IF, ELSEIF or ELSIF in cur) *)
Lemma pelif_rt k1 k2 lp c rp lb b rb :
  typ lp = T_LEFT_PAREN -> cexpr c -> typ rp = T_RIGHT_PAREN -> typ lb = T_LEFT_BRACE ->
  cblock b rb -> Pb b rb ->
  forall x rest,
    evp (fun pv n => pelif fok n k1 k2 (St pv (x :: lp :: yexpr c ++ rp :: lb :: flat_map ystmt b ++ rb :: rest)))
        (Elif k1 k2 lp c rp lb b rb) (rb :: rest).
Proof.
  intros Hlp Hc Hrp Hlb Hcb IHb x rest.
  pose proof (cblock_rb b rb Hcb) as Hrb.
  destruct (pblock_from_loop b rb IHb Hrb lb rest) as [N HN].
  exists (S N). intros pv n Hn. destruct n; [lia|]. rewrite pelif_S.
  rewrite (expect_cons _ _ _ _ _ Hlp). cbn [pbind]. rewrite next_cons.
  destruct (pe_rt fok c (Some lp) rp (lb :: flat_map ystmt b ++ rb :: rest) Hc (closer_rp _ Hrp)) as [pv1 E1].
  rewrite E1. cbn [pbind]. rewrite (expect_cons _ _ _ _ _ Hrp). cbn [pbind].
  rewrite (expect_cons _ _ _ _ _ Hlb). cbn [pbind].
  destruct (HN (Some rp) n ltac:(lia)) as [pv2 E2]. rewrite E2. cbn [pbind]. rewrite !cur_cons. eexists. reflexivity.
Qed.

Lemma lastt_x_app x l1 l2 : l1 <> [] -> lastt (x :: l1 ++ l2) = lastt (lastt l1 :: l2).
Proof.
  intros H. unfold lastt. change (x :: l1 ++ l2) with ((x :: l1) ++ l2). destruct l2 as [|t l].
  - rewrite app_nil_r. change (x :: l1) with ([x] ++ l1). rewrite last_app_ne by exact H. reflexivity.
  - rewrite last_app_ne by discriminate.
    change (last l1 eof_tok :: t :: l) with ([last l1 eof_tok] ++ t :: l). rewrite last_app_ne by discriminate. reflexivity.
Qed.

Lemma lastt_suffix l pre suf : l = pre ++ suf -> suf <> [] -> lastt l = lastt suf.
Proof. intros -> H. apply lastt_app_ne. exact H. Qed.

Lemma lastt_suffix1 l pre x : l = pre ++ [x] -> lastt l = x.
Proof. intros ->. unfold lastt. apply last_last. Qed.

Ltac norm_lists := cbn [app flat_map yelif ytok]; repeat (rewrite <- app_assoc; cbn [app]); reflexivity.

Lemma cbody_last body ft nx : cbody body ft nx ->
  exists pre kw semi, body = pre ++ [if ft then SFallthrough kw semi else SBreak kw semi].
Proof.
  induction 1.
  - exists [], kw, semi. reflexivity.
  - exists [], kw, semi. reflexivity.
  - destruct IHcbody as [pre [kw [semi E]]]. exists (s :: pre), kw, semi. rewrite E. reflexivity.
  - destruct IHcbody as [pre [kw0 [semi0 E]]]. exists (SBreak kw semi :: pre), kw0, semi0. rewrite E. reflexivity.
  - destruct IHcbody as [pre [kw0 [semi0 E]]]. exists (SFallthrough kw semi :: pre), kw0, semi0. rewrite E. reflexivity.
Qed.

Lemma ccases_in cs rb : ccases cs rb -> forall h c body ft, In (Case h c body ft) cs -> exists nx, cbody body ft nx.
Proof.
  induction 1; intros h0 c0 b0 f0 Hin; [contradiction|].
  destruct Hin as [E|Hin]; [inversion E; subst; eexists; eauto | eauto].
Qed.

Lemma ccases_rb cs rb : ccases cs rb -> typ rb = T_RIGHT_BRACE.
Proof. induction 1; auto. Qed.

Lemma chead_hd h : chead_ok h -> typ (hdt (ychead h)) = T_CASE \/ typ (hdt (ychead h)) = T_DEFAULT.
Proof.
  destruct h as [kw [e|op e]|kw]; cbn; intros H.
  - left. tauto.
  - left. tauto.
  - right. exact H.
Qed.

Lemma ychead_ne h : ychead h <> []. Proof. destruct h as [kw [e|op e]|kw]; discriminate. Qed.
Lemma ycase_ne c : ycase c <> [].
Proof. destruct c as [h colon b ft]. cbn. pose proof (ychead_ne h). destruct (ychead h); [congruence | discriminate]. Qed.

Lemma roundtrip_all :
  (forall s nx, cstmt s nx -> Ps s nx) /\ (forall ss rb, cblock ss rb -> Pb ss rb) /\
  (forall an els nx, cchain an els nx -> Pc an els nx) /\
  (forall cs rb, ccases cs rb -> Pcs cs rb) /\ (forall body ft nx, cbody body ft nx -> Pcb body ft nx).
Proof.
  apply cstmt_all_ind.
  - (* simple *)
    intros s nx Hc x0 rest Hnx. subst nx. exists 1. intros pv n Hn. destruct n; [lia|].
    rewrite pstmt_S. cbn zeta. rewrite next_cons.
    destruct (simple_rt fok s (Some x0) rest Hc) as [r [E1 E2]]. rewrite E1. exact E2.
  - (* function call statement *)
    intros f lp a rp semi nx Hf Hlp Hrp Ca Hs x0 rest _. exists 1. intros pv n Hn. destruct n; [lia|].
    rewrite pstmt_S. cbn zeta. cbn [ystmt app]. rewrite next_cons. rewrite psimple_none by (left; exact Hf).
    rewrite cur_cons, Hf. rewrite <- app_assoc. cbn [app].
    rewrite peek_is_cons, Hlp, ttype_eqb_refl. unfold pfuncall. rewrite next_cons.
    rewrite (pa_rt fok a (Some f) lp rp (semi :: rest) Ca Hrp). cbn [pbind].
    rewrite (semi_cons _ _ _ _ Hs). cbn [pbind]. rewrite !cur_cons.
    replace (lastt (f :: lp :: yargs a ++ [rp; semi])) with semi.
    + eexists. reflexivity.
    + unfold lastt. change (f :: lp :: yargs a ++ [rp; semi]) with ((f :: lp :: yargs a) ++ [rp; semi]).
      rewrite last_app_ne by discriminate. reflexivity.
  - (* label *)
    intros name nx Hn Hg Hnl x0 rest Hnx. subst nx. exists 1. intros pv n Hn1. destruct n; [lia|].
    rewrite pstmt_S. cbn zeta. cbn [ystmt app]. rewrite next_cons. rewrite psimple_none by (left; exact Hn).
    rewrite cur_cons, Hn.
    change (peek_is (St (Some x0) (name :: rest)) T_LEFT_PAREN) with (ttype_eqb (typ (hdt rest)) T_LEFT_PAREN).
    apply ttype_eqb_neq in Hnl. rewrite Hnl. unfold pgotodest. rewrite cur_cons, Hg.
    eexists. reflexivity.
  - (* block *)
    intros lb ss rb nx Hlb Hcb IHb x0 rest _.
    pose proof (cblock_rb ss rb Hcb) as Hrb.
    destruct (pblock_from_loop ss rb IHb Hrb lb rest) as [N HN].
    exists (S N). intros pv n Hn. destruct n; [lia|].
    rewrite pstmt_S. cbn zeta. cbn [ystmt app]. rewrite next_cons. rewrite psimple_none by (right; left; exact Hlb).
    rewrite cur_cons, Hlb. rewrite <- app_assoc. cbn [app].
    destruct (HN (Some x0) n ltac:(lia)) as [pv' E]. rewrite E. cbn [pbind].
    replace (lastt (lb :: flat_map ystmt ss ++ [rb])) with rb.
    + eexists. reflexivity.
    + unfold lastt. change (lb :: flat_map ystmt ss ++ [rb]) with ((lb :: flat_map ystmt ss) ++ [rb]).
      rewrite last_last. reflexivity.
  - (* if *)
    intros kw lp c rp lb b rb another els nx Hkw Hlp Hc Hrp Hlb Hcb IHb Hch IHc x0 rest Hnx.
    pose proof (cblock_rb b rb Hcb) as Hrb.
    set (tail := flat_map yelif another ++ yels els ++ rest).
    destruct (pblock_from_loop b rb IHb Hrb lb tail) as [N1 H1].
    destruct (IHc rb [] rest Hnx) as [N2 H2].
    exists (S (S (Nat.max N1 N2))). intros pv n Hn. destruct n; [lia|]. destruct n; [lia|].
    assert (En : ystmt (SIf kw lp c rp lb b rb another els) ++ rest
                 = kw :: lp :: yexpr c ++ rp :: lb :: flat_map ystmt b ++ rb :: tail).
    { subst tail. cbn [ystmt app]. fold (yels els). repeat (rewrite <- app_assoc; cbn [app]). reflexivity. }
    rewrite En. rewrite pstmt_S. cbn zeta. rewrite next_cons.
    rewrite psimple_none by (right; right; left; exact Hkw). rewrite cur_cons, Hkw. rewrite pif_S.
    rewrite (expect_cons _ _ _ _ _ Hlp). cbn [pbind]. rewrite next_cons.
    destruct (pe_rt fok c (Some lp) rp (lb :: flat_map ystmt b ++ rb :: tail) Hc (closer_rp _ Hrp)) as [pv1 E1].
    rewrite E1. cbn [pbind]. rewrite (expect_cons _ _ _ _ _ Hrp). cbn [pbind].
    rewrite (expect_cons _ _ _ _ _ Hlb). cbn [pbind].
    destruct (H1 (Some rp) n ltac:(lia)) as [pv2 E2]. rewrite E2. cbn [pbind]. subst tail.
    destruct (H2 pv2 n ltac:(lia)) as [pv3 E3]. rewrite E3. cbn [pbind fst snd rev app]. rewrite !cur_cons.
    replace (lastt (ystmt (SIf kw lp c rp lb b rb another els)))
      with (lastt (rb :: flat_map yelif another ++ yels els)).
    + eexists. reflexivity.
    + cbn [ystmt]. fold (yels els).
      replace (kw :: lp :: yexpr c ++ rp :: lb :: flat_map ystmt b ++ rb :: flat_map yelif another ++ yels els)
        with ((kw :: lp :: yexpr c ++ rp :: lb :: flat_map ystmt b) ++ (rb :: flat_map yelif another ++ yels els))
        by (cbn [app]; repeat (rewrite <- app_assoc; cbn [app]); reflexivity).
      symmetry. apply lastt_app_ne. discriminate.
  - (* switch *)
    intros kw lp ctl rp lb cases dflt rb nx Hkw Hlp Hctl Hrp Hlb Hcs IHcs Hbook Hlast x0 rest _.
    pose proof (ccases_rb cases rb Hcs) as Hrb.
    destruct (IHcs lb [] (-1)%Z rest dflt Hbook) as [N HN].
    exists (S (S N)). intros pv n Hn. destruct n; [lia|]. destruct n; [lia|].
    assert (En : ystmt (SSwitch kw lp ctl rp lb cases dflt rb) ++ rest
                 = kw :: lp :: yexpr ctl ++ rp :: lb :: flat_map ycase cases ++ rb :: rest).
    { cbn [ystmt app]. repeat (rewrite <- app_assoc; cbn [app]). reflexivity. }
    rewrite En. rewrite pstmt_S. cbn zeta. rewrite next_cons.
    rewrite psimple_none by (right; right; right; left; exact Hkw). rewrite cur_cons, Hkw.
    rewrite pswitch_F. unfold F_switch. rewrite (expect_cons _ _ _ _ _ Hlp). cbn [pbind]. cbn zeta. rewrite next_cons.
    set (tail := rp :: lb :: flat_map ycase cases ++ rb :: rest).
    assert (Hc : exists pv1,
      (if peek_is (St (Some lp) (yexpr ctl ++ tail)) T_LEFT_PAREN
       then pcallexpr fok (cur (St (Some lp) (yexpr ctl ++ tail))) (next (St (Some lp) (yexpr ctl ++ tail)))
       else if cur_is (St (Some lp) (yexpr ctl ++ tail)) T_IDENT
            then POK (EIdent (cur (St (Some lp) (yexpr ctl ++ tail))), St (Some lp) (yexpr ctl ++ tail))
       else if negb (cur_is (St (Some lp) (yexpr ctl ++ tail)) T_TRUE) && negb (cur_is (St (Some lp) (yexpr ctl ++ tail)) T_FALSE)
               && negb (cur_is (St (Some lp) (yexpr ctl ++ tail)) T_STRING)
            then err_cur E_unexpected (St (Some lp) (yexpr ctl ++ tail))
       else parse_expr fok P_LOWEST (St (Some lp) (yexpr ctl ++ tail)))
      = POK (ctl, St pv1 (lastt (yexpr ctl) :: tail))).
    { assert (Hgen : cexpr ctl ->
                (typ (hdt (yexpr ctl)) = T_TRUE \/ typ (hdt (yexpr ctl)) = T_FALSE \/ typ (hdt (yexpr ctl)) = T_STRING) ->
                typ (hdt (tl (yexpr ctl))) <> T_LEFT_PAREN -> typ (hdt (tl (yexpr ctl ++ tail))) <> T_LEFT_PAREN ->
                exists pv1,
      (if peek_is (St (Some lp) (yexpr ctl ++ tail)) T_LEFT_PAREN
       then pcallexpr fok (cur (St (Some lp) (yexpr ctl ++ tail))) (next (St (Some lp) (yexpr ctl ++ tail)))
       else if cur_is (St (Some lp) (yexpr ctl ++ tail)) T_IDENT
            then POK (EIdent (cur (St (Some lp) (yexpr ctl ++ tail))), St (Some lp) (yexpr ctl ++ tail))
       else if negb (cur_is (St (Some lp) (yexpr ctl ++ tail)) T_TRUE) && negb (cur_is (St (Some lp) (yexpr ctl ++ tail)) T_FALSE)
               && negb (cur_is (St (Some lp) (yexpr ctl ++ tail)) T_STRING)
            then err_cur E_unexpected (St (Some lp) (yexpr ctl ++ tail))
       else parse_expr fok P_LOWEST (St (Some lp) (yexpr ctl ++ tail)))
      = POK (ctl, St pv1 (lastt (yexpr ctl) :: tail))).
      { intros Hce Hty _ Hnl.
        change (peek_is (St (Some lp) (yexpr ctl ++ tail)) T_LEFT_PAREN)
          with (ttype_eqb (typ (hdt (tl (yexpr ctl ++ tail)))) T_LEFT_PAREN).
        apply ttype_eqb_neq in Hnl. rewrite Hnl.
        unfold cur_is, cur. cbn [toks]. rewrite hd_app_ne by apply yexpr_nonempty. fold (hdt (yexpr ctl)).
        destruct (pe_rt fok ctl (Some lp) rp (lb :: flat_map ycase cases ++ rb :: rest) Hce (closer_rp _ Hrp)) as [pv1 E1].
        exists pv1. fold tail in E1.
        destruct Hty as [Ht|[Ht|Ht]]; rewrite Ht; cbn [ttype_eqb tcode N.eqb negb andb]; exact E1. }
      destruct ctl; cbn [cctl] in Hctl;
        try (destruct Hctl as [Hce [Hty Hnl]]; apply Hgen; auto;
             (* the token behind the first one is the same with or without the tail *)
             match goal with |- typ (hdt (tl (yexpr ?e ++ tail))) <> _ =>
               pose proof (yexpr_nonempty e) as Hne; destruct (yexpr e) as [|y0 [|y1 yr]]; [congruence | | exact Hnl];
               cbn; subst tail; cbn; rewrite Hrp; discriminate end).
      - (* identifier *) cbn [yexpr app]. subst tail. rewrite peek_is_cons, Hrp.
        replace (ttype_eqb T_RIGHT_PAREN T_LEFT_PAREN) with false by reflexivity.
        unfold cur_is. rewrite cur_cons, Hctl, ttype_eqb_refl. eexists. reflexivity.
      - (* call *) destruct Hctl as [Hf [Hlp2 [Hrp2 Ca]]]. cbn [yexpr app]. rewrite <- app_assoc. cbn [app].
        rewrite peek_is_cons, Hlp2, ttype_eqb_refl. rewrite cur_cons, next_cons.
        rewrite (pcallexpr_rt fok f lp0 a rp0 (Some f) tail Ca Hrp2).
        replace (lastt (f :: lp0 :: yargs a ++ [rp0])) with rp0; [eexists; reflexivity|].
        symmetry. apply (lastt_suffix1 _ (f :: lp0 :: yargs a)). reflexivity. }
    destruct Hc as [pv1 E1]. rewrite E1. cbn [pbind]. subst tail.
    rewrite (expect_cons _ _ _ _ _ Hrp). cbn [pbind]. rewrite (expect_cons _ _ _ _ _ Hlb). cbn [pbind].
    destruct (HN (Some rp) n ltac:(lia)) as [pv2 E2]. rewrite E2. cbn [pbind rev app].
    (* the last case ends with break; *)
    unfold last_case_breaks in Hlast. destruct (rev cases) as [|[h0 c0 body0 ft0] rc] eqn:Er; [contradiction|]. subst ft0.
    assert (Hin : In (Case h0 c0 body0 false) cases) by (apply in_rev; rewrite Er; left; reflexivity).
    destruct (ccases_in cases rb Hcs _ _ _ _ Hin) as [nx0 Hb0].
    destruct (cbody_last _ _ _ Hb0) as [pre [kwb [semib Eb]]]. rewrite Eb, rev_app_distr. cbn [rev app is_fallthrough].
    rewrite next_cons, !cur_cons.
    replace (lastt (ystmt (SSwitch kw lp ctl rp lb cases dflt rb))) with rb.
    + eexists. reflexivity.
    + symmetry. cbn [ystmt]. apply (lastt_suffix1 _ (kw :: lp :: yexpr ctl ++ rp :: lb :: flat_map ycase cases)).
      cbn [app]. repeat (rewrite <- app_assoc; cbn [app]). reflexivity.
  - (* empty block tail *)
    intros rb Hrb x acc rest. exists 1. intros pv n Hn. destruct n; [lia|].
    rewrite pblock_loop_S. cbn [flat_map app]. rewrite peek_is_cons, Hrb, ttype_eqb_refl.
    rewrite app_nil_r. eexists. reflexivity.
  - (* statement in a block *)
    intros s ss rb Hs IHs Hcb IHb x acc rest.
    assert (Hnb : is_break_or_fallthrough s = false).
    { destruct Hs as [s0 nx0 Hq| | | | |]; try reflexivity. destruct s0; try contradiction; reflexivity. }
    set (tail := flat_map ystmt ss ++ rb :: rest).
    assert (Hnx : hdt tail = hdt (flat_map ystmt ss ++ [rb])) by (subst tail; apply hdt_app_any).
    destruct (IHs x tail Hnx) as [N1 H1].
    destruct (IHb (lastt (ystmt s)) (s :: acc) rest) as [N2 H2].
    exists (S (Nat.max N1 N2)). intros pv n Hn. destruct n; [lia|].
    rewrite pblock_loop_S. cbn [flat_map]. rewrite <- app_assoc. fold tail.
    rewrite peek_is_app by apply ystmt_ne.
    pose proof (cstmt_first s _ Hs) as Hf. apply ttype_eqb_neq in Hf. rewrite Hf.
    destruct (H1 pv n ltac:(lia)) as [pv1 E1]. rewrite E1. cbn [pbind]. rewrite Hnb.
    destruct (H2 pv1 n ltac:(lia)) as [pv2 E2]. subst tail. rewrite E2.
    exists pv2. cbn [rev]. rewrite <- app_assoc. cbn [app].
    rewrite (lastt_x_app x (ystmt s) (flat_map ystmt ss)) by apply ystmt_ne. reflexivity.
  - (* no else *)
    intros nx Hne x acc rest Hnx. subst nx. exists 1. intros pv n Hn. destruct n; [lia|].
    rewrite pif_chain_S. cbn [flat_map yels app].
    change (typ (peek (St pv (x :: rest)))) with (typ (hdt rest)).
    unfold else_like in Hne.
    destruct (typ (hdt rest)) eqn:Et; try (rewrite app_nil_r; eexists; reflexivity); exfalso; apply Hne; auto.
  - (* else *)
    intros k lb ss rb nx Hk Hlb Hcb IHb x acc rest _.
    pose proof (cblock_rb ss rb Hcb) as Hrb.
    destruct (pblock_from_loop ss rb IHb Hrb lb rest) as [N HN].
    exists (S N). intros pv n Hn. destruct n; [lia|].
    rewrite pif_chain_S. cbn [flat_map yels app]. rewrite <- app_assoc. cbn [app].
    change (typ (peek (St pv (x :: k :: lb :: flat_map ystmt ss ++ rb :: rest)))) with (typ k). rewrite Hk.
    cbn zeta. rewrite next_cons. rewrite peek_is_cons, Hlb.
    replace (ttype_eqb T_LEFT_BRACE T_IF) with false by reflexivity.
    rewrite (expect_cons _ _ _ _ _ Hlb). cbn [pbind].
    destruct (HN (Some k) n ltac:(lia)) as [pv' E]. rewrite E. cbn [pbind]. rewrite cur_cons, app_nil_r.
    replace (lastt (x :: k :: lb :: flat_map ystmt ss ++ [rb])) with rb.
    + eexists. reflexivity.
    + unfold lastt. change (x :: k :: lb :: flat_map ystmt ss ++ [rb]) with ((x :: k :: lb :: flat_map ystmt ss) ++ [rb]).
      rewrite last_last. reflexivity.
  - (* else if / elseif / elsif *)
    intros k1 k2 lp c rp lb b rb more els nx Hk Hlp Hc Hrp Hlb Hcb IHb Hch IHc x acc rest Hnx.
    set (tail := flat_map yelif more ++ yels els ++ rest).
    assert (Hfin : forall (e : elif), e = Elif k1 k2 lp c rp lb b rb ->
              lastt (x :: flat_map yelif (e :: more) ++ yels els) = lastt (rb :: flat_map yelif more ++ yels els)).
    { intros e ->.
      apply (lastt_suffix _ (x :: k1 :: ytok k2 ++ lp :: yexpr c ++ rp :: lb :: flat_map ystmt b));
        [norm_lists | discriminate]. }
    destruct (IHc rb (Elif k1 k2 lp c rp lb b rb :: acc) rest Hnx) as [N2 H2].
    destruct k2 as [i|].
    + destruct Hk as [Hk1 Hi].
      destruct (pelif_rt k1 (Some i) lp c rp lb b rb Hlp Hc Hrp Hlb Hcb IHb i tail) as [N1 H1].
      exists (S (Nat.max N1 N2)). intros pv n Hn. destruct n; [lia|].
      rewrite pif_chain_S.
      assert (En : x :: flat_map yelif (Elif k1 (Some i) lp c rp lb b rb :: more) ++ yels els ++ rest
                   = x :: k1 :: i :: lp :: yexpr c ++ rp :: lb :: flat_map ystmt b ++ rb :: tail).
      { subst tail. cbn [flat_map yelif ytok app]. repeat (rewrite <- app_assoc; cbn [app]). reflexivity. }
      rewrite En.
      change (typ (peek (St pv (x :: k1 :: i :: lp :: yexpr c ++ rp :: lb :: flat_map ystmt b ++ rb :: tail)))) with (typ k1).
      rewrite Hk1. cbn zeta. rewrite next_cons. rewrite peek_is_cons, Hi, ttype_eqb_refl. rewrite next_cons, !cur_cons.
      destruct (H1 (Some k1) n ltac:(lia)) as [pv1 E1]. rewrite E1. cbn [pbind]. subst tail.
      destruct (H2 pv1 n ltac:(lia)) as [pv2 E2]. rewrite E2.
      exists pv2. cbn [rev]. rewrite <- app_assoc. cbn [app]. rewrite (Hfin _ eq_refl). reflexivity.
    + destruct (pelif_rt k1 None lp c rp lb b rb Hlp Hc Hrp Hlb Hcb IHb k1 tail) as [N1 H1].
      exists (S (Nat.max N1 N2)). intros pv n Hn. destruct n; [lia|].
      rewrite pif_chain_S.
      assert (En : x :: flat_map yelif (Elif k1 None lp c rp lb b rb :: more) ++ yels els ++ rest
                   = x :: k1 :: lp :: yexpr c ++ rp :: lb :: flat_map ystmt b ++ rb :: tail).
      { subst tail. cbn [flat_map yelif ytok app]. repeat (rewrite <- app_assoc; cbn [app]). reflexivity. }
      rewrite En.
      change (typ (peek (St pv (x :: k1 :: lp :: yexpr c ++ rp :: lb :: flat_map ystmt b ++ rb :: tail)))) with (typ k1).
      destruct Hk as [Hk1|Hk1]; rewrite Hk1; cbn zeta; rewrite next_cons, !cur_cons;
        (destruct (H1 (Some x) n ltac:(lia)) as [pv1 E1]; rewrite E1; cbn [pbind]; subst tail;
         destruct (H2 pv1 n ltac:(lia)) as [pv2 E2]; rewrite E2;
         exists pv2; cbn [rev]; rewrite <- app_assoc; cbn [app]; rewrite (Hfin _ eq_refl); reflexivity).
  - (* no more case clauses *)
    intros rb Hrb x acc d rest dfin Hb. cbn [book] in Hb. inversion Hb; subst. exists 1. intros pv n Hn. destruct n; [lia|].
    rewrite pcases_F. unfold F_cases. cbn [flat_map app]. rewrite peek_is_cons, Hrb, ttype_eqb_refl.
    rewrite app_nil_r. eexists. reflexivity.
  - (* a case clause *)
    intros h colon body ft cs rb Hh Hcol Hb IHb Hcs IHc x acc d rest dfin Hbook.
    pose proof (ccases_rb cs rb Hcs) as Hrb.
    set (cl := Case h colon body ft) in *.
    cbn [book] in Hbook.
    destruct (if is_default cl then if negb (d =? -1)%Z then None else Some (Z.of_nat (length acc)) else Some d)
      as [d'|] eqn:Ed; [|discriminate].
    destruct (existsb (dup_case cl) acc) eqn:Edup; [discriminate|].
    set (tail := flat_map ycase cs ++ rb :: rest).
    assert (Hnx : hdt tail = hdt (flat_map ycase cs ++ [rb])) by (subst tail; apply hdt_app_any).
    destruct (IHb colon [] tail Hnx) as [N1 H1].
    destruct (IHc (lastt (flat_map ystmt body)) (cl :: acc) d' rest dfin Hbook) as [N2 H2].
    exists (S (S (Nat.max N1 N2))). intros pv n Hn. destruct n; [lia|]. destruct n; [lia|].
    assert (En : x :: flat_map ycase (cl :: cs) ++ rb :: rest = x :: ychead h ++ colon :: flat_map ystmt body ++ tail).
    { subst tail cl. cbn [flat_map ycase]. repeat (rewrite <- app_assoc; cbn [app]). reflexivity. }
    rewrite En. rewrite pcases_F. unfold F_cases.
    rewrite peek_is_app by apply ychead_ne.
    assert (Hnrb : ttype_eqb (typ (hdt (ychead h))) T_RIGHT_BRACE = false).
    { apply ttype_eqb_neq. destruct (chead_hd h Hh) as [E|E]; rewrite E; discriminate. }
    rewrite Hnrb. cbn zeta. rewrite next_cons.
    (* the clause *)
    assert (Hcase : exists kwl, pcase fok (S n) (St (Some x) (ychead h ++ colon :: flat_map ystmt body ++ tail))
                    = POK (cl, St (Some kwl) (lastt (colon :: flat_map ystmt body) :: tail))).
    { rewrite pcase_F. unfold F_case.
      assert (Hhead : exists pv1,
        match typ (cur (St (Some x) (ychead h ++ colon :: flat_map ystmt body ++ tail))) with
        | T_CASE =>
            match typ (cur (next (St (Some x) (ychead h ++ colon :: flat_map ystmt body ++ tail)))) with
            | T_STRING => do (e, s') <- parse_expr fok P_LOWEST (next (St (Some x) (ychead h ++ colon :: flat_map ystmt body ++ tail)));
                          POK (CCase (cur (St (Some x) (ychead h ++ colon :: flat_map ystmt body ++ tail))) (CTEq e), s')
            | T_REGEX_MATCH =>
                do (e, s') <- parse_expr fok P_PREFIX (next (next (St (Some x) (ychead h ++ colon :: flat_map ystmt body ++ tail))));
                POK (CCase (cur (St (Some x) (ychead h ++ colon :: flat_map ystmt body ++ tail)))
                           (CTRegex (cur (next (St (Some x) (ychead h ++ colon :: flat_map ystmt body ++ tail)))) e), s')
            | _ => err_cur E_unexpected (next (St (Some x) (ychead h ++ colon :: flat_map ystmt body ++ tail)))
            end
        | T_DEFAULT => POK (CDefault (cur (St (Some x) (ychead h ++ colon :: flat_map ystmt body ++ tail))),
                            St (Some x) (ychead h ++ colon :: flat_map ystmt body ++ tail))
        | _ => err_cur E_unexpected (St (Some x) (ychead h ++ colon :: flat_map ystmt body ++ tail))
        end = POK (h, St pv1 (lastt (ychead h) :: colon :: flat_map ystmt body ++ tail))).
      { destruct h as [kw [e|op e]|kw]; cbn [chead_ok ychead yctest app] in *.
        - destruct Hh as [Hk [He Hs]]. rewrite cur_cons, Hk, next_cons.
          unfold cur. cbn [toks]. rewrite hd_app_ne by apply yexpr_nonempty. fold (hdt (yexpr e)). rewrite Hs.
          destruct (pe_rt fok e (Some kw) colon (flat_map ystmt body ++ tail) He (closer_colon _ Hcol)) as [pv1 E1].
          rewrite E1. cbn [pbind]. exists pv1. f_equal. f_equal. f_equal. f_equal.
          symmetry. unfold lastt. change (kw :: yexpr e) with ([kw] ++ yexpr e). apply last_app_ne. apply yexpr_nonempty.
        - destruct Hh as [Hk [Hop [Hce Hm]]]. rewrite cur_cons, Hk, !next_cons, cur_cons, Hop.
          destruct (pe_rt_prec fok e P_PREFIX (Some op) colon (flat_map ystmt body ++ tail) Hce) as [pv1 E1].
          { rewrite P_PREFIX_doc. exact Hm. } { rewrite P_PREFIX_doc. lia. } { apply closer_colon. exact Hcol. }
          rewrite E1. cbn [pbind]. exists pv1. f_equal. f_equal. f_equal. f_equal.
          symmetry. unfold lastt. change (kw :: op :: yexpr e) with ([kw; op] ++ yexpr e). apply last_app_ne. apply yexpr_nonempty.
        - rewrite cur_cons, Hh. eexists. reflexivity. }
      destruct Hhead as [pv1 E1]. rewrite E1. cbn [pbind].
      unfold expect_peek. rewrite peek_is_cons, Hcol, ttype_eqb_refl. rewrite next_cons.
      destruct (H1 (Some (lastt (ychead h))) n ltac:(lia)) as [kwl [E2 Hkl]]. rewrite E2. cbn [pbind rev app].
      unfold prev_is. cbn [prev]. rewrite Hkl. exists kwl. rewrite cur_cons.
      subst cl. destruct ft; reflexivity. }
    destruct Hcase as [kwl Ecase]. rewrite Ecase. cbn [pbind].
    match goal with |- context [pbind (if is_default cl then ?a else ?b)] =>
      assert (Epd : (if is_default cl then a else b) = POK d') end.
    { revert Ed. destruct (is_default cl); [destruct (negb (d =? -1)%Z); [discriminate|] |]; intros Ed; inversion Ed; reflexivity. }
    rewrite Epd. cbn [pbind]. rewrite Edup.
    assert (El : lastt (colon :: flat_map ystmt body) = lastt (flat_map ystmt body)).
    { destruct (cbody_last _ _ _ Hb) as [pre [kb [sb Eb]]]. apply lastt_cons. rewrite Eb, flat_map_app'.
      destruct ft; cbn; intros E; apply app_eq_nil in E; destruct E; discriminate. }
    rewrite El.
    destruct (H2 (Some kwl) (S n) ltac:(lia)) as [pv3 E3]. subst tail. rewrite E3.
    assert (Hbne : flat_map ystmt body <> []).
    { destruct (cbody_last _ _ _ Hb) as [pre [kb [sb Eb]]]. rewrite Eb, flat_map_app'.
      destruct ft; cbn; intros E; apply app_eq_nil in E; destruct E; discriminate. }
    assert (Lc : lastt (x :: flat_map ycase (cl :: cs)) = lastt (lastt (flat_map ystmt body) :: flat_map ycase cs)).
    { cbn [flat_map]. rewrite (lastt_x_app x (ycase cl) (flat_map ycase cs)) by apply ycase_ne. f_equal. f_equal.
      subst cl. cbn [ycase]. apply (lastt_suffix _ (ychead h ++ [colon])); [rewrite <- app_assoc; reflexivity | exact Hbne]. }
    exists pv3. cbn [rev]. rewrite <- app_assoc. cbn [app]. rewrite Lc. reflexivity.
  - (* break; ends the case *)
    intros kw semi nx Hk Hs Hce x acc rest Hnx. subst nx. exists 3. intros pv n Hn.
    destruct n as [|[|n]]; try lia. exists kw. split; [|exact Hk].
    rewrite pbody_F. unfold F_body. cbn [flat_map ystmt app].
    rewrite !peek_is_cons, Hk. cbn [ttype_eqb tcode N.eqb orb].
    replace (ttype_eqb T_BREAK T_CASE) with false by reflexivity.
    replace (ttype_eqb T_BREAK T_DEFAULT) with false by reflexivity.
    replace (ttype_eqb T_BREAK T_RIGHT_BRACE) with false by reflexivity. cbn [orb].
    rewrite pstmt_S. cbn zeta. rewrite next_cons. rewrite psimple_none by (right; right; right; right; left; exact Hk).
    rewrite cur_cons, Hk. rewrite (pkw_semi_rt _ _ _ _ _ Hs). cbn [pbind].
    rewrite pbody_F. unfold F_body.
    change (peek_is (St (Some kw) (semi :: rest)) T_CASE) with (ttype_eqb (typ (hdt rest)) T_CASE).
    change (peek_is (St (Some kw) (semi :: rest)) T_DEFAULT) with (ttype_eqb (typ (hdt rest)) T_DEFAULT).
    change (peek_is (St (Some kw) (semi :: rest)) T_RIGHT_BRACE) with (ttype_eqb (typ (hdt rest)) T_RIGHT_BRACE).
    destruct Hce as [E|[E|E]]; rewrite E; cbn [rev app]; rewrite <- ?app_assoc; reflexivity.
  - (* fallthrough; ends the case *)
    intros kw semi nx Hk Hs Hce x acc rest Hnx. subst nx. exists 3. intros pv n Hn.
    destruct n as [|[|n]]; try lia. exists kw. split; [|exact Hk].
    rewrite pbody_F. unfold F_body. cbn [flat_map ystmt app].
    rewrite !peek_is_cons, Hk.
    replace (ttype_eqb T_FALLTHROUGH T_CASE) with false by reflexivity.
    replace (ttype_eqb T_FALLTHROUGH T_DEFAULT) with false by reflexivity.
    replace (ttype_eqb T_FALLTHROUGH T_RIGHT_BRACE) with false by reflexivity. cbn [orb].
    rewrite pstmt_S. cbn zeta. rewrite next_cons. rewrite psimple_none by (right; right; right; right; right; exact Hk).
    rewrite cur_cons, Hk. rewrite (pkw_semi_rt _ _ _ _ _ Hs). cbn [pbind].
    rewrite pbody_F. unfold F_body.
    change (peek_is (St (Some kw) (semi :: rest)) T_CASE) with (ttype_eqb (typ (hdt rest)) T_CASE).
    change (peek_is (St (Some kw) (semi :: rest)) T_DEFAULT) with (ttype_eqb (typ (hdt rest)) T_DEFAULT).
    change (peek_is (St (Some kw) (semi :: rest)) T_RIGHT_BRACE) with (ttype_eqb (typ (hdt rest)) T_RIGHT_BRACE).
    destruct Hce as [E|[E|E]]; rewrite E; cbn [rev app]; rewrite <- ?app_assoc; reflexivity.
  - (* a statement of the case body *)
    intros s ss ft nx Hs IHs Hb IHb x acc rest Hnx. subst nx.
    assert (Hbne : flat_map ystmt ss <> []).
    { destruct (cbody_last _ _ _ Hb) as [pre [kb [sb Eb]]]. rewrite Eb, flat_map_app'.
      destruct ft; cbn; intros E; apply app_eq_nil in E; destruct E; discriminate. }
    set (tail := flat_map ystmt ss ++ rest).
    assert (Hn1 : hdt tail = hdt (flat_map ystmt ss ++ [hdt rest])).
    { subst tail. destruct (flat_map ystmt ss); [congruence | reflexivity]. }
    destruct (IHs x tail Hn1) as [N1 H1].
    destruct (IHb (lastt (ystmt s)) (s :: acc) rest eq_refl) as [N2 H2].
    exists (S (Nat.max N1 N2)). intros pv n Hn. destruct n; [lia|].
    rewrite pbody_F. unfold F_body. cbn [flat_map]. rewrite <- app_assoc. fold tail.
    rewrite !peek_is_app by apply ystmt_ne.
    pose proof (cstmt_first2 s _ Hs) as Hf. unfold case_end in Hf.
    destruct (ttype_eqb (typ (hdt (ystmt s))) T_CASE) eqn:E1; [exfalso; apply Hf; left; apply ttype_eqb_eq; exact E1|].
    destruct (ttype_eqb (typ (hdt (ystmt s))) T_DEFAULT) eqn:E2; [exfalso; apply Hf; right; left; apply ttype_eqb_eq; exact E2|].
    destruct (ttype_eqb (typ (hdt (ystmt s))) T_RIGHT_BRACE) eqn:E3; [exfalso; apply Hf; right; right; apply ttype_eqb_eq; exact E3|].
    cbn [orb].
    destruct (H1 pv n ltac:(lia)) as [pv1 E4]. rewrite E4. cbn [pbind].
    destruct (H2 pv1 n ltac:(lia)) as [kwl [E5 Hkl]]. subst tail. rewrite E5.
    exists kwl. split; [|exact Hkl]. cbn [rev]. rewrite <- app_assoc. cbn [app].
    rewrite (lastt_x_app x (ystmt s) (flat_map ystmt ss)) by apply ystmt_ne. reflexivity.
  - (* break; in the middle of a case body *)
    intros kw semi ss ft nx Hk Hs Hb IHb x acc rest Hnx. subst nx.
    destruct (IHb semi (SBreak kw semi :: acc) rest eq_refl) as [N2 H2].
    exists (S (S N2)). intros pv n Hn. destruct n as [|[|n]]; try lia.
    rewrite pbody_F. unfold F_body. cbn [flat_map ystmt app].
    rewrite !peek_is_cons, Hk.
    replace (ttype_eqb T_BREAK T_CASE) with false by reflexivity.
    replace (ttype_eqb T_BREAK T_DEFAULT) with false by reflexivity.
    replace (ttype_eqb T_BREAK T_RIGHT_BRACE) with false by reflexivity. cbn [orb].
    rewrite pstmt_S. cbn zeta. rewrite next_cons. rewrite psimple_none by (right; right; right; right; left; exact Hk).
    rewrite cur_cons, Hk. rewrite (pkw_semi_rt _ _ _ _ _ Hs). cbn [pbind].
    destruct (H2 (Some kw) (S n) ltac:(lia)) as [kwl [E5 Hkl]]. rewrite E5.
    exists kwl. split; [|exact Hkl]. cbn [rev]. rewrite <- app_assoc. cbn [app].
    replace (lastt (x :: kw :: semi :: flat_map ystmt ss)) with (lastt (semi :: flat_map ystmt ss)); [reflexivity|].
    symmetry. apply (lastt_suffix _ [x; kw]); [reflexivity | discriminate].
  - (* fallthrough; in the middle of a case body *)
    intros kw semi ss ft nx Hk Hs Hb IHb x acc rest Hnx. subst nx.
    destruct (IHb semi (SFallthrough kw semi :: acc) rest eq_refl) as [N2 H2].
    exists (S (S N2)). intros pv n Hn. destruct n as [|[|n]]; try lia.
    rewrite pbody_F. unfold F_body. cbn [flat_map ystmt app].
    rewrite !peek_is_cons, Hk.
    replace (ttype_eqb T_FALLTHROUGH T_CASE) with false by reflexivity.
    replace (ttype_eqb T_FALLTHROUGH T_DEFAULT) with false by reflexivity.
    replace (ttype_eqb T_FALLTHROUGH T_RIGHT_BRACE) with false by reflexivity. cbn [orb].
    rewrite pstmt_S. cbn zeta. rewrite next_cons. rewrite psimple_none by (right; right; right; right; right; exact Hk).
    rewrite cur_cons, Hk. rewrite (pkw_semi_rt _ _ _ _ _ Hs). cbn [pbind].
    destruct (H2 (Some kw) (S n) ltac:(lia)) as [kwl [E5 Hkl]]. rewrite E5.
    exists kwl. split; [|exact Hkl]. cbn [rev]. rewrite <- app_assoc. cbn [app].
    replace (lastt (x :: kw :: semi :: flat_map ystmt ss)) with (lastt (semi :: flat_map ystmt ss)); [reflexivity|].
    symmetry. apply (lastt_suffix _ [x; kw]); [reflexivity | discriminate].
Qed.

End P.
