(* T tie: the keyword table regenerated from token/token.go is the documented one, and the
   token type names the model relies on are pairwise distinct and non-empty. *)
From Coq Require Import List NArith Bool.
From Falco Require Import Base.Res Base.Bytes Base.Utf8 Gen.Tokens Model.Lex Model.LexSpec.
Import ListNotations.

Lemma keywords_documented : keywords = keywords_ref.
Proof. vm_compute. reflexivity. Qed.

Definition str_in (x : str) (l : list str) : bool := existsb (str_eqb x) l.

Fixpoint nodup_b (l : list str) : bool :=
  match l with [] => true | x :: r => negb (str_in x r) && nodup_b r end.

Lemma types_distinct : nodup_b all_types = true /\ str_in [] all_types = false.
Proof. split; vm_compute; reflexivity. Qed.

(* T tie: the character classes and loop conditions regenerated from the Go expressions are the
   documented ones, for EVERY rune. *)
From Coq Require Import Lia ZifyBool ZifyN.
From Falco Require Import Gen.LexClasses.

Lemma char_classes_documented : forall r : rune,
  is_letter r = ref_letter r /\ is_decimal r = ref_decimal r /\ is_digit r = ref_digit r /\
  is_hex r = ref_hex r /\ is_delim r = ref_delim r /\ is_space r = ref_space r /\
  in_string r = ref_in_string r /\ is_ident_cont r = ref_ident_cont r.
Proof.
  intros r.
  unfold is_letter, is_decimal, is_digit, is_hex, is_delim, is_space, in_string, is_ident_cont,
    g_isLetter, g_isDecimalDigit, g_isDigit, g_isHexDigit, g_isLongStringDelimiter,
    g_skipWhitespace_cond, g_readString_cond, g_identTail_cond,
    g_isLetter, g_isDigit, g_isDecimalDigit,
    ref_letter, ref_decimal, ref_digit, ref_hex, ref_delim, ref_space, ref_in_string, ref_ident_cont,
    ref_letter, ref_decimal, in_rng.
  repeat split; lia.
Qed.
