(* T tie: the keyword table regenerated from token/token.go is the documented one, and the
   token type names the model relies on are pairwise distinct and non-empty. *)
From Coq Require Import List NArith Bool.
From Falco Require Import Base.Res Base.Bytes Base.Utf8 Gen.Tokens Model.Lex Model.LexSpec.
Import ListNotations.

Lemma keywords_documented : keywords = keywords_ref.
Proof. vm_compute. reflexivity. Qed.

Definition str_in (x : str) (l : list str) : bool := existsb (str_eqb x) l.

Fixpoint nodup_b (l : list str) : bool :=
  match l with [] => true | x :: r => negb (str_in x r) && nodup_b r end.

Lemma types_distinct : nodup_b all_types = true /\ str_in [] all_types = false.
Proof. split; vm_compute; reflexivity. Qed.
