(* C13 - the main induction: eval / exec / call of the repaired interpreter satisfy
   eval_good / exec_good / call_good (Proofs/StoreInv.v) for every fuel. *)
From Coq Require Import List NArith ZArith Bool Lia Arith.
From Falco Require Import Base.Res Base.Bytes Model.StoreSyntax Model.Store Proofs.StoreHeap Proofs.StoreInv.
Import ListNotations.

Section Main.
Variable Os : ops.
Variable P : program.

Lemma good_alloc w (Q : Prop) σ σ1 v l σ' :
  ext w σ σ1 -> wf σ1 -> (Q -> groups σ1 = groups σ) ->
  @OK (nat * state) (alloc v σ1) = OK (l, σ') ->
  ext w σ σ' /\ l < length (heap σ') /\ wf σ' /\ (Q -> groups σ' = groups σ).
Proof.
  intros E W G H. destruct (alloc_good w _ _ _ _ W H) as (A & B & C & D & _).
  splits; auto. eapply ext_trans; eauto. intros q. rewrite D; auto.
Qed.

Lemma wf_enter d σ : wf σ -> wf (set_depth d (set_groups [] (set_locals [] σ))).
Proof.
  intros [W1 W2]. split.
  - intros x l H. destruct x; simpl in H; try discriminate.
    + apply (W1 (NGlobal k)); auto.
    + destruct j; discriminate.
  - intros x y l H1 H2. destruct x, y; simpl in H1, H2; try discriminate;
      try (destruct j; discriminate).
    apply (W2 (NGlobal k) (NGlobal k0) l); auto.
Qed.

Lemma wf_restore d σ σ2 :
  wf σ -> length (heap σ) <= length (heap σ2) -> globals σ2 = globals σ ->
  wf (set_depth d (set_groups (groups σ) (set_locals (locals σ) σ2))).
Proof.
  intros [W1 W2] Hl Hg.
  assert (E : forall x, loc_of (set_depth d (set_groups (groups σ) (set_locals (locals σ) σ2))) x = loc_of σ x).
  { destruct x; simpl; congruence. }
  split.
  - intros x l H. rewrite E in H. simpl. apply W1 in H. lia.
  - intros x y l H1 H2. rewrite E in *. eauto.
Qed.

Lemma ext_declare k v σ :
  ext WLG σ (set_locals ((k, length (heap σ)) :: locals σ) (set_heap (heap σ ++ [v]) σ)).
Proof.
  constructor; simpl; auto; try discriminate; try (rewrite app_length; lia).
  - intros k' l. destruct (N.eqb k' k); intros H; [inversion H; right; lia | left; auto].
  - intros l Hl _. unfold cell_eq; simpl. apply nth_error_app_old; auto.
  - intros Hw. congruence.
Qed.

Lemma ext_fields w σ σ' :
  heap σ' = heap σ -> locals σ' = locals σ -> globals σ' = globals σ -> depth σ' = depth σ ->
  (w = WNone -> hdrs σ' = hdrs σ /\ logs σ' = logs σ) -> ext w σ σ'.
Proof.
  intros Hh Hl Hg Hd Hq. constructor; auto.
  - rewrite Hh; lia.
  - intros k l. rewrite Hl. auto.
  - intros l _ _. unfold cell_eq. rewrite Hh. auto.
Qed.

Theorem all_good : forall n,
  (forall m, eval_good (eval repaired Os P n m)) /\
  (forall fn, exec_good (exec repaired Os P n fn)) /\
  call_good (call repaired Os P n).
Proof.
  induction n as [|n (IHe & IHx & IHc)].
  { split; [|split]; repeat intro; simpl in *; discriminate. }
  split; [|split].
  (* ------------------------------------------------------------------ eval *)
  - intros m e σ l σ' W H. destruct e; simpl in H; unfold wm; cbn [pure nomatch wmb].
    + (* EVar *)
      destruct (eval_var_good _ _ _ _ W H) as (A & B & C & D). splits; auto.
    + (* ELit *)
      eapply (good_alloc WNone); eauto using ext_refl.
    + (* ENot *)
      bind_inv H as [l1 σ1] H1. bind_inv H as v Hv.
      destruct (IHe m _ _ _ _ W H1) as (E1 & L1 & W1 & G1).
      destruct v; try discriminate.
      * destruct (m_cond m); [|discriminate]. eapply good_alloc; eauto.
      * eapply good_alloc; eauto.
    + (* ENeg *)
      bind_inv H as [l1 σ1] H1. bind_inv H as v Hv.
      destruct (IHe m _ _ _ _ W H1) as (E1 & L1 & W1 & G1).
      destruct (neg_val v); [|discriminate]. simpl in H. eapply good_alloc; eauto.
    + (* EPos *)
      eapply IHe; eauto.
    + (* EGroup *)
      eapply IHe; eauto.
    + (* EBin *)
      bind_inv H as [la σ1] H1. bind_inv H as [lb σ2] H2.
      bind_inv H as va Hva. bind_inv H as vb Hvb. bind_inv H as r Hr.
      destruct (IHe m _ _ _ _ W H1) as (E1 & L1 & W1 & G1).
      destruct (IHe m _ _ _ _ W1 H2) as (E2 & L2 & W2 & G2).
      eapply good_alloc; [| exact W2 | | exact H].
      * eapply ext_trans; (eapply ext_weaken; [|eassumption]); apply wle_wmb;
          intros Hp; apply andb_prop in Hp; tauto.
      * intros Hp. apply andb_prop in Hp. destruct Hp. rewrite G2, G1; auto.
    + (* EMatch *)
      bind_inv H as [la σ1] H1. bind_inv H as va Hva.
      destruct (IHe m _ _ _ _ W H1) as (E1 & L1 & W1 & G1).
      destruct va; try discriminate. destruct lit; try discriminate.
      destruct (re_match Os p s).
      * eapply good_alloc; [| | | exact H].
        -- eapply ext_trans; [exact E1 | apply ext_set_caps].
        -- apply wf_set_caps; auto.
        -- discriminate.
      * eapply good_alloc; [exact E1 | exact W1 | discriminate | exact H].
    + (* EConcat *)
      destruct (eval_concat_good _ _ _ _ _ _ W H) as (A & B & C & D). splits; auto.
    + (* EIf *)
      bind_inv H as [lc σ1] H1. bind_inv H as vc Hvc.
      destruct (IHe cond_mode _ _ _ _ W H1) as (E1 & L1 & W1 & G1).
      destruct (truthy vc) as [[|]|]; try discriminate;
        destruct (IHe dflt_mode _ _ _ _ W1 H) as (E2 & L2 & W2 & G2); splits; auto;
        try (eapply ext_trans; (eapply ext_weaken; [|eassumption]); apply wle_wmb;
             intros Hp; apply andb_prop in Hp; destruct Hp as [Hp ?]; apply andb_prop in Hp; tauto);
        try (intros Hp; apply andb_prop in Hp; destruct Hp as [Hp ?]; apply andb_prop in Hp;
             destruct Hp; rewrite G2, G1; auto).
    + (* EBuiltin *)
      bind_inv H as [ls σ1] H1. bind_inv H as vs Hvs. bind_inv H as r Hr.
      destruct (eval_list_good _ (IHe (arg_mode m)) _ _ _ _ W H1) as (E1 & L1 & W1 & G1).
      eapply good_alloc; eauto.
    + (* ECall *)
      bind_inv H as [ls σ1] H1.
      destruct (eval_list_good _ (IHe lvar_mode) _ _ _ _ W H1) as (E1 & L1 & W1 & G1).
      destruct (find_sub f P) as [sb|]; [|discriminate].
      destruct (s_ret sb); [|discriminate].
      bind_inv H as [r σ2] H2. destruct r as [|lr|st]; try discriminate. inversion H; subst.
      destruct (IHc _ _ _ _ _ W1 H2) as (E2 & G2 & W2 & L2).
      splits; auto.
      * eapply ext_trans; [eapply ext_weaken; [|exact E1] | exact E2].
        destruct (forallb pure args); reflexivity.
      * intros Hp. rewrite G2. auto.
  (* ------------------------------------------------------------------ exec *)
  - intros fn s σ o σ' W H. destruct s; simpl in H.
    + (* SDeclare *)
      set (σ2 := set_locals ((k, length (heap σ)) :: locals σ)
                            (set_heap (heap σ ++ [default_val t]) σ)) in *.
      assert (E0 : ext WLG σ σ2) by apply ext_declare.
      assert (W0 : wf σ2) by (apply wf_alloc_bind; auto).
      destruct init as [e|].
      * bind_inv H as [r σ3] H1. bind_inv H as σ4 H2. inversion H; subst.
        destruct (IHe dflt_mode _ _ _ _ W0 H1) as (E1 & L1 & W1 & G1).
        assert (Hl : locals σ3 = locals σ2).
        { destruct E1 as [_ _ _ _ _ El _]. apply El. unfold wm. destruct (pure e); discriminate. }
        destruct (assign_cell_good Os WLG true (length (heap σ)) AEq r σ3 σ' W1) as (E2 & W2 & _); auto.
        { left. exists k. rewrite Hl. unfold σ2. simpl. rewrite N.eqb_refl. auto. }
        splits; auto; [|discriminate].
        eapply ext_trans; [exact E0|]. eapply ext_trans; [|exact E2].
        eapply ext_weaken; [|exact E1]. apply wle_wmb_lg.
      * inversion H; subst. splits; auto. discriminate.
    + (* SSet *)
      destruct x as [k|k|ob h|ob h fk|j].
      * destruct (lookup k (locals σ)) as [l|] eqn:Ek; [|discriminate].
        bind_inv H as lv Hlv. destruct (valid_stmt_expr (type_of lv) e); [|discriminate].
        bind_inv H as [r σ1] H1. bind_inv H as σ2 H2. inversion H; subst.
        destruct (IHe lvar_mode _ _ _ _ W H1) as (E1 & L1 & W1 & G1).
        assert (Hl : locals σ1 = locals σ).
        { destruct E1 as [_ _ _ _ _ El _]. apply El. unfold wm. destruct (pure e); discriminate. }
        destruct (assign_cell_good Os WLG true l op r σ1 σ' W1) as (E2 & W2 & _); auto.
        { left. exists k. rewrite Hl. auto. }
        splits; auto; [|discriminate].
        eapply ext_trans; [|exact E2]. eapply ext_weaken; [|exact E1]. apply wle_wmb_lg.
      * destruct (lookup k (globals σ)) as [l|] eqn:Ek; [|discriminate].
        bind_inv H as lv Hlv. destruct (valid_stmt_expr (type_of lv) e); [|discriminate].
        bind_inv H as [r σ1] H1. bind_inv H as σ2 H2. inversion H; subst.
        destruct (IHe dflt_mode _ _ _ _ W H1) as (E1 & L1 & W1 & G1).
        assert (Hg : globals σ1 = globals σ) by (destruct E1; auto).
        destruct (assign_cell_good Os WLG false l op r σ1 σ' W1) as (E2 & W2 & _); auto.
        { right. exists k. rewrite Hg. auto. }
        splits; auto; [|discriminate].
        eapply ext_trans; [|exact E2]. eapply ext_weaken; [|exact E1]. apply wle_wmb_lg.
      * destruct (valid_stmt_expr TStr e); [|discriminate].
        bind_inv H as [r σ1] H1. bind_inv H as rv Hrv. bind_inv H as hv Hhv. inversion H; subst.
        destruct (IHe dflt_mode _ _ _ _ W H1) as (E1 & L1 & W1 & G1).
        destruct (store_header_good Os ob h hv σ1 W1) as (E2 & W2).
        splits; auto; [|discriminate].
        eapply ext_trans; [|exact E2]. eapply ext_weaken; [|exact E1]. apply wle_wmb_lg.
      * destruct (valid_stmt_expr TStr e); [|discriminate].
        bind_inv H as [r σ1] H1. bind_inv H as rv Hrv. bind_inv H as hv Hhv. inversion H; subst.
        destruct (IHe lvar_mode _ _ _ _ W H1) as (E1 & L1 & W1 & G1).
        destruct (store_field_good Os ob h fk hv σ1 W1) as (E2 & W2).
        splits; auto; [|discriminate].
        eapply ext_trans; [|exact E2]. eapply ext_weaken; [|exact E1]. apply wle_wmb_lg.
      * discriminate.
    + (* SUnset *)
      destruct x; try discriminate.
      * inversion H; subst. splits; [| |discriminate].
        -- apply ext_fields; auto. discriminate.
        -- eapply wf_same; eauto.
      * inversion H; subst. destruct (unset_field_good o0 h k σ W) as (E2 & W2). splits; auto. discriminate.
    + (* SLog *)
      bind_inv H as [l σ1] H1. bind_inv H as v Hv. inversion H; subst.
      destruct (IHe dflt_mode _ _ _ _ W H1) as (E1 & L1 & W1 & G1).
      splits; [| |discriminate].
      * eapply ext_trans; [eapply ext_weaken; [|exact E1]; apply wle_wmb_lg|].
        apply ext_fields; auto. discriminate.
      * eapply wf_same; [| | | |exact W1]; auto.
    + (* SIf *)
      bind_inv H as [lc σ1] H1. bind_inv H as vc Hvc. bind_inv H as [o2 σ2] H2. inversion H; subst.
      destruct (IHe cond_mode _ _ _ _ W H1) as (E1 & L1 & W1 & G1).
      assert (E0 : ext WLG σ σ1) by (eapply ext_weaken; [|exact E1]; apply wle_wmb_lg).
      assert (K : ext WLG σ1 σ' /\ wf σ' /\ (forall l d, o2 = OVal l d -> l < length (heap σ'))).
      { destruct (truthy vc) as [[|]|]; try discriminate.
        - eapply (run_block_good _ (IHx fn)); eauto.
        - eapply (run_elifs_good _ _ (IHe cond_mode) (run_block_good _ (IHx fn))); eauto. }
      destruct K as (E2 & W2 & L2). splits; auto.
      * eapply ext_trans; eauto.
      * intros l d Hd. destruct o2; simpl in Hd; try discriminate. inversion Hd; subst. eapply L2; eauto.
    + (* SCall *)
      bind_inv H as [ls σ1] H1.
      destruct (eval_list_good _ (IHe lvar_mode) _ _ _ _ W H1) as (E1 & L1 & W1 & G1).
      destruct (find_sub f P) as [sb|]; [|discriminate].
      bind_inv H as [r σ2] H2.
      destruct (IHc _ _ _ _ _ W1 H2) as (E2 & G2 & W2 & L2).
      assert (E : ext WLG σ σ2).
      { eapply ext_trans; [eapply ext_weaken; [|exact E1]; apply wle_wmb_lg|].
        eapply ext_weaken; [|exact E2]. reflexivity. }
      destruct r; inversion H; subst; splits; auto; discriminate.
    + (* SReturn *)
      destruct fn.
      * destruct e as [e|]; [|discriminate].
        bind_inv H as [l σ1] H1. inversion H; subst.
        destruct (IHe dflt_mode _ _ _ _ W H1) as (E1 & L1 & W1 & G1).
        splits; auto.
        -- eapply ext_weaken; [|exact E1]. apply wle_wmb_lg.
        -- intros l0 d Hd. inversion Hd; subst. auto.
      * destruct e; [discriminate|]. inversion H; subst.
        splits; auto using ext_refl. discriminate.
    + (* SReturnState *)
      destruct fn; [discriminate|]. inversion H; subst. splits; auto using ext_refl. discriminate.
    + (* SNop *)
      inversion H; subst. splits; auto using ext_refl. discriminate.
    + (* SAdd *)
      destruct (valid_stmt_expr TStr e); [|discriminate].
      bind_inv H as [r σ1] H1. bind_inv H as rv Hrv. inversion H; subst.
      destruct (IHe dflt_mode _ _ _ _ W H1) as (E1 & L1 & W1 & G1).
      assert (E0 : ext WLG σ σ1) by (eapply ext_weaken; [|exact E1]; apply wle_wmb_lg).
      destruct (hget (o0, h) (hdrs σ1)); [splits; auto; discriminate|].
      destruct (render Os rv) as [|b0 l0]; [splits; auto; discriminate|].
      destruct (set_hdrs_good (hset (o0, h) (b0 :: l0) (hdrs σ1)) σ1 W1) as (E2 & W2).
      splits; auto; [|discriminate]. eapply ext_trans; eauto.
    + (* SRestart *)
      destruct allowed; [|discriminate]. inversion H; subst. splits; auto using ext_refl. discriminate.
    + (* SError *)
      destruct (negb allowed); [discriminate|].
      bind_inv H as σ1 H1. bind_inv H as σ2 H2. inversion H; subst.
      assert (K : forall (oe : option expr) g σa σb, wf σa ->
                match oe with
                | None => OK σa
                | Some e => do (r, σ') <- eval repaired Os P n dflt_mode e σa;
                            match lookup g (globals σ') with
                            | Some l => assign_cell Os false l AEq r σ'
                            | None => Crash
                            end
                end = OK σb -> ext WLG σa σb /\ wf σb).
      { intros [e|] g σa σb Wa Hx.
        - bind_inv Hx as [r σm] Hm.
          destruct (IHe dflt_mode _ _ _ _ Wa Hm) as (E1 & L1 & W1 & G1).
          destruct (lookup g (globals σm)) as [l|] eqn:El; [|discriminate].
          destruct (assign_cell_good Os WLG false l AEq r σm σb W1) as (E2 & W2 & _); auto.
          { right. exists g. exact El. }
          split; auto. eapply ext_trans; [|exact E2]. eapply ext_weaken; [|exact E1]. apply wle_wmb_lg.
        - inversion Hx; subst. auto using ext_refl. }
      destruct (K _ _ _ _ W H1) as (E1 & W1). destruct (K _ _ _ _ W1 H2) as (E2 & W2).
      splits; auto; [|discriminate]. eapply ext_trans; eauto.
    + (* SUnsetWild *)
      inversion H; subst. destruct (set_hdrs_good (hdel_wild o0 pre (hdrs σ)) σ W) as (E2 & W2).
      splits; auto. discriminate.
    + (* SSynthetic *)
      bind_inv H as [r σ1] H1.
      destruct (IHe dflt_mode _ _ _ _ W H1) as (E1 & L1 & W1 & G1).
      destruct (lookup gb (globals σ1)) as [l|] eqn:El; [|discriminate].
      bind_inv H as σ2 H2. inversion H; subst.
      destruct (assign_cell_good Os WLG false l AEq r σ1 σ' W1) as (E2 & W2 & _); auto.
      { right. exists gb. exact El. }
      splits; auto; [|discriminate].
      eapply ext_trans; [|exact E2]. eapply ext_weaken; [|exact E1]. apply wle_wmb_lg.
    + (* SSwitch *)
      bind_inv H as [lc σ1] H1. bind_inv H as vc Hvc.
      bind_inv H as [r σ3] H3. bind_inv H as [o4 σ4] H4. inversion H; subst.
      destruct (IHe dflt_mode _ _ _ _ W H1) as (E1 & L1 & W1 & G1).
      assert (E0 : ext WLG σ σ1) by (eapply ext_weaken; [|exact E1]; apply wle_wmb_lg).
      set (σ2 := set_heap (heap σ1 ++ [VStr (render Os vc) false false]) σ1) in *.
      assert (W2 : wf σ2) by (apply wf_grow; auto).
      assert (E2 : ext WLG σ1 σ2) by apply ext_grow.
      pose proof (run_block_good _ (IHx fn)) as GB.
      destruct (sw_try_good Os _ (render Os vc) dflt GB _ _ _ _ _ W2 H3) as (E3 & W3 & L3).
      assert (K : ext WLG σ3 σ' /\ wf σ' /\ (forall l d, o4 = OVal l d -> l < length (heap σ'))).
      { destruct r as [o|].
        - inversion H4; subst. splits; auto using ext_refl. intros l d Hd. eapply L3; eauto.
        - destruct dflt as [k|].
          + eapply (sw_nth_good _ GB); eauto.
          + inversion H4; subst. splits; auto using ext_refl. discriminate. }
      destruct K as (E4 & W4 & L4). splits; auto.
      * eapply ext_trans; [exact E0|]. eapply ext_trans; [exact E2|]. eapply ext_trans; eauto.
      * intros l d Hd. destruct o4; simpl in Hd; try discriminate. inversion Hd; subst. eapply L4; eauto.
  (* ------------------------------------------------------------------ call *)
  - intros sb args σ r σ' W H. simpl in H.
    bind_inv H as σ1 Hb.
    destruct (max_call_stack <? S (depth σ)); [discriminate|].
    bind_inv H as [o σ2] Hrun.
    set (σ0 := set_depth (S (depth σ)) (set_groups [] (set_locals [] σ))) in *.
    assert (W0 : wf σ0) by (apply wf_enter; auto).
    destruct (bind_params_good Os _ _ _ _ W0 Hb) as (A1 & A2 & A3 & A4 & A5 & A6 & A7 & A8).
    destruct (run_block_good _ (IHx _) _ _ _ _ A7 Hrun) as (E2 & W2 & L2).
    set (σ3 := set_depth (depth σ) (set_groups (groups σ) (set_locals (locals σ) σ2))) in *.
    assert (Hlen : length (heap σ) <= length (heap σ2)).
    { destruct E2. simpl in A1. lia. }
    assert (Hglob : globals σ2 = globals σ).
    { destruct E2 as [_ Eg _ _ _ _ _]. rewrite Eg, A2. reflexivity. }
    assert (W3 : wf σ3) by (apply wf_restore; auto).
    assert (E3 : ext WGlob σ σ3).
    { constructor; simpl; auto; try discriminate.
      intros l Hl Hn. unfold cell_eq. simpl.
      destruct E2 as [_ _ _ _ Es _ _]. unfold cell_eq in Es. rewrite Es.
      - apply A6. exact Hl.
      - simpl in A1. lia.
      - intros [[k Hk]|[k Hk]].
        + destruct (A8 _ _ Hk) as [Hk'|Hk']; [discriminate | simpl in Hk'; lia].
        + apply Hn. exists k. rewrite A2 in Hk. exact Hk. }
    assert (Hres : forall l d, o = OVal l d -> l < length (heap σ3)) by (intros; simpl; eauto).
    destruct (s_ret sb) as [rt|]; destruct o as [| |l d|st]; try discriminate;
      try (inversion H; subst; splits; auto; discriminate).
    destruct d.
    + bind_inv H as [l' σ4] Hc. inversion H; subst.
      destruct (convert_good Os _ _ _ _ _ W3 Hc) as (E4 & L4 & W4 & G4 & _).
      splits; auto.
      * eapply ext_trans; [exact E3|]. eapply ext_weaken; [|exact E4]. reflexivity.
      * intros l0 Hl0. inversion Hl0; subst. auto.
    + inversion H; subst. splits; auto. intros l0 Hl0. inversion Hl0; subst. eapply Hres; eauto.
Qed.

End Main.
