(* C11 - totality of the (repaired) include expansion; non-termination of the unrepaired one. *)
From Coq Require Import List Arith Bool Lia.
From Falco Require Import Base.Res Model.Include.
Import ListNotations.

Lemma memn_In x l : memn x l = true <-> In x l.
Proof.
  unfold memn. rewrite existsb_exists. split.
  - intros [y [Hy E]]. apply Nat.eqb_eq in E. subst. exact Hy.
  - intros H. exists x. split; [exact H | apply Nat.eqb_refl].
Qed.

Lemma memn_false x l : memn x l = false <-> ~ In x l.
Proof.
  rewrite <- memn_In. destruct (memn x l); split; intros; congruence.
Qed.

(* one-step unfolding *)
Definition go_items (f : nat) (g : modgraph) (stack : list nat) :=
  fix go (items : list item) : res (list ev) :=
    match items with
    | [] => OK []
    | Stmt t :: r => do rest <- go r; OK (EStmt t :: rest)
    | Inc m :: r =>
      do here <- match g m with
                 | Missing => OK [EMissing m]
                 | Broken => if memn m stack then OK [ECycle m] else OK [EFatal m]
                 | Loaded b => if memn m stack then OK [ECycle m] else resolve f g (m :: stack) b
                 end;
      do rest <- go r; OK (here ++ rest)
    end.

Lemma resolve_S f g stack items : resolve (S f) g stack items = go_items f g stack items.
Proof. reflexivity. Qed.

Section Total.
Variable g : modgraph.
Variable mods : list nat.
Hypothesis mods_complete : forall m, g m <> Missing -> In m mods.

(* the stack never repeats a module and holds only existing modules, so its depth is bounded by
   the number of modules *)
Lemma resolve_ok :
  forall fuel stack items,
    NoDup stack -> incl stack mods -> length mods - length stack < fuel ->
    exists evs, resolve fuel g stack items = OK evs.
Proof.
  induction fuel as [|f IH]; intros stack items ND INC LT; [lia|].
  rewrite resolve_S.
  induction items as [|it r IHr]; cbn [go_items].
  - eauto.
  - destruct IHr as [rest Hrest].
    destruct it as [t|m].
    + fold (go_items f g stack). rewrite Hrest. cbn. eauto.
    + fold (go_items f g stack). rewrite Hrest.
      destruct (g m) eqn:Gm.
      * cbn. eauto.
      * destruct (memn m stack); cbn; eauto.
      * destruct (memn m stack) eqn:Mm; [cbn; eauto|].
        apply memn_false in Mm.
        assert (Hin : In m mods) by (apply mods_complete; congruence).
        assert (ND' : NoDup (m :: stack)) by (constructor; assumption).
        assert (INC' : incl (m :: stack) mods) by (intros x [->|Hx]; auto).
        pose proof (NoDup_incl_length ND' INC') as Hlen. cbn [length] in Hlen.
        destruct (IH (m :: stack) body ND' INC') as [evs Hevs]; [cbn [length]; lia|].
        rewrite Hevs. cbn. eauto.
Qed.

Theorem include_total_ok :
  forall items, exists evs, resolve (S (length mods)) g [] items = OK evs.
Proof.
  intros. apply resolve_ok; [constructor | intros x [] | cbn; lia].
Qed.

Theorem include_total :
  forall items,
    resolve (S (length mods)) g [] items <> OutOfFuel /\
    resolve (S (length mods)) g [] items <> Crash.
Proof.
  intros items. destruct (include_total_ok items) as [evs H]. rewrite H. split; discriminate.
Qed.

(* more fuel never changes an OK result (so the bound is not an artefact of the fuel chosen) *)
Lemma resolve_fuel_mono :
  forall fuel stack items evs,
    resolve fuel g stack items = OK evs -> forall fuel', fuel <= fuel' -> resolve fuel' g stack items = OK evs.
Proof.
  induction fuel as [|f IH]; intros stack items evs H fuel' LE; [discriminate|].
  destruct fuel' as [|f']; [lia|]. assert (LE' : f <= f') by lia.
  rewrite resolve_S in *. revert evs H.
  induction items as [|it r IHr]; intros evs H; cbn [go_items] in *.
  - exact H.
  - fold (go_items f g stack) in H. fold (go_items f' g stack).
    destruct it as [t|m].
    + apply bind_ok in H. destruct H as [rest [Hr Hk]]. rewrite (IHr _ Hr). exact Hk.
    + apply bind_ok in H. destruct H as [here [Hh Hk]].
      apply bind_ok in Hk. destruct Hk as [rest [Hr Hk]]. rewrite (IHr _ Hr).
      destruct (g m).
      * rewrite Hh. cbn. exact Hk.
      * rewrite Hh. cbn. exact Hk.
      * destruct (memn m stack).
        -- rewrite Hh. cbn. exact Hk.
        -- rewrite (IH _ _ _ Hh f' LE'). cbn. exact Hk.
Qed.

(* a cycle ends in an error: an include of a module that is being expanded is reported *)
Lemma go_reports_cycle :
  forall f stack items m evs,
    In (Inc m) items -> In m stack -> g m <> Missing ->
    go_items f g stack items = OK evs -> In (ECycle m) evs.
Proof.
  intros f stack items m evs. revert evs.
  induction items as [|it r IHr]; intros evs HIn Hst Hg H; [destruct HIn|].
  cbn [go_items] in H. fold (go_items f g stack) in H.
  destruct it as [t|m'].
  - destruct HIn as [E|HIn]; [discriminate|].
    apply bind_ok in H. destruct H as [rest [Hr Hk]]. inversion Hk; subst.
    right. eapply IHr; eauto.
  - apply bind_ok in H. destruct H as [here [Hh Hk]].
    apply bind_ok in Hk. destruct Hk as [rest [Hr Hk]]. inversion Hk; subst. clear Hk.
    apply in_or_app.
    destruct HIn as [E|HIn].
    + inversion E; subst. left.
      apply memn_In in Hst.
      destruct (g m); [congruence| |]; rewrite Hst in Hh; inversion Hh; left; reflexivity.
    + right. eapply IHr; eauto.
Qed.

Theorem include_cycle_reported :
  forall fuel m body evs,
    g m = Loaded body -> In (Inc m) body ->
    resolve fuel g [] [Inc m] = OK evs -> In (ECycle m) evs.
Proof.
  intros fuel m body evs Gm HIn H.
  destruct fuel as [|f]; [discriminate|].
  rewrite resolve_S in H. cbn [go_items] in H. rewrite Gm in H. cbn [memn existsb] in H.
  apply bind_ok in H. destruct H as [here [Hh Hk]]. cbn in Hk. inversion Hk; subst. clear Hk.
  rewrite app_nil_r.
  destruct f as [|f']; [discriminate|].
  rewrite resolve_S in Hh.
  eapply go_reports_cycle; eauto; [left; reflexivity | congruence].
Qed.
End Total.

(* the tabled graph the harness uses *)
Lemma lookup_mod_complete tbl m : lookup_mod tbl m <> Missing -> In m (map fst tbl).
Proof.
  induction tbl as [|[k v] r IH]; cbn; [congruence|].
  destruct (Nat.eqb k m) eqn:E; [apply Nat.eqb_eq in E; auto|]. intros H. right. auto.
Qed.

Theorem resolve_table_total tbl main : exists evs, resolve_table tbl main = OK evs.
Proof.
  unfold resolve_table.
  replace (length tbl) with (length (map fst tbl)) by apply map_length.
  apply include_total_ok. apply lookup_mod_complete.
Qed.

(* the unrepaired expansion of a self-including module exhausts every fuel *)
Definition self_graph : modgraph := fun _ => Loaded [Inc 0].

Theorem include_unrepaired_refuted :
  exists g items, forall fuel, resolve_unrepaired fuel g items = OutOfFuel.
Proof.
  exists self_graph, [Inc 0]. induction fuel as [|f IH]; [reflexivity|].
  cbn. cbn in IH. rewrite IH. reflexivity.
Qed.

(* witnesses: main includes a and b; a includes b and itself; b includes a and a missing file *)
Example include_example :
  resolve_table [(1, Loaded [Stmt 10; Inc 2; Inc 1]); (2, Loaded [Inc 1; Stmt 20; Inc 9])]
                [Stmt 0; Inc 1; Inc 2]
  = OK [EStmt 0; EStmt 10; ECycle 1; EStmt 20; EMissing 9; ECycle 1;
        EStmt 10; ECycle 2; ECycle 1; EStmt 20; EMissing 9].
Proof. vm_compute. reflexivity. Qed.
