(* C11 - totality of the (repaired) include expansion; non-termination of the unrepaired one. *)
From Coq Require Import List Arith Bool Lia.
From Falco Require Import Base.Res Model.Include.
Import ListNotations.

Lemma memn_In x l : memn x l = true <-> In x l.
Proof.
  unfold memn. rewrite existsb_exists. split.
  - intros [y [Hy E]]. apply Nat.eqb_eq in E. subst. exact Hy.
  - intros H. exists x. split; [exact H | apply Nat.eqb_refl].
Qed.

Lemma memn_false x l : memn x l = false <-> ~ In x l.
Proof.
  rewrite <- memn_In. destruct (memn x l); split; intros; congruence.
Qed.

(* one-step unfolding *)
Definition goi (f : nat) (g : modgraph) (stack : list nat) :=
  fix goi (it : item) : res (list ev) :=
    match it with
    | Stmt t => OK [EStmt t]
    | Inc m =>
      match g m with
      | Missing => OK [EMissing m]
      | Broken => if memn m stack then OK [ECycle m] else OK [EFatal m]
      | Loaded b => if memn m stack then OK [ECycle m] else resolve f g (m :: stack) b
      end
    | Blk b => seq_items goi b
    end.

Lemma resolve_S f g stack items : resolve (S f) g stack items = seq_items (goi f g stack) items.
Proof. reflexivity. Qed.
Lemma goi_Blk f g stack b : goi f g stack (Blk b) = seq_items (goi f g stack) b.
Proof. reflexivity. Qed.

(* nested size and nested occurrence of an include *)
Fixpoint isz (it : item) : nat :=
  match it with
  | Blk b => S ((fix lsz (l : list item) := match l with [] => 0 | x :: r => isz x + lsz r end) b)
  | _ => 1
  end.
Definition lsz := fix lsz (l : list item) := match l with [] => 0 | x :: r => isz x + lsz r end.
Lemma isz_Blk b : isz (Blk b) = S (lsz b).
Proof. reflexivity. Qed.
Lemma isz_in x l : In x l -> isz x <= lsz l.
Proof.
  induction l as [|y r IH]; intros H; [destruct H|]. cbn [lsz]. fold lsz.
  destruct H as [->|H]; [lia | specialize (IH H); lia].
Qed.

Fixpoint occ (m : nat) (it : item) : bool :=
  match it with
  | Inc t => Nat.eqb t m
  | Blk b => existsb (occ m) b
  | Stmt _ => false
  end.

(* generic facts about the sequencing of one list *)
Lemma seq_ok h l : (forall x, In x l -> exists e, h x = OK e) -> exists evs, seq_items h l = OK evs.
Proof.
  induction l as [|x r IH]; intros H; cbn; [eauto|].
  destruct (H x (or_introl eq_refl)) as [e He]. rewrite He. cbn.
  destruct IH as [c Hc]; [intros y Hy; apply H; right; exact Hy|]. rewrite Hc. cbn. eauto.
Qed.

Lemma seq_mono (h h' : item -> res (list ev)) l evs :
  (forall x e, In x l -> h x = OK e -> h' x = OK e) ->
  seq_items h l = OK evs -> seq_items h' l = OK evs.
Proof.
  revert evs. induction l as [|x r IH]; intros evs H Hs; cbn in *; [exact Hs|].
  apply bind_ok in Hs. destruct Hs as [a [Ha Hk]]. apply bind_ok in Hk. destruct Hk as [c [Hc Hk]].
  rewrite (H x a (or_introl eq_refl) Ha). cbn.
  rewrite (IH c (fun y e Hy => H y e (or_intror Hy)) Hc). cbn. exact Hk.
Qed.

Lemma seq_in h l evs x :
  seq_items h l = OK evs -> In x l -> exists e, h x = OK e /\ incl e evs.
Proof.
  revert evs. induction l as [|y r IH]; intros evs Hs Hin; [destruct Hin|]. cbn in Hs.
  apply bind_ok in Hs. destruct Hs as [a [Ha Hk]]. apply bind_ok in Hk. destruct Hk as [c [Hc Hk]].
  inversion Hk; subst. destruct Hin as [->|Hin].
  - exists a. split; [exact Ha | apply incl_appl, incl_refl].
  - destruct (IH c Hc Hin) as [e [He Hi]]. exists e. split; [exact He | apply incl_appr; exact Hi].
Qed.

Section Total.
Variable g : modgraph.
Variable mods : list nat.
Hypothesis mods_complete : forall m, g m <> Missing -> In m mods.

(* the stack never repeats a module and holds only existing modules, so its depth is bounded by
   the number of modules *)
Lemma resolve_ok :
  forall fuel stack items,
    NoDup stack -> incl stack mods -> length mods - length stack < fuel ->
    exists evs, resolve fuel g stack items = OK evs.
Proof.
  induction fuel as [|f IH]; intros stack items ND INC LT; [lia|].
  rewrite resolve_S.
  assert (Hitem : forall k it, isz it <= k -> exists e, goi f g stack it = OK e).
  { induction k as [|k IHk]; intros it Hk; [destruct it; cbn in Hk; lia|].
    destruct it as [t|m|b].
    - cbn. eauto.
    - cbn. destruct (g m) eqn:Gm; [eauto | destruct (memn m stack); eauto |].
      destruct (memn m stack) eqn:Mm; [eauto|].
      apply memn_false in Mm.
      assert (Hin : In m mods) by (apply mods_complete; congruence).
      assert (ND' : NoDup (m :: stack)) by (constructor; assumption).
      assert (INC' : incl (m :: stack) mods) by (intros x [->|Hx]; auto).
      pose proof (NoDup_incl_length ND' INC') as Hlen. cbn [length] in Hlen.
      apply IH; [exact ND' | exact INC' | cbn [length]; lia].
    - rewrite goi_Blk. apply seq_ok. intros x Hx. apply IHk.
      rewrite isz_Blk in Hk. pose proof (isz_in x b Hx). lia. }
  apply seq_ok. intros x _. apply (Hitem (isz x)). lia.
Qed.

Theorem include_total_ok :
  forall items, exists evs, resolve (S (length mods)) g [] items = OK evs.
Proof.
  intros. apply resolve_ok; [constructor | intros x [] | cbn; lia].
Qed.

Theorem include_total :
  forall items,
    resolve (S (length mods)) g [] items <> OutOfFuel /\
    resolve (S (length mods)) g [] items <> Crash.
Proof.
  intros items. destruct (include_total_ok items) as [evs H]. rewrite H. split; discriminate.
Qed.

(* more fuel never changes an OK result (so the bound is not an artefact of the fuel chosen) *)
Lemma resolve_fuel_mono :
  forall fuel stack items evs,
    resolve fuel g stack items = OK evs -> forall fuel', fuel <= fuel' -> resolve fuel' g stack items = OK evs.
Proof.
  induction fuel as [|f IH]; intros stack items evs H fuel' LE; [discriminate|].
  destruct fuel' as [|f']; [lia|]. assert (LE' : f <= f') by lia.
  rewrite resolve_S in *.
  assert (Hitem : forall k it e, isz it <= k -> goi f g stack it = OK e -> goi f' g stack it = OK e).
  { induction k as [|k IHk]; intros it e Hk He; [destruct it; cbn in Hk; lia|].
    destruct it as [t|m|b].
    - exact He.
    - cbn in *. destruct (g m); [exact He | exact He |].
      destruct (memn m stack); [exact He|]. apply (IH _ _ _ He f' LE').
    - rewrite goi_Blk in *. eapply seq_mono; [|exact He].
      intros x e' Hx. apply IHk. rewrite isz_Blk in Hk. pose proof (isz_in x b Hx). lia. }
  eapply seq_mono; [|exact H]. intros x e _. apply (Hitem (isz x)). lia.
Qed.

(* a cycle ends in an error: an include (at any nesting depth) of a module that is being expanded is reported *)
Lemma goi_reports_cycle :
  forall f stack m, In m stack -> g m <> Missing ->
  forall k it e, isz it <= k -> occ m it = true -> goi f g stack it = OK e -> In (ECycle m) e.
Proof.
  intros f stack m Hst Hg. induction k as [|k IHk]; intros it e Hk Ho He; [destruct it; cbn in Hk; lia|].
  destruct it as [t|m'|b]; cbn in Ho.
  - discriminate.
  - apply Nat.eqb_eq in Ho. subst m'. cbn in He. apply memn_In in Hst.
    destruct (g m); [congruence| |]; rewrite Hst in He; inversion He; left; reflexivity.
  - rewrite goi_Blk in He. apply existsb_exists in Ho. destruct Ho as [x [Hx Hox]].
    destruct (seq_in _ _ _ _ He Hx) as [e' [He' Hi]]. apply Hi.
    apply (IHk x e'); auto. rewrite isz_Blk in Hk. pose proof (isz_in x b Hx). lia.
Qed.

Theorem include_cycle_reported :
  forall fuel m body evs,
    g m = Loaded body -> existsb (occ m) body = true ->
    resolve fuel g [] [Inc m] = OK evs -> In (ECycle m) evs.
Proof.
  intros fuel m body evs Gm Ho H.
  destruct fuel as [|f]; [discriminate|].
  rewrite resolve_S in H. cbn in H. rewrite Gm in H.
  destruct (resolve f g [m] body) as [e| | |] eqn:R; cbn in H; try discriminate.
  inversion H; subst. rewrite app_nil_r.
  destruct f as [|f']; [discriminate|]. rewrite resolve_S in R.
  apply existsb_exists in Ho. destruct Ho as [x [Hx Hox]].
  destruct (seq_in _ _ _ _ R Hx) as [e' [He' Hi]]. apply Hi.
  apply (goi_reports_cycle f' [m] m (or_introl eq_refl) ltac:(congruence) (isz x) x e'); auto.
Qed.
End Total.

(* the tabled graph the harness uses *)
Lemma lookup_mod_complete tbl m : lookup_mod tbl m <> Missing -> In m (map fst tbl).
Proof.
  induction tbl as [|[k v] r IH]; cbn; [congruence|].
  destruct (Nat.eqb k m) eqn:E; [apply Nat.eqb_eq in E; auto|]. intros H. right. auto.
Qed.

Theorem resolve_table_total tbl main : exists evs, resolve_table tbl main = OK evs.
Proof.
  unfold resolve_table.
  replace (length tbl) with (length (map fst tbl)) by apply map_length.
  apply include_total_ok. apply lookup_mod_complete.
Qed.

(* the unrepaired expansion of a self-including module exhausts every fuel *)
Definition self_graph : modgraph := fun _ => Loaded [Inc 0].

Theorem include_unrepaired_refuted :
  exists g items, forall fuel, resolve_unrepaired fuel g items = OutOfFuel.
Proof.
  exists self_graph, [Inc 0]. induction fuel as [|f IH]; [reflexivity|].
  cbn. cbn in IH. rewrite IH. reflexivity.
Qed.

(* witnesses: main includes a and b; a includes b and itself; b includes a and a missing file *)
Example include_example :
  resolve_table [(1, Loaded [Stmt 10; Inc 2; Inc 1]); (2, Loaded [Inc 1; Stmt 20; Inc 9])]
                [Stmt 0; Inc 1; Inc 2]
  = OK [EStmt 0; EStmt 10; ECycle 1; EStmt 20; EMissing 9; ECycle 1;
        EStmt 10; ECycle 2; ECycle 1; EStmt 20; EMissing 9].
Proof. vm_compute. reflexivity. Qed.

(* s.vcl = `if (..) { include "s"; }` included from a subroutine body: the nested include is a cycle *)
Example include_nested_example :
  resolve_table [(1, Loaded [Stmt 10; Blk [Stmt 11; Blk [Inc 1]]])] [Blk [Inc 1]]
  = OK [EStmt 10; EStmt 11; ECycle 1].
Proof. vm_compute. reflexivity. Qed.
