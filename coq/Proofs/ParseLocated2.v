(* parse_error_located, part 2: statements, declarations, entry points. *)
From Coq Require Import String.
From Coq Require Import List NArith ZArith Bool Lia.
From Falco Require Import Base.Bytes Gen.TokenTypes Model.ParseKinds Gen.ParserTables
  Model.ParseBase Model.Ast Model.ParseLit Model.ParseExpr Model.ParseStmt Model.ParseDecl Model.Yield
  Proofs.ParseTables Proofs.ParseExprYield Proofs.ParseExprTotal Proofs.ParseLocated.
Import ListNotations.
Local Open Scope parse_scope.

Ltac rch_go :=
  first
  [ apply reach_refl
  | match goal with
    | |- reach _ (next _) => apply reach_next_r; rch_go
    | H : reach ?x ?t |- reach _ ?t => apply (reach_trans _ x t); [rch_go | exact H]
    end ].
Ltac eat s2 := match goal with |- ER ?s _ => apply (ER_reach s s2); [solve [rch_go] | ] end.
Ltac ecur := apply ER_cur; solve [rch_go].
Ltac epeek := apply ER_peek; solve [rch_go].
Ltac eprev := apply ER_prev; solve [rch_go].
Ltac eok := apply ER_ok; solve [rch_go].

Lemma ER_semi {B} s (f : pstate -> pres (B * pstate)) :
  ER (next s) (f (next s)) -> ER s (pbind (semi s) f).
Proof.
  intros H. unfold semi. destruct (peek_is s T_SEMICOLON); cbn [pbind]; [|ecur].
  eapply ER_reach; [apply reach_next | exact H].
Qed.

Lemma ER_bind0 {A B} st (x : pres (A * pstate)) (f : A * pstate -> pres (B * pstate)) :
  ER st x -> (forall a s', x = POK (a, s') -> reach st s' -> ER st (f (a, s'))) -> ER st (pbind x f).
Proof.
  intros [H1 H2] Hf. destruct x as [[a s']| | | |]; cbn [pbind].
  - apply Hf; [reflexivity | eapply H1; reflexivity].
  - split; [intros; discriminate | eapply EV_retype; exact H2].
  - apply ER_notok.
  - apply ER_crash.
  - apply ER_fuel.
Qed.

Section E.
Variable fok : str -> bool.
Notation pe := (parse_expr_ER fok).

Lemma passign_ER mk st : ER st (passign fok mk st).
Proof.
  unfold passign. apply ER_expect. destruct (negb _); [epeek|].
  eat (next (next (next st))). apply ER_bind; [apply pe|]. intros e s3 _. apply ER_semi. eok.
Qed.
Lemma pkw_ident_ER mk st : ER st (pkw_ident mk st).
Proof. unfold pkw_ident. apply ER_expect, ER_semi. eok. Qed.
Lemma pkw_semi_ER mk st : ER st (pkw_semi mk st).
Proof. unfold pkw_semi. apply ER_semi. eok. Qed.
Lemma pkw_expr_ER mk st : ER st (pkw_expr fok mk st).
Proof. unfold pkw_expr. eat (next st). apply ER_bind; [apply pe|]. intros e s1 _. apply ER_semi. eok. Qed.

Lemma pcall_args_ER : forall n st acc, ER st (pcall_args fok n st acc).
Proof.
  induction n as [|n IH]; intros st acc; [apply ER_fuel|].
  cbn [pcall_args]. destruct (_ || _); [eok|].
  eat (next st). apply ER_bind; [apply pe|]. intros e s1 _.
  destruct (peek_is s1 T_COMMA); [eat (next s1); apply IH|].
  destruct (negb _); [epeek | apply IH].
Qed.

Lemma pcall_ER st : ER st (pcall fok st).
Proof.
  unfold pcall. apply ER_expect. destruct (peek_is (next st) T_LEFT_PAREN).
  - eat (next (next st)). apply ER_bind; [apply pcall_args_ER|]. intros items s3 _.
    destruct (negb _); [epeek|]. eat (next s3). apply ER_semi. eok.
  - apply ER_semi. eok.
Qed.

Lemma pdeclare_ER st : ER st (pdeclare fok st).
Proof.
  unfold pdeclare. apply ER_expect. destruct (negb _); [ecur|].
  apply ER_expect, ER_expect. destruct (peek_is _ T_ASSIGN).
  - eat (next (next (next (next (next st))))). apply ER_bind; [apply pe|]. intros e s5 _. apply ER_semi. eok.
  - apply ER_semi. eok.
Qed.

Lemma perror_ER st : ER st (perror fok st).
Proof.
  unfold perror. apply ER_bind.
  - destruct (typ (peek st)); try epeek.
    + destruct (peek_is (next st) T_LEFT_PAREN).
      * eat (next (next st)). apply ER_bind; [apply pcallexpr_ER|]. intros e s' _. eok.
      * eok.
    + eat (next st). apply ER_bind; [apply pinteger_ER|]. intros e s _. eok.
    + eok.
  - intros code s1 _. apply ER_bind.
    + destruct (negb _); [|eok]. eat (next s1). apply ER_bind; [apply pe|]. intros e s _. eok.
    + intros arg s2 _. apply ER_semi. eok.
Qed.

Lemma preturn_ER st : ER st (preturn fok st).
Proof.
  unfold preturn. destruct (peek_is st T_SEMICOLON); [eok|].
  destruct (peek_is st T_LEFT_PAREN).
  - eat (next (next st)). apply ER_bind; [apply pe|]. intros e s2 _.
    destruct (peek_is s2 T_RIGHT_PAREN); cbn [xorb]; [|ecur]. eat (next s2). apply ER_semi. eok.
  - eat (next st). apply ER_bind; [apply pe|]. intros e s2 _.
    destruct (peek_is s2 T_RIGHT_PAREN); cbn [xorb]; [ecur|]. apply ER_semi. eok.
Qed.

Lemma pinclude_ER st : ER st (pinclude st).
Proof.
  unfold pinclude. apply ER_expect. apply ER_bindv; [apply pstring_EV|]. intros v.
  destruct (peek_is _ T_SEMICOLON); eok.
Qed.

Lemma pfuncall_ER st : ER st (pfuncall fok st).
Proof.
  unfold pfuncall. eat (next st). apply ER_bind; [apply parse_args_ER|]. intros a s2 _. apply ER_semi. eok.
Qed.

Lemma psimple_ER st r : psimple fok st = Some r -> ER st r.
Proof.
  unfold psimple. destruct (typ (cur st)); try discriminate; intros H; inversion H; subst;
    first [ apply pkw_expr_ER | apply pkw_ident_ER | apply passign_ER | apply pcall_ER
          | apply pdeclare_ER | apply perror_ER | apply pkw_semi_ER | apply pinclude_ER
          | apply preturn_ER ].
Qed.

Definition Eall n :=
  (forall st0, ER (next st0) (pstmt fok n st0)) /\ (forall st, ER st (pblock fok n st)) /\
  (forall st acc, ER st (pblock_loop fok n st acc)) /\ (forall st, ER st (pif fok n st)) /\
  (forall st acc, ER st (pif_chain fok n st acc)) /\ (forall k1 k2 st, ER st (pelif fok n k1 k2 st)) /\
  (forall st, ER st (pswitch fok n st)) /\ (forall st acc d, ER st (pcases fok n st acc d)) /\
  (forall st, ER st (pcase fok n st)) /\ (forall st acc, ER st (pcase_body fok n st acc)).

Lemma stmt_ER_all : forall n, Eall n.
Proof.
  induction n as [|n IH]; [unfold Eall; refine (conj _ (conj _ (conj _ (conj _ (conj _ (conj _ (conj _ (conj _ (conj _ _))))))))); intros; apply ER_fuel|].
  destruct IH as [IHs [IHb [IHbl [IHif [IHch [IHel [IHsw [IHcs [IHca IHcb]]]]]]]]].
  unfold Eall. refine (conj _ (conj _ (conj _ (conj _ (conj _ (conj _ (conj _ (conj _ (conj _ _))))))))).
  - intros st0. cbn [pstmt]. set (st := next st0).
    destruct (psimple fok st) as [r|] eqn:Eps; [apply psimple_ER; exact Eps|].
    destruct (typ (cur st)); try ecur.
    + destruct (peek_is st T_LEFT_PAREN); [apply pfuncall_ER|].
      destruct (pgotodest st) as [[s0 s1]|] eqn:Eg; [|ecur].
      unfold pgotodest in Eg. destruct (is_goto_dest (cur st)); inversion Eg; subst. eok.
    + apply ER_bind; [apply IHb|]. intros [[lb ss] rb] s' _. eok.
    + apply IHif.
    + apply IHsw.
    + apply pkw_semi_ER.
    + apply pkw_semi_ER.
  - intros st. cbn [pblock]. apply ER_bind; [apply IHbl|]. intros ss s1 _. eok.
  - intros st acc. cbn [pblock_loop]. destruct (peek_is st T_RIGHT_BRACE); [eok|].
    apply ER_bind; [eapply ER_reach; [apply reach_next | apply IHs]|]. intros s0 s1 _.
    destruct (is_break_or_fallthrough s0); [eprev | apply IHbl].
  - intros st. cbn [pif]. apply ER_expect. eat (next (next st)). apply ER_bind; [apply pe|]. intros c s2 _.
    apply ER_expect, ER_expect. apply ER_bind; [apply IHb|]. intros [[lb ss] rb] s5 _.
    apply ER_bind; [apply IHch|]. intros r s6 _. eok.
  - intros st acc. cbn [pif_chain]. destruct (typ (peek st)); try eok.
    + destruct (peek_is (next st) T_IF).
      * eat (next (next st)). apply ER_bind; [apply IHel|]. intros e s3 _. apply IHch.
      * eat (next st). apply ER_expect. apply ER_bind; [apply IHb|]. intros [[lb ss] rb] s3 _. eok.
    + eat (next st). apply ER_bind; [apply IHel|]. intros e s2 _. apply IHch.
    + eat (next st). apply ER_bind; [apply IHel|]. intros e s2 _. apply IHch.
  - intros k1 k2 st. cbn [pelif]. apply ER_expect. eat (next (next st)). apply ER_bind; [apply pe|]. intros c s2 _.
    apply ER_expect, ER_expect. apply ER_bind; [apply IHb|]. intros [[lb ss] rb] s5 _. eok.
  - intros st. cbn [pswitch]. apply ER_expect. apply ER_bind.
    + destruct (peek_is (next (next st)) T_LEFT_PAREN); [eat (next (next (next st))); apply pcallexpr_ER|].
      destruct (cur_is (next (next st)) T_IDENT); [eok|].
      destruct (_ && _); [ecur|]. eat (next (next st)). apply pe.
    + intros ctl s3 _. apply ER_expect, ER_expect. apply ER_bind; [apply IHcs|].
      intros [cases dflt] s6 _. destruct (rev cases) as [|[h0 c0 body0 ft0] rc]; [epeek|].
      destruct (rev body0); [apply ER_crash|]. destruct (is_fallthrough _); [eprev | eok].
  - intros st acc d. cbn [pcases]. destruct (peek_is st T_RIGHT_BRACE); [eok|].
    apply ER_bind0; [eat (next st); apply IHca|]. intros cl s2 _ R2.
    apply ER_bindv.
    { destruct (is_default cl); [|intros k t rem E; discriminate].
      destruct (negb _); [apply EV_cur; rch_go | intros k t rem E; discriminate]. }
    intros d'. destruct (existsb _ acc); [epeek|]. eat s2. apply IHcs.
  - intros st. cbn [pcase]. apply ER_bind.
    + destruct (typ (cur st)); try ecur.
      * destruct (typ (cur (next st))); try ecur.
        -- eat (next st). apply ER_bind; [apply pe|]. intros e s' _. eok.
        -- eat (next (next st)). apply ER_bind; [apply pe|]. intros e s' _. eok.
      * eok.
    + intros h s1 _. destruct (expect_peek s1 T_COLON) as [s2|] eqn:Ee; [|ecur].
      assert (Es2 : s2 = next s1).
      { unfold expect_peek in Ee. destruct (peek_is s1 T_COLON); inversion Ee. reflexivity. }
      subst s2. eat (next s1). apply ER_bind; [apply IHcb|]. intros body s3 _.
      destruct (prev_is s3 T_BREAK) as [[]|]; [eok | | apply ER_crash].
      destruct (prev_is s3 T_FALLTHROUGH) as [[]|]; [eok | eprev | eprev].
  - intros st acc. cbn [pcase_body]. destruct (_ || _); [eok|].
    apply ER_bind; [eapply ER_reach; [apply reach_next | apply IHs]|]. intros s0 s1 _. apply IHcb.
Qed.

Lemma pblock_ER n st : ER st (pblock fok n st). Proof. apply (stmt_ER_all n). Qed.

(* ---------- declarations *)
Lemma pcidr_ER st : ER st (pcidr st).
Proof.
  unfold pcidr. set (st1 := if cur_is st T_NOT then next st else st).
  assert (R1 : reach st st1) by (subst st1; destruct (cur_is st T_NOT); rch_go).
  eat st1. apply ER_bind.
  - destruct (typ (cur st1)); try ecur; [eok|].
    apply ER_bind; [apply plong_ER|]. intros [[[o s] c] v] s' _. eok.
  - intros ip s2 _. apply ER_bind.
    + destruct (peek_is s2 T_SLASH); [|eok]. eat (next s2). apply ER_expect.
      apply ER_bindv; [apply pint_EV|]. intros v. eok.
    + intros mask s3 _. apply ER_semi. eok.
Qed.

Lemma pcidrs_ER : forall n st acc, ER st (pcidrs n st acc).
Proof.
  induction n as [|n IH]; intros st acc; [apply ER_fuel|].
  cbn [pcidrs]. destruct (peek_is st T_RIGHT_BRACE); [eok|].
  eat (next st). apply ER_bind; [apply pcidr_ER|]. intros c s1 _. apply IH.
Qed.

Lemma pacl_ER st : ER st (pacl st).
Proof. unfold pacl. apply ER_expect, ER_expect. apply ER_bind; [apply pcidrs_ER|]. intros cs s3 _. eok. Qed.

Lemma pbprop_ER_all : forall n,
  (forall st, ER st (pbprop fok n st)) /\ (forall st acc, ER st (pbprops fok n st acc)).
Proof.
  induction n as [|n [IHp IHl]]; [split; intros; apply ER_fuel|]. split.
  - intros st. cbn [pbprop]. apply ER_expect, ER_expect, ER_expect. destruct (cur_is _ T_LEFT_BRACE).
    + eat (next (next (next (next st)))). apply ER_bind; [apply IHl|]. intros ps s5 _. eok.
    + eat (next (next (next (next st)))). apply ER_bind; [apply pe|]. intros e s5 _. apply ER_semi. eok.
  - intros st acc. cbn [pbprops]. destruct (peek_is st T_RIGHT_BRACE); [eok|].
    apply ER_bind; [apply IHp|]. intros p s1 _. apply IHl.
Qed.

Lemma pbackend_ER st : ER st (pbackend fok st).
Proof.
  unfold pbackend. apply ER_expect, ER_expect. apply ER_bind; [apply (pbprop_ER_all _)|]. intros ps s3 _. eok.
Qed.

Lemma pdfield_ER st : ER st (pdfield fok st).
Proof.
  unfold pdfield, expect_peek.
  destruct (peek_is st T_IDENT); [|destruct (peek_is st T_BACKEND); [|epeek]]; cbn [pbind];
    (eat (next st); apply ER_expect; eat (next (next (next st)));
     apply ER_bind; [apply pe|]; intros e s3 _; apply ER_semi; eok).
Qed.

Lemma pdfields_ER : forall n st acc, ER st (pdfields fok n st acc).
Proof.
  induction n as [|n IH]; intros st acc; [apply ER_fuel|].
  cbn [pdfields]. destruct (peek_is st T_RIGHT_BRACE); [eok|].
  apply ER_expect. apply ER_bind; [apply pdfield_ER|]. intros f s2 _. apply IH.
Qed.

Lemma pdbackend_ER st : ER st (pdbackend fok st).
Proof. unfold pdbackend. apply ER_bind; [apply pdfields_ER|]. intros fs s1 _. eok. Qed.

Lemma pdprops_ER : forall n st acc, ER st (pdprops fok n st acc).
Proof.
  induction n as [|n IH]; intros st acc; [apply ER_fuel|].
  cbn [pdprops]. destruct (peek_is st T_RIGHT_BRACE); [eok|].
  apply ER_bind.
  - destruct (typ (peek st)); try epeek.
    + eat (next st). apply pdbackend_ER.
    + eat (next st). apply ER_bind; [apply pdfield_ER|]. intros f s _. eok.
  - intros p s1 _. apply IH.
Qed.

Lemma pdirector_ER st : ER st (pdirector fok st).
Proof.
  unfold pdirector. apply ER_expect, ER_expect, ER_expect. apply ER_bind; [apply pdprops_ER|]. intros ps s4 _. eok.
Qed.

Lemma ptprop_ER st : ER st (ptprop fok st).
Proof.
  unfold ptprop. apply ER_bind.
  - destruct (typ (peek st)); try epeek.
    + eat (next st). apply ER_bindv; [apply pstring_EV|]. intros v. eok.
    + eat (next st). apply ER_bind; [apply plong_ER|]. intros [[[o s] c] v] s' _. eok.
  - intros key s1 _. apply ER_expect. eat (next (next s1)). apply ER_bind.
    + destruct (typ (cur (next (next s1)))); try ecur.
      * eok.
      * apply pinteger_ER.
      * apply ER_bindv; [apply pstring_EV|]. intros v. eok.
      * apply ER_bind; [apply plong_ER|]. intros [[[o s] c] v] s' _. eok.
      * apply pfloat_ER.
      * apply prtime_ER.
      * eok.
      * eok.
    + intros v s4 _. destruct (typ (peek s4)); try epeek; eok.
Qed.

Lemma ptprops_ER : forall n st acc, ER st (ptprops fok n st acc).
Proof.
  induction n as [|n IH]; intros st acc; [apply ER_fuel|].
  cbn [ptprops]. destruct (peek_is st T_RIGHT_BRACE); [eok|].
  apply ER_bind; [apply ptprop_ER|]. intros p s1 _. apply IH.
Qed.

Lemma ptable_ER st : ER st (ptable fok st).
Proof.
  unfold ptable. apply ER_expect.
  set (st2 := if peek_is (next st) T_IDENT then next (next st) else next st).
  assert (R : reach (next st) st2) by (subst st2; destruct (peek_is (next st) T_IDENT); rch_go).
  eat st2. apply ER_expect. apply ER_bind; [apply ptprops_ER|]. intros ps s4 _. eok.
Qed.

Lemma pparams_ER : forall n st acc, ER st (pparams n st acc).
Proof.
  induction n as [|n IH]; intros st acc; [apply ER_fuel|].
  cbn [pparams]. destruct (_ || _); [eok|]. apply ER_expect, ER_expect.
  destruct (peek_is (next (next st)) T_COMMA); [eat (next (next (next st))); apply IH|].
  destruct (negb _); [epeek | apply IH].
Qed.

Lemma psub_ER st : ER st (psub fok st).
Proof.
  unfold psub. apply ER_expect. apply ER_bind.
  - destruct (peek_is (next st) T_LEFT_PAREN); [|eok].
    eat (next (next st)). apply ER_bind; [apply pparams_ER|]. intros ps s1 _. apply ER_expect. eok.
  - intros params s2 _. set (st3 := if peek_is s2 T_IDENT then next s2 else s2).
    assert (R : reach s2 st3) by (subst st3; destruct (peek_is s2 T_IDENT); rch_go).
    eat st3. apply ER_expect. apply ER_bind; [apply pblock_ER|]. intros [[lb ss] rb] s5 _. eok.
Qed.

Lemma pnamed_block_ER mk st : ER st (pnamed_block fok mk st).
Proof.
  unfold pnamed_block. apply ER_expect, ER_expect. apply ER_bind; [apply pblock_ER|].
  intros [[lb ss] rb] s3 _. eok.
Qed.

Lemma parse_decl_ER st : ER st (parse_decl fok st).
Proof.
  unfold parse_decl. apply ER_bind.
  - destruct (typ (cur st)); try ecur;
      first [ apply pacl_ER | apply pdirector_ER | apply pbackend_ER | apply ptable_ER | apply psub_ER
            | apply pinclude_ER | apply pkw_ident_ER | apply pnamed_block_ER ].
  - intros d s1 _. eok.
Qed.

Lemma pvcl_ER : forall n st acc, ER st (pvcl fok n st acc).
Proof.
  induction n as [|n IH]; intros st acc; [apply ER_fuel|].
  cbn [pvcl]. destruct (cur_is st T_EOF); [eok|].
  apply ER_bind; [apply parse_decl_ER|]. intros d s1 _. apply IH.
Qed.

Lemma snippet_stmt_ER st : ER st (snippet_stmt fok st).
Proof.
  unfold snippet_stmt. apply ER_bind.
  - destruct (typ (cur st));
      try (destruct (psimple fok st) as [r|] eqn:Ep; [apply psimple_ER; exact Ep | epeek]).
    + destruct (peek_is st T_LEFT_PAREN); [apply pfuncall_ER|].
      destruct (pgotodest st) as [[s0 s1]|] eqn:Eg; [|epeek].
      unfold pgotodest in Eg. destruct (is_goto_dest (cur st)); inversion Eg; subst. eok.
    + apply ER_bind; [apply pblock_ER|]. intros [[lb ss] rb] s' _. eok.
    + apply (stmt_ER_all _).
    + apply (stmt_ER_all _).
  - intros s s1 _. eok.
Qed.

Lemma psnippet_ER : forall n st acc, ER st (psnippet fok n st acc).
Proof.
  induction n as [|n IH]; intros st acc; [apply ER_fuel|].
  cbn [psnippet]. destruct (cur_is st T_EOF); [eok|].
  apply ER_bind; [apply snippet_stmt_ER|]. intros s s1 _. apply IH.
Qed.

(* ---------- the theorem: the token of every *ParseError is a token of the input at the reported
   index (length ts - rem), or the EOF token behind the input *)
Lemma top_located {A B} ts (r : pres (A * pstate)) (f : A * pstate -> pres B) k t rem :
  ER (start ts) r -> (forall x, exists b, f x = POK b) -> pbind r f = PErr k t rem -> located ts t rem.
Proof.
  intros [_ H] Hf E. destruct r as [x| | | |]; cbn [pbind] in E; try discriminate.
  - destruct (Hf x) as [b Hb]. rewrite Hb in E. discriminate.
  - inversion E; subst. destruct (H k t rem eq_refl) as [s [R O]]. eapply origin_located; eauto.
Qed.

Theorem parse_vcl_error_located ts k t rem : parse_vcl fok ts = PErr k t rem -> located ts t rem.
Proof.
  unfold parse_vcl. apply top_located; [apply pvcl_ER | intros [ss s]; eexists; reflexivity].
Qed.
Theorem parse_snippet_error_located ts k t rem : parse_snippet fok ts = PErr k t rem -> located ts t rem.
Proof.
  unfold parse_snippet. apply top_located; [apply psnippet_ER | intros [ss s]; eexists; reflexivity].
Qed.
Theorem parse_error_located ts k t rem : parse_vcl_or_snippet fok ts = PErr k t rem -> located ts t rem.
Proof.
  unfold parse_vcl_or_snippet. destruct (_ || _); [apply parse_vcl_error_located | apply parse_snippet_error_located].
Qed.
Theorem parse_expression_error_located ts k t rem :
  parse_expression fok ts = PErr k t rem -> located ts t rem.
Proof.
  unfold parse_expression. apply top_located; [apply parse_expr_ER | intros [e s]; eexists; reflexivity].
Qed.

End E.
