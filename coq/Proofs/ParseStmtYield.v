(* parse_yield for statements: a successfully parsed statement consumed exactly its tokens, in
   order (Go cursor convention: a statement function is entered with cur = its first token and
   returns with cur = its last token). *)
From Coq Require Import String.
From Coq Require Import List NArith ZArith Bool Lia.
From Falco Require Import Base.Bytes Gen.TokenTypes Model.ParseKinds Gen.ParserTables
  Model.ParseBase Model.Ast Model.ParseLit Model.ParseExpr Model.ParseStmt Model.Yield
  Proofs.ParseTables Proofs.ParseExprYield.
Import ListNotations.
Local Open Scope parse_scope.

Lemma semi_ok st st' : semi st = POK st' -> st' = next st /\ after st = cur st' :: after st'.
Proof.
  unfold semi. destruct (peek_is st T_SEMICOLON) eqn:E; [|discriminate].
  intros H. inversion H; subst. split; [reflexivity|].
  apply peek_is_true in E. apply peek_not_eof. congruence.
Qed.

Lemma next_ok st : typ (peek st) <> T_EOF -> after st = cur (next st) :: after (next st).
Proof. intros H. rewrite <- peek_next. apply peek_not_eof. exact H. Qed.

Lemma peek_is_ok st t : peek_is st t = true -> t <> T_EOF -> after st = cur (next st) :: after (next st).
Proof. intros H Ht. apply next_ok. apply peek_is_true in H. congruence. Qed.

Lemma cur_is_ok st t : cur_is st t = true -> t <> T_EOF -> toks st = cur st :: after st.
Proof. intros H Ht. apply cur_not_eof. apply cur_is_true in H. congruence. Qed.

Lemma mem_assign_not_eof t : mem t assignment_operators = true -> t <> T_EOF.
Proof. intros H E. subst. vm_compute in H. discriminate. Qed.

(* normalise and close an equation between token lists *)
Ltac lists :=
  cbn [app ytok yopt ycallarg yparam fst snd];
  repeat (rewrite <- app_assoc; cbn [app]);
  try reflexivity.

(* rewrite with every available [after s = ...] equation *)
Ltac chase :=
  repeat match goal with
  | H : after ?s = _ |- context [after ?s] => rewrite H
  end.

Ltac bi H x Hx := apply pbind_ok in H; destruct H as [x [Hx H]].

Ltac ex_ok H :=
  let A := fresh "Q" in let B := fresh "Q" in let C := fresh "Q" in
  apply expect_ok in H; [destruct H as [A [B C]] | discriminate].
Ltac sm_ok H :=
  let A := fresh "Q" in let B := fresh "Q" in
  apply semi_ok in H; destruct H as [A B].

Section S.
Variable fok : str -> bool.
Notation parse_expr := (parse_expr fok).
Notation parse_args := (parse_args fok).

Lemma pe_ok prec st e st' : parse_expr prec st = POK (e, st') -> toks st = yexpr e ++ after st'.
Proof. intros H. apply parse_expr_yield in H. tauto. Qed.

Lemma pe_next prec st e st' : parse_expr prec (next st) = POK (e, st') -> after st = yexpr e ++ after st'.
Proof. intros H. apply pe_ok in H. exact H. Qed.

Lemma pa_ok st a st' : parse_args st = POK (a, st') ->
  after st = yargs a ++ cur st' :: after st'.
Proof.
  unfold ParseExpr.parse_args. intros H. apply (proj1 (proj2 (proj2 (yield_all fok _)))) in H.
  destruct H as [H1 H2]. rewrite H1, H2. reflexivity.
Qed.

(* every simple statement: toks st = cur st :: after st  ->  toks st = ystmt s ++ after st' *)
Definition Ysimple (f : pstate -> pres (stmt * pstate)) : Prop :=
  forall st s st', toks st = cur st :: after st -> f st = POK (s, st') -> toks st = ystmt s ++ after st'.

Lemma passign_yield mk :
  (forall kw id op v semi, ystmt (mk kw id op v semi) = kw :: id :: op :: yexpr v ++ [semi]) ->
  Ysimple (passign fok mk).
Proof.
  intros Hmk st s st' Hc H. unfold passign in H.
  bi H s1 H1. ex_ok H1.
  destruct (mem (typ (peek s1)) assignment_operators) eqn:Em; cbn [negb] in H; [|discriminate].
  bi H x H2. destruct x as [e s3]. bi H s4 H3. sm_ok H3. inversion H; subst. clear H.
  apply pe_next in H2.
  pose proof (next_ok (next st) (mem_assign_not_eof _ Em)) as QQ5.
  rewrite Hmk, Hc. chase. lists.
Qed.

Lemma pkw_ident_yield mk :
  (forall kw id semi, ystmt (mk kw id semi) = [kw; id; semi]) -> Ysimple (pkw_ident mk).
Proof.
  intros Hmk st s st' Hc H. unfold pkw_ident in H.
  bi H s1 H1. ex_ok H1. bi H s2 H2. sm_ok H2. inversion H; subst.
  rewrite Hmk, Hc. chase. lists.
Qed.

Lemma pkw_semi_yield mk :
  (forall kw semi, ystmt (mk kw semi) = [kw; semi]) -> Ysimple (pkw_semi mk).
Proof.
  intros Hmk st s st' Hc H. unfold pkw_semi in H.
  bi H s1 H1. sm_ok H1. inversion H; subst. rewrite Hmk, Hc. chase. lists.
Qed.

Lemma pkw_expr_yield mk :
  (forall kw v semi, ystmt (mk kw v semi) = kw :: yexpr v ++ [semi]) -> Ysimple (pkw_expr fok mk).
Proof.
  intros Hmk st s st' Hc H. unfold pkw_expr in H.
  bi H x H1. destruct x as [e s1]. apply pe_next in H1. bi H s2 H2. sm_ok H2. inversion H; subst.
  rewrite Hmk, Hc. chase. lists.
Qed.

Lemma pcall_args_yield : forall n st acc items st',
  pcall_args fok n st acc = POK (items, st') ->
  exists items', items = rev acc ++ items' /\ after st = flat_map ycallarg items' ++ after st'.
Proof.
  induction n as [|n IH]; intros st acc items st' H; [discriminate|].
  cbn [pcall_args] in H.
  destruct (peek_is st T_RIGHT_PAREN || peek_is st T_EOF).
  { inversion H; subst. exists []. rewrite app_nil_r. split; reflexivity. }
  bi H x Ha. destruct x as [e s1]. apply pe_next in Ha.
  destruct (peek_is s1 T_COMMA) eqn:Ec.
  - apply IH in H. destruct H as [it' [H1 H2]].
    pose proof (peek_is_ok _ _ Ec ltac:(discriminate)) as QQ.
    exists ((e, Some (cur (next s1))) :: it'). split.
    + rewrite H1. simpl. rewrite <- app_assoc. reflexivity.
    + cbn [flat_map]. unfold ycallarg at 1. chase. lists.
  - destruct (peek_is s1 T_RIGHT_PAREN); cbn [negb] in H; [|discriminate].
    apply IH in H. destruct H as [it' [H1 H2]].
    exists ((e, None) :: it'). split.
    + rewrite H1. simpl. rewrite <- app_assoc. reflexivity.
    + cbn [flat_map]. unfold ycallarg at 1. chase. lists.
Qed.

Lemma pcall_yield : Ysimple (pcall fok).
Proof.
  intros st s st' Hc H. unfold pcall in H.
  bi H s1 H1. ex_ok H1.
  destruct (peek_is s1 T_LEFT_PAREN) eqn:El.
  - bi H x H2. destruct x as [items s3].
    apply pcall_args_yield in H2. destruct H2 as [it' [E1 E2]]. simpl in E1. subst items.
    destruct (peek_is s3 T_RIGHT_PAREN) eqn:Er; cbn [negb] in H; [|discriminate].
    bi H s5 H3. sm_ok H3. inversion H; subst.
    pose proof (peek_is_ok _ _ El ltac:(discriminate)) as QQ5.
    pose proof (peek_is_ok _ _ Er ltac:(discriminate)) as QQ6.
    cbn [ystmt]. rewrite Hc. chase. lists.
  - bi H s5 H3. sm_ok H3. inversion H; subst. cbn [ystmt]. rewrite Hc. chase. lists.
Qed.

Lemma pdeclare_yield : Ysimple (pdeclare fok).
Proof.
  intros st s st' Hc H. unfold pdeclare in H.
  bi H s1 H1. ex_ok H1.
  destruct (str_eqb _ _); cbn [negb] in H; [|discriminate].
  bi H s2 H2. ex_ok H2. bi H s3 H3. ex_ok H3.
  destruct (peek_is s3 T_ASSIGN) eqn:Ea.
  - bi H x H4. destruct x as [e s5]. apply pe_next in H4. bi H s6 H5. sm_ok H5. inversion H; subst.
    pose proof (peek_is_ok _ _ Ea ltac:(discriminate)) as QQ9.
    cbn [ystmt]. rewrite Hc. chase. lists.
  - bi H s6 H5. sm_ok H5. inversion H; subst. cbn [ystmt]. rewrite Hc. chase. lists.
Qed.

Lemma pcallexpr_yield f st e st' :
  toks st = cur st :: after st ->
  pcallexpr fok f st = POK (e, st') -> f :: toks st = yexpr e ++ after st'.
Proof.
  intros Hc H. unfold pcallexpr in H. bi H x Ha. destruct x as [a s1]. apply pa_ok in Ha.
  inversion H; subst. cbn [yexpr]. rewrite Hc. chase. lists.
Qed.

Lemma perror_yield : Ysimple (perror fok).
Proof.
  intros st s st' Hc H. unfold perror in H.
  bi H x Ha. destruct x as [code s1].
  assert (Hcode : after st = yopt yexpr code ++ after s1).
  { destruct (typ (peek st)) eqn:Et; try discriminate.
    - (* IDENT *)
      pose proof (next_ok st ltac:(congruence)) as QQ.
      destruct (peek_is (next st) T_LEFT_PAREN) eqn:El.
      + bi Ha x Ha0. destruct x as [e sx]. inversion Ha; subst.
        pose proof (peek_is_ok _ _ El ltac:(discriminate)) as QQ2.
        apply pcallexpr_yield in Ha0; [|apply cur_not_eof; rewrite <- peek_next; apply peek_is_true in El; congruence].
        cbn [yopt]. rewrite QQ. rewrite after_next in Ha0. rewrite <- Ha0. reflexivity.
      + inversion Ha; subst. cbn [yopt yexpr]. exact QQ.
    - (* INT *) bi Ha x Ha0. destruct x as [e sx]. inversion Ha; subst.
      unfold pinteger in Ha0. bi Ha0 v Hv. inversion Ha0; subst.
      cbn [yopt yexpr]. apply next_ok. congruence.
    - (* SEMICOLON *) inversion Ha; subst. reflexivity. }
  bi H x Hb. destruct x as [arg s2].
  assert (Harg : after s1 = yopt yexpr arg ++ after s2).
  { destruct (peek_is s1 T_SEMICOLON); cbn [negb] in Hb.
    - inversion Hb; subst. reflexivity.
    - bi Hb x Hb1. destruct x as [e sx]. inversion Hb; subst. apply pe_next in Hb1. exact Hb1. }
  bi H s3 H3. sm_ok H3. inversion H; subst.
  cbn [ystmt]. rewrite Hc. chase. lists.
Qed.

Lemma preturn_yield : Ysimple (preturn fok).
Proof.
  intros st s st' Hc H. unfold preturn in H.
  destruct (peek_is st T_SEMICOLON) eqn:Es.
  { inversion H; subst. pose proof (peek_is_ok _ _ Es ltac:(discriminate)) as QQ.
    cbn [ystmt]. rewrite Hc. chase. lists. }
  destruct (peek_is st T_LEFT_PAREN) eqn:El.
  - bi H x Ha. destruct x as [e s2]. apply pe_next in Ha.
    pose proof (peek_is_ok _ _ El ltac:(discriminate)) as QQ.
    destruct (peek_is s2 T_RIGHT_PAREN) eqn:Er; cbn [xorb] in H; [|discriminate].
    bi H s4 H4. sm_ok H4. inversion H; subst.
    pose proof (peek_is_ok _ _ Er ltac:(discriminate)) as QQ4.
    cbn [ystmt]. rewrite Hc. chase. lists.
  - bi H x Ha. destruct x as [e s2]. apply pe_next in Ha.
    destruct (peek_is s2 T_RIGHT_PAREN) eqn:Er; cbn [xorb] in H; [discriminate|].
    bi H s4 H4. sm_ok H4. inversion H; subst.
    cbn [ystmt]. rewrite Hc. chase. lists.
Qed.

Lemma pinclude_yield : Ysimple (pinclude).
Proof.
  intros st s st' Hc H. unfold pinclude in H.
  bi H s1 H1. ex_ok H1. bi H v Hv.
  destruct (peek_is s1 T_SEMICOLON) eqn:Es.
  - inversion H; subst. pose proof (peek_is_ok _ _ Es ltac:(discriminate)) as QQ.
    cbn [ystmt]. rewrite Hc. chase. lists.
  - inversion H; subst. cbn [ystmt]. rewrite Hc. chase. lists.
Qed.

Lemma pfuncall_yield st s st' :
  toks st = cur st :: after st -> peek_is st T_LEFT_PAREN = true ->
  pfuncall fok st = POK (s, st') -> toks st = ystmt s ++ after st'.
Proof.
  intros Hc El H. unfold pfuncall in H.
  bi H x Ha. destruct x as [a s2]. apply pa_ok in Ha. bi H s3 H3. sm_ok H3. inversion H; subst.
  pose proof (peek_is_ok _ _ El ltac:(discriminate)) as QQ.
  cbn [ystmt]. rewrite Hc. chase. lists.
Qed.

Lemma pgotodest_yield st s st' :
  toks st = cur st :: after st -> pgotodest st = Some (s, st') -> toks st = ystmt s ++ after st'.
Proof.
  intros Hc H. unfold pgotodest in H. destruct (is_goto_dest (cur st)); [|discriminate].
  inversion H; subst. exact Hc.
Qed.

Lemma psimple_yield st r s st' :
  toks st = cur st :: after st -> psimple fok st = Some r -> r = POK (s, st') ->
  toks st = ystmt s ++ after st'.
Proof.
  intros Hc H Hr. subst r. unfold psimple in H.
  destruct (typ (cur st)); try discriminate; inversion H as [Hr]; clear H; revert Hr;
    first [ apply pkw_expr_yield; auto; fail | apply pkw_ident_yield; auto; fail
          | apply passign_yield; auto; fail | apply pcall_yield; auto; fail
          | apply pdeclare_yield; auto; fail | apply perror_yield; auto; fail
          | apply pkw_semi_yield; auto; fail | apply pinclude_yield; auto; fail
          | apply preturn_yield; auto; fail ].
Qed.


(* ---------- the recursive cluster *)
Notation pstmt := (pstmt fok).
Notation pblock := (pblock fok).
Notation pblock_loop := (pblock_loop fok).
Notation pif := (pif fok).
Notation pif_chain := (pif_chain fok).
Notation pelif := (pelif fok).
Notation pswitch := (pswitch fok).
Notation pcases := (pcases fok).
Notation pcase := (pcase fok).
Notation pcase_body := (pcase_body fok).

Definition yels (els : option (token * token * list stmt * token)) : list token :=
  match els with
  | Some (k, lb2, ss, rb2) => k :: lb2 :: flat_map ystmt ss ++ [rb2]
  | None => []
  end.

(* ParseStatement starts with NextToken: the statement's tokens are what follows cur *)
Definition Ys n := forall st s st', pstmt n st = POK (s, st') -> after st = ystmt s ++ after st'.
Definition Yb n := forall st lb ss rb st', pblock n st = POK ((lb, ss, rb), st') ->
  lb = cur st /\ after st = flat_map ystmt ss ++ rb :: after st'.
Definition Ybl n := forall st acc ss st', pblock_loop n st acc = POK (ss, st') ->
  exists ss', ss = rev acc ++ ss' /\ after st = flat_map ystmt ss' ++ after st' /\ peek_is st' T_RIGHT_BRACE = true.
Definition Yif n := forall st s st', toks st = cur st :: after st -> pif n st = POK (s, st') ->
  toks st = ystmt s ++ after st'.
Definition Ych n := forall st acc r st', pif_chain n st acc = POK (r, st') ->
  exists an', fst r = rev acc ++ an' /\ after st = flat_map yelif an' ++ yels (snd r) ++ after st'.
Definition Yel n := forall k1 k2 st e st', pelif n k1 k2 st = POK (e, st') ->
  exists X, yelif e = k1 :: ytok k2 ++ X /\ after st = X ++ after st'.
Definition Ysw n := forall st s st', toks st = cur st :: after st -> pswitch n st = POK (s, st') ->
  toks st = ystmt s ++ after st'.
Definition Ycs n := forall st acc d r st', pcases n st acc d = POK (r, st') ->
  exists cs', fst r = rev acc ++ cs' /\ after st = flat_map ycase cs' ++ after st' /\ peek_is st' T_RIGHT_BRACE = true.
Definition Yca n := forall st c st', toks st = cur st :: after st -> pcase n st = POK (c, st') ->
  toks st = ycase c ++ after st'.
Definition Ycb n := forall st acc ss st', pcase_body n st acc = POK (ss, st') ->
  exists ss', ss = rev acc ++ ss' /\ after st = flat_map ystmt ss' ++ after st'.

Definition Yall n := Ys n /\ Yb n /\ Ybl n /\ Yif n /\ Ych n /\ Yel n /\ Ysw n /\ Ycs n /\ Yca n /\ Ycb n.

Lemma flat_map_app' {A B} (f : A -> list B) l1 l2 : flat_map f (l1 ++ l2) = flat_map f l1 ++ flat_map f l2.
Proof. induction l1; simpl; [reflexivity | rewrite IHl1, app_assoc; reflexivity]. Qed.

Lemma yield_stmt_all : forall n, Yall n.
Proof.
  induction n as [|n IH].
  { unfold Yall, Ys, Yb, Ybl, Yif, Ych, Yel, Ysw, Ycs, Yca, Ycb. repeat split; intros; discriminate. }
  destruct IH as [IHs [IHb [IHbl [IHif [IHch [IHel [IHsw [IHcs [IHca IHcb]]]]]]]]].
  assert (Hs : Ys (S n)).
  { red. intros st0 s st' H. cbn [ParseStmt.pstmt] in H. set (st := next st0) in *.
    change (after st0) with (toks st).
    destruct (psimple fok st) as [r|] eqn:Eps.
    { assert (Hc : toks st = cur st :: after st).
      { apply cur_not_eof. intros E. unfold psimple in Eps. rewrite E in Eps. discriminate. }
      eapply psimple_yield; eauto. }
    destruct (typ (cur st)) eqn:Et; try discriminate;
      assert (Hc : toks st = cur st :: after st) by (apply cur_not_eof; congruence).
    - (* IDENT *)
      destruct (peek_is st T_LEFT_PAREN) eqn:El.
      + eapply pfuncall_yield; eauto.
      + destruct (pgotodest st) as [[s0 st0']|] eqn:Eg; [|discriminate].
        inversion H; subst. eapply pgotodest_yield; eauto.
    - (* LEFT_BRACE *)
      bi H x Hb. destruct x as [[[lb ss] rb] s1]. inversion H; subst.
      apply IHb in Hb. destruct Hb as [E1 E2]. subst lb.
      cbn [ystmt]. rewrite Hc, E2. lists.
    - (* IF *) apply IHif; assumption.
    - (* SWITCH *) apply IHsw; assumption.
    - (* BREAK *) revert H. apply pkw_semi_yield; auto.
    - (* FALLTHROUGH *) revert H. apply pkw_semi_yield; auto. }
  assert (Hb : Yb (S n)).
  { red. intros st lb ss rb st' H. cbn [ParseStmt.pblock] in H.
    bi H x Hl. destruct x as [ss0 s1]. inversion H; subst.
    apply IHbl in Hl. destruct Hl as [ss' [E1 [E2 E3]]]. simpl in E1. subst ss'.
    split; [reflexivity|].
    pose proof (peek_is_ok _ _ E3 ltac:(discriminate)) as QQ. rewrite E2, QQ. reflexivity. }
  assert (Hbl : Ybl (S n)).
  { red. intros st acc ss st' H. cbn [ParseStmt.pblock_loop] in H.
    destruct (peek_is st T_RIGHT_BRACE) eqn:Er.
    { inversion H; subst. exists []. rewrite app_nil_r. repeat split; auto. }
    bi H x H1. destruct x as [s0 s1]. apply IHs in H1.
    destruct (is_break_or_fallthrough s0); [unfold err_prev in H; destruct (prev s1); discriminate|].
    apply IHbl in H. destruct H as [ss' [E1 [E2 E3]]].
    exists (s0 :: ss'). split; [|split].
    - rewrite E1. simpl. rewrite <- app_assoc. reflexivity.
    - cbn [flat_map]. rewrite H1, E2. lists.
    - exact E3. }
  assert (Hel : Yel (S n)).
  { red. intros k1 k2 st e st' H. cbn [ParseStmt.pelif] in H.
    bi H s1 H1. ex_ok H1. bi H x H2. destruct x as [c s2]. apply pe_next in H2.
    bi H s3 H3. ex_ok H3. bi H s4 H4. ex_ok H4.
    bi H x H5. destruct x as [[[lb ss] rb] s5]. inversion H; subst.
    apply IHb in H5. destruct H5 as [E1 E2]. subst lb.
    eexists. split; [cbn [yelif]; reflexivity|]. chase. lists. }
  assert (Hif : Yif (S n)).
  { red. intros st s st' Hc H. cbn [ParseStmt.pif] in H.
    bi H s1 H1. ex_ok H1. bi H x H2. destruct x as [c s2]. apply pe_next in H2.
    bi H s3 H3. ex_ok H3. bi H s4 H4. ex_ok H4.
    bi H x H5. destruct x as [[[lb ss] rb] s5].
    apply IHb in H5. destruct H5 as [E1 E2]. subst lb.
    bi H x H6. destruct x as [r s6]. inversion H; subst.
    apply IHch in H6. destruct H6 as [an' [E3 E4]]. simpl in E3.
    cbn [ystmt]. rewrite E3. fold (yels (snd r)). rewrite Hc. chase. lists. }
  assert (Hch : Ych (S n)).
  { red. intros st acc r st' H. cbn [ParseStmt.pif_chain] in H.
    destruct (typ (peek st)) eqn:Et;
      try (inversion H; subst; exists []; cbn [fst snd flat_map yels app]; rewrite app_nil_r; split; reflexivity);
      pose proof (next_ok st ltac:(congruence)) as QQ.
    - (* ELSE *)
      destruct (peek_is (next st) T_IF) eqn:Ei.
      + bi H x H1. destruct x as [e s3]. apply IHel in H1. destruct H1 as [X [Y1 Y2]].
        apply IHch in H. destruct H as [an' [E1 E2]].
        pose proof (peek_is_ok _ _ Ei ltac:(discriminate)) as QQ2.
        exists (e :: an'). split.
        * rewrite E1. simpl. rewrite <- app_assoc. reflexivity.
        * cbn [flat_map]. rewrite Y1. cbn [ytok]. chase. lists.
      + bi H s2 H1. ex_ok H1. bi H x H2. destruct x as [[[lb ss] rb] s3]. inversion H; subst.
        apply IHb in H2. destruct H2 as [E1 E2]. subst lb.
        exists []. split; [cbn [fst]; rewrite app_nil_r; reflexivity|].
        cbn [snd flat_map yels app]. chase. lists.
    - (* ELSEIF *)
      bi H x H1. destruct x as [e s2]. apply IHel in H1. destruct H1 as [X [Y1 Y2]].
      apply IHch in H. destruct H as [an' [E1 E2]].
      exists (e :: an'). split.
      + rewrite E1. simpl. rewrite <- app_assoc. reflexivity.
      + cbn [flat_map]. rewrite Y1. cbn [ytok]. chase. lists.
    - (* ELSIF *)
      bi H x H1. destruct x as [e s2]. apply IHel in H1. destruct H1 as [X [Y1 Y2]].
      apply IHch in H. destruct H as [an' [E1 E2]].
      exists (e :: an'). split.
      + rewrite E1. simpl. rewrite <- app_assoc. reflexivity.
      + cbn [flat_map]. rewrite Y1. cbn [ytok]. chase. lists. }
  assert (Hcb : Ycb (S n)).
  { red. intros st acc ss st' H. cbn [ParseStmt.pcase_body] in H.
    destruct (peek_is st T_CASE || peek_is st T_DEFAULT || peek_is st T_RIGHT_BRACE).
    { inversion H; subst. exists []. rewrite app_nil_r. split; reflexivity. }
    bi H x H1. destruct x as [s0 s1]. apply IHs in H1.
    apply IHcb in H. destruct H as [ss' [E1 E2]].
    exists (s0 :: ss'). split.
    - rewrite E1. simpl. rewrite <- app_assoc. reflexivity.
    - cbn [flat_map]. rewrite H1, E2. lists. }
  assert (Hca : Yca (S n)).
  { red. intros st c st' Hc H. cbn [ParseStmt.pcase] in H.
    bi H x H1. destruct x as [h s1].
    assert (Hh : toks st = ychead h ++ after s1).
    { destruct (typ (cur st)) eqn:Et; try discriminate.
      - (* CASE *)
        destruct (typ (cur (next st))) eqn:Et2; try discriminate.
        + (* STRING *) bi H1 x H2. destruct x as [e s']. inversion H1; subst.
          apply pe_ok in H2. cbn [ychead yctest]. rewrite Hc. change (after st) with (toks (next st)).
          rewrite H2. reflexivity.
        + (* REGEX_MATCH *) bi H1 x H2. destruct x as [e s']. inversion H1; subst.
          apply pe_next in H2. cbn [ychead yctest].
          assert (toks (next st) = cur (next st) :: after (next st)) by (apply cur_not_eof; congruence).
          rewrite Hc. change (after st) with (toks (next st)). rewrite H0, H2. reflexivity.
      - (* DEFAULT *) inversion H1; subst. exact Hc. }
    destruct (expect_peek s1 T_COLON) as [s2|] eqn:Ee; [|discriminate].
    assert (He : expect s1 T_COLON = POK s2) by (unfold expect; rewrite Ee; reflexivity). ex_ok He.
    bi H x H3. destruct x as [body s3]. apply IHcb in H3. destruct H3 as [ss' [E1 E2]]. simpl in E1. subst ss'.
    assert (Hfin : forall ft, toks st = ycase (Case h (cur s2) body ft) ++ after s3).
    { intros ft. cbn [ycase]. rewrite Hh. chase. lists. }
    destruct (prev_is s3 T_BREAK) as [[]|]; try discriminate.
    - inversion H; subst. apply Hfin.
    - destruct (prev_is s3 T_FALLTHROUGH) as [[]|]; try (unfold err_prev in H; destruct (prev s3); discriminate).
      inversion H; subst. apply Hfin. }
  assert (Hcs : Ycs (S n)).
  { red. intros st acc d r st' H. cbn [ParseStmt.pcases] in H.
    destruct (peek_is st T_RIGHT_BRACE) eqn:Er.
    { inversion H; subst. exists []. cbn [fst]. rewrite app_nil_r. repeat split; auto. }
    bi H x H1. destruct x as [cl s2].
    assert (Hne : typ (cur (next st)) <> T_EOF).
    { intros E. destruct n; [discriminate|]. cbn [ParseStmt.pcase] in H1. rewrite E in H1. discriminate. }
    apply IHca in H1; [|apply cur_not_eof; exact Hne].
    bi H d' Hd. destruct (existsb (dup_case cl) acc); [discriminate|].
    apply IHcs in H. destruct H as [cs' [E1 [E2 E3]]].
    exists (cl :: cs'). split; [|split].
    - rewrite E1. simpl. rewrite <- app_assoc. reflexivity.
    - cbn [flat_map]. change (after st) with (toks (next st)). rewrite H1, E2. lists.
    - exact E3. }
  assert (Hsw : Ysw (S n)).
  { red. intros st s st' Hc H. cbn [ParseStmt.pswitch] in H.
    bi H s1 H1. ex_ok H1. bi H x H2. destruct x as [ctl s3].
    assert (Hctl : after s1 = yexpr ctl ++ after s3).
    { destruct (peek_is (next s1) T_LEFT_PAREN) eqn:El.
      - pose proof (peek_is_ok _ _ El ltac:(discriminate)) as QQ.
        apply pcallexpr_yield in H2; [|apply cur_not_eof; rewrite <- peek_next; apply peek_is_true in El; congruence].
        rewrite after_next in H2.
        assert (T : toks (next s1) <> []).
        { intros E. unfold after in QQ. rewrite E in QQ. discriminate. }
        change (after s1) with (toks (next s1)). rewrite (toks_cur _ T), <- H2. reflexivity.
      - destruct (cur_is (next s1) T_IDENT) eqn:Ei.
        + injection H2 as E1 E2. subst ctl s3. cbn [yexpr]. change (after s1) with (toks (next s1)).
          apply (cur_is_ok _ _ Ei). discriminate.
        + destruct (negb (cur_is (next s1) T_TRUE) && negb (cur_is (next s1) T_FALSE) && negb (cur_is (next s1) T_STRING));
            [discriminate|].
          apply pe_ok in H2. exact H2. }
    bi H s4 H4. ex_ok H4. bi H s5 H5. ex_ok H5.
    bi H x H6. destruct x as [[cases dflt] s6].
    apply IHcs in H6. destruct H6 as [cs' [E1 [E2 E3]]]. simpl in E1. subst cs'.
    destruct (rev cases) as [|[h0 c0 body0 ft0] rc]; [discriminate|].
    destruct (rev body0) as [|ls rb0]; [discriminate|].
    destruct (is_fallthrough ls); [unfold err_prev in H; destruct (prev s6); discriminate|].
    inversion H; subst.
    pose proof (peek_is_ok _ _ E3 ltac:(discriminate)) as QQ.
    cbn [ystmt]. rewrite Hc. chase. lists. }
  unfold Yall. tauto.
Qed.

End S.
