(* Proofs about Model/Verdict.v: characterisation of the counters, exit status, summary,
   JSON document and terminal output of run_lint. *)
From Coq Require Import List Bool Arith Lia.
From Falco Require Import Base.Bytes Model.Verdict.
Import ListNotations.
Open Scope list_scope.

Definition b2n01 (b : bool) : nat := if b then 1 else 0.

Lemma show_counts c d s r :
  errors (show c d s r) = errors r /\ warnings (show c d s r) = warnings r /\ infos (show c d s r) = infos r
  /\ json_lint (show c d s r) = json_lint r /\ json_parse (show c d s r) = json_parse r.
Proof. unfold show. destruct (json c); cbn; auto. Qed.

Lemma step_counts c r d :
  errors (step c r d) = errors r + b2n01 (sev_eqb (effective c d) SevError) /\
  warnings (step c r d) = warnings r + b2n01 (sev_eqb (effective c d) SevWarning) /\
  infos (step c r d) = infos r + b2n01 (sev_eqb (effective c d) SevInfo).
Proof.
  unfold step, print_linter_error.
  destruct (effective c d); cbn [sev_eqb negb andb b2n01];
    destruct (json c); cbn [andb];
    repeat match goal with
           | |- context [level_lt ?a ?b] => destruct (level_lt a b)
           end;
    unfold show; cbn; destruct (json c); cbn; lia.
Qed.

Lemma fold_counts c ds : forall r,
  errors (fold_left (step c) ds r) = errors r + count c SevError ds /\
  warnings (fold_left (step c) ds r) = warnings r + count c SevWarning ds /\
  infos (fold_left (step c) ds r) = infos r + count c SevInfo ds.
Proof.
  induction ds as [|d ds IH]; intros r; cbn [fold_left].
  - unfold count. cbn. lia.
  - destruct (IH (step c r d)) as (A & B & C). destruct (step_counts c r d) as (A1 & B1 & C1).
    rewrite A, B, C, A1, B1, C1. unfold count. cbn [filter].
    destruct (effective c d); cbn [sev_eqb b2n01 length]; lia.
Qed.

Definition parse_failed (x : lint_input) : bool := parse_error_main x || parse_error_included x.

Lemma run_err c x : snd (run c x) = parse_failed x.
Proof. unfold run, parse_failed. destruct (parse_error_main x), (parse_error_included x); reflexivity. Qed.

Lemma exit_char c x :
  exit (run_lint c x) = if parse_failed x then 1 else if Nat.ltb 0 (count c SevError (diags x)) then 1 else 0.
Proof.
  unfold run_lint, Run, run, parse_failed.
  destruct (parse_error_main x); cbn [orb].
  - destruct (json c); reflexivity.
  - destruct (parse_error_included x); cbn [orb].
    + destruct (json c); reflexivity.
    + cbn [andb failed res_errors]. destruct (fold_counts c (diags x) runner0) as (A & _ & _). rewrite A. reflexivity.
Qed.

Lemma summary_char c x :
  summary (run_lint c x) =
  if parse_failed x then None
  else Some (count c SevError (diags x), count c SevWarning (diags x), count c SevInfo (diags x)).
Proof.
  unfold run_lint, Run, run, parse_failed.
  destruct (parse_error_main x); cbn [orb].
  - destruct (json c); reflexivity.
  - destruct (parse_error_included x); cbn [orb].
    + destruct (json c); reflexivity.
    + cbn [andb failed res_errors res_warnings res_infos summary].
      destruct (fold_counts c (diags x) runner0) as (A & B & C). rewrite A, B, C. reflexivity.
Qed.

Lemma count_pos c s ds : 0 < count c s ds <-> exists d, In d ds /\ effective c d = s.
Proof.
  unfold count. split.
  - intros H. destruct (filter (fun d => sev_eqb (effective c d) s) ds) as [|d l] eqn:E; [cbn in H; lia|].
    assert (Hin : In d (filter (fun d => sev_eqb (effective c d) s) ds)) by (rewrite E; left; reflexivity).
    apply filter_In in Hin. destruct Hin as [H1 H2]. exists d. split; auto.
    destruct (effective c d), s; try discriminate; reflexivity.
  - intros (d & H1 & H2).
    assert (Hin : In d (filter (fun d => sev_eqb (effective c d) s) ds)).
    { apply filter_In. split; auto. rewrite H2. destruct s; reflexivity. }
    destruct (filter (fun d => sev_eqb (effective c d) s) ds); [contradiction | cbn; lia].
Qed.

Theorem exit_iff c x :
  exit (run_lint c x) <> 0 <->
  parse_error_main x = true \/ parse_error_included x = true \/
  exists d, In d (diags x) /\ effective c d = SevError.
Proof.
  rewrite exit_char. unfold parse_failed.
  destruct (parse_error_main x); cbn [orb]; [split; auto|].
  destruct (parse_error_included x); cbn [orb]; [split; auto|].
  destruct (Nat.ltb 0 (count c SevError (diags x))) eqn:E.
  - apply Nat.ltb_lt in E. apply count_pos in E. split; auto.
  - apply Nat.ltb_ge in E. split; [intros H; contradiction|].
    intros [H|[H|H]]; try discriminate. apply count_pos in H. lia.
Qed.

Theorem exit_01 c x : exit (run_lint c x) = 0 \/ exit (run_lint c x) = 1.
Proof.
  rewrite exit_char. destruct (parse_failed x); auto. destruct (Nat.ltb 0 (count c SevError (diags x))); auto.
Qed.

Theorem counts_spec c x :
  (parse_error_main x = false -> parse_error_included x = false ->
   summary (run_lint c x) = Some (count c SevError (diags x), count c SevWarning (diags x), count c SevInfo (diags x)))
  /\ (parse_error_main x = true \/ parse_error_included x = true -> summary (run_lint c x) = None).
Proof.
  rewrite summary_char. unfold parse_failed. split.
  - intros -> ->. reflexivity.
  - intros [->| ->]; [reflexivity|]. rewrite orb_true_r. reflexivity.
Qed.

Lemma count_ext c c' s ds : (forall r, overrides c r = overrides c' r) -> count c s ds = count c' s ds.
Proof.
  intros H. unfold count. f_equal. apply filter_ext. intros d. unfold effective. rewrite H. reflexivity.
Qed.

Theorem flags_irrelevant c c' x :
  (forall r, overrides c r = overrides c' r) ->
  exit (run_lint c x) = exit (run_lint c' x) /\ summary (run_lint c x) = summary (run_lint c' x).
Proof.
  intros H. rewrite !exit_char, !summary_char.
  rewrite (count_ext c c' SevError _ H), (count_ext c c' SevWarning _ H), (count_ext c c' SevInfo _ H). auto.
Qed.

(* ------------------------------------------------------------------ the JSON document *)
Lemma step_json_lint c r d :
  json_lint (step c r d) =
  json_lint r ++ (if json c && negb (sev_eqb (effective c d) SevIgnore) then [(fst d, effective c d)] else []).
Proof.
  unfold step, print_linter_error.
  destruct (effective c d); cbn [sev_eqb negb andb];
    destruct (json c) eqn:J; cbn [andb];
    repeat match goal with
           | |- context [level_lt ?a ?b] => destruct (level_lt a b)
           end;
    unfold show; cbn; rewrite ?J; cbn; rewrite ?app_nil_r; reflexivity.
Qed.

Lemma fold_json_lint c ds : forall r,
  json_lint (fold_left (step c) ds r) =
  json_lint r ++ (if json c then listed c ds else []).
Proof.
  unfold listed. induction ds as [|d ds IH]; intros r; cbn [fold_left filter map].
  - destruct (json c); rewrite app_nil_r; reflexivity.
  - rewrite IH, step_json_lint. destruct (json c); cbn [andb].
    + destruct (negb (sev_eqb (effective c d) SevIgnore)); cbn [map]; rewrite <- app_assoc; reflexivity.
    + rewrite !app_nil_r. reflexivity.
Qed.

(* the entries of the document, counted by their listed severity, give the document's counts *)
Lemma listed_count c s ds : s <> SevIgnore ->
  List.length (filter (fun e => sev_eqb (snd e) s) (listed c ds)) = count c s ds.
Proof.
  intros Hs. unfold listed, count. induction ds as [|d ds IH]; cbn [filter map length]; auto.
  destruct (effective c d) eqn:E; cbn [sev_eqb negb filter map snd]; destruct s; cbn [sev_eqb length];
    try contradiction; rewrite ?E; cbn [sev_eqb length]; auto.
Qed.

Lemma count_partition c ds :
  List.length (listed c ds)
  = count c SevError ds + count c SevWarning ds + count c SevInfo ds.
Proof.
  unfold listed. rewrite map_length. unfold count. induction ds as [|d ds IH]; cbn [filter length]; auto.
  destruct (effective c d); cbn [sev_eqb negb length]; lia.
Qed.

(* with -json and no parse error: the document carries the same three counts as the summary line,
   and lists exactly the diagnostics that are not ignored; without -json there is no document *)
Theorem json_doc_spec c x :
  (json c = false -> doc (run_lint c x) = None) /\
  (json c = true -> parse_error_main x = false -> parse_error_included x = false ->
   exists res, doc (run_lint c x) = Some res /\
     summary (run_lint c x) = Some (res_errors res, res_warnings res, res_infos res) /\
     res_lint res = listed c (diags x) /\
     List.length (res_lint res) = res_errors res + res_warnings res + res_infos res /\
     (forall s, s <> SevIgnore ->
        List.length (filter (fun e => sev_eqb (snd e) s) (res_lint res)) = count c s (diags x)) /\
     res_parse res = 0) /\
  (json c = true -> parse_error_main x = true \/ parse_error_included x = true ->
   exists res, doc (run_lint c x) = Some res /\ res_parse res = 1 /\ res_lint res = [] /\
     res_errors res = 0 /\ exit (run_lint c x) = 1).
Proof.
  unfold run_lint, Run, run. repeat split.
  - intros J. rewrite J. destruct (parse_error_main x); [reflexivity|].
    destruct (parse_error_included x); [reflexivity|]. cbn [andb]. reflexivity.
  - intros J M I. rewrite J, M, I. cbn [andb negb failed]. eexists. split; [reflexivity|].
    cbn [res_errors res_warnings res_infos res_lint res_parse summary].
    rewrite (fold_json_lint c (diags x) runner0), J. cbn [json_lint runner0 app].
    destruct (fold_counts c (diags x) runner0) as (A & B & C). rewrite A, B, C. cbn [errors warnings infos runner0 Nat.add].
    repeat split; auto. apply count_partition.
    { intros s Hs. apply listed_count. exact Hs. }
    assert (P : forall ds r, json_parse (fold_left (step c) ds r) = json_parse r).
    { induction ds as [|d ds IH]; intros r; cbn [fold_left]; auto. rewrite IH.
      unfold step, print_linter_error. destruct (effective c d); cbn [sev_eqb negb andb];
        destruct (json c); cbn [andb];
        repeat match goal with |- context [level_lt ?a ?b] => destruct (level_lt a b) end;
        unfold show; cbn; destruct (json c); reflexivity. }
    rewrite P. reflexivity.
  - intros J H. rewrite J. unfold record_parse_error. rewrite J.
    destruct (parse_error_main x).
    + cbn. eexists. repeat split; reflexivity.
    + destruct H as [H|H]; [discriminate|]. rewrite H. cbn. eexists. repeat split; reflexivity.
Qed.

(* ------------------------------------------------------------------ the terminal *)
Lemma step_shown c r d :
  shown (step c r d) =
  shown r ++ (if negb (json c) && visible (verbosity c) (effective c d) then [(fst d, effective c d)] else []).
Proof.
  unfold step, print_linter_error, visible.
  destruct (effective c d); cbn [sev_eqb negb andb];
    destruct (json c) eqn:J; cbn [andb negb];
    repeat match goal with
           | |- context [level_lt ?a ?b] => destruct (level_lt a b)
           end;
    unfold show; cbn; rewrite ?J; cbn; rewrite ?app_nil_r; reflexivity.
Qed.

(* -v / -vv / -json change what is printed, nothing else: *)
Theorem terminal_spec c x :
  parse_error_main x = false -> parse_error_included x = false ->
  terminal (run_lint c x) =
  if json c then []
  else map (fun d => (fst d, effective c d)) (filter (fun d => visible (verbosity c) (effective c d)) (diags x)).
Proof.
  intros M I. unfold run_lint, Run, run. rewrite M, I. cbn [andb failed terminal].
  assert (P : forall ds r, shown (fold_left (step c) ds r) =
            shown r ++ (if json c then [] else map (fun d => (fst d, effective c d)) (filter (fun d => visible (verbosity c) (effective c d)) ds))).
  { induction ds as [|d ds IH]; intros r; cbn [fold_left filter map].
    - destruct (json c); rewrite app_nil_r; reflexivity.
    - rewrite IH, step_shown. destruct (json c); cbn [negb andb].
      + rewrite !app_nil_r. reflexivity.
      + destruct (visible (verbosity c) (effective c d)); cbn [map]; rewrite <- app_assoc; reflexivity. }
  rewrite P. reflexivity.
Qed.

(* ------------------------------------------------------------------ witnesses *)
From Coq Require Strings.String.
Section Witness.
Import Coq.Strings.String.
Local Open Scope string_scope.
Local Open Scope list_scope.

(* all four severities, an override in each direction, an invalid level, every flag combination *)
Definition ex_overrides : rule -> option severity :=
  let r := list_byte_of_string in
  overrides_of [(r "a/err", r "warning"); (r "b/warn", r "ERROR"); (r "c/info", r "Ignore"); (r "d/x", r "warn")].
Definition ex_input : lint_input :=
  let r := list_byte_of_string in
  {| parse_error_main := false; parse_error_included := false;
     diags := [(r "a/err", SevError); (r "b/warn", SevWarning); (r "c/info", SevInfo); (r "d/x", SevInfo); (r "e/y", SevError)] |}.

Example ex_all_flags :
  forall j v, let o := run_lint {| json := j; verbosity := v; overrides := ex_overrides |} ex_input in
  exit o = 1 /\ summary o = Some (2, 1, 1).
Proof. intros j v. destruct j; destruct v as [|[|v]]; vm_compute; auto. Qed.

Lemma unrepaired_json_swallows_parse_error :
  exists c x, parse_error_main x = true /\ exit (run_lint_unrepaired c x) = 0 /\
              summary (run_lint_unrepaired c x) = Some (0, 0, 0).
Proof.
  exists {| json := true; verbosity := 0; overrides := fun _ => None |},
         {| parse_error_main := true; parse_error_included := false; diags := [] |}.
  vm_compute. auto.
Qed.
End Witness.
