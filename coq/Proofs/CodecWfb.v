(* The boolean checker of Model/CodecWf.v decides the well-formedness predicate of the
   round-trip theorem: wfb_X x = true <-> wf_X x for every syntactic class. *)
From Coq Require Import List NArith ZArith Lia Bool ZifyBool ZifyN ZifyNat.
From Falco Require Import Base.Res Base.Bytes Base.Utf8 Gen.CodecFrames Model.CodecAst Model.Codec
  Model.CodecWf Proofs.CodecRT1.
Import ListNotations.
Local Open Scope N_scope.

Lemma wfb_str_iff s : wfb_str s = true <-> wf_str s.
Proof. unfold wfb_str, wf_str. rewrite andb_true_iff, N.ltb_lt. tauto. Qed.

Lemma wfb_num_iff v lit : wfb_num v lit = true <-> wf_num v lit.
Proof.
  unfold wfb_num, wf_num. rewrite !andb_true_iff, N.ltb_lt, Z.leb_le, Z.ltb_lt. tauto.
Qed.

Lemma u64b_iff d : u64b d = true <-> u64 d.
Proof. unfold u64b, u64. rewrite andb_true_iff, Z.leb_le, Z.ltb_lt. tauto. Qed.

(* collect the leaf equivalences that occur in the goal, then decide propositionally *)
Ltac have t := lazymatch goal with H : t |- _ => fail | _ => idtac end.
Ltac leaf_facts :=
  repeat match goal with
  | |- context [wfb_str ?s] => have (wfb_str s = true <-> wf_str s); pose proof (wfb_str_iff s)
  | |- context [wfb_num ?v ?l] => have (wfb_num v l = true <-> wf_num v l); pose proof (wfb_num_iff v l)
  | |- context [u64b ?d] => have (u64b d = true <-> u64 d); pose proof (u64b_iff d)
  end.
Ltac decide_iff := leaf_facts; rewrite ?andb_true_iff; tauto.

Lemma wfb_expr_iff_k : forall k e, (esize e <= k)%nat -> (wfb_expr e = true <-> wf_expr e).
Proof.
  induction k as [|k IH]; intros e Hk.
  { destruct e; simpl in Hk; lia. }
  destruct e as [v|v|v|v|b|v lit|v lit|r|l op r|l op|op r|c t e|f args|];
    cbn [wfb_expr wf_expr esize] in *.
  1-4: apply wfb_str_iff.
  1: tauto.
  1-2: apply wfb_num_iff.
  - apply IH; lia.
  - pose proof (IH r ltac:(lia)). destruct l as [l|]; [pose proof (IH l ltac:(lia))|]; decide_iff.
  - pose proof (IH l ltac:(lia)). decide_iff.
  - pose proof (IH r ltac:(lia)). decide_iff.
  - pose proof (IH c ltac:(lia)). pose proof (IH t ltac:(lia)). pose proof (IH e ltac:(lia)). decide_iff.
  - fold (wfb_exprs args). fold (wf_exprs args). fold (esizes args) in Hk.
    assert (Ha : forall l, (esizes l <= k)%nat -> (wfb_exprs l = true <-> wf_exprs l)).
    { induction l as [|x xs IHl]; intros Hl; [cbn; tauto|].
      cbn [wfb_exprs wf_exprs esizes] in *. fold (wfb_exprs xs). fold (wf_exprs xs). fold (esizes xs) in Hl.
      pose proof (IH x ltac:(lia)). pose proof (IHl ltac:(lia)). decide_iff. }
    pose proof (Ha args ltac:(lia)). decide_iff.
  - split; [discriminate|contradiction].
Qed.

Lemma wfb_expr_iff e : wfb_expr e = true <-> wf_expr e.
Proof. apply (wfb_expr_iff_k (esize e)). lia. Qed.

Lemma wfb_exprs_iff l : wfb_exprs l = true <-> wf_exprs l.
Proof.
  induction l as [|x xs IHl]; [cbn; tauto|].
  cbn [wfb_exprs wf_exprs]. fold (wfb_exprs xs). fold (wf_exprs xs).
  pose proof (wfb_expr_iff x). decide_iff.
Qed.

Lemma wfb_oexpr_iff o : wfb_oexpr o = true <-> wf_oexpr o.
Proof. destruct o as [e|]; cbn; [apply wfb_expr_iff | tauto]. Qed.

Lemma wfb_ostr_iff o : wfb_ostr o = true <-> wf_ostr o.
Proof. destruct o as [e|]; cbn; [apply wfb_str_iff | tauto]. Qed.

Lemma wfb_infix_iff i : wfb_infix i = true <-> wf_infix i.
Proof.
  destruct i as [[l op] r]. unfold wfb_infix, wf_infix.
  pose proof (wfb_expr_iff r). destruct l as [l|]; [pose proof (wfb_expr_iff l)|]; decide_iff.
Qed.

Lemma wfb_kvs_iff l : wfb_kvs l = true <-> wf_kvs l.
Proof.
  induction l as [|[k v] xs IHl]; [cbn; tauto|].
  cbn [wfb_kvs wf_kvs]. unfold wfb_kv, wf_kv; cbn [fst snd].
  pose proof (wfb_expr_iff v). decide_iff.
Qed.

Lemma wfb_cidrs_iff l : wfb_cidrs l = true <-> wf_cidrs l.
Proof.
  induction l as [|[inv ip mask] xs IHl]; [cbn; tauto|].
  cbn [wfb_cidrs wf_cidrs]. unfold wfb_cidr, wf_cidr.
  destruct mask as [[v lit]|]; decide_iff.
Qed.

Lemma wfb_bprops_iff l : wfb_bprops l = true <-> wf_bprops l.
Proof.
  induction l as [|p xs IHl]; [cbn; tauto|].
  cbn [wfb_bprops wf_bprops]. destruct p as [k v|k vs]; cbn [wfb_bprop wf_bprop].
  - pose proof (wfb_expr_iff v). decide_iff.
  - pose proof (wfb_kvs_iff vs). decide_iff.
Qed.

Lemma wfb_dprops_iff l : wfb_dprops l = true <-> wf_dprops l.
Proof.
  induction l as [|p xs IHl]; [cbn; tauto|].
  cbn [wfb_dprops wf_dprops]. destruct p as [k v|vs]; cbn [wfb_dprop wf_dprop].
  - pose proof (wfb_expr_iff v). decide_iff.
  - pose proof (wfb_kvs_iff vs). decide_iff.
Qed.

Lemma wfb_tprops_iff l : wfb_tprops l = true <-> wf_tprops l.
Proof.
  induction l as [|[k v] xs IHl]; [cbn; tauto|].
  cbn [wfb_tprops wf_tprops fst snd]. pose proof (wfb_expr_iff v). decide_iff.
Qed.

Lemma wfb_params_iff l : wfb_params l = true <-> wf_params l.
Proof.
  induction l as [|[t n] xs IHl]; [cbn; tauto|].
  cbn [wfb_params wf_params fst snd]. decide_iff.
Qed.

Lemma err_shape_iff code arg : err_shape code arg = true <-> (code = None -> arg = None).
Proof.
  destruct code, arg; cbn; split; intros H; try reflexivity; try discriminate H;
    try (intros E; discriminate E); try (specialize (H eq_refl); discriminate H).
Qed.

(* ---------- statements ---------- *)
Definition WFB_stmt (k : nat) : Prop :=
  forall s, (ssize s <= k)%nat -> (wfb_stmt s = true <-> wf_stmt s).
Definition WFB_ifs (k : nat) : Prop :=
  forall i, (isz i <= k)%nat -> (wfb_ifs i = true <-> wf_ifs i).
Definition WFB_cas (k : nat) : Prop :=
  forall c, (csz c <= k)%nat -> (wfb_cas c = true <-> wf_cas c).

Lemma wfb_block_k k : WFB_stmt k -> forall b, (bsz b <= S k)%nat -> (wfb_block b = true <-> wf_block b).
Proof.
  intros IH. induction b as [|x xs IHb]; intros Hs; [cbn; tauto|].
  cbn [wfb_block wf_block bsz] in *. fold wfb_block. fold wf_block. fold bsz in Hs.
  pose proof (IH x ltac:(lia)). pose proof (IHb ltac:(lia)). decide_iff.
Qed.
Lemma wfb_anothers_k k : WFB_ifs k -> forall l, (asz l <= S k)%nat -> (wfb_anothers l = true <-> wf_anothers l).
Proof.
  intros IH. induction l as [|x xs IHl]; intros Hs; [cbn; tauto|].
  cbn [wfb_anothers wf_anothers asz] in *. fold wfb_anothers. fold wf_anothers. fold asz in Hs.
  pose proof (IH x ltac:(lia)). pose proof (IHl ltac:(lia)). decide_iff.
Qed.
Lemma wfb_cases_k k : WFB_cas k -> forall l, (cssz l <= S k)%nat -> (wfb_cases l = true <-> wf_cases l).
Proof.
  intros IH. induction l as [|x xs IHl]; intros Hs; [cbn; tauto|].
  cbn [wfb_cases wf_cases cssz] in *. fold wfb_cases. fold wf_cases. fold cssz in Hs.
  pose proof (IH x ltac:(lia)). pose proof (IHl ltac:(lia)). decide_iff.
Qed.

Ltac sub_facts :=
  repeat match goal with
  | |- context [wfb_expr ?e] => have (wfb_expr e = true <-> wf_expr e); pose proof (wfb_expr_iff e)
  | |- context [wfb_exprs ?e] => have (wfb_exprs e = true <-> wf_exprs e); pose proof (wfb_exprs_iff e)
  | |- context [wfb_oexpr ?e] => have (wfb_oexpr e = true <-> wf_oexpr e); pose proof (wfb_oexpr_iff e)
  | |- context [wfb_ostr ?e] => have (wfb_ostr e = true <-> wf_ostr e); pose proof (wfb_ostr_iff e)
  | |- context [wfb_cidrs ?e] => have (wfb_cidrs e = true <-> wf_cidrs e); pose proof (wfb_cidrs_iff e)
  | |- context [wfb_bprops ?e] => have (wfb_bprops e = true <-> wf_bprops e); pose proof (wfb_bprops_iff e)
  | |- context [wfb_dprops ?e] => have (wfb_dprops e = true <-> wf_dprops e); pose proof (wfb_dprops_iff e)
  | |- context [wfb_tprops ?e] => have (wfb_tprops e = true <-> wf_tprops e); pose proof (wfb_tprops_iff e)
  | |- context [wfb_params ?e] => have (wfb_params e = true <-> wf_params e); pose proof (wfb_params_iff e)
  | |- context [wfb_infix ?e] => have (wfb_infix e = true <-> wf_infix e); pose proof (wfb_infix_iff e)
  | |- context [err_shape ?c ?a] =>
      have (err_shape c a = true <-> (c = None -> a = None)); pose proof (err_shape_iff c a)
  end.

Lemma wfb_group : forall k, WFB_stmt k /\ WFB_ifs k /\ WFB_cas k.
Proof.
  induction k as [|k (IHs & IHi & IHc)].
  { split; [|split]; intros x Hs; exfalso; destruct x; simpl in Hs; lia. }
  pose proof (wfb_block_k k IHs) as Hb.
  pose proof (wfb_anothers_k k IHi) as Ha.
  pose proof (wfb_cases_k k IHc) as Hc.
  split; [|split].
  - intros s Hs.
    destruct s as [id op v|id op v| b | | | | |sub args| c |name ty v|code arg|f args|d|d| i |d|d|v|d|d|paren v
                  | ctl cases d |v|v|name cidrs|name props|name ty props|name|name| name params ret b |name ty props|];
      cbn [wfb_stmt wf_stmt ssize] in *;
      fold wfb_block; fold wf_block; fold wfb_cases; fold wf_cases; fold bsz in Hs; fold cssz in Hs.
    all: try (sub_facts; decide_iff).
    + apply Hb; lia.
    + apply IHc; lia.
    + apply IHi; lia.
    + pose proof (Hc cases ltac:(lia)). sub_facts; decide_iff.
    + pose proof (Hb b ltac:(lia)). sub_facts; decide_iff.
    + split; [discriminate|contradiction].
  - intros i Hs. destruct i as [kw c csq another alt].
    cbn [wfb_ifs wf_ifs isz] in *.
    fold wfb_block; fold wf_block; fold wfb_anothers; fold wf_anothers; fold bsz in Hs; fold asz in Hs.
    pose proof (Hb csq ltac:(lia)). pose proof (Ha another ltac:(lia)).
    destruct alt as [alt|]; [pose proof (Hb alt ltac:(lia))|]; sub_facts; decide_iff.
  - intros c Hs. destruct c as [test b ft].
    cbn [wfb_cas wf_cas csz] in *. fold wfb_block; fold wf_block; fold bsz in Hs.
    pose proof (Hb b ltac:(lia)).
    destruct test as [i|]; sub_facts; decide_iff.
Qed.

Lemma wfb_stmt_iff s : wfb_stmt s = true <-> wf_stmt s.
Proof. destruct (wfb_group (ssize s)) as (H & _). apply H. lia. Qed.

Lemma wfb_block_iff ss : wfb_block ss = true <-> wf_block ss.
Proof.
  induction ss as [|x xs IH]; [cbn; tauto|].
  cbn [wfb_block wf_block]. fold wfb_block. fold wf_block.
  pose proof (wfb_stmt_iff x). decide_iff.
Qed.

Lemma wfb_sound ss : wfb_block ss = true -> wf_block ss.
Proof. apply wfb_block_iff. Qed.
Lemma wfb_complete ss : wf_block ss -> wfb_block ss = true.
Proof. apply wfb_block_iff. Qed.
