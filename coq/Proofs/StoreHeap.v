(* C13 - heap lemmas: well-formed states, the "only these old cells may change" relation [ext],
   and what allocation / cell writes / bindings / capture groups do to them. *)
From Coq Require Import List NArith ZArith Bool Lia Arith.
From Falco Require Import Base.Res Base.Bytes Model.StoreSyntax Model.Store.
Import ListNotations.

(* every name points inside the heap, and no two names share a cell *)
Definition wf (σ : state) : Prop :=
  (forall x l, loc_of σ x = Some l -> l < length (heap σ)) /\
  (forall x y l, loc_of σ x = Some l -> loc_of σ y = Some l -> x = y).

Definition cell_eq (σ σ' : state) (l : nat) : Prop := nth_error (heap σ') l = nth_error (heap σ) l.
Definition global_cell (σ : state) (l : nat) : Prop := exists k, lookup k (globals σ) = Some l.
Definition local_cell (σ : state) (l : nat) : Prop := exists k, lookup k (locals σ) = Some l.

(* which cells that already exist may be overwritten *)
Inductive wmode := WNone | WGlob | WLG.
Definition may_write (w : wmode) (σ : state) (l : nat) : Prop :=
  match w with
  | WNone => False
  | WGlob => global_cell σ l
  | WLG => local_cell σ l \/ global_cell σ l
  end.

Record ext (w : wmode) (σ σ' : state) : Prop := {
  ex_len : length (heap σ) <= length (heap σ');
  ex_glob : globals σ' = globals σ;
  ex_depth : depth σ' = depth σ;
  ex_locals : forall k l, lookup k (locals σ') = Some l ->
                lookup k (locals σ) = Some l \/ length (heap σ) <= l;
  ex_stable : forall l, l < length (heap σ) -> ~ may_write w σ l -> cell_eq σ σ' l;
  ex_same_locals : w <> WLG -> locals σ' = locals σ;
  ex_quiet : w = WNone -> hdrs σ' = hdrs σ /\ logs σ' = logs σ
}.

Definition wle (a b : wmode) : bool :=
  match a, b with WNone, _ => true | WGlob, (WGlob | WLG) => true | WLG, WLG => true | _, _ => false end.

Lemma may_write_mono a b σ l : wle a b = true -> may_write a σ l -> may_write b σ l.
Proof. destruct a, b; simpl; try discriminate; tauto. Qed.

Lemma ext_refl w σ : ext w σ σ.
Proof. constructor; auto; unfold cell_eq; auto. Qed.

Lemma ext_weaken a b σ σ' : wle a b = true -> ext a σ σ' -> ext b σ σ'.
Proof.
  intros Hle [H1 H2 H3 H4 H5 H6 H7]. constructor; auto.
  - intros l Hl Hn. apply H5; auto. intro Hm. apply Hn. eapply may_write_mono; eauto.
  - intros Hb. apply H6. destruct a, b; simpl in *; congruence.
  - intros Hb. subst b. destruct a; simpl in *; try discriminate. auto.
Qed.

Lemma ext_trans w σ σ1 σ2 : ext w σ σ1 -> ext w σ1 σ2 -> ext w σ σ2.
Proof.
  intros [A1 A2 A3 A4 A5 A6 A7] [B1 B2 B3 B4 B5 B6 B7]. constructor.
  - lia.
  - congruence.
  - congruence.
  - intros k l H. destruct (B4 _ _ H) as [H'|H']; [destruct (A4 _ _ H') as [?|?]; auto | right; lia].
  - intros l Hl Hn. unfold cell_eq in *. rewrite B5; [apply A5; auto | lia | ].
    intro Hm. apply Hn. destruct w; simpl in *; auto.
    + unfold global_cell in *. rewrite A2 in Hm. exact Hm.
    + destruct Hm as [[k Hk]|Hg].
      * destruct (A4 _ _ Hk) as [?|?]; [left; exists k; auto | lia].
      * right. unfold global_cell in *. rewrite A2 in Hg. exact Hg.
  - intros Hw. rewrite B6, A6; auto.
  - intros Hw. destruct (A7 Hw), (B7 Hw). split; congruence.
Qed.

(* ---- nth_error / upd *)
Lemma nth_error_app_old {A} (h t : list A) l : l < length h -> nth_error (h ++ t) l = nth_error h l.
Proof. intros. apply nth_error_app1; auto. Qed.

Lemma upd_length {A} i (x : A) l : length (upd i x l) = length l.
Proof. revert i; induction l; destruct i; simpl; auto. Qed.

Lemma nth_error_upd_other {A} i j (x : A) l : i <> j -> nth_error (upd i x l) j = nth_error l j.
Proof.
  revert i j; induction l; intros i j H; destruct i, j; simpl; auto; try congruence.
Qed.

Lemma nth_error_upd_same {A} i (x : A) l : i < length l -> nth_error (upd i x l) i = Some x.
Proof. revert i; induction l; intros i H; destruct i; simpl in *; auto; try lia. apply IHl. lia. Qed.

(* ---- setters do not touch what they do not set *)
Lemma loc_of_set_heap h σ x : loc_of (set_heap h σ) x = loc_of σ x.
Proof. destruct x; reflexivity. Qed.
Lemma loc_of_set_trace t σ x : loc_of (set_trace t σ) x = loc_of σ x.
Proof. destruct x; reflexivity. Qed.
Lemma loc_of_set_hdrs t σ x : loc_of (set_hdrs t σ) x = loc_of σ x.
Proof. destruct x; reflexivity. Qed.
Lemma loc_of_set_logs t σ x : loc_of (set_logs t σ) x = loc_of σ x.
Proof. destruct x; reflexivity. Qed.
Lemma loc_of_set_depth t σ x : loc_of (set_depth t σ) x = loc_of σ x.
Proof. destruct x; reflexivity. Qed.

Lemma wf_same σ σ' :
  heap σ' = heap σ -> locals σ' = locals σ -> globals σ' = globals σ -> groups σ' = groups σ ->
  wf σ -> wf σ'.
Proof.
  intros Hh Hl Hg Hr [W1 W2].
  assert (E : forall x, loc_of σ' x = loc_of σ x).
  { destruct x; simpl; congruence. }
  split.
  - intros x l H. rewrite Hh. rewrite E in H. eauto.
  - intros x y l H1 H2. rewrite E in *. eauto.
Qed.

Lemma wf_snap σ : wf σ -> wf (snap σ).
Proof. apply wf_same; reflexivity. Qed.
Lemma ext_snap w σ : ext w σ (snap σ).
Proof. constructor; simpl; auto; unfold cell_eq; auto. Qed.

(* growing the heap *)
Lemma wf_grow σ t : wf σ -> wf (set_heap (heap σ ++ t) σ).
Proof.
  intros [W1 W2]. split.
  - intros x l H. rewrite loc_of_set_heap in H. simpl. rewrite app_length. apply W1 in H. lia.
  - intros x y l H1 H2. rewrite loc_of_set_heap in *. eauto.
Qed.

Lemma ext_grow w σ t : ext w σ (set_heap (heap σ ++ t) σ).
Proof.
  constructor; simpl; auto; try (rewrite app_length; lia).
  intros l Hl _. unfold cell_eq; simpl. apply nth_error_app_old; auto.
Qed.

Lemma alloc_spec v σ : alloc v σ = (length (heap σ), set_heap (heap σ ++ [v]) σ).
Proof. reflexivity. Qed.

Lemma alloc_lt v σ : fst (alloc v σ) < length (heap (snd (alloc v σ))).
Proof. simpl. rewrite app_length; simpl; lia. Qed.

(* overwriting a cell *)
Lemma wf_write l v σ : wf σ -> wf (write l v σ).
Proof.
  intros [W1 W2]. split.
  - intros x l' H. unfold write in *. rewrite loc_of_set_heap in H. simpl. rewrite upd_length. eauto.
  - intros x y l' H1 H2. unfold write in *. rewrite loc_of_set_heap in *. eauto.
Qed.

Lemma ext_write w l v σ : may_write w σ l -> ext w σ (write l v σ).
Proof.
  intros Hm. constructor; simpl; auto; try (rewrite upd_length; lia).
  intros l' Hl Hn. unfold cell_eq; simpl. apply nth_error_upd_other. intro; subst. auto.
Qed.

(* binding a name of the frame to a cell nobody names *)
Lemma lookup_cons k k' l ls :
  lookup k ((k', l) :: ls) = if N.eqb k k' then Some l else lookup k ls.
Proof. reflexivity. Qed.

Lemma wf_bind k l σ :
  wf σ -> l < length (heap σ) -> (forall x, loc_of σ x <> Some l) ->
  wf (set_locals ((k, l) :: locals σ) σ).
Proof.
  intros [W1 W2] Hl Hfree.
  assert (E : forall x, x <> NLocal k -> loc_of (set_locals ((k, l) :: locals σ) σ) x = loc_of σ x).
  { intros [k'| | | |] Hx; simpl; auto. destruct (N.eqb_spec k' k); [subst; congruence | auto]. }
  assert (Ek : loc_of (set_locals ((k, l) :: locals σ) σ) (NLocal k) = Some l).
  { simpl. rewrite N.eqb_refl. auto. }
  split.
  - intros x l' H. simpl.
    destruct (name_eqb x (NLocal k)) eqn:Ex.
    + destruct x; simpl in Ex; try discriminate. apply N.eqb_eq in Ex; subst. rewrite Ek in H. congruence.
    + rewrite E in H; eauto. intro; subst. simpl in Ex. rewrite N.eqb_refl in Ex. discriminate.
  - intros x y l' H1 H2.
    assert (D : forall z, {z = NLocal k} + {z <> NLocal k}).
    { intros [k'| | | |]; try (right; congruence). destruct (N.eq_dec k' k); [left | right]; congruence. }
    destruct (D x), (D y); subst; auto.
    + rewrite Ek in H1. rewrite E in H2 by auto. inversion H1; subst. exfalso. eapply Hfree; eauto.
    + rewrite Ek in H2. rewrite E in H1 by auto. inversion H2; subst. exfalso. eapply Hfree; eauto.
    + rewrite E in H1, H2 by auto. eauto.
Qed.

(* a freshly allocated cell is in range and unnamed *)
Lemma wf_alloc_bind k v σ :
  wf σ -> wf (set_locals ((k, length (heap σ)) :: locals σ) (set_heap (heap σ ++ [v]) σ)).
Proof.
  intros W.
  apply (wf_bind k (length (heap σ)) (set_heap (heap σ ++ [v]) σ)).
  - apply wf_grow; auto.
  - simpl. rewrite app_length; simpl; lia.
  - intros x H. rewrite loc_of_set_heap in H. destruct W as [W1 _]. apply W1 in H. lia.
Qed.

(* ---- capture groups *)
Lemma alloc_caps_spec caps : forall σ,
  alloc_caps caps σ =
  (seq (length (heap σ)) (length caps),
   set_heap (heap σ ++ map (fun c => VStr c false false) caps) σ).
Proof.
  induction caps as [|c r IH]; intros σ; simpl.
  - rewrite app_nil_r. destruct σ; reflexivity.
  - rewrite IH. simpl. rewrite app_length. simpl. rewrite <- app_assoc. simpl.
    replace (length (heap σ) + 1) with (S (length (heap σ))) by lia. reflexivity.
Qed.

Lemma nth_error_seq a n j l : nth_error (seq a n) j = Some l -> l = a + j /\ j < n.
Proof.
  revert a j; induction n; intros a j H; simpl in *.
  - destruct j; discriminate.
  - destruct j; simpl in *.
    + inversion H; lia.
    + apply IHn in H. lia.
Qed.

Lemma set_caps_spec caps σ :
  set_caps caps σ =
  set_groups (seq (length (heap σ)) (length caps))
             (set_heap (heap σ ++ map (fun c => VStr c false false) caps) σ).
Proof. unfold set_caps. rewrite alloc_caps_spec. reflexivity. Qed.

Lemma wf_set_caps caps σ : wf σ -> wf (set_caps caps σ).
Proof.
  intros [W1 W2]. rewrite set_caps_spec. split.
  - intros x l H. simpl. rewrite app_length, map_length.
    destruct x; simpl in H; try (specialize (W1 _ _ H); lia).
    + specialize (W1 (NLocal k) l H). lia.
    + specialize (W1 (NGlobal k) l H). lia.
    + discriminate.
    + discriminate.
    + apply nth_error_seq in H. lia.
  - intros x y l H1 H2.
    destruct x as [k| k| | |j], y as [k'| k'| | |j']; simpl in H1, H2; try discriminate;
      try (apply (W2 _ _ l); simpl; assumption).
    + apply nth_error_seq in H2. specialize (W1 (NLocal k) l H1). lia.
    + apply nth_error_seq in H2. specialize (W1 (NGlobal k) l H1). lia.
    + apply nth_error_seq in H1. specialize (W1 (NLocal k') l H2). lia.
    + apply nth_error_seq in H1. specialize (W1 (NGlobal k') l H2). lia.
    + apply nth_error_seq in H1. apply nth_error_seq in H2. f_equal. lia.
Qed.

Lemma ext_set_caps w caps σ : ext w σ (set_caps caps σ).
Proof.
  rewrite set_caps_spec. constructor; simpl; auto; try (rewrite app_length; lia).
  intros l Hl _. unfold cell_eq; simpl. apply nth_error_app_old; auto.
Qed.

(* ---- load *)
Lemma load_ok σ l v : load σ l = OK v -> nth_error (heap σ) l = Some v /\ l < length (heap σ).
Proof.
  unfold load. destruct (nth_error (heap σ) l) eqn:E; intros H; inversion H; subst.
  split; auto. apply nth_error_Some. congruence.
Qed.

(* ---- reading through a name *)
Lemma read_ext_nongroup σ σ' x :
  wf σ -> is_group x = false ->
  locals σ' = locals σ -> globals σ' = globals σ -> hdrs σ' = hdrs σ ->
  (forall l, loc_of σ x = Some l -> cell_eq σ σ' l) ->
  read σ' x = read σ x.
Proof.
  intros [W1 _] Hg Hl Hgl Hh Hc. destruct x; simpl in *; try discriminate.
  - rewrite Hl. destruct (lookup k (locals σ)) eqn:E; auto. apply Hc. simpl. auto.
  - rewrite Hgl. destruct (lookup k (globals σ)) eqn:E; auto. apply Hc. simpl. auto.
  - unfold header_val. rewrite Hh. reflexivity.
  - unfold field_val, hdr_text. rewrite Hh. reflexivity.
Qed.
