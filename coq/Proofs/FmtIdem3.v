(* C14 core, part 3: one step of the input run, replayed by the output run. *)
From Coq Require Import List Bool NArith Arith Lia.
From Falco Require Import Base.Bytes Model.FmtTok Model.FmtNorm Proofs.FmtIdem1 Proofs.FmtIdem2.
Import ListNotations.

Definition side (si so : st) : Prop := is_fresh si so -> pe si = false.

Lemma adv_rwant c s e w : rt (adv c s e) = RWant w -> rt s = RNo.
Proof.
  unfold adv. destruct (next_mode (mode s) (pe s) e).
  destruct (kis (tk e) KRBrace && (depth s <=? 1) || kis (tk e) KSemi && (depth s =? 0)); simpl; [discriminate|].
  destruct (rt s) as [|?|? ? ?]; auto.
  - destruct (terminator (tk e)); discriminate.
  - destruct (terminator (tk e)); [discriminate|].
    destruct (kis (tk e) KLParen); [discriminate|]. destruct (kis (tk e) KRParen); discriminate.
Qed.

Lemma adv_from_rno c s e w dr d : rt s = RNo -> rt (adv c s e) <> RBody w dr d.
Proof.
  intros H. unfold adv. destruct (next_mode (mode s) (pe s) e).
  destruct (kis (tk e) KRBrace && (depth s <=? 1) || kis (tk e) KSemi && (depth s =? 0)); simpl; [discriminate|].
  rewrite H. destruct (kis (tk e) KReturn && at_start (mode s)); discriminate.
Qed.

Lemma adv_not_fresh c si so e : rel si so -> ~ is_fresh (adv c si e) (adv c so e).
Proof.
  intros R F. unfold is_fresh in F.
  destruct (rt (adv c si e)) as [|?|w dr d] eqn:Ei; try contradiction.
  destruct (rt (adv c so e)) as [|w2|? ? ?] eqn:Eo; try contradiction.
  apply adv_rwant in Eo. pose proof (r_rt _ _ R) as Hr. unfold rt_rel in Hr. rewrite Eo in Hr.
  exact (adv_from_rno c si e w dr d Hr Ei).
Qed.

Lemma rel_fold c l : forall si so, rel si so -> rel (fold_left (adv c) l si) (fold_left (adv c) l so).
Proof. induction l; simpl; auto. intros si so R. apply IHl. now apply adv_rel. Qed.

Lemma fold_not_fresh c l : forall si so, rel si so -> l <> [] ->
  ~ is_fresh (fold_left (adv c) l si) (fold_left (adv c) l so).
Proof.
  induction l as [|e r IH]; intros si so R Hne; [congruence|]. simpl.
  destruct r as [|e2 r2].
  - simpl. now apply adv_not_fresh.
  - apply IH; [now apply adv_rel|discriminate].
Qed.

Lemma nk_is_excl nk a b : kis a b = false -> nk_is nk a = true -> nk_is nk b = false.
Proof.
  destruct nk as [k|]; simpl; [|discriminate]. unfold kis. intros H1 H2.
  apply N.eqb_eq in H2. apply N.eqb_neq in H1. apply N.eqb_neq. congruence.
Qed.

Lemma callhdr_rno s : inv s -> callhdr s = true -> rt s = RNo.
Proof.
  intros (I1 & I2 & _) H. destruct (rt s) eqn:E; auto.
  - assert (Hm : mode s = MExpr) by (apply I1; discriminate).
    unfold callhdr in H. rewrite Hm in H. simpl in H.
    destruct (hdr s) as [[n b]|] eqn:Eh; [|discriminate].
    destruct (I2 ltac:(discriminate)) as [Hm2 _]. congruence.
  - assert (Hm : mode s = MExpr) by (apply I1; discriminate).
    unfold callhdr in H. rewrite Hm in H. simpl in H.
    destruct (hdr s) as [[n b]|] eqn:Eh; [|discriminate].
    destruct (I2 ltac:(discriminate)) as [Hm2 _]. congruence.
Qed.

Lemma rel_set_dp si so b : rel si so ->
  rel (St (mode si) (pe si) (depth si) (fn si) (hdr si) (tblp si) (tbl si) (prev si) (rt si) b) so.
Proof. intros [? ? ? ? ? ? ? ? ? ?]. constructor; simpl; auto. Qed.

Lemma inv_set_dp s b : inv s -> (b = true -> rt s = RNo) ->
  inv (St (mode s) (pe s) (depth s) (fn s) (hdr s) (tblp s) (tbl s) (prev s) (rt s) b).
Proof.
  intros (I1 & I2 & I3 & I4 & I5 & I6) Hb. unfold inv; simpl. repeat split; auto; try (apply I2; assumption).
  intros Hr. destruct b; auto. now specialize (Hb eq_refl).
Qed.

(* a removed token: nothing to replay, the states stay related *)
Lemma drop_replay c si so t nk p :
  inv si -> rel si so -> side si so ->
  decide c si t nk = ADrop p ->
  rel (apply_patch p si) so /\ inv (apply_patch p si) /\ side (apply_patch p si) so
  /\ (is_fresh (apply_patch p si) so -> nk_is nk KLParen = false).
Proof.
  intros Hinv R Hside D.
  pose proof (decide_ok c si t nk) as S. rewrite D in S.
  pose proof Hinv as (I1 & I2 & I3 & I4 & I5 & I6).
  inversion S as [Hdp Hk Ea | Hk Hnk Hch Ea | Hr0 Hk Hnk Ea | w Hr0 Hk Hnk Ea | dr d Hr0 Hd Hk Ea | G0 G1 G2 Ea]; subst.
  - (* the ")" of "()" *)
    simpl. split; [now apply rel_set_dp|]. split; [apply inv_set_dp; auto; discriminate|].
    split; [exact Hside|]. unfold is_fresh; simpl. intros F.
    destruct (rt si) eqn:E; try contradiction. rewrite I6 in Hdp by discriminate. discriminate.
  - (* the "(" of "()" *)
    pose proof (callhdr_rno _ Hinv Hch) as Hr.
    simpl. split; [now apply rel_set_dp|]. split; [apply inv_set_dp; auto|].
    split; [exact Hside|]. unfold is_fresh; simpl. rewrite Hr. contradiction.
  - (* the "(" after return *)
    pose proof (r_rt _ _ R) as Hr. unfold rt_rel in Hr. rewrite Hr0 in Hr.
    assert (Eo : rt so = RWant false).
    { destruct (rt so) as [|w2|w2 dr2 d2]; try discriminate.
      - destruct Hr as [Hr|[_ [? Hr]]]; [congruence|discriminate].
      - destruct Hr as [_ [? Hr]]. discriminate. }
    simpl. split; [|split; [|split]].
    + destruct R. constructor; simpl; auto. unfold rt_rel. rewrite Eo. right. eauto.
    + unfold inv; simpl. repeat split; auto; try (apply I2; assumption); try discriminate.
      intros _. apply I1. rewrite Hr0. discriminate.
    + intros _. simpl. rewrite Hr0 in I4. exact I4.
    + intros _. exact Hnk.
  - (* the ")" before ";" *)
    rewrite Hr0 in I3. subst w.
    pose proof (r_rt _ _ R) as Hr. unfold rt_rel in Hr. rewrite Hr0 in Hr.
    simpl. rewrite Hr0. split; [|split; [|split]].
    + destruct R. constructor; simpl; auto. unfold rt_rel.
      destruct (rt so) as [|w2|w2 dr2 d2]; try discriminate.
      * destruct Hr as [Hr|[-> [? Hr]]]; [discriminate|]. right. eauto.
      * destruct Hr as [-> [dr Hr]]. inversion Hr; subst. eauto.
    + unfold inv; simpl. repeat split; auto; try (apply I2; assumption); try discriminate.
      intros _. apply I1. rewrite Hr0. discriminate.
    + unfold side, is_fresh in *. simpl. rewrite Hr0 in Hside. exact Hside.
    + intros _. eapply nk_is_excl; [|exact Hnk]. reflexivity.
  - (* "+" removed *)
    pose proof (normal_ok c si t nk) as Sn. rewrite Ea in Sn.
    inversion Sn as [? ? ? Eb | ? ? ? ? Eb | Hin Hpe Hex Hkp Hj Eb | ? ? ? Eb]; subst.
    + simpl. split; [now apply rel_set_dp|]. split; [apply inv_set_dp; auto; discriminate|].
      split; [exact Hside|]. unfold is_fresh; simpl. intros F.
      assert (F' : is_fresh si so) by exact F. specialize (Hside F'). congruence.
    + destruct (spelling_cases c t) as [Hs|[[Hs _]|[Hs _]]]; rewrite Hs in Eb; discriminate.
Qed.

(* ---------------------------------------------------------------- tokens nothing happens to *)
Definition inert (k : kind) : bool :=
  negb (kis k KLParen || kis k KRParen || kis k KSemi || kis k KRBrace || kis k KPlus
        || kis k KElseIf || kis k KElsIf || kis k KRemove).

Lemma quiet_inert c s e nk :
  dp s = false -> opens_return s e = false -> inert (tk e) = true ->
  (inexpr (mode s) && pe s && juxt (tk e)) = false ->
  quietb c s e nk = true.
Proof.
  intros Hdp Ho Hi Hj. unfold inert in Hi. apply negb_true_iff in Hi.
  repeat (apply orb_false_iff in Hi as [Hi ?]).
  apply quiet_guards; auto.
  - now rewrite Hi.
  - unfold rt_guard. destruct (rt s) as [|[|]|w dr d]; auto.
    + now rewrite Hi.
    + match goal with H : kis (tk e) KRParen = false |- _ => rewrite H end.
      match goal with H : kis (tk e) KSemi = false |- _ => rewrite H end. reflexivity.
  - match goal with H : kis (tk e) KRBrace = false |- _ => rewrite H end. now rewrite andb_false_r.
  - match goal with H : kis (tk e) KPlus = false |- _ => rewrite H end.
    rewrite !andb_false_r, orb_false_r.
    destruct (inexpr (mode s) && pe s); simpl in *; auto. now rewrite Hj, andb_false_r.
  - apply spelling_keep; assumption.
Qed.

Lemma juxt_inert k : juxt k = true -> inert k = true.
Proof. destruct k; simpl; intros; try discriminate; reflexivity. Qed.

Lemma adv_pe_false c s e : opend (tk e) = false -> pe (adv c s e) = false.
Proof.
  intros H. unfold adv. destruct (next_mode (mode s) (pe s) e) as [m' p'] eqn:E.
  destruct (kis (tk e) KRBrace && (depth s <=? 1) || kis (tk e) KSemi && (depth s =? 0)); simpl; auto.
  unfold next_mode in E. destruct (terminator (tk e)); [inversion E; auto|].
  destruct (mode s); try (inversion E; auto; fail);
    destruct e as [k l]; destruct k; simpl in *; try discriminate; inversion E; auto;
    destruct d as [|[|d']]; inversion E; auto.
Qed.

Lemma adv_dp c s e : dp (adv c s e) = false.
Proof.
  unfold adv. destruct (next_mode (mode s) (pe s) e).
  destruct (kis (tk e) KRBrace && (depth s <=? 1) || kis (tk e) KSemi && (depth s =? 0)); reflexivity.
Qed.

(* after a token that is not "return" the state is not the one that follows "return" *)
Lemma adv_not_rwant c s e : kis (tk e) KReturn = false -> forall w, rt (adv c s e) <> RWant w.
Proof.
  intros H w. unfold adv. destruct (next_mode (mode s) (pe s) e).
  destruct (kis (tk e) KRBrace && (depth s <=? 1) || kis (tk e) KSemi && (depth s =? 0)); simpl; [discriminate|].
  rewrite H. simpl. destruct (rt s) as [|?|? ? ?]; try discriminate.
  - destruct (terminator (tk e)); discriminate.
  - destruct (terminator (tk e)); [discriminate|]. destruct (kis (tk e) KLParen); [discriminate|].
    destruct (kis (tk e) KRParen); discriminate.
Qed.

Lemma opens_return_not_rwant s e : (forall w, rt s <> RWant w) -> opens_return s e = false.
Proof. intros H. unfold opens_return. destruct (rt s) as [|w|]; auto. now destruct (H w). Qed.

(* the output run is not about to open a return value where the input run was not *)
Lemma opens_return_rel si so t e :
  rel si so -> opens_return si t = false ->
  (kis (tk t) KSemi || kis (tk t) KLParen) = false -> opens_return so e = false.
Proof.
  intros R O Hk. unfold opens_return in *. pose proof (r_rt _ _ R) as Hr. unfold rt_rel in Hr.
  destruct (rt so) as [|[|]|]; auto.
  destruct Hr as [Hr|[? _]]; [|discriminate]. rewrite Hr, Hk in O. discriminate.
Qed.

Lemma pe_not_rwant si so : inv si -> rel si so -> side si so -> pe si = true -> forall w, rt so <> RWant w.
Proof.
  intros (_ & _ & _ & I4 & _) R Hs Hpe w E.
  pose proof (r_rt _ _ R) as Hr. unfold rt_rel in Hr. rewrite E in Hr.
  destruct Hr as [Hr|[-> [dr Hr]]].
  - rewrite Hr in I4. congruence.
  - assert (F : is_fresh si so) by (unfold is_fresh; rewrite Hr, E; exact I). specialize (Hs F). congruence.
Qed.

(* ---------------------------------------------------------------- "+" inserted *)
Lemma plus_replay c si so cs t nkX :
  inv si -> rel si so -> side si so ->
  inexpr (mode si) = true -> pe si = true -> explicit_string_concat c = true -> juxt (tk t) = true ->
  quiet_seq c so [(cs, t_plus); ([], t)] nkX = true.
Proof.
  intros Hinv R Hs Hin Hpe Hex Hj.
  pose proof (pe_not_rwant _ _ Hinv R Hs Hpe) as Hnw.
  simpl. apply andb_true_iff. split; [|apply andb_true_iff; split; auto].
  - apply quiet_guards.
    + exact (r_dp _ _ R).
    + now apply opens_return_not_rwant.
    + reflexivity.
    + unfold rt_guard. destruct (rt so) as [|[|]|? ? ?]; reflexivity.
    + simpl. now rewrite andb_false_r.
    + rewrite Hex. simpl. now rewrite !andb_false_r.
    + now apply spelling_keep.
  - apply quiet_inert.
    + apply adv_dp.
    + apply opens_return_not_rwant. now apply adv_not_rwant.
    + now apply juxt_inert.
    + rewrite adv_pe_false by reflexivity. now rewrite andb_false_r.
Qed.

(* ---------------------------------------------------------------- spelling *)
Lemma replace_else_replay c si so cs t nkX :
  rel si so -> opens_return si t = false ->
  (kis (tk t) KElseIf || kis (tk t) KElsIf) = true ->
  quiet_seq c so [(cs, t_else); ([], t_if)] nkX = true.
Proof.
  intros R O Hk.
  assert (Hk' : (kis (tk t) KSemi || kis (tk t) KLParen) = false)
    by (destruct (tk t); simpl in *; try discriminate; reflexivity).
  simpl. apply andb_true_iff. split; [|apply andb_true_iff; split; auto].
  - apply quiet_inert; auto.
    + exact (r_dp _ _ R).
    + eapply opens_return_rel; eauto.
    + now rewrite andb_false_r.
  - apply quiet_inert; auto.
    + apply adv_dp.
    + apply opens_return_not_rwant. now apply adv_not_rwant.
    + rewrite adv_pe_false by reflexivity. now rewrite andb_false_r.
Qed.

Lemma replace_unset_replay c si so cs t nkX :
  rel si so -> opens_return si t = false -> kis (tk t) KRemove = true ->
  quiet_seq c so [(cs, t_unset)] nkX = true.
Proof.
  intros R O Hk.
  assert (Hk' : (kis (tk t) KSemi || kis (tk t) KLParen) = false)
    by (destruct (tk t); simpl in *; try discriminate; reflexivity).
  simpl. rewrite andb_true_r. apply quiet_inert; auto.
  - exact (r_dp _ _ R).
  - eapply opens_return_rel; eauto.
  - now rewrite andb_false_r.
Qed.

(* ---------------------------------------------------------------- "," inserted before "}" *)
Lemma comma_replay c si so a0 b0 t nkX :
  rel si so -> opens_return si t = false -> kis (tk t) KRBrace = true ->
  quiet_seq c so [(a0, t_comma); (b0, t)] nkX = true.
Proof.
  intros R O Hk.
  assert (Hks : (kis (tk t) KSemi || kis (tk t) KLParen) = false
                /\ kis (tk t) KLParen = false /\ kis (tk t) KRParen = false /\ kis (tk t) KSemi = false
                /\ kis (tk t) KPlus = false /\ juxt (tk t) = false
                /\ kis (tk t) KElseIf = false /\ kis (tk t) KElsIf = false /\ kis (tk t) KRemove = false
                /\ kis (tk t) KReturn = false)
    by (destruct (tk t); simpl in *; try discriminate; repeat split; reflexivity).
  destruct Hks as (Hk' & K1 & K2 & K3 & K4 & K5 & K6 & K7 & K8 & K9).
  simpl. apply andb_true_iff. split; [|apply andb_true_iff; split; auto].
  - apply quiet_inert; auto.
    + exact (r_dp _ _ R).
    + eapply opens_return_rel; eauto.
    + now rewrite andb_false_r.
  - apply quiet_guards.
    + apply adv_dp.
    + apply opens_return_not_rwant. now apply adv_not_rwant.
    + now rewrite K1.
    + unfold rt_guard. rewrite K1, K2, K3. destruct (rt (adv c so t_comma)) as [|[|]|? ? ?]; reflexivity.
    + assert (Hp : prev (adv c so t_comma) = KComma).
      { unfold adv. destruct (next_mode (mode so) (pe so) t_comma). reflexivity. }
      rewrite Hp. simpl. now rewrite andb_false_r.
    + rewrite K4, K5. now rewrite !andb_false_r.
    + now apply spelling_keep.
Qed.

(* ---------------------------------------------------------------- ")" inserted before ";" *)
Lemma adv_rt_rparen c s w dr d :
  rt s = RBody w dr d -> rt (adv c s t_rparen) = RBody w (dr && negb (d =? 0)) (pred d).
Proof.
  intros H. unfold adv. destruct (next_mode (mode s) (pe s) t_rparen). simpl. now rewrite H.
Qed.

Lemma close_replay c t nkX :
  kis (tk t) KSemi = true ->
  forall m so cs, dp so = false -> rt so = RBody true false (S m) ->
  quiet_seq c so ((cs, t_rparen) :: map (fun y => ([] : list com, y)) (repeat t_rparen m ++ [t])) nkX = true.
Proof.
  intros Hk.
  assert (Hks : kis (tk t) KLParen = false /\ kis (tk t) KRParen = false /\ kis (tk t) KRBrace = false
                /\ kis (tk t) KPlus = false /\ juxt (tk t) = false
                /\ kis (tk t) KElseIf = false /\ kis (tk t) KElsIf = false /\ kis (tk t) KRemove = false)
    by (destruct (tk t); simpl in *; try discriminate; repeat split; reflexivity).
  destruct Hks as (K1 & K2 & K3 & K4 & K5 & K6 & K7 & K8).
  assert (Q : forall s nk w d, dp s = false -> rt s = RBody w false d -> quietb c s t_rparen nk = true).
  { intros s nk w d Hdp Hr. apply quiet_guards.
    - exact Hdp.
    - unfold opens_return. now rewrite Hr.
    - reflexivity.
    - unfold rt_guard. rewrite Hr. simpl. now rewrite andb_false_r.
    - simpl. now rewrite andb_false_r.
    - simpl. now rewrite !andb_false_r.
    - now apply spelling_keep. }
  induction m as [|m IH]; intros so cs Hdp Hr.
  - simpl. rewrite (Q so _ true 1 Hdp Hr). simpl. rewrite andb_true_r.
    pose proof (adv_rt_rparen c so _ _ _ Hr) as Hr'. simpl in Hr'.
    apply quiet_guards.
    + apply adv_dp.
    + unfold opens_return. now rewrite Hr'.
    + now rewrite K1.
    + unfold rt_guard. rewrite Hr', K2. simpl. now rewrite andb_false_r.
    + rewrite K3. now rewrite andb_false_r.
    + rewrite K4, K5. now rewrite !andb_false_r.
    + now apply spelling_keep.
  - simpl. rewrite (Q so _ true (S (S m)) Hdp Hr). simpl.
    pose proof (adv_rt_rparen c so _ _ _ Hr) as Hr'. simpl in Hr'.
    apply (IH (adv c so t_rparen) []); [apply adv_dp | exact Hr'].
Qed.

(* ---------------------------------------------------------------- one step, replayed *)
Lemma emitted_replay c si so (E : list item) (nk : option kind) :
  inv si -> rel si so -> E <> [] ->
  rel (fold_left (adv c) (map snd E) si) (fold_left (adv c) (map snd E) so)
  /\ inv (fold_left (adv c) (map snd E) si)
  /\ side (fold_left (adv c) (map snd E) si) (fold_left (adv c) (map snd E) so)
  /\ (is_fresh (fold_left (adv c) (map snd E) si) (fold_left (adv c) (map snd E) so) -> nk_is nk KLParen = false).
Proof.
  intros Hinv R Hne.
  assert (Hne' : map snd E <> []) by (destruct E; [congruence|discriminate]).
  pose proof (fold_not_fresh c _ _ _ R Hne') as NF.
  split; [now apply rel_fold|]. split; [now apply inv_fold|].
  split; [intros F; now destruct (NF F)|]. intros F. now destruct (NF F).
Qed.

Lemma step0_replay c si so cs t nk nkX E si' carry' :
  inv si -> rel si so -> side si so ->
  (is_fresh si so -> kis (tk t) KLParen = false) ->
  opens_return si t = false ->
  step0 c si cs t nk = (E, si', carry') ->
  (kis (tk t) KLParen = true -> callhdr si = true -> nk_is nk KRParen = false -> nk_is nkX KRParen = false) ->
  (kis (tk t) KLParen = true -> rt si = RWant false -> nk_is nk KLParen = true -> nk_is nkX KLParen = true) ->
  (kis (tk t) KPlus = true -> inexpr (mode si) = true -> pe si = true -> explicit_string_concat c = false ->
   nk_juxt nk = false -> nk_juxt nkX = false) ->
  quiet_seq c so E nkX = true
  /\ rel si' (fold_left (adv c) (map snd E) so) /\ inv si'
  /\ side si' (fold_left (adv c) (map snd E) so)
  /\ (is_fresh si' (fold_left (adv c) (map snd E) so) -> nk_is nk KLParen = false).
Proof.
  intros Hinv R Hs Hf O Hstep C2 C4 C9.
  unfold step0 in Hstep.
  destruct (decide c si t nk) as [|p|x|x|n|ts] eqn:D.
  - (* kept *)
    simpl in Hstep. inversion Hstep; subst. clear Hstep.
    split; [|apply (emitted_replay c si so [(cs, t)] nk); auto; discriminate].
    simpl. rewrite andb_true_r. eapply keep_transfer; eauto.
  - (* removed *)
    simpl in Hstep. inversion Hstep; subst. clear Hstep. simpl.
    destruct (drop_replay c si so t nk p Hinv R Hs D) as (A & B & C' & D').
    split; [reflexivity|]. split; [exact A|]. split; [exact B|]. split; [exact C'|exact D'].
  - (* a token inserted before: "+", or ")" ... *)
    simpl in Hstep. inversion Hstep; subst. clear Hstep.
    split; [|apply (emitted_replay c si so [(cs, x); ([], t)] nk); auto; discriminate].
    pose proof (decide_ok c si t nk) as S. rewrite D in S.
    inversion S as [| | | | |G0 G1 G2 Ea].
    pose proof (normal_ok c si t nk) as Sn. rewrite Ea in Sn.
    inversion Sn as [| Hin Hpe Hex Hj Eb | |? ? ? Eb]; subst.
    + now apply plus_replay with (si := si).
    + destruct (spelling_cases c t) as [Hsp|[[Hsp _]|[Hsp _]]]; rewrite Hsp in Eb; discriminate.
  - (* "," *)
    simpl in Hstep. destruct (split_lf0 cs) as [a0 b0]. inversion Hstep; subst. clear Hstep.
    split; [|apply (emitted_replay c si so [(a0, x); (b0, t)] nk); auto; discriminate].
    pose proof (decide_ok c si t nk) as S. rewrite D in S.
    inversion S as [| | | | |G0 G1 G2 Ea].
    pose proof (normal_ok c si t nk) as Sn. rewrite Ea in Sn.
    inversion Sn as [Htb Hk Hp Eb | | |? ? ? Eb]; subst.
    + now apply comma_replay with (si := si).
    + destruct (spelling_cases c t) as [Hsp|[[Hsp _]|[Hsp _]]]; rewrite Hsp in Eb; discriminate.
  - (* ")" ... ";" *)
    pose proof (decide_ok c si t nk) as S. rewrite D in S.
    inversion S as [| | | |dr d Hr0 Hd Hk Ea|G0 G1 G2 Ea].
    + subst n. destruct d as [|m]; [lia|]. simpl in Hstep. inversion Hstep; subst. clear Hstep.
      split; [|apply (emitted_replay c si so ((cs, t_rparen) :: map (fun y => ([], y)) (repeat t_rparen m ++ [t])) nk); auto; discriminate].
      apply close_replay; auto; [exact (r_dp _ _ R)|].
      pose proof (r_rt _ _ R) as Hr. unfold rt_rel in Hr. rewrite Hr0 in Hr.
      destruct (rt so) as [|w2|w2 dr2 d2]; try discriminate.
      * destruct Hr as [Hr|[_ [? Hr]]]; discriminate.
      * destruct Hr as [-> [? Hr]]. inversion Hr; subst. reflexivity.
    + pose proof (normal_ok c si t nk) as Sn. rewrite Ea in Sn.
      inversion Sn as [| | |? ? ? Eb].
      destruct (spelling_cases c t) as [Hsp|[[Hsp _]|[Hsp _]]]; rewrite Hsp in Eb; discriminate.
  - (* respelled *)
    pose proof (decide_ok c si t nk) as S. rewrite D in S.
    inversion S as [| | | | |G0 G1 G2 Ea].
    pose proof (normal_ok c si t nk) as Sn. rewrite Ea in Sn.
    inversion Sn as [| | |? ? ? Eb].
    destruct (spelling_cases c t) as [Hsp|[[Hsp [_ Hk]]|[Hsp [_ Hk]]]]; rewrite Hsp in Eb; try discriminate;
      inversion Eb; subst ts; simpl in Hstep; inversion Hstep; subst; clear Hstep.
    + split; [|apply (emitted_replay c si so [(cs, t_else); ([], t_if)] nk); auto; discriminate].
      now apply replace_else_replay with (si := si) (t := t).
    + split; [|apply (emitted_replay c si so [(cs, t_unset)] nk); auto; discriminate].
      now apply replace_unset_replay with (si := si) (t := t).
Qed.
