(* C14 core, part 5: [norm] is idempotent (declarations not sorted). *)
From Coq Require Import List Bool NArith Arith Lia.
From Falco Require Import Base.Bytes Model.FmtTok Model.FmtNorm
  Proofs.FmtComments Proofs.FmtRestyle Proofs.FmtIdem1 Proofs.FmtIdem2 Proofs.FmtIdem3 Proofs.FmtIdem4.
Import ListNotations.

(* stream -> items -> stream -> items *)
Lemma to_items_app_C : forall (cs : list com) acc ts,
  to_items acc (map Cm cs ++ ts) = to_items (rev cs ++ acc) ts.
Proof.
  induction cs as [|x r IH]; intros acc ts; simpl; auto.
  rewrite IH. now rewrite <- app_assoc.
Qed.

Lemma to_items_mapC : forall (cs : list com) acc, to_items acc (map Cm cs) = ([], rev acc ++ cs).
Proof.
  induction cs as [|x r IH]; intros acc; simpl.
  - now rewrite app_nil_r.
  - rewrite IH. simpl. now rewrite <- app_assoc.
Qed.

Lemma to_items_of_items : forall its tail, to_items [] (of_items its tail) = (its, tail).
Proof.
  unfold of_items. induction its as [|[cs t] r IH]; intros tail; simpl.
  - now rewrite to_items_mapC.
  - unfold of_item at 1. simpl. rewrite <- !app_assoc. rewrite to_items_app_C. simpl.
    rewrite IH. now rewrite app_nil_r, rev_involutive.
Qed.

(* comments that are already restyled *)
Definition styled (c : fmt_config) (x : com) : Prop := restyle c x = x.

Lemma styled_restyle c x : styled c (restyle c x).
Proof. apply restyle_idem. Qed.

Lemma map_restyle_styled c l : Forall (styled c) l -> map (restyle c) l = l.
Proof. induction 1; simpl; auto. now rewrite H, IHForall. Qed.

Lemma restyle_items_styled c its :
  Forall (styled c) (item_comments its) -> map (restyle_item c) its = its.
Proof.
  induction its as [|[cs t] r IH]; simpl; auto.
  unfold item_comments. simpl. intros H. apply Forall_app in H as [H1 H2].
  unfold restyle_item at 1. simpl. rewrite (map_restyle_styled c cs H1). now rewrite (IH H2).
Qed.

Lemma split_lf0_all cs : Forall (fun x => clf x = false) cs -> split_lf0 cs = (cs, []).
Proof.
  induction 1 as [|x r Hx Hr IH]; simpl; auto. rewrite Hx, IH. reflexivity.
Qed.

Lemma keep_tail_idem out t tr rest : keep_tail out t = (tr, rest) -> keep_tail out tr = (tr, []).
Proof.
  destruct out as [|o1 out]; simpl.
  - intros E; inversion E; subst. reflexivity.
  - intros E. pose proof (split_lf0_fst_lf0 t) as H. rewrite E in H. simpl in H. now apply split_lf0_all.
Qed.

Theorem norm_idem_unsorted c ts :
  sort_declaration c = false -> norm c (norm c ts) = norm c ts.
Proof.
  intros Hsd. remember (norm c ts) as n eqn:Hn.
  unfold norm, norm_items in Hn.
  destruct (to_items [] ts) as [its tail].
  destruct (run c st0 [] (map (restyle_item c) its)) as [out tl1] eqn:Er.
  pose proof (keep_tail_app out (tl1 ++ map (restyle c) tail)) as Hsp.
  pose proof (keep_tail_fst_lf0 out (tl1 ++ map (restyle c) tail)) as Hlf.
  destruct (keep_tail out (tl1 ++ map (restyle c) tail)) as [tr rest] eqn:Ek. simpl in Hsp, Hlf.
  (* every comment of the result is restyled *)
  assert (Hst : Forall (styled c) (item_comments out ++ tl1)).
  { pose proof (run_comments c _ _ _ _ _ Er) as Hc. simpl in Hc. rewrite Hc, item_comments_restyle.
    apply Forall_forall. intros x Hx. apply in_map_iff in Hx as [y [<- _]]. apply styled_restyle. }
  apply Forall_app in Hst as [Hst1 Hst2].
  assert (Hst3 : Forall (styled c) (tr ++ rest)).
  { rewrite Hsp. apply Forall_app. split; auto.
    apply Forall_forall. intros x Hx. apply in_map_iff in Hx as [y [<- _]]. apply styled_restyle. }
  assert (Hres : (let (gs0, rest0) := chunks 0 [] out in
                  match rest0 with
                  | _ :: _ => (out, tr ++ rest)
                  | [] => if sort_declaration c
                          then let (o, t) := join_groups [] true (sort_groups (detach gs0 tr)) in (o, t ++ rest)
                          else (out, tr ++ rest)
                  end) = (out, tr ++ rest)).
  { destruct (chunks 0 [] out) as [gs0 rest0]. destruct rest0; auto. now rewrite Hsd. }
  rewrite Hres in Hn. subst n.
  (* second application: the tail is read again as it was split *)
  unfold norm. rewrite to_items_of_items. unfold norm_items.
  rewrite (restyle_items_styled c out Hst1).
  rewrite (run_replay c _ st0 st0 [] out tl1 inv_st0 rel_st0 ltac:(intros F; destruct F) ltac:(intros F; destruct F) Er).
  simpl app. rewrite (map_restyle_styled c (tr ++ rest) Hst3). rewrite Hsp, Ek.
  rewrite Hres, Hsp. reflexivity.
Qed.
