(* C11 - the result of inferSubroutineScopes is the least fixpoint of the propagation
   constraints above the initial scopes, whatever key order each round uses. *)
From Coq Require Import List Arith Bool NArith Lia.
From Falco Require Import Base.Res Model.ScopeInfer.
Import ListNotations.

(* ---- the subset order on bit masks *)
Definition sub (a b : N) : Prop := N.lor a b = b.

Lemma sub_refl a : sub a a.
Proof. apply N.lor_diag. Qed.
Lemma sub_trans a b c : sub a b -> sub b c -> sub a c.
Proof. unfold sub. intros H1 H2. rewrite <- H2, N.lor_assoc, H1. reflexivity. Qed.
Lemma sub_antisym a b : sub a b -> sub b a -> a = b.
Proof. unfold sub. intros H1 H2. rewrite <- H2, N.lor_comm. exact H1. Qed.
Lemma sub_lor_l a b : sub a (N.lor a b).
Proof. unfold sub. rewrite N.lor_assoc, N.lor_diag. reflexivity. Qed.
Lemma sub_lor_r a b : sub b (N.lor a b).
Proof. rewrite N.lor_comm. apply sub_lor_l. Qed.
Lemma sub_lub a b c : sub a c -> sub b c -> sub (N.lor a b) c.
Proof. unfold sub. intros H1 H2. rewrite <- N.lor_assoc, H2. exact H1. Qed.
Lemma sub_zero a : sub 0 a.
Proof. reflexivity. Qed.

Definition le (s t : state) : Prop := forall n, sub (s n) (t n).
Lemma le_refl s : le s s.
Proof. intro n. apply sub_refl. Qed.
Lemma le_trans s t u : le s t -> le t u -> le s u.
Proof. intros H1 H2 n. eapply sub_trans; eauto. Qed.

Lemma upd_same s k v : upd s k v k = v.
Proof. unfold upd. rewrite Nat.eqb_refl. reflexivity. Qed.
Lemma upd_other s k v x : x <> k -> upd s k v x = s x.
Proof. unfold upd. intros H. apply Nat.eqb_neq in H. rewrite H. reflexivity. Qed.

Lemma fold_left_rel {A B} (f : A -> B -> A) (R : A -> A -> Prop) (P : B -> Prop) :
  (forall a, R a a) -> (forall a b c, R a b -> R b c -> R a c) ->
  (forall a b, P b -> R a (f a b)) ->
  forall l a, Forall P l -> R a (fold_left f l a).
Proof.
  intros Rr Rt Rs. induction l as [|b l IH]; intros a HP; cbn; [apply Rr|].
  inversion HP; subst. eapply Rt; [apply Rs; eassumption | apply IH; assumption].
Qed.

Section Lfp.
Variable present explicit : name -> bool.
Variable callees : name -> list name.

Notation stepc := (step_callee present explicit).
Notation stepr := (step_caller present explicit callees).
Notation round' := (round present explicit callees).
Notation infer' := (infer present explicit callees).

(* the constraint system: a present caller's scopes flow into every present, non-explicit callee *)
Definition closed (t : state) : Prop :=
  forall a b, present a = true -> In b (callees a) -> explicit b = false -> present b = true ->
              sub (t a) (t b).

Definition is_lfp (s0 r : state) : Prop :=
  le s0 r /\ closed r /\ forall t, le s0 t -> closed t -> le r t.

Lemma lfp_unique s0 r r' : is_lfp s0 r -> is_lfp s0 r' -> forall n, r n = r' n.
Proof.
  intros (L1 & C1 & M1) (L2 & C2 & M2) n.
  apply sub_antisym; [apply M1 | apply M2]; assumption.
Qed.

(* ---- one inner step *)
Lemma step_callee_spec c s ch b :
  (stepc c (s, ch) b = (s, ch) /\
   (explicit b = false -> present b = true -> sub (s c) (s b)))
  \/
  (stepc c (s, ch) b = (upd s b (N.lor (s b) (s c)), true) /\
   explicit b = false /\ present b = true /\ N.lor (s b) (s c) <> s b).
Proof.
  unfold step_callee.
  destruct (explicit b) eqn:E; [left; split; [reflexivity|discriminate]|].
  destruct (present b) eqn:P; cbn [negb]; [|left; split; [reflexivity|discriminate]].
  destruct (N.eqb (N.lor (s b) (s c)) (s b)) eqn:Q.
  - apply N.eqb_eq in Q. left. split; [reflexivity|]. intros _ _. unfold sub. rewrite N.lor_comm. exact Q.
  - apply N.eqb_neq in Q. right. auto.
Qed.

(* relation kept by every step: the state only grows, stays below every closed upper bound,
   and the changed flag is sticky *)
Definition R (t : state) (pc : Prop) (x y : state * bool) : Prop :=
  le (fst x) (fst y) /\ (snd x = true -> snd y = true) /\
  (pc -> le (fst x) t -> closed t -> le (fst y) t).

Lemma R_refl t pc x : R t pc x x.
Proof. repeat split; auto using le_refl. Qed.
Lemma R_trans t pc x y z : R t pc x y -> R t pc y z -> R t pc x z.
Proof.
  intros (A1 & B1 & C1) (A2 & B2 & C2). repeat split.
  - eapply le_trans; eauto.
  - auto.
  - intros. apply C2; auto.
Qed.

Lemma step_callee_R t c x b :
  In b (callees c) -> R t (present c = true) x (stepc c x b).
Proof.
  intros Hb. destruct x as [s ch].
  destruct (step_callee_spec c s ch b) as [[E _] | (E & Eb & Pb & Hne)]; rewrite E.
  - apply R_refl.
  - repeat split; cbn [fst snd].
    + intro n. destruct (Nat.eq_dec n b) as [->|Hn].
      * rewrite upd_same. apply sub_lor_l.
      * rewrite upd_other by assumption. apply sub_refl.
    + intros Pc Hle Hcl n. destruct (Nat.eq_dec n b) as [->|Hn].
      * rewrite upd_same. apply sub_lub; [apply Hle|].
        eapply sub_trans; [apply Hle|]. apply Hcl; assumption.
      * rewrite upd_other by assumption. apply Hle.
Qed.

Lemma step_caller_R t x c : R t True x (stepr x c).
Proof.
  destruct x as [s ch]. unfold step_caller.
  destruct (present c) eqn:Pc; cbn [negb orb]; [|apply R_refl].
  destruct (N.eqb (s c) 0); [apply R_refl|].
  assert (H : R t (true = true) (s, ch) (fold_left (stepc c) (callees c) (s, ch))).
  { apply fold_left_rel with (P := fun b => In b (callees c)).
    - apply R_refl.
    - apply R_trans.
    - intros a b Hb. pose proof (step_callee_R t c a b Hb) as H. rewrite Pc in H. exact H.
    - apply Forall_forall. auto. }
  destruct H as (A & B & C). repeat split; auto.
Qed.

Lemma round_R t order s : R t True (s, false) (round' order s).
Proof.
  unfold round. apply fold_left_rel with (P := fun _ => True).
  - apply R_refl.
  - apply R_trans.
  - intros a b _. apply step_caller_R.
  - apply Forall_forall. auto.
Qed.

(* ---- a round that reports no change did not change anything, and every constraint it looked
        at holds in that (unchanged) state *)
Lemma sticky_inner c l s : snd (fold_left (stepc c) l (s, true)) = true.
Proof.
  revert s. induction l as [|b l IH]; intros s; cbn [fold_left]; [reflexivity|].
  destruct (step_callee_spec c s true b) as [[E _] | (E & _)]; rewrite E; apply IH.
Qed.

Lemma inner_nochange c l s s' :
  fold_left (stepc c) l (s, false) = (s', false) ->
  s' = s /\ forall b, In b l -> explicit b = false -> present b = true -> sub (s c) (s b).
Proof.
  revert s'. induction l as [|b l IH]; intros s' H; cbn [fold_left] in H.
  - inversion H. split; [reflexivity | intros b []].
  - destruct (step_callee_spec c s false b) as [[E Hb] | (E & _)]; rewrite E in H.
    + destruct (IH _ H) as [-> Hl]. split; [reflexivity|].
      intros b' [<-|Hin]; auto.
    + pose proof (sticky_inner c l (upd s b (N.lor (s b) (s c)))) as St.
      rewrite H in St. discriminate.
Qed.

Lemma sticky_outer l s : snd (fold_left stepr l (s, true)) = true.
Proof.
  revert s. induction l as [|c l IH]; intros s; cbn [fold_left]; [reflexivity|].
  destruct (stepr (s, true) c) as [s1 ch1] eqn:E.
  destruct (step_caller_R (fun _ => 0%N) (s, true) c) as (_ & B & _). rewrite E in B. cbn in B.
  rewrite B by reflexivity. apply IH.
Qed.

Definition holds_at (s : state) (a : name) : Prop :=
  present a = true -> forall b, In b (callees a) -> explicit b = false -> present b = true ->
  sub (s a) (s b).

Lemma caller_nochange s c s' :
  stepr (s, false) c = (s', false) -> s' = s /\ holds_at s c.
Proof.
  unfold step_caller, holds_at.
  destruct (present c) eqn:Pc; cbn [negb orb].
  - destruct (N.eqb (s c) 0) eqn:Z.
    + intros H. injection H as <-. split; [reflexivity|]. intros _ b _ _ _.
      apply N.eqb_eq in Z. rewrite Z. apply sub_zero.
    + intros H. destruct (inner_nochange _ _ _ _ H) as [-> Hl]. split; [reflexivity|]. auto.
  - intros H. injection H as <-. split; [reflexivity|discriminate].
Qed.

Lemma outer_nochange l s s' :
  fold_left stepr l (s, false) = (s', false) -> s' = s /\ forall a, In a l -> holds_at s a.
Proof.
  revert s'. induction l as [|c l IH]; intros s' H; cbn [fold_left] in H.
  - inversion H. split; [reflexivity | intros a []].
  - destruct (stepr (s, false) c) as [s1 [|]] eqn:E.
    + pose proof (sticky_outer l s1) as St. rewrite H in St. discriminate.
    + destruct (caller_nochange _ _ _ E) as [-> Hc].
      destruct (IH _ H) as [-> Hl]. split; [reflexivity|].
      intros a [<-|Hin]; auto.
Qed.

(* every name that has callees is enumerated by the round *)
Definition covers (order : list name) : Prop := forall a, callees a <> [] -> In a order.

Lemma nochange_closed order s s' :
  covers order -> round' order s = (s', false) -> s' = s /\ closed s.
Proof.
  intros Hc H. destruct (outer_nochange _ _ _ H) as [-> Hl]. split; [reflexivity|].
  intros a b Pa Hb Eb Pb. apply (Hl a); auto.
  apply Hc. intro E. rewrite E in Hb. destruct Hb.
Qed.

Theorem infer_is_lfp :
  forall fuel orders i s0 r,
    (forall j, covers (orders j)) ->
    infer' fuel orders i s0 = OK r -> is_lfp s0 r.
Proof.
  induction fuel as [|f IH]; intros orders i s0 r Hc H; [discriminate|].
  cbn [infer] in H.
  destruct (round' (orders i) s0) as [s1 ch] eqn:E.
  destruct ch.
  - destruct (IH _ _ _ _ Hc H) as (L & C & M).
    assert (Hr : forall t, R t True (s0, false) (s1, true)) by (intro t; rewrite <- E; apply round_R).
    repeat split.
    + destruct (Hr s0) as (A & _). eapply le_trans; [exact A | exact L].
    + exact C.
    + intros t Lt Ct. apply M; [|exact Ct].
      destruct (Hr t) as (_ & _ & B). apply B; auto.
  - injection H as ->. destruct (nochange_closed _ _ _ (Hc i) E) as [-> Hcl].
    repeat split; auto using le_refl.
Qed.

(* the result does not depend on the key orders the runtime picked (nor on the fuel) *)
Theorem infer_order_free :
  forall fuel fuel' orders orders' i i' s0 r r',
    (forall j, covers (orders j)) -> (forall j, covers (orders' j)) ->
    infer' fuel orders i s0 = OK r -> infer' fuel' orders' i' s0 = OK r' ->
    forall n, r n = r' n.
Proof.
  intros fuel fuel' orders orders' i i' s0 r r' Hc Hc' H H'.
  apply (lfp_unique s0); [eapply infer_is_lfp; [exact Hc | exact H] | eapply infer_is_lfp; [exact Hc' | exact H']].
Qed.
End Lfp.
