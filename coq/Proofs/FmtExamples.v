(* Non-vacuity: concrete streams on which every rewrite of the model fires (vm_compute). *)
From Coq Require Import List Bool NArith Strings.String.
From Falco Require Import Base.Bytes Model.FmtTok Model.FmtNorm.
Import ListNotations.
Local Open Scope string_scope.

Definition T (k : kind) (s : string) : elt := Sig (Tok k (bs s)).
Definition CM (lf : bool) (s : string) : elt := Cm (Com lf (bs s)).
Definition asg := KAssign (bs "ASSIGN").

(* # lead
   sub vcl_recv {
     set req.http.X = "a" /* c1 */ "b" req.http.Y;   // t1
     if (req.http.A) { } elsif (req.http.B) { }
     remove req.http.Z;
     return lookup;
     call f();
   }
   table t { "k": "v" }
   // eof *)
Definition ex_src : list elt :=
  [ CM true "# lead"; T KSub "sub"; T KIdent "vcl_recv"; T KLBrace "{";
    T KSet "set"; T KIdent "req.http.X"; T asg "="; T KString "a"; CM false "/* c1 */"; T KString "b";
    T KIdent "req.http.Y"; T KSemi ";"; CM false "// t1";
    T KIf "if"; T KLParen "("; T KIdent "req.http.A"; T KRParen ")"; T KLBrace "{"; T KRBrace "}";
    T KElsIf "elsif"; T KLParen "("; T KIdent "req.http.B"; T KRParen ")"; T KLBrace "{"; T KRBrace "}";
    T KRemove "remove"; T KIdent "req.http.Z"; T KSemi ";";
    T KReturn "return"; T KIdent "lookup"; T KSemi ";";
    T KCall "call"; T KIdent "f"; T KLParen "("; T KRParen ")"; T KSemi ";";
    T KRBrace "}";
    T KTable "table"; T KIdent "t"; T KLBrace "{"; T KString "k"; T KColon ":"; T KString "v"; T KRBrace "}";
    CM true "// eof" ].

Definition ex_conf : fmt_config :=
  FmtConfig 2 1 ISpace (Some 120%N) true false false true false true true false CSharp true false true.

Definition ex_out : list elt :=
  [ T KTable "table"; T KIdent "t"; T KLBrace "{"; T KString "k"; T KColon ":"; T KString "v"; T KComma ","; T KRBrace "}";
    CM true "# lead"; T KSub "sub"; T KIdent "vcl_recv"; T KLBrace "{";
    T KSet "set"; T KIdent "req.http.X"; T asg "="; T KString "a"; CM false "/* c1 */"; T KPlus "+"; T KString "b";
    T KPlus "+"; T KIdent "req.http.Y"; T KSemi ";"; CM false "## t1";
    T KIf "if"; T KLParen "("; T KIdent "req.http.A"; T KRParen ")"; T KLBrace "{"; T KRBrace "}";
    T KElse "else"; T KIf "if"; T KLParen "("; T KIdent "req.http.B"; T KRParen ")"; T KLBrace "{"; T KRBrace "}";
    T KUnset "unset"; T KIdent "req.http.Z"; T KSemi ";";
    T KReturn "return"; T KLParen "("; T KIdent "lookup"; T KRParen ")"; T KSemi ";";
    T KCall "call"; T KIdent "f"; T KSemi ";";
    T KRBrace "}"; CM true "## eof" ].

Example ex_norm : norm ex_conf ex_src = ex_out.
Proof. vm_compute. reflexivity. Qed.

Example ex_norm_idem : norm ex_conf (norm ex_conf ex_src) = norm ex_conf ex_src.
Proof. vm_compute. reflexivity. Qed.

(* the opposite settings: "+" removed where the right operand can be juxtaposed (kept before 1),
   parentheses of return removed, spellings kept *)
Definition ex_conf2 : fmt_config :=
  FmtConfig 2 1 ISpace (Some 120%N) false false false false false false false false CSlash false false true.
Definition ex_src2 : list elt :=
  [ T KSub "sub"; T KIdent "f"; T KLBrace "{";
    T KLog "log"; T KString "a"; T KPlus "+"; T KIdent "b"; T KPlus "+"; T KInt "1"; T KSemi ";";
    CM true "# c"; CM true "#FASTLY recv";
    T KReturn "return"; T KLParen "("; T KIdent "pass"; T KRParen ")"; T KSemi ";";
    T KRBrace "}" ].
Example ex_norm2 : norm ex_conf2 ex_src2 =
  [ T KSub "sub"; T KIdent "f"; T KLBrace "{";
    T KLog "log"; T KString "a"; T KIdent "b"; T KPlus "+"; T KInt "1"; T KSemi ";";
    CM true "// c"; CM true "#FASTLY recv";
    T KReturn "return"; T KIdent "pass"; T KSemi ";";
    T KRBrace "}" ].
Proof. vm_compute. reflexivity. Qed.
