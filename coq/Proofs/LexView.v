(* The cursor invariant of the lexer: how (ch, rest, line, idx) of Model/Lex.v relate to the
   decoded input and to the positions of Model/LexSpec.v, and how the reader primitives and
   loops move the cursor.  Used by Proofs/LexLocated.v. *)
From Coq Require Import List NArith Bool Lia Arith.
From Falco Require Import Base.Res Base.Bytes Base.Utf8 Gen.Tokens Model.Lex Model.LexSpec
  Proofs.LexProgress.
Import ListNotations.
Local Open Scope N_scope.

(* ---- dec_all ---- *)
Lemma dec_all_fuel_irrel : forall n m bs, (length bs <= n)%nat -> (length bs <= m)%nat ->
  dec_all_fuel n bs = dec_all_fuel m bs.
Proof.
  induction n as [|n IH]; intros m bs Hn Hm.
  - destruct bs; [destruct m; reflexivity|cbn in Hn; lia].
  - destruct bs as [|b t]; [destruct m; reflexivity|].
    destruct m as [|m]; [cbn in Hm; lia|].
    cbn [dec_all_fuel]. destruct (dec_rune (b :: t)) as [r sz] eqn:D.
    pose proof (dec_rune_size _ _ _ D) as Hs. cbn [length] in Hn, Hm.
    f_equal. apply IH; rewrite skipn_length; cbn [length]; lia.
Qed.

Lemma dec_all_fuel_enough n bs : (length bs <= n)%nat ->
  dec_all_fuel n bs = dec_all_fuel (length bs) bs.
Proof. intros H. apply dec_all_fuel_irrel; [exact H|apply Nat.le_refl]. Qed.

Lemma dec_all_nil : dec_all [] = [].
Proof. reflexivity. Qed.

Lemma dec_all_cons b t :
  dec_all (b :: t) =
  fst (dec_rune (b :: t)) :: dec_all (skipn (snd (dec_rune (b :: t))) (b :: t)).
Proof.
  unfold dec_all. cbn [length dec_all_fuel].
  destruct (dec_rune (b :: t)) as [r sz] eqn:D. cbn [fst snd].
  pose proof (dec_rune_size _ _ _ D) as Hs.
  f_equal. apply dec_all_fuel_enough. rewrite skipn_length. cbn [length]. lia.
Qed.

Lemma dec_all_nil_inv bs : dec_all bs = [] -> bs = [].
Proof. destruct bs; [reflexivity|]. rewrite dec_all_cons. discriminate. Qed.

Definition ascii (b : byte) : Prop := b2n b < 128.

Lemma dec_rune_ascii b t : ascii b -> dec_rune (b :: t) = (b2n b, 1%nat).
Proof. unfold ascii, dec_rune. intros H. apply N.ltb_lt in H. rewrite H. reflexivity. Qed.

Lemma dec_all_ascii_app : forall d tl, Forall ascii d -> dec_all (d ++ tl) = map b2n d ++ dec_all tl.
Proof.
  induction d as [|b d IH]; intros tl H; [reflexivity|].
  inversion H; subst. cbn [app]. rewrite dec_all_cons, dec_rune_ascii by assumption.
  cbn [fst snd skipn map app]. f_equal. apply IH. assumption.
Qed.

(* ---- positions ---- *)
Lemma end_pos_snoc pre c : end_pos (pre ++ [c]) = advance (end_pos pre) c.
Proof. unfold end_pos. rewrite fold_left_app. reflexivity. Qed.

Lemma eof_pos_snoc pre c :
  eof_pos (pre ++ [c]) = (fst (end_pos pre), snd (end_pos pre) + 1).
Proof. unfold eof_pos. rewrite rev_app_distr. cbn [rev app]. rewrite rev_involutive. reflexivity. Qed.

Lemma end_pos_nolf : forall l pre, Forall (fun r => r <> 10) l ->
  end_pos (pre ++ l) = (fst (end_pos pre), snd (end_pos pre) + N.of_nat (length l)).
Proof.
  induction l as [|r l IH]; intros pre H.
  - rewrite app_nil_r. cbn. rewrite N.add_0_r. destruct (end_pos pre); reflexivity.
  - inversion H; subst.
    replace (pre ++ r :: l) with ((pre ++ [r]) ++ l) by (rewrite <- app_assoc; reflexivity).
    rewrite IH by assumption. rewrite end_pos_snoc. unfold advance.
    apply N.eqb_neq in H2. rewrite H2. cbn [fst snd length]. f_equal. lia.
Qed.

(* ---- the cursor ---- *)
(* [pre] = the runes before the cursor, [txt] = the runes from the cursor on *)
Definition view (rs : list rune) (st : lexer) (pre txt : list rune) : Prop :=
  rs = pre ++ txt /\
  match txt with
  | [] => rest st = [] /\ ch st = 0 /\ (line st, idx st) = eof_pos rs
  | c :: suf => ch st = c /\ dec_all (rest st) = suf /\ (line st, idx st) = end_pos pre
  end.

Definition cur (rs : list rune) (st : lexer) : Prop := exists pre txt, view rs st pre txt.

Lemma read_char_view rs st pre c suf :
  view rs st pre (c :: suf) -> view rs (read_char st) (pre ++ [c]) suf.
Proof.
  intros [Hrs (Hc & Hd & Hp)]. unfold view. split; [rewrite <- app_assoc; exact Hrs|].
  unfold read_char. destruct (rest st) as [|b t] eqn:E.
  - rewrite dec_all_nil in Hd. subst suf. cbn [rest ch line idx].
    repeat split. rewrite Hrs, eof_pos_snoc.
    rewrite <- Hp. reflexivity.
  - rewrite dec_all_cons in Hd. destruct (dec_rune (b :: t)) as [r sz] eqn:D.
    cbn [fst snd] in Hd. subst suf. cbn [rest ch line idx].
    repeat split. rewrite end_pos_snoc, <- Hp. unfold advance. rewrite Hc.
    destruct (c =? 10); reflexivity.
Qed.

Lemma view_nil_ch rs st pre : view rs st pre [] -> ch st = 0.
Proof. intros [_ (_ & H & _)]. exact H. Qed.

Lemma view_cons_ch rs st pre c suf : view rs st pre (c :: suf) -> ch st = c.
Proof. intros [_ (H & _)]. exact H. Qed.

(* only the LF test of readChar looks at the character under the cursor *)
Definition set_ch (st : lexer) (c : rune) : lexer :=
  mkLx c (rest st) (line st) (idx st) (peeks st) (iseof st) (eoftok st).

Lemma read_char_set_ch st c : ch st <> 10 -> c <> 10 -> read_char (set_ch st c) = read_char st.
Proof.
  intros H1 H2. unfold read_char, set_ch. cbn [rest ch line idx peeks iseof eoftok].
  destruct (rest st); [reflexivity|].
  apply N.eqb_neq in H1, H2. rewrite H1, H2. reflexivity.
Qed.

(* peekChar *)
Lemma peek_ascii rs st pre c suf k :
  view rs st pre (c :: suf) -> peek_char st = k -> k <> 0 -> k < 128 ->
  exists suf', suf = k :: suf'.
Proof.
  intros V Hk Hz Hlt. destruct V as [_ V]. destruct V as (_ & Hd & _).
  unfold peek_char in Hk. destruct (rest st) as [|b t] eqn:E; [congruence|].
  rewrite dec_all_cons in Hd.
  assert (A : ascii b) by (unfold ascii; rewrite Hk; exact Hlt).
  rewrite (dec_rune_ascii b t A) in Hd. cbn [fst snd] in Hd.
  rewrite Hk in Hd. eauto.
Qed.

Lemma peek_nonzero_suf rs st pre c suf :
  view rs st pre (c :: suf) -> peek_char st <> 0 -> suf <> [].
Proof.
  intros [_ (_ & Hd & _)] Hk Hs. rewrite Hs in Hd. apply dec_all_nil_inv in Hd.
  unfold peek_char in Hk. rewrite Hd in Hk. congruence.
Qed.

(* finish: the cursor stays a cursor *)
Lemma finish_cur rs t st1 t' st' :
  cur rs st1 -> finish t st1 = OK (t', st') -> t' = t /\ cur rs st'.
Proof.
  intros (pre & txt & V) F. unfold finish in F. injection F as <- <-. split; [reflexivity|].
  destruct txt as [|c suf].
  - rewrite (view_nil_ch _ _ _ V). cbn. exists pre, []. exact V.
  - destruct (ch st1 =? 0).
    + exists pre, (c :: suf). exact V.
    + eexists _, _. apply read_char_view. exact V.
Qed.

(* ---- loops: where the cursor is afterwards, and that the literal is the text passed over ---- *)
Lemma read_while_view rs p (Hp : nz p) : forall n st pre txt l st',
  view rs st pre txt -> read_while p n st = OK (l, st') ->
  exists txt', txt = l ++ txt' /\ view rs st' (pre ++ l) txt'.
Proof.
  induction n as [|n IH]; intros st pre txt l st' V R; [discriminate|].
  cbn [read_while] in R. destruct (p (ch st)) eqn:E.
  - destruct txt as [|c suf].
    + exfalso. apply (Hp _ E). exact (view_nil_ch _ _ _ V).
    + pose proof (view_cons_ch _ _ _ _ _ V) as Hc.
      destruct (read_while p n (read_char st)) as [[l1 s1]| | |] eqn:R1; cbn in R; try discriminate.
      injection R as <- <-.
      destruct (IH _ _ _ _ _ (read_char_view _ _ _ _ _ V) R1) as (txt' & -> & V').
      exists txt'. rewrite Hc. split; [reflexivity|].
      rewrite <- app_assoc in V'. exact V'.
  - injection R as <- <-. exists txt. rewrite app_nil_r. auto.
Qed.

Definition pfx (l txt : list rune) : Prop := exists r, txt = l ++ r.

Lemma pfx_refl_nil txt : pfx [] txt.
Proof. exists txt. reflexivity. Qed.

Lemma pfx_cons c l txt : pfx l txt -> pfx (c :: l) (c :: txt).
Proof. intros [r ->]. exists r. reflexivity. Qed.

Lemma view_at_text rs st pre txt l :
  view rs st pre txt -> txt <> [] -> pfx l txt -> at_text rs (line st, idx st) l.
Proof.
  intros [Hrs V] Hne [r Hr]. destruct txt as [|c suf]; [congruence|].
  destruct V as (_ & _ & Hp). exists pre, r. split; [rewrite Hrs, Hr; reflexivity|auto].
Qed.

(* readEOL: the literal is the text from the cursor on; afterwards the cursor is on its last rune *)
Lemma read_eol_view rs : forall n st pre c suf l st',
  view rs st pre (c :: suf) -> read_eol n st = OK (l, st') ->
  pfx l (c :: suf) /\ l <> [] /\ cur rs st'.
Proof.
  induction n as [|n IH]; intros st pre c suf l st' V R; [discriminate|].
  cbn [read_eol] in R. pose proof (view_cons_ch _ _ _ _ _ V) as Hc.
  destruct ((peek_char st =? 0) || (peek_char st =? 10)) eqn:E.
  - injection R as <- <-. rewrite Hc. split; [apply pfx_cons, pfx_refl_nil|].
    split; [discriminate|]. eexists _, _. exact V.
  - apply orb_false_iff in E as [E0 _]. apply N.eqb_neq in E0.
    pose proof (peek_nonzero_suf _ _ _ _ _ V E0) as Hs.
    destruct suf as [|r suf']; [congruence|].
    destruct (read_eol n (read_char st)) as [[l1 s1]| | |] eqn:R1; cbn in R; try discriminate.
    injection R as <- <-.
    destruct (IH _ _ _ _ _ _ (read_char_view _ _ _ _ _ V) R1) as (P & _ & C).
    rewrite Hc. split; [apply pfx_cons; exact P|]. split; [discriminate|exact C].
Qed.

(* readMultiComment *)
Lemma read_multi_view rs : forall n st pre txt l st',
  view rs st pre txt -> read_multi n st = OK (l, st') ->
  pfx l txt /\ (ch st <> 0 -> l <> []) /\ cur rs st'.
Proof.
  induction n as [|n IH]; intros st pre txt l st' V R; [discriminate|].
  cbn [read_multi] in R. destruct (ch st =? 0) eqn:E0.
  { injection R as <- <-. apply N.eqb_eq in E0. split; [apply pfx_refl_nil|].
    split; [congruence|]. eexists _, _. exact V. }
  apply N.eqb_neq in E0.
  destruct txt as [|c suf]; [exfalso; apply E0; exact (view_nil_ch _ _ _ V)|].
  pose proof (view_cons_ch _ _ _ _ _ V) as Hc.
  destruct ((ch st =? 42) && (peek_char st =? 47)) eqn:E.
  - injection R as <- <-. apply andb_true_iff in E as [_ E]. apply N.eqb_eq in E.
    destruct (peek_ascii _ _ _ _ _ 47 V E) as (suf' & ->); [discriminate|reflexivity|].
    pose proof (read_char_view _ _ _ _ _ V) as V1.
    rewrite (view_cons_ch _ _ _ _ _ V1), Hc.
    split; [apply pfx_cons, pfx_cons, pfx_refl_nil|]. split; [discriminate|].
    eexists _, _. exact V1.
  - destruct (read_multi n (read_char st)) as [[l1 s1]| | |] eqn:R1; cbn in R; try discriminate.
    injection R as <- <-.
    destruct (IH _ _ _ _ _ (read_char_view _ _ _ _ _ V) R1) as (P & _ & C).
    rewrite Hc. split; [apply pfx_cons; exact P|]. split; [discriminate|exact C].
Qed.

Lemma read_multi_comment_view rs n st pre c suf l st' :
  view rs st pre (c :: suf) -> peek_char st = 42 -> read_multi_comment n st = OK (l, st') ->
  pfx l (c :: suf) /\ l <> [] /\ cur rs st'.
Proof.
  intros V Hp R. unfold read_multi_comment in R.
  pose proof (view_cons_ch _ _ _ _ _ V) as Hc.
  destruct (peek_ascii _ _ _ _ _ 42 V Hp) as (suf' & ->); [discriminate|reflexivity|].
  pose proof (read_char_view _ _ _ _ _ V) as V1.
  pose proof (view_cons_ch _ _ _ _ _ V1) as Hc1.
  pose proof (read_char_view _ _ _ _ _ V1) as V2.
  destruct (read_multi n (read_char (read_char st))) as [[l2 s2]| | |] eqn:R2; cbn in R; try discriminate.
  injection R as <- <-.
  destruct (read_multi_view rs _ _ _ _ _ _ V2 R2) as (P & _ & C).
  rewrite Hc, Hc1. split; [apply pfx_cons, pfx_cons; exact P|]. split; [discriminate|exact C].
Qed.

(* ---- long strings ---- *)
Definition dl_ok (b : byte) : Prop := b2n b < 128 /\ b2n b <> 10.

Lemma dl_ok_ascii l : Forall dl_ok l -> Forall ascii l.
Proof. apply Forall_impl. intros b [H _]. exact H. Qed.

Lemma dl_ok_nolf l : Forall dl_ok l -> Forall (fun r => r <> 10) (map b2n l).
Proof.
  induction 1; cbn; constructor; auto. destruct H. assumption.
Qed.

Lemma bytes_eqb_eq : forall a b, bytes_eqb a b = true -> a = b.
Proof.
  induction a as [|x a IH]; destruct b as [|y b]; cbn; intros H; try discriminate; auto.
  apply andb_true_iff in H as [H1 H2]. apply byte_eqb_eq in H1. f_equal; auto.
Qed.

Lemma peek_bytes_some k bs b : peek_bytes k bs = Some b -> bs = b ++ skipn k bs /\ length b = k.
Proof.
  unfold peek_bytes. destruct (Nat.ltb bufsize k); [discriminate|].
  destruct (Nat.ltb (length bs) k) eqn:E; [discriminate|]. intros [= <-].
  apply Nat.ltb_ge in E. split; [symmetry; apply firstn_skipn|apply firstn_length_le; exact E].
Qed.

(* the cursor after skipBytes over ASCII bytes d that are next in the input: it stands on the
   last byte of d, though the register ch still holds the old character *)
Lemma skip_view rs st pre c d q tl :
  view rs st pre (c :: map b2n (d ++ [q]) ++ dec_all tl) -> rest st = (d ++ [q]) ++ tl ->
  c <> 10 -> Forall dl_ok d ->
  let st1 := skip_bytes (length (d ++ [q])) st in
  view rs (set_ch st1 (b2n q)) (pre ++ c :: map b2n d) (b2n q :: dec_all tl) /\ ch st1 = ch st.
Proof.
  intros [Hrs (Hc & Hd & Hp)] Hr Hlf Hok st1.
  assert (Hshort : Nat.ltb (length (rest st)) (length (d ++ [q])) = false).
  { apply Nat.ltb_ge. rewrite Hr, !app_length. lia. }
  unfold st1, skip_bytes. rewrite Hshort. cbn [ch]. split; [|reflexivity].
  unfold view, set_ch. cbn [ch rest line idx]. split.
  - rewrite Hrs, map_app. cbn [map]. rewrite <- !app_assoc. reflexivity.
  - split; [reflexivity|]. split.
    + rewrite Hr. rewrite skipn_app, skipn_all, Nat.sub_diag. reflexivity.
    + rewrite Hr. rewrite Nat.min_l by (rewrite !app_length; lia).
      replace (pre ++ c :: map b2n d) with (pre ++ (c :: map b2n d)) by reflexivity.
      rewrite end_pos_nolf.
      2:{ constructor; [exact Hlf|apply dl_ok_nolf; exact Hok]. }
      rewrite <- Hp. cbn [fst snd length]. rewrite map_length, app_length. cbn [length].
      f_equal. lia.
Qed.

(* a cursor whose register may still hold the quote while it stands on the closing brace *)
Definition vcur (rs : list rune) (st : lexer) : Prop :=
  cur rs st \/ (ch st = 34 /\ cur rs (set_ch st 125)).

Definition close_pos (rs : list rune) (st : lexer) : Prop :=
  let p := (line st, idx st) in
  at_text rs p [125] \/ p = eof_pos rs \/ at_text rs p [0] \/ at_text rs p [34].

Lemma read_bracket_loop_view rs delim : Forall dl_ok delim ->
  forall n st pre txt l st',
  view rs st pre txt -> read_bracket_loop (delim ++ [rbrace]) n st = OK (l, st') ->
  pfx l txt /\ vcur rs st' /\ close_pos rs st'.
Proof.
  intros Hdl. induction n as [|n IH]; intros st pre txt l st' V R; [discriminate|].
  cbn [read_bracket_loop] in R. destruct (ch st =? 0) eqn:E0.
  { injection R as <- <-. apply N.eqb_eq in E0. split; [apply pfx_refl_nil|].
    split; [left; eexists _, _; exact V|].
    unfold close_pos. destruct txt as [|c suf].
    - right. left. destruct V as [_ (_ & _ & Hp)]. exact Hp.
    - right. right. left. pose proof (view_cons_ch _ _ _ _ _ V) as Hc.
      rewrite <- E0, Hc. eapply view_at_text; [exact V|discriminate|apply pfx_cons, pfx_refl_nil]. }
  apply N.eqb_neq in E0.
  destruct txt as [|c suf]; [exfalso; apply E0; exact (view_nil_ch _ _ _ V)|].
  pose proof (view_cons_ch _ _ _ _ _ V) as Hc.
  assert (Rec : forall l1 s1, read_bracket_loop (delim ++ [rbrace]) n (read_char st) = OK (l1, s1) ->
                pfx (ch st :: l1) (c :: suf) /\ vcur rs s1 /\ close_pos rs s1).
  { intros l1 s1 R1.
    destruct (IH _ _ _ _ _ (read_char_view _ _ _ _ _ V) R1) as (P & C & K).
    rewrite Hc. split; [apply pfx_cons; exact P|auto]. }
  destruct (ch st =? 34) eqn:Eq.
  2:{ destruct (read_bracket_loop (delim ++ [rbrace]) n (read_char st)) as [[l1 s1]| | |] eqn:R1;
        cbn in R; try discriminate. injection R as <- <-. apply Rec. reflexivity. }
  apply N.eqb_eq in Eq.
  destruct (peek_bytes (length (delim ++ [rbrace])) (rest st)) as [b|] eqn:Pk.
  2:{ injection R as <- <-. split; [apply pfx_refl_nil|].
      split; [left; eexists _, _; exact V|].
      unfold close_pos. right. right. right. rewrite <- Eq, Hc.
      eapply view_at_text; [exact V|discriminate|apply pfx_cons, pfx_refl_nil]. }
  destruct (bytes_eqb (delim ++ [rbrace]) b) eqn:Eb.
  2:{ destruct (read_bracket_loop (delim ++ [rbrace]) n (read_char st)) as [[l1 s1]| | |] eqn:R1;
        cbn in R; try discriminate. injection R as <- <-. apply Rec. reflexivity. }
  injection R as <- <-. apply bytes_eqb_eq in Eb. subst b.
  apply peek_bytes_some in Pk as [Hr _].
  set (tl := skipn (length (delim ++ [rbrace])) (rest st)) in *.
  assert (Hsuf : suf = map b2n (delim ++ [rbrace]) ++ dec_all tl).
  { destruct V as [_ (_ & Hd & _)]. rewrite <- Hd, Hr at 1.
    apply dec_all_ascii_app. apply Forall_app. split; [apply dl_ok_ascii; exact Hdl|].
    constructor; [|constructor]. unfold ascii, rbrace. rewrite b2n_n2b_small; reflexivity. }
  rewrite Hsuf in V.
  assert (c <> 10) by (rewrite <- Hc, Eq; discriminate).
  destruct (skip_view rs st pre c delim rbrace tl V Hr H Hdl) as [V1 Hch].
  assert (Hrb : b2n rbrace = 125) by (unfold rbrace; rewrite b2n_n2b_small; reflexivity).
  rewrite Hrb in V1.
  split; [apply pfx_refl_nil|]. split.
  - right. split; [rewrite Hch; exact Eq|]. eexists _, _. exact V1.
  - unfold close_pos. left.
    change (line (skip_bytes (length (delim ++ [rbrace])) st), idx (skip_bytes (length (delim ++ [rbrace])) st))
      with (line (set_ch (skip_bytes (length (delim ++ [rbrace])) st) 125),
            idx (set_ch (skip_bytes (length (delim ++ [rbrace])) st) 125)).
    eapply view_at_text; [exact V1|discriminate|apply pfx_cons, pfx_refl_nil].
Qed.

Lemma finish_vcur rs t st1 t' st' :
  vcur rs st1 -> finish t st1 = OK (t', st') -> t' = t /\ cur rs st'.
Proof.
  intros [C|[Hq C]] F; [eapply finish_cur; eauto|].
  unfold finish in F. rewrite Hq in F. cbn in F. injection F as <- <-. split; [reflexivity|].
  rewrite <- (read_char_set_ch st1 125) by (try rewrite Hq; discriminate).
  destruct C as (pre & txt & V). destruct txt as [|c suf].
  - pose proof (view_nil_ch _ _ _ V) as Z. cbn in Z. discriminate.
  - eexists _, _. apply read_char_view. exact V.
Qed.

(* scan of the opening delimiter *)
Lemma is_delim_ok b : is_delim (b2n b) = true -> dl_ok b.
Proof.
  unfold is_delim, is_letter, is_digit, is_decimal, in_rng, dl_ok. intros H.
  apply andb_true_iff in H as [_ H].
  repeat (apply orb_true_iff in H as [H|H]);
    repeat (apply andb_true_iff in H as [? ?]);
    repeat match goal with
           | X : (_ <=? _) = true |- _ => apply N.leb_le in X
           | X : (_ =? _) = true |- _ => apply N.eqb_eq in X
           end; lia.
Qed.

Lemma scan_delim_split : forall f bs d, scan_delim f bs = Some d ->
  exists d0 q tl, d = d0 ++ [q] /\ bs = d ++ tl /\ Forall dl_ok d0.
Proof.
  induction f as [|f IH]; intros bs d; cbn [scan_delim]; [discriminate|].
  destruct bs as [|b t]; [discriminate|].
  destruct (is_delim (b2n b)) eqn:E.
  - destruct (scan_delim f t) as [d1|] eqn:S; [|discriminate]. intros [= <-].
    destruct (IH _ _ S) as (d0 & q & tl & -> & -> & F).
    exists (b :: d0), q, tl. repeat split. constructor; [apply is_delim_ok; exact E|exact F].
  - intros [= <-]. exists [], b, t. repeat split. constructor.
Qed.

(* ---- numbers and identifiers: the literal is exactly the text passed over ---- *)
Definition moved (rs : list rune) (pre txt : list rune) (l : list rune) (st' : lexer) : Prop :=
  exists txt', txt = l ++ txt' /\ view rs st' (pre ++ l) txt'.

Lemma moved_eq rs pre txt l l' st : l = l' -> moved rs pre txt l st -> moved rs pre txt l' st.
Proof. intros <-. auto. Qed.

Lemma moved_trans rs pre txt a st1 b st2 :
  moved rs pre txt a st1 ->
  (forall txt1, view rs st1 (pre ++ a) txt1 -> moved rs (pre ++ a) txt1 b st2) ->
  moved rs pre txt (a ++ b) st2.
Proof.
  intros (t1 & -> & V1) H. destruct (H _ V1) as (t2 & -> & V2).
  exists t2. rewrite <- !app_assoc in *. auto.
Qed.

Lemma moved_one rs st pre c suf :
  view rs st pre (c :: suf) -> moved rs pre (c :: suf) [c] (read_char st).
Proof. intros V. exists suf. split; [reflexivity|]. apply read_char_view. exact V. Qed.

Lemma moved_nil rs st pre txt : view rs st pre txt -> moved rs pre txt [] st.
Proof. intros V. exists txt. rewrite app_nil_r. auto. Qed.

Lemma view_nz rs st pre txt : view rs st pre txt -> ch st <> 0 -> exists c suf, txt = c :: suf /\ ch st = c.
Proof.
  intros V H. destruct txt as [|c suf]; [exfalso; apply H; exact (view_nil_ch _ _ _ V)|].
  exists c, suf. split; [reflexivity|]. exact (view_cons_ch _ _ _ _ _ V).
Qed.

Lemma read_while_moved rs p (Hp : nz p) n st pre txt l st' :
  view rs st pre txt -> read_while p n st = OK (l, st') -> moved rs pre txt l st'.
Proof. intros V R. exact (read_while_view rs p Hp n st pre txt l st' V R). Qed.

Lemma read_exponent_moved rs n st pre txt l st' :
  view rs st pre txt -> ch st <> 0 -> read_exponent n st = OK (l, st') -> moved rs pre txt l st'.
Proof.
  intros V Hz R. unfold read_exponent in R.
  destruct (view_nz _ _ _ _ V Hz) as (c & suf & -> & Hc).
  pose proof (moved_one _ _ _ _ _ V) as M1. rewrite <- Hc in M1.
  destruct ((ch (read_char st) =? 43) || (ch (read_char st) =? 45)) eqn:E.
  - assert (Hz1 : ch (read_char st) <> 0).
    { intros Z. rewrite Z in E. discriminate. }
    destruct (read_while is_decimal n (read_char (read_char st))) as [[l1 s1]| | |] eqn:R1;
      cbn in R; try discriminate. injection R as <- <-.
    change (ch st :: ch (read_char st) :: l1) with ([ch st] ++ [ch (read_char st)] ++ l1).
    rewrite Hc in *. eapply moved_trans; [exact M1|]. intros t1 V1.
    destruct (view_nz _ _ _ _ V1 Hz1) as (c1 & suf1 & -> & Hc1). rewrite Hc1.
    eapply moved_trans; [apply moved_one; exact V1|]. intros t2 V2.
    eapply read_while_moved; [exact nz_decimal|exact V2|exact R1].
  - destruct (read_while is_decimal n (read_char st)) as [[l1 s1]| | |] eqn:R1;
      cbn in R; try discriminate. injection R as <- <-.
    change (ch st :: l1) with ([ch st] ++ l1). rewrite Hc in *.
    eapply moved_trans; [exact M1|]. intros t1 V1.
    eapply read_while_moved; [exact nz_decimal|exact V1|exact R1].
Qed.

Lemma read_mantissa_moved rs isd (Hd : nz isd) mark (Hm : mark <> 0) n st pre txt r st' :
  view rs st pre txt -> read_mantissa isd mark n st = OK (r, st') ->
  moved rs pre txt (fst (fst r)) st'.
Proof.
  intros V R. unfold read_mantissa in R.
  destruct (read_while isd n st) as [[a st1]| | |] eqn:R1; cbn [bind] in R; try discriminate.
  pose proof (read_while_moved rs isd Hd _ _ _ _ _ _ V R1) as M1.
  destruct (ch st1 =? 46) eqn:E46.
  - apply N.eqb_eq in E46.
    destruct (read_while isd n (read_char st1)) as [[b st2]| | |] eqn:R2; cbn in R; try discriminate.
    assert (M2 : moved rs pre txt (a ++ 46 :: b) st2).
    { eapply moved_trans; [exact M1|]. intros t1 V1.
      destruct (view_nz _ _ _ _ V1) as (c1 & suf1 & -> & Hc1); [rewrite E46; discriminate|].
      rewrite E46 in Hc1. subst c1.
      change (46 :: b) with ([46] ++ b).
      eapply moved_trans; [apply moved_one; exact V1|]. intros t2 V2.
      eapply read_while_moved; [exact Hd|exact V2|exact R2]. }
    destruct (ch st2 =? mark) eqn:Em.
    + apply N.eqb_eq in Em.
      destruct (read_exponent n st2) as [[e st3]| | |] eqn:R3; cbn in R; try discriminate.
      injection R as <- <-. cbn [fst app].
      apply (moved_eq rs pre txt ((a ++ 46 :: b) ++ e)); [rewrite <- app_assoc; reflexivity|].
      eapply moved_trans; [exact M2|]. intros t3 V3.
      eapply read_exponent_moved; [exact V3|rewrite Em; exact Hm|exact R3].
    + injection R as <- <-. cbn [fst]. exact M2.
  - cbn [bind] in R. destruct (ch st1 =? mark) eqn:Em.
    + apply N.eqb_eq in Em.
      destruct (read_exponent n st1) as [[e st3]| | |] eqn:R3; cbn in R; try discriminate.
      injection R as <- <-. cbn [fst app].
      eapply moved_trans; [exact M1|]. intros t3 V3.
      eapply read_exponent_moved; [exact V3|rewrite Em; exact Hm|exact R3].
    + injection R as <- <-. cbn [fst]. rewrite app_nil_r. exact M1.
Qed.

Lemma read_number_moved rs n st pre txt r st' :
  view rs st pre txt -> ch st <> 0 -> read_number n st = OK (r, st') ->
  moved rs pre txt (fst (fst r)) st'.
Proof.
  intros V Hz R. unfold read_number in R.
  destruct ((ch st =? 48) && ((peek_char st =? 120) || (peek_char st =? 88))) eqn:E.
  - destruct (view_nz _ _ _ _ V Hz) as (c & suf & -> & Hc).
    apply andb_true_iff in E as [_ E].
    assert (Hx : exists k suf', suf = k :: suf' /\ k <> 0).
    { apply orb_true_iff in E as [E|E]; apply N.eqb_eq in E.
      - destruct (peek_ascii _ _ _ _ _ 120 V E) as (s' & ->); [discriminate|reflexivity|].
        exists 120, s'. split; [reflexivity|discriminate].
      - destruct (peek_ascii _ _ _ _ _ 88 V E) as (s' & ->); [discriminate|reflexivity|].
        exists 88, s'. split; [reflexivity|discriminate]. }
    destruct Hx as (k & suf' & -> & Hk).
    pose proof (read_char_view _ _ _ _ _ V) as V1.
    pose proof (view_cons_ch _ _ _ _ _ V1) as Hc1.
    destruct (read_mantissa is_hex 112 n (read_char (read_char st))) as [[[[l isf] x] st3]| | |] eqn:R1;
      cbn [bind] in R; try discriminate.
    injection R as <- <-. cbn [fst].
    change (ch st :: ch (read_char st) :: l) with ([ch st] ++ [ch (read_char st)] ++ l).
    rewrite Hc, Hc1.
    eapply moved_trans; [apply moved_one; exact V|]. intros t1 W1.
    assert (t1 = k :: suf').
    { destruct W1 as [E1 _]. destruct V as [E0 _]. rewrite E0 in E1.
      rewrite <- app_assoc in E1. apply app_inv_head in E1. cbn in E1. injection E1 as <-. reflexivity. }
    subst t1.
    eapply moved_trans; [apply moved_one; exact W1|]. intros t2 W2.
    pose proof (read_mantissa_moved rs is_hex nz_hex 112 ltac:(discriminate) _ _ _ _ _ _ W2 R1) as M.
    cbn [fst] in M. exact M.
  - destruct (read_mantissa is_decimal 101 n st) as [[[[l isf] x] st3]| | |] eqn:R1;
      cbn [bind] in R; try discriminate.
    injection R as <- <-. cbn [fst].
    pose proof (read_mantissa_moved rs is_decimal nz_decimal 101 ltac:(discriminate) _ _ _ _ _ _ V R1) as M.
    cbn [fst] in M. exact M.
Qed.

Lemma ident_more_moved rs : forall n st pre txt l st',
  view rs st pre txt -> ident_more n st = OK (l, st') -> moved rs pre txt l st'.
Proof.
  induction n as [|n IH]; intros st pre txt l st' V R; [discriminate|].
  cbn [ident_more] in R. destruct (is_ident_cont (ch st)) eqn:E.
  - destruct (view_nz _ _ _ _ V (ident_cont_nz _ E)) as (c & suf & -> & Hc).
    unfold read_identifier in R.
    destruct (read_while is_letter n (read_char st)) as [[a st1]| | |] eqn:R1; cbn [bind] in R; try discriminate.
    destruct (ident_more n st1) as [[b st2]| | |] eqn:R2; cbn [bind] in R; try discriminate.
    injection R as <- <-.
    change (ch st :: a ++ b) with ([ch st] ++ a ++ b). rewrite Hc.
    eapply moved_trans; [apply moved_one; exact V|]. intros t1 W1.
    eapply moved_trans; [eapply read_while_moved; [exact nz_letter|exact W1|exact R1]|]. intros t2 W2.
    eapply IH; [exact W2|exact R2].
  - injection R as <- <-. apply moved_nil. exact V.
Qed.
