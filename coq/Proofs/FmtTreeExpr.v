(* C03, tree level, expressions: making every concatenation explicit (explicit_string_concat =
   true) or juxtaposed (= false) changes the parse tree in the Explicit flag only.
   Uses the parser model of C02 (Model/ParseExpr.v) and its round-trip theorem: both token lists
   are yields of canonical trees that differ in the flag. *)
From Coq Require Import String.
From Coq Require Import List NArith ZArith Bool Lia.
From Falco Require Import Base.Bytes Gen.TokenTypes Model.ParseKinds Gen.ParserTables
  Model.ParseBase Model.Ast Model.ParseLit Model.ParseExpr Model.Yield
  Proofs.ParseTables Proofs.ParseExprYield Proofs.ParsePratt Proofs.ParseRoundtrip.
Import ListNotations.
Local Open Scope N_scope.

(* the token the formatter writes *)
Definition plus_tok : token := Tok T_PLUS (s2b "+") 0.

(* a juxtaposed operand starts with one of these (parser.infixParsers, explicit = false) *)
Definition t_juxt (t : ttype) : bool :=
  match doc_infix t with Some (IK_ParseInfixStringConcatExpression false) => true | _ => false end.

Definition head (e : expr) : token := hd eof_tok (yexpr e).

(* ---------------------------------------------------------------- on trees *)
(* explicit_string_concat = true: every juxtaposition becomes an explicit "+" *)
Fixpoint mark_explicit (e : expr) : expr :=
  match e with
  | EConcat l r => EInfix (mark_explicit l) plus_tok true (mark_explicit r)
  | EPrefix op r => EPrefix op (mark_explicit r)
  | EGroup lp r rp => EGroup lp (mark_explicit r) rp
  | EIfExp kw lp c c1 t c2 e rp => EIfExp kw lp (mark_explicit c) c1 (mark_explicit t) c2 (mark_explicit e) rp
  | EInfix l op ex r => EInfix (mark_explicit l) op ex (mark_explicit r)
  | EPostfix l op => EPostfix (mark_explicit l) op
  | ECall f lp a rp => ECall f lp (mark_args a) rp
  | _ => e
  end
with mark_args (a : args) : args :=
  match a with ANone => ANone | ASome e m => ASome (mark_explicit e) (mark_tail m) end
with mark_tail (m : argtail) : argtail :=
  match m with ATNil => ATNil | ATCons c e m' => ATCons c (mark_explicit e) (mark_tail m') end.

(* explicit_string_concat = false: an explicit "+" whose right operand can be juxtaposed becomes a
   juxtaposition; the others stay (formatter: canJuxtapose) *)
Fixpoint unmark (e : expr) : expr :=
  match e with
  | EInfix l op true r =>
      if t_juxt (typ (head r)) then EConcat (unmark l) (unmark r) else EInfix (unmark l) op true (unmark r)
  | EInfix l op false r => EInfix (unmark l) op false (unmark r)
  | EConcat l r => EConcat (unmark l) (unmark r)
  | EPrefix op r => EPrefix op (unmark r)
  | EGroup lp r rp => EGroup lp (unmark r) rp
  | EIfExp kw lp c c1 t c2 e rp => EIfExp kw lp (unmark c) c1 (unmark t) c2 (unmark e) rp
  | EPostfix l op => EPostfix (unmark l) op
  | ECall f lp a rp => ECall f lp (unmark_args a) rp
  | _ => e
  end
with unmark_args (a : args) : args :=
  match a with ANone => ANone | ASome e m => ASome (unmark e) (unmark_tail m) end
with unmark_tail (m : argtail) : argtail :=
  match m with ATNil => ATNil | ATCons c e m' => ATCons c (unmark e) (unmark_tail m') end.

(* the tree with the Explicit flag of every concatenation erased: what both directions preserve *)
Fixpoint erase (e : expr) : expr :=
  match e with
  | EInfix l op true r => EConcat (erase l) (erase r)
  | EInfix l op false r => EInfix (erase l) op false (erase r)
  | EConcat l r => EConcat (erase l) (erase r)
  | EPrefix op r => EPrefix op (erase r)
  | EGroup lp r rp => EGroup lp (erase r) rp
  | EIfExp kw lp c c1 t c2 e rp => EIfExp kw lp (erase c) c1 (erase t) c2 (erase e) rp
  | EPostfix l op => EPostfix (erase l) op
  | ECall f lp a rp => ECall f lp (erase_args a) rp
  | _ => e
  end
with erase_args (a : args) : args :=
  match a with ANone => ANone | ASome e m => ASome (erase e) (erase_tail m) end
with erase_tail (m : argtail) : argtail :=
  match m with ATNil => ATNil | ATCons c e m' => ATCons c (erase e) (erase_tail m') end.

Lemma erase_mark : (forall e, erase (mark_explicit e) = erase e)
  /\ (forall a, erase_args (mark_args a) = erase_args a) /\ (forall m, erase_tail (mark_tail m) = erase_tail m).
Proof.
  apply expr_args_ind; intros; simpl; try reflexivity; try congruence.
  destruct explicit; simpl; congruence.
Qed.

Lemma erase_unmark : (forall e, erase (unmark e) = erase e)
  /\ (forall a, erase_args (unmark_args a) = erase_args a) /\ (forall m, erase_tail (unmark_tail m) = erase_tail m).
Proof.
  apply expr_args_ind; intros; simpl; try reflexivity; try congruence.
  destruct explicit; simpl; [|congruence]. destruct (t_juxt (typ (head r))); simpl; congruence.
Qed.

(* ---------------------------------------------------------------- table facts *)
(* the precedence of "+" is the precedence of a juxtaposed operand (P_CONCAT), in the documented table
   that Proofs/ParseTables.v proves equal to the regenerated one *)
Lemma prec_plus : doc_prec T_PLUS = 7. Proof. reflexivity. Qed.
Lemma juxt_prec7 t : t_juxt t = true -> doc_prec t = 7 /\ t <> T_SEMICOLON.
Proof. unfold t_juxt. destruct t; simpl; intros H; try discriminate; split; try reflexivity; discriminate. Qed.
Lemma infix_plus : doc_infix T_PLUS = Some (IK_ParseInfixStringConcatExpression true). Proof. reflexivity. Qed.
Lemma explicit_is_plus t : doc_infix t = Some (IK_ParseInfixStringConcatExpression true) -> t = T_PLUS.
Proof. destruct t; simpl; intros H; try discriminate; reflexivity. Qed.

Lemma stops_same_prec p x y r1 r2 :
  doc_prec (typ x) = doc_prec (typ y) -> typ x <> T_SEMICOLON -> typ y <> T_SEMICOLON ->
  stops p (x :: r1) = stops p (y :: r2).
Proof.
  intros H Hx Hy. unfold stops. simpl. rewrite H.
  apply ttype_eqb_neq in Hx. apply ttype_eqb_neq in Hy. now rewrite Hx, Hy.
Qed.

Lemma follow_same_prec e x y r1 r2 :
  doc_prec (typ x) = doc_prec (typ y) -> typ x <> T_SEMICOLON -> typ y <> T_SEMICOLON ->
  follow_ok e (x :: r1) = follow_ok e (y :: r2).
Proof. intros. destruct e; simpl; try reflexivity; now apply stops_same_prec. Qed.

Section T.
Variable fok : str -> bool.
Notation canon := (canon fok).
Notation canon_args := (canon_args fok).
Notation canon_tail := (canon_tail fok).

Lemma head_app e l : hd eof_tok (yexpr e ++ l) = head e.
Proof. unfold head. apply hd_app_ne. apply yexpr_nonempty. Qed.

(* ---------------------------------------------------------------- explicit "+" everywhere *)
Lemma head_mark e : head (mark_explicit e) = head e.
Proof.
  induction e; simpl; try reflexivity; unfold head in *; simpl;
    rewrite ?hd_app_ne by apply yexpr_nonempty; auto.
Qed.

Lemma minprec_mark e : minprec (mark_explicit e) = minprec e.
Proof. destruct e; reflexivity. Qed.

Lemma follow_mark e rest : follow_ok (mark_explicit e) rest = follow_ok e rest.
Proof. destruct e; reflexivity. Qed.

Lemma yexpr_cons e : exists x r, yexpr e = x :: r /\ x = head e.
Proof.
  pose proof (yexpr_nonempty e) as H. unfold head. destruct (yexpr e) as [|x r]; [congruence|]. eauto.
Qed.

Lemma canon_mark :
  (forall e, canon e -> canon (mark_explicit e))
  /\ (forall a, canon_args a -> canon_args (mark_args a))
  /\ (forall m, canon_tail m -> canon_tail (mark_tail m)).
Proof.
  apply expr_args_ind; intros;
    cbn [ParsePratt.canon ParsePratt.canon_args ParsePratt.canon_tail mark_explicit mark_args mark_tail] in *; auto.
  - (* prefix *) destruct H0 as (A & B & C). rewrite minprec_mark. repeat split; auto.
  - (* group *) destruct H0 as (A & B & C & D). rewrite minprec_mark. repeat split; auto.
  - (* if *) destruct H2 as (A & B & C & D & E & (F1 & F2) & (G1 & G2) & (I1 & I2)).
    rewrite !minprec_mark. repeat split; auto.
  - (* infix *) destruct H1 as (A & B & C & D & E).
    rewrite follow_mark, minprec_mark. repeat split; auto.
  - (* juxtaposition -> explicit *) destruct H1 as (A & B & C & D & E).
    split; [reflexivity|]. split; [auto|]. split; [auto|].
    rewrite follow_mark, minprec_mark. split; [|exact D].
    destruct (yexpr_cons r) as (x & r0 & Hy & Hx). rewrite Hy in C. rewrite <- C.
    assert (Hj : t_juxt (typ x) = true).
    { unfold t_juxt. subst x. unfold head. now rewrite E. }
    destruct (juxt_prec7 _ Hj) as [Hp Hs].
    apply follow_same_prec; [now rewrite Hp | discriminate | exact Hs].
  - (* postfix *) destruct H0 as (A & B & C). rewrite follow_mark. repeat split; auto.
  - (* call *) destruct H0 as (A & B & C & D). split; [exact A|split; [exact B|split; [exact C|exact (H D)]]].
  - (* args *) destruct H1 as ((A & B) & C). rewrite minprec_mark. split; [split; [exact (H A)|exact B]|exact (H0 C)].
  - destruct H1 as (A & (B & C) & D). rewrite minprec_mark. split; [exact A|split; [split; [exact (H B)|exact C]|exact (H0 D)]].
Qed.

(* ---------------------------------------------------------------- juxtaposition where it can be read back *)
Lemma head_unmark e : head (unmark e) = head e.
Proof.
  induction e; simpl; try reflexivity; unfold head in *; simpl;
    rewrite ?hd_app_ne by apply yexpr_nonempty; auto.
  destruct explicit; [destruct (t_juxt _)|]; simpl; rewrite ?hd_app_ne by apply yexpr_nonempty; auto.
Qed.

Lemma minprec_unmark e : canon e -> minprec (unmark e) = minprec e.
Proof.
  destruct e; try reflexivity. cbn [ParsePratt.canon unmark]. intros (A & _).
  destruct explicit; [|reflexivity]. destruct (t_juxt _); [|reflexivity].
  simpl. apply explicit_is_plus in A. now rewrite A.
Qed.

Lemma follow_unmark e rest : canon e -> follow_ok (unmark e) rest = follow_ok e rest.
Proof.
  destruct e; try reflexivity. cbn [ParsePratt.canon unmark]. intros (A & _).
  destruct explicit; [|reflexivity]. destruct (t_juxt _); [|reflexivity].
  simpl. apply explicit_is_plus in A. now rewrite A.
Qed.

Lemma juxt_infix t : t_juxt t = true -> doc_infix t = Some (IK_ParseInfixStringConcatExpression false).
Proof. unfold t_juxt. destruct (doc_infix t) as [[| [|] |]|]; intros; try discriminate; reflexivity. Qed.

Lemma canon_unmark :
  (forall e, canon e -> canon (unmark e))
  /\ (forall a, canon_args a -> canon_args (unmark_args a))
  /\ (forall m, canon_tail m -> canon_tail (unmark_tail m)).
Proof.
  apply expr_args_ind; intros;
    cbn [ParsePratt.canon ParsePratt.canon_args ParsePratt.canon_tail unmark unmark_args unmark_tail] in *; auto.
  - destruct H0 as (A & B & C). rewrite minprec_unmark by exact B. repeat split; auto.
  - destruct H0 as (A & B & C & D). rewrite minprec_unmark by exact C. repeat split; auto.
  - destruct H2 as (A & B & C & D & E & (F1 & F2) & (G1 & G2) & (I1 & I2)).
    rewrite !minprec_unmark by assumption. repeat split; auto.
  - (* infix *) destruct H1 as (A & B & C & D & E).
    destruct explicit.
    + destruct (t_juxt (typ (head r))) eqn:Hj.
      * (* explicit -> juxtaposition *)
        cbn [ParsePratt.canon]. split; [auto|]. split; [auto|].
        pose proof (explicit_is_plus _ A) as Hop.
        rewrite follow_unmark by exact B. rewrite minprec_unmark by exact C.
        destruct (juxt_prec7 _ Hj) as [Hp Hs].
        split; [|split].
        -- destruct (yexpr_cons (unmark r)) as (x & r0 & Hy & Hx). rewrite Hy. rewrite <- D.
           rewrite head_unmark in Hx. subst x.
           apply follow_same_prec; [now rewrite Hop, Hp | exact Hs | rewrite Hop; discriminate].
        -- rewrite Hop in E. exact E.
        -- fold (head (unmark r)). rewrite head_unmark. now apply juxt_infix.
      * cbn [ParsePratt.canon]. rewrite follow_unmark by exact B. rewrite minprec_unmark by exact C. repeat split; auto.
    + cbn [ParsePratt.canon]. rewrite follow_unmark by exact B. rewrite minprec_unmark by exact C. repeat split; auto.
  - (* juxtaposition stays *) destruct H1 as (A & B & C & D & E).
    rewrite follow_unmark by exact A. rewrite minprec_unmark by exact B.
    split; [auto|]. split; [auto|]. split; [|split; [exact D|]].
    + destruct (yexpr_cons (unmark r)) as (x & r0 & Hy & Hx). rewrite Hy.
      destruct (yexpr_cons r) as (x' & r' & Hy' & Hx'). rewrite Hy' in C.
      rewrite head_unmark in Hx. subst. rewrite (follow_hd l (head r) r0 r'). exact C.
    + fold (head (unmark r)). rewrite head_unmark. exact E.
  - destruct H0 as (A & B & C). rewrite follow_unmark by exact B. repeat split; auto.
  - destruct H0 as (A & B & C & D). split; [exact A|split; [exact B|split; [exact C|exact (H D)]]].
  - destruct H1 as ((A & B) & C). rewrite minprec_unmark by exact A. split; [split; [exact (H A)|exact B]|exact (H0 C)].
  - destruct H1 as (A & (B & C) & D). rewrite minprec_unmark by exact B. split; [exact A|split; [split; [exact (H B)|exact C]|exact (H0 D)]].
Qed.

(* ---------------------------------------------------------------- the parser on the rewritten tokens *)
(* both token lists parse, to trees that differ only in the Explicit flag of concatenations *)
Theorem concat_explicit_preserves_tree e p pv rest :
  canon e -> p < minprec e -> follow_ok e rest = true -> stops p rest = true ->
  parse_expr fok p (St pv (yexpr e ++ rest)) = POK (e, endst pv (yexpr e) rest)
  /\ parse_expr fok p (St pv (yexpr (mark_explicit e) ++ rest))
     = POK (mark_explicit e, endst pv (yexpr (mark_explicit e)) rest)
  /\ erase (mark_explicit e) = erase e.
Proof.
  intros Hc Hp Hf Hs. split; [now apply parse_expr_roundtrip|]. split; [|apply erase_mark].
  apply parse_expr_roundtrip; auto.
  - now apply canon_mark.
  - now rewrite minprec_mark.
  - now rewrite follow_mark.
Qed.

Theorem concat_juxtaposed_preserves_tree e p pv rest :
  canon e -> p < minprec e -> follow_ok e rest = true -> stops p rest = true ->
  parse_expr fok p (St pv (yexpr (unmark e) ++ rest)) = POK (unmark e, endst pv (yexpr (unmark e)) rest)
  /\ erase (unmark e) = erase e.
Proof.
  intros Hc Hp Hf Hs. split; [|apply erase_unmark].
  apply parse_expr_roundtrip; auto.
  - now apply canon_unmark.
  - now rewrite minprec_unmark.
  - now rewrite follow_unmark.
Qed.

End T.
