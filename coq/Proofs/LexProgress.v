(* The termination measure of the lexer and the behaviour of the reader primitives and loops
   of Model/Lex.v with respect to it.

   nu st = bytes not yet read + 1 when a character is under the cursor (ch <> 0).
   Every primitive is nu-non-increasing; read_char is strictly decreasing when ch <> 0.
   Every fuelled loop finishes (never OutOfFuel / Crash / Err) when nu st < fuel. *)
From Coq Require Import List NArith Bool Lia Arith.
From Falco Require Import Base.Res Base.Bytes Base.Utf8 Gen.Tokens Model.Lex.
Import ListNotations.
Local Open Scope N_scope.

Definition nu (st : lexer) : nat :=
  (length (rest st) + (if N.eqb (ch st) 0%N then 0 else 1))%nat.

Definition same_aux (st st' : lexer) : Prop :=
  peeks st' = peeks st /\ iseof st' = iseof st /\ eoftok st' = eoftok st.

(* st' is a later state of the same lexer run: nothing un-read, queue and EOF memory untouched *)
Definition le_st (st' st : lexer) : Prop := (nu st' <= nu st)%nat /\ same_aux st st'.

Lemma le_refl st : le_st st st.
Proof. unfold le_st, same_aux. auto. Qed.

Lemma le_trans a b c : le_st a b -> le_st b c -> le_st a c.
Proof.
  unfold le_st, same_aux. intros [H1 [A1 [A2 A3]]] [H2 [B1 [B2 B3]]].
  repeat split; try congruence. lia.
Qed.

Lemma dec_rune_size bs r sz : dec_rune bs = (r, sz) -> (1 <= sz)%nat.
Proof.
  unfold dec_rune.
  repeat match goal with
         | |- context [match ?x with _ => _ end] => destruct x
         end; intros [= <- <-]; lia.
Qed.

Lemma skipn_length_le {A} n (l : list A) : (length (skipn n l) <= length l)%nat.
Proof. rewrite skipn_length. lia. Qed.

Lemma read_char_aux st : same_aux st (read_char st).
Proof.
  unfold read_char, same_aux. destruct (rest st); [cbn; auto|].
  destruct (dec_rune (b :: l)). cbn. auto.
Qed.

Lemma read_char_nu st :
  (nu (read_char st) <= nu st)%nat /\ (ch st <> 0 -> (nu (read_char st) < nu st)%nat).
Proof.
  unfold read_char, nu. destruct (rest st) as [|b l] eqn:E.
  - cbn. split; [lia|]. intros H. apply N.eqb_neq in H. rewrite H. lia.
  - destruct (dec_rune (b :: l)) as [r sz] eqn:D. apply dec_rune_size in D.
    cbn [ch rest]. rewrite skipn_length. cbn [length].
    split.
    + destruct (r =? 0); destruct (ch st =? 0); lia.
    + intros H. apply N.eqb_neq in H. rewrite H. destruct (r =? 0); lia.
Qed.

Lemma read_char_le st : le_st (read_char st) st.
Proof. split; [apply read_char_nu | apply read_char_aux]. Qed.

Lemma read_char_lt st : ch st <> 0 -> (nu (read_char st) < nu st)%nat.
Proof. apply read_char_nu. Qed.

Lemma skip_bytes_le k st : le_st (skip_bytes k st) st.
Proof.
  unfold skip_bytes, le_st, same_aux, nu. cbn [ch rest peeks iseof eoftok].
  split; [|auto]. rewrite skipn_length.
  destruct (Nat.ltb (length (rest st)) k) eqn:E.
  - apply Nat.ltb_lt in E. cbn. lia.
  - destruct (ch st =? 0); lia.
Qed.

Lemma nu_rest st : (length (rest st) <= nu st)%nat.
Proof. unfold nu. lia. Qed.

(* ---- generic loop ---- *)
Definition nz (p : rune -> bool) : Prop := forall c, p c = true -> c <> 0.

Lemma read_while_ok p (Hp : nz p) : forall n st, (nu st < n)%nat ->
  exists l st', read_while p n st = OK (l, st') /\ le_st st' st /\
                (p (ch st) = true -> (nu st' < nu st)%nat).
Proof.
  induction n as [|n IH]; intros st Hn; [lia|].
  cbn [read_while]. destruct (p (ch st)) eqn:E.
  - pose proof (read_char_lt st (Hp _ E)) as Hlt.
    destruct (IH (read_char st)) as (l & st' & R & L & _); [lia|].
    rewrite R. cbn. exists (ch st :: l), st'. split; [reflexivity|].
    split; [eapply le_trans; [exact L | apply read_char_le]|].
    intros _. destruct L as [L _]. lia.
  - exists [], st. split; [reflexivity|]. split; [apply le_refl|]. discriminate.
Qed.

Lemma nz_letter : nz is_letter.
Proof. intros c H E. subst c. discriminate. Qed.
Lemma nz_decimal : nz is_decimal.
Proof. intros c H E. subst c. discriminate. Qed.
Lemma nz_hex : nz is_hex.
Proof. intros c H E. subst c. discriminate. Qed.
Lemma nz_space : nz is_space.
Proof. intros c H E. subst c. discriminate. Qed.
Lemma nz_in_string : nz in_string.
Proof. intros c H E. subst c. discriminate. Qed.

Lemma skip_whitespace_ok n st : (nu st < n)%nat ->
  exists st', skip_whitespace n st = OK st' /\ le_st st' st.
Proof.
  intros H. unfold skip_whitespace.
  destruct (read_while_ok is_space nz_space n st H) as (l & st' & R & L & _).
  rewrite R. eauto.
Qed.

Lemma read_string_ok n st : (nu st < n)%nat -> ch st <> 0 ->
  exists l st', read_string n st = OK (l, st') /\ le_st st' st /\ (nu st' < nu st)%nat.
Proof.
  intros H Hc. unfold read_string.
  pose proof (read_char_lt st Hc) as Hlt.
  destruct (read_while_ok in_string nz_in_string n (read_char st)) as (l & st' & R & L & _); [lia|].
  exists l, st'. split; [exact R|]. split; [eapply le_trans; [exact L|apply read_char_le]|].
  destruct L. lia.
Qed.

(* ---- readBracketString ---- *)
Lemma read_bracket_loop_ok endb : forall n st, (nu st < n)%nat ->
  exists l st', read_bracket_loop endb n st = OK (l, st') /\ le_st st' st.
Proof.
  induction n as [|n IH]; intros st Hn; [lia|].
  cbn [read_bracket_loop].
  destruct (ch st =? 0) eqn:E0.
  { exists [], st. split; [reflexivity|apply le_refl]. }
  apply N.eqb_neq in E0.
  assert (Hrec : exists l st', cons_res (ch st) (read_bracket_loop endb n (read_char st)) = OK (l, st')
                               /\ le_st st' st).
  { pose proof (read_char_lt st E0) as Hlt.
    destruct (IH (read_char st)) as (l & st' & R & L); [lia|].
    rewrite R. cbn. exists (ch st :: l), st'. split; [reflexivity|].
    eapply le_trans; [exact L|apply read_char_le]. }
  destruct (ch st =? 34); [|exact Hrec].
  destruct (peek_bytes (length endb) (rest st)).
  - destruct (bytes_eqb endb l); [|exact Hrec].
    exists [], (skip_bytes (length endb) st). split; [reflexivity|apply skip_bytes_le].
  - exists [], st. split; [reflexivity|apply le_refl].
Qed.

Lemma read_bracket_string_ok d n st : (nu st < n)%nat ->
  exists l st', read_bracket_string d n st = OK (l, st') /\ le_st st' st /\
                (ch st <> 0 -> (nu st' < nu st)%nat).
Proof.
  intros H. unfold read_bracket_string.
  pose proof (read_char_nu st) as [Hle Hlt].
  destruct (read_bracket_loop_ok (d ++ [rbrace]) n (read_char st)) as (l & st' & R & L); [lia|].
  exists l, st'. split; [exact R|]. split; [eapply le_trans; [exact L|apply read_char_le]|].
  intros Hc. specialize (Hlt Hc). destruct L. lia.
Qed.

(* ---- readEOL: terminates because the unread bytes shrink ---- *)
Lemma read_char_rest_lt st : rest st <> [] -> (length (rest (read_char st)) < length (rest st))%nat.
Proof.
  unfold read_char. destruct (rest st) as [|b l] eqn:E; [congruence|]. intros _.
  destruct (dec_rune (b :: l)) as [r sz] eqn:D. apply dec_rune_size in D.
  cbn [rest]. rewrite skipn_length. cbn [length]. lia.
Qed.

Lemma read_eol_ok : forall n st, (length (rest st) < n)%nat ->
  exists l st', read_eol n st = OK (l, st') /\ le_st st' st /\
                (st' = st \/ le_st st' (read_char st)).
Proof.
  induction n as [|n IH]; intros st Hn; [lia|].
  cbn [read_eol].
  destruct ((peek_char st =? 0) || (peek_char st =? 10)) eqn:E.
  { exists [ch st], st. split; [reflexivity|]. split; [apply le_refl|]. left. reflexivity. }
  assert (Hne : rest st <> []).
  { intros Hnil. unfold peek_char in E. rewrite Hnil in E. discriminate. }
  pose proof (read_char_rest_lt st Hne) as Hlt.
  destruct (IH (read_char st)) as (l & st' & R & L & _); [lia|].
  rewrite R. cbn. exists (ch st :: l), st'. split; [reflexivity|].
  split; [eapply le_trans; [exact L|apply read_char_le]|]. right. exact L.
Qed.

(* ---- readMultiComment ---- *)
Lemma read_multi_ok : forall n st, (nu st < n)%nat ->
  exists l st', read_multi n st = OK (l, st') /\ le_st st' st /\
                (ch st <> 0 -> (nu st' < nu st)%nat).
Proof.
  induction n as [|n IH]; intros st Hn; [lia|].
  cbn [read_multi].
  destruct (ch st =? 0) eqn:E0.
  { exists [], st. split; [reflexivity|]. split; [apply le_refl|].
    apply N.eqb_eq in E0. congruence. }
  apply N.eqb_neq in E0. pose proof (read_char_lt st E0) as Hlt.
  destruct ((ch st =? 42) && (peek_char st =? 47)).
  { eexists _, (read_char st). split; [reflexivity|]. split; [apply read_char_le|]. auto. }
  destruct (IH (read_char st)) as (l & st' & R & L & _); [lia|].
  rewrite R. cbn. exists (ch st :: l), st'. split; [reflexivity|].
  split; [eapply le_trans; [exact L|apply read_char_le]|].
  intros _. destruct L. lia.
Qed.

Lemma read_multi_comment_ok n st : (nu st < n)%nat -> ch st <> 0 ->
  exists l st', read_multi_comment n st = OK (l, st') /\ le_st st' st /\ (nu st' < nu st)%nat.
Proof.
  intros Hn Hc. unfold read_multi_comment.
  pose proof (read_char_le st) as L1. pose proof (read_char_lt st Hc) as S1.
  pose proof (read_char_le (read_char st)) as L2.
  destruct (read_multi_ok n (read_char (read_char st))) as (l & st' & R & L3 & _).
  { destruct L1, L2. lia. }
  rewrite R. cbn. eexists _, st'. split; [reflexivity|].
  split; [eapply le_trans; [exact L3|eapply le_trans; eassumption]|].
  destruct L2, L3. lia.
Qed.

(* ---- numbers ---- *)
Lemma read_exponent_ok n st : (nu st < n)%nat ->
  exists l st', read_exponent n st = OK (l, st') /\ le_st st' st.
Proof.
  intros H. unfold read_exponent.
  pose proof (read_char_le st) as L1.
  destruct ((ch (read_char st) =? 43) || (ch (read_char st) =? 45)).
  - pose proof (read_char_le (read_char st)) as L2.
    destruct (read_while_ok is_decimal nz_decimal n (read_char (read_char st))) as (l & st' & R & L & _).
    { destruct L1, L2. lia. }
    rewrite R. cbn. eexists _, st'. split; [reflexivity|].
    eapply le_trans; [exact L|]. eapply le_trans; eassumption.
  - destruct (read_while_ok is_decimal nz_decimal n (read_char st)) as (l & st' & R & L & _).
    { destruct L1. lia. }
    rewrite R. cbn. eexists _, st'. split; [reflexivity|].
    eapply le_trans; eassumption.
Qed.

Lemma read_mantissa_ok isd (Hd : nz isd) mark n st : (nu st < n)%nat ->
  exists r st', read_mantissa isd mark n st = OK (r, st') /\ le_st st' st /\
                (isd (ch st) = true -> (nu st' < nu st)%nat).
Proof.
  intros H. unfold read_mantissa.
  destruct (read_while_ok isd Hd n st H) as (a & st1 & R1 & L1 & S1).
  rewrite R1. cbn [bind].
  assert (H1 : (nu st1 < n)%nat) by (destruct L1; lia).
  assert (Hmid : exists bf st2,
             (if ch st1 =? 46
              then match cons_res 46 (read_while isd n (read_char st1)) with
                   | OK (b, s) => OK (b, true, s)
                   | Err => Err | Crash => Crash | OutOfFuel => OutOfFuel
                   end
              else OK ([], false, st1)) = OK (bf, st2) /\ le_st st2 st1).
  { destruct (ch st1 =? 46).
    - pose proof (read_char_le st1) as Lc.
      destruct (read_while_ok isd Hd n (read_char st1)) as (b & st2 & R2 & L2 & _).
      { destruct Lc. lia. }
      rewrite R2. cbn. eexists _, st2. split; [reflexivity|]. eapply le_trans; eassumption.
    - eexists _, st1. split; [reflexivity|apply le_refl]. }
  destruct Hmid as ([b isf] & st2 & R2 & L2). rewrite R2. cbn [bind].
  assert (L02 : le_st st2 st) by (eapply le_trans; eassumption).
  destruct (ch st2 =? mark).
  - destruct (read_exponent_ok n st2) as (e & st3 & R3 & L3).
    { destruct L02. lia. }
    rewrite R3. cbn [bind]. eexists _, st3. split; [reflexivity|].
    split; [eapply le_trans; eassumption|].
    intros Hc. specialize (S1 Hc). destruct L2, L3. lia.
  - eexists _, st2. split; [reflexivity|]. split; [exact L02|].
    intros Hc. specialize (S1 Hc). destruct L2. lia.
Qed.

Lemma read_number_ok n st : (nu st < n)%nat -> is_decimal (ch st) = true ->
  exists r st', read_number n st = OK (r, st') /\ le_st st' st /\ (nu st' < nu st)%nat.
Proof.
  intros H Hd. unfold read_number.
  assert (Hc : ch st <> 0) by (apply nz_decimal; exact Hd).
  destruct ((ch st =? 48) && ((peek_char st =? 120) || (peek_char st =? 88))).
  - pose proof (read_char_le st) as L1. pose proof (read_char_lt st Hc) as S1.
    pose proof (read_char_le (read_char st)) as L2.
    destruct (read_mantissa_ok is_hex nz_hex 112 n (read_char (read_char st))) as (r & st3 & R & L3 & _).
    { destruct L1, L2. lia. }
    rewrite R. cbn [bind]. destruct r as [[l isf] x].
    eexists _, st3. split; [reflexivity|].
    split; [eapply le_trans; [exact L3|eapply le_trans; eassumption]|].
    destruct L2, L3. lia.
  - destruct (read_mantissa_ok is_decimal nz_decimal 101 n st H) as (r & st3 & R & L3 & S3).
    rewrite R. cbn [bind]. destruct r as [[l isf] x].
    eexists _, st3. split; [reflexivity|]. split; [exact L3|]. apply S3. exact Hd.
Qed.

(* ---- the identifier tail ---- *)
Lemma ident_cont_nz c : is_ident_cont c = true -> c <> 0.
Proof. intros H E. subst c. discriminate. Qed.

Lemma ident_more_ok : forall n st, (nu st < n)%nat ->
  exists l st', ident_more n st = OK (l, st') /\ le_st st' st.
Proof.
  induction n as [|n IH]; intros st Hn; [lia|].
  cbn [ident_more]. destruct (is_ident_cont (ch st)) eqn:E.
  - pose proof (read_char_lt st (ident_cont_nz _ E)) as Hlt.
    pose proof (read_char_le st) as Lc.
    destruct (read_while_ok is_letter nz_letter n (read_char st)) as (a & st1 & R1 & L1 & _); [lia|].
    unfold read_identifier. rewrite R1. cbn [bind].
    destruct (IH st1) as (b & st2 & R2 & L2). { destruct L1. lia. }
    rewrite R2. cbn [bind]. eexists _, st2. split; [reflexivity|].
    eapply le_trans; [exact L2|]. eapply le_trans; eassumption.
  - exists [], st. split; [reflexivity|apply le_refl].
Qed.
