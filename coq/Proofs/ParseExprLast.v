(* The last token of a parsed expression is never a statement keyword: used to show that the
   `lc.Statements[len(lc.Statements)-1]` of ParseSwitchStatement cannot fault (a case clause that
   ParseCaseStatement accepted ends in `break;` or `fallthrough;`, hence has a statement). *)
From Coq Require Import List NArith ZArith Bool Lia.
From Falco Require Import Base.Bytes Gen.TokenTypes Model.ParseKinds Gen.ParserTables
  Model.ParseBase Model.Ast Model.ParseLit Model.ParseExpr Model.Yield
  Proofs.ParseTables Proofs.ParseExprYield.
Import ListNotations.
Local Open Scope parse_scope.

(* token types an expression can end with *)
Definition expr_end (t : ttype) : Prop :=
  (exists k, doc_prefix t = Some k) \/ t = T_RIGHT_PAREN \/ t = T_PERCENT \/ t = T_CLOSE_LONG_STRING.
Definition EE (st : pstate) : Prop := expr_end (typ (cur st)).

Lemma expr_end_not_kw t : expr_end t -> t <> T_BREAK /\ t <> T_FALLTHROUGH.
Proof.
  intros [[k H]|[H|[H|H]]]; try (subst; split; discriminate).
  destruct t; simpl in H; try discriminate; split; discriminate.
Qed.

Section E.
Variable fok : str -> bool.
Notation pexpr := (pexpr fok).
Notation ploop := (ploop fok).
Notation pargs := (pargs fok).

Lemma expect_cur st t st' : expect st t = POK st' -> typ (cur st') = t.
Proof.
  unfold expect, expect_peek. destruct (peek_is st t) eqn:E; [|discriminate].
  intros H. inversion H; subst. apply peek_is_true in E. exact E.
Qed.

Lemma pprefix_last rec k st lft st1 :
  (forall prec s e s', rec prec s = POK (e, s') -> EE s') ->
  assoc (typ (cur st)) prefix_parsers = Some k ->
  pprefix fok rec k st = POK (lft, st1) -> EE st1.
Proof.
  intros IH Ek Ha.
  assert (Hst : EE st) by (left; exists k; rewrite <- prefix_doc; exact Ek).
  destruct k; cbn [pprefix] in Ha.
  - inversion Ha; subst. exact Hst.
  - binv Ha. inversion Ha; subst. exact Hst.
  - binv Ha. destruct a as [[[[o s] c] v] st2]. inversion Ha; subst.
    unfold plong in Ha0. destruct (negb (peek_is st T_STRING)); [discriminate|].
    destruct (pstring (next st)); try discriminate.
    destruct (peek_is (next st) T_CLOSE_LONG_STRING) eqn:Ec; cbn [negb] in Ha0; [|discriminate].
    destruct (negb _); [discriminate|]. inversion Ha0; subst.
    right. right. right. apply peek_is_true in Ec. exact Ec.
  - unfold pinteger in Ha. binv Ha. inversion Ha; subst. exact Hst.
  - unfold pfloat in Ha. destruct (fok _); [|discriminate]. inversion Ha; subst. exact Hst.
  - unfold prtime in Ha. destruct (rtime_value _); [|discriminate].
    destruct (fok _); [|discriminate]. inversion Ha; subst. exact Hst.
  - binv Ha. destruct a as [r st2]. inversion Ha; subst. eapply IH; eauto.
  - inversion Ha; subst. exact Hst.
  - binv Ha. destruct a as [r st2]. binv Ha. inversion Ha; subst.
    right. left. eapply expect_cur; eauto.
  - binv Ha. rename a into s1. binv Ha. destruct a as [c s2]. binv Ha. rename a into s3.
    binv Ha. destruct a as [t s4]. binv Ha. rename a into s5. binv Ha. destruct a as [e0 s6].
    binv Ha. rename a into s7. inversion Ha; subst.
    right. left. eapply expect_cur; eauto.
Qed.

Lemma pinfix_last rec recargs k l st1 l2 st2 :
  (forall prec s e s', rec prec s = POK (e, s') -> EE s') ->
  (forall s a s', recargs s = POK (a, s') -> typ (cur s') = T_RIGHT_PAREN) ->
  pinfix rec recargs k l st1 = POK (l2, st2) -> EE st2.
Proof.
  intros IHe IHa Ha. destruct k as [|ex|]; [|destruct ex|]; cbn [pinfix] in Ha.
  - binv Ha. destruct a as [r s]. inversion Ha; subst. eapply IHe; eauto.
  - binv Ha. destruct a as [r s]. inversion Ha; subst. eapply IHe; eauto.
  - binv Ha. destruct a as [r s]. inversion Ha; subst. eapply IHe; eauto.
  - destruct l; try discriminate. binv Ha. destruct a as [ar s]. inversion Ha; subst.
    right. left. eapply IHa; eauto.
Qed.

Lemma last_all : forall n,
  (forall prec st e st', pexpr n prec st = POK (e, st') -> EE st') /\
  (forall prec l st e st', ploop n prec l st = POK (e, st') -> EE st -> EE st') /\
  (forall st a st', pargs n st = POK (a, st') -> typ (cur st') = T_RIGHT_PAREN).
Proof.
  induction n as [|n [IHe [IHl IHa]]]; [repeat split; intros; discriminate|].
  split; [|split].
  - intros prec st e st' H. cbn [ParseExpr.pexpr] in H.
    destruct (assoc (typ (cur st)) prefix_parsers) as [k|] eqn:Ek; [|discriminate].
    binv H. destruct a as [lft st1]. apply (pprefix_last _ _ _ _ _ IHe Ek) in Ha.
    eapply IHl; eauto.
  - intros prec l st e st' H Hst. cbn [ParseExpr.ploop] in H.
    destruct (_ || _). { inversion H; subst. exact Hst. }
    destruct (assoc (typ (peek st)) infix_parsers) as [k|] eqn:Ek.
    2:{ destruct (assoc (typ (peek st)) postfix_parsers) as [[]|] eqn:Eq; [|inversion H; subst; exact Hst].
        eapply IHl; [exact H|]. right. right. left.
        rewrite <- peek_next. rewrite postfix_doc in Eq. destruct (typ (peek st)); simpl in Eq; try discriminate. reflexivity. }
    binv H. destruct a as [l2 st2]. apply (pinfix_last _ _ _ _ _ _ _ IHe IHa) in Ha. eapply IHl; eauto.
  - intros st a st' H. cbn [ParseExpr.pargs] in H.
    destruct (peek_is st T_RIGHT_PAREN) eqn:E.
    { inversion H; subst. rewrite <- peek_next. apply peek_is_true. exact E. }
    binv H. destruct a0 as [e s1]. binv H. destruct a0 as [m s2]. binv H. inversion H; subst.
    eapply expect_cur; eauto.
Qed.

Lemma parse_expr_last prec st e st' : parse_expr fok prec st = POK (e, st') -> EE st'.
Proof. apply (proj1 (last_all _)). Qed.

End E.
